package main

// C13 — RAC writer: the fault clause "if the underlying writer or temp file
// fails at any point, the failure is reported and stays reported", plus the
// structural arity/size constants. See DESIGN.md §4 "C13".
//
//   S1 (c13_sticky.go)  sticky propagation of I/O errors (go/ssa + summaries)
//   S2                  entry guards / stage guards / no clobbering of the sticky error (go/cfg, E1)
//   S3                  no dropped error results in the writer files
//   S4                  Writer.Write buffer protocol extend … compact
//   S5                  arity / node-size constants agree (go/types constants)

import (
	"fmt"
	"go/ast"
	"go/token"
	"go/types"
	"os"
	"path/filepath"
	"regexp"
	"sort"
	"strconv"
	"strings"
	"time"

	"golang.org/x/tools/go/packages"
	"golang.org/x/tools/go/ssa"
	"golang.org/x/tools/go/ssa/ssautil"

	"wv/core"
)

func init() {
	register("C13", core.Spec{
		Decides:    "the fault clause of C13 for rac.Writer and its callee rac.ChunkWriter, as structure: (S1) every non-nil error produced by the underlying io.Writer / io.ReadWriter / io.Seeker values or io.Copy — directly, through helpers that return it unstored (computed summaries), or through the ChunkWriter — is stored in the owner's sticky `err` field on every path before an exported method (Writer.Write/Close, ChunkWriter.AddChunk/AddResource/Close) returns; (S2) every exported method consults the sticky error (directly, through initialize(), or through the `closed` flag) before its first effect on the underlying writer, the pending buffer or its own state, Writer.Close runs each I/O stage only under `w.err == nil`, and no store can clear or overwrite a set sticky error with a possibly-nil value; (S3) no call in the writer files drops an error result; (S4) Writer.Write passes writeBuffer.compact() on every exit after writeBuffer.extend(p); (S5) the arity budgets of gather (255 / 254 for long codecs), writeIndex's arity guard, the nodeWriter buffer, the reader's rNode buffer and the node-size formula agree with each other and with the specification's maximum arity 255; and, of the round trip, these structural necessary conditions: (T.tree, c13_tree.go) gather never builds a branch node around a single child that is itself a branch (the anti-loop rule that ChunkReader enforces), the remainder of a level is carried into the next level, calcEncodedSize and writeIndex traverse the tree on the same schedule; (B, c13_buf.go) the two-slice pending buffer prev[p:] ++ curr is consumed in stream order (curr only when prev[p:] is or becomes empty, the amount taken from curr is the count minus what prev held, peek hands out (prev-part, curr-prefix) in that order, length() is len(prev)-p+len(curr)), prev never aliases the caller's slice and curr is released only after being copied; (Z.lead) the zeroes skipped after a chunk are added to that chunk's dRangeSize, after the chunk's own bytes were consumed; (Z.strip, D.stash, c13_more.go) trailing-zero elision and racdict's stash; (E.drain, c13_eof.go) with eof == true the chunking functions return success only behind an edge implying that nothing is pending, edges being excluded by constant propagation under eof == true with the computed summary of tryCChunk",
		NotDecided: "the round trip itself and spec-validity of the bytes written as values: compression and Cut, the grow-then-cut search for CChunkSize, index offsets and tags (that calcEncodedSize's arithmetic yields the written positions, dataCOffset/indexCOffset, resourceToTag), padding, checksums; in gather, that a level above the leaves holds at least two nodes when the root is built from a whole level and that a group closed on budget overflow holds at least two nodes (both true by arithmetic on the budget constants, not re-derived); that consecutive groups are contiguous (i = j). Errors of CodecWriter (Compress, Cut, WrapResource, Close) are not I/O sources: the code deliberately returns a Compress error without making it sticky, and whether retrying after it is actually safe is not decided. Faults that surface as panics rather than errors are not decided",
		Assumptions: []string{
			"go/types, go/cfg and go/ssa (x/tools v0.29.0) model Go control flow and values faithfully",
			"an I/O source is a call whose resolved callee belongs to package io or os (interface methods of io.Writer/io.ReadWriter/io.Seeker/io.Reader, io.Copy, …); the sticky field of an owner type is its unique field of type error",
			"an I/O error is never equal to a package-level sentinel of lib/rac (used only to prune `err == errInternalShortCSize` edges)",
			"an obligation whose anchor or idiom is not recognised fails as undecided",
		},
	}, runC13)
}

const relRac = "lib/rac"

type c13 struct {
	k     *gctx
	c     *core.Ctx
	g     *core.GoProg
	pkg   *packages.Package
	info  *types.Info
	files map[*ast.File]bool
	funcs []*core.Func
	byObj map[*types.Func]*core.Func

	doesIO     map[*types.Func]bool   // transitively reaches a primary I/O call
	mutatesRcv map[*types.Func]bool   // assigns to a field of its own receiver
	leak       map[*types.Func]string // S1 summary: non-empty = may return an I/O error unstored (origin text)
	prog       *ssa.Program
}

func runC13(c *core.Ctx) {
	t0 := time.Now()
	k := newG(c, "./lib/rac")
	c.Analysed("t_load_s", time.Since(t0).Seconds())
	s := &c13{k: k, c: c, g: k.g, files: map[*ast.File]bool{}, byObj: map[*types.Func]*core.Func{},
		doesIO: map[*types.Func]bool{}, mutatesRcv: map[*types.Func]bool{}, leak: map[*types.Func]string{}}
	s.pkg = k.g.Pkg(relRac)
	if s.pkg == nil {
		c.Undecided("anchors", relRac, "package lib/rac is loaded", "package not found")
		return
	}
	s.info = s.pkg.TypesInfo
	// go/ssa must be built before any core.Flow is made (Flow inserts marker
	// statements for break/continue into the syntax trees). Only lib/rac gets
	// function bodies; its dependencies are created from type information.
	s.prog, _ = ssautil.Packages([]*packages.Package{s.pkg}, ssa.InstantiateGenerics)
	s.prog.Build()
	c.Analysed("t_load_ssa_s", time.Since(t0).Seconds())

	// Scope: the files that declare the Writer and ChunkWriter types.
	for _, tn := range []string{"Writer", "ChunkWriter"} {
		o := k.obj("anchors", relRac, tn)
		if o == nil {
			return
		}
		for _, f := range s.pkg.Syntax {
			if f.Pos() <= o.Pos() && o.Pos() < f.End() {
				s.files[f] = true
			}
		}
	}
	for _, f := range k.g.AllFuncs(s.pkg) {
		for file := range s.files {
			if file.Pos() <= f.Decl.Pos() && f.Decl.Pos() < file.End() && f.Obj != nil {
				s.funcs = append(s.funcs, f)
				s.byObj[f.Obj] = f
			}
		}
	}
	sort.Slice(s.funcs, func(i, j int) bool { return s.funcs[i].Decl.Pos() < s.funcs[j].Decl.Pos() })
	var fnames []string
	for f := range s.files {
		fnames = append(fnames, filepath.Base(k.g.Fset.Position(f.Pos()).Filename))
	}
	sort.Strings(fnames)
	c.Analysed("writer_files", fnames)
	c.Analysed("writer_functions", len(s.funcs))
	c.Floor("anchors", "functions declared in the RAC writer files (writer.go, chunk_writer.go)", len(s.funcs), 25)

	s.summaries()
	s.ruleSticky()   // S1
	s.ruleGuards()   // S2
	s.ruleErrcheck() // S3
	s.ruleBuffer()   // S4
	s.ruleConsts()   // S5
	t1 := time.Now()
	s.ruleTree() // T.tree (c13_tree.go)
	s.ruleBuf()  // B, Z.lead (c13_buf.go)
	s.ruleEof()  // E.drain (c13_eof.go)
	c.Analysed("t_tree_buf_s", time.Since(t1).Seconds())
	runC13More(c)
}

// ownerOf: the receiver's named type and its sticky field (the unique field of
// type error), nil when the function has no receiver / the type has no such field.
func (s *c13) ownerOf(f *types.Func) (*types.Named, *types.Var) {
	if f == nil {
		return nil, nil
	}
	sig, ok := f.Type().(*types.Signature)
	if !ok || sig.Recv() == nil {
		return nil, nil
	}
	t := sig.Recv().Type()
	if p, ok := t.(*types.Pointer); ok {
		t = p.Elem()
	}
	n, ok := types.Unalias(t).(*types.Named)
	if !ok {
		return nil, nil
	}
	return n, c13StickyField(n)
}

func c13StickyField(n *types.Named) *types.Var {
	st, ok := n.Underlying().(*types.Struct)
	if !ok {
		return nil
	}
	var found []*types.Var
	for i := 0; i < st.NumFields(); i++ {
		if c13IsErr(st.Field(i).Type()) {
			found = append(found, st.Field(i))
		}
	}
	if len(found) == 1 {
		return found[0]
	}
	for _, f := range found {
		if f.Name() == "err" {
			return f
		}
	}
	return nil
}

// summaries computes doesIO and mutatesRcv over the scope (AST, resolved callees).
func (s *c13) summaries() {
	calls := map[*types.Func][]*types.Func{}
	for _, f := range s.funcs {
		var recv types.Object
		if f.Decl.Recv != nil && len(f.Decl.Recv.List) > 0 && len(f.Decl.Recv.List[0].Names) > 0 {
			recv = s.info.Defs[f.Decl.Recv.List[0].Names[0]]
		}
		ast.Inspect(f.Decl.Body, func(n ast.Node) bool {
			switch x := n.(type) {
			case *ast.CallExpr:
				if cal := core.Callee(s.info, x); cal != nil {
					cal = cal.Origin()
					if c13PrimaryIO(cal) {
						s.doesIO[f.Obj] = true
					}
					calls[f.Obj] = append(calls[f.Obj], cal)
				}
			case *ast.AssignStmt:
				for _, l := range x.Lhs {
					if recv != nil && c13RootedAt(s.info, l, recv) && !c13IsIdent(l) {
						s.mutatesRcv[f.Obj] = true
					}
				}
			case *ast.IncDecStmt:
				if recv != nil && c13RootedAt(s.info, x.X, recv) && !c13IsIdent(x.X) {
					s.mutatesRcv[f.Obj] = true
				}
			}
			return true
		})
	}
	for changed := true; changed; {
		changed = false
		for _, f := range s.funcs {
			if s.doesIO[f.Obj] {
				continue
			}
			for _, cal := range calls[f.Obj] {
				if s.doesIO[cal] {
					s.doesIO[f.Obj] = true
					changed = true
					break
				}
			}
		}
	}
	var io []string
	for o, v := range s.doesIO {
		if v {
			io = append(io, c13ShortName(o))
		}
	}
	sort.Strings(io)
	s.c.Analysed("functions_reaching_io", io)
}

func c13IsIdent(e ast.Expr) bool { _, ok := ast.Unparen(e).(*ast.Ident); return ok }

// c13RootedAt: e is obj, or a selector / index / slice / deref chain whose root identifier is obj.
func c13RootedAt(info *types.Info, e ast.Expr, obj types.Object) bool {
	for {
		switch x := ast.Unparen(e).(type) {
		case *ast.Ident:
			return obj != nil && (info.Uses[x] == obj || info.Defs[x] == obj)
		case *ast.SelectorExpr:
			e = x.X
		case *ast.IndexExpr:
			e = x.X
		case *ast.SliceExpr:
			e = x.X
		case *ast.StarExpr:
			e = x.X
		default:
			return false
		}
	}
}

// ---------------------------------------------------------------------------
// S2 — guards
// ---------------------------------------------------------------------------

// recvField: e is `recv.<field>` (recv the method's receiver identifier).
func c13RecvField(fl *core.Flow, field *types.Var) core.ExprPred {
	return func(e ast.Expr) bool {
		sel, ok := ast.Unparen(e).(*ast.SelectorExpr)
		if !ok || field == nil || fl.F.Info().Uses[sel.Sel] != types.Object(field) {
			return false
		}
		return fl.Recv() != nil && fl.Is(fl.Recv())(sel.X)
	}
}

// effectCall: the call acts on the underlying writer (primary I/O, or a scope
// function that reaches one) or mutates a buffer/state object rooted at the receiver.
func (s *c13) effectCall(fl *core.Flow, exempt *types.Func) func(*ast.CallExpr) bool {
	info := fl.F.Info()
	return func(call *ast.CallExpr) bool {
		cal := core.Callee(info, call)
		if cal == nil {
			return false
		}
		cal = cal.Origin()
		if exempt != nil && cal == exempt {
			return false
		}
		if c13PrimaryIO(cal) || s.doesIO[cal] {
			return true
		}
		if s.mutatesRcv[cal] {
			if r := core.RecvOf(call); r != nil && fl.Recv() != nil && c13RootedAt(info, r, fl.Recv()) {
				return true
			}
		}
		return false
	}
}

// effectAssign: the node assigns to state rooted at the receiver other than the sticky field.
func c13EffectAssign(fl *core.Flow, sticky *types.Var) func(ast.Node) bool {
	info := fl.F.Info()
	isState := func(l ast.Expr) bool {
		if fl.Recv() == nil || c13IsIdent(l) || !c13RootedAt(info, l, fl.Recv()) {
			return false
		}
		return !c13RecvField(fl, sticky)(l)
	}
	return func(n ast.Node) bool {
		switch x := n.(type) {
		case *ast.AssignStmt:
			for _, l := range x.Lhs {
				if isState(l) {
					return true
				}
			}
		case *ast.IncDecStmt:
			return isState(x.X)
		}
		return false
	}
}

// thenReturns: the if statement's body ends in `return …, X` with X satisfying p.
func c13ThenReturns(ci *core.CondInfo, p core.ExprPred) bool {
	if ci == nil || ci.Kind != "if" {
		return false
	}
	is, ok := ci.Stmt.(*ast.IfStmt)
	if !ok || len(is.Body.List) == 0 {
		return false
	}
	r, ok := is.Body.List[len(is.Body.List)-1].(*ast.ReturnStmt)
	return ok && len(r.Results) > 0 && p(r.Results[len(r.Results)-1])
}

// stickyNil edges: the edge on which recv.<sticky> is known to be nil.
func c13StickyNilEdge(fl *core.Flow, sticky *types.Var) func(ast.Expr, *core.CondInfo, bool) bool {
	sf := c13RecvField(fl, sticky)
	return func(cond ast.Expr, ci *core.CondInfo, taken bool) bool {
		return (taken && nilTest(fl, cond, sf, true)) || (!taken && nilTest(fl, cond, sf, false))
	}
}

func (s *c13) ruleGuards() {
	c, k := s.c, s.k
	type row struct {
		recv, name string
		closedFlag bool // Writer.Close: the consult is the `closed` flag
		isInit     bool
		minEffects int
		why        string
	}
	rows := []row{
		{"Writer", "initialize", false, true, 5, "first branch returns w.err; everything else in initialize is configuration of w.chunkWriter"},
		{"Writer", "Write", false, false, 3, "initialize() precedes uncompressed.extend / write / compact"},
		{"Writer", "Close", true, false, 2, "closed guard first: a second Close returns the sticky error and does nothing"},
		{"ChunkWriter", "initialize", false, true, 4, "first branch returns w.err; then initialized=true, Seek, write(magic)"},
		{"ChunkWriter", "AddChunk", false, false, 3, "w.err consulted first"},
		{"ChunkWriter", "AddResource", false, false, 3, "initialize() (which consults w.err) precedes write(resource)"},
		{"ChunkWriter", "Close", false, false, 6, "w.err consulted first"},
	}
	for _, r := range rows {
		fl := k.flow("S2.entry", relRac, r.recv, r.name)
		if fl == nil {
			continue
		}
		anchor := fl.F.Name()
		_, sticky := s.ownerOf(fl.F.Obj)
		if sticky == nil || fl.Recv() == nil {
			c.Undecided("S2.entry", anchor, "the receiver type has a sticky error field", "no unique field of type error in the receiver type")
			continue
		}
		var initFn *types.Func
		if !r.isInit {
			if f := s.g.FindFunc(relRac, r.recv, "initialize"); f != nil {
				initFn = f.Obj
			}
		}
		sf := c13RecvField(fl, sticky)
		var errv core.ExprPred = func(ast.Expr) bool { return false }
		initCall := func(call *ast.CallExpr) bool { return false }
		if initFn != nil {
			initCall = func(call *ast.CallExpr) bool {
				return core.IsCallTo(fl.F.Info(), call, initFn) && core.RecvOf(call) != nil && fl.Is(fl.Recv())(core.RecvOf(call))
			}
			errv = errVarFrom(fl, initCall)
		}
		var closedP core.ExprPred = func(ast.Expr) bool { return false }
		if r.closedFlag {
			owner, _ := s.ownerOf(fl.F.Obj)
			var closed *types.Var
			if st, ok := owner.Underlying().(*types.Struct); ok {
				// the bool field tested by the first guard; resolved as the unique bool field of the owner
				var bools []*types.Var
				for i := 0; i < st.NumFields(); i++ {
					if b, ok := st.Field(i).Type().Underlying().(*types.Basic); ok && b.Kind() == types.Bool {
						bools = append(bools, st.Field(i))
					}
				}
				if len(bools) == 1 {
					closed = bools[0]
				}
			}
			if closed == nil {
				c.Undecided("S2.entry", anchor, "the owner has a unique bool `closed` flag", "not found")
				continue
			}
			closedP = c13RecvField(fl, closed)
		}
		nilEdge := c13StickyNilEdge(fl, sticky)
		consult := func(cond ast.Expr, ci *core.CondInfo, taken bool) bool {
			if r.closedFlag {
				// Writer.Close: `if w.closed { return w.err }`, or — equivalent for every I/O stage — a `w.err == nil` stage guard.
				if !taken && closedP(ast.Unparen(cond)) && c13ThenReturns(ci, sf) {
					return true
				}
				return nilEdge(cond, ci, taken)
			}
			if taken {
				return false
			}
			if nilTest(fl, cond, sf, false) && c13ThenReturns(ci, sf) {
				return true // if w.err != nil { return …, w.err }
			}
			if initFn != nil && nilTest(fl, cond, errv, false) && c13ThenReturns(ci, errv) {
				return true // if err := w.initialize(); err != nil { return …, err }
			}
			return false
		}
		eff := s.effectCall(fl, initFn)
		effA := c13EffectAssign(fl, sticky)
		if r.closedFlag {
			effA = func(ast.Node) bool { return false } // `w.closed = true` is the flag itself, not an effect on the output
		}
		isEffect := func(n ast.Node) bool { return effA(n) || core.AnyCall(n, eff) }
		// A return that hands back something other than the sticky error (or initialize()'s result) before the consult
		// would report success / another value while the object is failing.
		earlyReturn := func(n ast.Node) bool {
			ret, ok := n.(*ast.ReturnStmt)
			if !ok || len(ret.Results) == 0 {
				return false
			}
			last := ret.Results[len(ret.Results)-1]
			return !sf(last) && !errv(last)
		}
		neff := 0
		for _, b := range fl.G.Blocks {
			for _, n := range b.Nodes {
				if isEffect(n) {
					neff++
				}
			}
		}
		claim := "the sticky error is consulted (" + c13If(r.closedFlag, "`if w.closed { return w.err }` or a `w.err == nil` stage guard", "`if w.err != nil { return w.err }` or `if err := w.initialize(); err != nil { return err }`") +
			") before the first effect on the underlying writer, the pending buffer or the object's state, and before any return of something other than that error: " + r.why
		k.mustPass("S2.entry", anchor, claim, fl, core.Query{
			Events: []core.Event{{Edge: consult}},
			Exit:   func(n ast.Node) bool { return isEffect(n) || earlyReturn(n) },
		})
		c.Floor("S2.entry", "effect nodes (I/O-reaching calls, buffer mutators, state assignments) in "+anchor, neff, r.minEffects)
	}

	// S2.stage — Writer.Close: every I/O stage runs only under w.err == nil, re-checked after every store to w.err.
	if fl := k.flow("S2.stage", relRac, "Writer", "Close"); fl != nil {
		_, sticky := s.ownerOf(fl.F.Obj)
		if sticky == nil {
			c.Undecided("S2.stage", fl.F.Name(), "sticky field", "not found")
		} else {
			var initFn *types.Func
			if f := s.g.FindFunc(relRac, "Writer", "initialize"); f != nil {
				initFn = f.Obj // consults w.err itself (S2.entry row) and does no I/O
			}
			eff := s.effectCall(fl, initFn)
			nilEdge := c13StickyNilEdge(fl, sticky)
			mayStore := s.mayStoreSticky(fl, sticky)
			exit := func(n ast.Node) bool { return core.AnyCall(n, eff) }
			nst := 0
			for _, b := range fl.G.Blocks {
				for _, n := range b.Nodes {
					if exit(n) {
						nst++
					}
				}
			}
			claim := "in Writer.Close each stage that touches the chunk writer / underlying writer (write(true), chunkWriter.Close()) is reached only along the `w.err == nil` edge, re-tested after every statement that may set w.err: an earlier failure is neither retried past nor overwritten"
			k.mustPass("S2.stage", fl.F.Name()+"[from entry]", claim, fl, core.Query{Events: []core.Event{{Edge: nilEdge}}, Exit: exit})
			s.passFromEach("S2.stage", fl.F.Name()+"[after each store to w.err]", claim, fl, mayStore, core.Query{Events: []core.Event{{Edge: nilEdge}}, Exit: exit}, true)
			c.Floor("S2.stage", "I/O stages in Writer.Close (write(true), chunkWriter.Close())", nst, 2)
		}
	}

	// S2.clobber — no store into the sticky field can clear or overwrite a set error.
	nStores, nGuarded := 0, 0
	for _, f := range s.funcs {
		_, sticky := s.ownerOf(f.Obj)
		if sticky == nil {
			continue
		}
		recvName := strings.TrimPrefix(c13RecvTypeName(f.Decl), "*")
		fl := k.flow("S2.clobber", relRac, recvName, f.Decl.Name.Name)
		if fl == nil || fl.Recv() == nil {
			continue
		}
		sf := c13RecvField(fl, sticky)
		var stores []*ast.AssignStmt
		ast.Inspect(f.Decl.Body, func(n ast.Node) bool {
			if as, ok := n.(*ast.AssignStmt); ok {
				for _, l := range as.Lhs {
					if sf(l) {
						stores = append(stores, as)
					}
				}
			}
			return true
		})
		ord := 0
		for _, as := range stores {
			nStores++
			ord++
			anchor := fmt.Sprintf("%s[%s.%s = … #%d]", fl.F.Name(), "recv", sticky.Name(), ord)
			if as.Tok != token.ASSIGN || len(as.Lhs) != 1 || len(as.Rhs) != 1 {
				c.Undecided("S2.clobber", anchor, "a store to the sticky field is a plain single assignment", s.g.Pos(as.Pos())+": unrecognised assignment form")
				continue
			}
			rhs := ast.Unparen(as.Rhs[0])
			if s.provablyNonNil(fl, rhs) {
				continue
			}
			nGuarded++
			nilEdge := c13StickyNilEdge(fl, sticky)
			var v types.Object
			if id, ok := rhs.(*ast.Ident); ok {
				if o, ok := fl.Obj(id).(*types.Var); ok && !o.IsField() && o.Parent() != o.Pkg().Scope() {
					v = o
				}
			}
			vp := func(e ast.Expr) bool { return v != nil && fl.Obj(e) == v }
			vNonNil := func(cond ast.Expr, ci *core.CondInfo, taken bool) bool {
				return (taken && nilTest(fl, cond, vp, false)) || (!taken && nilTest(fl, cond, vp, true))
			}
			definesV := func(n ast.Node) bool {
				if v == nil {
					return false
				}
				if x, ok := n.(*ast.AssignStmt); ok {
					for _, l := range x.Lhs {
						if id, ok := l.(*ast.Ident); ok && fl.Obj(id) == v {
							return true
						}
					}
				}
				return false
			}
			mayStore := s.mayStoreSticky(fl, sticky)
			target := as
			exit := func(n ast.Node) bool { return n == ast.Node(target) }
			claim := "a store into the sticky field whose value may be nil (a call result, an untested local) happens only (a) where the sticky field is known nil since the last statement that may have set it, or (b) where the stored value is known non-nil since its last definition: a reported failure is never cleared or replaced by a later nil"
			// (b) the stored local is tested non-nil on every path from entry and from each of its definitions.
			okB := false
			var whyB []string
			if v != nil {
				e1, n1 := fl.Escapes(core.Query{Events: []core.Event{{Edge: vNonNil}}, Exit: exit})
				e2, n2, _ := c13FromEach(fl, func(n ast.Node) bool { return n != ast.Node(target) && definesV(n) }, core.Query{Events: []core.Event{{Edge: vNonNil}}, Exit: exit})
				if len(e1)+len(e2) == 0 {
					okB = true
					c.Pass("S2.clobber", anchor, claim, n1+n2+1, "(b) the stored local is known non-nil on every path")
				}
				for _, e := range append(e1, e2...) {
					whyB = append(whyB, "(b) "+e.String())
				}
			} else {
				whyB = append(whyB, "(b) the stored value is not a local variable that could be tested")
			}
			if okB {
				continue
			}
			// (a) the sticky field is known nil: from entry and from every statement that may set it. The call that
			// produces the stored value itself is not such a statement (a helper that sets the sticky error returns it).
			rearm := func(n ast.Node) bool { return n != ast.Node(target) && !definesV(n) && mayStore(n) }
			e1, n1 := fl.Escapes(core.Query{Events: []core.Event{{Edge: nilEdge}}, Exit: exit})
			e2, n2, _ := c13FromEach(fl, rearm, core.Query{Events: []core.Event{{Edge: nilEdge}}, Exit: exit})
			if len(e1)+len(e2) == 0 {
				c.Pass("S2.clobber", anchor, claim, n1+n2+1, "(a) stored only where the sticky field is known nil")
				continue
			}
			var lines []string
			for _, e := range append(e1, e2...) {
				lines = append(lines, "(a) "+e.String())
			}
			lines = append(lines, whyB...)
			c.Fail("S2.clobber", anchor, claim, n1+n2, fmt.Sprintf("%s: `%s` satisfies neither guard form\n%s", s.g.Pos(as.Pos()), core.Src(s.g.Fset, as), strings.Join(lines, "\n")))
		}
	}
	c.Floor("S2.clobber", "stores into a sticky error field in the writer files", nStores, 30)
	c.Floor("S2.clobber", "of which possibly-nil values that need a guard (Writer.Close ×4 `w.err = <call>` / `w.err = err`, plus `w.err = err` under `if err != nil`)", nGuarded, 15)
}

// c13FromEach runs q once per CFG node satisfying start, with tracking beginning
// after that single node. (One query with a Start predicate would stop looking
// for further start nodes behind a discharging edge; the re-arming semantics
// "after EVERY such statement" needs one traversal per start node.)
func c13FromEach(fl *core.Flow, start func(ast.Node) bool, q core.Query) (esc []core.Escape, sites, nstart int) {
	var starts []ast.Node
	for _, b := range fl.G.Blocks {
		if !b.Live {
			continue
		}
		for _, n := range b.Nodes {
			if start(n) {
				starts = append(starts, n)
			}
		}
	}
	seen := map[string]bool{}
	for _, sn := range starts {
		sn := sn
		q1 := q
		q1.Start = func(n ast.Node) bool { return n == sn }
		e, k := fl.Escapes(q1)
		sites += k
		for _, x := range e {
			key := x.String()
			if !seen[key] {
				seen[key] = true
				x.Trail = append([]string{"from " + fl.F.Prog.Pos(sn.Pos()) + " `" + core.Src(fl.F.Prog.Fset, sn) + "`"}, x.Trail...)
				esc = append(esc, x)
			}
		}
	}
	return esc, sites, len(starts)
}

// passFromEach records the verdict of a c13FromEach query.
func (s *c13) passFromEach(rule, anchor, claim string, fl *core.Flow, start func(ast.Node) bool, q core.Query, needStart bool) bool {
	esc, sites, n := c13FromEach(fl, start, q)
	if len(esc) > 0 {
		var lines []string
		for _, e := range esc {
			lines = append(lines, e.String())
		}
		s.c.Fail(rule, anchor, claim, sites, fmt.Sprintf("in %s (%s):\n%s", fl.F.Name(), s.g.Pos(fl.F.Decl.Pos()), strings.Join(lines, "\n")))
		return false
	}
	if n == 0 && needStart {
		s.c.Undecided(rule, anchor, claim, "no statement of the expected kind found to start from (vacuous)")
		return false
	}
	s.c.Pass(rule, anchor, claim, sites+n, fmt.Sprintf("%d start statements; every path from each of them is guarded", n))
	return true
}

func c13RecvTypeName(d *ast.FuncDecl) string {
	if d.Recv == nil || len(d.Recv.List) == 0 {
		return ""
	}
	t := d.Recv.List[0].Type
	if st, ok := t.(*ast.StarExpr); ok {
		t = st.X
	}
	if id, ok := t.(*ast.Ident); ok {
		return id.Name
	}
	return ""
}

// mayStoreSticky: the node assigns recv.<sticky> or calls a method of the same owner on the receiver.
func (s *c13) mayStoreSticky(fl *core.Flow, sticky *types.Var) func(ast.Node) bool {
	sf := c13RecvField(fl, sticky)
	owner, _ := s.ownerOf(fl.F.Obj)
	info := fl.F.Info()
	return func(n ast.Node) bool {
		if as, ok := n.(*ast.AssignStmt); ok {
			for _, l := range as.Lhs {
				if sf(l) {
					return true
				}
			}
		}
		return core.AnyCall(n, func(call *ast.CallExpr) bool {
			cal := core.Callee(info, call)
			if cal == nil {
				return false
			}
			o, _ := s.ownerOf(cal.Origin())
			r := core.RecvOf(call)
			return o != nil && o == owner && r != nil && fl.Recv() != nil && fl.Is(fl.Recv())(r)
		})
	}
}

// provablyNonNil: a package-level error variable, errors.New / fmt.Errorf, or the sticky field itself.
func (s *c13) provablyNonNil(fl *core.Flow, e ast.Expr) bool {
	info := fl.F.Info()
	switch x := e.(type) {
	case *ast.Ident:
		if v, ok := info.Uses[x].(*types.Var); ok && v.Pkg() != nil && v.Parent() == v.Pkg().Scope() {
			return true
		}
	case *ast.SelectorExpr:
		if v, ok := info.Uses[x.Sel].(*types.Var); ok && !v.IsField() && v.Pkg() != nil && v.Parent() == v.Pkg().Scope() {
			return true
		}
	case *ast.CallExpr:
		if fn := core.Callee(info, x); fn != nil && fn.Pkg() != nil {
			switch fn.Pkg().Path() + "." + fn.Name() {
			case "errors.New", "fmt.Errorf":
				return true
			}
		}
	}
	return false
}

// ---------------------------------------------------------------------------
// S3 — no dropped error results
// ---------------------------------------------------------------------------

func (s *c13) ruleErrcheck() {
	c := s.c
	total := 0
	for _, f := range s.funcs {
		var bad []string
		n := 0
		var stack []ast.Node
		ast.Inspect(f.Decl.Body, func(m ast.Node) bool {
			if m == nil {
				stack = stack[:len(stack)-1]
				return true
			}
			stack = append(stack, m)
			call, ok := m.(*ast.CallExpr)
			if !ok {
				return true
			}
			tv, ok := s.info.Types[call]
			if !ok || tv.IsType() {
				return true
			}
			errIdx, nres := -1, 1
			switch t := tv.Type.(type) {
			case *types.Tuple:
				nres = t.Len()
				for i := 0; i < t.Len(); i++ {
					if c13IsErr(t.At(i).Type()) {
						errIdx = i
					}
				}
			default:
				if c13IsErr(tv.Type) {
					errIdx = 0
				}
			}
			if errIdx < 0 {
				return true
			}
			if _, isConv := s.info.Types[call.Fun]; isConv && s.info.Types[call.Fun].IsType() {
				return true
			}
			n++
			name := "function value"
			if cal := core.Callee(s.info, call); cal != nil {
				name = c13ShortName(cal)
			}
			var parent ast.Node
			for i := len(stack) - 2; i >= 0; i-- {
				if _, isParen := stack[i].(*ast.ParenExpr); !isParen {
					parent = stack[i]
					break
				}
			}
			drop := ""
			isBlank := func(e ast.Expr) bool { id, ok := e.(*ast.Ident); return ok && id.Name == "_" }
			switch p := parent.(type) {
			case *ast.ExprStmt:
				drop = "bare call: result ignored"
			case *ast.GoStmt:
				drop = "go statement: result ignored"
			case *ast.DeferStmt:
				drop = "defer statement: result ignored"
			case *ast.AssignStmt:
				if len(p.Rhs) == 1 && len(p.Lhs) == nres && nres > 1 {
					if isBlank(p.Lhs[errIdx]) {
						drop = "error result assigned to _"
					}
				} else {
					for i, r := range p.Rhs {
						if ast.Unparen(r) == ast.Expr(call) && i < len(p.Lhs) && isBlank(p.Lhs[i]) {
							drop = "error result assigned to _"
						}
					}
				}
			case *ast.ValueSpec:
				if len(p.Values) == 1 && len(p.Names) == nres && nres > 1 {
					if p.Names[errIdx].Name == "_" {
						drop = "error result declared as _"
					}
				} else {
					for i, r := range p.Values {
						if ast.Unparen(r) == ast.Expr(call) && i < len(p.Names) && p.Names[i].Name == "_" {
							drop = "error result declared as _"
						}
					}
				}
			}
			if drop != "" {
				bad = append(bad, fmt.Sprintf("%s: `%s` — %s (callee %s)", s.g.Pos(call.Pos()), core.Src(s.g.Fset, call), drop, name))
			}
			return true
		})
		total += n
		if n == 0 {
			continue
		}
		claim := "every call whose result includes an error has that result bound to a variable, returned or tested — none is a bare statement, a go/defer call or assigned to _ (no accepted exceptions in these files)"
		if len(bad) > 0 {
			c.Fail("S3.used", f.Name(), claim, n, strings.Join(bad, "\n"))
		} else {
			c.Pass("S3.used", f.Name(), claim, n, fmt.Sprintf("%d error-returning calls, all used", n))
		}
	}
	c.Floor("S3.used", "error-returning calls in the RAC writer files", total, 40)
}

// ---------------------------------------------------------------------------
// S4 — Writer.Write buffer protocol
// ---------------------------------------------------------------------------

func (s *c13) ruleBuffer() {
	c, k := s.c, s.k
	fl := k.flow("S4.compact", relRac, "Writer", "Write")
	if fl == nil {
		return
	}
	extend := k.fn("S4.compact", relRac, "writeBuffer", "extend")
	compact := k.fn("S4.compact", relRac, "writeBuffer", "compact")
	if extend == nil || compact == nil {
		return
	}
	info := fl.F.Info()
	// the buffer object: the receiver expression of the extend call, a field of the Writer.
	var bufField types.Object
	nExtend := 0
	ast.Inspect(fl.F.Decl.Body, func(n ast.Node) bool {
		if call, ok := n.(*ast.CallExpr); ok && core.IsCallTo(info, call, extend) {
			nExtend++
			if r := core.RecvOf(call); r != nil && c13RootedAt(info, r, fl.Recv()) {
				bufField = fl.Obj(r)
			}
		}
		return true
	})
	anchor := fl.F.Name()
	if bufField == nil || nExtend != 1 {
		c.Undecided("S4.compact", anchor, "Writer.Write calls writeBuffer.extend exactly once on a buffer field of the receiver", fmt.Sprintf("%d extend calls found", nExtend))
		return
	}
	onBuf := func(fn *types.Func) func(*ast.CallExpr) bool {
		return func(call *ast.CallExpr) bool {
			r := core.RecvOf(call)
			return core.IsCallTo(info, call, fn) && r != nil && fl.Obj(r) == bufField && c13RootedAt(info, r, fl.Recv())
		}
	}
	k.mustPass("S4.compact", anchor+"[after extend]",
		"after w.uncompressed.extend(p) every exit of Write — the error exit included — passes w.uncompressed.compact(): the caller's slice p is copied into the owned buffer and curr is emptied, so a failed Write (e.g. a Compress error) leaves the writeBuffer consistent for the next call instead of panicking in extend or aliasing the caller's memory",
		fl, core.Query{
			Start:   func(n ast.Node) bool { return core.Guaranteed(n, onBuf(extend)) },
			Events:  []core.Event{core.CallEvent(onBuf(compact))},
			Exit:    func(n ast.Node) bool { _, ok := n.(*ast.ReturnStmt); return ok },
			FuncEnd: true,
		})
	// extend takes the parameter p itself.
	okArg := false
	ast.Inspect(fl.F.Decl.Body, func(n ast.Node) bool {
		if call, ok := n.(*ast.CallExpr); ok && onBuf(extend)(call) && len(call.Args) == 1 && fl.Is(fl.Param(0))(call.Args[0]) {
			okArg = true
		}
		return true
	})
	c.Check(okArg, "S4.extend", anchor, "extend receives Write's own argument p (the bytes that compact() must take ownership of)", 1, "")
	// extend / compact are not called anywhere else in the writer files.
	others := 0
	for _, f := range s.funcs {
		if f.Obj == fl.F.Obj {
			continue
		}
		others += core.CountCalls(f.Decl.Body, func(call *ast.CallExpr) bool {
			return core.IsCallTo(s.info, call, extend) || core.IsCallTo(s.info, call, compact)
		})
	}
	c.Check(others == 0, "S4.only", anchor, "extend and compact are called from Writer.Write only (Close flushes with write(true) on an already compacted buffer)", 1+others, fmt.Sprintf("%d calls outside Writer.Write", others))
}

// ---------------------------------------------------------------------------
// S5 — arity / size constants
// ---------------------------------------------------------------------------

// c13Lin: e = a·v + b over a single non-constant variable v (through integer conversions).
func c13Lin(info *types.Info, e ast.Expr) (v types.Object, a, b int64, ok bool) {
	e = ast.Unparen(e)
	if k, isk := core.ConstInt64(info, e); isk {
		return nil, 0, k, true
	}
	switch x := e.(type) {
	case *ast.Ident:
		if o, isv := info.Uses[x].(*types.Var); isv {
			return o, 1, 0, true
		}
	case *ast.CallExpr:
		if tv, has := info.Types[x.Fun]; has && tv.IsType() && len(x.Args) == 1 {
			if bt, isb := tv.Type.Underlying().(*types.Basic); isb && bt.Info()&types.IsInteger != 0 {
				return c13Lin(info, x.Args[0])
			}
		}
	case *ast.BinaryExpr:
		v1, a1, b1, ok1 := c13Lin(info, x.X)
		v2, a2, b2, ok2 := c13Lin(info, x.Y)
		if !ok1 || !ok2 {
			return nil, 0, 0, false
		}
		if v1 != nil && v2 != nil && v1 != v2 {
			return nil, 0, 0, false
		}
		vv := v1
		if vv == nil {
			vv = v2
		}
		switch x.Op {
		case token.ADD:
			return vv, a1 + a2, b1 + b2, true
		case token.SUB:
			return vv, a1 - a2, b1 - b2, true
		case token.MUL:
			if v1 == nil {
				return vv, b1 * a2, b1 * b2, true
			}
			if v2 == nil {
				return vv, a1 * b2, b1 * b2, true
			}
		}
	}
	return nil, 0, 0, false
}

// c13SizeForm finds the unique definition in the function that is a linear form a·v+b with a >= 2.
func c13SizeForm(fl *core.Flow) (sizeVar, v types.Object, a, b int64, n int) {
	for o, defs := range fl.Defs() {
		for _, d := range defs {
			if vv, aa, bb, ok := c13Lin(fl.F.Info(), d); ok && vv != nil && aa >= 2 {
				sizeVar, v, a, b = o, vv, aa, bb
				n++
			}
		}
	}
	return
}

// c13UpperBoundEdge: leaving cond along this edge implies v <= M; returns M.
func c13UpperBoundEdge(fl *core.Flow, cond ast.Expr, taken bool, v types.Object) (int64, bool) {
	be, ok := ast.Unparen(cond).(*ast.BinaryExpr)
	if !ok {
		return 0, false
	}
	info := fl.F.Info()
	op := be.Op
	x, y := ast.Unparen(be.X), ast.Unparen(be.Y)
	isV := func(e ast.Expr) bool {
		o, a, b, ok := c13Lin(info, e)
		return ok && o == v && a == 1 && b == 0
	}
	var kx ast.Expr
	switch {
	case isV(x):
		kx = y
	case isV(y):
		kx = x
		op = mirror(op)
	default:
		return 0, false
	}
	kv, ok := core.ConstInt64(info, kx)
	if !ok {
		return 0, false
	}
	switch {
	case op == token.GTR && !taken: // !(v > K)
		return kv, true
	case op == token.GEQ && !taken: // !(v >= K)
		return kv - 1, true
	case op == token.LEQ && taken:
		return kv, true
	case op == token.LSS && taken:
		return kv - 1, true
	}
	return 0, false
}

var c13SpecArity = regexp.MustCompile("`Arity` is at most ([0-9]+)")
var c13SpecSize = regexp.MustCompile(`\(\(Arity \* ([0-9]+)\) \+\s+([0-9]+)\)`)

func (s *c13) ruleConsts() {
	c, k := s.c, s.k
	// --- the specification's numbers ---
	specMax, specA, specB := int64(-1), int64(-1), int64(-1)
	if b, err := os.ReadFile(filepath.Join(c.Repo, "doc", "spec", "rac-spec.md")); err == nil {
		txt := strings.Join(strings.Fields(string(b)), " ")
		if m := c13SpecArity.FindStringSubmatch(txt); m != nil {
			specMax, _ = strconv.ParseInt(m[1], 10, 64)
		}
		if m := c13SpecSize.FindStringSubmatch(txt); m != nil {
			specA, _ = strconv.ParseInt(m[1], 10, 64)
			specB, _ = strconv.ParseInt(m[2], 10, 64)
		}
	}
	if specMax < 0 || specA < 0 {
		c.Undecided("S5.spec", "doc/spec/rac-spec.md", "the specification states the maximum arity (\"`Arity` is at most N\") and the node size ((Arity * 16) + 16)", "sentences not found")
		return
	}
	c.Check(specMax == 255 && specA == 16 && specB == 16, "S5.spec", "doc/spec/rac-spec.md", "the specification's maximum arity is 255 (one byte, zero excluded) and a node occupies (Arity*16)+16 bytes", 2,
		fmt.Sprintf("spec says arity <= %d, size (Arity*%d)+%d", specMax, specA, specB))

	// --- writeIndex: size form, arity variable, guard ---
	wiMax := int64(-1)
	var wA, wB int64
	longExtra := int64(-1)
	isLong := k.fn("S5", relRac, "Codec", "isLong")
	if fl := k.flow("S5.guard", relRac, "nodeWriter", "writeIndex"); fl != nil {
		anchor := fl.F.Name()
		info := fl.F.Info()
		sizeVar, arityVar, a, b, n := c13SizeForm(fl)
		if n != 1 || arityVar == nil {
			c.Undecided("S5.guard", anchor, "writeIndex computes the node size as one linear form size = K1*arity + K2", fmt.Sprintf("%d candidate definitions", n))
		} else {
			wA, wB = a, b
			// the bytes written are recv.buffer[:size]
			owner, _ := s.ownerOf(fl.F.Obj)
			var bufField *types.Var
			var bufLen int64
			if st, ok := owner.Underlying().(*types.Struct); ok {
				for i := 0; i < st.NumFields(); i++ {
					if at, ok := st.Field(i).Type().Underlying().(*types.Array); ok {
						bufField, bufLen = st.Field(i), at.Len()
					}
				}
			}
			isIO := func(call *ast.CallExpr) bool {
				cal := core.Callee(info, call)
				return cal != nil && c13PrimaryIO(cal)
			}
			slicesBuf := false
			nIO := 0
			ast.Inspect(fl.F.Decl.Body, func(m ast.Node) bool {
				if call, ok := m.(*ast.CallExpr); ok && isIO(call) {
					nIO++
					for _, arg := range call.Args {
						if se, ok := ast.Unparen(arg).(*ast.SliceExpr); ok && se.High != nil && se.Low == nil &&
							bufField != nil && c13RecvField(fl, bufField)(se.X) && fl.Obj(se.High) == sizeVar {
							slicesBuf = true
						}
					}
				}
				return true
			})
			if bufField == nil || !slicesBuf || nIO != 1 {
				c.Undecided("S5.buffer", anchor, "writeIndex writes recv.buffer[:size] with exactly one I/O call", fmt.Sprintf("array field %v, %d I/O calls, slice recognised %v", bufField != nil, nIO, slicesBuf))
			}
			// guard
			var seen []int64
			edge := func(cond ast.Expr, ci *core.CondInfo, taken bool) bool {
				m, ok := c13UpperBoundEdge(fl, cond, taken, arityVar)
				if !ok || m > specMax {
					return false
				}
				// the other branch must be an error return
				if is, isIf := ci.Stmt.(*ast.IfStmt); ci != nil && ci.Kind == "if" && isIf && !taken {
					if len(is.Body.List) == 0 {
						return false
					}
					r, isRet := is.Body.List[len(is.Body.List)-1].(*ast.ReturnStmt)
					if !isRet || !fl.IsErrorReturn(r) {
						return false
					}
				}
				seen = append(seen, m)
				return true
			}
			modifies := func(n ast.Node) bool {
				switch x := n.(type) {
				case *ast.IncDecStmt:
					return fl.Obj(x.X) == arityVar
				case *ast.AssignStmt:
					for _, l := range x.Lhs {
						if fl.Obj(l) == arityVar {
							return true
						}
					}
				}
				return false
			}
			exit := func(n ast.Node) bool { return core.AnyCall(n, isIO) }
			claim := fmt.Sprintf("writeIndex emits a node only after rejecting arity > %d (errInternalArityIsTooLarge): the arity byte cannot wrap and buffer[:size] stays inside the buffer", specMax)
			ok1 := k.mustPass("S5.guard", anchor+"[from entry]", claim, fl, core.Query{Events: []core.Event{{Edge: edge}}, Exit: exit})
			ok2 := s.passFromEach("S5.guard", anchor+"[after arity changes]", claim, fl, modifies, core.Query{Events: []core.Event{{Edge: edge}}, Exit: exit}, true)
			if ok1 && ok2 && len(seen) > 0 {
				wiMax = seen[0]
				for _, m := range seen {
					if m < wiMax {
						wiMax = m
					}
				}
			}
			// the long-codec extra element
			ast.Inspect(fl.F.Decl.Body, func(m ast.Node) bool {
				is, ok := m.(*ast.IfStmt)
				if !ok || len(is.Body.List) != 1 {
					return true
				}
				call, ok := ast.Unparen(is.Cond).(*ast.CallExpr)
				if !ok || !core.IsCallTo(info, call, isLong) {
					return true
				}
				if inc, ok := is.Body.List[0].(*ast.IncDecStmt); ok && inc.Tok == token.INC && fl.Obj(inc.X) == arityVar {
					longExtra = 1
				}
				return true
			})
			if bufField != nil && wiMax >= 0 {
				need := wA*wiMax + wB
				c.Check(bufLen >= need, "S5.buffer", relRac+".nodeWriter."+bufField.Name(),
					fmt.Sprintf("the nodeWriter buffer holds the largest node writeIndex can emit: len >= %d*%d+%d", wA, wiMax, wB), 1,
					fmt.Sprintf("%s: buffer length %d, needed %d", s.g.Pos(bufField.Pos()), bufLen, need))
			}
		}
	}
	if wiMax < 0 {
		c.Undecided("S5.budget", relRac+".gather", "writeIndex's accepted maximum arity is known", "S5.guard did not yield a bound")
		return
	}
	if longExtra < 0 {
		c.Undecided("S5.budget.long", relRac+".(*nodeWriter).writeIndex", "writeIndex adds one element for a long codec (`if n.codec.isLong() { arity++ }`)", "idiom not found")
	}

	// --- gather budgets ---
	if fl := k.flow("S5.budget", relRac, "", "gather"); fl != nil {
		anchor := fl.F.Name()
		info := fl.F.Info()
		var boolParam types.Object
		nb := 0
		for i := 0; ; i++ {
			p := fl.Param(i)
			if p == nil {
				break
			}
			if bt, ok := p.Type().Underlying().(*types.Basic); ok && bt.Kind() == types.Bool {
				boolParam = p
				nb++
			}
		}
		type def struct {
			val  int64
			ctx  int // 0 unconditional, +1 under param, -1 under !param
			expr ast.Expr
		}
		var budget types.Object
		var bdefs []def
		ncand := 0
		for o, defs := range fl.Defs() {
			vv, ok := o.(*types.Var)
			if !ok || vv.IsField() || nb != 1 {
				continue
			}
			var ds []def
			allConst, cond := true, false
			for _, d := range defs {
				kv, isk := core.ConstInt64(info, d)
				if !isk {
					allConst = false
					break
				}
				ctx := 0
				path := core.PathTo(fl.F.Decl.Body, d)
				for i := len(path) - 1; i >= 1; i-- {
					is, ok := path[i-1].(*ast.IfStmt)
					if !ok {
						continue
					}
					pol := 0
					cnd := ast.Unparen(is.Cond)
					if fl.Is(boolParam)(cnd) {
						pol = 1
					} else if u, ok := cnd.(*ast.UnaryExpr); ok && u.Op == token.NOT && fl.Is(boolParam)(u.X) {
						pol = -1
					}
					if pol == 0 {
						continue
					}
					if path[i] == ast.Node(is.Body) {
						ctx = pol
					} else if is.Else != nil && path[i] == ast.Node(is.Else) {
						ctx = -pol
					}
				}
				if ctx != 0 {
					cond = true
				}
				ds = append(ds, def{kv, ctx, d})
			}
			if allConst && cond {
				budget, bdefs = o, ds
				ncand++
			}
		}
		if ncand != 1 {
			c.Undecided("S5.budget", anchor, "gather has one arity budget variable with constant values, one of them selected by the bool (codecIsLong) parameter", fmt.Sprintf("%d candidates", ncand))
		} else {
			short, long := int64(-1), int64(-1)
			var dflt *def
			for i := range bdefs {
				d := &bdefs[i]
				switch d.ctx {
				case 0:
					dflt = d
				case 1:
					long = d.val
				case -1:
					short = d.val
				}
			}
			if dflt != nil {
				if short < 0 {
					short = dflt.val
				}
				if long < 0 {
					long = dflt.val
				}
			}
			c.Check(short >= 1 && short <= wiMax && short <= specMax, "S5.budget.short", anchor,
				fmt.Sprintf("gather's arity budget for short codecs is at most what writeIndex accepts (%d) and the specification allows (%d)", wiMax, specMax), 1,
				fmt.Sprintf("%s: budget %d", s.g.Pos(budget.Pos()), short))
			if longExtra >= 0 {
				c.Check(long >= 1 && long+longExtra <= wiMax && long+longExtra <= specMax, "S5.budget.long", anchor,
					fmt.Sprintf("gather's arity budget for long codecs leaves room for the Codec Element that writeIndex adds (budget + %d <= %d)", longExtra, wiMax), 1,
					fmt.Sprintf("%s: long-codec budget %d", s.g.Pos(budget.Pos()), long))
			}
			// every use is a bare operand of an ordering comparison against a plain variable
			uses, badUses := 0, []string{}
			var stack []ast.Node
			ast.Inspect(fl.F.Decl.Body, func(m ast.Node) bool {
				if m == nil {
					stack = stack[:len(stack)-1]
					return true
				}
				stack = append(stack, m)
				id, ok := m.(*ast.Ident)
				if !ok || info.Uses[id] != budget {
					return true
				}
				var parent ast.Node
				for i := len(stack) - 2; i >= 0; i-- {
					if _, isParen := stack[i].(*ast.ParenExpr); !isParen {
						parent = stack[i]
						break
					}
				}
				if as, ok := parent.(*ast.AssignStmt); ok {
					for _, l := range as.Lhs {
						if l == ast.Expr(id) {
							return true // a definition
						}
					}
				}
				uses++
				be, ok := parent.(*ast.BinaryExpr)
				good := false
				if ok {
					other := ast.Unparen(be.X)
					op := be.Op
					if ast.Unparen(be.X) == ast.Expr(id) {
						other = ast.Unparen(be.Y)
						op = mirror(op)
					}
					_, isVar := fl.Obj(other).(*types.Var)
					_, isId := other.(*ast.Ident)
					switch op {
					case token.LEQ, token.LSS, token.GTR, token.GEQ: // other REL budget
						good = isVar && isId
					}
				}
				if !good {
					badUses = append(badUses, fmt.Sprintf("%s: `%s`", s.g.Pos(id.Pos()), core.Src(s.g.Fset, parent)))
				}
				return true
			})
			c.Check(uses >= 1 && len(badUses) == 0, "S5.budget.use", anchor, "the budget is only ever compared (<=, <, >, >=) with the running arity — never offset (budget+1) or otherwise rewritten", uses, strings.Join(badUses, "; "))
		}
		// call site: the bool argument is <codec>.isLong()
		if cl := k.flow("S5.budget", relRac, "ChunkWriter", "Close"); cl != nil && nb == 1 {
			idx := -1
			for i := 0; ; i++ {
				p := fl.Param(i)
				if p == nil {
					break
				}
				if p == boolParam {
					idx = i
				}
			}
			ncalls, okc := 0, 0
			ast.Inspect(cl.F.Decl.Body, func(m ast.Node) bool {
				if call, ok := m.(*ast.CallExpr); ok && core.IsCallTo(cl.F.Info(), call, fl.F.Obj) {
					ncalls++
					if idx >= 0 && idx < len(call.Args) {
						if a, ok := ast.Unparen(call.Args[idx]).(*ast.CallExpr); ok && core.IsCallTo(cl.F.Info(), a, isLong) {
							okc++
						}
					}
				}
				return true
			})
			c.Check(ncalls >= 1 && ncalls == okc, "S5.budget.callsite", cl.F.Name(), "gather's long-codec switch is driven by w.codec.isLong(), the same predicate writeIndex uses to add the Codec Element", ncalls, "")
		}
	}

	// --- node size formula: writer (writeIndex, calcEncodedSize) and reader (nodeSize) ---
	forms := map[string][2]int64{"writeIndex": {wA, wB}}
	if fl := k.flow("S5.nodesize", relRac, "wNode", "calcEncodedSize"); fl != nil {
		_, v, a, b, n := c13SizeForm(fl)
		if n != 1 || v == nil {
			c.Undecided("S5.nodesize", fl.F.Name(), "calcEncodedSize computes the node size as one linear form", fmt.Sprintf("%d candidates", n))
		} else {
			forms["calcEncodedSize"] = [2]int64{a, b}
		}
	}
	rMaxArity := int64(-1)
	if fl := k.flow("S5.nodesize", relRac, "", "nodeSize"); fl != nil {
		var ret *ast.ReturnStmt
		nret := 0
		ast.Inspect(fl.F.Decl.Body, func(m ast.Node) bool {
			if r, ok := m.(*ast.ReturnStmt); ok {
				ret = r
				nret++
			}
			return true
		})
		if nret != 1 || len(ret.Results) != 1 {
			c.Undecided("S5.nodesize", fl.F.Name(), "nodeSize is a single return of a linear form", "shape not recognised")
		} else if v, a, b, ok := c13Lin(fl.F.Info(), ret.Results[0]); !ok || v == nil || v != fl.Param(0) {
			c.Undecided("S5.nodesize", fl.F.Name(), "nodeSize returns K1*arity+K2 of its parameter", "shape not recognised")
		} else {
			forms["nodeSize"] = [2]int64{a, b}
			if bt, ok := v.Type().Underlying().(*types.Basic); ok && bt.Kind() == types.Uint8 {
				rMaxArity = 255
			}
		}
	}
	if len(forms) == 3 {
		same := true
		for _, f := range forms {
			if f != [2]int64{specA, specB} {
				same = false
			}
		}
		c.Check(same, "S5.nodesize", relRac, fmt.Sprintf("writer (writeIndex, calcEncodedSize) and reader (nodeSize) use the specification's node size (Arity*%d)+%d", specA, specB), 3, fmt.Sprintf("%v", forms))
	}
	// --- reader buffer ---
	if o := k.obj("S5.rnode", relRac, "rNode"); o != nil {
		at, ok := o.Type().Underlying().(*types.Array)
		if !ok || rMaxArity < 0 {
			c.Undecided("S5.rnode", relRac+".rNode", "rNode is a byte array and nodeSize takes a uint8 arity", "shape not recognised")
		} else {
			f := forms["nodeSize"]
			need := f[0]*rMaxArity + f[1]
			needW := wA*wiMax + wB
			c.Check(at.Len() >= need && at.Len() >= needW && rMaxArity == specMax, "S5.rnode", relRac+".rNode",
				fmt.Sprintf("the reader's node buffer holds a node of the maximum arity %d (%d bytes) and anything the writer emits (%d bytes)", rMaxArity, need, needW), 2,
				fmt.Sprintf("%s: rNode length %d", s.g.Pos(o.Pos()), at.Len()))
		}
	}
}
