package main

// C16, rule S.align: (*cutter).doStored moves the bit reader's byte index past
// a stored block with byte-level arithmetic. Every path on which it does so and
// then reports progress (nil or errInternalSomeProgress) leaves the bit reader
// byte-aligned and empty — `c.bits.nBits = 0` and `c.bits.bits = 0` after the
// last store to `c.bits.index`. cut() afterwards clears "the high nBits bits of
// bytes[index-1]" for a cut that ends inside a Huffman symbol; with a stale
// nBits (the padding bits in front of a stored block's header) it would zero
// the top bits of the last literal byte it kept: a valid stream that decodes to
// different bytes than the original's prefix (independently seeded change
// C16-3 removed the reset on the shortened-block path).

import (
	"go/ast"
	"go/token"
	"go/types"

	"wv/core"
)

func runC16Align(k *gctx) {
	c := k.c
	fl := k.flow("S.align", c16RelFlate, "cutter", "doStored")
	if fl == nil {
		return
	}
	info := fl.F.Info()
	bitstream := k.obj("S.align", c16RelFlate, "bitstream")
	if bitstream == nil {
		return
	}
	fIndex := core.LookupField(bitstream, "index")
	fNBits := core.LookupField(bitstream, "nBits")
	fBits := core.LookupField(bitstream, "bits")
	if fIndex == nil || fNBits == nil || fBits == nil {
		c.Undecided("S.align", fl.F.Name(), "bitstream has fields index, nBits, bits", "field not found")
		return
	}
	someProgress := k.obj("S.align", c16RelFlate, "errInternalSomeProgress")
	isStoreTo := func(n ast.Node, f *types.Var, zeroOnly bool) bool {
		as, ok := n.(*ast.AssignStmt)
		if !ok || as.Tok != token.ASSIGN || len(as.Lhs) != len(as.Rhs) {
			return false
		}
		for i, l := range as.Lhs {
			if core.FieldOf(info, l, f) {
				if !zeroOnly {
					return true
				}
				if v, isC := core.ConstInt64(info, as.Rhs[i]); isC && v == 0 {
					return true
				}
			}
		}
		return false
	}
	// plain stores `c.bits.index = …` (the `index--` re-alignment loop at the top is not a move past a block)
	var moves []ast.Node
	ast.Inspect(fl.F.Decl.Body, func(n ast.Node) bool {
		if isStoreTo(n, fIndex, false) {
			moves = append(moves, n)
		}
		return true
	})
	c.Floor("S.align", "stores that move the byte index past a stored block in doStored", len(moves), 2)
	progress := func(n ast.Node) bool {
		r, ok := n.(*ast.ReturnStmt)
		if !ok || len(r.Results) != 1 {
			return false
		}
		return core.IsNilIdent(info, r.Results[0]) || (someProgress != nil && fl.Obj(r.Results[0]) == someProgress)
	}
	for _, mv := range moves {
		mv := mv
		for _, f := range []*types.Var{fNBits, fBits} {
			f := f
			k.mustPass("S.align", fl.F.Name()+"[index moved; "+f.Name()+" = 0]",
				"after doStored moves the byte index past (part of) a stored block it reports progress only with the bit reader empty and byte-aligned (`"+f.Name()+" = 0`): cut() clears the high nBits bits of the last kept byte, which must not happen to a literal byte of a stored block",
				fl, core.Query{
					Start:  func(n ast.Node) bool { return n == mv },
					Exit:   progress,
					Events: []core.Event{{Node: func(n ast.Node) bool { return isStoreTo(n, f, true) }}},
				})
		}
	}
}
