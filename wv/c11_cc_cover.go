package main

// CC coverage: what the construct corpus reaches, *measured* on the
// type-checked syntax trees of the programs that were handed to the C
// compilers (the repository's own front end, linked from /repo), and compared
// with the case lists of the cgen tables and switches the corpus targets.
// Universes are read from source: cgen's cOpNames composite literal and the
// `switch n.Kind()` of writeStatement through go/types (constants compared by
// value), the built-in method tables from lang/builtin.

import (
	"fmt"
	"go/ast"
	"go/constant"
	"go/types"
	"sort"
	"strings"

	"wv/core"

	a "github.com/google/wuffs/lang/ast"
	"github.com/google/wuffs/lang/builtin"
	t "github.com/google/wuffs/lang/token"
)

// Instance floors, counted on the unchanged tree (notes/C11-cc.md).
const (
	ccFloorPrograms   = 17
	ccFloorConstructs = 3700
	ccFloorBuiltins   = 360
	ccFloorOps        = 190
)

// ccGenerated lists every generated program, in a fixed order, and what the
// built-in generator could not build a call for.
func ccGenerated() ([]ccProg, map[string]interface{}) {
	out := ccGeneratedStatic()
	info := map[string]interface{}{}
	var other, x86, generic []string
	for _, l := range builtin.Funcs {
		for _, s := range l {
			switch {
			case strings.HasPrefix(s, "x86_"):
				x86 = append(x86, s)
			case strings.HasPrefix(s, "arm_"):
				// other CPU architecture: see ccReceiverSkip
			default:
				other = append(other, s)
			}
		}
	}
	generic = append(generic, builtin.SliceFuncs...)
	generic = append(generic, builtin.SliceU8Funcs...)
	generic = append(generic, builtin.TableFuncs...)
	p1, cov1, no1 := ccGenBuiltins("bi_other", other, ccBuiltinSkip)
	p2, cov2, no2 := ccGenBuiltins("bi_generic", generic, ccBuiltinSkip)
	p3, cov3, no3 := ccGenBuiltins("bi_x86", x86, ccBuiltinSkip)
	p1.Name, p2.Name, p3.Name = "other", "generic", "x86"
	out = append(out, ccMerge("builtins", []ccProg{p1, p2, p3}))
	info["builtin_calls_generated"] = len(cov1) + len(cov2) + len(cov3)
	info["builtin_signatures_without_recipe"] = append(append(no1, no2...), no3...)
	return out, info
}

// ---------------------------------------------------------------------------
// Measurement
// ---------------------------------------------------------------------------

type ccMeasure struct {
	p   *WPkg
	set map[string]bool
	// operator uses: token ID value -> type classes seen
	ops   map[t.ID]map[string]bool
	kinds map[a.Kind]bool
	calls map[string]bool // "recv.method" of built-in calls
}

func (m *ccMeasure) add(format string, args ...interface{}) {
	m.set[fmt.Sprintf(format, args...)] = true
}

// leafClass names the innermost type of a type expression.
func (m *ccMeasure) leafClass(x *a.TypeExpr) string {
	if x == nil {
		return "none"
	}
	q := x.QID()
	s := ""
	if q[0] == t.IDBase {
		s = q[1].Str(m.p.TM)
	} else if q[0] == 0 {
		s = "struct"
	} else {
		s = "usedstruct"
	}
	if x.IsRefined() {
		s += "[refined]"
	}
	return s
}

// shape prints a type expression as its decorator chain and leaf class;
// array lengths are dropped.
func (m *ccMeasure) shape(x *a.TypeExpr) string {
	if x == nil {
		return "none"
	}
	var parts []string
	for ; x != nil && x.Decorator() != 0; x = x.Inner() {
		parts = append(parts, x.Decorator().Str(m.p.TM))
	}
	parts = append(parts, m.leafClass(x))
	return strings.Join(parts, " ")
}

func (m *ccMeasure) typeClass(x *a.TypeExpr) string {
	if x == nil {
		return "?"
	}
	if x.IsIdeal() {
		return "ideal"
	}
	if x.Decorator() != 0 {
		return m.shape(x)
	}
	q := x.QID()
	if q[0] == t.IDBase {
		return q[1].Str(m.p.TM)
	}
	return "struct"
}

// operandPos classifies where an operand comes from, the way cgen names it.
func (m *ccMeasure) operandPos(e *a.Expr) string {
	if e == nil {
		return "none"
	}
	if e.ConstValue() != nil {
		if e.Operator() == 0 && e.GlobalIdent() {
			return "const"
		}
		return "literal"
	}
	switch e.Operator() {
	case 0:
		if e.GlobalIdent() {
			return "constarray"
		}
		return "local"
	case t.IDDot:
		if e.IsArgsDotFoo() != 0 {
			return "arg"
		}
		if e.IsThisDotFoo() != 0 {
			return "field"
		}
		return "selector"
	case t.IDOpenBracket:
		return "elem-of-" + m.operandPos(e.LHS().AsExpr())
	case t.IDOpenParen:
		return "call"
	case t.IDDotDot:
		return "slicing"
	}
	return "expr"
}

func (m *ccMeasure) numClass(es ...*a.Expr) string {
	for _, e := range es {
		if e == nil || e.MType() == nil || e.MType().IsIdeal() {
			continue
		}
		return m.typeClass(e.MType())
	}
	return "ideal"
}

func (m *ccMeasure) op(id t.ID, class string) {
	if m.ops[id] == nil {
		m.ops[id] = map[string]bool{}
	}
	m.ops[id][class] = true
}

func (m *ccMeasure) expr(e *a.Expr) {
	tm := m.p.TM
	op := e.Operator()
	switch {
	case op.IsXBinaryOp():
		l, r := e.LHS().AsExpr(), (*a.Expr)(nil)
		name := op.AmbiguousForm().Str(tm)
		if op == t.IDXBinaryAs {
			dst := e.RHS().AsTypeExpr()
			m.add("conv: %s -> %s", m.typeClass(l.MType()), m.typeClass(dst))
			m.add("conv-source: %s from %s", m.typeClass(dst), m.operandPos(l))
			m.op(op, m.typeClass(dst))
			return
		}
		r = e.RHS().AsExpr()
		cl := m.numClass(l, r, e)
		m.add("binop: %s on %s", name, cl)
		m.add("binop-operands: %s %s, %s", name, m.operandPos(l), m.operandPos(r))
		m.add("operand: %s at %s", cl, m.operandPos(l))
		m.add("operand: %s at %s", cl, m.operandPos(r))
		m.op(op, cl)
	case op.IsXUnaryOp():
		cl := m.numClass(e.RHS().AsExpr(), e)
		m.add("unop: %s on %s", op.AmbiguousForm().Str(tm), cl)
		m.op(op, cl)
	case op.IsXAssociativeOp():
		var first *a.Expr
		for _, o := range e.Args() {
			if first == nil && !o.AsExpr().MType().IsIdeal() {
				first = o.AsExpr()
			}
		}
		cl := m.numClass(first, e)
		n := "3"
		if len(e.Args()) > 3 {
			n = "4+"
		}
		m.add("assoc: %s on %s, %s operands", op.AmbiguousForm().Str(tm), cl, n)
		m.op(op, cl)
	case op == t.IDOpenParen:
		method := e.LHS().AsExpr()
		recv := method.LHS().AsExpr()
		rt := recv.MType()
		name := method.Ident().Str(tm)
		key := ""
		switch {
		case rt == nil:
		case rt.IsEitherSliceType():
			key = "T1." + name
			m.add("builtin: %s.%s", m.shape(rt), name)
		case rt.IsEitherTableType():
			key = "T2." + name
			m.add("builtin: %s.%s", m.shape(rt), name)
		case rt.Pointee().Decorator() == 0 && rt.Pointee().QID()[0] == t.IDBase:
			key = rt.Pointee().QID()[1].Str(tm) + "." + name
			m.add("builtin: %s", key)
			m.add("builtin-receiver: %s at %s", rt.Pointee().QID()[1].Str(tm), m.operandPos(recv))
		default:
			who := "own"
			if rt.Pointee().QID()[0] != 0 {
				who = "used-package"
			}
			m.add("call: %s struct method, effect %q, receiver %s, %d args, result %s", who, e.Effect().String(), m.operandPos(recv), len(e.Args()), m.typeClass(e.MType()))
		}
		if key != "" {
			m.calls[key] = true
		}
	case op == t.IDOpenBracket:
		m.add("index: %s at %s", m.shape(e.LHS().AsExpr().MType()), m.operandPos(e.LHS().AsExpr()))
	case op == t.IDDotDot:
		form := ""
		if e.MHS() != nil {
			form += "i"
		}
		form += ".."
		if e.RHS() != nil {
			form += "j"
		}
		m.add("slicing: %s [%s] at %s", m.shape(e.LHS().AsExpr().MType()), form, m.operandPos(e.LHS().AsExpr()))
	case op == t.IDDot:
		l := e.LHS().AsExpr()
		switch {
		case e.IsArgsDotFoo() != 0:
			m.add("name: argument of type %s", m.shape(e.MType()))
		case e.Ident().IsDQStrLiteral(tm):
			m.add("name: status literal of package %s", map[bool]string{true: "base", false: "used"}[l.Ident() == t.IDBase])
		default:
			m.add("field: of %s, type %s", m.shape(l.MType()), m.shape(e.MType()))
		}
	case op == 0:
		id := e.Ident()
		switch {
		case id == t.IDThis, id == t.IDArgs:
		case id == t.IDCoroutineResumed:
			m.add("name: coroutine_resumed")
		case id.IsDQStrLiteral(tm):
			m.add("name: status literal of this package")
		case e.ConstValue() != nil && e.MType() != nil:
			if e.GlobalIdent() {
				m.add("name: scalar const of type %s", m.typeClass(e.MType()))
			} else {
				m.add("literal: %s", m.typeClass(e.MType()))
			}
		case e.GlobalIdent():
			m.add("name: const %s", m.shape(e.MType()))
		case e.MType() != nil:
			m.add("name: local of type %s", m.shape(e.MType()))
		}
	}
}

func (m *ccMeasure) stmt(n *a.Node, depth int) {
	tm := m.p.TM
	m.kinds[n.Kind()] = true
	switch n.Kind() {
	case a.KAssign:
		o := n.AsAssign()
		op := o.Operator()
		if o.LHS() == nil {
			m.add("stmt: call statement (no assignee), effect %q", o.RHS().Effect().String())
		} else {
			cl := m.typeClass(o.LHS().MType())
			m.add("assign: %s to %s", op.Str(tm), cl)
			m.add("assign-dest: %s %s at %s", op.Str(tm), cl, m.operandPos(o.LHS()))
			m.op(op, cl)
		}
	case a.KIf:
		o := n.AsIf()
		form := "if"
		links := 0
		for p := o; p != nil; p = p.ElseIf() {
			links++
			if len(p.BodyIfFalse()) > 0 {
				form += "+else"
			}
			if lk := p.Likelihood(); lk != 0 {
				m.add("stmt: if.%s", lk.Str(tm))
			}
		}
		if links > 1 {
			form += fmt.Sprintf("+elseif(x%d)", min(links-1, 3))
		}
		m.add("stmt: %s", form)
	case a.KWhile:
		o := n.AsWhile()
		form := "while"
		if o.IsWhileTrue() {
			form = "while true"
			body := o.Body()
			if !o.HasContinue() && len(body) > 0 && body[len(body)-1].Kind() == a.KJump && body[len(body)-1].AsJump().Keyword() == t.IDBreak && body[len(body)-1].AsJump().JumpTarget() == a.Loop(o) {
				form = "while true ... break (do-while(0) lowering)"
			}
		}
		if o.Label() != 0 {
			form += ", labelled"
		}
		if o.HasDeepBreak() {
			form += ", deep break"
		}
		if o.HasDeepContinue() {
			form += ", deep continue"
		}
		if len(o.Asserts()) > 0 {
			form += ", with invariants"
		}
		m.add("stmt: %s", form)
	case a.KIterate:
		o := n.AsIterate()
		rounds := 0
		for p := o; p != nil; p = p.ElseIterate() {
			rounds++
			m.add("stmt: iterate length=%s advance=%s unroll=%s", p.Length().Str(tm), p.Advance().Str(tm), p.Unroll().Str(tm))
		}
		m.add("stmt: iterate over %d slices, %d rounds", len(o.Assigns()), rounds)
	case a.KIOManip:
		o := n.AsIOManip()
		m.add("stmt: %s on %s at %s", o.Keyword().Str(tm), m.typeClass(o.IO().MType()), m.operandPos(o.IO()))
	case a.KJump:
		o := n.AsJump()
		lab := ""
		if o.Label() != 0 {
			lab = " with label"
		}
		m.add("stmt: %s%s", o.Keyword().Str(tm), lab)
	case a.KRet:
		o := n.AsRet()
		what := m.typeClass(o.Value().MType())
		if o.Value().Operator() == 0 && o.Value().Ident() == t.IDOk {
			what = "ok"
		} else if o.Value().MType() != nil && o.Value().MType().IsStatus() && o.Value().Ident().IsDQStrLiteral(tm) {
			s := o.Value().Ident().Str(tm)
			if len(s) > 1 {
				what = "status literal " + s[1:2]
			}
		}
		m.add("stmt: %s %s", o.Keyword().Str(tm), what)
	case a.KVar:
		m.add("decl: local %s", m.shape(n.AsVar().XType()))
	case a.KChoose:
		m.add("stmt: choose among %d", len(n.AsChoose().Args()))
	case a.KAssert:
		m.add("stmt: assert")
	}
}

// walkBody visits statements (recursively through blocks) and every
// expression below them.
func (m *ccMeasure) walkBody(body []*a.Node, depth int) {
	for _, n := range body {
		m.stmt(n, depth)
		n.Walk(func(o *a.Node) error {
			if o.Kind() == a.KExpr {
				m.expr(o.AsExpr())
			}
			return nil
		})
		switch n.Kind() {
		case a.KIf:
			for p := n.AsIf(); p != nil; p = p.ElseIf() {
				m.walkBody(p.BodyIfTrue(), depth+1)
				m.walkBody(p.BodyIfFalse(), depth+1)
			}
		case a.KWhile:
			m.walkBody(n.AsWhile().Body(), depth+1)
		case a.KIterate:
			for p := n.AsIterate(); p != nil; p = p.ElseIterate() {
				m.walkBody(p.Body(), depth+1)
			}
		case a.KIOManip:
			m.walkBody(n.AsIOManip().Body(), depth+1)
		}
	}
}

func ccMeasurePkg(p *WPkg, m *ccMeasure) {
	m.p = p
	tm := p.TM
	for _, s := range p.Structs {
		kind := map[bool]string{true: "pub", false: "pri"}[s.Public()] + map[bool]string{true: " classy", false: " plain"}[s.Classy()]
		m.add("struct: %s, implements %d", kind, len(s.Implements()))
		for _, f := range s.Fields() {
			f := f.AsField()
			where := "private_impl"
			if f.PrivateData() {
				where = "private_data"
			}
			m.add("decl: field(%s) %s", where, m.shape(f.XType()))
		}
	}
	for _, k := range p.Consts {
		m.add("decl: %s const %s", map[bool]string{true: "pub", false: "pri"}[k.Public()], m.shape(k.XType()))
	}
	for _, s := range p.Status {
		msg := s.QID()[1].Str(tm)
		cat := "?"
		if len(msg) > 1 {
			cat = msg[1:2]
		}
		m.add("decl: %s status %s", map[bool]string{true: "pub", false: "pri"}[s.Public()], cat)
	}
	for _, f := range p.Funcs {
		checked := "no checked argument"
		for _, o := range f.In().Fields() {
			x := o.AsField().XType()
			m.add("decl: argument %s", m.shape(x))
			if x.IsIOTokenType() || x.Decorator() == t.IDPtr || x.IsRefined() {
				checked = "checked arguments"
			}
		}
		vis := map[bool]string{true: "pub", false: "pri"}[f.Public()]
		extra := ""
		if f.Choosy() {
			extra = ", choosy"
		}
		if f.HasChooseCPUArch() {
			extra += ", cpu_arch"
		}
		m.add("func: %s effect %q returns %s, %s%s", vis, f.Effect().String(), m.shape(f.Out()), checked, extra)
		if f.Out() != nil {
			m.add("decl: result %s", m.shape(f.Out()))
		}
		m.walkBody(f.Body(), 0)
	}
}

// ---------------------------------------------------------------------------
// Universes read from cgen's source
// ---------------------------------------------------------------------------

type ccConstKey struct {
	Name string
	Val  int64
}

// ccTableKeys returns the keys of the package-level composite literal `name`
// in internal/cgen, each resolved to its constant.
func ccTableKeys(k *gctx, rule, name string) []ccConstKey {
	p := k.g.Pkg("internal/cgen")
	if p == nil {
		k.c.Undecided(rule, "internal/cgen."+name, "the cgen table is found", "package internal/cgen not loaded")
		return nil
	}
	var out []ccConstKey
	found := false
	for _, f := range p.Syntax {
		for _, d := range f.Decls {
			gd, ok := d.(*ast.GenDecl)
			if !ok {
				continue
			}
			for _, sp := range gd.Specs {
				vs, ok := sp.(*ast.ValueSpec)
				if !ok {
					continue
				}
				for i, id := range vs.Names {
					if id.Name != name || i >= len(vs.Values) {
						continue
					}
					cl, ok := vs.Values[i].(*ast.CompositeLit)
					if !ok {
						continue
					}
					found = true
					for _, el := range cl.Elts {
						kv, ok := el.(*ast.KeyValueExpr)
						if !ok {
							k.c.Undecided(rule, "internal/cgen."+name, "every element of the table is keyed by a token constant", k.g.Pos(el.Pos()))
							continue
						}
						tv, ok := p.TypesInfo.Types[kv.Key]
						if !ok || tv.Value == nil {
							k.c.Undecided(rule, "internal/cgen."+name, "every key of the table is a constant", k.g.Pos(kv.Key.Pos()))
							continue
						}
						v, _ := constant.Int64Val(constant.ToInt(tv.Value))
						nm := core.Src(p.Fset, kv.Key)
						if se, ok := kv.Key.(*ast.SelectorExpr); ok {
							if obj, ok := p.TypesInfo.Uses[se.Sel].(*types.Const); ok {
								nm = obj.Name()
							}
						}
						out = append(out, ccConstKey{nm, v})
					}
				}
			}
		}
	}
	if !found {
		k.c.Undecided(rule, "internal/cgen."+name, "the cgen table is found", "no package-level composite literal of that name")
	}
	return out
}

// ccSwitchKinds returns the case constants of the `switch n.Kind()` statements
// of a cgen method.
func ccSwitchKinds(k *gctx, rule, recv, fn string) []ccConstKey {
	f := k.g.FindFunc("internal/cgen", recv, fn)
	anchor := "internal/cgen.(" + recv + ")." + fn
	if f == nil {
		k.c.Undecided(rule, anchor, "the cgen function is found", "not found")
		return nil
	}
	var out []ccConstKey
	seen := map[int64]bool{}
	ast.Inspect(f.Decl.Body, func(n ast.Node) bool {
		sw, ok := n.(*ast.SwitchStmt)
		if !ok || sw.Tag == nil {
			return true
		}
		call, ok := sw.Tag.(*ast.CallExpr)
		if !ok {
			return true
		}
		callee := core.Callee(f.Pkg.TypesInfo, call)
		if callee == nil || callee.Name() != "Kind" || callee.Pkg() == nil || !strings.HasSuffix(callee.Pkg().Path(), "lang/ast") {
			return true
		}
		for _, cc := range sw.Body.List {
			for _, e := range cc.(*ast.CaseClause).List {
				tv, ok := f.Pkg.TypesInfo.Types[e]
				if !ok || tv.Value == nil {
					k.c.Undecided(rule, anchor, "every case of the statement switch is a constant", k.g.Pos(e.Pos()))
					continue
				}
				v, _ := constant.Int64Val(constant.ToInt(tv.Value))
				if seen[v] {
					continue
				}
				seen[v] = true
				nm := core.Src(f.Pkg.Fset, e)
				if se, ok := e.(*ast.SelectorExpr); ok {
					nm = se.Sel.Name
				}
				out = append(out, ccConstKey{nm, v})
			}
		}
		return true
	})
	if len(out) == 0 {
		k.c.Undecided(rule, anchor, "the statement switch over n.Kind() is found", "no `switch <x>.Kind()` with constant cases in the function body")
	}
	return out
}

var ccNumClasses = []string{"u8", "u16", "u32", "u64"}

// ccOpApplies says for which operand classes an operator of cOpNames must be
// exercised. The classification is by the constant's name: the X-forms are
// the operators the type checker resolves the ambiguous tokens to.
func ccOpApplies(name string) []string {
	switch name {
	case "IDXBinaryAnd", "IDXBinaryOr", "IDXAssociativeAnd", "IDXAssociativeOr", "IDXUnaryNot":
		return []string{"bool"}
	case "IDEqQuestion":
		return []string{"status"}
	}
	return ccNumClasses
}

func ccCoverage(c *core.Ctx, k *gctx, cb *core.CBuild, results []*ccResult) {
	m := &ccMeasure{set: map[string]bool{}, ops: map[t.ID]map[string]bool{}, kinds: map[a.Kind]bool{}, calls: map[string]bool{}}
	known := &ccMeasure{set: map[string]bool{}, ops: map[t.ID]map[string]bool{}, kinds: map[a.Kind]bool{}, calls: map[string]bool{}}
	measured := 0
	for _, r := range results {
		if r.cpath == "" {
			continue
		}
		p, err := loadWuffsDir(r.prog.Name, r.dir, cb.GenWuffs)
		if err != nil {
			if !r.prog.Known {
				c.Undecided("CC.cover.load", r.prog.Origin+":"+r.prog.Name, "the linked front end loads the corpus program that wuffs-c accepted", err.Error())
			}
			continue
		}
		if r.prog.Known {
			ccMeasurePkg(p, known)
			continue
		}
		ok := true
		for _, d := range r.cc {
			if d != "" {
				ok = false
			}
		}
		if !ok {
			continue // a program that failed to compile does not count as coverage
		}
		measured++
		ccMeasurePkg(p, m)
	}

	// The matrix, for the reader of evidence/C11.json.
	fam := map[string][]string{}
	for s := range m.set {
		i := strings.Index(s, ":")
		fam[s[:i]] = append(fam[s[:i]], strings.TrimSpace(s[i+1:]))
	}
	counts := map[string]int{}
	for f := range fam {
		sort.Strings(fam[f])
		counts[f] = len(fam[f])
	}
	c.Analysed("cc_construct_matrix", fam)
	c.Analysed("cc_construct_counts", counts)
	c.Analysed("cc_programs_measured", measured)
	c.Floor("CC.constructs", "distinct constructs (operator x type, operand position, conversion pair, statement form, declaration shape x position, method kind, built-in call, ...) measured on the syntax trees of the corpus programs that compiled", len(m.set), ccFloorConstructs)

	// (1) operators: cgen's cOpNames.
	keys := ccTableKeys(k, "CC.cover.ops", "cOpNames")
	nOps := 0
	var missing []string
	for _, key := range keys {
		for _, cl := range ccOpApplies(key.Name) {
			if m.ops[t.ID(key.Val)][cl] {
				nOps++
			} else {
				missing = append(missing, key.Name+" on "+cl)
			}
		}
	}
	c.Check(len(missing) == 0 && len(keys) > 0, "CC.cover.ops", "internal/cgen.cOpNames", "every operator in cgen's C-operator table is exercised by a compiled corpus program on every operand type it applies to (otherwise the C spelling of that entry is checked by nothing: std uses a subset)", nOps,
		fmt.Sprintf("%d table keys; not exercised: %v", len(keys), missing))
	c.Floor("CC.cover.ops", "(operator of cOpNames, operand type) pairs exercised", nOps, ccFloorOps)

	// (2) statement kinds: writeStatement's switch.
	kinds := ccSwitchKinds(k, "CC.cover.stmt", "gen", "writeStatement")
	missing = nil
	nK := 0
	for _, key := range kinds {
		if m.kinds[a.Kind(key.Val)] {
			nK++
		} else {
			missing = append(missing, key.Name)
		}
	}
	c.Check(len(missing) == 0 && len(kinds) > 0, "CC.cover.stmt", "internal/cgen.(gen).writeStatement[switch n.Kind()]", "every statement kind cgen's statement switch handles occurs in a compiled corpus program", nK, fmt.Sprintf("cases %v; not exercised: %v", kinds, missing))

	// (3) built-in methods: lang/builtin's tables.
	var universe []string
	add := func(sigs []string) {
		for _, raw := range sigs {
			s, ok := ccParseSig(raw)
			if !ok {
				c.Undecided("CC.cover.builtin", "lang/builtin:"+raw, "the built-in signature has the form recv.name(args) ret", "unparsable")
				continue
			}
			universe = append(universe, s.Key())
		}
	}
	for _, l := range builtin.Funcs {
		add(l)
	}
	add(builtin.SliceFuncs)
	add(builtin.SliceU8Funcs)
	add(builtin.TableFuncs)
	nB, nSkip := 0, 0
	missing = nil
	var skipped []string
	for _, key := range universe {
		switch {
		case m.calls[key]:
			nB++
		case ccBuiltinSkip[key] != "":
			nSkip++
			skipped = append(skipped, key+": "+ccBuiltinSkip[key])
		case ccSkipByReceiver(key) != "":
			nSkip++
		default:
			missing = append(missing, key)
		}
	}
	sort.Strings(skipped)
	c.Analysed("cc_builtins_not_in_armed_corpus", skipped)
	c.Analysed("cc_builtin_receivers_not_applicable", ccReceiverSkip)
	c.Check(len(missing) == 0, "CC.cover.builtin", "lang/builtin.{Funcs,SliceFuncs,SliceU8Funcs,TableFuncs}", "every built-in method of the tables is called by a compiled corpus program, or is listed with the reason it is not (known finding, rejected by cgen, other CPU architecture)", nB,
		fmt.Sprintf("%d methods in the tables, %d called, %d listed as skipped; neither: %v", len(universe), nB, nSkip, missing))
	c.Floor("CC.cover.builtin", "built-in methods called by compiled corpus programs", nB, ccFloorBuiltins)
	for key := range ccBuiltinSkip {
		found := false
		for _, u := range universe {
			if u == key {
				found = true
			}
		}
		if !found {
			c.Undecided("CC.cover.builtin", "skip-table:"+key, "every entry of the skip table names a method of lang/builtin's tables", "stale entry")
		}
	}

	// (4) frozen list of constructs that must stay in the corpus (they are the
	// ones a past or seeded defect needed).
	missing = nil
	for _, want := range ccRequiredConstructs {
		if !m.set[want] {
			missing = append(missing, want)
		}
	}
	c.Check(len(missing) == 0, "CC.cover.required", "corpus/ccompile + generator", "the constructs that past defects of cgen needed (refined parameter with a return type aside, which is a known finding) are present in the compiled corpus", len(ccRequiredConstructs), fmt.Sprintf("missing: %v", missing))
}

// ccRequiredConstructs: measured constructs that must stay in the corpus.
var ccRequiredConstructs = []string{
	// commit 7d155f8: saturating operators on the small integer types
	"binop: ~sat+ on u8", "binop: ~sat- on u8", "binop: ~sat+ on u16", "binop: ~sat- on u16",
	// seeded C11-2: pointers to arrays of arrays, as local and as argument
	"decl: local nptr roarray roarray u16", "decl: argument nptr roarray roarray u16", "decl: argument ptr array array u16", "decl: local nptr array array u8",
	// pointers to one-dimensional arrays (the only form std has)
	"decl: local nptr roarray u16", "decl: argument nptr roarray u16",
	// refined parameters of public methods (argument re-validation), each effect that compiles today
	"func: pub effect \"!\" returns none, checked arguments", "func: pub effect \"?\" returns none, checked arguments",
	// statement lowerings
	"stmt: while true ... break (do-while(0) lowering)", "stmt: while, labelled, deep break, deep continue", "stmt: io_bind on io_writer at local", "stmt: io_limit on io_reader at arg", "stmt: io_forget_history on io_writer at arg",
}

// ccReceiverSkip: receiver types whose methods are not exercised, with reason.
var ccReceiverSkip = map[string]string{
	"arm_crc32_utility": "ARM intrinsics: the emitted C is inside #if defined(WUFFS_PRIVATE_IMPL__CPU_ARCH__ARM_*) and is not seen by an x86 compiler",
	"arm_crc32_u32":     "ARM intrinsics (as above)",
	"arm_neon_utility":  "ARM intrinsics (as above)",
}

func ccSkipByReceiver(key string) string {
	recv := key[:strings.IndexByte(key, '.')]
	if r, ok := ccReceiverSkip[recv]; ok {
		return r
	}
	if strings.HasPrefix(recv, "arm_neon_") {
		return ccReceiverSkip["arm_neon_utility"]
	}
	return ""
}
