package main

// C04, loop lowering (rules W1–W3).
//
// cgen lowers a Wuffs `while true { …; break }` loop to the C idiom
// `do { … } while (0);` (the final `break` is dropped). That is a translation
// of the Wuffs loop only if the body runs at most once, i.e. only if
//   (a) the condition is the literal `true`,
//   (b) the final statement is a `break` that targets this very loop, and
//   (c) no `continue` that cgen emits as a plain C `continue;` targets the loop:
//       inside do/while(0) a C `continue` jumps to the `while (0)` test and
//       LEAVES the loop, whereas a Wuffs `continue` restarts the body.
// (A deep `continue` from a nested loop is emitted as `goto label__X__continue`
// with the label in front of the loop and is harmless for the idiom.)
//
//   W1.continue  generated C (std + corpus): no `continue;` statement has a
//                do/while(0) as its innermost enclosing loop.
//   W2.runonce   generated C joined with the Wuffs AST, per function: the
//                number of do/while(0) loops does not exceed the number of
//                Wuffs loops that satisfy (a)–(c) as computed by this checker
//                from the AST (jump targets resolved by the front end) —
//                an inclusion in the safe direction: emitting `while (true) {…
//                break; }` for a run-once loop is always right.
//   W3.guard     cgen itself (E1g on go/cfg of writeStatementWhile): the flag
//                that selects the `do {` emission becomes true only past
//                `n.IsWhileTrue()`, `!n.HasContinue()` and `j.JumpTarget() == n`.

import (
	"fmt"
	"go/ast"
	"go/token"
	"go/types"
	"os"
	"strings"

	"wv/core"

	a "github.com/google/wuffs/lang/ast"
	t "github.com/google/wuffs/lang/token"
)

// ---- tier W: which Wuffs loops may be lowered to run-once ----

// shallowContinue: some `continue` targets loop n and has n as its innermost
// enclosing loop (cgen emits it as a plain C `continue;`).
func shallowContinue(n *a.While, list []*a.Node) bool {
	for _, o := range list {
		switch o.Kind() {
		case a.KJump:
			j := o.AsJump()
			if j.Keyword() == t.IDContinue && j.JumpTarget() == a.Loop(n) {
				return true
			}
		case a.KIf:
			for x := o.AsIf(); x != nil; x = x.ElseIf() {
				if shallowContinue(n, x.BodyIfTrue()) || shallowContinue(n, x.BodyIfFalse()) {
					return true
				}
			}
		case a.KIOManip:
			if shallowContinue(n, o.AsIOManip().Body()) {
				return true
			}
		}
		// nested while / iterate: a continue from inside them is deep (a goto).
	}
	return false
}

// runOnceAllowed: conditions (a)–(c) above.
func runOnceAllowed(n *a.While) bool {
	body := n.Body()
	if !n.IsWhileTrue() || len(body) == 0 {
		return false
	}
	last := body[len(body)-1]
	if last.Kind() != a.KJump {
		return false
	}
	j := last.AsJump()
	if j.Keyword() != t.IDBreak || j.JumpTarget() != a.Loop(n) {
		return false
	}
	return !shallowContinue(n, body[:len(body)-1])
}

// ---- tier C ----

type loopStats struct {
	nContinue, nDo0 int
	bad             []string
	odd             []string
}

func scanCLoops(fname string, list []*core.CStmt, loop string, st *loopStats) {
	for _, s := range list {
		switch s.Kind {
		case "continue":
			st.nContinue++
			switch loop {
			case "do0":
				st.bad = append(st.bad, fmt.Sprintf("%s line %d: `continue;` directly inside `do { … } while (0);` — in C it leaves the loop; the Wuffs `continue` restarts the loop body", fname, s.Line))
			case "do":
				st.odd = append(st.odd, fmt.Sprintf("%s line %d: `continue;` inside a do/while whose condition is not the literal 0", fname, s.Line))
			}
		case "while", "for":
			scanCLoops(fname, s.Body, "while", st)
		case "do":
			if len(s.Toks) == 1 && s.Toks[0].Is("0") {
				st.nDo0++
				scanCLoops(fname, s.Body, "do0", st)
			} else {
				scanCLoops(fname, s.Body, "do", st)
			}
		default:
			// if / switch / block: `continue` passes through to the enclosing loop
			scanCLoops(fname, s.Body, loop, st)
			scanCLoops(fname, s.Else, loop, st)
		}
	}
}

// loopControl: positive control for W1 (expected findings on the tree: zero).
func loopControl(c *core.Ctx) {
	const src = `
  do {
    if (a) {
      switch (b) { case 1: continue; }
    }
    while (c) { if (d) { continue; } }
    do { continue; } while (0);
  } while (0);
  while (true) { do { x = 1; } while (0); continue; }
`
	stmts, err := core.CParseBody(core.CLex(src))
	st := &loopStats{}
	if err == nil {
		scanCLoops("control", stmts, "", st)
	}
	c.Check(err == nil && len(st.bad) == 2 && st.nContinue == 4 && st.nDo0 == 3, "W1.control", "control[continue in do/while(0)]",
		"positive control: of four `continue;` statements the scanner reports exactly the two whose innermost loop is a do/while(0) (through if/switch), not the ones inside a nested or enclosing while", st.nContinue,
		fmt.Sprintf("parse error %v; reported %v; %d continue, %d do/while(0)", err, st.bad, st.nContinue, st.nDo0))
}

func checkLoopLowering(c *core.Ctx, pkgs []*WPkg) {
	loopControl(c)
	totCont, totDo0, totAllowed, nCorpusCont := 0, 0, 0, 0
	for _, pk := range pkgs {
		src, err := os.ReadFile(pk.CPath)
		if err != nil {
			c.Infra("%v", err)
		}
		cf := core.CParseFile(pk.CPath, string(src))
		where := "std/"
		if pk.Corpus {
			where = "corpus/"
		}
		joined := map[string]*a.Func{}
		for _, f := range pk.Funcs {
			joined[cBodyName(pk, f)] = f
		}
		for _, cfn := range cf.Funcs {
			if !strings.HasPrefix(cfn.Name, "wuffs_"+pk.Name+"__") {
				continue
			}
			stmts, perr := core.CParseBody(cfn.Body)
			if perr != nil {
				txt := core.CText(cfn.Body)
				if strings.Contains(txt, "continue") || strings.Contains(txt, "do {") {
					c.Undecided("W1.continue", "generated C "+cfn.Name, "function body parses into a statement tree", perr.Error())
				}
				continue
			}
			st := &loopStats{}
			scanCLoops(cfn.Name, stmts, "", st)
			totCont += st.nContinue
			totDo0 += st.nDo0
			if pk.Corpus {
				nCorpusCont += st.nContinue
			}
			anchor := "generated C " + where + pk.Name + " " + cfn.Name
			if len(st.odd) > 0 {
				c.Undecided("W1.continue", anchor, "every do/while that contains a `continue;` is the run-once idiom do/while(0) or a genuine loop", strings.Join(st.odd, "\n"))
			}
			if st.nContinue > 0 || st.nDo0 > 0 {
				c.Check(len(st.bad) == 0, "W1.continue", anchor,
					"no `continue;` has a `do { … } while (0);` as its innermost enclosing loop: there the C `continue` leaves the loop while the Wuffs `continue` it translates restarts the loop body (different return values, stored fields and consumed input)",
					st.nContinue+st.nDo0, strings.Join(st.bad, "\n"))
			}
			// W2: join with the AST.
			f := joined[cfn.Name]
			if f == nil {
				if st.nDo0 > 0 {
					c.Undecided("W2.runonce", anchor, "a generated function that contains do/while(0) is joined with its Wuffs declaration", "no Wuffs function named like this C function")
				}
				continue
			}
			allowed, nWhile := 0, 0
			var names []string
			countWhiles(pk, f.Body(), 1, func(n *a.While, mult int) {
				nWhile += mult
				if runOnceAllowed(n) {
					allowed += mult
					fn, ln := n.AsNode().AsRaw().FilenameLine()
					names = append(names, fmt.Sprintf("%s:%d×%d", shortFile(fn), ln, mult))
				}
			})
			totAllowed += allowed
			if st.nDo0 > 0 || allowed > 0 {
				c.Check(st.nDo0 <= allowed, "W2.runonce", anchor,
					"the function has no more do/while(0) loops than Wuffs loops that run their body at most once (`while true`, final statement a `break` of that loop, no same-level `continue` of that loop): any other loop lowered to do/while(0) executes its body once where the Wuffs source iterates (or leaves a different loop)",
					nWhile+st.nDo0, fmt.Sprintf("%s: %d do/while(0) loops in the generated C, but only %d of the %d Wuffs while loops may run once %v", cfn.Name, st.nDo0, allowed, nWhile, names))
			}
		}
	}
	c.Analysed("c_continue_statements", totCont)
	c.Analysed("c_do_while_0_loops", totDo0)
	c.Analysed("wuffs_run_once_loops", totAllowed)
	c.Floor("W1", "`continue;` statements examined in generated C", totCont, 115)
	c.Floor("W1.corpus", "`continue;` statements in the lowering corpus (same-level continue in a `while true … break` loop)", nCorpusCont, 2)
	c.Floor("W2", "do/while(0) loops examined in generated C", totDo0, 26)
}

// cBodyName is the C function that holds the translated body of f: a choosy
// method's own name is a dispatcher through the choosy pointer, and its body is
// emitted as <name>__choosy_default.
func cBodyName(pk *WPkg, f *a.Func) string {
	if f.Choosy() {
		return pk.funcCName(f) + "__choosy_default"
	}
	return pk.funcCName(f)
}

func shortFile(p string) string {
	if i := strings.LastIndex(p, "/std/"); i >= 0 {
		return p[i+1:]
	}
	if i := strings.LastIndex(p, "/"); i >= 0 {
		return p[i+1:]
	}
	return p
}

// countWhiles is wuffsWhiles with the unroll factor read through the package's token map.
func countWhiles(pk *WPkg, list []*a.Node, mult int, f func(n *a.While, mult int)) {
	for _, o := range list {
		switch o.Kind() {
		case a.KWhile:
			f(o.AsWhile(), mult)
			countWhiles(pk, o.AsWhile().Body(), mult, f)
		case a.KIf:
			for x := o.AsIf(); x != nil; x = x.ElseIf() {
				countWhiles(pk, x.BodyIfTrue(), mult, f)
				countWhiles(pk, x.BodyIfFalse(), mult, f)
			}
		case a.KIOManip:
			countWhiles(pk, o.AsIOManip().Body(), mult, f)
		case a.KIterate:
			for x := o.AsIterate(); x != nil; x = x.ElseIterate() {
				u := 0
				fmt.Sscanf(pk.str(x.Unroll()), "%d", &u)
				m := 1
				if u > 1 {
					m = u + 1 // the unrolled round and the remainder round
				}
				countWhiles(pk, x.Body(), mult*m, f)
			}
		}
	}
}

// ---- tier G: the guard in cgen ----

type polAtom struct {
	e   ast.Expr
	pos bool
}

// condAtoms: the atomic facts established by leaving cond along its taken
// (true) or not-taken edge: conjuncts of a true `&&`, negated disjuncts of a
// false `||`, through `!`, parentheses and boolean locals with one definition.
func condAtoms(fl *core.Flow, e ast.Expr, pos bool, depth int) []polAtom {
	e = ast.Unparen(e)
	switch x := e.(type) {
	case *ast.UnaryExpr:
		if x.Op == token.NOT {
			return condAtoms(fl, x.X, !pos, depth)
		}
	case *ast.BinaryExpr:
		if (x.Op == token.LAND && pos) || (x.Op == token.LOR && !pos) {
			return append(condAtoms(fl, x.X, pos, depth), condAtoms(fl, x.Y, pos, depth)...)
		}
	case *ast.Ident:
		if depth < 4 {
			if v, ok := fl.Obj(x).(*types.Var); ok && !v.IsField() {
				if defs := fl.Defs()[v]; len(defs) == 1 {
					return append([]polAtom{{e, pos}}, condAtoms(fl, defs[0], pos, depth+1)...)
				}
			}
		}
	}
	return []polAtom{{e, pos}}
}

func checkWhileGuard(k *gctx) {
	const rule = "W3.guard"
	fl := k.flow(rule, "internal/cgen", "gen", "writeStatementWhile")
	if fl == nil {
		return
	}
	info := fl.F.Info()
	anchor := "internal/cgen.(gen).writeStatementWhile[isTrivialLoop = true]"
	// the *a.While parameter
	var loopParam types.Object
	for i := 0; ; i++ {
		p := fl.Param(i)
		if p == nil {
			break
		}
		if ptr, ok := p.Type().(*types.Pointer); ok {
			if nm, ok := ptr.Elem().(*types.Named); ok && nm.Obj().Name() == "While" && nm.Obj().Pkg() != nil && strings.HasSuffix(nm.Obj().Pkg().Path(), "lang/ast") {
				loopParam = p
			}
		}
	}
	if loopParam == nil {
		k.c.Undecided(rule, anchor, "writeStatementWhile has a *ast.While parameter", "not found")
		return
	}
	// the flag: the variable tested by the `if` that emits "do {".
	var flag types.Object
	ast.Inspect(fl.F.Decl.Body, func(m ast.Node) bool {
		ifs, ok := m.(*ast.IfStmt)
		if !ok {
			return true
		}
		emits := false
		for _, s := range ifs.Body.List {
			if core.AnyCall(s, func(call *ast.CallExpr) bool {
				for _, arg := range call.Args {
					if v := core.ConstVal(info, arg); v != nil && strings.HasPrefix(strings.TrimSpace(strings.Trim(v.ExactString(), `"`)), "do {") {
						return true
					}
				}
				return false
			}) {
				emits = true
			}
		}
		if emits {
			if id, ok := ast.Unparen(ifs.Cond).(*ast.Ident); ok {
				flag = fl.Obj(id)
			}
		}
		return true
	})
	if flag == nil {
		k.c.Undecided(rule, anchor, "the `do {` emission is selected by a boolean local", "no `if <flag> { … \"do {\" … }` found in writeStatementWhile")
		return
	}
	// exits: assignments that may make the flag true
	isSet := func(n ast.Node) bool {
		as, ok := n.(*ast.AssignStmt)
		if !ok || len(as.Lhs) != len(as.Rhs) {
			return false
		}
		for i, l := range as.Lhs {
			if fl.Obj(l) != flag {
				continue
			}
			if v := core.ConstVal(info, as.Rhs[i]); v != nil && v.ExactString() == "false" {
				continue
			}
			return true
		}
		return false
	}
	nSet := 0
	nonConst := ""
	ast.Inspect(fl.F.Decl.Body, func(m ast.Node) bool {
		if as, ok := m.(*ast.AssignStmt); ok && isSet(as) {
			nSet++
			for i, l := range as.Lhs {
				if fl.Obj(l) == flag && i < len(as.Rhs) {
					if v := core.ConstVal(info, as.Rhs[i]); v == nil {
						nonConst = k.g.Pos(as.Pos()) + ": " + core.Src(k.g.Fset, as)
					}
				}
			}
		}
		return true
	})
	if nSet == 0 || nonConst != "" {
		k.c.Undecided(rule, anchor, "the flag is set by assignments of the constant true", fmt.Sprintf("%d assignments; non-constant: %s", nSet, nonConst))
		return
	}
	methodOnLoop := func(e ast.Expr, name string) bool {
		call, ok := ast.Unparen(e).(*ast.CallExpr)
		if !ok {
			return false
		}
		fn := core.Callee(info, call)
		if fn == nil || fn.Name() != name || fn.Pkg() == nil || !strings.HasSuffix(fn.Pkg().Path(), "lang/ast") {
			return false
		}
		return fl.Denotes(fl.Is(loopParam))(core.RecvOf(call))
	}
	jumpTargetCall := func(e ast.Expr) bool {
		call, ok := ast.Unparen(e).(*ast.CallExpr)
		if !ok {
			return false
		}
		fn := core.Callee(info, call)
		if fn == nil || fn.Name() != "JumpTarget" || fn.Pkg() == nil || !strings.HasSuffix(fn.Pkg().Path(), "lang/ast") {
			return false
		}
		sig := fn.Type().(*types.Signature)
		return sig.Recv() != nil && strings.HasSuffix(sig.Recv().Type().String(), "lang/ast.Jump")
	}
	guards := []struct {
		id, claim string
		match     func(at polAtom) bool
	}{
		{"whiletrue", "the loop condition is the literal true (otherwise the body of `while cond { …; break }` would run even when cond is false)",
			func(at polAtom) bool { return at.pos && methodOnLoop(at.e, "IsWhileTrue") }},
		{"nocontinue", "no continue targets the loop (a C `continue` inside do/while(0) leaves the loop instead of restarting its body)",
			func(at polAtom) bool { return !at.pos && methodOnLoop(at.e, "HasContinue") }},
		{"ownbreak", "the dropped final break targets this very loop (a final `break.outer` must leave the outer loop, not fall out of a run-once inner loop)",
			func(at polAtom) bool {
				b, ok := ast.Unparen(at.e).(*ast.BinaryExpr)
				if !ok || !((b.Op == token.EQL && at.pos) || (b.Op == token.NEQ && !at.pos)) {
					return false
				}
				isN := fl.Denotes(fl.Is(loopParam))
				return (jumpTargetCall(b.X) && isN(b.Y)) || (jumpTargetCall(b.Y) && isN(b.X))
			}},
	}
	for _, g := range guards {
		g := g
		k.mustPass(rule+"."+g.id, anchor, "cgen selects the do/while(0) lowering of a while loop only when "+g.claim, fl, core.Query{
			Exit: isSet,
			Events: []core.Event{{Edge: func(cond ast.Expr, ci *core.CondInfo, taken bool) bool {
				if ci == nil || (ci.Kind != "if" && ci.Kind != "switch") {
					return false
				}
				for _, at := range condAtoms(fl, cond, taken, 0) {
					if g.match(at) {
						return true
					}
				}
				return false
			}}},
		})
	}
}
