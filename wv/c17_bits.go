package main

// Shared helpers for the C17 carry rules (c17_carry.go) and the C19 header
// rules (c19_init.go):
//
//   - linImage: an integer expression built from ONE root value by constant
//     shifts, constant masks and integer conversions is a GF(2)-linear map on
//     the root's bits, so it is characterised exactly by the images of the
//     unit vectors 1<<i. Two such expressions are equal as functions iff their
//     images are equal, however they are spelt (`uint8(x >> 24)`,
//     `byte((x >> 24) & 0xFF)`, `uint8(uint32(x) >> 24)` …). The images are
//     computed by folding the expression's own syntax tree with constants from
//     go/types; this is constant arithmetic on a syntax tree, not an execution
//     of the analysed program.
//   - ivset: finite unions of half-open intervals of uint64, used to decide
//     comparisons `field(x) REL const` exactly over a bounded domain.

import (
	"fmt"
	"go/ast"
	"go/constant"
	"go/token"
	"go/types"
	"sort"
	"strings"
)

// linEval folds an expression for one concrete assignment of the roots.
type linEval struct {
	info *types.Info
	// leaf returns the value of a root / tracked local under the current basis.
	leaf func(e ast.Expr) (uint64, bool)
}

// typeBits: width in bits of an integer type (int/uint/uintptr are taken as 64:
// the expressions this is used on never carry a bit above position 40).
func typeBits(t types.Type) (bits int, signed bool, ok bool) {
	if t == nil {
		return 0, false, false
	}
	b, isB := types.Unalias(t).Underlying().(*types.Basic)
	if !isB {
		return 0, false, false
	}
	switch b.Kind() {
	case types.Uint8:
		return 8, false, true
	case types.Uint16:
		return 16, false, true
	case types.Uint32:
		return 32, false, true
	case types.Uint64, types.Uint, types.Uintptr:
		return 64, false, true
	case types.Int8:
		return 8, true, true
	case types.Int16:
		return 16, true, true
	case types.Int32:
		return 32, true, true
	case types.Int64, types.Int:
		return 64, true, true
	case types.UntypedInt, types.UntypedRune:
		return 64, true, true
	}
	return 0, false, false
}

func truncBits(v uint64, bits int) uint64 {
	if bits >= 64 {
		return v
	}
	return v & (uint64(1)<<uint(bits) - 1)
}

func constU64(info *types.Info, e ast.Expr) (uint64, bool) {
	tv, ok := info.Types[e]
	if !ok || tv.Value == nil {
		return 0, false
	}
	v := constant.ToInt(tv.Value)
	if v.Kind() != constant.Int {
		return 0, false
	}
	u, exact := constant.Uint64Val(v)
	return u, exact
}

// at folds e. Only GF(2)-linear operations of the root are accepted:
// x<<c, x>>c, x&c, c&x, integer conversions, parentheses. (Non-negative
// values only: the callers bound the root's domain below 2^40, so arithmetic
// and logical right shifts coincide.)
func (l *linEval) at(e ast.Expr) (uint64, bool) {
	e = ast.Unparen(e)
	if v, ok := l.leaf(e); ok {
		bits, _, okb := typeBits(l.info.TypeOf(e))
		if !okb {
			return 0, false
		}
		return truncBits(v, bits), true
	}
	switch v := e.(type) {
	case *ast.BinaryExpr:
		bits, _, okb := typeBits(l.info.TypeOf(e))
		if !okb {
			return 0, false
		}
		switch v.Op {
		case token.SHL, token.SHR:
			c, okc := constU64(l.info, v.Y)
			x, okx := l.at(v.X)
			if !okc || !okx {
				return 0, false
			}
			if c >= 64 {
				return 0, true
			}
			if v.Op == token.SHL {
				return truncBits(x<<c, bits), true
			}
			return x >> c, true
		case token.AND:
			if c, okc := constU64(l.info, v.Y); okc {
				if x, okx := l.at(v.X); okx {
					return x & c, true
				}
			}
			if c, okc := constU64(l.info, v.X); okc {
				if x, okx := l.at(v.Y); okx {
					return x & c, true
				}
			}
		}
		return 0, false
	case *ast.CallExpr:
		if tv, ok := l.info.Types[v.Fun]; ok && tv.IsType() && len(v.Args) == 1 {
			bits, _, okb := typeBits(tv.Type)
			x, okx := l.at(v.Args[0])
			if !okb || !okx {
				return 0, false
			}
			return truncBits(x, bits), true
		}
	}
	return 0, false
}

// bitField describes a linear image that is a contiguous bit field:
// value = ((root >> lo) mod 2^(hi-lo)) << out.
type bitField struct{ lo, hi, out int }

// fieldOf recognises img (images of the unit vectors 0..len(img)-1) as one
// contiguous bit field. ok=false for the zero map or anything else.
func fieldOf(img []uint64) (bitField, bool) {
	lo, hi := -1, -1
	for i, v := range img {
		if v != 0 {
			if lo < 0 {
				lo = i
			}
			hi = i + 1
		}
	}
	if lo < 0 {
		return bitField{}, false
	}
	// img[lo] must be a single bit; the others follow from it.
	first := img[lo]
	if first&(first-1) != 0 {
		return bitField{}, false
	}
	out := 0
	for first>>uint(out) != 1 {
		out++
	}
	for i := lo; i < hi; i++ {
		sh := uint(out + i - lo)
		if sh >= 64 || img[i] != uint64(1)<<sh {
			return bitField{}, false
		}
	}
	return bitField{lo, hi, out}, true
}

func imgString(img []uint64) string {
	if f, ok := fieldOf(img); ok {
		return fmt.Sprintf("bits[%d,%d)<<%d", f.lo, f.hi, f.out)
	}
	allZero := true
	for _, v := range img {
		if v != 0 {
			allZero = false
		}
	}
	if allZero {
		return "0"
	}
	var parts []string
	for i, v := range img {
		if v != 0 {
			parts = append(parts, fmt.Sprintf("b%d->%#x", i, v))
		}
	}
	return strings.Join(parts, " ")
}

func sameImg(a, b []uint64) bool {
	if len(a) != len(b) {
		return false
	}
	for i := range a {
		if a[i] != b[i] {
			return false
		}
	}
	return true
}

// ---------------------------------------------------------------------------
// interval sets

type iv struct{ a, b uint64 } // [a,b)
type ivset []iv

func ivNorm(s ivset) ivset {
	var t ivset
	for _, x := range s {
		if x.a < x.b {
			t = append(t, x)
		}
	}
	sort.Slice(t, func(i, j int) bool { return t[i].a < t[j].a })
	var out ivset
	for _, x := range t {
		if n := len(out); n > 0 && x.a <= out[n-1].b {
			if x.b > out[n-1].b {
				out[n-1].b = x.b
			}
			continue
		}
		out = append(out, x)
	}
	return out
}

func (s ivset) and(t ivset) ivset {
	var out ivset
	for _, x := range s {
		for _, y := range t {
			a, b := x.a, x.b
			if y.a > a {
				a = y.a
			}
			if y.b < b {
				b = y.b
			}
			if a < b {
				out = append(out, iv{a, b})
			}
		}
	}
	return ivNorm(out)
}

// not: complement inside [0,dom).
func (s ivset) not(dom uint64) ivset {
	var out ivset
	cur := uint64(0)
	for _, x := range ivNorm(s) {
		if x.a > cur {
			out = append(out, iv{cur, x.a})
		}
		if x.b > cur {
			cur = x.b
		}
	}
	if cur < dom {
		out = append(out, iv{cur, dom})
	}
	return out
}

func (s ivset) or(t ivset) ivset { return ivNorm(append(append(ivset{}, s...), t...)) }

func (s ivset) empty() bool { return len(s) == 0 }

func (s ivset) String() string {
	if len(s) == 0 {
		return "{}"
	}
	var p []string
	for _, x := range s {
		p = append(p, fmt.Sprintf("[%#x,%#x]", x.a, x.b-1))
	}
	return strings.Join(p, "∪")
}

// fieldCmpSet: { v in [0,2^domBits) : field(v) REL c } where field(v) =
// ((v >> f.lo) mod 2^(f.hi-f.lo)) << f.out. Exact; ok=false when the field
// repeats more than 4096 times inside the domain (not a shape met in practice).
func fieldCmpSet(f bitField, op token.Token, c uint64, domBits int) (ivset, bool) {
	hi := f.hi
	if hi > domBits {
		hi = domBits
	}
	if f.lo >= hi {
		return nil, false
	}
	F := uint64(1) << uint(hi-f.lo) // field values 0..F-1
	k := uint(f.out)
	// fGE: smallest field value with value<<k >= c; fGT: smallest with value<<k > c.
	var fGE, fGT uint64
	if k >= 63 {
		return nil, false
	}
	fGE = (c + (uint64(1)<<k - 1)) >> k
	if c > ^uint64(0)-(uint64(1)<<k) {
		fGE = F
	}
	fGT = (c >> k) + 1
	if fGE > F {
		fGE = F
	}
	if fGT > F {
		fGT = F
	}
	var fr ivset
	switch op {
	case token.LSS:
		fr = ivset{{0, fGE}}
	case token.LEQ:
		fr = ivset{{0, fGT}}
	case token.GTR:
		fr = ivset{{fGT, F}}
	case token.GEQ:
		fr = ivset{{fGE, F}}
	case token.EQL:
		fr = ivset{{fGE, fGT}}
	case token.NEQ:
		fr = ivset{{0, fGE}, {fGT, F}}
	default:
		return nil, false
	}
	fr = ivNorm(fr)
	periods := uint64(1) << uint(domBits-hi)
	if periods > 4096 {
		return nil, false
	}
	var out ivset
	for q := uint64(0); q < periods; q++ {
		base := q << uint(hi)
		for _, r := range fr {
			out = append(out, iv{base + r.a<<uint(f.lo), base + r.b<<uint(f.lo)})
		}
	}
	return ivNorm(out), true
}
