package main

// Contract rows: I/O helpers of io-private.h (marks, limits, set, bounded copies,
// history copies) and the bulk copies of fundamental-private.h.

import "fmt"

func (x *bx) expectWritten(what string, b *cbuf, lo, hi int64) bool {
	if b == nil || b.wmask == nil {
		return true
	}
	for k := int64(0); k < b.size; k++ {
		in := k >= lo && k < hi
		if b.wmask[k] != in {
			if in {
				return x.expect(false, "%s: byte %d of the range [%d, %d) that must be written was not written", what, k, lo, hi)
			}
			return x.expect(false, "%s: byte %d was written, outside the range [%d, %d) that may be written", what, k, lo, hi)
		}
	}
	return true
}

func (x *bx) expectReadsWithin(what string, b *cbuf, lo, hi int64) bool {
	if b == nil || b.nRead == 0 {
		return true
	}
	return x.expect(b.rdLo >= lo && b.rdHi <= hi, "%s: bytes [%d, %d) were read, outside [%d, %d)", what, b.rdLo, b.rdHi, lo, hi)
}

func (x *bx) expectNoWrites(what string, b *cbuf) bool {
	if b == nil {
		return true
	}
	return x.expect(b.nWrite == 0, "%s was written (bytes [%d, %d))", what, b.wrLo, b.wrHi)
}

func bMin(vs ...uint64) uint64 {
	m := vs[0]
	for _, v := range vs[1:] {
		if v < m {
			m = v
		}
	}
	return m
}

func bIORows() []bRow {
	limit := func(fn, who string) bRow {
		return bRow{fn: fn, rule: "B.exact.io", reason: who + "limit(&io2, iop, limit): io2 := iop + min(io2 - iop, limit) — never beyond the old io2", run: func(x *bx) {
			type rc struct {
				b    *cbuf
				a, e int64
			}
			cases := []rc{{nil, 0, 0}}
			for _, n := range x.lens() {
				if n > 1<<62 {
					continue
				}
				b := x.e.newBuf(int64(n)+3, false)
				cases = append(cases, rc{b, 1, 1 + int64(n)}, rc{b, 0, 0})
			}
			for _, c := range cases {
				for _, lim := range x.idx64(uint64(c.e - c.a)) {
					if x.done() {
						return
					}
					c, lim := c, lim
					io2 := x.cell(x.p8(c.b, c.e))
					x.begin(func() string {
						return fmt.Sprintf("iop=%s io2=%s limit=%d", bPtrStr(x.p8(c.b, c.a)), bPtrStr(x.p8(c.b, c.e)), lim)
					})
					if _, ok := x.call(x.pcell(io2), x.p8(c.b, c.a), x.u64(lim)); !ok {
						continue
					}
					want := c.a + int64(bMin(uint64(c.e-c.a), lim))
					x.expect(bSamePtr(io2.v, c.b, want), "io2 became %s, want offset %d", bPtrStr(io2.v), want)
				}
			}
		}}
	}
	set := func(fn string, reader bool) bRow {
		who := "io_writer__set: wi = 0"
		if reader {
			who = "io_reader__set: wi = len"
		}
		return bRow{fn: fn, rule: "B.exact.io", reason: who + ", ri = 0, closed = false, iop = io0 = io1 = data.ptr, io2 = data.ptr + data.len (the window is exactly the slice)", run: func(x *bx) {
			for _, sc := range x.sliceCases() {
				for _, pos := range []uint64{0, 5, ^uint64(0)} {
					if x.done() {
						return
					}
					sc, pos := sc, pos
					junkB := x.e.newBuf(9, false)
					junk := x.p8(junkB, 4)
					buf := x.cell(x.structVal("wuffs_base__io_buffer", x.slice(junkB, 1, 7),
						x.structVal("wuffs_base__io_buffer_meta", x.sz(3), x.sz(2), x.u64(77), x.iv("bool", 1))))
					iop, io0, io1, io2 := x.cell(junk), x.cell(junk), x.cell(junk), x.cell(junk)
					x.begin(func() string {
						return fmt.Sprintf("data=%s history_position=%d", bSliceStr(x.slice(sc.b, sc.off, sc.n)), pos)
					})
					ret, ok := x.call(x.pcell(buf), x.pcell(iop), x.pcell(io0), x.pcell(io1), x.pcell(io2), x.slice(sc.b, sc.off, sc.n), x.u64(pos))
					if !ok {
						continue
					}
					x.expect(ret.cellp == buf, "does not return b")
					x.expect(bSamePtr(iop.v, sc.b, sc.off) && bSamePtr(io0.v, sc.b, sc.off) && bSamePtr(io1.v, sc.b, sc.off),
						"iop/io0/io1 = %s/%s/%s, want data.ptr", bPtrStr(iop.v), bPtrStr(io0.v), bPtrStr(io1.v))
					if sc.b == nil {
						x.expect(io2.v.isNull(), "io2 = %s, want NULL", bPtrStr(io2.v))
					} else {
						x.expect(bSamePtr(io2.v, sc.b, sc.off+int64(sc.n)), "io2 = %s, want data.ptr + %d", bPtrStr(io2.v), sc.n)
					}
					d, mt := bFld(buf.v, "data"), bFld(buf.v, "meta")
					x.expect(bSamePtr(bFld(d, "ptr"), sc.b, sc.off) && bFld(d, "len").u == sc.n, "b->data = %s", bSliceStr(d))
					wantWI := uint64(0)
					if reader {
						wantWI = sc.n
					}
					x.expect(bFld(mt, "wi").u == wantWI && bFld(mt, "ri").u == 0 && bFld(mt, "pos").u == pos && bFld(mt, "closed").u == 0,
						"b->meta = (wi %d, ri %d, pos %d, closed %d), want (wi %d, ri 0, pos %d, closed 0)", bFld(mt, "wi").u, bFld(mt, "ri").u, bFld(mt, "pos").u, bFld(mt, "closed").u, wantWI, pos)
				}
			}
		}}
	}
	return []bRow{
		{fn: "wuffs_private_impl__io__count_since", rule: "B.exact.io", reason: "count_since(mark, index) = index >= mark ? index - mark : 0", run: func(x *bx) {
			for _, mark := range x.idx64() {
				for _, index := range x.idx64(mark) {
					if x.done() {
						return
					}
					mark, index := mark, index
					x.begin(func() string { return fmt.Sprintf("mark=%d index=%d", mark, index) })
					ret, ok := x.call(x.u64(mark), x.u64(index))
					if !ok {
						continue
					}
					want := uint64(0)
					if index >= mark {
						want = index - mark
					}
					x.expect(ret.u == want, "got %d, want %d", ret.u, want)
				}
			}
		}},
		{fn: "wuffs_private_impl__io__since", rule: "B.exact.io", reason: "since(mark, index, io0) with index = iop - io0: index >= mark ? (io0 + mark, index - mark) : empty — inside [io0, iop)", run: func(x *bx) {
			for _, sc := range x.sliceCases() {
				for _, index := range x.idxSize(sc.n) {
					if index > sc.n {
						continue // pre-condition: index is a position inside the buffer
					}
					for _, mark := range x.idx64(index) {
						if x.done() {
							return
						}
						sc, index, mark := sc, index, mark
						x.begin(func() string { return fmt.Sprintf("mark=%d index=%d ptr=%s", mark, index, bPtrStr(x.p8(sc.b, sc.off))) })
						ret, ok := x.call(x.u64(mark), x.u64(index), x.p8(sc.b, sc.off))
						if !ok {
							continue
						}
						if index >= mark {
							x.expectSlice(ret, sc.b, sc.off+int64(mark), index-mark)
						} else {
							x.expectSlice(ret, nil, 0, 0)
						}
					}
				}
			}
		}},
		limit("wuffs_private_impl__io_reader__limit", "io_reader__"),
		limit("wuffs_private_impl__io_writer__limit", "io_writer__"),
		set("wuffs_private_impl__io_reader__set", true),
		set("wuffs_private_impl__io_writer__set", false),
	}
}

// bWin is a window [lo, hi) of a data buffer with one spare byte on each side, so that an
// access just outside the window is inside the object and is caught by the range assertions.
type bWin struct {
	b      *cbuf
	lo, hi int64
}

func (x *bx) win(n int64) bWin {
	return bWin{x.e.newBuf(n+3, true), 1, 1 + n}
}

func bCopyRows() []bRow {
	return []bRow{
		{fn: "wuffs_private_impl__slice_u8__copy_from_slice", rule: "B.exact.copy", reason: "copy_from_slice(dst, src): n = min(dst.len, src.len) bytes, returns n", run: func(x *bx) {
			for dn := int64(-1); dn <= 5; dn++ {
				for sn := int64(-1); sn <= 5; sn++ {
					if x.done() {
						return
					}
					// -1 stands for the NULL empty slice
					var d, s bWin
					dl, sl := uint64(0), uint64(0)
					if dn >= 0 {
						d, dl = x.win(dn), uint64(dn)
					}
					if sn >= 0 {
						s, sl = x.win(sn), uint64(sn)
					}
					x.begin(func() string {
						return fmt.Sprintf("dst=%s src=%s", bSliceStr(x.slice(d.b, d.lo, dl)), bSliceStr(x.slice(s.b, s.lo, sl)))
					})
					ret, ok := x.call(x.slice(d.b, d.lo, dl), x.slice(s.b, s.lo, sl))
					if !ok {
						continue
					}
					n := int64(bMin(dl, sl))
					x.expect(ret.u == uint64(n), "returned %d, want %d", ret.u, n)
					x.expectWritten("dst", d.b, d.lo, d.lo+n)
					x.expectReadsWithin("src", s.b, s.lo, s.lo+n)
					x.expectNoWrites("src", s.b)
					for k := int64(0); k < n; k++ {
						x.expect(d.b.data[d.lo+k] == s.b.data[s.lo+k], "dst[%d] != src[%d]", k, k)
					}
				}
			}
		}},
		{fn: "wuffs_private_impl__bulk_load_host_endian", rule: "B.exact.copy", reason: "bulk_load(ptr, len, src): copies len bytes into the len-byte object only if 0 < len <= src.len, else nothing", run: func(x *bx) {
			for ln := int64(0); ln <= 5; ln++ {
				for sn := int64(-1); sn <= 6; sn++ {
					if x.done() {
						return
					}
					d := x.win(ln)
					var s bWin
					sl := uint64(0)
					if sn >= 0 {
						s, sl = x.win(sn), uint64(sn)
					}
					ln := ln
					x.begin(func() string { return fmt.Sprintf("len=%d src=%s", ln, bSliceStr(x.slice(s.b, s.lo, sl))) })
					if _, ok := x.call(x.p8(d.b, d.lo), x.sz(uint64(ln)), x.slice(s.b, s.lo, sl)); !ok {
						continue
					}
					n := int64(0)
					if uint64(ln) <= sl {
						n = ln
					}
					x.expectWritten("*ptr", d.b, d.lo, d.lo+n)
					x.expectReadsWithin("src", s.b, s.lo, s.lo+n)
					for k := int64(0); k < n; k++ {
						x.expect(d.b.data[d.lo+k] == s.b.data[s.lo+k], "ptr[%d] != src[%d]", k, k)
					}
				}
			}
		}},
		{fn: "wuffs_private_impl__bulk_save_host_endian", rule: "B.exact.copy", reason: "bulk_save(ptr, len, dst): copies len bytes out of the len-byte object only if 0 < len <= dst.len, else nothing", run: func(x *bx) {
			for ln := int64(0); ln <= 5; ln++ {
				for dn := int64(-1); dn <= 6; dn++ {
					if x.done() {
						return
					}
					s := x.win(ln)
					var d bWin
					dl := uint64(0)
					if dn >= 0 {
						d, dl = x.win(dn), uint64(dn)
					}
					ln := ln
					x.begin(func() string { return fmt.Sprintf("len=%d dst=%s", ln, bSliceStr(x.slice(d.b, d.lo, dl))) })
					if _, ok := x.call(x.p8(s.b, s.lo), x.sz(uint64(ln)), x.slice(d.b, d.lo, dl)); !ok {
						continue
					}
					n := int64(0)
					if uint64(ln) <= dl {
						n = ln
					}
					x.expectWritten("dst", d.b, d.lo, d.lo+n)
					x.expectReadsWithin("*ptr", s.b, s.lo, s.lo+n)
					x.expectNoWrites("*ptr", s.b)
					for k := int64(0); k < n; k++ {
						x.expect(d.b.data[d.lo+k] == s.b.data[s.lo+k], "dst[%d] != ptr[%d]", k, k)
					}
				}
			}
		}},
		{fn: "wuffs_private_impl__bulk_memset", rule: "B.exact.copy", reason: "bulk_memset(ptr, len, v): writes exactly the len bytes at ptr", run: func(x *bx) {
			for ln := int64(0); ln <= 6; ln++ {
				if x.done() {
					return
				}
				d := x.win(ln)
				ln := ln
				x.begin(func() string { return fmt.Sprintf("len=%d", ln) })
				if _, ok := x.call(x.p8(d.b, d.lo), x.sz(uint64(ln)), x.iv("uint8_t", 0xA7)); !ok {
					continue
				}
				x.expectWritten("*ptr", d.b, d.lo, d.lo+ln)
				for k := int64(0); k < ln; k++ {
					x.expect(d.b.data[d.lo+k] == 0xA7, "ptr[%d] = %#x, want 0xa7", k, d.b.data[d.lo+k])
				}
			}
			x.begin(func() string { return "ptr=NULL len=0" })
			x.call(x.p8(nil, 0), x.sz(0), x.iv("uint8_t", 1))
		}},
		{fn: "wuffs_private_impl__io_reader__limited_copy_u32_to_slice", rule: "B.exact.copy", reason: "n = min(dst.len, length, io2_r - iop_r) bytes from the reader into dst; iop_r += n; returns n", run: func(x *bx) {
			for avail := int64(-1); avail <= 4; avail++ {
				for dn := int64(-1); dn <= 4; dn++ {
					for _, length := range x.u32s(5) {
						if x.done() {
							return
						}
						var r, d bWin
						av, dl := uint64(0), uint64(0)
						if avail >= 0 {
							r, av = x.win(avail), uint64(avail)
						}
						if dn >= 0 {
							d, dl = x.win(dn), uint64(dn)
						}
						iop := x.cell(x.p8(r.b, r.lo))
						length := length
						x.begin(func() string {
							return fmt.Sprintf("reader has %d bytes (iop=%s) length=%d dst=%s", av, bPtrStr(x.p8(r.b, r.lo)), length, bSliceStr(x.slice(d.b, d.lo, dl)))
						})
						ret, ok := x.call(x.pcell(iop), x.p8(r.b, r.hi), x.u32(length), x.slice(d.b, d.lo, dl))
						if !ok {
							continue
						}
						n := int64(bMin(dl, length, av))
						x.expect(ret.u == uint64(n), "returned %d, want %d", ret.u, n)
						x.expect(bSamePtr(iop.v, r.b, r.lo+n), "iop_r became %s, want +%d", bPtrStr(iop.v), n)
						x.expectWritten("dst", d.b, d.lo, d.lo+n)
						x.expectReadsWithin("reader", r.b, r.lo, r.lo+n)
						x.expectNoWrites("reader", r.b)
						for k := int64(0); k < n; k++ {
							x.expect(d.b.data[d.lo+k] == r.b.data[r.lo+k], "dst[%d] != reader[%d]", k, k)
						}
					}
				}
			}
		}},
		{fn: "wuffs_private_impl__io_writer__copy_from_slice", rule: "B.exact.copy", reason: "n = min(src.len, io2_w - iop_w) bytes from src into the writer; iop_w += n; returns n", run: func(x *bx) {
			for free := int64(-1); free <= 4; free++ {
				for sn := int64(-1); sn <= 5; sn++ {
					if x.done() {
						return
					}
					var w, s bWin
					fr, sl := uint64(0), uint64(0)
					if free >= 0 {
						w, fr = x.win(free), uint64(free)
					}
					if sn >= 0 {
						s, sl = x.win(sn), uint64(sn)
					}
					iop := x.cell(x.p8(w.b, w.lo))
					x.begin(func() string {
						return fmt.Sprintf("writer has %d free bytes src=%s", fr, bSliceStr(x.slice(s.b, s.lo, sl)))
					})
					ret, ok := x.call(x.pcell(iop), x.p8(w.b, w.hi), x.slice(s.b, s.lo, sl))
					if !ok {
						continue
					}
					n := int64(bMin(sl, fr))
					x.expect(ret.u == uint64(n), "returned %d, want %d", ret.u, n)
					x.expect(bSamePtr(iop.v, w.b, w.lo+n), "iop_w became %s, want +%d", bPtrStr(iop.v), n)
					x.expectWritten("writer", w.b, w.lo, w.lo+n)
					x.expectReadsWithin("src", s.b, s.lo, s.lo+n)
					for k := int64(0); k < n; k++ {
						x.expect(w.b.data[w.lo+k] == s.b.data[s.lo+k], "writer[%d] != src[%d]", k, k)
					}
				}
			}
		}},
		{fn: "wuffs_private_impl__io_writer__limited_copy_u32_from_reader", rule: "B.exact.copy", reason: "n = min(length, io2_w - iop_w, io2_r - iop_r) bytes reader → writer; both cursors += n; returns n", run: func(x *bx) {
			for free := int64(-1); free <= 4; free++ {
				for avail := int64(-1); avail <= 4; avail++ {
					for _, length := range x.u32s(5) {
						if x.done() {
							return
						}
						var w, r bWin
						fr, av := uint64(0), uint64(0)
						if free >= 0 {
							w, fr = x.win(free), uint64(free)
						}
						if avail >= 0 {
							r, av = x.win(avail), uint64(avail)
						}
						iopw, iopr := x.cell(x.p8(w.b, w.lo)), x.cell(x.p8(r.b, r.lo))
						length := length
						x.begin(func() string {
							return fmt.Sprintf("writer has %d free bytes, reader has %d bytes, length=%d", fr, av, length)
						})
						ret, ok := x.call(x.pcell(iopw), x.p8(w.b, w.hi), x.u32(length), x.pcell(iopr), x.p8(r.b, r.hi))
						if !ok {
							continue
						}
						n := int64(bMin(length, fr, av))
						x.expect(ret.u == uint64(n), "returned %d, want %d", ret.u, n)
						x.expect(bSamePtr(iopw.v, w.b, w.lo+n), "iop_w became %s, want +%d", bPtrStr(iopw.v), n)
						x.expect(bSamePtr(iopr.v, r.b, r.lo+n), "iop_r became %s, want +%d", bPtrStr(iopr.v), n)
						x.expectWritten("writer", w.b, w.lo, w.lo+n)
						x.expectReadsWithin("reader", r.b, r.lo, r.lo+n)
						x.expectNoWrites("reader", r.b)
						for k := int64(0); k < n; k++ {
							x.expect(w.b.data[w.lo+k] == r.b.data[r.lo+k], "writer[%d] != reader[%d]", k, k)
						}
					}
				}
			}
		}},
		{fn: "wuffs_private_impl__io_writer__limited_copy_u32_from_slice", rule: "B.exact.copy", reason: "n = min(src.len, length, io2_w - iop_w) bytes src → writer; iop_w += n; returns n", run: func(x *bx) {
			for free := int64(-1); free <= 4; free++ {
				for sn := int64(-1); sn <= 4; sn++ {
					for _, length := range x.u32s(5) {
						if x.done() {
							return
						}
						var w, s bWin
						fr, sl := uint64(0), uint64(0)
						if free >= 0 {
							w, fr = x.win(free), uint64(free)
						}
						if sn >= 0 {
							s, sl = x.win(sn), uint64(sn)
						}
						iop := x.cell(x.p8(w.b, w.lo))
						length := length
						x.begin(func() string {
							return fmt.Sprintf("writer has %d free bytes, length=%d, src=%s", fr, length, bSliceStr(x.slice(s.b, s.lo, sl)))
						})
						ret, ok := x.call(x.pcell(iop), x.p8(w.b, w.hi), x.u32(length), x.slice(s.b, s.lo, sl))
						if !ok {
							continue
						}
						n := int64(bMin(sl, length, fr))
						x.expect(ret.u == uint64(n), "returned %d, want %d", ret.u, n)
						x.expect(bSamePtr(iop.v, w.b, w.lo+n), "iop_w became %s, want +%d", bPtrStr(iop.v), n)
						x.expectWritten("writer", w.b, w.lo, w.lo+n)
						x.expectReadsWithin("src", s.b, s.lo, s.lo+n)
						for k := int64(0); k < n; k++ {
							x.expect(w.b.data[w.lo+k] == s.b.data[s.lo+k], "writer[%d] != src[%d]", k, k)
						}
					}
				}
			}
		}},
	}
}

// ---- history copies

// bHist: a writer window [io0, io2) = [1, 1+hist+free) of a data buffer, cursor at 1+hist.
type bHist struct {
	b            *cbuf
	io0, p0, io2 int64
	orig         []byte
}

func (x *bx) hist(hist, free int64) bHist {
	b := x.e.newBuf(hist+free+3, true)
	return bHist{b, 1, 1 + hist, 1 + hist + free, append([]byte(nil), b.data...)}
}

// lz77: the expected buffer after a forward copy of n bytes at distance d.
func (h bHist) lz77(n, d int64) []byte {
	out := append([]byte(nil), h.orig...)
	for k := int64(0); k < n; k++ {
		out[h.p0+k] = out[h.p0+k-d]
	}
	return out
}

func bHistoryRows() []bRow {
	fast := func(fn string, chunks bool, dist1 bool, cusp bool) bRow {
		pre := "pre-condition length >= 1, length <= io2_w - iop_w, 1 <= distance <= iop_w - io0_w"
		if chunks {
			pre = "pre-condition length >= 1, length + 8 <= io2_w - iop_w, distance >= 8, distance <= iop_w - io0_w"
			if dist1 {
				pre = "pre-condition length >= 1, length + 8 <= io2_w - iop_w, distance == 1, distance <= iop_w - io0_w"
			}
		}
		res := "returns length"
		if cusp {
			res = "returns the cusp (u16le at the last copied source byte)"
		}
		rule := "B.exact.fast"
		if chunks || cusp {
			rule = "B.bounded.fast" // literals 8 and shifts: the ordering argument does not apply; the domain is stated instead
			pre = "domain: length 1..18 (1..7 without chunks), distances {1..5} / {8, 9, 11} / {1}, history = distance and distance + 2, free space = the pre-condition's minimum and one more; " + pre
		}
		return bRow{fn: fn, rule: rule, reason: pre + "; iop_w += length; " + res, run: func(x *bx) {
			dists := []int64{1, 2, 3, 4, 5}
			maxLen := int64(7)
			if chunks {
				dists = []int64{8, 9, 11}
				maxLen = 18
				if dist1 {
					dists = []int64{1}
				}
			}
			for _, d := range dists {
				for _, hist := range []int64{d, d + 2} {
					for length := int64(1); length <= maxLen; length++ {
						need := length
						if chunks {
							need = length + 8
						}
						for _, free := range []int64{need, need + 1} {
							if x.done() {
								return
							}
							h := x.hist(hist, free)
							iop := x.cell(x.p8(h.b, h.p0))
							d, hist, length, free := d, hist, length, free
							x.begin(func() string {
								return fmt.Sprintf("iop_w - io0_w = %d, io2_w - iop_w = %d, length=%d distance=%d", hist, free, length, d)
							})
							ret, ok := x.call(x.pcell(iop), x.p8(h.b, h.io0), x.p8(h.b, h.io2), x.u32(uint64(length)), x.u32(uint64(d)))
							if !ok {
								continue
							}
							x.expect(bSamePtr(iop.v, h.b, h.p0+length), "iop_w became %s, want +%d", bPtrStr(iop.v), length)
							x.expectReadsWithin("history", h.b, h.io0, h.io2)
							if h.b.nWrite > 0 {
								x.expect(h.b.wrLo >= h.p0 && h.b.wrHi <= h.io2, "bytes [%d, %d) were written, outside [iop_w, io2_w) = [%d, %d)", h.b.wrLo, h.b.wrHi, h.p0, h.io2)
							}
							want := h.lz77(length, d)
							for k := int64(0); k < length; k++ {
								x.expect(h.b.data[h.p0+k] == want[h.p0+k], "copied byte %d is %#x, want %#x (the byte %d back)", k, h.b.data[h.p0+k], want[h.p0+k], d)
							}
							if cusp {
								q := h.p0 - d + length
								wc := uint64(want[q-1]) | uint64(want[q])<<8
								x.expect(ret.u == wc, "cusp %#x, want %#x", ret.u, wc)
							} else {
								x.expect(ret.u == uint64(length), "returned %d, want %d", ret.u, length)
							}
						}
					}
				}
			}
		}}
	}
	const pfx = "wuffs_private_impl__io_writer__limited_copy_u32_from_history"
	return []bRow{
		{fn: pfx, rule: "B.exact.history", reason: "distance == 0 or distance > iop_w - io0_w: returns 0 and copies nothing; else n = min(length, io2_w - iop_w) bytes, each from distance back; iop_w += n; returns n", run: func(x *bx) {
			for hist := int64(0); hist <= 5; hist++ {
				for free := int64(0); free <= 7; free++ {
					for _, length := range x.u32s(8) {
						for _, dist := range x.u32s(7) {
							if x.done() {
								return
							}
							h := x.hist(hist, free)
							iop := x.cell(x.p8(h.b, h.p0))
							hist, free, length, dist := hist, free, length, dist
							x.begin(func() string {
								return fmt.Sprintf("iop_w - io0_w = %d, io2_w - iop_w = %d, length=%d distance=%d", hist, free, length, dist)
							})
							ret, ok := x.call(x.pcell(iop), x.p8(h.b, h.io0), x.p8(h.b, h.io2), x.u32(length), x.u32(dist))
							if !ok {
								continue
							}
							n := int64(0)
							if dist != 0 && dist <= uint64(hist) {
								n = int64(bMin(length, uint64(free)))
							}
							x.expect(ret.u == uint64(n), "returned %d, want %d", ret.u, n)
							x.expect(bSamePtr(iop.v, h.b, h.p0+n), "iop_w became %s, want +%d", bPtrStr(iop.v), n)
							x.expectWritten("writer", h.b, h.p0, h.p0+n)
							x.expectReadsWithin("history", h.b, h.io0, h.io2)
							if n > 0 {
								want := h.lz77(n, int64(dist))
								for k := int64(0); k < n; k++ {
									x.expect(h.b.data[h.p0+k] == want[h.p0+k], "copied byte %d is %#x, want %#x (the byte %d back)", k, h.b.data[h.p0+k], want[h.p0+k], dist)
								}
							}
						}
					}
				}
			}
		}},
		fast(pfx+"_fast", false, false, false),
		fast(pfx+"_fast_return_cusp", false, false, true),
		fast(pfx+"_8_byte_chunks_distance_1_fast", true, true, false),
		fast(pfx+"_8_byte_chunks_distance_1_fast_return_cusp", true, true, true),
		fast(pfx+"_8_byte_chunks_fast", true, false, false),
		fast(pfx+"_8_byte_chunks_fast_return_cusp", true, false, true),
	}
}
