package main

// idxguard_pkg.go — the package-level part of the engine of idxguard.go:
// mod-sets of calls, the three kinds of summaries and their fixpoint, and the
// verdict of every index / slice expression.

import (
	"fmt"
	"go/ast"
	"go/constant"
	"go/token"
	"go/types"
	"os"
	"sort"
	"strings"
	"time"

	"golang.org/x/tools/go/cfg"
	"golang.org/x/tools/go/packages"
	"golang.org/x/tools/go/types/typeutil"

	"wv/core"
)

type igIv2 struct{ a, g igIv }

func (x igIv2) join(y igIv2) igIv2 { return igIv2{x.a.join(y.a), x.g.join(y.g)} }

type igParamSum struct {
	val   igIv2 // integer parameter: its value; slice / string parameter: its length
	owned bool
	seen  bool
}

// igEffect: what a call may change.
type igEffect struct {
	fields map[*types.Var]bool
	ext    bool // runs code outside the package
	dead   bool
}

func (e *igEffect) none() bool { return e == nil || (len(e.fields) == 0 && !e.ext) }

type igPkg struct {
	pkg   *packages.Package
	prog  *core.GoProg
	info  *types.Info
	fns   []*igFn
	byObj map[*types.Func]*igFn

	direct    map[*types.Func]*igEffect // stores written in the body itself
	callees   map[*types.Func][]*types.Func
	dynNames  map[*types.Func][]string // interface method names called
	dynValue  map[*types.Func]bool     // calls a function value
	mod       map[*types.Func]*igEffect
	valueRef  map[*types.Func]bool // referenced other than as the callee of a call
	litCalled map[*types.Func]bool // called from inside a function literal
	ifaceMeth map[string]bool      // method names of interfaces declared in the package
	addrTaken map[*types.Var]bool
	closed    map[*types.Func]bool

	fieldBad map[*types.Var]string // fields without a range invariant, and why
	tables   map[*types.Var]igIv

	paramSum map[*types.Func][]igParamSum
	retSum   map[*types.Func][]igIv2
	fieldInv map[*types.Var]igIv2
	nParam   map[*types.Func][]igParamSum
	nRet     map[*types.Func][]igIv2
	nField   map[*types.Var]igIv2

	runs   map[*igFn]*igRun
	failed map[*igFn]string
	rounds int
	reruns int
	cur    *igRun
	ver    map[string]int
	spent  map[string]time.Duration
}

var noEffect = &igEffect{}

// ---------------------------------------------------------------------------
// Construction
// ---------------------------------------------------------------------------

func newIgPkg(prog *core.GoProg, p *packages.Package) *igPkg {
	P := &igPkg{pkg: p, prog: prog, info: p.TypesInfo, byObj: map[*types.Func]*igFn{},
		direct: map[*types.Func]*igEffect{}, callees: map[*types.Func][]*types.Func{}, dynNames: map[*types.Func][]string{}, dynValue: map[*types.Func]bool{},
		mod: map[*types.Func]*igEffect{}, valueRef: map[*types.Func]bool{}, litCalled: map[*types.Func]bool{}, ifaceMeth: map[string]bool{},
		addrTaken: map[*types.Var]bool{}, closed: map[*types.Func]bool{}, fieldBad: map[*types.Var]string{}, tables: map[*types.Var]igIv{},
		runs: map[*igFn]*igRun{}, failed: map[*igFn]string{}, ver: map[string]int{}, spent: map[string]time.Duration{}}
	for _, f := range prog.AllFuncs(p) {
		if f.Obj == nil {
			continue
		}
		F := &igFn{P: P, name: f.Name(), decl: f.Decl, obj: f.Obj, info: p.TypesInfo, fset: prog.Fset}
		P.fns = append(P.fns, F)
		P.byObj[f.Obj] = F
	}
	sort.Slice(P.fns, func(i, j int) bool { return P.fns[i].name < P.fns[j].name })
	P.scanPackage()
	for _, F := range P.fns {
		F.prepare()
	}
	return P
}

func (P *igPkg) staticCallee(info *types.Info, call *ast.CallExpr) *types.Func {
	fn, _ := typeutil.Callee(info, call).(*types.Func)
	if fn == nil {
		return nil
	}
	fn = fn.Origin()
	if _, ok := P.byObj[fn]; !ok {
		return nil
	}
	return fn
}

// scanPackage: stores, calls, address-of, function references, tables.
func (P *igPkg) scanPackage() {
	info := P.info
	// interfaces declared in the package
	for _, name := range P.pkg.Types.Scope().Names() {
		if tn, ok := P.pkg.Types.Scope().Lookup(name).(*types.TypeName); ok {
			if it, ok := tn.Type().Underlying().(*types.Interface); ok {
				for i := 0; i < it.NumMethods(); i++ {
					P.ifaceMeth[it.Method(i).Name()] = true
				}
			}
		}
	}
	fieldOf := func(e ast.Expr) *types.Var {
		if sel, ok := ast.Unparen(e).(*ast.SelectorExpr); ok {
			if s, ok := info.Selections[sel]; ok && s.Kind() == types.FieldVal {
				f, _ := s.Obj().(*types.Var)
				return f
			}
		}
		return nil
	}
	// storedFields: the fields whose storage a store to lhs writes.
	var storedFields func(lhs ast.Expr, eff *igEffect)
	storedFields = func(lhs ast.Expr, eff *igEffect) {
		lhs = ast.Unparen(lhs)
		switch v := lhs.(type) {
		case *ast.SelectorExpr:
			if f := fieldOf(v); f != nil {
				eff.fields[f] = true
			}
		case *ast.IndexExpr:
			if tv, ok := info.Types[v.X]; ok && tv.Type != nil {
				if igArrayType(tv.Type) != nil {
					eff.fields[igElemToken] = true // an element of some array
				}
				if _, isArr := tv.Type.Underlying().(*types.Array); isArr {
					storedFields(v.X, eff) // an element of an array stored inside the struct
				}
			}
		case *ast.StarExpr:
			// *p = v: the fields of the pointed-to struct, or any field whose address is taken
			if tv, ok := info.Types[v]; ok && tv.Type != nil {
				if st, ok := tv.Type.Underlying().(*types.Struct); ok {
					igAllFields(st, eff.fields, 0)
					return
				}
			}
			eff.fields[igDerefToken] = true
		}
	}
	tableWritten := map[*types.Var]bool{}
	noteTableUse := func(e ast.Expr, written bool) {
		if id, ok := ast.Unparen(e).(*ast.Ident); ok {
			if v, ok := info.Uses[id].(*types.Var); ok && v.Pkg() != nil && v.Parent() == v.Pkg().Scope() && written {
				tableWritten[v] = true
			}
		}
	}
	for _, F := range P.fns {
		eff := &igEffect{fields: map[*types.Var]bool{}}
		P.direct[F.obj] = eff
		var walk func(n ast.Node, inLit bool)
		walk = func(n ast.Node, inLit bool) {
			ast.Inspect(n, func(m ast.Node) bool {
				switch v := m.(type) {
				case *ast.FuncLit:
					if !inLit {
						walk(v.Body, true)
						return false
					}
				case *ast.AssignStmt:
					for _, l := range v.Lhs {
						storedFields(l, eff)
						if ix, ok := ast.Unparen(l).(*ast.IndexExpr); ok {
							noteTableUse(ix.X, true)
						}
						noteTableUse(l, true)
						if inLit {
							if f := fieldOf(l); f != nil {
								P.fieldBad[f] = "stored inside a function literal"
							}
						}
					}
				case *ast.IncDecStmt:
					storedFields(v.X, eff)
					if ix, ok := ast.Unparen(v.X).(*ast.IndexExpr); ok {
						noteTableUse(ix.X, true)
					}
					noteTableUse(v.X, true)
					if inLit {
						if f := fieldOf(v.X); f != nil {
							P.fieldBad[f] = "stored inside a function literal"
						}
					}
				case *ast.RangeStmt:
					for _, l := range []ast.Expr{v.Key, v.Value} {
						if l != nil {
							storedFields(l, eff)
							if f := fieldOf(l); f != nil {
								P.fieldBad[f] = "assigned by a range statement"
							}
						}
					}
				case *ast.UnaryExpr:
					if v.Op == token.AND {
						x := ast.Unparen(v.X)
						if ix, ok := x.(*ast.IndexExpr); ok {
							noteTableUse(ix.X, true)
							x = ast.Unparen(ix.X)
						}
						noteTableUse(x, true)
						if f := fieldOf(x); f != nil {
							P.addrTaken[f] = true
						}
					}
				case *ast.SliceExpr:
					if tv, ok := info.Types[v.X]; ok && tv.Type != nil {
						if _, isArr := tv.Type.Underlying().(*types.Array); isArr {
							noteTableUse(v.X, true)
							if f := fieldOf(v.X); f != nil {
								P.addrTaken[f] = true
							}
						}
					}
				case *ast.CompositeLit:
					if tv, ok := info.Types[v]; ok && tv.Type != nil {
						if st, ok := tv.Type.Underlying().(*types.Struct); ok {
							keyed := len(v.Elts) == 0
							for _, el := range v.Elts {
								if _, ok := el.(*ast.KeyValueExpr); ok {
									keyed = true
								}
							}
							if !keyed || inLit {
								for i := 0; i < st.NumFields(); i++ {
									why := "set by an unkeyed composite literal"
									if inLit {
										why = "set by a composite literal inside a function literal"
									}
									P.fieldBad[st.Field(i)] = why
								}
							}
						}
					}
				case *ast.CallExpr:
					if id, ok := ast.Unparen(v.Fun).(*ast.Ident); ok {
						if _, isB := info.Uses[id].(*types.Builtin); isB {
							return true
						}
					}
					if tv, ok := info.Types[v.Fun]; ok && tv.IsType() {
						return true
					}
					fn, _ := typeutil.Callee(info, v).(*types.Func)
					switch {
					case fn == nil:
						P.dynValue[F.obj] = true
						eff.ext = true
					case igIsInterfaceMethod(fn):
						P.dynNames[F.obj] = append(P.dynNames[F.obj], fn.Name())
						eff.ext = true
					default:
						if _, in := P.byObj[fn.Origin()]; in {
							P.callees[F.obj] = append(P.callees[F.obj], fn.Origin())
							if inLit {
								P.litCalled[fn.Origin()] = true
							}
						} else {
							eff.ext = true
						}
					}
				}
				return true
			})
		}
		walk(F.decl.Body, false)
	}
	// references to functions of the package other than as the callee of a call
	for _, file := range P.pkg.Syntax {
		calledSel := map[*ast.Ident]bool{}
		ast.Inspect(file, func(m ast.Node) bool {
			if call, ok := m.(*ast.CallExpr); ok {
				switch f := ast.Unparen(call.Fun).(type) {
				case *ast.Ident:
					calledSel[f] = true
				case *ast.SelectorExpr:
					calledSel[f.Sel] = true
				}
			}
			return true
		})
		ast.Inspect(file, func(m ast.Node) bool {
			if id, ok := m.(*ast.Ident); ok && !calledSel[id] {
				if fn, ok := info.Uses[id].(*types.Func); ok {
					if _, in := P.byObj[fn.Origin()]; in {
						P.valueRef[fn.Origin()] = true
					}
				}
			}
			return true
		})
		// package-level variable initialisers with function literals / stores are not analysed: fields they touch
		for _, d := range file.Decls {
			gd, ok := d.(*ast.GenDecl)
			if !ok || gd.Tok != token.VAR {
				continue
			}
			for _, sp := range gd.Specs {
				vs := sp.(*ast.ValueSpec)
				for i, id := range vs.Names {
					v, _ := info.Defs[id].(*types.Var)
					if v == nil || i >= len(vs.Values) {
						continue
					}
					if iv, ok := igTableRange(info, vs.Values[i]); ok {
						P.tables[v] = iv
					}
				}
				// calls in package-level initialisers are not analysed: their callees are not closed
				for _, val := range vs.Values {
					ast.Inspect(val, func(m ast.Node) bool {
						if call, ok := m.(*ast.CallExpr); ok {
							if fn, ok := typeutil.Callee(info, call).(*types.Func); ok {
								P.litCalled[fn.Origin()] = true
							}
						}
						return true
					})
				}
			}
		}
	}
	for v := range tableWritten {
		delete(P.tables, v)
	}
	// closed functions: every call site is visible
	for _, F := range P.fns {
		fn := F.obj
		if fn.Exported() || P.valueRef[fn] || P.litCalled[fn] || fn.Name() == "init" || fn.Name() == "main" {
			continue
		}
		if sig, ok := fn.Type().(*types.Signature); ok && sig.Recv() != nil && P.ifaceMeth[fn.Name()] {
			continue
		}
		if sig, ok := fn.Type().(*types.Signature); ok && sig.Variadic() {
			continue
		}
		P.closed[fn] = true
	}
	// transitive mod-sets
	for _, F := range P.fns {
		e := &igEffect{fields: map[*types.Var]bool{}, ext: P.direct[F.obj].ext}
		for f := range P.direct[F.obj].fields {
			e.fields[f] = true
		}
		P.mod[F.obj] = e
	}
	byName := map[string][]*types.Func{}
	for _, F := range P.fns {
		byName[F.obj.Name()] = append(byName[F.obj.Name()], F.obj)
	}
	for changed := true; changed; {
		changed = false
		for _, F := range P.fns {
			e := P.mod[F.obj]
			absorb := func(o *igEffect) {
				for f := range o.fields {
					if !e.fields[f] {
						e.fields[f] = true
						changed = true
					}
				}
				if o.ext && !e.ext {
					e.ext = true
					changed = true
				}
			}
			for _, c := range P.callees[F.obj] {
				absorb(P.mod[c])
			}
			for _, nm := range P.dynNames[F.obj] {
				for _, c := range byName[nm] {
					if sig, ok := c.Type().(*types.Signature); ok && sig.Recv() != nil {
						absorb(P.mod[c])
					}
				}
			}
			if P.dynValue[F.obj] {
				for c := range P.valueRef {
					absorb(P.mod[c])
				}
			}
		}
	}
}

// igElemToken stands for "a store to an element of an array".
var igElemToken = types.NewVar(token.NoPos, nil, "*elem*", types.Typ[types.Int])

// igDerefToken stands for "a store through a pointer that is not a path".
var igDerefToken = types.NewVar(token.NoPos, nil, "*deref*", types.Typ[types.Int])

func igAllFields(st *types.Struct, out map[*types.Var]bool, depth int) {
	if depth > 4 {
		return
	}
	for i := 0; i < st.NumFields(); i++ {
		f := st.Field(i)
		out[f] = true
		if in, ok := f.Type().Underlying().(*types.Struct); ok {
			igAllFields(in, out, depth+1)
		}
	}
}

func igIsInterfaceMethod(fn *types.Func) bool {
	sig, ok := fn.Type().(*types.Signature)
	if !ok || sig.Recv() == nil {
		return false
	}
	_, isIface := sig.Recv().Type().Underlying().(*types.Interface)
	return isIface
}

// igTableRange: the range of the elements of an array / slice literal of integer constants.
func igTableRange(info *types.Info, e ast.Expr) (igIv, bool) {
	lit, ok := ast.Unparen(e).(*ast.CompositeLit)
	if !ok {
		return igIv{}, false
	}
	tv, ok := info.Types[lit]
	if !ok || tv.Type == nil {
		return igIv{}, false
	}
	var elem types.Type
	n := int64(-1)
	switch u := tv.Type.Underlying().(type) {
	case *types.Array:
		elem, n = u.Elem(), u.Len()
	case *types.Slice:
		elem = u.Elem()
	default:
		return igIv{}, false
	}
	if !igIsInteger(elem) {
		return igIv{}, false
	}
	iv := igBottom
	cnt := int64(0)
	for _, el := range lit.Elts {
		if kv, ok := el.(*ast.KeyValueExpr); ok {
			el = kv.Value
			cnt = -1 << 40 // keyed: some elements may be left zero
		}
		etv, ok := info.Types[el]
		if !ok || etv.Value == nil {
			return igIv{}, false
		}
		v := constant.ToInt(etv.Value)
		k, ok := constant.Int64Val(v)
		if !ok || k <= -igInf/4 || k >= igInf/4 {
			return igIv{}, false
		}
		iv = iv.join(igPt(k))
		cnt++
	}
	if cnt != n || n < 0 && cnt < 0 {
		iv = iv.join(igPt(0))
	}
	return iv, !iv.empty()
}

func (P *igPkg) tableVar(F *igFn, x ast.Expr) (*types.Var, bool) {
	id, ok := ast.Unparen(x).(*ast.Ident)
	if !ok {
		return nil, false
	}
	v, ok := F.info.Uses[id].(*types.Var)
	if !ok {
		return nil, false
	}
	_, has := P.tables[v]
	return v, has
}

func (P *igPkg) tableRange(F *igFn, ix *ast.IndexExpr) (igIv, bool) {
	return P.tableRangeOf(F, ix.X)
}

func (P *igPkg) tableRangeOf(F *igFn, x ast.Expr) (igIv, bool) {
	if v, ok := P.tableVar(F, x); ok {
		return P.tables[v], true
	}
	return igIv{}, false
}

func (P *igPkg) extKillable(f *types.Var) bool { return f.Exported() || P.addrTaken[f] }

func (P *igPkg) callEffect(F *igFn, call *ast.CallExpr) *igEffect {
	info := F.info
	if id, ok := ast.Unparen(call.Fun).(*ast.Ident); ok {
		if _, isB := info.Uses[id].(*types.Builtin); isB {
			return noEffect
		}
	}
	if tv, ok := info.Types[call.Fun]; ok && tv.IsType() {
		return noEffect
	}
	fn, _ := typeutil.Callee(info, call).(*types.Func)
	switch {
	case fn == nil:
		e := &igEffect{fields: map[*types.Var]bool{}, ext: true}
		for c := range P.valueRef {
			for f := range P.mod[c].fields {
				e.fields[f] = true
			}
		}
		return e
	case igIsInterfaceMethod(fn):
		e := &igEffect{fields: map[*types.Var]bool{}, ext: true}
		for _, G := range P.fns {
			if G.obj.Name() == fn.Name() {
				if sig, ok := G.obj.Type().(*types.Signature); ok && sig.Recv() != nil {
					for f := range P.mod[G.obj].fields {
						e.fields[f] = true
					}
				}
			}
		}
		return e
	}
	if e, ok := P.mod[fn.Origin()]; ok {
		if e.fields[igDerefToken] {
			o := &igEffect{fields: map[*types.Var]bool{}, ext: e.ext}
			for f := range e.fields {
				o.fields[f] = true
			}
			for f := range P.addrTaken {
				o.fields[f] = true
			}
			return o
		}
		return e
	}
	return &igEffect{ext: true}
}

// ---------------------------------------------------------------------------
// Per-function preparation
// ---------------------------------------------------------------------------

func (F *igFn) prepare() {
	F.nodes = []igNode{{kind: igKZero, name: "0"}}
	F.byKey, F.capOf, F.paths = map[string]int{}, map[string]int{}, map[string]*igPath{}
	F.untrack, F.volatile = map[*types.Var]string{}, map[*types.Var]bool{}
	F.sums, F.lossy = map[[2]int]int{}, map[int]string{}
	info := F.info
	ast.Inspect(F.decl, func(n ast.Node) bool {
		switch v := n.(type) {
		case *ast.UnaryExpr:
			if v.Op == token.AND {
				if id, ok := ast.Unparen(v.X).(*ast.Ident); ok {
					if o, ok := info.Uses[id].(*types.Var); ok {
						F.untrack[o] = "its address is taken"
					}
				}
			}
		case *ast.FuncLit:
			ast.Inspect(v.Body, func(m ast.Node) bool {
				switch w := m.(type) {
				case *ast.Ident:
					if o, ok := info.Uses[w].(*types.Var); ok && !o.IsField() {
						F.untrack[o] = "captured by a function literal"
					}
				case *ast.AssignStmt:
					for _, l := range w.Lhs {
						if sel, ok := ast.Unparen(l).(*ast.SelectorExpr); ok {
							if f := F.fieldOfSelector(sel); f != nil {
								F.volatile[f] = true
							}
						}
					}
				case *ast.IncDecStmt:
					if sel, ok := ast.Unparen(w.X).(*ast.SelectorExpr); ok {
						if f := F.fieldOfSelector(sel); f != nil {
							F.volatile[f] = true
						}
					}
				}
				return true
			})
			return false
		}
		return true
	})
	// parameters (receiver excluded), in order
	if F.decl.Type.Params != nil {
		for _, fl := range F.decl.Type.Params.List {
			if len(fl.Names) == 0 {
				F.params = append(F.params, nil)
				continue
			}
			for _, id := range fl.Names {
				o, _ := info.Defs[id].(*types.Var)
				F.params = append(F.params, o)
			}
		}
	}
	// nodes: every path expression of integer / slice / string type in the body and the signature
	var visit func(n ast.Node) bool
	visit = func(n ast.Node) bool {
		switch v := n.(type) {
		case *ast.FuncLit:
			return false
		case *ast.Ident:
			F.register(v)
		case *ast.SelectorExpr:
			F.register(v)
		case *ast.IndexExpr:
			F.register(v)
		}
		return true
	}
	ast.Inspect(F.decl.Type, visit)
	if F.decl.Recv != nil {
		ast.Inspect(F.decl.Recv, visit)
	}
	ast.Inspect(F.decl.Body, visit)
	// sums spelled by comparisons, make sizes and bounds
	E := &igEnv{F: F}
	try := func(e ast.Expr) {
		if e == nil || !igIsInteger(F.typeOf(e)) {
			return
		}
		l := E.eval(e)
		if len(l.co) != 2 {
			return
		}
		var ns []int
		for n, c := range l.co {
			if c != 1 || F.nodes[n].kind == igKSum {
				return
			}
			ns = append(ns, n)
		}
		sort.Ints(ns)
		key := [2]int{ns[0], ns[1]}
		if _, ok := F.sums[key]; ok || len(F.sumList) >= 6 {
			return
		}
		s := F.addNode(igNode{kind: igKSum, name: "(" + F.nodes[ns[0]].name + "+" + F.nodes[ns[1]].name + ")", rng: igTop, a: ns[0], b: ns[1]})
		F.sums[key] = s
		F.sumList = append(F.sumList, s)
	}
	ast.Inspect(F.decl.Body, func(n ast.Node) bool {
		switch v := n.(type) {
		case *ast.FuncLit:
			return false
		case *ast.BinaryExpr:
			switch v.Op {
			case token.LSS, token.LEQ, token.GTR, token.GEQ, token.EQL, token.NEQ:
				try(v.X)
				try(v.Y)
			}
		case *ast.CallExpr:
			if F.builtin(v) == "make" {
				for _, a := range v.Args[1:] {
					try(a)
				}
			}
		case *ast.IndexExpr:
			try(v.Index)
		case *ast.SliceExpr:
			try(v.Low)
			try(v.High)
			try(v.Max)
		}
		return true
	})
}

func (F *igFn) paramIndex(o *types.Var) int {
	for i, p := range F.params {
		if p == o && p != nil {
			return i
		}
	}
	return -1
}

// ---------------------------------------------------------------------------
// Summaries
// ---------------------------------------------------------------------------

func (P *igPkg) fieldEligible(f *types.Var) bool {
	if f == nil || !f.IsField() || f.Exported() || f.Pkg() != P.pkg.Types || !igIsInteger(f.Type()) {
		return false
	}
	if P.addrTaken[f] {
		return false
	}
	_, bad := P.fieldBad[f]
	return !bad
}

// touch records that the run in progress read a summary item (a run is
// repeated only when an item it read has changed).
func (P *igPkg) touch(kind string, obj interface{}) {
	if P.cur != nil {
		k := fmt.Sprintf("%s%p", kind, obj)
		P.cur.deps[k] = P.ver[k]
	}
}

func (P *igPkg) bump(kind string, obj interface{}) { P.ver[fmt.Sprintf("%s%p", kind, obj)]++ }

func (P *igPkg) fieldRange(f *types.Var, mode int) (igIv, bool) {
	if !P.fieldEligible(f) {
		return igIv{}, false
	}
	P.touch("f", f)
	inv, ok := P.fieldInv[f]
	if !ok {
		return igPt(0), true // never stored: the zero value
	}
	if mode == 0 {
		return inv.a, true
	}
	return inv.g, true
}

func (P *igPkg) retRange(fn *types.Func, k int, mode int) (igIv, bool) {
	P.touch("r", fn)
	rs, ok := P.retSum[fn]
	if !ok {
		if _, in := P.byObj[fn]; in {
			sig := fn.Type().(*types.Signature)
			if k < sig.Results().Len() && igIsInteger(sig.Results().At(k).Type()) {
				return igBottom, true // not (yet) seen to return
			}
		}
		return igIv{}, false
	}
	if k >= len(rs) {
		return igIv{}, false
	}
	sig := fn.Type().(*types.Signature)
	if !igIsInteger(sig.Results().At(k).Type()) {
		return igIv{}, false
	}
	if mode == 0 {
		return rs[k].a, true
	}
	return rs[k].g, true
}

func (P *igPkg) noteStore(R *igRun, st *igState, lhs ast.Expr, node int) {
	sel, ok := ast.Unparen(lhs).(*ast.SelectorExpr)
	if !ok {
		return
	}
	f := R.F.fieldOfSelector(sel)
	if f == nil || !P.fieldEligible(f) {
		return
	}
	rng, _ := igTypeRange(f.Type())
	v := igIv2{rng, rng}
	if node != 0 && st != nil && st.a != nil && st.g != nil {
		v = igIv2{st.a.iv(node).meet(rng), st.g.iv(node).meet(rng)}
	}
	if old, ok := R.nField[f]; ok {
		v = old.join(v)
	}
	R.nField[f] = v
}

func (P *igPkg) noteLit(R *igRun, lit *ast.CompositeLit, s *igState) {
	tv, ok := R.F.info.Types[lit]
	if !ok || tv.Type == nil {
		return
	}
	st, ok := tv.Type.Underlying().(*types.Struct)
	if !ok {
		return
	}
	EA, EG := R.envA(s), R.envG(s)
	for _, el := range lit.Elts {
		kv, ok := el.(*ast.KeyValueExpr)
		if !ok {
			continue
		}
		id, ok := kv.Key.(*ast.Ident)
		if !ok {
			continue
		}
		for i := 0; i < st.NumFields(); i++ {
			f := st.Field(i)
			if f.Name() != id.Name || !P.fieldEligible(f) {
				continue
			}
			rng, _ := igTypeRange(f.Type())
			v := igIv2{EA.ivOf(EA.eval(kv.Value)).meet(rng), EG.ivOf(EG.eval(kv.Value)).meet(rng)}
			if old, ok := R.nField[f]; ok {
				v = old.join(v)
			}
			R.nField[f] = v
		}
	}
}

func (P *igPkg) noteCall(R *igRun, call *ast.CallExpr, s *igState) {
	F := R.F
	fn := P.staticCallee(F.info, call)
	if fn == nil || !P.closed[fn] {
		return
	}
	sig := fn.Type().(*types.Signature)
	np := sig.Params().Len()
	cur := R.nParam[fn]
	if cur == nil {
		cur = make([]igParamSum, np)
		for i := range cur {
			cur[i].val = igIv2{igBottom, igBottom}
			cur[i].owned = true
		}
		R.nParam[fn] = cur
	}
	EA, EG := R.envA(s), R.envG(s)
	for i := 0; i < np; i++ {
		pt := sig.Params().At(i).Type()
		var v igIv2
		owned := false
		switch {
		case len(call.Args) != np:
			v = igIv2{igTop, igTop}
			if igIsSlice(pt) || igIsString(pt) {
				v = igIv2{igNonNeg, igNonNeg}
			}
		case igIsInteger(pt):
			la, lg := EA.eval(call.Args[i]), EG.eval(call.Args[i])
			rng, _ := igTypeRange(pt)
			v = igIv2{EA.ivOf(la).meet(rng), EG.ivOf(lg).meet(rng)}
			owned = la.owned
		case igIsSlice(pt) || igIsString(pt):
			la, _, ok1 := EA.seqVal(call.Args[i])
			lg, _, ok2 := EG.seqVal(call.Args[i])
			if !ok1 || !ok2 {
				v = igIv2{igNonNeg, igNonNeg}
			} else {
				v = igIv2{EA.ivOf(la).meet(igNonNeg), EG.ivOf(lg).meet(igNonNeg)}
				owned = la.owned
			}
		default:
			v = igIv2{igTop, igTop}
		}
		if v.a.empty() || v.g.empty() {
			continue // the argument is never produced on this path
		}
		cur[i].val = cur[i].val.join(v)
		cur[i].owned = cur[i].owned && owned
		cur[i].seen = true
	}
}

func (P *igPkg) noteReturn(R *igRun, ret *ast.ReturnStmt, s *igState) {
	F := R.F
	sig := F.obj.Type().(*types.Signature)
	nr := sig.Results().Len()
	if nr == 0 {
		return
	}
	cur := R.nRet
	if cur == nil {
		cur = make([]igIv2, nr)
		for i := range cur {
			cur[i] = igIv2{igBottom, igBottom}
		}
		R.nRet = cur
	}
	EA, EG := R.envA(s), R.envG(s)
	for k := 0; k < nr; k++ {
		rt := sig.Results().At(k).Type()
		if !igIsInteger(rt) {
			continue
		}
		rng, _ := igTypeRange(rt)
		v := igIv2{rng, rng}
		switch {
		case len(ret.Results) == nr:
			v = igIv2{EA.ivOf(EA.eval(ret.Results[k])).meet(rng), EG.ivOf(EG.eval(ret.Results[k])).meet(rng)}
		case len(ret.Results) == 0:
			res := sig.Results().At(k)
			if res.Name() != "" && res.Name() != "_" {
				for n := 1; n < len(F.nodes); n++ {
					if p := F.nodes[n].path; p != nil && p.root == res && len(p.sel) == 0 && F.nodes[n].kind == igKInt {
						v = igIv2{s.a.iv(n).meet(rng), s.g.iv(n).meet(rng)}
					}
				}
			}
		case len(ret.Results) == 1:
			if call, ok := ast.Unparen(ret.Results[0]).(*ast.CallExpr); ok {
				if fn := P.staticCallee(F.info, call); fn != nil {
					ra, oka := P.retRange(fn, k, 0)
					rg, okg := P.retRange(fn, k, 1)
					if oka && okg {
						v = igIv2{ra.meet(rng), rg.meet(rng)}
					}
				}
			}
		}
		cur[k] = cur[k].join(v)
	}
}

// entry: the state at the start of F under the current summaries; nil: F is not (yet) called.
func (P *igPkg) entry(F *igFn) *igState {
	n := len(F.nodes)
	st := &igState{a: newIgMat(n), g: newIgMat(n), own: make([]bool, n), bools: map[*types.Var]igBool{}, opaque: map[*types.Var]bool{}}
	closed := P.closed[F.obj]
	var ps []igParamSum
	if closed {
		P.touch("p", F.obj)
		ps = P.paramSum[F.obj]
		if ps == nil {
			return nil
		}
	}
	ok := true
	for v := 1; v < n; v++ {
		nd := F.nodes[v]
		ok = F.permanent(st.a, v, 0) && ok
		ok = F.permanent(st.g, v, 1) && ok
		if nd.path == nil {
			continue
		}
		if len(nd.path.sel) > 0 {
			st.own[v] = false
			continue
		}
		st.own[v] = true
		idx := F.paramIndex(nd.path.root)
		if idx < 0 || !closed {
			continue
		}
		if idx >= len(ps) {
			continue
		}
		s := ps[idx]
		if !s.seen {
			return nil
		}
		st.own[v] = s.owned
		if nd.kind == igKInt || nd.kind == igKLen {
			for k, m := range []igMat{st.a, st.g} {
				iv := s.val.a
				if k == 1 {
					iv = s.val.g
				}
				if iv.empty() {
					return nil
				}
				ok = m.add(v, 0, iv.hi) && ok
				if iv.lo > -igInf {
					ok = m.add(0, v, -iv.lo) && ok
				}
			}
		}
	}
	if !ok || !F.tighten(st.a) || !F.tighten(st.g) {
		return nil
	}
	return st
}

func (P *igPkg) runFn(F *igFn) {
	if old := P.runs[F]; old != nil && old.deps != nil {
		fresh := true
		for k, v := range old.deps {
			if P.ver[k] != v {
				fresh = false
				break
			}
		}
		if fresh {
			return // nothing it read has changed: the previous run and its notes stand
		}
	}
	mayReturn := func(call *ast.CallExpr) bool {
		if id, ok := call.Fun.(*ast.Ident); ok {
			if b, ok := F.info.Uses[id].(*types.Builtin); ok && b.Name() == "panic" {
				return false
			}
		}
		return true
	}
	R := &igRun{F: F, G: cfg.New(F.decl.Body, mayReturn), tagOf: map[ast.Expr]ast.Expr{}, sites: map[token.Pos]*igSite{},
		nParam: map[*types.Func][]igParamSum{}, nField: map[*types.Var]igIv2{}, deps: map[string]int{}}
	P.cur = R
	defer func() { P.cur = nil }()
	ast.Inspect(F.decl.Body, func(n ast.Node) bool {
		if sw, ok := n.(*ast.SwitchStmt); ok && sw.Tag != nil {
			for _, cl := range sw.Body.List {
				for _, e := range cl.(*ast.CaseClause).List {
					R.tagOf[e] = sw.Tag
				}
			}
		}
		return true
	})
	P.runs[F] = R
	P.reruns++
	t0 := time.Now()
	defer func() { P.spent[F.name] += time.Since(t0) }()
	delete(P.failed, F)
	entry := P.entry(F)
	if entry == nil {
		return
	}
	if !R.run(entry) {
		P.failed[F] = "the dataflow did not reach a fixpoint"
	}
}

var igDebugRounds = os.Getenv("WV_X_ROUNDS") != ""

func igIvEqual(a, b igIv) bool { return (a.empty() && b.empty()) || a == b }

// analyse iterates the summaries to a fixpoint: ascending with widening, one
// narrowing round, ascending again until stable. The runs of the last round
// hold the verdicts.
func (P *igPkg) analyse() {
	P.paramSum, P.retSum, P.fieldInv = map[*types.Func][]igParamSum{}, map[*types.Func][]igIv2{}, map[*types.Var]igIv2{}
	round := func() {
		P.nParam, P.nRet, P.nField = map[*types.Func][]igParamSum{}, map[*types.Func][]igIv2{}, map[*types.Var]igIv2{}
		for _, F := range P.fns {
			P.runFn(F)
			R := P.runs[F]
			if R == nil {
				continue
			}
			for fn, ns := range R.nParam {
				cur := P.nParam[fn]
				if cur == nil {
					cur = make([]igParamSum, len(ns))
					for i := range cur {
						cur[i].val = igIv2{igBottom, igBottom}
						cur[i].owned = true
					}
					P.nParam[fn] = cur
				}
				for i := range ns {
					cur[i].val = cur[i].val.join(ns[i].val)
					cur[i].owned = cur[i].owned && ns[i].owned
					cur[i].seen = cur[i].seen || ns[i].seen
				}
			}
			if R.nRet != nil {
				P.nRet[F.obj] = append([]igIv2(nil), R.nRet...)
			}
			for f, v := range R.nField {
				if old, ok := P.nField[f]; ok {
					v = old.join(v)
				}
				P.nField[f] = v
			}
		}
		P.rounds++
	}
	// a summary item is widened once it has grown more than three times
	grown := map[string]int{}
	merge := func(force bool) bool {
		changed := false
		wjk := func(key string, old, nw igIv, lim igIv) igIv {
			j := old.join(nw)
			if igIvEqual(j, old) {
				return old
			}
			grown[key]++
			if (force || grown[key] > 3) && !old.empty() {
				return nw.widenTo(old, lim)
			}
			return j
		}
		for fn, ns := range P.nParam {
			old := P.paramSum[fn]
			if old == nil {
				old = make([]igParamSum, len(ns))
				for i := range old {
					old[i].val = igIv2{igBottom, igBottom}
					old[i].owned = true
				}
				P.paramSum[fn] = old
				changed = true
				P.bump("p", fn)
			}
			sig := fn.Type().(*types.Signature)
			for i := range ns {
				lim := igTop
				if pt := sig.Params().At(i).Type(); igIsInteger(pt) {
					lim, _ = igTypeRange(pt)
				} else if igIsSlice(pt) || igIsString(pt) {
					lim = igNonNeg
				}
				key := fmt.Sprintf("p%p#%d", fn, i)
				nv := igParamSum{val: igIv2{wjk(key+"a", old[i].val.a, ns[i].val.a, lim), wjk(key+"g", old[i].val.g, ns[i].val.g, lim)}, owned: old[i].owned && ns[i].owned, seen: old[i].seen || ns[i].seen}
				if !igIvEqual(nv.val.a, old[i].val.a) || !igIvEqual(nv.val.g, old[i].val.g) || nv.owned != old[i].owned || nv.seen != old[i].seen {
					changed = true
					P.bump("p", fn)
					if igDebugRounds {
						fmt.Printf("round %d: param %s#%d A%s->%s G%s->%s\n", P.rounds, fn.Name(), i, old[i].val.a, nv.val.a, old[i].val.g, nv.val.g)
					}
				}
				old[i] = nv
			}
		}
		for fn, ns := range P.nRet {
			old := P.retSum[fn]
			if old == nil {
				old = make([]igIv2, len(ns))
				for i := range old {
					old[i] = igIv2{igBottom, igBottom}
				}
				P.retSum[fn] = old
				changed = true
				P.bump("r", fn)
			}
			sig := fn.Type().(*types.Signature)
			for i := range ns {
				lim := igTop
				if igIsInteger(sig.Results().At(i).Type()) {
					lim, _ = igTypeRange(sig.Results().At(i).Type())
				}
				key := fmt.Sprintf("r%p#%d", fn, i)
				nv := igIv2{wjk(key+"a", old[i].a, ns[i].a, lim), wjk(key+"g", old[i].g, ns[i].g, lim)}
				if !igIvEqual(nv.a, old[i].a) || !igIvEqual(nv.g, old[i].g) {
					changed = true
					P.bump("r", fn)
					if igDebugRounds {
						fmt.Printf("round %d: result %s#%d A%s->%s G%s->%s\n", P.rounds, fn.Name(), i, old[i].a, nv.a, old[i].g, nv.g)
					}
				}
				old[i] = nv
			}
		}
		for f, nv := range P.nField {
			old, ok := P.fieldInv[f]
			if !ok {
				old = igIv2{igPt(0), igPt(0)}
			}
			lim, _ := igTypeRange(f.Type())
			key := fmt.Sprintf("f%p", f)
			v := igIv2{wjk(key+"a", old.a, nv.a, lim), wjk(key+"g", old.g, nv.g, lim)}
			if !ok || !igIvEqual(v.a, old.a) || !igIvEqual(v.g, old.g) {
				changed = true
				P.bump("f", f)
				if igDebugRounds {
					fmt.Printf("round %d: field %s A%s->%s G%s->%s\n", P.rounds, f.Name(), old.a, v.a, old.g, v.g)
				}
			}
			P.fieldInv[f] = v
		}
		return changed
	}
	ascend := func(limit int) {
		for i := 0; i < limit; i++ {
			round()
			if !merge(false) {
				return
			}
		}
		// no fixpoint within the limit: drop every summary to "unknown"
		P.ver = map[string]int{"reset": P.rounds}
		for _, R := range P.runs {
			R.deps = nil
		}
		for fn, ps := range P.paramSum {
			sig := fn.Type().(*types.Signature)
			for i := range ps {
				lim := igTop
				if pt := sig.Params().At(i).Type(); igIsInteger(pt) {
					lim, _ = igTypeRange(pt)
				} else if igIsSlice(pt) || igIsString(pt) {
					lim = igNonNeg
				}
				ps[i] = igParamSum{val: igIv2{lim, lim}, seen: true}
			}
		}
		for fn, rs := range P.retSum {
			sig := fn.Type().(*types.Signature)
			for i := range rs {
				lim := igTop
				if igIsInteger(sig.Results().At(i).Type()) {
					lim, _ = igTypeRange(sig.Results().At(i).Type())
				}
				rs[i] = igIv2{lim, lim}
			}
		}
		for f := range P.fieldInv {
			lim, _ := igTypeRange(f.Type())
			P.fieldInv[f] = igIv2{lim, lim}
		}
		for i := 0; i < 6; i++ {
			round()
			if !merge(true) {
				return
			}
		}
	}
	ascend(60)
	// narrowing: replace every summary by what the last round observed under it,
	// repeatedly (a bound recovered in a caller reaches its callees one round later)
	for n := 0; n < 8; n++ {
		changed := false
		for fn, ns := range P.nParam {
			old := P.paramSum[fn]
			for i := range ns {
				if i < len(old) && ns[i].seen {
					nv := igIv2{ns[i].val.a.meet(old[i].val.a), ns[i].val.g.meet(old[i].val.g)}
					if !igIvEqual(nv.a, old[i].val.a) || !igIvEqual(nv.g, old[i].val.g) {
						old[i].val = nv
						changed = true
						P.bump("p", fn)
					}
				}
			}
		}
		for fn, ns := range P.nRet {
			old := P.retSum[fn]
			for i := range ns {
				if i < len(old) {
					nv := igIv2{ns[i].a.meet(old[i].a), ns[i].g.meet(old[i].g)}
					if !igIvEqual(nv.a, old[i].a) || !igIvEqual(nv.g, old[i].g) {
						old[i] = nv
						changed = true
						P.bump("r", fn)
					}
				}
			}
		}
		for f, nv := range P.nField {
			if old, ok := P.fieldInv[f]; ok {
				z := igPt(0)
				v := igIv2{nv.a.join(z).meet(old.a), nv.g.join(z).meet(old.g)}
				if !igIvEqual(v.a, old.a) || !igIvEqual(v.g, old.g) {
					P.fieldInv[f] = v
					changed = true
					P.bump("f", f)
				}
			}
		}
		if !changed {
			break
		}
		round()
	}
	// the narrowed summaries are accepted only as a fixpoint: ascend again until stable
	ascend(40)
}

// ---------------------------------------------------------------------------
// Sites
// ---------------------------------------------------------------------------

type igOb struct {
	l    igLin // needed: l <= 0
	what string
}

type igSite struct {
	pos   token.Pos
	text  string
	slice bool
	class string // "safe", "fail", "info"
	why   string
}

// obligations of an index / slice expression; ok false: not a subject (map, generic, compile-time checked).
func (R *igRun) obligations(e ast.Expr, E *igEnv) (obs []igOb, slice bool, ok bool) {
	F := R.F
	switch v := e.(type) {
	case *ast.IndexExpr:
		bt := F.typeOf(v.X)
		if bt == nil {
			return nil, false, false
		}
		if tv, has := F.info.Types[v.X]; has && tv.IsType() {
			return nil, false, false
		}
		if _, isFn := bt.Underlying().(*types.Signature); isFn {
			return nil, false, false
		}
		_, isArr := igArrayLen(bt)
		if !isArr && !igIsSlice(bt) && !igIsString(bt) {
			return nil, false, false
		}
		if isArr {
			if _, c := F.constInt(v.Index); c {
				return nil, false, false // checked by the compiler
			}
		}
		ln, _, okb := E.seqVal(v.X)
		if !okb {
			return nil, false, false
		}
		idx := E.eval(v.Index)
		it := F.src(v.Index)
		obs = append(obs, igOb{E.normalize(idx.scaled(-1)), "0 <= " + it})
		obs = append(obs, igOb{E.normalize(idx.minus(ln).plusConst(1)), it + " < " + igLenText(F, v.X, bt, false)})
		return obs, false, true
	case *ast.SliceExpr:
		bt := F.typeOf(v.X)
		if bt == nil {
			return nil, true, false
		}
		_, isArr := igArrayLen(bt)
		if !isArr && !igIsSlice(bt) && !igIsString(bt) {
			return nil, true, false
		}
		if v.Low == nil && v.High == nil && v.Max == nil {
			return nil, true, false // s[:] cannot fail
		}
		if isArr {
			allConst := true
			for _, b := range []ast.Expr{v.Low, v.High, v.Max} {
				if b != nil {
					if _, c := F.constInt(b); !c {
						allConst = false
					}
				}
			}
			if allConst {
				return nil, true, false // checked by the compiler
			}
		}
		ln, cp, okb := E.seqVal(v.X)
		if !okb {
			return nil, true, false
		}
		limit, limText := cp, igLenText(F, v.X, bt, true)
		lo, loText := igConstLin(0), "0"
		if v.Low != nil {
			lo, loText = E.eval(v.Low), F.src(v.Low)
			obs = append(obs, igOb{E.normalize(lo.scaled(-1)), "0 <= " + loText})
		}
		hi, hiText := ln, igLenText(F, v.X, bt, false)
		if v.High != nil {
			hi, hiText = E.eval(v.High), F.src(v.High)
		}
		obs = append(obs, igOb{E.normalize(lo.minus(hi)), loText + " <= " + hiText})
		if v.Max != nil {
			mx, mxText := E.eval(v.Max), F.src(v.Max)
			obs = append(obs, igOb{E.normalize(hi.minus(mx)), hiText + " <= " + mxText})
			obs = append(obs, igOb{E.normalize(mx.minus(limit)), mxText + " <= " + limText})
		} else if v.High != nil {
			obs = append(obs, igOb{E.normalize(hi.minus(limit)), hiText + " <= " + limText})
		}
		return obs, true, true
	}
	return nil, false, false
}

func igLenText(F *igFn, x ast.Expr, t types.Type, capacity bool) string {
	if n, isArr := igArrayLen(t); isArr {
		return fmt.Sprint(n)
	}
	if capacity && igIsSlice(t) {
		return "cap(" + F.src(x) + ")"
	}
	return "len(" + F.src(x) + ")"
}

// use is called in the recording pass for every syntax node, with the state
// before (s) and after (post) the calls of the enclosing statement.
func (R *igRun) use(n ast.Node, s, post *igState) {
	P := R.F.P
	switch v := n.(type) {
	case *ast.IndexExpr:
		R.site(v, post)
	case *ast.SliceExpr:
		R.site(v, post)
	case *ast.CallExpr:
		P.noteCall(R, v, post)
	case *ast.ReturnStmt:
		P.noteReturn(R, v, post)
	case *ast.CompositeLit:
		P.noteLit(R, v, post)
	}
}

func (R *igRun) site(e ast.Expr, st *igState) {
	F := R.F
	EA, EG := R.envA(st), R.envG(st)
	obsA, isSlice, ok := R.obligations(e, EA)
	if !ok {
		return
	}
	obsG, _, _ := R.obligations(e, EG)
	site := &igSite{pos: e.Pos(), text: F.src(e), slice: isSlice, class: "safe"}
	if w := os.Getenv("WV_X_WHY"); w != "" && strings.Contains(site.text, w) {
		fmt.Printf("WHY %s %s\n  A: %s\n  G: %s\n", F.name, site.text, F.showMat(st.a), F.showMat(st.g))
	}
	var fails, infos []string
	for i, ob := range obsA {
		ub := igUB(st.a, ob.l)
		if ub <= 0 {
			continue
		}
		known := "nothing bounds " + F.describe(ob.l)
		if ub < igInf {
			known = fmt.Sprintf("known only: %s <= %d", F.describe(igLin{co: ob.l.co, iv: igPt(0)}), igAdd(ub, -ob.l.iv.hi))
			if ob.l.iv.hi >= igInf {
				known = "known only: " + F.describe(ob.l) + " has no upper bound"
			}
		}
		_ = obsG
		improved := igImproved(st.a, st.g, ob.l)
		if !improved && len(ob.l.co) == 0 && i < len(obsG) {
			// no tracked quantity: a call result whose range the guards inside the callee narrowed
			improved = ub < igInf && ub < igUB(st.g, obsG[i].l)
		}
		if w := os.Getenv("WV_X_WHY"); w != "" && strings.Contains(site.text, w) {
			fmt.Printf("  obligation %s: ub=%d improved=%v form=%s owned=%v\n", ob.what, ub, improved, F.describe(ob.l), ob.l.owned)
		}
		lossy := ""
		var ext []string
		for _, nd := range ob.l.nodes() {
			if w, bad := F.lossy[nd]; bad {
				lossy = F.nodes[nd].name + " (" + w + ")"
			}
			own := st.own[nd]
			if F.nodes[nd].kind == igKSum {
				own = st.own[F.nodes[nd].a] && st.own[F.nodes[nd].b]
			}
			if !own {
				ext = append(ext, F.nodes[nd].name)
				continue
			}
			// an owned quantity that the code bounds against one that is not: the bound may rest on that one
			for w := 1; w < len(st.a); w++ {
				if w == nd || st.own[w] || F.nodes[w].kind == igKSum {
					continue
				}
				c := ob.l.co[nd]
				if c > 0 && st.a[nd][w] < igInf && st.a[nd][w] < igAdd(st.a[nd][0], st.a[0][w]) {
					ext = append(ext, F.nodes[nd].name+" (bounded against "+F.nodes[w].name+")")
					break
				}
				if c < 0 && st.a[w][nd] < igInf && st.a[w][nd] < igAdd(st.a[w][0], st.a[0][nd]) {
					ext = append(ext, F.nodes[nd].name+" (bounded against "+F.nodes[w].name+")")
					break
				}
			}
		}
		// a helper with a boolean / error result that received one of these variables earlier
		// on the way may be the guard
		helper := ""
		for _, nd := range ob.l.nodes() {
			for _, part := range []int{nd, F.nodes[nd].a, F.nodes[nd].b} {
				if part != 0 && F.nodes[part].path != nil && st.opaque[F.nodes[part].path.root] {
					helper = F.nodes[part].path.root.Name()
				}
			}
		}
		switch {
		case lossy != "":
			infos = append(infos, fmt.Sprintf("%s is not implied (%s); involves %s", ob.what, known, lossy))
		case improved:
			fails = append(fails, fmt.Sprintf("%s is not implied: the guards on the way constrain these quantities, but not enough (%s)", ob.what, known))
		case ob.l.owned && len(ext) == 0 && helper != "":
			infos = append(infos, fmt.Sprintf("%s is not implied (%s); a call with a boolean or error result received %s before: it may be the guard", ob.what, known, helper))
		case ob.l.owned && len(ext) == 0:
			fails = append(fails, fmt.Sprintf("%s is not implied and nothing guards it: every quantity is determined inside the function (%s)", ob.what, known))
		default:
			src := "a value the engine does not track (element, call result, conversion that may wrap)"
			if len(ext) > 0 {
				src = strings.Join(ext, ", ") + " (set outside this function: field, call result, caller's argument)"
			}
			infos = append(infos, fmt.Sprintf("%s is not implied (%s); it depends on %s", ob.what, known, src))
		}
	}
	switch {
	case len(fails) > 0:
		site.class, site.why = "fail", strings.Join(fails, "; ")
	case len(infos) > 0:
		site.class, site.why = "info", strings.Join(infos, "; ")
	}
	if old, ok := R.sites[site.pos]; ok {
		rank := map[string]int{"safe": 0, "info": 1, "fail": 2}
		if rank[old.class] >= rank[site.class] {
			return
		}
	}
	R.sites[site.pos] = site
}
