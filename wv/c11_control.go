package main

import (
	"fmt"
	"go/token"
	"go/types"
	"os"
	"path/filepath"
	"sort"
	"strings"

	"golang.org/x/tools/go/packages"
	"golang.org/x/tools/go/ssa"

	"wv/core"
)

// Positive control: a ten-function package with one unguarded recursion, two
// recursions whose guard is defective (no increment; counter reset), one
// correctly guarded recursion, one reachable panic and one unreachable panic
// (no imports, so that loading it costs nothing). It is type-checked and analysed with the same
// detectors on every run; the run fails unless exactly the planted defects
// are found. (Rules whose expected finding count on the real tree is zero —
// P.new, P.exit, E7.new — cannot pass vacuously this way.)
const c11ControlSrc = `package wvcontrol

const maxDepth = 255

type cerr string

func (e cerr) Error() string { return string(e) }

var errDeep error = cerr("too deep")

type node struct{ kids []*node }

func Entry(n *node, s string) error {
	if err := unguarded(n); err != nil {
		return err
	}
	if err := noinc(n, 0); err != nil {
		return err
	}
	if err := reset(n, 0); err != nil {
		return err
	}
	if err := guarded(n, 0); err != nil {
		return err
	}
	helper(s)
	return nil
}

func unguarded(n *node) error {
	for _, k := range n.kids {
		if err := unguarded(k); err != nil {
			return err
		}
	}
	return nil
}

func noinc(n *node, depth uint32) error {
	if depth > maxDepth {
		return errDeep
	}
	for _, k := range n.kids {
		if err := noinc(k, depth); err != nil {
			return err
		}
	}
	return nil
}

func reset(n *node, depth uint32) error {
	if depth > maxDepth {
		return errDeep
	}
	depth++
	for _, k := range n.kids {
		depth = 0
		if err := reset(k, depth+1); err != nil {
			return err
		}
	}
	return nil
}

func guarded(n *node, depth uint32) error {
	if maxDepth < depth {
		return errDeep
	}
	depth++
	for _, k := range n.kids {
		if err := guarded(k, depth); err != nil {
			return err
		}
	}
	return nil
}

func helper(s string) {
	if s == "" {
		panic("control: reachable panic")
	}
}

func Unreachable() {
	panic("control: unreachable panic")
}

// ---- L.index control: three guarded accesses, two planted unguarded ones ----

func idxGood(src []byte) int {
	n := 0
	for i := 0; i < len(src); i++ {
		if i+1 < len(src) && src[i+1] == 'x' {
			n++
		}
		ok := i < len(src)-2 && src[i] == 'a'
		if ok {
			n += int(src[i+2])
		}
	}
	return n
}

func idxBad(src []byte) int {
	n := 0
	for i := 0; i < len(src); i++ {
		if i < len(src) && src[i+1] == 'x' {
			n++
		}
		if src[i] == 'y' || i+2 < len(src) {
			n += int(src[i+2])
		}
	}
	return n
}

// ---- N control: a two-slot node type with one optional child ----

type ID uint32

type Node struct {
	id0 ID
	lhs *Node
	rhs *Node
}

type Stmt Node
type Expr Node

func (n *Node) AsExpr() *Expr { return (*Expr)(n) }
func (n *Expr) AsNode() *Node { return (*Node)(n) }
func (n *Stmt) LHS() *Expr    { return n.lhs.AsExpr() }
func (n *Stmt) RHS() *Expr    { return n.rhs.AsExpr() }
func (n *Expr) Op() ID        { return n.id0 }

func NewStmt(lhs *Expr, rhs *Expr) *Stmt { return &Stmt{lhs: lhs.AsNode(), rhs: rhs.AsNode()} }
func NewExpr(op ID) *Expr                { return &Expr{id0: op} }

func parseStmt(assign bool) *Stmt {
	lhs := (*Expr)(nil)
	rhs := NewExpr(1)
	if assign {
		lhs = rhs
		rhs = NewExpr(2)
	}
	return NewStmt(lhs, rhs)
}

func nilGood(s *Stmt) ID {
	if l := s.LHS(); l != nil {
		return l.Op()
	}
	return s.RHS().Op()
}

func nilBad(s *Stmt) ID { return s.LHS().Op() }

func nilBadVar(s *Stmt) ID {
	l := s.LHS()
	if s.RHS() != nil {
		return l.Op()
	}
	return 0
}
`

func c11Control(c *core.Ctx) {
	dir, err := os.MkdirTemp("", "wv-c11-control-")
	if err != nil {
		c.Infra("control: %v", err)
	}
	c.OnExit(func() { os.RemoveAll(dir) })
	const modPath = core.Mod + "/wvcontrol"
	if err := os.WriteFile(filepath.Join(dir, "go.mod"), []byte("module "+modPath+"\n\ngo 1.16\n"), 0o644); err != nil {
		c.Infra("control: %v", err)
	}
	if err := os.WriteFile(filepath.Join(dir, "ctl.go"), []byte(c11ControlSrc), 0o644); err != nil {
		c.Infra("control: %v", err)
	}
	cfg := &packages.Config{
		Mode: packages.NeedName | packages.NeedFiles | packages.NeedCompiledGoFiles | packages.NeedImports |
			packages.NeedDeps | packages.NeedTypes | packages.NeedSyntax | packages.NeedTypesInfo | packages.NeedTypesSizes | packages.NeedModule,
		Dir: dir, Env: core.GoEnv(), Fset: token.NewFileSet(),
	}
	pkgs, err := packages.Load(cfg, ".")
	if err != nil || len(pkgs) != 1 || len(pkgs[0].Errors) > 0 {
		c.Infra("control package does not load: %v %v", err, pkgs)
	}
	gp := &core.GoProg{Fset: cfg.Fset, ByPth: map[string]*packages.Package{}, Repo: dir, Pkgs: pkgs}
	packages.Visit(pkgs, nil, func(p *packages.Package) { gp.ByPth[p.PkgPath] = p })
	G := buildC11Graph(gp)
	R := c11Analyse(G, func(*ssa.Function) bool { return true })

	short := func(f *ssa.Function) string { return strings.TrimPrefix(G.nm(f), "wvcontrol.") }
	var recs, ver, res []string
	for _, comp := range R.comps {
		for _, f := range comp {
			recs = append(recs, short(f))
		}
	}
	for f := range R.verified {
		ver = append(ver, short(f))
	}
	for _, comp := range R.residual {
		for _, f := range comp {
			res = append(res, short(f))
		}
	}
	sort.Strings(recs)
	sort.Strings(ver)
	sort.Strings(res)
	why := map[string]string{}
	for f, gd := range R.guards {
		if len(gd.problems) > 0 {
			why[short(f)] = strings.Join(gd.problems, "; ")
		}
	}
	got := fmt.Sprintf("recursive=%v verified=%v residual=%v", recs, ver, res)
	want := "recursive=[guarded noinc reset unguarded] verified=[guarded] residual=[noinc reset unguarded]"
	okRec := got == want && strings.Contains(why["noinc"], "without incrementing") && strings.Contains(why["reset"], "other than an increment")
	c.Check(okRec, "E7.control", "wvcontrol", "on the control package the recursion detectors find exactly the planted defects: an unguarded recursion, a guard without increment, a guard whose counter is reset; and accept the correct guard (written with swapped operands)", 4,
		fmt.Sprintf("got  %s\nwant %s\nnoinc: %s\nreset: %s", got, want, why["noinc"], why["reset"]))

	var roots []*ssa.Function
	for _, f := range G.nodes {
		if short(f) == "Entry" {
			roots = append(roots, f)
		}
	}
	reach, _ := G.reachAll(roots)
	panics, exits, nfun := G.scanSites(reach)
	var ps, es []string
	for _, s := range panics {
		ps = append(ps, fmt.Sprintf("%s#%d %q", short(s.fn), s.ord, s.what))
	}
	for _, s := range exits {
		es = append(es, short(s.fn)+":"+s.what)
	}
	gotP := fmt.Sprintf("functions=%d panics=%v exits=%v", nfun, ps, es)
	wantP := `functions=6 panics=[helper#0 "control: reachable panic"] exits=[]`
	c.Check(gotP == wantP, "P.control", "wvcontrol", "on the control package the reachability scan reports the reachable panic and not the unreachable one", 2,
		fmt.Sprintf("got  %s\nwant %s", gotP, wantP))

	// ---- L.index / N controls: the same engines on the planted functions ----
	cp := gp.Pkg("wvcontrol")
	var idx []string
	for _, name := range []string{"idxGood", "idxBad"} {
		f := gp.FindFunc("wvcontrol", "", name)
		if f == nil {
			idx = append(idx, name+"=missing")
			continue
		}
		z, _, ok := c11ZoneRun(f)
		safe, unsafe, other := 0, 0, 0
		for _, s := range z.sites {
			switch s.class {
			case "safe":
				safe++
			case "unsafe":
				unsafe++
			default:
				other++
			}
		}
		idx = append(idx, fmt.Sprintf("%s=%v/%d safe/%d unsafe/%d other", name, ok, safe, unsafe, other))
	}
	gotI := strings.Join(idx, " ")
	wantI := "idxGood=true/3 safe/0 unsafe/0 other idxBad=true/1 safe/2 unsafe/0 other"
	c.Check(gotI == wantI, "L.index.control", "wvcontrol", "on the control package the zone engine proves the three guarded accesses (offset guard, && operand, boolean local) and reports exactly the two planted ones (guard weaker by one; || does not guard)", 6,
		fmt.Sprintf("got  %s\nwant %s", gotI, wantI))

	A := newC11Ast(gp, cp, cp)
	gotN := "model not built"
	if A != nil {
		A.fix()
		names, byName := A.derivedAccessors()
		derived := map[types.Object]bool{}
		for _, fn := range byName {
			derived[fn] = true
		}
		parts := []string{fmt.Sprintf("derived=%v", names)}
		for _, name := range []string{"nilGood", "nilBad", "nilBadVar"} {
			f := gp.FindFunc("wvcontrol", "", name)
			if f == nil {
				parts = append(parts, name+"=missing")
				continue
			}
			for _, u := range A.useUnits(f, derived, map[*types.Func]*types.Func{}) {
				bad := 0
				for _, s := range u.sites {
					if s.bad != "" || s.und != "" {
						bad++
					}
				}
				parts = append(parts, fmt.Sprintf("%s=%d/%d", name, len(u.sites), bad))
			}
		}
		gotN = strings.Join(parts, " ")
	}
	wantN := "derived=[Stmt.LHS] nilGood=1/0 nilBad=1/1 nilBadVar=1/1"
	c.Check(gotN == wantN, "N.control", "wvcontrol", "on the control package the derivation finds the one optional child (a nil-initialised local passed to the constructor), accepts the dereference under `l != nil` and reports the direct dereference and the one guarded by a test of the other child", 4,
		fmt.Sprintf("got  %s\nwant %s", gotN, wantN))
}
