package main

// Additional C01/C02 obligations added in the build round: refinement bounds,
// var/return wiring, bcheckAssert's acceptance, optimizeIOMethodAdvance.

import (
	"go/ast"
	"go/token"
	"go/types"

	"wv/core"
)

func runC01More(k *gctx) {
	c := k.c
	tok := func(name string) types.Object { return k.obj("anchors", "lang/token", name) }
	bcheckAssignment := k.fn("anchors", relCheck, "checker", "bcheckAssignment")
	bcheckAssignment1 := k.fn("anchors", relCheck, "checker", "bcheckAssignment1")
	zeroExpr := k.obj("anchors", relCheck, "zeroExpr")

	// O10: a type refinement must lie inside the base type's bounds.
	if fl := k.flow("O10", relCheck, "checker", "bcheckTypeExpr1"); fl != nil {
		name := fl.F.Name()
		bVars := varsOfType(fl.VarsDenoting(func(e ast.Expr) bool {
			_, ok := ast.Unparen(e).(*ast.CompositeLit)
			return ok
		}), "IntRange")
		bP := anyOf(fl, bVars)
		for _, side := range []struct {
			idx  int64
			rel  token.Token
			what string
		}{{0, token.LSS, "lower"}, {1, token.GTR, "upper"}} {
			side := side
			k.mustPass("O10."+side.what, name+"[refinement "+side.what+" bound]", "a refinement's "+side.what+" bound is accepted as the type's bound only if it is not outside the base type's own range (cv "+side.rel.String()+" b["+string(rune('0'+side.idx))+"] ⇒ error)", fl, core.Query{
				Exit: func(n ast.Node) bool {
					as, ok := n.(*ast.AssignStmt)
					return ok && len(as.Lhs) == 1 && boundElem(fl, as.Lhs[0], bP, side.idx) && as.Tok == token.ASSIGN
				},
				Events: []core.Event{{Edge: func(cond ast.Expr, ci *core.CondInfo, taken bool) bool {
					a, b, rel, ok := cmpAtom(fl, cond)
					if !ok || taken {
						return false
					}
					isCV := func(e ast.Expr) bool {
						return fl.Denotes(func(x ast.Expr) bool { return callNamedOn(fl, x, "ConstValue", nil) })(e)
					}
					return (rel == side.rel && isCV(a) && boundElem(fl, b, bP, side.idx)) || (rel == mirror(side.rel) && boundElem(fl, a, bP, side.idx) && isCV(b))
				}}}})
		}
		k.mustPass("O10.const", name+"[refinement]", "a refinement without a constant value is rejected", fl, core.Query{
			Exit: func(n ast.Node) bool {
				as, ok := n.(*ast.AssignStmt)
				return ok && len(as.Lhs) == 1 && (boundElem(fl, as.Lhs[0], bP, 0) || boundElem(fl, as.Lhs[0], bP, 1)) && as.Tok == token.ASSIGN
			},
			Events: []core.Event{{Edge: func(cond ast.Expr, ci *core.CondInfo, taken bool) bool {
				return !taken && nilTest(fl, cond, func(e ast.Expr) bool { o := fl.Obj(e); return o != nil && o.Name() != "" }, true)
			}}}})
	}

	// O11: var declarations and returns are assignments to a typed destination.
	if fl := k.flow("O11", relCheck, "checker", "bcheckVar"); fl != nil {
		k.mustPass("O11.var", fl.F.Name(), "`var x T` is checked as the assignment x = 0, so a type whose range excludes zero is rejected", fl, core.Query{
			Exit: fl.SuccessReturn, FuncEnd: true,
			Events: []core.Event{core.CallEvent(fl.Call(bcheckAssignment, nil, fl.Is(tok("IDEq")), fl.Denotes(fl.Is(zeroExpr))))}})
	}
	if fl := k.flow("O11", relCheck, "checker", "bcheckStatement"); fl != nil {
		kret := k.obj("O11", "lang/ast", "KRet")
		if region, cc := fl.CaseRegion(kret, func(e ast.Expr) bool { return callNamedOn(fl, e, "Kind", nil) }); cc == nil {
			c.Undecided("O11.ret", fl.F.Name()+"[case KRet]", "case exists", "not found")
		} else {
			k.passChecked("O11.ret", fl.F.Name()+"[case KRet]", "a returned (or yielded) value is checked against the function's declared result type (status for coroutines)", fl,
				core.Query{Region: region, FallOut: true, Exit: fl.SuccessReturn},
				fl.Call(bcheckAssignment1, core.IsNilExpr(fl.F.Info()), func(e ast.Expr) bool { o := fl.Obj(e); return o != nil }, fl.Is(tok("IDEq")), func(e ast.Expr) bool { return callNamedOn(fl, e, "Value", nil) }))
			// lTyp is Out(), status for coroutines, empty struct when nil
			outVars := fl.VarsDenoting(func(e ast.Expr) bool { return callNamedOn(fl, e, "Out", nil) })
			ok := false
			for _, v := range outVars {
				if region.Contains(v.Pos()) {
					ok = true
				}
			}
			c.Check(ok, "O11.ret.type", fl.F.Name()+"[case KRet]", "the destination type of a return is derived from the function's Out()", len(outVars), "")
		}
	}

	// O12: bcheckAssert accepts only what was matched, is constant true, or was proved.
	if fl := k.flow("O12", relCheck, "checker", "bcheckAssert"); fl != nil {
		name := fl.F.Name()
		errFailed := k.obj("O12", relCheck, "errFailed")
		// the verdict variable: the error variable whose first definition is errFailed
		var verdict types.Object
		for o, defs := range fl.Defs() {
			if o.Type().String() == "error" && len(defs) > 0 && fl.Is(errFailed)(defs[0]) {
				verdict = o
			}
		}
		if verdict == nil {
			c.Undecided("O12.default", name, "the assertion's verdict starts as errFailed", "no error variable initialised to errFailed")
		} else {
			c.Pass("O12.default", name, "the assertion's verdict starts as errFailed (unprovable unless something below proves it)", 1, "")
			// every later definition is nil under `cv.Cmp(one) == 0`, or the result of a reason function / proveBinaryOp / an error constructor
			bad := 0
			n := 0
			ast.Inspect(fl.F.Decl.Body, func(m ast.Node) bool {
				as, ok := m.(*ast.AssignStmt)
				if !ok || as.Tok != token.ASSIGN || len(as.Lhs) != 1 || fl.Obj(as.Lhs[0]) != verdict || len(as.Rhs) != 1 {
					return true
				}
				n++
				r := ast.Unparen(as.Rhs[0])
				if core.IsNilIdent(fl.F.Info(), r) {
					// must be inside an if whose condition is cv.Cmp(one) == 0
					path := core.PathTo(fl.F.Decl.Body, as)
					ok := false
					for i := len(path) - 1; i >= 1; i-- {
						if is, isIf := path[i-1].(*ast.IfStmt); isIf && path[i] == ast.Node(is.Body) {
							a, b, rel, okc := cmpAtom(fl, is.Cond)
							one := k.g.LookupObj(relCheck, "one")
							if okc && rel == token.EQL && fl.Is(one)(b) && fl.Denotes(func(e ast.Expr) bool { return callNamedOn(fl, e, "ConstValue", nil) })(a) {
								ok = true
							}
							break
						}
					}
					if !ok {
						bad++
					}
					return true
				}
				if call, isCall := r.(*ast.CallExpr); isCall {
					fn := core.Callee(fl.F.Info(), call)
					if fn != nil && (fn.Name() == "proveBinaryOp" || fn.FullName() == "fmt.Errorf") {
						return true
					}
					if fn == nil { // reasonFunc(q, n): a call of a function value
						return true
					}
				}
				bad++
				return true
			})
			c.Check(bad == 0 && n >= 3, "O12.sources", name, "the verdict becomes nil only for a constant-true condition, a successful reason (axiom) function or a successful proveBinaryOp", n, "")
			k.mustPass("O12.gate", name, "an asserted condition becomes a fact only if it already is one, or the verdict is nil", fl, core.Query{
				Exit: func(n ast.Node) bool {
					return core.Guaranteed(n, factsMethod(fl, "appendFact")) || fl.SuccessReturn(n)
				},
				FuncEnd: true,
				Events: []core.Event{{Edge: func(cond ast.Expr, ci *core.CondInfo, taken bool) bool {
					if !taken && nilTest(fl, cond, fl.Is(verdict), false) {
						return true
					}
					// the early exit: an existing fact equals the condition
					e, neg := boolCond(cond)
					call, ok := e.(*ast.CallExpr)
					return ok && nameIs(fl, call, "Eq") && !neg && taken
				}}}})
		}
	}

	// O13: optimizeIOMethodAdvance — the length facts are consumed, not just consulted.
	if fl := k.flow("O13", relCheck, "checker", "optimizeIOMethodAdvance"); fl != nil {
		name := fl.F.Name()
		advance := fl.Param(1)
		update := fl.Param(3)
		lits := findLits(fl.F.Decl.Body)
		var lit *ast.FuncLit
		for _, l := range lits {
			if core.AnyCall(l.Body, func(call *ast.CallExpr) bool { return nameIs(fl, call, "makeConstValueExpr") }) {
				lit = l
			}
		}
		if lit == nil {
			c.Undecided("O13", name, "the facts.update closure that adjusts length facts", "not found")
		} else {
			ll := core.NewFlowLit(fl.F, lit)
			x := ll.Param(0)
			enough := func(cond ast.Expr, ci *core.CondInfo, taken bool) bool {
				// rcv.Cmp(advance) < 0 false  ⇔  rcv >= advance
				a, b, rel, ok := cmpAtom(ll, cond)
				if !ok {
					return false
				}
				if fl.Is(advance)(b) && !fl.Is(advance)(a) {
					return (rel == token.LSS && !taken) || (rel == token.GEQ && taken)
				}
				if fl.Is(advance)(a) && !fl.Is(advance)(b) {
					return (rel == token.GTR && !taken) || (rel == token.LEQ && taken)
				}
				return false
			}
			retOK := func(n ast.Node) bool {
				as, ok := n.(*ast.AssignStmt)
				if !ok || len(as.Lhs) != 1 || len(as.Rhs) != 1 {
					return false
				}
				o := fl.Obj(as.Lhs[0])
				v := core.ConstVal(fl.F.Info(), as.Rhs[0])
				return o != nil && o.Type().String() == "bool" && v != nil && v.ExactString() == "true"
			}
			k.mustPass("O13.enough", name+"[closure]", "the pre-condition is reported as proved (retOK = true) only for a fact `receiver.length() >= c` with c >= advance", ll, core.Query{
				Exit: retOK, Events: []core.Event{{Edge: enough}}})
			k.mustPass("O13.receiver", name+"[closure]", "…and only for a fact about this receiver's length()", ll, core.Query{
				Exit: retOK, Events: []core.Event{{Edge: func(cond ast.Expr, ci *core.CondInfo, taken bool) bool {
					e, neg := boolCond(cond)
					call, ok := e.(*ast.CallExpr)
					return ok && nameIs(ll, call, "Eq") && len(call.Args) == 1 && fl.Is(fl.Param(0))(call.Args[0]) && neg && !taken
				}}}})
			k.mustPass("O13.consume", name+"[closure]", "when the built-in advances the stream (update), a matching length fact is not kept unchanged: it is rewritten with c - advance (or dropped)", ll, core.Query{
				Start: retOK,
				Exit: func(n ast.Node) bool {
					r, ok := n.(*ast.ReturnStmt)
					return ok && len(r.Results) == 2 && ll.Is(x)(r.Results[0])
				},
				Events: []core.Event{{Edge: func(cond ast.Expr, ci *core.CondInfo, taken bool) bool {
					e, neg := boolCond(cond)
					return fl.Is(update)(e) && neg && taken
				}}}})
			// the rewritten constant is rcv - advance
			okSub := false
			ast.Inspect(lit.Body, func(m ast.Node) bool {
				if call, ok := m.(*ast.CallExpr); ok {
					if fn := core.Callee(fl.F.Info(), call); fn != nil && fn.FullName() == "(*math/big.Int).Sub" && len(call.Args) == 2 && fl.Is(advance)(call.Args[1]) && !fl.Is(advance)(call.Args[0]) {
						okSub = true
					}
				}
				return true
			})
			c.Check(okSub, "O13.subtract", name+"[closure]", "the remaining length is computed as c - advance", 1, "")
			// the rewritten fact is `length >= c - advance`: for skip_fast the advance is a worst case, so `==` would be false
			geq := k.g.LookupObj("lang/token", "IDXBinaryGreaterEq")
			nNew, nGeq := 0, 0
			ast.Inspect(lit.Body, func(m ast.Node) bool {
				r, ok := m.(*ast.ReturnStmt)
				if !ok || len(r.Results) != 2 {
					return true
				}
				call, ok := ast.Unparen(r.Results[0]).(*ast.CallExpr)
				if !ok || !nameIs(fl, call, "NewExpr") || len(call.Args) < 2 {
					return true
				}
				nNew++
				if fl.Is(geq)(call.Args[1]) {
					nGeq++
				}
				return true
			})
			c.Check(nNew >= 1 && nNew == nGeq, "O13.op", name+"[closure]", "the rewritten length fact is a lower bound (`>=`), never an equality: skip_fast advances by at most its worst-case argument", nNew, "")
		}
	}
}

// runC01Choose: recursion through choosy methods is only visible to
// checkNoRecursiveFuncs if every `choose` statement's alternatives are
// accumulated, not overwritten.
func runC01Choose(k *gctx) {
	c := k.c
	fl := k.flow("O8.choose", relCheck, "Checker", "gatherChooseAlternatives")
	if fl == nil {
		return
	}
	name := fl.F.Name()
	lits := findLits(fl.F.Decl.Body)
	if len(lits) != 1 {
		c.Undecided("O8.choose", name, "one walk closure", "shape not recognised")
		return
	}
	ll := core.NewFlowLit(fl.F, lits[0])
	isMapElem := func(e ast.Expr) (ast.Expr, bool) {
		ix, ok := ast.Unparen(e).(*ast.IndexExpr)
		if !ok {
			return nil, false
		}
		sel, ok := ast.Unparen(ix.X).(*ast.SelectorExpr)
		if !ok {
			return nil, false
		}
		v, ok := ll.F.Info().Uses[sel.Sel].(*types.Var)
		return ix.Index, ok && v.IsField() && v.Name() == "chooseAlternatives"
	}
	nStores, bad := 0, ""
	ast.Inspect(lits[0].Body, func(m ast.Node) bool {
		as, ok := m.(*ast.AssignStmt)
		if !ok || len(as.Lhs) != 1 || len(as.Rhs) != 1 {
			return true
		}
		key, isStore := isMapElem(as.Lhs[0])
		if !isStore {
			return true
		}
		nStores++
		v := ll.Obj(as.Rhs[0])
		if v == nil {
			bad = "the stored value is not a local accumulator"
			return true
		}
		defs := ll.Defs()[v]
		if len(defs) == 0 {
			bad = "the accumulator has no definition"
			return true
		}
		k0, ok0 := isMapElem(defs[0])
		if !ok0 || ll.Obj(k0) == nil || ll.Obj(k0) != ll.Obj(key) {
			bad = "the accumulator does not start from the alternatives already recorded for the same method (c.chooseAlternatives[key]); an earlier `choose` statement's alternatives are lost"
			return true
		}
		for _, d := range defs[1:] {
			call, ok := ast.Unparen(d).(*ast.CallExpr)
			id, _ := func() (*ast.Ident, bool) {
				if !ok {
					return nil, false
				}
				i, ok2 := call.Fun.(*ast.Ident)
				return i, ok2
			}()
			if !ok || id == nil || id.Name != "append" || len(call.Args) < 1 || ll.Obj(call.Args[0]) != v {
				bad = "the accumulator is reassigned by something other than append(itself, …)"
			}
		}
		return true
	})
	c.Check(nStores == 1 && bad == "", "O8.choose", name, "the alternatives of every `choose` statement for a method are accumulated (append to what is already recorded), so that the no-recursion check sees a recursive alternative named by any of them", nStores, bad)
	// and checkNoRecursiveFuncs1 follows them
	if f2 := k.flow("O8.choose.used", relCheck, "Checker", "checkNoRecursiveFuncs1"); f2 != nil {
		used := false
		ast.Inspect(f2.F.Decl.Body, func(m ast.Node) bool {
			if rs, ok := m.(*ast.RangeStmt); ok {
				if ix, ok := ast.Unparen(rs.X).(*ast.IndexExpr); ok {
					if sel, ok := ast.Unparen(ix.X).(*ast.SelectorExpr); ok && sel.Sel.Name == "chooseAlternatives" {
						if core.AnyCall(rs.Body, func(call *ast.CallExpr) bool { return nameIs(f2, call, "checkNoRecursiveFuncs1") }) {
							used = true
						}
					}
				}
			}
			return true
		})
		c.Check(used, "O8.choose.used", f2.F.Name(), "the no-recursion walk descends into every recorded choose alternative of a called method", 1, "")
	}
}
