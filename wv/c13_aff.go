package main

// Linear integer forms over variables, receiver fields and slice lengths, and
// "what does leaving this condition along this edge imply about form T".
// Used by the T.tree.* (index tree) and B.* (two-slice pending buffer) rules
// of C13. Everything is resolved through go/types objects; a local variable is
// replaced by its definition only when it has exactly one plain definition and
// nothing that the definition mentions can have been written between the
// definition and the use (checked on the CFG, c13Env.fresh).

import (
	"fmt"
	"go/ast"
	"go/token"
	"go/types"
	"sort"
	"strings"

	"wv/core"
)

type c13Atom struct {
	kind byte // 'v' value of a variable / receiver field, 'l' len() of a slice variable / receiver field, 's' rule-specific
	obj  types.Object
	tag  string
}

func (a c13Atom) String() string {
	switch a.kind {
	case 'v':
		return a.obj.Name()
	case 'l':
		return "len(" + a.obj.Name() + ")"
	}
	return a.tag
}

type c13Aff struct {
	t map[c13Atom]int64
	k int64
}

func affK(k int64) c13Aff { return c13Aff{k: k} }
func affA(a c13Atom) c13Aff {
	return c13Aff{t: map[c13Atom]int64{a: 1}}
}

// plus returns a + m·b.
func (a c13Aff) plus(b c13Aff, m int64) c13Aff {
	r := c13Aff{t: map[c13Atom]int64{}, k: a.k + m*b.k}
	for x, c := range a.t {
		r.t[x] += c
	}
	for x, c := range b.t {
		r.t[x] += m * c
	}
	for x, c := range r.t {
		if c == 0 {
			delete(r.t, x)
		}
	}
	return r
}

func (a c13Aff) isConst() (int64, bool) { return a.k, len(a.t) == 0 }

func (a c13Aff) equal(b c13Aff) bool {
	d := a.plus(b, -1)
	k, ok := d.isConst()
	return ok && k == 0
}

// over: a = m·t + k with m = ±1 (t not constant).
func (a c13Aff) over(t c13Aff) (m, k int64, ok bool) {
	if len(t.t) == 0 || len(a.t) != len(t.t) {
		return 0, 0, false
	}
	for x, c := range t.t {
		ac, has := a.t[x]
		if !has {
			return 0, 0, false
		}
		var mm int64
		switch {
		case ac == c:
			mm = 1
		case ac == -c:
			mm = -1
		default:
			return 0, 0, false
		}
		if m != 0 && mm != m {
			return 0, 0, false
		}
		m = mm
	}
	return m, a.k - m*t.k, true
}

func (a c13Aff) String() string {
	var parts []string
	for x, c := range a.t {
		switch c {
		case 1:
			parts = append(parts, "+"+x.String())
		case -1:
			parts = append(parts, "-"+x.String())
		default:
			parts = append(parts, fmt.Sprintf("%+d*%s", c, x.String()))
		}
	}
	sort.Strings(parts)
	if a.k != 0 || len(parts) == 0 {
		parts = append(parts, fmt.Sprintf("%+d", a.k))
	}
	return strings.Join(parts, "")
}

// c13Range: what is known about an integer form: lo <= T <= hi, or T != ne.
type c13Range struct {
	hasLo, hasHi, hasNe bool
	lo, hi, ne          int64
}

// atMost: the range implies T <= k.
func (r c13Range) atMost(k int64) bool { return r.hasHi && r.hi <= k }

// excludes: the range implies T != v.
func (r c13Range) excludes(v int64) bool {
	return (r.hasHi && r.hi < v) || (r.hasLo && r.lo > v) || (r.hasNe && r.ne == v)
}

func c13Negate(op token.Token) token.Token {
	switch op {
	case token.EQL:
		return token.NEQ
	case token.NEQ:
		return token.EQL
	case token.LSS:
		return token.GEQ
	case token.GEQ:
		return token.LSS
	case token.GTR:
		return token.LEQ
	case token.LEQ:
		return token.GTR
	}
	return token.ILLEGAL
}

// c13RangeOf: m·T + k OP 0  ⇒  range of T.
func c13RangeOf(m, k int64, op token.Token) (c13Range, bool) {
	// T OP' c
	c := -k
	if m == -1 {
		c = k
		op = mirror(op)
	}
	switch op {
	case token.EQL:
		return c13Range{hasLo: true, hasHi: true, lo: c, hi: c}, true
	case token.NEQ:
		return c13Range{hasNe: true, ne: c}, true
	case token.LSS:
		return c13Range{hasHi: true, hi: c - 1}, true
	case token.LEQ:
		return c13Range{hasHi: true, hi: c}, true
	case token.GTR:
		return c13Range{hasLo: true, lo: c + 1}, true
	case token.GEQ:
		return c13Range{hasLo: true, lo: c}, true
	}
	return c13Range{}, false
}

type c13Def struct {
	stmt ast.Node // the CFG node of the definition
	rhs  ast.Expr
}

type c13Env struct {
	fl        *core.Flow
	info      *types.Info
	recv      types.Object
	plain     map[types.Object]c13Def     // locals with exactly one plain definition and no other write
	writes    map[types.Object][]ast.Node // statements writing a local / parameter / receiver field
	recvCalls []ast.Node                  // statements calling a method on the receiver (may write any field)
	hasLit    bool
	nodes     []ast.Node // all CFG nodes of live blocks
	freshMemo map[[2]ast.Node]bool
	eqMemo    map[string]bool
	// defTime: replace a plain local by its definition without asking that the
	// definition is still current at the use (the value wanted is the one at the
	// time of the definition); the definitions used are recorded in subst.
	defTime bool
	subst   []ast.Node
	// special recognises rule-specific atoms: the argument of len(…) / the
	// operand of a nil comparison.
	special func(e ast.Expr, at ast.Node) (c13Atom, bool)
	// intAtom recognises rule-specific integer-valued calls (e.g. buf.length()).
	intAtom func(call *ast.CallExpr, at ast.Node) (c13Atom, bool)
}

func newC13Env(fl *core.Flow) *c13Env {
	env := &c13Env{fl: fl, info: fl.F.Info(), recv: fl.Recv(), plain: map[types.Object]c13Def{},
		writes: map[types.Object][]ast.Node{}, freshMemo: map[[2]ast.Node]bool{}, eqMemo: map[string]bool{}}
	for _, b := range fl.G.Blocks {
		if b.Live {
			env.nodes = append(env.nodes, b.Nodes...)
		}
	}
	type cand struct {
		n   int
		def c13Def
	}
	cands := map[types.Object]*cand{}
	addr := map[types.Object]bool{}
	note := func(o types.Object, stmt ast.Node, rhs ast.Expr) {
		if o == nil {
			return
		}
		env.writes[o] = append(env.writes[o], stmt)
		c := cands[o]
		if c == nil {
			c = &cand{}
			cands[o] = c
		}
		c.n++
		c.def = c13Def{stmt, rhs}
	}
	target := func(l ast.Expr) types.Object {
		switch x := ast.Unparen(l).(type) {
		case *ast.Ident:
			if x.Name == "_" {
				return nil
			}
			return fl.Obj(x)
		case *ast.SelectorExpr:
			if env.isRecv(x.X) {
				return env.info.Uses[x.Sel]
			}
		}
		return nil
	}
	ast.Inspect(fl.F.Decl.Body, func(n ast.Node) bool {
		switch s := n.(type) {
		case *ast.FuncLit:
			env.hasLit = true
			return false
		case *ast.AssignStmt:
			for i, l := range s.Lhs {
				var rhs ast.Expr
				if (s.Tok == token.DEFINE || s.Tok == token.ASSIGN) && len(s.Lhs) == len(s.Rhs) {
					rhs = s.Rhs[i]
				}
				note(target(l), s, rhs)
			}
		case *ast.IncDecStmt:
			note(target(s.X), s, nil)
		case *ast.RangeStmt:
			if s.Key != nil {
				note(target(s.Key), s.Key, nil) // go/cfg adds the key and value expressions as nodes
			}
			if s.Value != nil {
				note(target(s.Value), s.Value, nil)
			}
		case *ast.ValueSpec:
			for i, id := range s.Names {
				var rhs ast.Expr
				if i < len(s.Values) && len(s.Values) == len(s.Names) {
					rhs = s.Values[i]
				}
				note(env.info.Defs[id], env.nodeOf(s), rhs)
			}
		case *ast.UnaryExpr:
			if s.Op == token.AND {
				if id, ok := ast.Unparen(s.X).(*ast.Ident); ok {
					addr[fl.Obj(id)] = true
				}
			}
		case *ast.CallExpr:
			if r := core.RecvOf(s); r != nil && env.isRecv(r) {
				if cn := env.nodeOf(s); cn != nil {
					env.recvCalls = append(env.recvCalls, cn)
				}
			}
		}
		return true
	})
	results := map[types.Object]bool{} // named results start at their zero value: never "one definition"
	if fl.F.Decl.Type.Results != nil {
		for _, f := range fl.F.Decl.Type.Results.List {
			for _, id := range f.Names {
				results[env.info.Defs[id]] = true
			}
		}
	}
	for o, c := range cands {
		v, ok := o.(*types.Var)
		if !ok || v.IsField() || addr[o] || c.n != 1 || c.def.rhs == nil {
			continue
		}
		if env.isParam(o) || results[o] {
			continue
		}
		env.plain[o] = c.def
	}
	return env
}

func (env *c13Env) isParam(o types.Object) bool {
	if o == env.recv {
		return true
	}
	for i := 0; ; i++ {
		p := env.fl.Param(i)
		if p == nil {
			return false
		}
		if p == o {
			return true
		}
	}
}

func (env *c13Env) isRecv(e ast.Expr) bool {
	if env.recv == nil {
		return false
	}
	e = ast.Unparen(e)
	if st, ok := e.(*ast.StarExpr); ok {
		e = ast.Unparen(st.X)
	}
	id, ok := e.(*ast.Ident)
	return ok && env.fl.Obj(id) == env.recv
}

// nodeOf: the CFG node that contains n (the smallest one by extent).
func (env *c13Env) nodeOf(n ast.Node) ast.Node {
	var best ast.Node
	for _, c := range env.nodes {
		if c.Pos() <= n.Pos() && n.End() <= c.End() {
			if best == nil || (c.End()-c.Pos()) < (best.End()-best.Pos()) {
				best = c
			}
		}
	}
	return best
}

// varsIn: the variables and receiver fields an expression mentions (through plain locals).
func (env *c13Env) varsIn(e ast.Expr, out map[types.Object]bool, depth int) {
	ast.Inspect(e, func(n ast.Node) bool {
		id, ok := n.(*ast.Ident)
		if !ok {
			return true
		}
		v, ok := env.info.Uses[id].(*types.Var)
		if !ok || out[v] {
			return true
		}
		out[v] = true
		if d, isPlain := env.plain[v]; isPlain && depth < 6 {
			env.varsIn(d.rhs, out, depth+1)
		}
		return true
	})
}

// killsOf: statements that may change the value of any of the objects.
func (env *c13Env) killsOf(objs map[types.Object]bool) []ast.Node {
	seen := map[ast.Node]bool{}
	var out []ast.Node
	field := false
	for o := range objs {
		if v, ok := o.(*types.Var); ok && v.IsField() {
			field = true
		}
		for _, w := range env.writes[o] {
			if !seen[w] {
				seen[w] = true
				out = append(out, w)
			}
		}
	}
	if field {
		for _, w := range env.recvCalls {
			if !seen[w] {
				seen[w] = true
				out = append(out, w)
			}
		}
	}
	return out
}

// reaches: is there a CFG path that starts after executing `from` (nil: function entry)
// and arrives at a node satisfying `to` without executing a node satisfying `via`?
func (env *c13Env) reaches(from ast.Node, to, via func(ast.Node) bool) bool {
	q := core.Query{Exit: to}
	if via != nil {
		q.Events = []core.Event{{Node: via}}
	}
	if from != nil {
		q.Start = func(n ast.Node) bool { return n == from }
	}
	esc, _ := env.fl.Escapes(q)
	return len(esc) > 0
}

// fresh: the plain local v, defined at d.stmt, still has the value of its
// definition when node `at` executes: no write to anything the definition
// mentions lies on a path from that write to `at` that does not re-execute the
// definition.
func (env *c13Env) fresh(v types.Object, at ast.Node) bool {
	d := env.plain[v]
	if d.stmt == nil || at == nil {
		return false
	}
	if env.defTime {
		env.subst = append(env.subst, d.stmt)
		return true
	}
	key := [2]ast.Node{d.stmt, at}
	if r, ok := env.freshMemo[key]; ok {
		return r
	}
	deps := map[types.Object]bool{}
	env.varsIn(d.rhs, deps, 0)
	ok := true
	for _, kill := range env.killsOf(deps) {
		if kill == d.stmt {
			continue
		}
		if env.reaches(kill, func(n ast.Node) bool { return n == at }, func(n ast.Node) bool { return n == d.stmt }) {
			ok = false
			break
		}
	}
	env.freshMemo[key] = ok
	return ok
}

// sameAt: at node `at`, local v certainly equals receiver field f: on every path
// the last write to either is a plain `recv.f = v` or `v = recv.f` / `v := recv.f`.
func (env *c13Env) sameAt(v, f types.Object, at ast.Node) bool {
	key := fmt.Sprintf("%p|%p|%p", v, f, at)
	if r, ok := env.eqMemo[key]; ok {
		return r
	}
	isEq := func(n ast.Node) bool {
		// `f = v`, `v = f`, `v := f`, also as one position of a tuple assignment
		// (all right-hand sides are evaluated first, so the other position must not store to v or f)
		as, ok := n.(*ast.AssignStmt)
		if !ok || len(as.Lhs) != len(as.Rhs) || (as.Tok != token.ASSIGN && as.Tok != token.DEFINE) {
			return false
		}
		eq, other := 0, 0
		for i := range as.Lhs {
			l, r := env.scalarObj(as.Lhs[i]), env.scalarObj(as.Rhs[i])
			switch {
			case (l == v && r == f) || (l == f && r == v):
				eq++
			case l == v || l == f:
				other++
			}
		}
		return eq == 1 && other == 0
	}
	nEq := 0
	for _, n := range env.nodes {
		if isEq(n) {
			nEq++
		}
	}
	res := nEq > 0
	if res {
		to := func(n ast.Node) bool { return n == at }
		via := func(n ast.Node) bool { return n != at && isEq(n) } // `at` itself has not executed yet
		if env.reaches(nil, to, via) {
			res = false
		}
		for _, kill := range env.killsOf(map[types.Object]bool{v: true, f: true}) {
			if !res {
				break
			}
			if isEq(kill) {
				continue
			}
			if env.reaches(kill, to, func(n ast.Node) bool { return n != at && isEq(n) }) {
				res = false
			}
		}
	}
	env.eqMemo[key] = res
	return res
}

// scalarObj: e is a plain variable or recv.field (through integer conversions).
func (env *c13Env) scalarObj(e ast.Expr) types.Object {
	e = env.unconv(e)
	switch x := e.(type) {
	case *ast.Ident:
		if v, ok := env.fl.Obj(x).(*types.Var); ok {
			return v
		}
	case *ast.SelectorExpr:
		if env.isRecv(x.X) {
			if v, ok := env.info.Uses[x.Sel].(*types.Var); ok && v.IsField() {
				return v
			}
		}
	}
	return nil
}

// unconv strips parentheses and integer conversions.
func (env *c13Env) unconv(e ast.Expr) ast.Expr {
	for {
		e = ast.Unparen(e)
		call, ok := e.(*ast.CallExpr)
		if !ok || len(call.Args) != 1 {
			return e
		}
		tv, has := env.info.Types[call.Fun]
		if !has || !tv.IsType() {
			return e
		}
		bt, isb := tv.Type.Underlying().(*types.Basic)
		if !isb || bt.Info()&types.IsInteger == 0 {
			return e
		}
		e = call.Args[0]
	}
}

func c13IsInt(t types.Type) bool {
	bt, ok := t.Underlying().(*types.Basic)
	return ok && bt.Info()&types.IsInteger != 0
}

// affDefTime: the linear form of e where every plain local stands for the value
// of its definition at the time of that definition; points are the statements
// at which the atoms of the result were read (the definitions used, or `at`).
func (env *c13Env) affDefTime(e ast.Expr, at ast.Node) (a c13Aff, points []ast.Node, ok bool) {
	env.defTime, env.subst = true, nil
	a, ok = env.aff(e, at)
	points = env.subst
	env.defTime, env.subst = false, nil
	if len(points) == 0 {
		points = []ast.Node{at}
	}
	return
}

// aff: the linear form of integer expression e evaluated at CFG node `at`.
func (env *c13Env) aff(e ast.Expr, at ast.Node) (c13Aff, bool) {
	return env.aff1(e, at, 0)
}

func (env *c13Env) aff1(e ast.Expr, at ast.Node, depth int) (c13Aff, bool) {
	if depth > 8 {
		return c13Aff{}, false
	}
	e = env.unconv(e)
	if k, ok := core.ConstInt64(env.info, e); ok {
		return affK(k), true
	}
	switch x := e.(type) {
	case *ast.Ident:
		v, ok := env.fl.Obj(x).(*types.Var)
		if !ok || !c13IsInt(v.Type()) {
			return c13Aff{}, false
		}
		if d, isPlain := env.plain[v]; isPlain {
			if env.fresh(v, at) {
				if a, ok := env.aff1(d.rhs, d.stmt, depth+1); ok {
					return a, true
				}
			}
			return affA(c13Atom{kind: 'v', obj: v}), true // the variable itself
		}
		// a local that certainly holds the value of an integer receiver field
		if !env.isParam(v) && env.recv != nil {
			for _, f := range env.recvFields() {
				if c13IsInt(f.Type()) && env.sameAt(v, f, at) {
					return affA(c13Atom{kind: 'v', obj: f}), true
				}
			}
		}
		return affA(c13Atom{kind: 'v', obj: v}), true
	case *ast.SelectorExpr:
		if env.isRecv(x.X) {
			if f, ok := env.info.Uses[x.Sel].(*types.Var); ok && f.IsField() && c13IsInt(f.Type()) {
				return affA(c13Atom{kind: 'v', obj: f}), true
			}
		}
	case *ast.CallExpr:
		if id, ok := ast.Unparen(x.Fun).(*ast.Ident); ok && len(x.Args) == 1 {
			if b, isB := env.info.Uses[id].(*types.Builtin); isB && b.Name() == "len" {
				return env.lenOf(x.Args[0], at, depth+1)
			}
		}
		if env.intAtom != nil {
			if a, ok := env.intAtom(x, at); ok {
				return affA(a), true
			}
		}
	case *ast.BinaryExpr:
		a, ok1 := env.aff1(x.X, at, depth+1)
		b, ok2 := env.aff1(x.Y, at, depth+1)
		if !ok1 || !ok2 {
			return c13Aff{}, false
		}
		switch x.Op {
		case token.ADD:
			return a.plus(b, 1), true
		case token.SUB:
			return a.plus(b, -1), true
		case token.MUL:
			if k, isk := a.isConst(); isk {
				return affK(0).plus(b, k), true
			}
			if k, isk := b.isConst(); isk {
				return affK(0).plus(a, k), true
			}
		}
	}
	return c13Aff{}, false
}

func (env *c13Env) recvFields() []*types.Var {
	if env.recv == nil {
		return nil
	}
	t := env.recv.Type()
	if p, ok := t.Underlying().(*types.Pointer); ok {
		t = p.Elem()
	}
	st, ok := t.Underlying().(*types.Struct)
	if !ok {
		return nil
	}
	var out []*types.Var
	for i := 0; i < st.NumFields(); i++ {
		out = append(out, st.Field(i))
	}
	return out
}

// lenOf: the linear form of len(e) at node `at`.
func (env *c13Env) lenOf(e ast.Expr, at ast.Node, depth int) (c13Aff, bool) {
	if depth > 8 {
		return c13Aff{}, false
	}
	e = ast.Unparen(e)
	if env.special != nil {
		if a, ok := env.special(e, at); ok {
			return affA(a), true
		}
	}
	switch x := e.(type) {
	case *ast.Ident:
		if x.Name == "nil" && env.info.Uses[x] == types.Universe.Lookup("nil") {
			return affK(0), true
		}
		v, ok := env.fl.Obj(x).(*types.Var)
		if !ok {
			return c13Aff{}, false
		}
		if _, isSlice := v.Type().Underlying().(*types.Slice); !isSlice {
			return c13Aff{}, false
		}
		if d, isPlain := env.plain[v]; isPlain {
			if !env.fresh(v, at) {
				return c13Aff{}, false
			}
			return env.lenOf(d.rhs, d.stmt, depth+1)
		}
		return affA(c13Atom{kind: 'l', obj: v}), true
	case *ast.SelectorExpr:
		if env.isRecv(x.X) {
			if f, ok := env.info.Uses[x.Sel].(*types.Var); ok && f.IsField() {
				if _, isSlice := f.Type().Underlying().(*types.Slice); isSlice {
					return affA(c13Atom{kind: 'l', obj: f}), true
				}
			}
		}
	case *ast.SliceExpr:
		if x.Slice3 {
			return c13Aff{}, false
		}
		if tv, ok := env.info.Types[x.X]; !ok || tv.Type == nil {
			return c13Aff{}, false
		} else if _, isSlice := tv.Type.Underlying().(*types.Slice); !isSlice {
			return c13Aff{}, false
		}
		lo := affK(0)
		if x.Low != nil {
			var ok bool
			if lo, ok = env.aff1(x.Low, at, depth+1); !ok {
				return c13Aff{}, false
			}
		}
		var hi c13Aff
		var ok bool
		if x.High != nil {
			hi, ok = env.aff1(x.High, at, depth+1)
		} else {
			hi, ok = env.lenOf(x.X, at, depth+1)
		}
		if !ok {
			return c13Aff{}, false
		}
		return hi.plus(lo, -1), true
	}
	return c13Aff{}, false
}

// cmp: the comparison `x OP y` as the linear form F (= x - y) with `F OP 0`.
// A comparison of a slice with nil is read as len(slice) OP 0.
func (env *c13Env) cmp(x ast.Expr, y ast.Expr, at ast.Node) (c13Aff, bool) {
	isNil := func(e ast.Expr) bool {
		id, ok := ast.Unparen(e).(*ast.Ident)
		return ok && id.Name == "nil" && env.info.Uses[id] == types.Universe.Lookup("nil")
	}
	switch {
	case isNil(y):
		return env.lenOf(x, at, 0)
	case isNil(x):
		a, ok := env.lenOf(y, at, 0)
		return affK(0).plus(a, -1), ok
	}
	a, ok1 := env.aff(x, at)
	b, ok2 := env.aff(y, at)
	if !ok1 || !ok2 {
		return c13Aff{}, false
	}
	return a.plus(b, -1), true
}

// edgeImplies: leaving `cond` (evaluated at CFG node `at`) with the value
// `taken` implies the goal, where atom(F, op) decides one comparison F OP 0.
// Handles !, &&, ||, parentheses and boolean locals with one plain definition.
func (env *c13Env) edgeImplies(cond ast.Expr, taken bool, at ast.Node, atom func(f c13Aff, op token.Token) bool) bool {
	return env.implies1(cond, taken, at, atom, 0)
}

func (env *c13Env) implies1(cond ast.Expr, taken bool, at ast.Node, atom func(f c13Aff, op token.Token) bool, depth int) bool {
	if depth > 8 {
		return false
	}
	cond = ast.Unparen(cond)
	switch x := cond.(type) {
	case *ast.UnaryExpr:
		if x.Op == token.NOT {
			return env.implies1(x.X, !taken, at, atom, depth+1)
		}
	case *ast.Ident:
		if v, ok := env.fl.Obj(x).(*types.Var); ok {
			if d, isPlain := env.plain[v]; isPlain && env.fresh(v, at) {
				return env.implies1(d.rhs, taken, d.stmt, atom, depth+1)
			}
		}
	case *ast.BinaryExpr:
		switch x.Op {
		case token.LAND, token.LOR:
			a := env.implies1(x.X, taken, at, atom, depth+1)
			b := env.implies1(x.Y, taken, at, atom, depth+1)
			conj := (x.Op == token.LAND) == taken // the edge asserts both operands' (possibly negated) values
			if conj {
				return a || b
			}
			return a && b
		case token.EQL, token.NEQ, token.LSS, token.LEQ, token.GTR, token.GEQ:
			f, ok := env.cmp(x.X, x.Y, at)
			if !ok {
				return false
			}
			op := x.Op
			if !taken {
				op = c13Negate(op)
			}
			return atom(f, op)
		}
	}
	return false
}

// boundsOn: the comparison F OP 0 as a range of T (F must be ±T + k).
func c13BoundsOn(f c13Aff, op token.Token, t c13Aff) (c13Range, bool) {
	m, k, ok := f.over(t)
	if !ok {
		return c13Range{}, false
	}
	return c13RangeOf(m, k, op)
}

// c13FromEntryAndEach: the obligation q (Exit / Events) holds from the function
// entry and again from every statement in `kills` (the facts have to be
// re-established after each of them). Returns the escaping paths.
func c13FromEntryAndEach(fl *core.Flow, kills []ast.Node, q core.Query) (esc []core.Escape, sites int) {
	q.Start = nil
	e, n := fl.Escapes(q)
	esc, sites = append(esc, e...), sites+n
	isKill := map[ast.Node]bool{}
	for _, kn := range kills {
		isKill[kn] = true
	}
	e2, n2, _ := c13FromEach(fl, func(n ast.Node) bool { return isKill[n] }, q)
	return append(esc, e2...), sites + n2
}

func c13EscText(esc []core.Escape) string {
	var lines []string
	for _, e := range esc {
		lines = append(lines, e.String())
	}
	return strings.Join(lines, "\n")
}
