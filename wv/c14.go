package main

// C14 — RAC random access equals slicing the full decode, single-threaded or
// concurrent. Equality with an in-memory reader, deadlock freedom, goroutine
// leaks and race freedom under every schedule are NOT decided (they need a model
// of the interleavings: a different technique family). What is decided are the
// structural necessary conditions of the cursor and of the cancel protocol that
// the four repaired concurrent-reader defects (6bcb5b1, ccff8b7, 0ceccbb,
// 6fda84f in /repo) and two independently seeded changes violated: each rule
// names the behaviour that breaks when it is violated.
//
// Rule families (anchor lib/rac):
//   K.spawn / K.unbuffered / K.ack   the stop/ack handshake counts every goroutine exactly once
//   K.cancel.reset / .reclaim        a cancel returns Manager and Workers to their initial select state
//   K.roi                            whatever changes the region of interest un-resolves the seek
//   K.errkey / K.errpos / K.recheck  an error work is filed where Read will look for it, and Read re-checks a new work
//   K.intersect                      the Manager hands out only the part of a chunk inside the region of interest
//   Q.limit / Q.reset / Q.clamp      single-goroutine cursor: every seek installs the new limit, a moved cursor
//                                    returns to state A, Read never copies past the limit

import (
	"fmt"
	"go/ast"
	"go/token"
	"go/types"
	"strings"

	"wv/core"
)

const c14Rac = "lib/rac"

func init() {
	register("C14", core.Spec{
		Decides:     "structural necessary conditions of C14 only, for every call sequence and schedule: (K.spawn, K.unbuffered, K.ack) the stop/ack handshake of the concurrent reader is sent once per spawned goroutine over unbuffered channels and every goroutine acknowledges before it returns or goes on; (K.cancel.*) on a cancel the Manager and every Worker re-assign their select-state variables to the values they had before the loop and a Worker keeps the buffer of an unsent work; (K.roi) concReader.seek un-resolves the seek whenever it changes a field that Read sends as the region of interest; (K.errkey, K.errpos, K.recheck) an error-only unit of work carries the position at which Read will look it up and Read re-examines a newly fetched work before touching its buffer; (K.intersect) work ranges are chunk ranges intersected with the region of interest; (Q.*) in the single-goroutine Reader every successful seek installs the new high limit, a seek that moves the cursor resets the chunk cursor to state A after SeekToChunkContaining succeeded, and Read clamps its buffer to the limit",
		NotDecided:  "the property as a whole: equality of positions, byte counts, bytes and EOF behaviour with an in-memory reader (value-level: chunk cursor arithmetic, findChunkContaining), and deadlock freedom, absence of goroutine leaks and absence of data races under all schedules (needs an interleaving model). Passing these rules does not show that the protocol is correct; violating any one of them breaks it",
		Assumptions: []string{"go/types, go/cfg (x/tools v0.29.0); go/cfg's select lowering (comm statements evaluated before the clause bodies)", "the goroutine bodies are runRWorker and runRManager with one labelled select loop each; any other shape is reported as undecided"},
	}, runC14)
}

type c14x struct {
	c *core.Ctx
	k *gctx
}

func runC14(c *core.Ctx) {
	k := newG(c, "./lib/rac")
	x := &c14x{c, k}
	x.handshake()
	x.cancel()
	x.roi()
	x.errWorks()
	x.cursor()
	x.leafAssign()
	x.leafUse()
}

// ---------- small helpers ----------

func (x *c14x) field(typeName, field string) *types.Var {
	o := x.k.obj("anchors", c14Rac, typeName)
	if o == nil {
		return nil
	}
	f := core.LookupField(o, field)
	if f == nil {
		x.c.Undecided("anchors", c14Rac+"."+typeName+"."+field, "anchor field exists", "field not found")
	}
	return f
}

// strip removes parentheses and conversions.
func c14Strip(info *types.Info, e ast.Expr) ast.Expr {
	for {
		e = ast.Unparen(e)
		call, ok := e.(*ast.CallExpr)
		if !ok || len(call.Args) != 1 {
			return e
		}
		if tv, ok := info.Types[call.Fun]; ok && tv.IsType() {
			e = call.Args[0]
			continue
		}
		return e
	}
}

// sameInit: two expressions denote the same initial value: the same object
// (a channel parameter), nil (possibly converted), or the zero composite
// literal of the same type.
func c14SameInit(fl *core.Flow, a, b ast.Expr) bool {
	info := fl.F.Info()
	a, b = c14Strip(info, a), c14Strip(info, b)
	if core.IsNilIdent(info, a) || core.IsNilIdent(info, b) {
		return core.IsNilIdent(info, a) && core.IsNilIdent(info, b)
	}
	la, oka := a.(*ast.CompositeLit)
	lb, okb := b.(*ast.CompositeLit)
	if oka || okb {
		if !(oka && okb) || len(la.Elts) != 0 || len(lb.Elts) != 0 {
			return false
		}
		return types.Identical(info.TypeOf(la), info.TypeOf(lb))
	}
	oa, ob := fl.Obj(a), fl.Obj(b)
	return oa != nil && oa == ob
}

// assigns reports the right-hand side that statement n assigns to local obj
// (nil, false if n does not assign obj with a plain = or :=).
func c14Assigns(fl *core.Flow, n ast.Node, obj types.Object) (ast.Expr, bool) {
	as, ok := n.(*ast.AssignStmt)
	if !ok || (as.Tok != token.ASSIGN && as.Tok != token.DEFINE) || len(as.Lhs) != len(as.Rhs) {
		return nil, false
	}
	for i, l := range as.Lhs {
		if id, ok := ast.Unparen(l).(*ast.Ident); ok && fl.Obj(id) == obj {
			return as.Rhs[i], true
		}
	}
	return nil, false
}

// selectLoop finds the outermost `for { select { … } }` of a goroutine body.
func c14SelectLoop(fl *core.Flow) (*ast.ForStmt, *ast.SelectStmt) {
	var fs *ast.ForStmt
	var ss *ast.SelectStmt
	for _, st := range fl.F.Decl.Body.List {
		s := st
		if l, ok := s.(*ast.LabeledStmt); ok {
			s = l.Stmt
		}
		f, ok := s.(*ast.ForStmt)
		if !ok || f.Cond != nil || len(f.Body.List) == 0 {
			continue
		}
		if sel, ok := f.Body.List[0].(*ast.SelectStmt); ok {
			fs, ss = f, sel
			break
		}
	}
	return fs, ss
}

// recvClause finds the comm clause `v := <-ch` where ch is the given object.
func c14RecvClause(fl *core.Flow, ss *ast.SelectStmt, ch types.Object) (*ast.CommClause, *ast.Ident) {
	for _, cc := range ss.Body.List {
		cl := cc.(*ast.CommClause)
		as, ok := cl.Comm.(*ast.AssignStmt)
		if !ok || len(as.Lhs) != 1 || len(as.Rhs) != 1 {
			continue
		}
		ue, ok := ast.Unparen(as.Rhs[0]).(*ast.UnaryExpr)
		if !ok || ue.Op != token.ARROW || fl.Obj(ue.X) != ch {
			continue
		}
		id, _ := as.Lhs[0].(*ast.Ident)
		return cl, id
	}
	return nil, nil
}

func (x *c14x) pos(p token.Pos) string { return x.k.g.Pos(p) }

// ---------- K.spawn, K.unbuffered, K.ack ----------

func (x *c14x) handshake() {
	c, k := x.c, x.k
	fNum := x.field("concReader", "numWorkers")
	fStopc := x.field("concReader", "stopc")
	fAckc := x.field("concReader", "ackc")
	worker := k.fn("K.spawn", c14Rac, "", "runRWorker")
	manager := k.fn("K.spawn", c14Rac, "", "runRManager")

	// isNumWorkers: e is recv.numWorkers
	isNum := func(fl *core.Flow) core.ExprPred {
		return func(e ast.Expr) bool { return core.FieldOf(fl.F.Info(), c14Strip(fl.F.Info(), e), fNum) }
	}
	// loopCount classifies `for i, n := 0, N; i < n; i++` / `for i := 0; i < N; i++`
	// and returns the bound expression N.
	loopBound := func(fl *core.Flow, fs *ast.ForStmt) ast.Expr {
		info := fl.F.Info()
		init, ok := fs.Init.(*ast.AssignStmt)
		if !ok || init.Tok != token.DEFINE || fs.Cond == nil || fs.Post == nil {
			return nil
		}
		inc, ok := fs.Post.(*ast.IncDecStmt)
		if !ok || inc.Tok != token.INC {
			return nil
		}
		iv := fl.Obj(inc.X)
		if iv == nil {
			return nil
		}
		// i starts at 0
		start, ok := c14Assigns(fl, init, iv)
		if v, isC := core.ConstInt64(info, start); !ok || !isC || v != 0 {
			return nil
		}
		be, ok := ast.Unparen(fs.Cond).(*ast.BinaryExpr)
		if !ok {
			return nil
		}
		var bound ast.Expr
		switch {
		case be.Op == token.LSS && fl.Obj(be.X) == iv:
			bound = be.Y
		case be.Op == token.GTR && fl.Obj(be.Y) == iv:
			bound = be.X
		default:
			return nil
		}
		// the body must not write i
		written := false
		ast.Inspect(fs.Body, func(n ast.Node) bool {
			if _, ok := c14Assigns(fl, n, iv); ok {
				written = true
			}
			if id, ok := n.(*ast.IncDecStmt); ok && fl.Obj(id.X) == iv {
				written = true
			}
			return true
		})
		if written {
			return nil
		}
		// bound through a loop-local `n`
		if bo := fl.Obj(bound); bo != nil {
			if rhs, ok := c14Assigns(fl, init, bo); ok {
				bound = rhs
			}
		}
		return bound
	}
	// linear form a + b*numWorkers of a bound expression
	var lin func(fl *core.Flow, e ast.Expr) (a, b int64, ok bool)
	lin = func(fl *core.Flow, e ast.Expr) (int64, int64, bool) {
		info := fl.F.Info()
		e = c14Strip(info, e)
		if v, ok := core.ConstInt64(info, e); ok {
			return v, 0, true
		}
		if isNum(fl)(e) {
			return 0, 1, true
		}
		if be, ok := e.(*ast.BinaryExpr); ok && (be.Op == token.ADD || be.Op == token.SUB) {
			a1, b1, ok1 := lin(fl, be.X)
			a2, b2, ok2 := lin(fl, be.Y)
			if ok1 && ok2 {
				if be.Op == token.ADD {
					return a1 + a2, b1 + b2, true
				}
				return a1 - a2, b1 - b2, true
			}
		}
		return 0, 0, false
	}

	// --- spawn count in initialize: a + b*numWorkers goroutines
	spawnA, spawnB, spawnOK := int64(0), int64(0), true
	if fl := k.flow("K.spawn", c14Rac, "concReader", "initialize"); fl != nil && worker != nil && manager != nil {
		info := fl.F.Info()
		var stack []ast.Node
		nGo := 0
		var bad []string
		ast.Inspect(fl.F.Decl.Body, func(n ast.Node) bool {
			if n == nil {
				stack = stack[:len(stack)-1]
				return true
			}
			stack = append(stack, n)
			g, ok := n.(*ast.GoStmt)
			if !ok {
				return true
			}
			nGo++
			callee := core.Callee(info, g.Call)
			if callee != worker && callee != manager {
				bad = append(bad, x.pos(g.Pos())+": go statement starts something other than runRWorker/runRManager")
				return true
			}
			// multiplicity: product of the enclosing counted loops
			a, b := int64(1), int64(0)
			for _, s := range stack {
				switch l := s.(type) {
				case *ast.ForStmt:
					bd := loopBound(fl, l)
					if bd == nil {
						bad = append(bad, x.pos(l.Pos())+": enclosing loop is not a counted loop from 0")
						continue
					}
					la, lb, ok := lin(fl, bd)
					if !ok || (b != 0 && lb != 0) {
						bad = append(bad, x.pos(l.Pos())+": loop bound is not a linear form in numWorkers")
						continue
					}
					a, b = a*la, a*lb+b*la
				case *ast.RangeStmt, *ast.IfStmt, *ast.SwitchStmt, *ast.SelectStmt:
					if _, isIf := s.(*ast.IfStmt); isIf {
						bad = append(bad, x.pos(s.Pos())+": goroutine started conditionally")
					} else {
						bad = append(bad, x.pos(s.Pos())+": goroutine started under an unclassified statement")
					}
				}
			}
			spawnA += a
			spawnB += b
			return true
		})
		if len(bad) > 0 {
			spawnOK = false
			c.Undecided("K.spawn", fl.F.Name(), "the number of goroutines started is a linear form in numWorkers", strings.Join(bad, "\n"))
		}
		c.Floor("K.spawn", "go statements in concReader.initialize", nGo, 2)

		// K.unbuffered: stopc and ackc are made without a capacity.
		for _, f := range []*types.Var{fStopc, fAckc} {
			if f == nil {
				continue
			}
			n := 0
			ast.Inspect(fl.F.Decl.Body, func(m ast.Node) bool {
				as, ok := m.(*ast.AssignStmt)
				if !ok || len(as.Lhs) != len(as.Rhs) {
					return true
				}
				for i, l := range as.Lhs {
					if !core.FieldOf(info, l, f) {
						continue
					}
					n++
					call, ok := ast.Unparen(as.Rhs[i]).(*ast.CallExpr)
					isMake := false
					if ok {
						if id, ok := call.Fun.(*ast.Ident); ok && id.Name == "make" && info.Uses[id] == types.Universe.Lookup("make") {
							isMake = true
						}
					}
					okUnbuf := isMake && len(call.Args) == 1
					if isMake && len(call.Args) == 2 {
						if v, isC := core.ConstInt64(info, call.Args[1]); isC && v == 0 {
							okUnbuf = true
						}
					}
					c.Check(okUnbuf, "K.unbuffered", fl.F.Name()+"["+f.Name()+"]",
						"the stop and ack channels are unbuffered, so that a completed send means the goroutine has received it (stopAnyWorkInProgress recycles buffers between the two rounds relying on that; a buffered channel lets Read re-use buffers a Worker is still filling)",
						1, x.pos(as.Pos())+": `"+core.Src(k.g.Fset, as)+"`")
				}
				return true
			})
			if n == 0 {
				c.Undecided("K.unbuffered", fl.F.Name()+"["+f.Name()+"]", "the channel is created in initialize", "no assignment found")
			}
		}
	}

	// --- stop / ack counts in stopAnyWorkInProgress
	if fl := k.flow("K.spawn", c14Rac, "concReader", "stopAnyWorkInProgress"); fl != nil && spawnOK {
		info := fl.F.Info()
		for _, f := range []*types.Var{fStopc, fAckc} {
			if f == nil {
				continue
			}
			ta, tb, n := int64(0), int64(0), 0
			var bad []string
			var stack []ast.Node
			ast.Inspect(fl.F.Decl.Body, func(m ast.Node) bool {
				if m == nil {
					stack = stack[:len(stack)-1]
					return true
				}
				stack = append(stack, m)
				send, ok := m.(*ast.SendStmt)
				if !ok || !core.FieldOf(info, send.Chan, f) {
					return true
				}
				n++
				a, b := int64(1), int64(0)
				for _, s := range stack {
					switch l := s.(type) {
					case *ast.ForStmt:
						bd := loopBound(fl, l)
						if bd == nil {
							bad = append(bad, x.pos(l.Pos())+": enclosing loop is not a counted loop from 0")
							continue
						}
						la, lb, ok := lin(fl, bd)
						if !ok {
							bad = append(bad, x.pos(l.Pos())+": loop bound is not a linear form in numWorkers")
							continue
						}
						a, b = a*la, a*lb+b*la
					case *ast.IfStmt, *ast.RangeStmt, *ast.SwitchStmt, *ast.SelectStmt:
						bad = append(bad, x.pos(s.Pos())+": conditional send")
					}
				}
				ta += a
				tb += b
				return true
			})
			anchor := fl.F.Name() + "[sends on " + f.Name() + "]"
			claim := "one " + f.Name() + " message is sent per goroutine started by initialize (" + fmt.Sprintf("%d + %d·numWorkers", spawnA, spawnB) + "): fewer leaves a goroutine running with stale work (or leaks it after Close), more blocks the caller forever on an unbuffered channel"
			if len(bad) > 0 || n == 0 {
				c.Undecided("K.spawn", anchor, claim, strings.Join(append(bad, fmt.Sprintf("%d send statements", n)), "\n"))
				continue
			}
			c.Check(ta == spawnA && tb == spawnB, "K.spawn", anchor, claim, n, fmt.Sprintf("%s: sends %d + %d·numWorkers messages", x.pos(fl.F.Decl.Pos()), ta, tb))
		}
	}

	// --- K.order: buffers are recycled while every goroutine is parked between its stop and its ack.
	if fl := k.flow("K.order", c14Rac, "concReader", "stopAnyWorkInProgress"); fl != nil {
		info := fl.F.Info()
		recycle := k.g.LookupMethod(c14Rac, "concReader", "recycleBuffers")
		isRecycle := func(n ast.Node) bool {
			return recycle != nil && core.Guaranteed(n, func(call *ast.CallExpr) bool { return core.IsCallTo(info, call, recycle) })
		}
		var stopLoop, ackLoop *ast.ForStmt
		for _, st := range fl.F.Decl.Body.List {
			fs, ok := st.(*ast.ForStmt)
			if !ok {
				continue
			}
			ast.Inspect(fs.Body, func(m ast.Node) bool {
				if send, ok := m.(*ast.SendStmt); ok {
					if core.FieldOf(info, send.Chan, fStopc) && stopLoop == nil {
						stopLoop = fs
					}
					if core.FieldOf(info, send.Chan, fAckc) && ackLoop == nil {
						ackLoop = fs
					}
				}
				return true
			})
		}
		keep := fl.Param(0)
		if stopLoop == nil || ackLoop == nil || recycle == nil {
			c.Undecided("K.order", fl.F.Name(), "the stop round, recycleBuffers and the ack round are found", "loop or method not found")
		} else {
			// (a) recycleBuffers only after the stop round is complete
			k.mustPass("K.order.after", fl.F.Name()+"[recycleBuffers after the stop round]",
				"buffers are recycled and the work channels drained only after every goroutine has received its stop message (the stop loop has run to completion): before that a Worker may still be filling a loaned buffer or queueing old work",
				fl, core.Query{Exit: isRecycle, Events: []core.Event{{Edge: func(cond ast.Expr, ci *core.CondInfo, taken bool) bool { return cond == stopLoop.Cond && !taken }}}})
			// (b) the ack round starts only after recycleBuffers (for a cancel)
			firstAck := ackLoop.Body.List[0]
			k.mustPass("K.order.before", fl.F.Name()+"[recycleBuffers before the ack round]",
				"on a cancel (keepWorking) the buffers are recycled and the request / response channels drained before the first ack is sent: a goroutine released by its ack may take an old-region request out of reqc before it is drained and deliver it after resc was drained, which files stale work under an old offset and leaves Read waiting forever for the next one",
				fl, core.Query{
					Exit:   func(n ast.Node) bool { return n.Pos() >= firstAck.Pos() && n.End() <= ackLoop.End() },
					Events: []core.Event{{Node: isRecycle}},
					Exempt: func(cond ast.Expr, ci *core.CondInfo, taken bool) bool {
						ce, neg := boolCond(cond)
						if neg {
							taken = !taken
						}
						return !taken && keep != nil && fl.Obj(ce) == keep // !keepWorking: a close, nothing to recycle
					},
				})
		}
	}

	// --- K.ack: both goroutines acknowledge before returning or carrying on.
	nAck, nExit := 0, 0
	for _, name := range []string{"runRWorker", "runRManager"} {
		fl := k.flow("K.ack", c14Rac, "", name)
		if fl == nil {
			continue
		}
		_, ss := c14SelectLoop(fl)
		if ss == nil {
			c.Undecided("K.ack", fl.F.Name(), "the goroutine body is one select loop", "no `for { select {…} }` at the top level")
			continue
		}
		stopc := fl.Param(0)
		cl, sv := c14RecvClause(fl, ss, stopc)
		if cl == nil || sv == nil {
			c.Undecided("K.ack", fl.F.Name(), "the select has a `stop := <-stopc` case", "not found")
			continue
		}
		info := fl.F.Info()
		stopObj := info.Defs[sv]
		stopT := k.obj("anchors", c14Rac, "stopWork")
		fA := core.LookupField(stopT, "ackc")
		isStopAck := func(e ast.Expr) bool {
			sel, ok := ast.Unparen(e).(*ast.SelectorExpr)
			return ok && info.Uses[sel.Sel] == fA && fl.Obj(sel.X) == stopObj
		}
		fK := core.LookupField(stopT, "keepWorking")
		isKeep := func(e ast.Expr) bool {
			sel, ok := ast.Unparen(e).(*ast.SelectorExpr)
			return ok && info.Uses[sel.Sel] == fK && fl.Obj(sel.X) == stopObj
		}
		nExit++
		k.mustPass("K.exit", fl.F.Name()+"[case stop]",
			"a goroutine goes back to its select loop after a stop message only when the message says keepWorking; on a close it returns (otherwise Close leaves the goroutine — and the ReadSeeker and buffers it references — alive: a goroutine leak)",
			fl, core.Query{
				Region: core.RegionOf(cl), FallOut: true,
				Start: func(n ast.Node) bool { return n == ast.Node(sv) },
				Events: []core.Event{{Edge: func(cond ast.Expr, ci *core.CondInfo, taken bool) bool {
					ce, neg := boolCond(cond)
					if neg {
						taken = !taken
					}
					return taken && isKeep(ce)
				}}},
			})
		nAck++
		k.mustPass("K.ack", fl.F.Name()+"[case stop]",
			"a goroutine that received a stop message receives from its ack channel (when there is one) before it returns or goes back to the select: stopAnyWorkInProgress sends exactly one ack per goroutine on an unbuffered channel and would block forever otherwise",
			fl, core.Query{
				Region: core.RegionOf(cl), FallOut: true,
				Start: func(n ast.Node) bool { return n == ast.Node(sv) },
				Exit:  func(n ast.Node) bool { _, ok := n.(*ast.ReturnStmt); return ok },
				Events: []core.Event{{Node: func(n ast.Node) bool {
					found := false
					ast.Inspect(n, func(m ast.Node) bool {
						if ue, ok := m.(*ast.UnaryExpr); ok && ue.Op == token.ARROW && isStopAck(ue.X) {
							found = true
						}
						return !found
					})
					_, isIf := n.(*ast.IfStmt)
					return found && !isIf
				}}},
				Exempt: func(cond ast.Expr, ci *core.CondInfo, taken bool) bool {
					// stop.ackc == nil: CloseWithoutWaiting, nothing to acknowledge
					ce, neg := boolCond(cond)
					if neg {
						taken = !taken
					}
					return (!taken && nilTest(fl, ce, isStopAck, false)) || (taken && nilTest(fl, ce, isStopAck, true))
				},
			})
	}
	c.Floor("K.ack", "goroutine bodies with a stop case", nAck, 2)
	c.Floor("K.exit", "goroutine bodies with a stop case", nExit, 2)
}

// ---------- K.cancel.reset, K.cancel.reclaim ----------

func (x *c14x) cancel() {
	c, k := x.c, x.k
	type row struct {
		fn   string
		vars []string
		why  map[string]string
	}
	rows := []row{
		{"runRWorker", []string{"input", "output", "outWork", "dRange"}, map[string]string{
			"input":   "a Worker that is not receiving requests after a cancel never picks up the new region's work",
			"output":  "a Worker that still offers its old outWork after a cancel hands Read a buffer of the previous region",
			"outWork": "stale work (and its buffer) must not be sent after the cancel",
			"dRange":  "a non-empty remaining dRange makes the Worker keep decoding the previous region into new buffers",
		}},
		{"runRManager", []string{"input", "output", "work"}, map[string]string{
			"input":  "a Manager that is not receiving on roic after a cancel blocks Read forever when it sends the new region of interest",
			"output": "a Manager that still offers work after a cancel keeps producing chunks of the previous region",
			"work":   "stale work must not be sent after the cancel",
		}},
	}
	nReset := 0
	for _, r := range rows {
		fl := k.flow("K.cancel.reset", c14Rac, "", r.fn)
		if fl == nil {
			continue
		}
		fs, ss := c14SelectLoop(fl)
		if ss == nil {
			c.Undecided("K.cancel.reset", fl.F.Name(), "the goroutine body is one select loop", "no `for { select {…} }` at the top level")
			continue
		}
		cl, sv := c14RecvClause(fl, ss, fl.Param(0))
		if cl == nil || sv == nil {
			c.Undecided("K.cancel.reset", fl.F.Name(), "the select has a `stop := <-stopc` case", "not found")
			continue
		}
		// locals declared before the loop, by name
		locals := map[string]types.Object{}
		inits := map[types.Object]ast.Expr{}
		for _, st := range fl.F.Decl.Body.List {
			if st.Pos() >= fs.Pos() {
				break
			}
			as, ok := st.(*ast.AssignStmt)
			if !ok || as.Tok != token.DEFINE || len(as.Lhs) != len(as.Rhs) {
				continue
			}
			for i, l := range as.Lhs {
				if id, ok := l.(*ast.Ident); ok {
					if o := fl.F.Info().Defs[id]; o != nil {
						locals[id.Name] = o
						inits[o] = as.Rhs[i]
					}
				}
			}
		}
		for _, vn := range r.vars {
			obj := locals[vn]
			anchor := fl.F.Name() + "[case stop: " + vn + "]"
			claim := "after acknowledging a cancel (keepWorking) the goroutine re-assigns `" + vn + "` to the value it had before the loop, on every path back to the select: " + r.why[vn]
			if obj == nil {
				c.Undecided("K.cancel.reset", anchor, claim, "no local `"+vn+"` is defined before the select loop")
				continue
			}
			init := inits[obj]
			nReset++
			// no assignment of a non-initial value inside the clause
			var stale []string
			ast.Inspect(cl, func(n ast.Node) bool {
				if rhs, ok := c14Assigns(fl, n, obj); ok && !c14SameInit(fl, rhs, init) {
					stale = append(stale, x.pos(n.Pos())+": `"+core.Src(k.g.Fset, n)+"` assigns something other than the initial value `"+core.Src(k.g.Fset, init)+"`")
				}
				return true
			})
			if len(stale) > 0 {
				c.Fail("K.cancel.reset", anchor, claim, len(stale), strings.Join(stale, "\n"))
				continue
			}
			k.mustPass("K.cancel.reset", anchor, claim, fl, core.Query{
				Region: core.RegionOf(cl), FallOut: true,
				Start: func(n ast.Node) bool { return n == ast.Node(sv) },
				Events: []core.Event{{Node: func(n ast.Node) bool {
					rhs, ok := c14Assigns(fl, n, obj)
					return ok && c14SameInit(fl, rhs, init)
				}}},
			})
		}
		// K.cancel.reclaim (Worker only): the buffer of an unsent outWork goes back to buffers.
		if r.fn == "runRWorker" {
			ow, bufs := locals["outWork"], locals["buffers"]
			anchor := fl.F.Name() + "[case stop: outWork.buffer]"
			claim := "a Worker cancelled while it holds an unsent outWork puts that work's buffer back into its own pool before dropping the work: a Worker owns at most numRBuffersPerWorker buffers and never allocates beyond that, so every dropped buffer is lost for good and after two such cancels the Worker waits for a recycled buffer that cannot come (Read blocks forever)"
			if ow == nil || bufs == nil {
				c.Undecided("K.cancel.reclaim", anchor, claim, "locals outWork / buffers not found before the loop")
			} else {
				info := fl.F.Info()
				isOWBuf := func(e ast.Expr) bool {
					sel, ok := ast.Unparen(e).(*ast.SelectorExpr)
					return ok && sel.Sel.Name == "buffer" && fl.Obj(sel.X) == ow
				}
				// the if statement `outWork.buffer != nil { … buffers[_] = outWork.buffer … }`
				var guard *ast.IfStmt
				ast.Inspect(cl, func(n ast.Node) bool {
					is, ok := n.(*ast.IfStmt)
					if !ok || guard != nil || !nilTest(fl, is.Cond, isOWBuf, false) {
						return true
					}
					stores := false
					ast.Inspect(is.Body, func(m ast.Node) bool {
						as, ok := m.(*ast.AssignStmt)
						if !ok || len(as.Lhs) != len(as.Rhs) {
							return true
						}
						for i, l := range as.Lhs {
							ix, ok := ast.Unparen(l).(*ast.IndexExpr)
							if ok && fl.Obj(ix.X) == bufs && isOWBuf(as.Rhs[i]) {
								stores = true
							}
						}
						return true
					})
					if stores {
						guard = is
					}
					return true
				})
				_ = info
				if guard == nil {
					c.Fail("K.cancel.reclaim", anchor, claim, 1, x.pos(cl.Pos())+": the stop case has no `if outWork.buffer != nil { … buffers[i] = outWork.buffer … }`")
				} else {
					// every path from the clause start to a reset of outWork evaluates that guard
					k.mustPass("K.cancel.reclaim", anchor, claim, fl, core.Query{
						Region: core.RegionOf(cl),
						Start:  func(n ast.Node) bool { return n == ast.Node(sv) },
						Exit: func(n ast.Node) bool {
							_, ok := c14Assigns(fl, n, ow)
							return ok
						},
						Events: []core.Event{{Node: func(n ast.Node) bool { return n == ast.Node(guard.Cond) }}},
					})
				}
			}
		}
	}
	c.Floor("K.cancel.reset", "select-state variables checked", nReset, 7)
}

// ---------- K.roi ----------

func (x *c14x) roi() {
	c, k := x.c, x.k
	fRoic := x.field("concReader", "roic")
	fRes := x.field("concReader", "seekResolved")
	crObj := k.obj("anchors", c14Rac, "concReader")
	rd := k.flow("K.roi", c14Rac, "concReader", "Read")
	if rd == nil || fRoic == nil || fRes == nil || crObj == nil {
		return
	}
	// fields of the receiver mentioned in the value sent on roic
	var roiFields []*types.Var
	info := rd.F.Info()
	nSend := 0
	ast.Inspect(rd.F.Decl.Body, func(n ast.Node) bool {
		send, ok := n.(*ast.SendStmt)
		if !ok || !core.FieldOf(info, send.Chan, fRoic) {
			return true
		}
		nSend++
		ast.Inspect(send.Value, func(m ast.Node) bool {
			if sel, ok := m.(*ast.SelectorExpr); ok && rd.Obj(sel.X) == rd.Recv() {
				if f, ok := info.Uses[sel.Sel].(*types.Var); ok && f.IsField() {
					roiFields = append(roiFields, f)
				}
			}
			return true
		})
		return true
	})
	c.Floor("K.roi", "fields of concReader sent as the region of interest", len(roiFields), 2)
	if nSend != 1 {
		c.Undecided("K.roi", rd.F.Name(), "Read sends the region of interest in one place", fmt.Sprintf("%d send statements on roic", nSend))
		return
	}
	isROI := func(info *types.Info, e ast.Expr) *types.Var {
		for _, f := range roiFields {
			if core.FieldOf(info, e, f) {
				return f
			}
		}
		return nil
	}
	// Every method of concReader: stores to a ROI field.
	p := k.g.Pkg(c14Rac)
	nStores := 0
	for _, f := range k.g.AllFuncs(p) {
		fl := core.NewFlow(f)
		if fl.Recv() == nil || !c15IsNamed(fl.Recv().Type(), crObj) {
			continue
		}
		finfo := f.Info()
		var stores []ast.Node
		ast.Inspect(f.Decl.Body, func(n ast.Node) bool {
			switch s := n.(type) {
			case *ast.AssignStmt:
				for _, l := range s.Lhs {
					if isROI(finfo, l) != nil {
						stores = append(stores, s)
					}
				}
			case *ast.IncDecStmt:
				if isROI(finfo, s.X) != nil {
					stores = append(stores, s)
				}
			}
			return true
		})
		if len(stores) == 0 {
			continue
		}
		name := f.Decl.Name.Name
		switch name {
		case "initialize":
			// before any goroutine exists and before the first Read; seekResolved is still false
			ok := true
			for _, s := range stores {
				if core.AnyCall(f.Decl.Body, func(*ast.CallExpr) bool { return false }) {
					ok = false
				}
				_ = s
			}
			// no store to seekResolved = true in initialize
			ast.Inspect(f.Decl.Body, func(n ast.Node) bool {
				if as, ok2 := n.(*ast.AssignStmt); ok2 {
					for i, l := range as.Lhs {
						if core.FieldOf(finfo, l, fRes) && i < len(as.Rhs) {
							if tv := finfo.Types[as.Rhs[i]]; tv.Value != nil && tv.Value.String() == "true" {
								ok = false
							}
						}
					}
				}
				return true
			})
			c.Check(ok, "K.roi", f.Name(), "initialize sets the initial region of interest while the seek is still unresolved (seekResolved is never set there)", len(stores), x.pos(f.Decl.Pos()))
			nStores += len(stores)
		case "Read":
			// Read advances pos by what it hands out: that is consumption of the current region, not a new region.
			for _, s := range stores {
				nStores++
				as, ok := s.(*ast.AssignStmt)
				okAdv := ok && as.Tok == token.ADD_ASSIGN
				c.Check(okAdv, "K.roi", f.Name()+"[consumption]", "Read changes a region-of-interest field only by advancing it by the number of bytes it copied out", 1, x.pos(s.Pos())+": `"+core.Src(k.g.Fset, s)+"`")
			}
		default:
			for _, s := range stores {
				nStores++
				st := s
				var fld *types.Var
				if as, ok := st.(*ast.AssignStmt); ok {
					for _, l := range as.Lhs {
						if v := isROI(finfo, l); v != nil {
							fld = v
						}
					}
				}
				fname := "?"
				if fld != nil {
					fname = fld.Name()
				}
				anchor := f.Name() + "[store to " + fname + "]"
				claim := "a method that changes `" + fname + "` — part of the region of interest the Manager and Workers were given — has marked the seek unresolved when it returns, so that the next Read cancels the work in progress and sends the new region (otherwise raising the limit blocks Read forever once the old region is used up, and lowering it returns bytes past the new limit)"
				unresolve := core.Event{Node: func(n ast.Node) bool {
					as, ok := n.(*ast.AssignStmt)
					if !ok || len(as.Lhs) != len(as.Rhs) {
						return false
					}
					for i, l := range as.Lhs {
						if core.FieldOf(finfo, l, fRes) {
							if tv := finfo.Types[as.Rhs[i]]; tv.Value != nil && tv.Value.String() == "false" {
								return true
							}
						}
					}
					return false
				}}
				// the value being stored (for the "unchanged" edge)
				var stored ast.Expr
				if as, ok := st.(*ast.AssignStmt); ok && as.Tok == token.ASSIGN && len(as.Lhs) == len(as.Rhs) {
					for i, l := range as.Lhs {
						if isROI(finfo, l) == fld {
							stored = as.Rhs[i]
						}
					}
				}
				// (after) every path from the store to a return un-resolves the seek, or
				// (before) every path that reaches the store has un-resolved it already or
				// knows that the stored value equals the field (nothing changes).
				escA, nA := fl.Escapes(core.Query{
					Start:   func(n ast.Node) bool { return n == st },
					Exit:    func(n ast.Node) bool { _, ok := n.(*ast.ReturnStmt); return ok },
					FuncEnd: true,
					Events:  []core.Event{unresolve},
				})
				if len(escA) == 0 {
					c.Pass("K.roi", anchor, claim, nA, x.pos(st.Pos())+": un-resolved on every path after the store")
					continue
				}
				sameVal := core.Event{Edge: func(cond ast.Expr, ci *core.CondInfo, taken bool) bool {
					if stored == nil || fld == nil {
						return false
					}
					so := fl.Obj(c14Strip(finfo, stored))
					if so == nil {
						return false
					}
					ce, neg := boolCond(cond)
					if neg {
						taken = !taken
					}
					return eqTest(fl, ce, func(e ast.Expr) bool { return core.FieldOf(finfo, e, fld) }, func(e ast.Expr) bool { return fl.Obj(c14Strip(finfo, e)) == so }, taken)
				}}
				escB, nB := fl.Escapes(core.Query{
					Exit:   func(n ast.Node) bool { return n == st },
					Events: []core.Event{unresolve, sameVal},
				})
				// no later re-resolution in this method
				reResolved := false
				ast.Inspect(f.Decl.Body, func(n ast.Node) bool {
					if as, ok := n.(*ast.AssignStmt); ok && len(as.Lhs) == len(as.Rhs) {
						for i, l := range as.Lhs {
							if core.FieldOf(finfo, l, fRes) {
								if tv := finfo.Types[as.Rhs[i]]; tv.Value == nil || tv.Value.String() != "false" {
									reResolved = true
								}
							}
						}
					}
					return true
				})
				if len(escB) == 0 && !reResolved {
					c.Pass("K.roi", anchor, claim, nA+nB, x.pos(st.Pos())+": un-resolved (or value known unchanged) on every path before the store")
					continue
				}
				var lines []string
				for _, e := range escA {
					lines = append(lines, "after the store: "+e.String())
				}
				for _, e := range escB {
					lines = append(lines, "before the store: "+e.String())
				}
				c.Fail("K.roi", anchor, claim, nA+nB, strings.Join(lines, "\n"))
			}
		}
	}
	c.Floor("K.roi.stores", "stores to region-of-interest fields in concReader methods", nStores, 4)
}

// ---------- K.errkey, K.errpos, K.recheck, K.intersect ----------

func (x *c14x) errWorks() {
	c, k := x.c, x.k
	workT := k.obj("anchors", c14Rac, "rWork")
	if workT == nil {
		return
	}
	p := k.g.Pkg(c14Rac)
	// K.errkey: every rWork literal that sets err also sets dRange.
	nLit := 0
	for _, f := range k.g.AllFuncs(p) {
		info := f.Info()
		ast.Inspect(f.Decl.Body, func(n ast.Node) bool {
			lit, ok := n.(*ast.CompositeLit)
			if !ok || !c15IsNamed(info.TypeOf(lit), workT) {
				return true
			}
			hasErr, hasRange, positional := false, false, false
			for _, e := range lit.Elts {
				kv, ok := e.(*ast.KeyValueExpr)
				if !ok {
					positional = true
					continue
				}
				if id, ok := kv.Key.(*ast.Ident); ok {
					switch id.Name {
					case "err":
						if !core.IsNilIdent(info, kv.Value) {
							hasErr = true
						}
					case "dRange":
						hasRange = true
					}
				}
			}
			if positional {
				c.Undecided("K.errkey", f.Name(), "rWork literals use field names", x.pos(lit.Pos()))
				return true
			}
			if !hasErr {
				return true
			}
			nLit++
			c.Check(hasRange, "K.errkey", f.Name()+"[rWork literal with err]",
				"a unit of work that carries an error also carries a dRange: concReader files completed works under dRange[0] and looks them up by its own position, so an error filed under the zero position is never found and Read blocks forever",
				1, x.pos(lit.Pos())+": `"+core.Src(k.g.Fset, lit)+"`")
			return true
		})
	}
	c.Floor("K.errkey", "rWork literals that set err", nLit, 3)

	// K.errpos + K.intersect in runRManager.
	if fl := k.flow("K.errpos", c14Rac, "", "runRManager"); fl != nil {
		info := fl.F.Info()
		rangeT := k.obj("anchors", c14Rac, "Range")
		roic := fl.Param(1)
		_, ss := c14SelectLoop(fl)
		var roiVar types.Object
		if ss != nil {
			for _, cc := range ss.Body.List {
				cl := cc.(*ast.CommClause)
				as, ok := cl.Comm.(*ast.AssignStmt)
				if !ok || len(as.Rhs) != 1 {
					continue
				}
				ue, ok := ast.Unparen(as.Rhs[0]).(*ast.UnaryExpr)
				if !ok || ue.Op != token.ARROW {
					continue
				}
				// `roi = <-input` where input's initial value is roic
				src := fl.Obj(ue.X)
				isRoic := src == roic
				if !isRoic && src != nil {
					for _, d := range fl.Defs()[src] {
						if fl.Obj(d) == roic {
							isRoic = true
						}
					}
				}
				if isRoic {
					roiVar = fl.Obj(as.Lhs[0])
				}
			}
		}
		// error literals: the key they use
		var keyVars []types.Object
		type litInfo struct {
			lit    *ast.CompositeLit
			isErr  bool
			dRange ast.Expr
		}
		var lits []litInfo
		ast.Inspect(fl.F.Decl.Body, func(n ast.Node) bool {
			lit, ok := n.(*ast.CompositeLit)
			if !ok || !c15IsNamed(info.TypeOf(lit), workT) || len(lit.Elts) == 0 {
				return true
			}
			li := litInfo{lit: lit}
			for _, e := range lit.Elts {
				if kv, ok := e.(*ast.KeyValueExpr); ok {
					if id, ok := kv.Key.(*ast.Ident); ok {
						if id.Name == "err" && !core.IsNilIdent(info, kv.Value) {
							li.isErr = true
						}
						if id.Name == "dRange" {
							li.dRange = kv.Value
						}
					}
				}
			}
			lits = append(lits, li)
			return true
		})
		nErr, nWork := 0, 0
		for _, li := range lits {
			if li.dRange == nil {
				continue
			}
			if li.isErr {
				nErr++
				// dRange: Range{v, v} with v a local
				cl, ok := c14Strip(info, li.dRange).(*ast.CompositeLit)
				okShape := ok && rangeT != nil && c15IsNamed(info.TypeOf(cl), rangeT) && len(cl.Elts) == 2
				var v types.Object
				if okShape {
					v = fl.Obj(cl.Elts[0])
					okShape = v != nil && fl.Obj(cl.Elts[1]) == v
				}
				if !okShape {
					c.Undecided("K.errpos", fl.F.Name()+"[error work]", "an error work is keyed by Range{p, p} for a local position p", x.pos(li.lit.Pos())+": `"+core.Src(k.g.Fset, li.lit)+"`")
					continue
				}
				found := false
				for _, kv := range keyVars {
					if kv == v {
						found = true
					}
				}
				if !found {
					keyVars = append(keyVars, v)
				}
			}
		}
		if len(keyVars) != 1 {
			c.Undecided("K.errpos", fl.F.Name(), "the Manager's error works are keyed by one position variable", fmt.Sprintf("%d distinct key variables", len(keyVars)))
		} else if roiVar == nil {
			c.Undecided("K.errpos", fl.F.Name(), "the select has a `roi = <-input` case", "not found")
		} else {
			ep := keyVars[0]
			// (a) every definition of the key variable inside the loop is roi[0] or dr[1] for the dRange of a work literal
			isIndexOf := func(e ast.Expr, base func(types.Object) bool, ix int64) bool {
				ie, ok := c14Strip(info, e).(*ast.IndexExpr)
				if !ok {
					return false
				}
				v, isC := core.ConstInt64(info, ie.Index)
				return isC && v == ix && base(fl.Obj(ie.X))
			}
			workRanges := map[types.Object]bool{}
			for _, li := range lits {
				if !li.isErr && li.dRange != nil {
					if o := fl.Obj(li.dRange); o != nil {
						workRanges[o] = true
					}
				}
			}
			fs, _ := c14SelectLoop(fl)
			var badDefs []string
			nDefs := 0
			for _, d := range c15Defs(fl, ep) {
				if fs == nil || d.Node.Pos() < fs.Pos() {
					continue
				}
				nDefs++
				if d.Rhs == nil || !(isIndexOf(d.Rhs, func(o types.Object) bool { return o == roiVar }, 0) || isIndexOf(d.Rhs, func(o types.Object) bool { return workRanges[o] }, 1)) {
					badDefs = append(badDefs, x.pos(d.Node.Pos())+": `"+core.Src(k.g.Fset, d.Node)+"`")
				}
			}
			c.Check(len(badDefs) == 0 && nDefs >= 2, "K.errpos.def", fl.F.Name()+"["+ep.Name()+"]",
				"the position that keys an error work is only ever the start of the region of interest or the end of the last work handed out — where concReader.Read will be when it has consumed everything sent before the error",
				nDefs, strings.Join(badDefs, "\n"))
			// (b) after `roi = <-input`, the key is set from roi[0] before any error literal is built
			for _, cc := range ss.Body.List {
				cl := cc.(*ast.CommClause)
				as, ok := cl.Comm.(*ast.AssignStmt)
				if !ok || fl.Obj(as.Lhs[0]) != roiVar {
					continue
				}
				start := as.Lhs[0]
				k.mustPass("K.errpos.roi", fl.F.Name()+"[case roi]",
					"after a new region of interest arrives the error key is set to its start before any error work is built (a failed SeekToChunkContaining must be found at the position Read is waiting at)",
					fl, core.Query{
						Region: core.RegionOf(cl),
						Start:  func(n ast.Node) bool { return n == ast.Node(start) },
						Exit: func(n ast.Node) bool {
							hit := false
							ast.Inspect(n, func(m ast.Node) bool {
								for _, li := range lits {
									if li.isErr && m == ast.Node(li.lit) {
										hit = true
									}
								}
								return !hit
							})
							if _, isIf := n.(*ast.IfStmt); isIf {
								return false
							}
							return hit
						},
						Events: []core.Event{{Node: func(n ast.Node) bool {
							rhs, ok := c14Assigns(fl, n, ep)
							return ok && isIndexOf(rhs, func(o types.Object) bool { return o == roiVar }, 0)
						}}},
					})
			}
			// (c) after building a work with dRange dr, the key is set to dr[1] before going back to the select
			for _, li := range lits {
				if li.isErr || li.dRange == nil {
					continue
				}
				nWork++
				dr := fl.Obj(li.dRange)
				lit := li.lit
				anchor := fl.F.Name() + "[work literal]"
				if dr == nil {
					c.Undecided("K.errpos.work", anchor, "a work's dRange is a local range variable", x.pos(lit.Pos()))
					continue
				}
				k.mustPass("K.errpos.work", anchor,
					"after a unit of work is built the error key moves to the end of its range before the Manager goes back to the select (a later NextChunk error must be found after Read has consumed this work)",
					fl, core.Query{
						Start: func(n ast.Node) bool {
							hit := false
							ast.Inspect(n, func(m ast.Node) bool {
								if m == ast.Node(lit) {
									hit = true
								}
								return !hit
							})
							_, isIf := n.(*ast.IfStmt)
							return hit && !isIf
						},
						Exit: func(n ast.Node) bool {
							if b := fl.Branch(n); b != nil {
								return true
							}
							_, ok := n.(*ast.ReturnStmt)
							return ok
						},
						FuncEnd: true,
						Events: []core.Event{{Node: func(n ast.Node) bool {
							rhs, ok := c14Assigns(fl, n, ep)
							return ok && isIndexOf(rhs, func(o types.Object) bool { return o == dr }, 1)
						}}},
					})
				// K.intersect: dr is defined by <chunk range>.Intersect(roi) (either order) and the literal is under !dr.Empty()
				okInter := false
				defs := c15Defs(fl, dr)
				for _, d := range defs {
					call, ok := c14StripExpr(info, d.Rhs).(*ast.CallExpr)
					if !ok {
						okInter = false
						break
					}
					fn := core.Callee(info, call)
					if fn == nil || fn.Name() != "Intersect" || len(call.Args) != 1 {
						okInter = false
						break
					}
					a, b := core.RecvOf(call), call.Args[0]
					isRoi := func(e ast.Expr) bool { return fl.Obj(e) == roiVar }
					isChunkRange := func(e ast.Expr) bool {
						sel, ok := ast.Unparen(e).(*ast.SelectorExpr)
						return ok && sel.Sel.Name == "DRange"
					}
					okInter = (isRoi(a) && isChunkRange(b)) || (isRoi(b) && isChunkRange(a))
					if !okInter {
						break
					}
				}
				c.Check(okInter && len(defs) > 0, "K.intersect", anchor,
					"the range of a unit of work is the chunk's DRange intersected with the region of interest: a Worker decodes exactly what it is given and Read copies whole buffers, so a range that sticks out of the region makes Read return bytes beyond the SeekRange limit (or before the seek position)",
					len(defs), x.pos(lit.Pos())+": `"+core.Src(k.g.Fset, lit)+"`")
				k.mustPass("K.intersect.nonempty", anchor,
					"a unit of work is built only for a non-empty intersection (an empty work is filed under a position Read may already have passed and its Worker reports errInternalEmptyDRange)",
					fl, core.Query{
						Exit: func(n ast.Node) bool {
							hit := false
							ast.Inspect(n, func(m ast.Node) bool {
								if m == ast.Node(lit) {
									hit = true
								}
								return !hit
							})
							_, isIf := n.(*ast.IfStmt)
							return hit && !isIf
						},
						Events: []core.Event{{Edge: func(cond ast.Expr, ci *core.CondInfo, taken bool) bool {
							e, neg := boolCond(cond)
							call, ok := e.(*ast.CallExpr)
							if !ok {
								return false
							}
							fn := core.Callee(info, call)
							if fn == nil || fn.Name() != "Empty" || fl.Obj(core.RecvOf(call)) != dr {
								return false
							}
							return taken == neg // continue only when Empty() is false
						}}},
					})
			}
			c.Floor("K.errpos", "Manager error works", nErr, 2)
			c.Floor("K.intersect", "Manager work literals", nWork, 1)
		}
	}

	// K.recheck in concReader.Read
	if fl := k.flow("K.recheck", c14Rac, "concReader", "Read"); fl != nil {
		info := fl.F.Info()
		fCurr := x.field("concReader", "currWork")
		isCurrField := func(e ast.Expr, name string) bool {
			sel, ok := ast.Unparen(e).(*ast.SelectorExpr)
			return ok && sel.Sel.Name == name && core.FieldOf(info, sel.X, fCurr)
		}
		nAssign := 0
		ast.Inspect(fl.F.Decl.Body, func(n ast.Node) bool {
			as, ok := n.(*ast.AssignStmt)
			if !ok {
				return true
			}
			for _, l := range as.Lhs {
				if core.FieldOf(info, l, fCurr) {
					nAssign++
				}
			}
			return true
		})
		k.mustPass("K.recheck", fl.F.Name(),
			"after Read fetches a new unit of work it re-tests `currWork.i >= currWork.j` before it touches currWork.buffer: a new work may be an error with no buffer at all (from the Manager, or from a Worker whose SeekRange failed), and indexing its nil buffer panics instead of reporting the error",
			fl, core.Query{
				Start: func(n ast.Node) bool {
					as, ok := n.(*ast.AssignStmt)
					if !ok {
						return false
					}
					for _, l := range as.Lhs {
						if core.FieldOf(info, l, fCurr) {
							return true
						}
					}
					return false
				},
				Exit: func(n ast.Node) bool {
					if _, isIf := n.(*ast.IfStmt); isIf {
						return false
					}
					hit := false
					ast.Inspect(n, func(m ast.Node) bool {
						if e, ok := m.(ast.Expr); ok && isCurrField(e, "buffer") {
							hit = true
						}
						return !hit
					})
					return hit
				},
				Events: []core.Event{{Edge: func(cond ast.Expr, ci *core.CondInfo, taken bool) bool {
					ce, neg := boolCond(cond)
					if neg {
						taken = !taken
					}
					be, ok := ce.(*ast.BinaryExpr)
					if !ok {
						return false
					}
					iX, jX := isCurrField(be.X, "i"), isCurrField(be.X, "j")
					iY, jY := isCurrField(be.Y, "i"), isCurrField(be.Y, "j")
					// i < j holds on this edge
					switch {
					case iX && jY && be.Op == token.GEQ, jX && iY && be.Op == token.LEQ:
						return !taken
					case iX && jY && be.Op == token.LSS, jX && iY && be.Op == token.GTR:
						return taken
					}
					return false
				}}},
			})
		c.Floor("K.recheck", "assignments to currWork in concReader.Read", nAssign, 1)
	}
}

// c14NilErrReturn: a return statement whose last result is the literal nil.
func c14NilErrReturn(fl *core.Flow) func(n ast.Node) bool {
	return func(n ast.Node) bool {
		r, ok := n.(*ast.ReturnStmt)
		return ok && len(r.Results) > 0 && core.IsNilIdent(fl.F.Info(), r.Results[len(r.Results)-1])
	}
}

func c14StripExpr(info *types.Info, e ast.Expr) ast.Expr {
	if e == nil {
		return nil
	}
	return c14Strip(info, e)
}

// ---------- Q.limit, Q.reset, Q.clamp ----------

func (x *c14x) cursor() {
	c, k := x.c, x.k
	// Q.limit: both seek implementations install the new limit on every success path.
	type row struct{ recv, field string }
	nLim := 0
	for _, r := range []row{{"Reader", "posLimit"}, {"concReader", "posLimit"}} {
		fl := k.flow("Q.limit", c14Rac, r.recv, "seek")
		if fl == nil {
			continue
		}
		info := fl.F.Info()
		f := x.field(r.recv, r.field)
		limit := fl.Param(2)
		if f == nil || limit == nil {
			continue
		}
		isLimitVal := func(e ast.Expr) bool { return fl.Obj(c14Strip(info, e)) == limit }
		isField := func(e ast.Expr) bool { return core.FieldOf(info, e, f) }
		nLim++
		q := core.Query{
			Exit:    c14NilErrReturn(fl),
			FuncEnd: true,
			Events: []core.Event{
				{Node: func(n ast.Node) bool {
					as, ok := n.(*ast.AssignStmt)
					if !ok || as.Tok != token.ASSIGN || len(as.Lhs) != len(as.Rhs) {
						return false
					}
					for i, l := range as.Lhs {
						if isField(l) && isLimitVal(as.Rhs[i]) {
							return true
						}
					}
					return false
				}},
				{Edge: func(cond ast.Expr, ci *core.CondInfo, taken bool) bool {
					// posLimit == limit already
					ce, neg := boolCond(cond)
					if neg {
						taken = !taken
					}
					return eqTest(fl, ce, isField, isLimitVal, taken)
				}},
			},
		}
		if r.recv == "Reader" {
			// the delegation to the concurrent reader is its own instance
			conc := x.field("Reader", "concReader")
			q.Exempt = func(cond ast.Expr, ci *core.CondInfo, taken bool) bool {
				call, ok := ast.Unparen(cond).(*ast.CallExpr)
				if !ok || !taken {
					return false
				}
				fn := core.Callee(info, call)
				return fn != nil && fn.Name() == "ready" && core.FieldOf(info, core.RecvOf(call), conc)
			}
		}
		k.mustPass("Q.limit", fl.F.Name(),
			"every successful seek installs the high limit it was given (Seek passes 'no limit'): 'Any Seek call, such as Seek(0, io.SeekCurrent), will remove the high limit' and 'multiple SeekRange calls apply the most recent high limit' — a success path that skips the store keeps reading to (or stopping at) the previous limit, unlike the in-memory reader",
			fl, q)
	}
	c.Floor("Q.limit", "seek implementations", nLim, 2)

	// Q.reset: Reader.seek, when it moves the cursor.
	if fl := k.flow("Q.reset", c14Rac, "Reader", "seek"); fl != nil {
		info := fl.F.Info()
		fPos := x.field("Reader", "pos")
		fDR := x.field("Reader", "dRange")
		fDec := x.field("Reader", "decompressor")
		fZ := x.field("Reader", "inImplicitZeroes")
		var store *ast.AssignStmt
		nStore := 0
		ast.Inspect(fl.F.Decl.Body, func(n ast.Node) bool {
			if as, ok := n.(*ast.AssignStmt); ok {
				for _, l := range as.Lhs {
					if core.FieldOf(info, l, fPos) {
						store = as
						nStore++
					}
				}
			}
			return true
		})
		if nStore != 1 {
			c.Undecided("Q.reset", fl.F.Name(), "Reader.seek stores the new position in one place", fmt.Sprintf("%d stores to pos", nStore))
		} else {
			newPos := fl.Obj(store.Rhs[0])
			isNewPos := func(e ast.Expr) bool { return newPos != nil && fl.Obj(c14Strip(info, e)) == newPos }
			type need struct {
				what string
				ev   func(n ast.Node) bool
			}
			assignTo := func(match func(l ast.Expr) bool, val func(r ast.Expr) bool) func(n ast.Node) bool {
				return func(n ast.Node) bool {
					as, ok := n.(*ast.AssignStmt)
					if !ok || as.Tok != token.ASSIGN || len(as.Lhs) != len(as.Rhs) {
						return false
					}
					for i, l := range as.Lhs {
						if match(l) && val(as.Rhs[i]) {
							return true
						}
					}
					return false
				}
			}
			drIx := func(ix int64) func(ast.Expr) bool {
				return func(l ast.Expr) bool {
					ie, ok := ast.Unparen(l).(*ast.IndexExpr)
					if !ok || !core.FieldOf(info, ie.X, fDR) {
						return false
					}
					v, isC := core.ConstInt64(info, ie.Index)
					return isC && v == ix
				}
			}
			isFalse := func(e ast.Expr) bool {
				tv := info.Types[e]
				return tv.Value != nil && tv.Value.String() == "false"
			}
			needs := []need{
				{"dRange[0] = pos", assignTo(drIx(0), isNewPos)},
				{"dRange[1] = pos", assignTo(drIx(1), isNewPos)},
				{"decompressor = nil", assignTo(func(l ast.Expr) bool { return core.FieldOf(info, l, fDec) }, func(r ast.Expr) bool { return core.IsNilIdent(info, r) })},
				{"inImplicitZeroes = false", assignTo(func(l ast.Expr) bool { return core.FieldOf(info, l, fZ) }, isFalse)},
			}
			for _, nd := range needs {
				k.mustPass("Q.reset", fl.F.Name()+"["+nd.what+"]",
					"a seek that moves the cursor returns the chunk cursor to state A (`"+nd.what+"`) before it reports success: otherwise the next Read continues with the previous chunk's decompressor, zero run or window and returns bytes of the old position",
					fl, core.Query{
						Start:   func(n ast.Node) bool { return n == ast.Node(store) },
						Exit:    c14NilErrReturn(fl),
						FuncEnd: true,
						Events:  []core.Event{{Node: nd.ev}},
					})
			}
			// the chunk reader is positioned (and succeeded) before pos is stored
			seekTo := k.g.LookupMethod(c14Rac, "ChunkReader", "SeekToChunkContaining")
			k.passChecked("Q.reset.chunk", fl.F.Name()+"[pos = …]",
				"the new position is stored only after chunkReader.SeekToChunkContaining(pos) succeeded, so that state A's next NextChunk yields the chunk containing pos",
				fl, core.Query{
					Exit: func(n ast.Node) bool { return n == ast.Node(store) },
					Exempt: func(cond ast.Expr, ci *core.CondInfo, taken bool) bool {
						return false
					},
				},
				func(call *ast.CallExpr) bool {
					return seekTo != nil && core.IsCallTo(info, call, seekTo) && len(call.Args) == 1 && isNewPos(call.Args[0])
				})
		}
	}

	// Q.window: nextChunk installs the whole chunk's DRange and nothing else.
	if fl := k.flow("Q.window", c14Rac, "Reader", "nextChunk"); fl != nil {
		info := fl.F.Info()
		fDR := x.field("Reader", "dRange")
		next := k.g.LookupMethod(c14Rac, "ChunkReader", "NextChunk")
		chunkVars := fl.VarsDenoting(func(e ast.Expr) bool {
			call, ok := ast.Unparen(e).(*ast.CallExpr)
			return ok && next != nil && core.IsCallTo(info, call, next)
		})
		isChunkDRange := func(e ast.Expr) bool {
			sel, ok := ast.Unparen(e).(*ast.SelectorExpr)
			return ok && sel.Sel.Name == "DRange" && anyOf(fl, chunkVars)(sel.X)
		}
		var bad []string
		nStores := 0
		isWholeStore := func(n ast.Node) bool {
			as, ok := n.(*ast.AssignStmt)
			if !ok || as.Tok != token.ASSIGN || len(as.Lhs) != len(as.Rhs) {
				return false
			}
			for i, l := range as.Lhs {
				if core.FieldOf(info, l, fDR) && isChunkDRange(as.Rhs[i]) {
					return true
				}
			}
			return false
		}
		ast.Inspect(fl.F.Decl.Body, func(n ast.Node) bool {
			touches := func(e ast.Expr) bool {
				e = ast.Unparen(e)
				if ie, ok := e.(*ast.IndexExpr); ok {
					e = ie.X
				}
				return core.FieldOf(info, e, fDR)
			}
			switch st := n.(type) {
			case *ast.AssignStmt:
				for _, l := range st.Lhs {
					if touches(l) {
						nStores++
						if !isWholeStore(st) {
							bad = append(bad, x.pos(st.Pos())+": `"+core.Src(k.g.Fset, st)+"` changes the window to something other than the chunk's whole DRange")
						}
					}
				}
			case *ast.IncDecStmt:
				if touches(st.X) {
					nStores++
					bad = append(bad, x.pos(st.Pos())+": `"+core.Src(k.g.Fset, st)+"`")
				}
			}
			return true
		})
		c.Check(len(bad) == 0 && nStores > 0, "Q.window.only", fl.F.Name(), "nextChunk (state A → state B) sets the window dRange to the new chunk's whole DRange and to nothing else: the decompressor it installs starts at the chunk's first byte and yields dRange.Size() bytes, and readExplicitData discards up to pos; a window that starts later than the decompressor makes the chunk look too large (\"invalid chunk (too large)\") or returns shifted bytes", nStores, strings.Join(bad, "\n"))
		k.mustPass("Q.window.set", fl.F.Name()+"[return nil]", "every successful nextChunk has installed the chunk's DRange as the window", fl, core.Query{
			Exit: c14NilErrReturn(fl), FuncEnd: true, Events: []core.Event{{Node: isWholeStore}}})
	}

	// Q.close: closing a Reader always shuts the concurrent machinery down.
	if fl := k.flow("Q.close", c14Rac, "Reader", "close"); fl != nil {
		info := fl.F.Info()
		conc := x.field("Reader", "concReader")
		closed := x.field("Reader", "closed")
		isShutdown := func(call *ast.CallExpr) bool {
			fn := core.Callee(info, call)
			return fn != nil && (fn.Name() == "Close" || fn.Name() == "CloseWithoutWaiting") && core.FieldOf(info, core.RecvOf(call), conc)
		}
		k.mustPass("Q.close", fl.F.Name(),
			"every path through Reader.close — other than the already-closed early return — calls concReader.Close or CloseWithoutWaiting: the closed flag is set first, so a path that returns without it (for example because a sticky error is pending) can never shut the Manager and Worker goroutines down (a goroutine leak after Close)",
			fl, core.Query{
				Exit:    func(n ast.Node) bool { _, ok := n.(*ast.ReturnStmt); return ok },
				FuncEnd: true,
				Events:  []core.Event{{Node: func(n ast.Node) bool { return core.Guaranteed(n, isShutdown) }}},
				Exempt: func(cond ast.Expr, ci *core.CondInfo, taken bool) bool {
					ce, neg := boolCond(cond)
					if neg {
						taken = !taken
					}
					return taken && core.FieldOf(info, ce, closed) // already closed
				},
			})
	}

	// Q.clamp: Reader.Read never copies past posLimit.
	if fl := k.flow("Q.clamp", c14Rac, "Reader", "Read"); fl != nil {
		info := fl.F.Info()
		fPos := x.field("Reader", "pos")
		fLim := x.field("Reader", "posLimit")
		p := fl.Param(0)
		// the reslice `p = p[:n]`
		var clamp *ast.AssignStmt
		ast.Inspect(fl.F.Decl.Body, func(n ast.Node) bool {
			as, ok := n.(*ast.AssignStmt)
			if !ok || len(as.Lhs) != 1 || len(as.Rhs) != 1 || fl.Obj(as.Lhs[0]) != p {
				return true
			}
			se, ok := ast.Unparen(as.Rhs[0]).(*ast.SliceExpr)
			if ok && fl.Obj(se.X) == p && se.Low == nil && se.High != nil && clamp == nil {
				clamp = as
			}
			return true
		})
		anchor := fl.F.Name() + "[p = p[:limit-pos]]"
		claim := "before the copy loop Read shortens its buffer to posLimit - pos whenever the buffer is longer (the loop hands whole decompressor reads to the caller, so without the clamp a SeekRange'd Reader returns bytes beyond its high limit)"
		if clamp == nil {
			c.Fail("Q.clamp", anchor, claim, 1, x.pos(fl.F.Decl.Pos())+": no `p = p[:n]` re-slice in Reader.Read")
		} else {
			// n is posLimit - pos
			se := ast.Unparen(clamp.Rhs[0]).(*ast.SliceExpr)
			isDiff := func(e ast.Expr) bool {
				be, ok := c14Strip(info, e).(*ast.BinaryExpr)
				return ok && be.Op == token.SUB && core.FieldOf(info, be.X, fLim) && core.FieldOf(info, be.Y, fPos)
			}
			okN := fl.Denotes(isDiff)(se.High)
			c.Check(okN, "Q.clamp.value", anchor, "the clamp length is posLimit - pos", 1, x.pos(clamp.Pos())+": `"+core.Src(k.g.Fset, clamp)+"`")
			// every path from entry (single-goroutine part) to the first for loop passes the guard `len(p) > n` evaluation
			var loop *ast.ForStmt
			for _, st := range fl.F.Decl.Body.List {
				if f, ok := st.(*ast.ForStmt); ok {
					loop = f
					break
				}
			}
			var guard *ast.IfStmt
			ast.Inspect(fl.F.Decl.Body, func(n ast.Node) bool {
				if is, ok := n.(*ast.IfStmt); ok && guard == nil && clamp.Pos() >= is.Body.Pos() && clamp.End() <= is.Body.End() {
					guard = is
				}
				return true
			})
			if loop == nil || guard == nil {
				c.Undecided("Q.clamp", anchor, claim, "copy loop or clamp guard not found")
			} else {
				// the guard compares len(p) with n, taking the branch when len(p) is larger
				okGuard := false
				if be, ok := ast.Unparen(guard.Cond).(*ast.BinaryExpr); ok {
					isLenP := func(e ast.Expr) bool {
						call, ok := c14Strip(info, e).(*ast.CallExpr)
						if !ok || len(call.Args) != 1 {
							return false
						}
						id, ok := call.Fun.(*ast.Ident)
						return ok && id.Name == "len" && fl.Obj(call.Args[0]) == p
					}
					isN := func(e ast.Expr) bool { return fl.Denotes(isDiff)(c14Strip(info, e)) }
					switch be.Op {
					case token.GTR, token.GEQ:
						okGuard = isLenP(be.X) && isN(be.Y)
					case token.LSS, token.LEQ:
						okGuard = isN(be.X) && isLenP(be.Y)
					}
				}
				c.Check(okGuard, "Q.clamp.guard", anchor, "the clamp is taken whenever len(p) exceeds posLimit - pos", 1, x.pos(guard.Pos())+": `"+core.Src(k.g.Fset, guard.Cond)+"`")
				conc := x.field("Reader", "concReader")
				first := loop.Body.List[0]
				k.mustPass("Q.clamp", anchor, claim, fl, core.Query{
					Exit:   func(n ast.Node) bool { return n.Pos() >= first.Pos() && n.End() <= loop.End() },
					Events: []core.Event{{Node: func(n ast.Node) bool { return n == ast.Node(guard.Cond) }}},
					Exempt: func(cond ast.Expr, ci *core.CondInfo, taken bool) bool {
						call, ok := ast.Unparen(cond).(*ast.CallExpr)
						if !ok || !taken {
							return false
						}
						fn := core.Callee(info, call)
						return fn != nil && fn.Name() == "ready" && core.FieldOf(info, core.RecvOf(call), conc)
					},
				})
			}
		}
	}
}

// leafAssign (V.leaf.assign; evaluated under C14 and C15): ChunkReader.nextChunk —
// the index of the element NextChunk turns into a Chunk — is assigned (other than
// by ++) only a value i on a path where `currNode.isLeaf(i)` was found true. An
// index node may mix leaf and branch children (TTag 0xFE); positioning on a
// branch element hands index-node bytes to the codec as if they were a chunk
// (independently seeded change C14-5 added a seek fast path that binary-searches
// the current node and stores the result without looking at isLeaf).
func (x *c14x) leafAssign() {
	c, k := x.c, x.k
	fNext := x.field("ChunkReader", "nextChunk")
	crObj := k.obj("anchors", c14Rac, "ChunkReader")
	if fNext == nil || crObj == nil {
		return
	}
	p := k.g.Pkg(c14Rac)
	n := 0
	for _, f := range k.g.AllFuncs(p) {
		info := f.Info()
		var stores []*ast.AssignStmt
		ast.Inspect(f.Decl.Body, func(m ast.Node) bool {
			as, ok := m.(*ast.AssignStmt)
			if ok && as.Tok == token.ASSIGN && len(as.Lhs) == len(as.Rhs) {
				for _, l := range as.Lhs {
					if core.FieldOf(info, l, fNext) {
						stores = append(stores, as)
					}
				}
			}
			return true
		})
		if len(stores) == 0 {
			continue
		}
		fl := core.NewFlow(f)
		for _, st := range stores {
			st := st
			var val ast.Expr
			for i, l := range st.Lhs {
				if core.FieldOf(info, l, fNext) {
					val = c14Strip(info, st.Rhs[i])
				}
			}
			if v, isC := core.ConstInt64(info, val); isC && v == 0 {
				continue // reset to the first element is decided by the descent that follows it
			}
			n++
			vo := fl.Obj(val)
			k.mustPass("V.leaf.assign", f.Name()+"["+core.Src(k.g.Fset, st)+"]",
				"nextChunk is positioned on an element only after isLeaf found it to be a leaf: an index node may mix leaf and branch children, and a branch element must be descended into, not returned as a chunk",
				fl, core.Query{
					Exit: func(m ast.Node) bool { return m == ast.Node(st) },
					Events: []core.Event{{Edge: func(cond ast.Expr, ci *core.CondInfo, taken bool) bool {
						ce, neg := boolCond(cond)
						if neg {
							taken = !taken
						}
						call, ok := ce.(*ast.CallExpr)
						if !ok || !taken || len(call.Args) != 1 {
							return false
						}
						fn := core.Callee(info, call)
						return fn != nil && fn.Name() == "isLeaf" && vo != nil && fl.Obj(c14Strip(info, call.Args[0])) == vo
					}}},
				})
		}
	}
	c.Floor("V.leaf.assign", "positioning stores to ChunkReader.nextChunk", n, 1)
}

// leafUse (V.leaf.use; C14 and C15): every `currNode.chunk(i, …)` — the place an
// index element becomes a Chunk — is reached only on paths where `isLeaf(i)`
// was found true since the index i was last written. NextChunk walks the
// elements after the one the descent landed on by `nextChunk++`; each of them
// may be a branch child (repaired defect ffcbbe4: a branch child following a
// leaf child was returned as a chunk with the child node's bytes as CPrimary).
func (x *c14x) leafUse() {
	c, k := x.c, x.k
	fNext := x.field("ChunkReader", "nextChunk")
	if fNext == nil {
		return
	}
	p := k.g.Pkg(c14Rac)
	n := 0
	for _, f := range k.g.AllFuncs(p) {
		info := f.Info()
		var uses []*ast.CallExpr
		ast.Inspect(f.Decl.Body, func(m ast.Node) bool {
			call, ok := m.(*ast.CallExpr)
			if !ok || len(call.Args) < 1 {
				return true
			}
			fn := core.Callee(info, call)
			if fn != nil && fn.Name() == "chunk" && fn.Pkg() != nil && strings.HasSuffix(fn.Pkg().Path(), c14Rac) {
				uses = append(uses, call)
			}
			return true
		})
		if len(uses) == 0 {
			continue
		}
		fl := core.NewFlow(f)
		for _, call := range uses {
			call := call
			idx := c14Strip(info, call.Args[0])
			isIdx := func(e ast.Expr) bool {
				e = c14Strip(info, e)
				if core.FieldOf(info, idx, fNext) {
					return core.FieldOf(info, e, fNext)
				}
				return fl.Obj(idx) != nil && fl.Obj(e) == fl.Obj(idx)
			}
			writesIdx := func(m ast.Node) bool {
				switch s := m.(type) {
				case *ast.IncDecStmt:
					return isIdx(s.X)
				case *ast.AssignStmt:
					for _, l := range s.Lhs {
						if isIdx(l) {
							return true
						}
					}
				}
				return false
			}
			isUse := func(m ast.Node) bool {
				if _, isIf := m.(*ast.IfStmt); isIf {
					return false
				}
				if _, isFor := m.(*ast.ForStmt); isFor {
					return false
				}
				return core.AnyCall(m, func(cl *ast.CallExpr) bool { return cl == call })
			}
			leafEdge := core.Event{Edge: func(cond ast.Expr, ci *core.CondInfo, taken bool) bool {
				ce, neg := boolCond(cond)
				if neg {
					taken = !taken
				}
				cl, ok := ce.(*ast.CallExpr)
				if !ok || !taken || len(cl.Args) != 1 {
					return false
				}
				fn := core.Callee(info, cl)
				return fn != nil && fn.Name() == "isLeaf" && isIdx(cl.Args[0])
			}}
			n++
			anchor := f.Name() + "[" + core.Src(k.g.Fset, call) + "]"
			claim := "an index element is turned into a Chunk only after isLeaf found it to be a leaf, re-tested after every change of the index (a node may mix leaf and branch children: a branch child must be descended into, not returned with the child node's bytes as its compressed data)"
			// from function entry, and from every write of the index, to the use
			esc, sites := fl.Escapes(core.Query{Start: writesIdx, Exit: isUse, Events: []core.Event{leafEdge}})
			if len(esc) == 0 {
				c.Pass("V.leaf.use", anchor, claim, sites+1, k.g.Pos(call.Pos()))
			} else {
				var lines []string
				for _, e := range esc {
					lines = append(lines, e.String())
				}
				c.Fail("V.leaf.use", anchor, claim, sites, strings.Join(lines, "\n"))
			}
		}
	}
	c.Floor("V.leaf.use", "places where an index element is turned into a Chunk", n, 1)
}
