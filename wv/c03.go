package main

import (
	"fmt"
	"os"
	"regexp"
	"sort"
	"strings"

	"wv/core"
)

func init() {
	register("C03", core.Spec{
		Decides:    "three clauses of C03 for the C that the working tree's compiler generates for all of std/: (1) 'never allocates or frees' — the object compiled (never executed) from it references no allocator other than calloc/free, and those only from the *__alloc convenience functions, in each build configuration, so no decoder or hasher can reach an allocator on any input; (2) 'a suspension is justified by the buffers' for the suspensions cgen itself emits for I/O built-ins — every `status = short read; goto suspend` sits under a test that the reader is empty (iop == io2) or directly after the reader has been drained, and every `short write` under a test that the writer is full; (3) the pre-condition tables of the unchecked I/O and SIMD built-ins agree with the operations they guard (shared with C01: a too-small pre-condition is an out-of-bounds access in std the moment a decoder uses that built-in); (4) 'no out-of-bounds access' for the chunks of `iterate` loops (std + corpus/lowering): the bodies carry no run-time test, so for every slice length every body copy admitted by a generated round header must have its whole length-byte chunk inside the slice — decided by evaluating the three closed header forms with the generated constants over a full period of lengths — plus lock-step advance and the min-clamp of several iterated slices, the same arithmetic on cgen's own writeIterateRound (polynomials in length/advance/unroll and the guards of the two special forms), and 'bounded work': no break/continue of std targets an iterate loop (cgen would emit a C continue that skips the pointer advance)",
		NotDecided: "out-of-bounds or misaligned access other than iterate chunks and the built-in pre-conditions, the arithmetic inside the hand-written helper wuffs_private_impl__iterate_total_advance (its documented meaning is assumed), signed overflow, shift validity, bounded work, suspensions written by hand in std/*.wuffs (`yield? base.\"$short read\"` after a length test — value-level), and absence of 'internal error' statuses: these need sanitizer runs or a verified compiler and are declined",
		Assumptions: []string{"gcc, nm and readelf report undefined symbols and relocations faithfully; -O0 -ffunction-sections attributes each relocation to one function",
			"the C statement parser covers cgen's output subset; an unparsable body fails as undecided"},
		Exhaustive: true,
	}, runC03)
}

func runC03(c *core.Ctx) {
	cb := c.BuildC()
	if cb == nil {
		return
	}
	// (1) allocator references.
	cfgs := []core.CompileConfig{core.CfgGccDefault}
	if c.Thorough() {
		cfgs = append(cfgs, core.CfgGccAvoidArch, core.CfgClangDefault)
	}
	reRel := regexp.MustCompile(`^Relocation section '([^']+)'`)
	reAllocFn := regexp.MustCompile(`^\.rela\.text\.wuffs_[a-z0-9]+__[a-z0-9_]+__alloc$`)
	allocators := map[string]bool{"malloc": true, "realloc": true, "calloc": true, "free": true, "aligned_alloc": true, "posix_memalign": true, "memalign": true, "valloc": true,
		"mmap": true, "munmap": true, "mremap": true, "brk": true, "sbrk": true, "alloca": true, "strdup": true, "strndup": true, "_Znwm": true, "_ZdlPv": true}
	for _, cfg := range cfgs {
		anchor := "object[" + cfg.Name + "]"
		obj, cerr := cb.Object(cfg)
		if obj == "" {
			c.Fail("A.compile", anchor, "the generated C for std is accepted by the C compiler", 1, cerr)
			continue
		}
		c.Pass("A.compile", anchor, "the generated C for std is accepted by the C compiler (with implicit-declaration and pointer-type errors enabled)", 1, "")
		und, _ := core.Tool("nm", "-u", obj)
		var undef, badAlloc []string
		for _, ln := range strings.Split(und, "\n") {
			f := strings.Fields(ln)
			if len(f) == 2 && f[0] == "U" {
				undef = append(undef, f[1])
				if allocators[f[1]] && f[1] != "calloc" && f[1] != "free" {
					badAlloc = append(badAlloc, f[1])
				}
			}
		}
		sort.Strings(undef)
		c.Check(len(badAlloc) == 0 && len(undef) > 0, "A.allocators", anchor, "the only allocator entry points the object can reach are calloc and free", len(undef), fmt.Sprintf("undefined symbols: %v; foreign allocators: %v", undef, badAlloc))
		rel, _ := core.Tool("readelf", "-rW", obj)
		cur := ""
		n := 0
		var bad []string
		from := map[string]bool{}
		for _, ln := range strings.Split(rel, "\n") {
			if m := reRel.FindStringSubmatch(ln); m != nil {
				cur = m[1]
				continue
			}
			f := strings.Fields(ln)
			if len(f) >= 5 && (f[4] == "calloc" || f[4] == "free") {
				n++
				from[cur] = true
				if !reAllocFn.MatchString(cur) {
					bad = append(bad, f[4]+" referenced from "+cur)
				}
			}
		}
		c.Check(len(bad) == 0 && n > 0, "A.onlyalloc", anchor, "calloc/free are referenced solely from wuffs_<pkg>__<struct>__alloc: no decode, transform or hash function allocates or frees", n,
			fmt.Sprintf("%d relocations from %d functions; offending: %v", n, len(from), bad))
	}

	// (2) justified suspensions in generated C.
	nShortRead, nShortWrite := 0, 0
	nAdvTotal := 0
	for _, pkg := range cb.StdPackages() {
		src, err := os.ReadFile(cb.PkgC[pkg])
		if err != nil {
			c.Infra("%v", err)
		}
		cf := core.CParseFile(cb.PkgC[pkg], string(src))
		var bad []string
		nr, nw := 0, 0
		nAdv := 0
		var badAdv []string
		for _, fn := range cf.Funcs {
			if !strings.HasPrefix(fn.Name, "wuffs_"+pkg+"__") {
				continue
			}
			stmts, perr := core.CParseBody(fn.Body)
			if perr != nil {
				if strings.Contains(core.CText(fn.Body), "goto suspend") {
					c.Undecided("J.parse", "generated C "+fn.Name, "body parses", perr.Error())
				}
				continue
			}
			var walk func(list []*core.CStmt, owner *core.CStmt)
			walk = func(list []*core.CStmt, owner *core.CStmt) {
				for i, s := range list {
					if s.Kind == "goto" && s.Label == "suspend" && i > 0 {
						prev := core.CText(list[i-1].Toks)
						kind := ""
						switch prev {
						case "status = wuffs_base__make_status ( wuffs_base__suspension__short_read )":
							kind = "read"
						case "status = wuffs_base__make_status ( wuffs_base__suspension__short_write )":
							kind = "write"
						}
						if kind != "" {
							ok := false
							cond := ""
							if owner != nil && owner.Kind == "if" {
								cond = core.CText(owner.Toks)
							}
							if kind == "read" {
								nr++
								// reader empty: iop_X == io2_X (optionally wrapped in WUFFS_BASE__UNLIKELY)
								if m := reEmpty.FindStringSubmatch(cond); m != nil && m[1] == m[2] {
									ok = true
								}
								// or drained just before: `iop_X = io2_X ;` precedes the status assignment
								if !ok && i >= 2 {
									if m := reDrain.FindStringSubmatch(core.CText(list[i-2].Toks)); m != nil && m[1] == m[2] {
										ok = true
									}
								}
							} else {
								nw++
								if m := reEmpty.FindStringSubmatch(cond); m != nil && m[1] == m[2] {
									ok = true
								}
							}
							if !ok {
								bad = append(bad, fmt.Sprintf("%s line %d: `short %s` suspension under `%s` — not a test that the %s", fn.Name, s.Line, kind, cond,
									map[string]string{"read": "reader is empty", "write": "writer is full"}[kind]))
							}
						}
					}
					// J.advance: a guard that only says "the reader is not empty" justifies
					// consuming exactly one byte. `if (iop == io2) { short read; suspend }`
					// followed by `iop += K` for K > 1 walks past io2 when 1..K-1 bytes are
					// buffered: every later length test then passes and the decoder reads
					// beyond the supplied bytes (seeded change C03-5).
					if s.Kind == "if" && len(s.Body) >= 2 && s.Else == nil && i+1 < len(list) {
						last := s.Body[len(s.Body)-1]
						if last.Kind == "goto" && last.Label == "suspend" && core.CText(s.Body[len(s.Body)-2].Toks) == "status = wuffs_base__make_status ( wuffs_base__suspension__short_read )" {
							if m := reEmpty.FindStringSubmatch(core.CText(s.Toks)); m != nil && m[1] == m[2] {
								nx := list[i+1]
								if nx.Kind == "expr" && len(nx.Toks) >= 3 && nx.Toks[0].Text == "iop_"+m[1] && nx.Toks[1].Text == "+=" {
									nAdv++
									if !(len(nx.Toks) == 3 && (nx.Toks[2].Text == "1" || nx.Toks[2].Text == "1u")) {
										badAdv = append(badAdv, fmt.Sprintf("%s line %d: `%s` after a guard that only establishes that the reader is not empty", fn.Name, nx.Line, nx.Text()))
									}
								}
								if nx.Kind == "expr" && len(nx.Toks) == 2 && nx.Toks[0].Text == "iop_"+m[1] && nx.Toks[1].Text == "++" {
									nAdv++
								}
							}
						}
					}
					walk(s.Body, s)
					walk(s.Else, s)
				}
			}
			walk(stmts, nil)
		}
		if nAdv > 0 || len(badAdv) > 0 {
			c.Check(len(badAdv) == 0, "J.advance", "generated C for std/"+pkg, "after a guard that only establishes that the reader is not empty (`iop == io2` ⇒ short read) the generated code consumes exactly one byte", nAdv, strings.Join(badAdv, "\n"))
		}
		nAdvTotal += nAdv
		nShortRead += nr
		nShortWrite += nw
		if nr+nw > 0 || len(bad) > 0 {
			c.Check(len(bad) == 0, "J.justified", "generated C for std/"+pkg, "every built-in short-read suspension is taken only when the reader is empty (iop == io2, or just drained) and every short-write only when the writer is full", nr+nw, strings.Join(bad, "\n"))
		}
	}
	c.Analysed("builtin_short_read_suspensions", nShortRead)
	c.Analysed("builtin_short_write_suspensions", nShortWrite)
	c.Floor("J", "built-in short-read/short-write suspension sites in generated std C", nShortRead+nShortWrite, 380)
	c.Floor("J.advance", "single-byte advances behind a reader-not-empty guard", nAdvTotal, 2)

	// (4) iterate loops: the generated round headers keep every chunk inside the
	// slice (c03_iterate.go), on std and the lowering corpus.
	pkgs := loadStd(c, cb)
	pkgs = append(pkgs, loadCorpus(c, cb, "lowering")...)
	checkIterates(c, pkgs, "C03")
	runIOBrackets(c, pkgs)
	iterateControls(c, cb)

	// (5) family B: contracts of the hand-written base helpers (c03_base*.go).
	runC03Base(c, cb)

	// (3) shared pre-condition tables.
	k := newG(c, "./lang/check", "./internal/cgen")
	runC01Tables(k)
	checkIterateCgen(k)
}

var (
	reEmpty = regexp.MustCompile(`^(?:WUFFS_BASE__UNLIKELY \( )?iop_([A-Za-z0-9_]+) == io2_([A-Za-z0-9_]+)(?: \))?$`)
	reDrain = regexp.MustCompile(`^iop_([A-Za-z0-9_]+) = io2_([A-Za-z0-9_]+)$`)
)
