package main

// C01, rule O14: the run-time re-validation of a public function's refined
// arguments (internal/cgen writeFuncImplArgChecks) drops a bound's comparison
// only when that bound EQUALS the C type's natural bound. The checker proves
// bodies safe assuming lo <= x <= hi for a parameter `x: T[lo ..= hi]`, and
// indexing is emitted unchecked, so a dropped comparison for a bound that is
// merely inside the type's range lets an outside caller drive an unchecked
// index (independently seeded change C01-4: `== 0` became `>= 0`, which never
// emits the lower-bound test). The effect on generated C is decided under C08
// (G2.args, with a corpus of refined public parameters); this is the
// generator-side necessary condition, for programs outside std and the corpus.

import (
	"go/ast"
	"go/token"
	"go/types"
	"strings"

	"wv/core"
)

// runC01IterJump (O15.iterjump): a break/continue is given a jump target only
// if that target is not an iterate statement. cgen advances the iterated slices
// at the end of each unrolled copy of the body and emits a plain C
// continue/break for such a jump, so a `continue` skips the advance: with
// unroll 2 on a 2-byte slice the second copy reads one byte past the slice in a
// program the compiler accepted (repaired defect 23538cb; repro/c01/).
func runC01IterJump(k *gctx) {
	c := k.c
	p := k.g.Pkg("lang/parse")
	if p == nil {
		c.Undecided("O15.iterjump", "lang/parse", "lang/parse is loaded", "package not loaded")
		return
	}
	iterID := k.obj("anchors", "lang/token", "IDIterate")
	n := 0
	for _, f := range k.g.AllFuncs(p) {
		info := f.Info()
		var sets []*ast.CallExpr
		ast.Inspect(f.Decl.Body, func(m ast.Node) bool {
			if call, ok := m.(*ast.CallExpr); ok {
				if fn := core.Callee(info, call); fn != nil && fn.Name() == "SetJumpTarget" && len(call.Args) == 1 {
					sets = append(sets, call)
				}
			}
			return true
		})
		if len(sets) == 0 {
			continue
		}
		fl := core.NewFlow(f)
		for _, call := range sets {
			call := call
			target := fl.Obj(call.Args[0])
			n++
			k.mustPass("O15.iterjump", f.Name()+"[SetJumpTarget]",
				"a break/continue gets a jump target only past the test that the target is not an iterate statement (`loop.Keyword() == t.IDIterate` ⇒ parse error): the generated code for a jump to an iterate loop skips the slice advance, which is an out-of-bounds read in an accepted program",
				fl, core.Query{
					Exit: func(x ast.Node) bool { return core.AnyCall(x, func(cl *ast.CallExpr) bool { return cl == call }) },
					Events: []core.Event{{Edge: func(cond ast.Expr, ci *core.CondInfo, taken bool) bool {
						ce, neg := boolCond(cond)
						if neg {
							taken = !taken
						}
						isKw := func(e ast.Expr) bool {
							cl, ok := ast.Unparen(e).(*ast.CallExpr)
							if !ok {
								return false
							}
							fn := core.Callee(info, cl)
							return fn != nil && fn.Name() == "Keyword" && target != nil && fl.Obj(core.RecvOf(cl)) == target
						}
						return eqTest(fl, ce, isKw, fl.Is(iterID), !taken)
					}}},
				})
		}
	}
	c.Floor("O15.iterjump", "SetJumpTarget calls in lang/parse", n, 1)
}

// runC01AsMask (O16.mask): cgen drops the mask of `(e & M) as base.uN` only
// when M equals the destination type's maximum 2^N-1 (the C conversion does
// exactly that masking). The checker derives the converted value's range from
// the masked expression and indexing is emitted unchecked, so a dropped mask
// with zero bits in the low N positions (0xFFFF_FFF0 as u8) lets run-time values
// leave the derived range (independently seeded change C01-6: `== 0` → `>= 0`).
func runC01AsMask(k *gctx) {
	c := k.c
	fl := k.flow("O16", "internal/cgen", "gen", "writeExprAs")
	if fl == nil {
		return
	}
	info := fl.F.Info()
	lhs := fl.Param(1)
	// the mask variable: a local *big.Int assigned from package-level maxUintN values
	var maskVar types.Object
	wantMax := map[string]uint64{"maxUint8": 0xFF, "maxUint16": 0xFFFF, "maxUint32": 0xFFFFFFFF, "maxUint64": 0xFFFFFFFFFFFFFFFF}
	var badTable []string
	nTable := 0
	for obj, defs := range fl.Defs() {
		for _, d := range defs {
			if o := fl.Obj(d); o != nil {
				if _, ok := wantMax[o.Name()]; ok && o.Pkg() != nil && o.Parent() == o.Pkg().Scope() {
					maskVar = obj
				}
			}
		}
	}
	if maskVar == nil {
		c.Undecided("O16.mask", fl.F.Name(), "the redundant-mask variable (assigned from maxUint8/16/32) exists", "not found")
		return
	}
	// table: case t.IDUn: mask = maxUintN  (N agrees)
	ast.Inspect(fl.F.Decl.Body, func(n ast.Node) bool {
		cc, ok := n.(*ast.CaseClause)
		if !ok || len(cc.List) != 1 || len(cc.Body) == 0 {
			return true
		}
		as, ok := cc.Body[0].(*ast.AssignStmt)
		if !ok || len(as.Lhs) != 1 || fl.Obj(as.Lhs[0]) != maskVar {
			return true
		}
		caseObj := fl.Obj(cc.List[0])
		valObj := fl.Obj(as.Rhs[0])
		if caseObj == nil || valObj == nil {
			return true
		}
		nTable++
		bits := strings.TrimPrefix(caseObj.Name(), "IDU")
		if "maxUint"+bits != valObj.Name() {
			badTable = append(badTable, k.g.Pos(cc.Pos())+": case "+caseObj.Name()+" uses "+valObj.Name())
		}
		// and the value of maxUintN is 2^N-1
		if v, ok := k.bigVarVal(valObj); ok {
			if uint64(v) != wantMax[valObj.Name()] {
				badTable = append(badTable, k.g.Pos(cc.Pos())+": "+valObj.Name()+" is not 2^N-1")
			}
		}
		return true
	})
	c.Check(len(badTable) == 0 && nTable >= 3, "O16.table", fl.F.Name()+"[redundantMask]", "the mask that the C conversion to base.uN makes redundant is 2^N-1 for that N", nTable, strings.Join(badTable, "\n"))
	// every re-pointing of lhs to one of its own operands is behind `otherOperand.ConstValue().Cmp(mask) == 0`
	var drops []*ast.AssignStmt
	ast.Inspect(fl.F.Decl.Body, func(n ast.Node) bool {
		as, ok := n.(*ast.AssignStmt)
		if ok && as.Tok == token.ASSIGN && len(as.Lhs) == 1 && fl.Obj(as.Lhs[0]) == lhs && core.Mentions(info, as.Rhs[0], lhs) {
			drops = append(drops, as)
		}
		return true
	})
	c.Floor("O16", "places where writeExprAs replaces the converted expression by one of its operands", len(drops), 2)
	for _, d := range drops {
		d := d
		k.mustPass("O16.mask", fl.F.Name()+"["+core.Src(k.g.Fset, d)+"]",
			"the `& M` of `(e & M) as base.uN` is dropped only when M equals 2^N-1 (`cv.Cmp(redundantMask) == 0`): the bounds checker computed the converted value's range from the masked expression, and indexing with it is emitted unchecked",
			fl, core.Query{
				Exit: func(n ast.Node) bool { return n == ast.Node(d) },
				Events: []core.Event{{Edge: func(cond ast.Expr, ci *core.CondInfo, taken bool) bool {
					if !taken {
						return false
					}
					for _, at := range flattenAnd(cond) {
						a, b, rel, ok := cmpAtom(fl, at)
						if !ok || rel != token.EQL {
							continue
						}
						if fl.Obj(b) == maskVar || fl.Obj(a) == maskVar {
							return true
						}
					}
					return false
				}}},
			})
	}
}

func runC01ArgChecks(k *gctx) {
	c := k.c
	fl := k.flow("O14", "internal/cgen", "gen", "writeFuncImplArgChecks")
	if fl == nil {
		return
	}
	info := fl.F.Info()
	// `bounds` is the local array that receives the refinement's constant values;
	// a check is emitted for every non-nil element.
	var boundsObj = func() (o interface{ Name() string }) { return nil }
	_ = boundsObj
	var drops []*ast.AssignStmt
	ast.Inspect(fl.F.Decl.Body, func(n ast.Node) bool {
		as, ok := n.(*ast.AssignStmt)
		if !ok || as.Tok != token.ASSIGN || len(as.Lhs) != 1 || len(as.Rhs) != 1 {
			return true
		}
		ix, ok := ast.Unparen(as.Lhs[0]).(*ast.IndexExpr)
		if !ok || !core.IsNilIdent(info, as.Rhs[0]) {
			return true
		}
		if tv, ok := info.Types[ix.X]; ok && tv.Type != nil && tv.Type.String() == "[2]*math/big.Int" {
			drops = append(drops, as)
		}
		return true
	})
	c.Floor("O14", "places where writeFuncImplArgChecks drops a bound's comparison", len(drops), 1)
	for _, d := range drops {
		d := d
		ix := ast.Unparen(d.Lhs[0]).(*ast.IndexExpr)
		arr := fl.Obj(ix.X)
		idx := fl.Obj(ix.Index)
		sameElem := func(e ast.Expr) bool {
			ie, ok := ast.Unparen(e).(*ast.IndexExpr)
			return ok && fl.Obj(ie.X) == arr && arr != nil && fl.Obj(ie.Index) == idx && idx != nil
		}
		k.mustPass("O14.equal", fl.F.Name()+"[bounds[i] = nil]",
			"the run-time check of a refined argument's bound is omitted only when that bound equals the C type's natural bound (`bounds[i].Cmp(ntb[i]) == 0`): the bounds checker assumes both refinement bounds hold at entry to a public function and indexing is emitted unchecked",
			fl, core.Query{
				Exit: func(n ast.Node) bool { return n == ast.Node(d) },
				Events: []core.Event{{Edge: func(cond ast.Expr, ci *core.CondInfo, taken bool) bool {
					if !taken {
						return false
					}
					for _, at := range flattenAnd(cond) {
						a, b, rel, ok := cmpAtom(fl, at)
						if !ok || rel != token.EQL {
							continue
						}
						// one side is this bounds element, the other an element (same index) of the natural-bounds entry
						other := func(e ast.Expr) bool {
							ie, ok := ast.Unparen(e).(*ast.IndexExpr)
							return ok && fl.Obj(ie.Index) == idx && fl.Obj(ie.X) != arr
						}
						if (sameElem(a) && other(b)) || (sameElem(b) && other(a)) {
							return true
						}
					}
					return false
				}}},
			})
	}
	// Every non-nil element leads to an emitted comparison: the loop over bounds appends a check under `bound != nil` only.
	var emitLoop *ast.RangeStmt
	ast.Inspect(fl.F.Decl.Body, func(n ast.Node) bool {
		rs, ok := n.(*ast.RangeStmt)
		if ok && len(drops) > 0 && fl.Obj(rs.X) == fl.Obj(ast.Unparen(drops[0].Lhs[0]).(*ast.IndexExpr).X) {
			emitLoop = rs
		}
		return true
	})
	if emitLoop == nil {
		c.Undecided("O14.emit", fl.F.Name(), "a loop over the remaining bounds emits the comparisons", "no `for i, bound := range bounds` found")
		return
	}
	val := fl.Obj(emitLoop.Value)
	isAppend := func(n ast.Node) bool {
		as, ok := n.(*ast.AssignStmt)
		if !ok || len(as.Rhs) != 1 {
			return false
		}
		call, ok := ast.Unparen(as.Rhs[0]).(*ast.CallExpr)
		if !ok {
			return false
		}
		id, ok := call.Fun.(*ast.Ident)
		return ok && id.Name == "append"
	}
	k.mustPass("O14.emit", fl.F.Name()+"[range bounds]",
		"every bound that was not dropped produces a comparison in the emitted guard (the loop body appends a check on every path where the bound is non-nil)",
		fl, core.Query{Region: core.RegionOf(emitLoop.Body), FallOut: true,
			Events: []core.Event{{Node: isAppend}},
			Exempt: func(cond ast.Expr, ci *core.CondInfo, taken bool) bool {
				// bound == nil: nothing to emit
				isV := func(e ast.Expr) bool { return fl.Obj(e) == val && val != nil }
				return (!taken && nilTest(fl, cond, isV, false)) || (taken && nilTest(fl, cond, isV, true))
			}})
}
