package main

// C17, rules K3.split.* and K3.choice.* — encodeXz's chunk loop.
//
// Every LZMA2 chunk header stores `size - 1` in a fixed number of bytes. The
// header writes are decided by K3.chunk.enc; here the *values* that reach them
// are bounded:
//
//	K3.split.all    the chunk loop starts from the whole src, runs while data
//	                remains, and each iteration removes exactly the chunk it
//	                encodes from the front (chunk = rem[:k], rem = rem[k:]);
//	K3.split.fit    1 <= len(chunk) <= 2^n, n = number of bits of len(chunk)-1
//	                that the header bytes of either arm carry;
//	K3.choice.fresh the LZMA payload that is compared and written is
//	                encodeRaw(<empty>, chunk) of this iteration's chunk;
//	K3.choice.fit   whenever the comparison selects the LZMA arm,
//	                len(payload) <= 2^m, m = bits of len(payload)-1 carried by
//	                that arm's header — decided for every chunk length the split
//	                allows and every payload length, on the linear atoms of the
//	                condition (no execution: the condition is a boolean
//	                combination of comparisons of a*len(chunk)+b*len(payload)+c,
//	                which is constant between the atoms' breakpoints).
//
// That the encoder picks the *smaller* of the two encodings (the comparison's
// constants equal the header byte counts 3 and 6) is reported as INFO only: a
// larger-than-necessary but well-formed file still round-trips, so it is not
// a necessary condition of C17.

import (
	"fmt"
	"go/ast"
	"go/token"
	"go/types"
	"strings"

	"wv/core"
)

// ---- symbolic slices relative to the loop variable's value R0 at the top of an iteration

type slKind int

const (
	slUnknown slKind = iota
	slEmpty
	slPart // R0[lo:hi], hi == slEnd means "to the end"
	slRaw  // encodeRaw(<empty>, R0[lo:hi])
)

const slEnd = int64(-1)

type slv struct {
	kind   slKind
	lo, hi int64
}

func (s slv) String() string {
	switch s.kind {
	case slEmpty:
		return "empty"
	case slPart, slRaw:
		h := "end"
		if s.hi != slEnd {
			h = fmt.Sprint(s.hi)
		}
		t := fmt.Sprintf("rem[%d:%s]", s.lo, h)
		if s.kind == slRaw {
			return "encodeRaw(" + t + ")"
		}
		return t
	}
	return "unknown"
}

type splitState struct {
	sl         map[types.Object]slv
	rlo, rhi   int64 // bounds on len(R0); rhi < 0: unbounded
	trail      []string
	infeasible bool
}

func (s *splitState) clone() *splitState {
	o := &splitState{sl: map[types.Object]slv{}, rlo: s.rlo, rhi: s.rhi, trail: append([]string(nil), s.trail...)}
	for k, v := range s.sl {
		o.sl[k] = v
	}
	return o
}

type choiceAn struct {
	r       *c17
	fl      *core.Flow
	info    *types.Info
	encRaw  types.Object
	loopVar types.Object
}

func (a *choiceAn) obj(e ast.Expr) types.Object {
	id, ok := ast.Unparen(e).(*ast.Ident)
	if !ok {
		return nil
	}
	if o := a.info.Uses[id]; o != nil {
		return o
	}
	return a.info.Defs[id]
}

// lenArg: e is len(v) for a variable v.
func (a *choiceAn) lenArg(e ast.Expr) types.Object {
	call, ok := ast.Unparen(e).(*ast.CallExpr)
	if !ok || len(call.Args) != 1 {
		return nil
	}
	id, ok := ast.Unparen(call.Fun).(*ast.Ident)
	if !ok {
		return nil
	}
	if b, ok := a.info.Uses[id].(*types.Builtin); !ok || b.Name() != "len" {
		return nil
	}
	if v, ok := a.obj(call.Args[0]).(*types.Var); ok {
		return v
	}
	return nil
}

func (a *choiceAn) isEmptySlice(e ast.Expr, st *splitState) bool {
	e = ast.Unparen(e)
	if core.IsNilIdent(a.info, e) {
		return true
	}
	if call, ok := e.(*ast.CallExpr); ok && len(call.Args) == 1 {
		if tv, ok := a.info.Types[call.Fun]; ok && tv.IsType() {
			return a.isEmptySlice(call.Args[0], st)
		}
	}
	if sl, ok := e.(*ast.SliceExpr); ok && !sl.Slice3 && sl.High != nil {
		h, okh := core.ConstInt64(a.info, sl.High)
		l := int64(0)
		okl := true
		if sl.Low != nil {
			l, okl = core.ConstInt64(a.info, sl.Low)
		}
		return okh && okl && h == 0 && l == 0
	}
	if o := a.obj(e); o != nil && st != nil {
		return st.sl[o].kind == slEmpty
	}
	return false
}

func (a *choiceAn) value(e ast.Expr, st *splitState) slv {
	e = ast.Unparen(e)
	if a.isEmptySlice(e, st) {
		return slv{kind: slEmpty}
	}
	switch v := e.(type) {
	case *ast.Ident:
		if o := a.obj(v); o != nil {
			return st.sl[o]
		}
	case *ast.SliceExpr:
		base := a.value(v.X, st)
		if base.kind != slPart || v.Slice3 {
			return slv{}
		}
		out := base
		if v.Low != nil {
			l, ok := core.ConstInt64(a.info, v.Low)
			if !ok || l < 0 {
				return slv{}
			}
			out.lo = base.lo + l
		}
		if v.High != nil {
			h, ok := core.ConstInt64(a.info, v.High)
			if !ok || h < 0 {
				return slv{}
			}
			out.hi = base.lo + h
		}
		return out
	case *ast.CallExpr:
		if core.Callee(a.info, v) == a.encRaw && a.encRaw != nil && len(v.Args) == 2 && a.isEmptySlice(v.Args[0], st) {
			in := a.value(v.Args[1], st)
			if in.kind == slPart {
				in.kind = slRaw
				return in
			}
		}
	}
	return slv{}
}

// refine applies `len(x) REL k` (truth as given) to the bounds of len(R0).
func (a *choiceAn) refine(cond ast.Expr, truth bool, st *splitState) {
	cond = ast.Unparen(cond)
	switch v := cond.(type) {
	case *ast.UnaryExpr:
		if v.Op == token.NOT {
			a.refine(v.X, !truth, st)
		}
		return
	case *ast.BinaryExpr:
		switch v.Op {
		case token.LAND:
			if truth {
				a.refine(v.X, true, st)
				a.refine(v.Y, true, st)
			}
			return
		case token.LOR:
			if !truth {
				a.refine(v.X, false, st)
				a.refine(v.Y, false, st)
			}
			return
		}
		op := v.Op
		var xv types.Object
		var k int64
		var ok bool
		if xv = a.lenArg(v.X); xv != nil {
			k, ok = core.ConstInt64(a.info, v.Y)
		} else if xv = a.lenArg(v.Y); xv != nil {
			k, ok = core.ConstInt64(a.info, v.X)
			op = mirror(op)
		}
		if xv == nil || !ok {
			return
		}
		s := st.sl[xv]
		if s.kind != slPart || s.hi != slEnd {
			return
		}
		k += s.lo // len(R0) REL k
		if !truth {
			switch op {
			case token.LSS:
				op = token.GEQ
			case token.LEQ:
				op = token.GTR
			case token.GTR:
				op = token.LEQ
			case token.GEQ:
				op = token.LSS
			case token.EQL:
				op = token.NEQ
			case token.NEQ:
				op = token.EQL
			}
		}
		lo, hi := st.rlo, st.rhi
		setHi := func(h int64) {
			if hi < 0 || h < hi {
				hi = h
			}
		}
		switch op {
		case token.LSS:
			setHi(k - 1)
		case token.LEQ:
			setHi(k)
		case token.GTR:
			if k+1 > lo {
				lo = k + 1
			}
		case token.GEQ:
			if k > lo {
				lo = k
			}
		case token.EQL:
			if k > lo {
				lo = k
			}
			setHi(k)
		case token.NEQ:
			if k == lo {
				lo = k + 1
			}
		}
		st.rlo, st.rhi = lo, hi
		if hi >= 0 && lo > hi {
			st.infeasible = true
		}
	}
}

func (a *choiceAn) assignAll(lhs, rhs []ast.Expr, st *splitState) {
	if len(lhs) != len(rhs) {
		for _, l := range lhs {
			if o := a.obj(l); o != nil {
				st.sl[o] = slv{}
			}
		}
		return
	}
	vals := make([]slv, len(rhs))
	for i, e := range rhs {
		vals[i] = a.value(e, st)
	}
	for i, l := range lhs {
		if o := a.obj(l); o != nil {
			st.sl[o] = vals[i]
		}
	}
}

// walk runs the statements before the choice `if` on every path.
func (a *choiceAn) walk(list []ast.Stmt, st *splitState, done func(*splitState)) {
	for i, s := range list {
		rest := list[i+1:]
		switch v := s.(type) {
		case *ast.AssignStmt:
			if v.Tok == token.ASSIGN || v.Tok == token.DEFINE {
				a.assignAll(v.Lhs, v.Rhs, st)
			} else {
				for _, l := range v.Lhs {
					if o := a.obj(l); o != nil {
						st.sl[o] = slv{}
					}
				}
			}
		case *ast.DeclStmt:
			if gd, ok := v.Decl.(*ast.GenDecl); ok && gd.Tok == token.VAR {
				for _, sp := range gd.Specs {
					vs := sp.(*ast.ValueSpec)
					for j, id := range vs.Names {
						if o := a.info.Defs[id]; o != nil {
							if j < len(vs.Values) {
								st.sl[o] = a.value(vs.Values[j], st)
							} else {
								st.sl[o] = slv{kind: slEmpty}
							}
						}
					}
				}
			}
		case *ast.IfStmt:
			if v.Init != nil {
				a.walk([]ast.Stmt{v.Init}, st, func(*splitState) {})
			}
			cont := func(q *splitState) { a.walk(rest, q, done) }
			pt, pe := st.clone(), st.clone()
			a.refine(v.Cond, true, pt)
			a.refine(v.Cond, false, pe)
			pt.trail = append(pt.trail, core.Src(a.r.k.g.Fset, v.Cond)+"=true")
			pe.trail = append(pe.trail, core.Src(a.r.k.g.Fset, v.Cond)+"=false")
			if !pt.infeasible {
				a.walk(v.Body.List, pt, cont)
			}
			if !pe.infeasible {
				switch e := v.Else.(type) {
				case nil:
					cont(pe)
				case *ast.BlockStmt:
					a.walk(e.List, pe, cont)
				case *ast.IfStmt:
					a.walk([]ast.Stmt{e}, pe, cont)
				}
			}
			return
		case *ast.BlockStmt:
			a.walk(v.List, st, func(q *splitState) { a.walk(rest, q, done) })
			return
		case *ast.ExprStmt, *ast.EmptyStmt:
		default:
			// anything else: forget whatever it may assign
			ast.Inspect(s, func(m ast.Node) bool {
				switch w := m.(type) {
				case *ast.AssignStmt:
					for _, l := range w.Lhs {
						if o := a.obj(l); o != nil {
							st.sl[o] = slv{}
						}
					}
				case *ast.IncDecStmt:
					if o := a.obj(w.X); o != nil {
						st.sl[o] = slv{}
					}
				case *ast.RangeStmt:
					for _, e := range []ast.Expr{w.Key, w.Value} {
						if e != nil {
							if o := a.obj(e); o != nil {
								st.sl[o] = slv{}
							}
						}
					}
				}
				return true
			})
		}
	}
	done(st)
}

// ---- the two arms

type chunkArm struct {
	block   *ast.BlockStmt
	ctl     int64
	hdr     int // header bytes
	payload types.Object
	bits    map[types.Object]int // variable -> n: the header carries bits [0,n) of len(variable)-1
	why     string
}

// sizeBits: for header argument e that mentions len(v): the bits of len(v)-1 it carries.
func (a *choiceAn) sizeBits(e ast.Expr) (v types.Object, lo, hi int, ok bool, mentions bool) {
	var vars []types.Object
	ast.Inspect(e, func(m ast.Node) bool {
		if x, isE := m.(ast.Expr); isE {
			if o := a.lenArg(x); o != nil {
				vars = append(vars, o)
				return false
			}
		}
		return true
	})
	if len(vars) == 0 {
		return nil, 0, 0, false, false
	}
	for _, o := range vars[1:] {
		if o != vars[0] {
			return nil, 0, 0, false, true
		}
	}
	v = vars[0]
	const nb = 24
	img := make([]uint64, nb)
	for i := 0; i <= nb; i++ {
		val := uint64(0)
		if i < nb {
			val = 1 << uint(i)
		}
		le := &linEval{info: a.info, leaf: func(x ast.Expr) (uint64, bool) {
			b, isB := ast.Unparen(x).(*ast.BinaryExpr)
			if !isB || b.Op != token.SUB || a.lenArg(b.X) != v {
				return 0, false
			}
			if one, okc := core.ConstInt64(a.info, b.Y); !okc || one != 1 {
				return 0, false
			}
			return val, true
		}}
		out, okv := le.at(e)
		if !okv || (i == nb && out != 0) {
			return v, 0, 0, false, true
		}
		if i < nb {
			img[i] = out
		}
	}
	f, okf := fieldOf(img)
	if !okf || f.out != 0 {
		return v, 0, 0, false, true
	}
	return v, f.lo, f.hi, true, true
}

func (a *choiceAn) scanArm(b *ast.BlockStmt, dst types.Object) *chunkArm {
	var list []ast.Stmt
	for _, s := range b.List {
		if !isMarker(s) {
			list = append(list, s)
		}
	}
	arm := &chunkArm{block: b, bits: map[types.Object]int{}}
	if len(list) != 2 {
		arm.why = fmt.Sprintf("%d statements (want: header append, payload append)", len(list))
		return arm
	}
	h, p := appendTo(a.fl, list[0], dst), appendTo(a.fl, list[1], dst)
	if h == nil || p == nil || h.Ellipsis.IsValid() || !p.Ellipsis.IsValid() || len(p.Args) != 2 {
		arm.why = "not `dst = append(dst, <header bytes>)` followed by `dst = append(dst, <payload>...)`"
		return arm
	}
	arm.payload = a.obj(p.Args[1])
	ctl, ok := core.ConstInt64(a.info, h.Args[1])
	if arm.payload == nil || !ok {
		arm.why = "payload is not a variable or the control byte is not a constant"
		return arm
	}
	arm.ctl, arm.hdr = ctl, len(h.Args)-1
	type span struct{ lo, hi int }
	cover := map[types.Object][]span{}
	for _, e := range h.Args[2:] {
		v, lo, hi, ok, mentions := a.sizeBits(e)
		if !mentions {
			continue
		}
		if !ok {
			arm.why = "header byte `" + core.Src(a.r.k.g.Fset, e) + "` is not a bit field of len(v)-1"
			return arm
		}
		cover[v] = append(cover[v], span{lo, hi})
	}
	for v, sp := range cover {
		n := 0
		for progress := true; progress; {
			progress = false
			for _, s := range sp {
				if s.lo <= n && s.hi > n {
					n, progress = s.hi, true
				}
			}
		}
		for _, s := range sp {
			if s.hi > n {
				arm.why = "the header bytes do not carry a contiguous low part of len(" + v.Name() + ")-1"
				return arm
			}
		}
		arm.bits[v] = n
	}
	return arm
}

// ---- linear atoms over (len(U), len(P))

type lin2 struct{ a, b, c int64 }

func (a *choiceAn) linOf(e ast.Expr, U, P types.Object) (lin2, bool) {
	e = ast.Unparen(e)
	if k, ok := core.ConstInt64(a.info, e); ok {
		return lin2{c: k}, true
	}
	if v := a.lenArg(e); v != nil {
		switch v {
		case U:
			return lin2{a: 1}, true
		case P:
			return lin2{b: 1}, true
		}
		return lin2{}, false
	}
	switch v := e.(type) {
	case *ast.BinaryExpr:
		if v.Op == token.ADD || v.Op == token.SUB {
			x, okx := a.linOf(v.X, U, P)
			y, oky := a.linOf(v.Y, U, P)
			if !okx || !oky {
				return lin2{}, false
			}
			if v.Op == token.SUB {
				return lin2{x.a - y.a, x.b - y.b, x.c - y.c}, true
			}
			return lin2{x.a + y.a, x.b + y.b, x.c + y.c}, true
		}
	case *ast.CallExpr:
		if tv, ok := a.info.Types[v.Fun]; ok && tv.IsType() && len(v.Args) == 1 {
			if bits, _, okb := typeBits(tv.Type); okb && bits >= 32 {
				return a.linOf(v.Args[0], U, P)
			}
		}
	}
	return lin2{}, false
}

type condFn func(u, p int64) bool

func (a *choiceAn) compile(cond ast.Expr, U, P types.Object, atoms *[]lin2) (condFn, bool) {
	cond = ast.Unparen(cond)
	switch v := cond.(type) {
	case *ast.UnaryExpr:
		if v.Op == token.NOT {
			f, ok := a.compile(v.X, U, P, atoms)
			if !ok {
				return nil, false
			}
			return func(u, p int64) bool { return !f(u, p) }, true
		}
	case *ast.BinaryExpr:
		switch v.Op {
		case token.LAND, token.LOR:
			f, okf := a.compile(v.X, U, P, atoms)
			g, okg := a.compile(v.Y, U, P, atoms)
			if !okf || !okg {
				return nil, false
			}
			if v.Op == token.LAND {
				return func(u, p int64) bool { return f(u, p) && g(u, p) }, true
			}
			return func(u, p int64) bool { return f(u, p) || g(u, p) }, true
		case token.LSS, token.LEQ, token.GTR, token.GEQ, token.EQL, token.NEQ:
			x, okx := a.linOf(v.X, U, P)
			y, oky := a.linOf(v.Y, U, P)
			if !okx || !oky {
				return nil, false
			}
			d := lin2{x.a - y.a, x.b - y.b, x.c - y.c}
			*atoms = append(*atoms, d)
			op := v.Op
			return func(u, p int64) bool {
				r, _ := relEval(op, d.a*u+d.b*p+d.c, 0)
				return r
			}, true
		}
	}
	return nil, false
}

func floorDiv(a, b int64) int64 {
	q := a / b
	if (a%b != 0) && ((a < 0) != (b < 0)) {
		q--
	}
	return q
}

func (r *c17) chunkChoice() {
	c, g := r.c, r.k.g
	ef := r.k.flow("K3.choice", relLzma, "", "encodeXz")
	if ef == nil {
		return
	}
	a := &choiceAn{r: r, fl: ef, info: ef.F.Info(), encRaw: g.LookupObj(relLzma, "encodeRaw")}
	anchor := ef.F.Name()
	dst, src := ef.Param(0), ef.Param(1)
	shape := "encodeXz has one chunk loop `for rem := src; len(rem) > 0; { …split…; payload = encodeRaw(payload[:0], chunk); if <comparison of len(chunk) and len(payload)> { stored chunk } else { LZMA chunk } }` whose two arms are each a header append followed by a payload append"
	if dst == nil || src == nil || a.encRaw == nil {
		c.Undecided("K3.choice", anchor, shape, "parameters or encodeRaw not found")
		return
	}
	// the choice: an if/else whose both arms are recognised chunk writes
	var choice *ast.IfStmt
	var arms [2]*chunkArm
	var near []string
	nfound := 0
	for _, is := range ifConds(ef.F.Decl.Body) {
		eb, ok := is.Else.(*ast.BlockStmt)
		if !ok || is.Init != nil {
			continue
		}
		a0, a1 := a.scanArm(is.Body, dst), a.scanArm(eb, dst)
		if a0.why == "" && a1.why == "" {
			choice, arms = is, [2]*chunkArm{a0, a1}
			nfound++
		} else if (a0.why == "") != (a1.why == "") {
			near = append(near, fmt.Sprintf("%s: one arm is a chunk write, the other is not: %s%s", g.Pos(is.Pos()), a0.why, a1.why))
		}
	}
	if nfound != 1 {
		c.Undecided("K3.choice", anchor, shape, fmt.Sprintf("%d if/else statements with a chunk write in both arms; %s", nfound, strings.Join(near, "; ")))
		return
	}
	// LZMA arm = the one whose header carries the size of a second variable
	li := -1
	for i, arm := range arms {
		if len(arm.bits) == 2 {
			if li >= 0 {
				li = -2
			} else {
				li = i
			}
		}
	}
	if li < 0 || len(arms[1-li].bits) != 1 {
		c.Undecided("K3.choice", anchor, shape, "the arms are not one stored chunk (one size field) and one LZMA chunk (two size fields)")
		return
	}
	lz, raw := arms[li], arms[1-li]
	P, U := lz.payload, raw.payload
	if _, ok := raw.bits[U]; !ok || P == U {
		c.Undecided("K3.choice", anchor, shape, "the stored chunk's size field is not the length of its own payload")
		return
	}
	if _, ok := lz.bits[U]; !ok {
		c.Undecided("K3.choice", anchor, shape, "the LZMA chunk's header does not carry the length of the uncompressed chunk")
		return
	}
	if _, ok := lz.bits[P]; !ok {
		c.Undecided("K3.choice", anchor, shape, "the LZMA chunk's header does not carry the length of its payload")
		return
	}
	capU := int64(1) << uint(raw.bits[U])
	if n := int64(1) << uint(lz.bits[U]); n < capU {
		capU = n
	}
	capP := int64(1) << uint(lz.bits[P])

	// ---- the loop and the split
	loops := enclosingFor(ef.F.Decl.Body, choice)
	if len(loops) != 1 {
		c.Undecided("K3.split", anchor, shape, fmt.Sprintf("the chunk choice is inside %d for-loops", len(loops)))
		return
	}
	loop := loops[0]
	idx := -1
	for i, s := range loop.Body.List {
		if s == ast.Stmt(choice) {
			idx = i
		}
	}
	if idx < 0 {
		c.Undecided("K3.split", anchor, shape, "the chunk choice is not a direct statement of the loop body")
		return
	}
	// loop variable and condition: len(rem) > 0
	var allBad []string
	st0 := &splitState{sl: map[types.Object]slv{}, rlo: 0, rhi: -1}
	if loop.Cond == nil {
		allBad = append(allBad, g.Pos(loop.Pos())+": the loop has no condition")
	} else if cb, ok := ast.Unparen(loop.Cond).(*ast.BinaryExpr); ok {
		op, xe, ke := cb.Op, cb.X, cb.Y
		if a.lenArg(xe) == nil {
			xe, ke, op = cb.Y, cb.X, mirror(op)
		}
		a.loopVar = a.lenArg(xe)
		k, okk := core.ConstInt64(a.info, ke)
		nonEmpty := okk && ((op == token.GTR && k == 0) || (op == token.NEQ && k == 0) || (op == token.GEQ && k == 1))
		if a.loopVar == nil || !nonEmpty {
			allBad = append(allBad, g.Pos(loop.Cond.Pos())+": the loop condition `"+core.Src(g.Fset, loop.Cond)+"` is not `len(rem) > 0`: data left over would not be encoded (or an empty chunk would be)")
		}
	} else {
		allBad = append(allBad, g.Pos(loop.Cond.Pos())+": the loop condition is not a comparison")
	}
	if a.loopVar == nil {
		c.Undecided("K3.split", anchor, shape, strings.Join(allBad, "; "))
		return
	}
	st0.sl[a.loopVar] = slv{kind: slPart, lo: 0, hi: slEnd}
	st0.rlo = 1
	// where the loop variable comes from: only `rem := src` outside the body (or rem is src itself)
	if a.loopVar != src {
		nOut := 0
		ast.Inspect(ef.F.Decl.Body, func(m ast.Node) bool {
			if m == ast.Node(loop.Body) {
				return false
			}
			as, ok := m.(*ast.AssignStmt)
			if !ok {
				return true
			}
			for i, l := range as.Lhs {
				if a.obj(l) != a.loopVar {
					continue
				}
				nOut++
				if len(as.Lhs) != len(as.Rhs) || a.obj(as.Rhs[i]) != src {
					allBad = append(allBad, g.Pos(as.Pos())+": the loop variable is initialised with `"+core.Src(g.Fset, as)+"`, not with the whole src")
				}
			}
			return true
		})
		if nOut != 1 {
			allBad = append(allBad, fmt.Sprintf("%s: the loop variable is assigned %d times outside the loop body (want: once, from src)", g.Pos(loop.Pos()), nOut))
		}
	}
	if loop.Post != nil {
		allBad = append(allBad, g.Pos(loop.Post.Pos())+": the loop has a post statement")
	}
	// nothing after the split may move the chunk, the payload or the loop variable
	for _, s := range loop.Body.List[idx:] {
		for _, o := range []types.Object{U, P, a.loopVar} {
			if assignsTo(a.info, s, o) {
				allBad = append(allBad, g.Pos(s.Pos())+": "+o.Name()+" is assigned at or after the chunk choice")
			}
		}
	}
	var fitBad, freshBad []string
	uMin, uMax := int64(-1), int64(0)
	unbounded := false
	npaths := 0
	a.walk(loop.Body.List[:idx], st0, func(q *splitState) {
		npaths++
		path := "[" + strings.Join(q.trail, " ; ") + "]"
		u, p, rem := q.sl[U], q.sl[P], q.sl[a.loopVar]
		if p.kind != slRaw || u.kind != slPart || p.lo != u.lo || p.hi != u.hi {
			freshBad = append(freshBad, fmt.Sprintf("%s: on path %s the payload is %s and the chunk is %s", g.Pos(choice.Pos()), path, p, u))
		}
		if u.kind != slPart || u.lo != 0 {
			allBad = append(allBad, fmt.Sprintf("%s: on path %s the chunk is %s, not a prefix of the remaining input", g.Pos(choice.Pos()), path, u))
			return
		}
		var lo, hi int64
		if u.hi == slEnd {
			lo, hi = q.rlo, q.rhi
			if !(rem.kind == slEmpty || (rem.kind == slPart && rem.lo == rem.hi)) {
				allBad = append(allBad, fmt.Sprintf("%s: on path %s the chunk is all of the remaining input but the remainder becomes %s, not empty", g.Pos(choice.Pos()), path, rem))
			}
		} else {
			lo, hi = u.hi, u.hi
			if q.rlo < u.hi {
				allBad = append(allBad, fmt.Sprintf("%s: on path %s the chunk is %s but only len(rem) >= %d is known", g.Pos(choice.Pos()), path, u, q.rlo))
			}
			if !(rem.kind == slPart && rem.lo == u.hi && rem.hi == slEnd) {
				allBad = append(allBad, fmt.Sprintf("%s: on path %s the chunk is %s but the remainder becomes %s: bytes are dropped or encoded twice", g.Pos(choice.Pos()), path, u, rem))
			}
		}
		if uMin < 0 || lo < uMin {
			uMin = lo
		}
		if hi < 0 {
			unbounded = true
			fitBad = append(fitBad, fmt.Sprintf("%s: on path %s len(chunk) has no upper bound", g.Pos(choice.Pos()), path))
		} else if hi > uMax {
			uMax = hi
		}
		if lo < 1 || (hi >= 0 && hi > capU) {
			fitBad = append(fitBad, fmt.Sprintf("%s: on path %s len(chunk) ranges over [%d,%d]; the size fields hold [1,%d]", g.Pos(choice.Pos()), path, lo, hi, capU))
		}
	})
	c.Check(len(allBad) == 0 && npaths > 0, "K3.split.all", anchor+"[chunk loop]",
		"the chunk loop starts with the whole src, runs exactly while input remains, and every iteration encodes a prefix of the remaining input and removes exactly that prefix: otherwise input bytes are lost or duplicated and the round trip fails", npaths+1, strings.Join(allBad, "\n"))
	c.Check(len(fitBad) == 0 && npaths > 0, "K3.split.fit", anchor+"[chunk loop]",
		fmt.Sprintf("on every path to the chunk write 1 <= len(chunk) <= %d = 2^%d, the range of the `uncompressed size - 1` field as the header bytes carry it (an empty chunk writes 0xFFFF, a longer one wraps): either makes the .xz file malformed", capU, raw.bits[U]), npaths, strings.Join(fitBad, "\n"))
	c.Check(len(freshBad) == 0 && npaths > 0, "K3.choice.fresh", anchor+"[chunk choice]",
		"the payload whose length is compared and which the LZMA arm writes is encodeRaw(<empty prefix>, chunk) of this iteration's chunk on every path", npaths, strings.Join(freshBad, "\n"))
	c.Floor("K3.split", "paths through the split to the chunk choice", npaths, 2)

	// ---- the comparison
	var atoms []lin2
	cf, ok := a.compile(choice.Cond, U, P, &atoms)
	if !ok || len(atoms) == 0 {
		c.Undecided("K3.choice.fit", anchor+"[chunk choice]", "the condition is a boolean combination of comparisons linear in len(chunk) and len(payload)", g.Pos(choice.Cond.Pos())+": `"+core.Src(g.Fset, choice.Cond)+"` not recognised")
		return
	}
	lzTaken := func(u, p int64) bool { return cf(u, p) == (li == 0) }
	if unbounded || uMin < 1 {
		uMin = 1
	}
	if unbounded || uMax > 1<<20 {
		uMax = 1 << 20
	}
	var witness string
	sizeDiff := ""
	evals := 0
	for u := uMin; u <= uMax && witness == ""; u++ {
		cand := []int64{capP, capP + 1, u + int64(raw.hdr) - int64(lz.hdr) - 1, u + int64(raw.hdr) - int64(lz.hdr), u + int64(raw.hdr) - int64(lz.hdr) + 1}
		big := capP + 2
		for _, at := range atoms {
			if at.b == 0 {
				continue
			}
			p0 := floorDiv(-at.a*u-at.c, at.b)
			for d := int64(-1); d <= 2; d++ {
				cand = append(cand, p0+d)
			}
			if p0+3 > big {
				big = p0 + 3
			}
		}
		cand = append(cand, big)
		for _, p := range cand {
			if p < 0 {
				continue
			}
			evals++
			t := lzTaken(u, p)
			if t && p > capP {
				witness = fmt.Sprintf("len(chunk) = %d, len(payload) = %d selects the LZMA arm; `compressed size - 1` = %d does not fit %d bits (written as %#x)", u, p, p-1, lz.bits[P], (p-1)&(capP-1))
				break
			}
			if sizeDiff == "" && t != (p+int64(lz.hdr) < u+int64(raw.hdr)) {
				sizeDiff = fmt.Sprintf("len(chunk) = %d, len(payload) = %d: LZMA arm taken = %v, but stored = %d bytes, LZMA = %d bytes", u, p, t, u+int64(raw.hdr), p+int64(lz.hdr))
			}
		}
	}
	c.Check(witness == "", "K3.choice.fit", anchor+"[chunk choice]",
		fmt.Sprintf("for every chunk length the split allows ([%d,%d]) and every payload length, the comparison selects the LZMA arm only if len(payload) <= %d = 2^%d, the range of the 16-bit `compressed size - 1` field that arm writes (header bytes counted from the append: stored %d, LZMA %d): a longer payload wraps the field and the decoder (and xz) reject or mis-split the file", uMin, uMax, capP, lz.bits[P], raw.hdr, lz.hdr), evals,
		g.Pos(choice.Cond.Pos())+": `"+core.Src(g.Fset, choice.Cond)+"`: "+witness)
	if sizeDiff != "" {
		c.Info("K3.choice.size", anchor+"[chunk choice]", g.Pos(choice.Cond.Pos())+": the comparison does not always pick the smaller encoding ("+sizeDiff+"); the file is larger than necessary but well-formed — not a violation")
	}
}
