package main

// A partial evaluator over syntax trees for the header emitters of
// lib/lowleveljpeg (Reset → encodeDQT, encodeSOF0, encodeDHT,
// encodeSOSHeader). It is constant propagation with the ColorType fixed:
// integers, strings and booleans that are compile-time constants or derive
// from them are known; width/height are symbolic (param >> k); everything
// else is unknown. An `if` on an unknown condition forks; a fork that ends in
// a non-nil return of the top-level function is the error path and is
// dropped. Anything the evaluator does not understand makes the obligation
// undecided. It never calls the analysed code.

import (
	"fmt"
	"go/ast"
	"go/constant"
	"go/token"
	"go/types"

	"wv/core"
)

const (
	pvUnknown = iota
	pvInt
	pvStr
	pvBool
	pvSym // (root parameter) >> sh, possibly truncated by a byte conversion
)

type pval struct {
	kind int
	i    int64
	s    string
	b    bool
	sym  types.Object
	sh   int64
}

func pInt(i int64) pval { return pval{kind: pvInt, i: i} }

type bufByte struct {
	known bool
	v     byte
	sym   types.Object // symbolic: byte(sym >> sh); nil: opaque
	sh    int64
	pos   token.Pos
}

type evHeap struct {
	fields map[types.Object]pval
	buf    map[int64]bufByte
	writes []int64 // lengths n of w.Write(e.buf[:n])
	maxIdx int64
	calls  []evCall                  // hooked calls
	rhs    map[types.Object]ast.Expr // last plain right-hand side assigned to a field
}

func (h *evHeap) lastRHS(f types.Object) ast.Expr {
	if h.rhs == nil {
		return nil
	}
	return h.rhs[f]
}

type evCall struct {
	fn   *types.Func
	args []pval
	pos  token.Pos
}

type evState struct {
	heap   *evHeap
	frames []map[types.Object]pval
}

func (s *evState) clone() *evState {
	h := &evHeap{fields: map[types.Object]pval{}, buf: map[int64]bufByte{}, maxIdx: s.heap.maxIdx}
	for k, v := range s.heap.fields {
		h.fields[k] = v
	}
	for k, v := range s.heap.buf {
		h.buf[k] = v
	}
	h.writes = append([]int64(nil), s.heap.writes...)
	h.calls = append([]evCall(nil), s.heap.calls...)
	if s.heap.rhs != nil {
		h.rhs = map[types.Object]ast.Expr{}
		for k, v := range s.heap.rhs {
			h.rhs[k] = v
		}
	}
	out := &evState{heap: h}
	for _, f := range s.frames {
		nf := map[types.Object]pval{}
		for k, v := range f {
			nf[k] = v
		}
		out.frames = append(out.frames, nf)
	}
	return out
}

func (s *evState) env() map[types.Object]pval { return s.frames[len(s.frames)-1] }

const (
	sigFall = iota
	sigBreak
	sigContinue
	sigReturn
)

type evOut struct {
	st  *evState
	sig int
	ret []pval
	// retNil: the (single, error-typed) result is the literal nil.
	retNil bool
}

type evaluator struct {
	x       *c18
	info    *types.Info
	bufLen  int64
	steps   int
	bail    []string             // reasons the evaluation is not trustworthy
	faults  []string             // definite problems: out-of-range store, truncating copy
	hook    map[*types.Func]bool // calls recorded, not entered
	depth   int
	topFunc *types.Func
}

func (ev *evaluator) pos(p token.Pos) string { return ev.x.k.g.Pos(p) }

func (ev *evaluator) bailf(p token.Pos, format string, a ...interface{}) {
	if len(ev.bail) < 8 {
		ev.bail = append(ev.bail, ev.pos(p)+": "+fmt.Sprintf(format, a...))
	}
}

func (ev *evaluator) faultf(p token.Pos, format string, a ...interface{}) {
	if len(ev.faults) < 8 {
		ev.faults = append(ev.faults, ev.pos(p)+": "+fmt.Sprintf(format, a...))
	}
}

// isEncoder: e is an identifier of type *Encoder that is a method receiver
// (all frames share the one encoder).
func (ev *evaluator) isEncoder(e ast.Expr) bool {
	id, ok := ast.Unparen(e).(*ast.Ident)
	if !ok {
		return false
	}
	v, ok := ev.info.Uses[id].(*types.Var)
	if !ok {
		return false
	}
	p, ok := types.Unalias(v.Type()).(*types.Pointer)
	if !ok {
		return false
	}
	n, ok := types.Unalias(p.Elem()).(*types.Named)
	return ok && n.Obj() == ev.x.encoder
}

func (ev *evaluator) encField(e ast.Expr) *types.Var {
	sel, ok := ast.Unparen(e).(*ast.SelectorExpr)
	if !ok || !ev.isEncoder(sel.X) {
		return nil
	}
	v, _ := ev.info.Uses[sel.Sel].(*types.Var)
	if v != nil && v.IsField() {
		return v
	}
	return nil
}

func truncTo(t types.Type, v int64) int64 {
	b, ok := types.Unalias(t).Underlying().(*types.Basic)
	if !ok {
		return v
	}
	switch b.Kind() {
	case types.Uint8:
		return v & 0xFF
	case types.Uint16:
		return v & 0xFFFF
	case types.Uint32:
		return v & 0xFFFFFFFF
	case types.Int8:
		return int64(int8(v))
	case types.Int16:
		return int64(int16(v))
	case types.Int32:
		return int64(int32(v))
	}
	return v
}

func (ev *evaluator) eval(e ast.Expr, st *evState) pval {
	if tv, ok := ev.info.Types[e]; ok && tv.Value != nil {
		switch tv.Value.Kind() {
		case constant.Int:
			if i, ok := constant.Int64Val(tv.Value); ok {
				return pInt(i)
			}
		case constant.String:
			return pval{kind: pvStr, s: constant.StringVal(tv.Value)}
		case constant.Bool:
			return pval{kind: pvBool, b: constant.BoolVal(tv.Value)}
		}
		return pval{}
	}
	switch n := e.(type) {
	case *ast.ParenExpr:
		return ev.eval(n.X, st)
	case *ast.Ident:
		if obj := ev.info.Uses[n]; obj != nil {
			if v, ok := st.env()[obj]; ok {
				return v
			}
		}
		return pval{}
	case *ast.SelectorExpr:
		if f := ev.encField(n); f != nil {
			if v, ok := st.heap.fields[f]; ok {
				return v
			}
		}
		return pval{}
	case *ast.UnaryExpr:
		v := ev.eval(n.X, st)
		switch {
		case n.Op == token.NOT && v.kind == pvBool:
			return pval{kind: pvBool, b: !v.b}
		case n.Op == token.SUB && v.kind == pvInt:
			return pInt(-v.i)
		case n.Op == token.ADD && v.kind == pvInt:
			return v
		}
		return pval{}
	case *ast.BinaryExpr:
		return ev.evalBinary(n, st)
	case *ast.SliceExpr:
		xv := ev.eval(n.X, st)
		if xv.kind == pvStr && n.Max == nil {
			lo, hi := int64(0), int64(len(xv.s))
			if n.Low != nil {
				v := ev.eval(n.Low, st)
				if v.kind != pvInt {
					return pval{}
				}
				lo = v.i
			}
			if n.High != nil {
				v := ev.eval(n.High, st)
				if v.kind != pvInt {
					return pval{}
				}
				hi = v.i
			}
			if lo < 0 || hi > int64(len(xv.s)) || lo > hi {
				ev.faultf(n.Pos(), "string slice [%d:%d] of a %d-byte string is out of range", lo, hi, len(xv.s))
				return pval{}
			}
			return pval{kind: pvStr, s: xv.s[lo:hi]}
		}
		return pval{}
	case *ast.CallExpr:
		return ev.evalCall(n, st)
	}
	return pval{}
}

func (ev *evaluator) evalBinary(n *ast.BinaryExpr, st *evState) pval {
	if n.Op == token.LAND || n.Op == token.LOR {
		a := ev.eval(n.X, st)
		if a.kind == pvBool {
			if (n.Op == token.LAND && !a.b) || (n.Op == token.LOR && a.b) {
				return a
			}
			return ev.eval(n.Y, st)
		}
		b := ev.eval(n.Y, st)
		if b.kind == pvBool && ((n.Op == token.LAND && !b.b) || (n.Op == token.LOR && b.b)) {
			return b
		}
		return pval{}
	}
	a, b := ev.eval(n.X, st), ev.eval(n.Y, st)
	if a.kind == pvSym && b.kind == pvInt && n.Op == token.SHR {
		return pval{kind: pvSym, sym: a.sym, sh: a.sh + b.i}
	}
	if a.kind == pvStr && b.kind == pvStr {
		switch n.Op {
		case token.ADD:
			return pval{kind: pvStr, s: a.s + b.s}
		case token.EQL:
			return pval{kind: pvBool, b: a.s == b.s}
		case token.NEQ:
			return pval{kind: pvBool, b: a.s != b.s}
		}
		return pval{}
	}
	if a.kind != pvInt || b.kind != pvInt {
		return pval{}
	}
	if r, ok := relEval(n.Op, a.i, b.i); ok {
		return pval{kind: pvBool, b: r}
	}
	var r int64
	switch n.Op {
	case token.ADD:
		r = a.i + b.i
	case token.SUB:
		r = a.i - b.i
	case token.MUL:
		r = a.i * b.i
	case token.QUO:
		if b.i == 0 {
			return pval{}
		}
		r = a.i / b.i
	case token.REM:
		if b.i == 0 {
			return pval{}
		}
		r = a.i % b.i
	case token.AND:
		r = a.i & b.i
	case token.OR:
		r = a.i | b.i
	case token.XOR:
		r = a.i ^ b.i
	case token.SHL:
		if b.i < 0 || b.i > 62 {
			return pval{}
		}
		r = a.i << uint(b.i)
	case token.SHR:
		if b.i < 0 || b.i > 62 {
			return pval{}
		}
		r = a.i >> uint(b.i)
	default:
		return pval{}
	}
	return pInt(truncTo(ev.info.TypeOf(n), r))
}

// bufSlice: e is (encoder).buf[lo:hi]; returns the evaluated bounds.
func (ev *evaluator) bufSlice(e ast.Expr, st *evState) (lo, hi pval, hasHi, ok bool) {
	sl, isSl := ast.Unparen(e).(*ast.SliceExpr)
	if !isSl || sl.Max != nil || ev.encField(sl.X) != ev.x.fBuf {
		return pval{}, pval{}, false, false
	}
	lo = pInt(0)
	if sl.Low != nil {
		lo = ev.eval(sl.Low, st)
	}
	if sl.High != nil {
		hi = ev.eval(sl.High, st)
		hasHi = true
	}
	return lo, hi, hasHi, true
}

func (ev *evaluator) store(idx int64, b bufByte, st *evState) {
	if idx < 0 || idx >= ev.bufLen {
		ev.faultf(b.pos, "store to buf[%d] is outside the %d-byte buffer", idx, ev.bufLen)
		return
	}
	st.heap.buf[idx] = b
	if idx > st.heap.maxIdx {
		st.heap.maxIdx = idx
	}
}

func (ev *evaluator) evalCall(call *ast.CallExpr, st *evState) pval {
	// Conversion.
	if tv, ok := ev.info.Types[call.Fun]; ok && tv.IsType() && len(call.Args) == 1 {
		v := ev.eval(call.Args[0], st)
		switch v.kind {
		case pvInt:
			return pInt(truncTo(tv.Type, v.i))
		case pvSym:
			return v
		case pvStr:
			if b, ok := types.Unalias(tv.Type).Underlying().(*types.Basic); ok && b.Kind() == types.String {
				return v
			}
		}
		return pval{}
	}
	if id, ok := ast.Unparen(call.Fun).(*ast.Ident); ok {
		if b, ok := ev.info.Uses[id].(*types.Builtin); ok {
			switch b.Name() {
			case "len":
				v := ev.eval(call.Args[0], st)
				if v.kind == pvStr {
					return pInt(int64(len(v.s)))
				}
				return pval{}
			case "copy":
				lo, _, hasHi, ok := ev.bufSlice(call.Args[0], st)
				if !ok {
					// A copy that cannot touch the encoder's buffer is of no interest.
					if core.Mentions(ev.info, call.Args[0], ev.x.fBuf) {
						ev.bailf(call.Pos(), "copy into the buffer through an unrecognised destination")
					}
					return pval{}
				}
				src := ev.eval(call.Args[1], st)
				if hasHi || lo.kind != pvInt || src.kind != pvStr {
					ev.bailf(call.Pos(), "copy(e.buf[lo:], s): lo or s is not known (lo kind %d, s kind %d)", lo.kind, src.kind)
					return pval{}
				}
				if lo.i < 0 || lo.i > ev.bufLen {
					ev.faultf(call.Pos(), "slice e.buf[%d:] is out of range of the %d-byte buffer", lo.i, ev.bufLen)
					return pval{}
				}
				n := int64(len(src.s))
				if lo.i+n > ev.bufLen {
					ev.faultf(call.Pos(), "copy of %d bytes at offset %d is silently truncated by the %d-byte buffer", n, lo.i, ev.bufLen)
					n = ev.bufLen - lo.i
				}
				for q := int64(0); q < n; q++ {
					ev.store(lo.i+q, bufByte{known: true, v: src.s[q], pos: call.Pos()}, st)
				}
				return pInt(n)
			}
			return pval{}
		}
	}
	fn := core.Callee(ev.info, call)
	if fn == nil {
		return pval{}
	}
	if ev.hook[fn] {
		var args []pval
		for _, a := range call.Args {
			args = append(args, ev.eval(a, st))
		}
		st.heap.calls = append(st.heap.calls, evCall{fn, args, call.Pos()})
		return pval{}
	}
	if fn.FullName() == "(io.Writer).Write" && len(call.Args) == 1 {
		lo, hi, hasHi, ok := ev.bufSlice(call.Args[0], st)
		if ok {
			if !hasHi || hi.kind != pvInt || lo.kind != pvInt || lo.i != 0 {
				ev.bailf(call.Pos(), "Write(e.buf[lo:hi]) with bounds that are not known")
				return pval{}
			}
			if hi.i < 0 || hi.i > ev.bufLen {
				ev.faultf(call.Pos(), "slice e.buf[:%d] is out of range of the %d-byte buffer", hi.i, ev.bufLen)
				return pval{}
			}
			st.heap.writes = append(st.heap.writes, hi.i)
		}
		return pval{}
	}
	// A method of the encoder reached from inside an expression would need
	// forking mid-expression; the statement forms are handled in exec.
	if ev.encoderMethod(call) != nil {
		ev.bailf(call.Pos(), "call of Encoder method %s nested inside an expression", fn.Name())
	}
	return pval{}
}

// encoderMethod: the call is e.m(...) on the encoder with a body in the package.
func (ev *evaluator) encoderMethod(call *ast.CallExpr) *core.Func {
	sel, ok := ast.Unparen(call.Fun).(*ast.SelectorExpr)
	if !ok || !ev.isEncoder(sel.X) {
		return nil
	}
	fn := core.Callee(ev.info, call)
	if fn == nil || ev.hook[fn] {
		return nil
	}
	return ev.x.k.g.FindFunc(relJPEG, "Encoder", fn.Name())
}

// callMethod evaluates a call statement-level: returns one outcome per path
// with the callee's results.
func (ev *evaluator) callMethod(f *core.Func, call *ast.CallExpr, st *evState) []evOut {
	ev.depth++
	defer func() { ev.depth-- }()
	if ev.depth > 8 {
		ev.bailf(call.Pos(), "call depth exceeded")
		return nil
	}
	frame := map[types.Object]pval{}
	i := 0
	for _, fld := range f.Decl.Type.Params.List {
		for _, id := range fld.Names {
			if i < len(call.Args) {
				frame[ev.info.Defs[id]] = ev.eval(call.Args[i], st)
			}
			i++
		}
	}
	st.frames = append(st.frames, frame)
	outs := ev.execBlock(f.Decl.Body.List, st)
	var res []evOut
	for _, o := range outs {
		o.st.frames = o.st.frames[:len(o.st.frames)-1]
		if o.sig != sigReturn {
			if f.Decl.Type.Results != nil && len(f.Decl.Type.Results.List) > 0 {
				ev.bailf(call.Pos(), "%s falls off its end", f.Decl.Name.Name)
			}
			o.ret = nil
		}
		res = append(res, evOut{st: o.st, sig: sigFall, ret: o.ret})
	}
	return res
}

func (ev *evaluator) assign(lhs ast.Expr, v pval, rhs ast.Expr, st *evState, define bool) {
	switch l := ast.Unparen(lhs).(type) {
	case *ast.Ident:
		if l.Name == "_" {
			return
		}
		obj := ev.info.Defs[l]
		if obj == nil {
			obj = ev.info.Uses[l]
		}
		if obj != nil {
			st.env()[obj] = v
		}
	case *ast.SelectorExpr:
		if f := ev.encField(l); f != nil {
			st.heap.fields[f] = v
			if st.heap.rhs == nil {
				st.heap.rhs = map[types.Object]ast.Expr{}
			}
			st.heap.rhs[f] = rhs
		}
	case *ast.IndexExpr:
		if ev.encField(l.X) == ev.x.fBuf {
			idx := ev.eval(l.Index, st)
			if idx.kind != pvInt {
				ev.bailf(l.Pos(), "store to e.buf at an index that is not known")
				return
			}
			b := bufByte{pos: l.Pos()}
			switch v.kind {
			case pvInt:
				b.known, b.v = true, byte(v.i)
			case pvSym:
				b.sym, b.sh = v.sym, v.sh
			}
			ev.store(idx.i, b, st)
		}
	}
}

func (ev *evaluator) execBlock(list []ast.Stmt, st *evState) []evOut {
	cur := []*evState{st}
	var done []evOut
	for _, s := range list {
		var next []*evState
		for _, c := range cur {
			for _, o := range ev.exec(s, c) {
				if o.sig == sigFall {
					next = append(next, o.st)
				} else {
					done = append(done, o)
				}
			}
		}
		cur = next
		if len(cur) == 0 {
			break
		}
		if len(cur)+len(done) > 64 {
			ev.bailf(s.Pos(), "more than 64 simultaneous paths")
			return done
		}
	}
	for _, c := range cur {
		done = append(done, evOut{st: c, sig: sigFall})
	}
	return done
}

func fall(st *evState) []evOut { return []evOut{{st: st, sig: sigFall}} }

func (ev *evaluator) exec(s ast.Stmt, st *evState) []evOut {
	ev.steps++
	if ev.steps > 200000 {
		ev.bailf(s.Pos(), "step budget exceeded")
		return nil
	}
	switch n := s.(type) {
	case *ast.EmptyStmt:
		return fall(st)
	case *ast.BlockStmt:
		return ev.execBlock(n.List, st)
	case *ast.ExprStmt:
		if _, isLit := n.X.(*ast.BasicLit); isLit {
			return fall(st) // branch marker inserted by core.Flow
		}
		if call, ok := ast.Unparen(n.X).(*ast.CallExpr); ok {
			if f := ev.encoderMethod(call); f != nil {
				return ev.callMethod(f, call, st)
			}
		}
		ev.eval(n.X, st)
		return fall(st)
	case *ast.DeclStmt:
		if gd, ok := n.Decl.(*ast.GenDecl); ok && gd.Tok == token.VAR {
			for _, sp := range gd.Specs {
				vs := sp.(*ast.ValueSpec)
				for i, id := range vs.Names {
					v := pval{}
					if i < len(vs.Values) {
						v = ev.eval(vs.Values[i], st)
					} else if len(vs.Values) == 0 {
						// zero value
						if b, ok := types.Unalias(ev.info.Defs[id].Type()).Underlying().(*types.Basic); ok {
							switch {
							case b.Info()&types.IsInteger != 0:
								v = pInt(0)
							case b.Info()&types.IsString != 0:
								v = pval{kind: pvStr}
							case b.Info()&types.IsBoolean != 0:
								v = pval{kind: pvBool}
							}
						}
					}
					st.env()[ev.info.Defs[id]] = v
				}
			}
		}
		return fall(st)
	case *ast.IncDecStmt:
		v := ev.eval(n.X, st)
		if v.kind == pvInt {
			if n.Tok == token.INC {
				v.i++
			} else {
				v.i--
			}
			v.i = truncTo(ev.info.TypeOf(n.X), v.i)
		} else {
			v = pval{}
		}
		ev.assign(n.X, v, nil, st, false)
		return fall(st)
	case *ast.AssignStmt:
		return ev.execAssign(n, st)
	case *ast.IfStmt:
		states := []*evState{st}
		if n.Init != nil {
			states = nil
			for _, o := range ev.exec(n.Init, st) {
				if o.sig == sigFall {
					states = append(states, o.st)
				}
			}
		}
		var outs []evOut
		for _, s1 := range states {
			c := ev.eval(n.Cond, s1)
			runElse := func(s2 *evState) []evOut {
				if n.Else == nil {
					return fall(s2)
				}
				return ev.exec(n.Else, s2)
			}
			switch {
			case c.kind == pvBool && c.b:
				outs = append(outs, ev.exec(n.Body, s1)...)
			case c.kind == pvBool:
				outs = append(outs, runElse(s1)...)
			default:
				s2 := s1.clone()
				outs = append(outs, ev.exec(n.Body, s1)...)
				outs = append(outs, runElse(s2)...)
			}
		}
		return outs
	case *ast.ForStmt:
		return ev.execFor(n, st)
	case *ast.RangeStmt:
		return ev.execRange(n, st)
	case *ast.BranchStmt:
		if n.Label != nil {
			ev.bailf(n.Pos(), "labelled %s", n.Tok)
			return nil
		}
		switch n.Tok {
		case token.BREAK:
			return []evOut{{st: st, sig: sigBreak}}
		case token.CONTINUE:
			return []evOut{{st: st, sig: sigContinue}}
		}
		ev.bailf(n.Pos(), "unsupported branch %s", n.Tok)
		return nil
	case *ast.ReturnStmt:
		if len(n.Results) == 1 {
			if call, ok := ast.Unparen(n.Results[0]).(*ast.CallExpr); ok {
				if f := ev.encoderMethod(call); f != nil {
					var outs []evOut
					for _, o := range ev.callMethod(f, call, st) {
						outs = append(outs, evOut{st: o.st, sig: sigReturn, ret: o.ret})
					}
					return outs
				}
			}
		}
		o := evOut{st: st, sig: sigReturn}
		for _, r := range n.Results {
			o.ret = append(o.ret, ev.eval(r, st))
		}
		if len(n.Results) == 1 && core.IsNilIdent(ev.info, n.Results[0]) {
			o.retNil = true
		}
		return []evOut{o}
	}
	ev.bailf(s.Pos(), "statement form %T is not supported by the evaluator", s)
	return nil
}

func (ev *evaluator) execAssign(n *ast.AssignStmt, st *evState) []evOut {
	define := n.Tok == token.DEFINE
	if n.Tok != token.ASSIGN && n.Tok != token.DEFINE {
		// op=
		if len(n.Lhs) != 1 || len(n.Rhs) != 1 {
			ev.bailf(n.Pos(), "unsupported compound assignment")
			return nil
		}
		var op token.Token
		switch n.Tok {
		case token.ADD_ASSIGN:
			op = token.ADD
		case token.SUB_ASSIGN:
			op = token.SUB
		case token.MUL_ASSIGN:
			op = token.MUL
		case token.SHL_ASSIGN:
			op = token.SHL
		case token.SHR_ASSIGN:
			op = token.SHR
		case token.AND_ASSIGN:
			op = token.AND
		case token.OR_ASSIGN:
			op = token.OR
		default:
			ev.assign(n.Lhs[0], pval{}, nil, st, false)
			return fall(st)
		}
		a, b := ev.eval(n.Lhs[0], st), ev.eval(n.Rhs[0], st)
		v := pval{}
		if a.kind == pvInt && b.kind == pvInt {
			switch op {
			case token.ADD:
				v = pInt(a.i + b.i)
			case token.SUB:
				v = pInt(a.i - b.i)
			case token.MUL:
				v = pInt(a.i * b.i)
			case token.SHL:
				if b.i >= 0 && b.i < 62 {
					v = pInt(a.i << uint(b.i))
				}
			case token.SHR:
				if b.i >= 0 && b.i < 62 {
					v = pInt(a.i >> uint(b.i))
				}
			case token.AND:
				v = pInt(a.i & b.i)
			case token.OR:
				v = pInt(a.i | b.i)
			}
			if v.kind == pvInt {
				v.i = truncTo(ev.info.TypeOf(n.Lhs[0]), v.i)
			}
		}
		ev.assign(n.Lhs[0], v, nil, st, false)
		return fall(st)
	}
	// x = e.method(...) / x := e.method(...): evaluate the callee per path.
	if len(n.Rhs) == 1 {
		if call, ok := ast.Unparen(n.Rhs[0]).(*ast.CallExpr); ok {
			if f := ev.encoderMethod(call); f != nil {
				var outs []evOut
				for _, o := range ev.callMethod(f, call, st) {
					for i, l := range n.Lhs {
						v := pval{}
						if i < len(o.ret) {
							v = o.ret[i]
						}
						ev.assign(l, v, nil, o.st, define)
					}
					outs = append(outs, evOut{st: o.st, sig: sigFall})
				}
				return outs
			}
		}
	}
	if len(n.Lhs) == len(n.Rhs) {
		vals := make([]pval, len(n.Rhs))
		for i, r := range n.Rhs {
			vals[i] = ev.eval(r, st)
		}
		for i, l := range n.Lhs {
			ev.assign(l, vals[i], n.Rhs[i], st, define)
		}
		return fall(st)
	}
	if len(n.Rhs) == 1 {
		ev.eval(n.Rhs[0], st)
		for _, l := range n.Lhs {
			ev.assign(l, pval{}, nil, st, define)
		}
		return fall(st)
	}
	ev.bailf(n.Pos(), "unsupported assignment shape")
	return nil
}

// loop runs body for each prepared iteration state; `head` prepares the next
// iteration (returns false when the loop is over).
func (ev *evaluator) execFor(n *ast.ForStmt, st *evState) []evOut {
	cur := []*evState{st}
	if n.Init != nil {
		cur = nil
		for _, o := range ev.exec(n.Init, st) {
			if o.sig == sigFall {
				cur = append(cur, o.st)
			}
		}
	}
	var done []evOut
	for iter := 0; len(cur) > 0; iter++ {
		if iter > 4096 {
			ev.bailf(n.Pos(), "loop does not terminate within 4096 iterations")
			return done
		}
		var next []*evState
		for _, s1 := range cur {
			if n.Cond != nil {
				c := ev.eval(n.Cond, s1)
				if c.kind != pvBool {
					ev.bailf(n.Cond.Pos(), "loop condition is not decidable")
					return done
				}
				if !c.b {
					done = append(done, evOut{st: s1, sig: sigFall})
					continue
				}
			}
			for _, o := range ev.exec(n.Body, s1) {
				switch o.sig {
				case sigBreak:
					done = append(done, evOut{st: o.st, sig: sigFall})
				case sigReturn:
					done = append(done, o)
				default:
					if n.Post != nil {
						for _, p := range ev.exec(n.Post, o.st) {
							next = append(next, p.st)
						}
					} else {
						next = append(next, o.st)
					}
				}
			}
		}
		cur = next
		if len(cur) > 64 {
			ev.bailf(n.Pos(), "more than 64 simultaneous paths in a loop")
			return done
		}
	}
	return done
}

func (ev *evaluator) execRange(n *ast.RangeStmt, st *evState) []evOut {
	cnt, ok := arrayLen(ev.info.TypeOf(n.X))
	if !ok {
		if xv := ev.eval(n.X, st); xv.kind == pvInt { // range over an integer
			cnt, ok = xv.i, true
		}
	}
	if !ok || n.Value != nil && !isBlank(n.Value) {
		ev.bailf(n.Pos(), "range over something other than an array (by index)")
		return nil
	}
	cur := []*evState{st}
	var done []evOut
	for i := int64(0); i < cnt; i++ {
		var next []*evState
		for _, s1 := range cur {
			if n.Key != nil {
				ev.assign(n.Key, pInt(i), nil, s1, n.Tok == token.DEFINE)
			}
			for _, o := range ev.exec(n.Body, s1) {
				switch o.sig {
				case sigBreak:
					done = append(done, evOut{st: o.st, sig: sigFall})
				case sigReturn:
					done = append(done, o)
				default:
					next = append(next, o.st)
				}
			}
		}
		cur = next
	}
	for _, s1 := range cur {
		done = append(done, evOut{st: s1, sig: sigFall})
	}
	return done
}

func isBlank(e ast.Expr) bool {
	id, ok := e.(*ast.Ident)
	return ok && id.Name == "_"
}

// runTop evaluates function f with the given parameter values and returns
// the outcomes that end in `return nil` (error-typed single result) or, for
// functions without an error result, every return.
func (ev *evaluator) runTop(f *core.Func, params map[types.Object]pval, fields map[types.Object]pval) []evOut {
	st := &evState{heap: &evHeap{fields: map[types.Object]pval{}, buf: map[int64]bufByte{}, maxIdx: -1}}
	for k, v := range fields {
		st.heap.fields[k] = v
	}
	st.frames = []map[types.Object]pval{params}
	return ev.execBlock(f.Decl.Body.List, st)
}
