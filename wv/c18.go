package main

// C18 — low-level JPEG encoder (lib/lowleveljpeg).
//
// Four rule families, all static:
//
//   S.*  call-sequence typestate of Reset/Add1/Add3/Add6/addN, decided by a
//        small path-sensitive forward dataflow over go/cfg (c18_state.go);
//   W.*  Add1 ≅ Add3 ≅ Add6 (sibling agreement) and the whichComponents table;
//   T.*  constant tables against definitions computed here (canonical Huffman
//        codes of the DHT segments, zig-zag walk, bit length), c18.go;
//   H.*  the header image Reset writes, obtained by partial evaluation of the
//        header emitters over their syntax trees with the ColorType fixed and
//        width/height symbolic (c18_eval.go): marker segments, length fields,
//        selectors, sampling factors, and the buffer bounds.

import (
	"fmt"
	"go/ast"
	"go/constant"
	"go/parser"
	"go/token"
	"go/types"
	"math/bits"
	"path/filepath"
	"sort"
	"strconv"
	"strings"
	"time"

	"wv/core"
)

func init() {
	register("C18", core.Spec{
		Decides:    "structural clauses of C18 for lib/lowleveljpeg: (S) the Encoder's call-sequence typestate — every non-nil error leaving Reset/Add1/Add3/Add6/addN other than the nil-receiver and previously-returned-error sentinels is preceded on its path by hasReturnedError = true; AddN tests the receiver and the flag before touching any other field; numAddsRemaining is tested for zero before its only decrement and the EOI marker (after a 7-one-bit flush) is written exactly when the decremented count is zero; Reset succeeds only with width,height in [1,65535], a valid ColorType, validated or standard quantisation factors, the flag cleared and every non-scratch field re-initialised; the Write error is never dropped; pointer arguments are dereferenced only where known non-nil; (W) Add1/Add3/Add6 have the same decision structure modulo (ColorType value = array length) and whichComponents has length = ColorType value with pattern Y..Y Cb Cr; (T) the four huffmanBitWriters tables are exactly the canonical (Annex C) codes of the four tables in hardCodedDHTSegments under the entry encoding read from emitHuffman, the DHT segments are well-formed, cover every symbol the coder can ask for and reserve the all-ones code, zigzag is the anti-diagonal walk, bitCount is the bit length, gen.go's theHuffmanSpec equals the DHT payload; (H) for each valid ColorType the bytes Reset hands to Write parse as SOI DQT SOF0 DHT+ SOS with consistent length fields, existing table selectors that agree with the tables encodeBlock actually indexes, sampling factors that agree with whichComponents, MCUDimensions and the numAddsRemaining formula, no unwritten byte, and every store index / slice bound within len(buf); len(buf) also covers the table-derived worst case of one AddN call; (R) the AC run-length coding of encodeBlock, by interval dataflow over go/cfg edges: emitHuffmanRun packs uint8((run << 4) | category) and every call gets run <= 15 on every path, each ZRL symbol 0xF0 is emitted with >= 16 zeroes pending and paired with exactly one `-= 16`, the counter moves only by ++ on a zero coefficient / -= 16 / = 0 and is reset after being emitted, EOB 0x00 is emitted iff a run is pending at the end, and the AC loop visits zig-zag positions 1..63 once each; (N.width) the integer types through which Reset computes and stores the MCU count hold 8192*8192",
		NotDecided: "entropy-coding correctness at value level: that encodeBlock/emitHuffmanRun/emitBits produce the right bits (category and adjusted-diff arithmetic, byte stuffing, the bit accumulator; of the run lengths only the structural clauses R.* are decided), that div rounds to nearest, DCT accuracy, the quantisation tables' values, absence of allocation, and that the decoded image equals the input. The H.bound.mcu bound assumes (does not check) that encodeBlock emits at most one Huffman code plus its category bits per coefficient",
		Assumptions: []string{
			"go/types, go/cfg (x/tools v0.29.0) model Go control flow and constants faithfully",
			"JPEG marker-segment layout and the canonical Huffman code construction are taken from ITU-T T.81 (Annex B.2, C.2), written out in this checker",
			"lib/lowleveljpeg/gen.go is `//go:build ignore`: it is parsed separately with go/parser and only its theHuffmanSpec literal is read",
			"H.bound.mcu: per coefficient encodeBlock emits at most (longest code + largest category) bits; stuffing at most doubles the bytes",
			"an obligation whose anchor or idiom is not recognised fails as undecided",
		},
	}, runC18)
}

const relJPEG = "lib/lowleveljpeg"

// c18 carries the resolved anchors shared by the rule families.
type c18 struct {
	k *gctx
	c *core.Ctx

	encoder                                   types.Object
	fFlag, fColor, fCount, fBuf, fQuants, fDC *types.Var
	info                                      *types.Info

	ctValues map[int64]string // valid ColorType numeric value → constant name
	addLens  map[string]int64 // AddN method → array length of its block argument

	wc map[int64]string // ColorType value → whichComponents string (from addN)

	dht     []dhtTable
	dhtOK   bool
	writers [][]litEntry
}

func runC18(c *core.Ctx) {
	k := newG(c, "./lib/lowleveljpeg")
	x := &c18{k: k, c: c, ctValues: map[int64]string{}, addLens: map[string]int64{}, wc: map[int64]string{}}
	p := k.g.Pkg(relJPEG)
	if p == nil {
		c.Undecided("anchors", relJPEG, "package loads", "package not loaded")
		return
	}
	x.info = p.TypesInfo
	x.encoder = k.obj("anchors", relJPEG, "Encoder")
	if x.encoder == nil {
		return
	}
	fld := func(name string) *types.Var {
		v := core.LookupField(x.encoder, name)
		if v == nil {
			c.Undecided("anchors", relJPEG+".Encoder."+name, "anchor field exists", "field not found")
		}
		return v
	}
	x.fFlag, x.fColor, x.fCount, x.fBuf, x.fQuants, x.fDC = fld("hasReturnedError"), fld("colorType"), fld("numAddsRemaining"), fld("buf"), fld("quants"), fld("prevDC")
	if x.fFlag == nil || x.fColor == nil || x.fCount == nil || x.fBuf == nil || x.fQuants == nil || x.fDC == nil {
		return
	}
	runC18DCT(k)
	t0 := time.Now()
	lap := func(w string) { c.Analysed("ms_"+w, time.Since(t0).Milliseconds()); t0 = time.Now() }
	c.Analysed("ms_load", time.Since(c.Start).Milliseconds())
	x.validColorTypes()
	x.tables()
	lap("tables")
	x.typestate()
	lap("typestate")
	x.header()
	lap("header")
	x.runLength()  // R.* (c18_run.go)
	x.countWidth() // N.width (c18_run.go)
	lap("runlength")
}

// ---------------------------------------------------------------------------
// shared extraction helpers

// varInit returns the initialiser expression of a package-level variable.
func (x *c18) varInit(name string) ast.Expr {
	p := x.k.g.Pkg(relJPEG)
	obj := p.Types.Scope().Lookup(name)
	if obj == nil {
		return nil
	}
	for _, f := range p.Syntax {
		for _, d := range f.Decls {
			gd, ok := d.(*ast.GenDecl)
			if !ok || gd.Tok != token.VAR {
				continue
			}
			for _, s := range gd.Specs {
				vs := s.(*ast.ValueSpec)
				for i, id := range vs.Names {
					if p.TypesInfo.Defs[id] == obj && i < len(vs.Values) {
						return vs.Values[i]
					}
				}
			}
		}
	}
	return nil
}

type litEntry struct {
	v   int64
	ok  bool
	pos token.Pos
}

// arrayLit evaluates a (possibly keyed) array composite literal of constant
// integers into n entries; missing entries are zero.
func arrayLit(info *types.Info, e ast.Expr, n int64) ([]litEntry, error) {
	cl, ok := ast.Unparen(e).(*ast.CompositeLit)
	if !ok {
		return nil, fmt.Errorf("not a composite literal")
	}
	out := make([]litEntry, n)
	for i := range out {
		out[i] = litEntry{0, true, cl.Pos()}
	}
	idx := int64(0)
	for _, el := range cl.Elts {
		val := el
		if kv, ok := el.(*ast.KeyValueExpr); ok {
			kk, ok := core.ConstInt64(info, kv.Key)
			if !ok {
				return nil, fmt.Errorf("non-constant key")
			}
			idx, val = kk, kv.Value
		}
		if idx < 0 || idx >= n {
			return nil, fmt.Errorf("index %d out of range", idx)
		}
		v, ok := core.ConstInt64(info, val)
		out[idx] = litEntry{v, ok, val.Pos()}
		idx++
	}
	return out, nil
}

// arrayLen: length of an array type (through names and one pointer).
func arrayLen(t types.Type) (int64, bool) {
	if t == nil {
		return 0, false
	}
	t = types.Unalias(t)
	if p, ok := t.Underlying().(*types.Pointer); ok {
		t = p.Elem()
	}
	a, ok := t.Underlying().(*types.Array)
	if !ok {
		return 0, false
	}
	return a.Len(), true
}

func c18SortedKeys(m map[int64]string) []int64 {
	var ks []int64
	for k := range m {
		ks = append(ks, k)
	}
	sort.Slice(ks, func(i, j int) bool { return ks[i] < ks[j] })
	return ks
}

func keysStr(m map[int64]string) string {
	var s []string
	for _, k := range c18SortedKeys(m) {
		s = append(s, strconv.FormatInt(k, 10))
	}
	return "{" + strings.Join(s, ",") + "}"
}

// validColorTypes reads the case list of ColorType.isValid.
func (x *c18) validColorTypes() {
	fl := x.k.flow("W.colortypes", relJPEG, "ColorType", "isValid")
	if fl == nil {
		return
	}
	info := fl.F.Info()
	recv := fl.Recv()
	n := 0
	ast.Inspect(fl.F.Decl.Body, func(m ast.Node) bool {
		sw, ok := m.(*ast.SwitchStmt)
		if !ok || sw.Tag == nil || recv == nil || !fl.Is(recv)(sw.Tag) {
			return true
		}
		for _, cl := range sw.Body.List {
			cc := cl.(*ast.CaseClause)
			retTrue := false
			for _, s := range cc.Body {
				if r, ok := s.(*ast.ReturnStmt); ok && len(r.Results) == 1 {
					if v := core.ConstVal(info, r.Results[0]); v != nil && v.Kind() == constant.Bool && constant.BoolVal(v) {
						retTrue = true
					}
				}
			}
			if !retTrue {
				continue
			}
			for _, e := range cc.List {
				if v, ok := core.ConstInt64(info, e); ok {
					x.ctValues[v] = core.Src(x.k.g.Fset, e)
					n++
				}
			}
		}
		return true
	})
	if n == 0 {
		x.c.Undecided("W.colortypes", fl.F.Name(), "ColorType.isValid is a switch on the receiver whose accepting cases list constants", "shape not recognised")
		return
	}
	x.c.Pass("W.colortypes", fl.F.Name(), "the set of valid ColorType values is read from isValid's accepting case list", n, "valid values "+keysStr(x.ctValues))
	x.c.Floor("W.colortypes", "valid ColorType constants", n, 3)
}

// ---------------------------------------------------------------------------
// T: constant tables

type dhtTable struct {
	tc, th int
	counts [16]int
	syms   []byte
	seg    int                // index of the DHT segment it lives in
	off    int                // byte offset of the Tc/Th byte in the string
	code   map[byte][2]uint32 // symbol → (code, length)
}

// parseDHTSegments parses a byte string that must consist of DHT marker
// segments only (T.81 B.2.4.2).
func parseDHTSegments(b []byte) (tabs []dhtTable, segLens []int, err error) {
	i := 0
	for i < len(b) {
		if i+4 > len(b) || b[i] != 0xFF || b[i+1] != 0xC4 {
			return tabs, segLens, fmt.Errorf("offset %d: expected DHT marker FF C4, found % X", i, b[i:minI(i+2, len(b))])
		}
		L := int(b[i+2])<<8 | int(b[i+3])
		end := i + 2 + L
		if L < 2 || end > len(b) {
			return tabs, segLens, fmt.Errorf("offset %d: DHT length field %d runs past the end of the %d-byte string", i+2, L, len(b))
		}
		j := i + 4
		for j < end {
			if j+17 > end {
				return tabs, segLens, fmt.Errorf("offset %d: truncated table header inside the segment that the length field at offset %d closes at %d", j, i+2, end)
			}
			t := dhtTable{tc: int(b[j] >> 4), th: int(b[j] & 15), seg: len(segLens), off: j}
			total := 0
			for q := 0; q < 16; q++ {
				t.counts[q] = int(b[j+1+q])
				total += t.counts[q]
			}
			if j+17+total > end {
				return tabs, segLens, fmt.Errorf("offset %d: table Tc=%d Th=%d declares %d symbols but the segment's length field (%d at offset %d) leaves room for %d", j, t.tc, t.th, total, L, i+2, end-j-17)
			}
			t.syms = append([]byte(nil), b[j+17:j+17+total]...)
			tabs = append(tabs, t)
			j += 17 + total
		}
		segLens = append(segLens, 2+L)
		i = end
	}
	return tabs, segLens, nil
}

func minI(a, b int) int {
	if a < b {
		return a
	}
	return b
}

// canonical assigns the Annex C codes: symbols in order, code lengths
// ascending, code incremented per symbol and doubled per length.
func (t *dhtTable) canonical() error {
	t.code = map[byte][2]uint32{}
	code := uint32(0)
	k := 0
	for l := 1; l <= 16; l++ {
		for n := 0; n < t.counts[l-1]; n++ {
			if code >= (uint32(1)<<uint(l))-1 {
				return fmt.Errorf("table Tc=%d Th=%d: code %d of length %d overflows or is the reserved all-ones code", t.tc, t.th, code, l)
			}
			s := t.syms[k]
			if _, dup := t.code[s]; dup {
				return fmt.Errorf("table Tc=%d Th=%d: symbol 0x%02X listed twice", t.tc, t.th, s)
			}
			t.code[s] = [2]uint32{code, uint32(l)}
			code++
			k++
		}
		code <<= 1
	}
	return nil
}

func (x *c18) tables() {
	c, k := x.c, x.k
	info := x.info

	// ---- DHT segments ----
	dhtObj := k.obj("T.dht", relJPEG, "hardCodedDHTSegments")
	var dhtBytes []byte
	if cst, ok := dhtObj.(*types.Const); ok && cst.Val().Kind() == constant.String {
		dhtBytes = []byte(constant.StringVal(cst.Val()))
	} else if dhtObj != nil {
		c.Undecided("T.dht", relJPEG+".hardCodedDHTSegments", "hardCodedDHTSegments is a string constant", "not a string constant")
	}
	if dhtBytes != nil {
		anchor := relJPEG + ".hardCodedDHTSegments"
		tabs, segLens, err := parseDHTSegments(dhtBytes)
		if err != nil {
			c.Fail("T.dht.length", anchor, "the constant is a sequence of DHT marker segments whose 2-byte length fields match their payloads (counts[16] + that many symbols per table)", len(dhtBytes), k.g.Pos(dhtObj.Pos())+": "+err.Error())
		} else {
			c.Pass("T.dht.length", anchor, "the constant is a sequence of DHT marker segments whose 2-byte length fields match their payloads (counts[16] + that many symbols per table)", len(dhtBytes), fmt.Sprintf("%d segments of %v bytes, %d tables", len(segLens), segLens, len(tabs)))
			c.Floor("T.dht.length", "DHT segments", len(segLens), 2)
			c.Floor("T.dht.tables", "Huffman tables in the DHT segments", len(tabs), 4)
			ok := true
			var bad []string
			seen := map[[2]int]bool{}
			for i := range tabs {
				t := &tabs[i]
				if t.tc > 1 || t.th > 1 || seen[[2]int{t.tc, t.th}] {
					bad = append(bad, fmt.Sprintf("table at offset %d: class/id (Tc=%d,Th=%d) is out of the baseline range or defined twice", t.off, t.tc, t.th))
				}
				seen[[2]int{t.tc, t.th}] = true
				if err := t.canonical(); err != nil {
					bad = append(bad, err.Error())
					ok = false
				}
			}
			c.Check(len(bad) == 0, "T.dht.canon", anchor, "each table has a baseline class/id, distinct symbols, and a code assignment that fits (Kraft) and never uses the all-ones code word of any length (T.81 C.2: it would collide with byte stuffing)", len(tabs), k.g.Pos(dhtObj.Pos())+": "+strings.Join(bad, "; "))
			if ok {
				x.dht, x.dhtOK = tabs, true
			}
			// Coverage: every symbol the coder can ask for has a code.
			if ok {
				var miss []string
				sites := 0
				for i := range tabs {
					t := &tabs[i]
					var need []byte
					if t.tc == 0 {
						for s := 0; s <= 11; s++ { // DC categories 0..11 (diff in [-2047,2047])
							need = append(need, byte(s))
						}
					} else {
						need = append(need, 0x00, 0xF0) // EOB, ZRL
						for r := 0; r < 16; r++ {
							for s := 1; s <= 10; s++ { // AC categories 1..10 (|ac| <= 1023)
								need = append(need, byte(r<<4|s))
							}
						}
					}
					for _, s := range need {
						sites++
						if _, ok := t.code[s]; !ok {
							miss = append(miss, fmt.Sprintf("(Tc=%d,Th=%d) lacks symbol 0x%02X", t.tc, t.th, s))
						}
					}
				}
				c.Check(len(miss) == 0, "T.dht.cover", anchor, "every symbol the coder can look up has a code: DC categories 0..11; AC (run 0..15, category 1..10), EOB 0x00 and ZRL 0xF0 — an absent symbol has entry 0 and emitBits would silently emit nothing", sites, k.g.Pos(dhtObj.Pos())+": "+strings.Join(miss, "; "))
			}
		}
	}

	// ---- entry encoding, read from emitHuffman ----
	mask, shift, encOK := x.entryEncoding()

	// ---- huffmanBitWriters against the canonical codes ----
	if init := x.varInit("huffmanBitWriters"); init == nil {
		c.Undecided("T.huff", relJPEG+".huffmanBitWriters", "the table literal exists", "package-level variable with an initialiser not found")
	} else {
		anchor := relJPEG + ".huffmanBitWriters"
		outerN, ok1 := arrayLen(info.TypeOf(init))
		cl, ok2 := ast.Unparen(init).(*ast.CompositeLit)
		if !ok1 || !ok2 {
			c.Undecided("T.huff", anchor, "the table is an array composite literal", "shape not recognised")
		} else {
			x.writers = make([][]litEntry, outerN)
			bad := ""
			idx := int64(0)
			for _, el := range cl.Elts {
				val := el
				if kv, ok := el.(*ast.KeyValueExpr); ok {
					kk, ok := core.ConstInt64(info, kv.Key)
					if !ok {
						bad = "non-constant key"
						break
					}
					idx, val = kk, kv.Value
				}
				innerN, ok := arrayLen(info.TypeOf(val))
				if !ok || idx < 0 || idx >= outerN {
					bad = "inner element is not an array"
					break
				}
				ents, err := arrayLit(info, val, innerN)
				if err != nil {
					bad = err.Error()
					break
				}
				x.writers[idx] = ents
				idx++
			}
			if bad != "" {
				c.Undecided("T.huff", anchor, "the table is an array composite literal of constant entries", k.g.Pos(init.Pos())+": "+bad)
				x.writers = nil
			}
		}
		if x.writers != nil && x.dhtOK && encOK {
			c.Check(int64(len(x.dht)) == outerN, "T.huff.count", anchor, "there is one bit-writer table per Huffman table defined in the DHT segments", int(outerN), fmt.Sprintf("%s: %d writer tables, %d DHT tables", k.g.Pos(init.Pos()), outerN, len(x.dht)))
			for i := range x.dht {
				t := &x.dht[i]
				wi := 2*t.th + t.tc // layout [luma DC, luma AC, chroma DC, chroma AC]; cross-checked by H.use
				an := fmt.Sprintf("%s[%d]~DHT(Tc=%d,Th=%d)", anchor, wi, t.tc, t.th)
				claim := fmt.Sprintf("writer table %d holds, for each of the 256 symbols, length<<%d | code of the canonical Huffman code that DHT table (Tc=%d,Th=%d) defines, and 0 for a symbol the DHT table does not list — otherwise the bits written are not what the declared table decodes", wi, shift, t.tc, t.th)
				if wi >= len(x.writers) || x.writers[wi] == nil {
					c.Fail("T.huff.entry", an, claim, 0, "no such writer table")
					continue
				}
				ents := x.writers[wi]
				if len(ents) != 256 {
					c.Fail("T.huff.entry", an, claim, len(ents), fmt.Sprintf("writer table has %d entries, want 256 (indexed by a uint8 symbol)", len(ents)))
					continue
				}
				var diffs []string
				for s := 0; s < 256; s++ {
					want := int64(0)
					if cl, ok := t.code[byte(s)]; ok {
						if int64(cl[0]) > mask {
							diffs = append(diffs, fmt.Sprintf("symbol 0x%02X: code %d does not fit the %d-bit code field", s, cl[0], shift))
							continue
						}
						want = int64(cl[1])<<uint(shift) | int64(cl[0])
					}
					e := ents[s]
					if !e.ok {
						diffs = append(diffs, fmt.Sprintf("%s: entry [%d][0x%02X] is not a constant", k.g.Pos(e.pos), wi, s))
					} else if e.v != want {
						diffs = append(diffs, fmt.Sprintf("%s: entry [%d][0x%02X] = 0x%08X, canonical code gives 0x%08X", k.g.Pos(e.pos), wi, s, e.v, want))
					}
				}
				if len(diffs) > 6 {
					diffs = append(diffs[:6], fmt.Sprintf("… and %d more", len(diffs)-6))
				}
				c.Check(len(diffs) == 0, "T.huff.entry", an, claim, 256, strings.Join(diffs, "\n"))
			}
		}
	}

	// ---- zigzag ----
	if init := x.varInit("zigzag"); init == nil {
		c.Undecided("T.zigzag", relJPEG+".zigzag", "the table literal exists", "not found")
	} else {
		n, _ := arrayLen(info.TypeOf(init))
		ents, err := arrayLit(info, init, n)
		if err != nil || n != 64 {
			c.Undecided("T.zigzag", relJPEG+".zigzag", "zigzag is a 64-entry constant array literal", fmt.Sprintf("%s: %v (n=%d)", k.g.Pos(init.Pos()), err, n))
		} else {
			want := zigzagWalk()
			var diffs []string
			for i := 0; i < 64; i++ {
				if !ents[i].ok || ents[i].v != int64(want[i]) {
					diffs = append(diffs, fmt.Sprintf("%s: zigzag[%d] = %d, the anti-diagonal walk gives %d", k.g.Pos(ents[i].pos), i, ents[i].v, want[i]))
				}
			}
			if len(diffs) > 6 {
				diffs = diffs[:6]
			}
			c.Check(len(diffs) == 0, "T.zigzag", relJPEG+".zigzag", "zigzag[k] is the row-major index of the k-th coefficient on the standard anti-diagonal walk of the 8×8 block (T.81 Figure A.6); DQT and the AC scan are emitted in this order", 64, strings.Join(diffs, "\n"))
		}
	}

	// ---- bitCount ----
	if init := x.varInit("bitCount"); init == nil {
		c.Undecided("T.bitcount", relJPEG+".bitCount", "the table literal exists", "not found")
	} else {
		n, _ := arrayLen(info.TypeOf(init))
		ents, err := arrayLit(info, init, n)
		if err != nil || n != 256 {
			c.Undecided("T.bitcount", relJPEG+".bitCount", "bitCount is a 256-entry constant array literal", fmt.Sprintf("%s: %v (n=%d)", k.g.Pos(init.Pos()), err, n))
		} else {
			var diffs []string
			for i := 0; i < 256; i++ {
				if !ents[i].ok || ents[i].v != int64(bits.Len(uint(i))) {
					diffs = append(diffs, fmt.Sprintf("%s: bitCount[%d] = %d, bit length is %d", k.g.Pos(ents[i].pos), i, ents[i].v, bits.Len(uint(i))))
				}
			}
			if len(diffs) > 6 {
				diffs = diffs[:6]
			}
			c.Check(len(diffs) == 0, "T.bitcount", relJPEG+".bitCount", "bitCount[i] is the bit length of i (smallest n with i < 1<<n): it is the JPEG magnitude category", 256, strings.Join(diffs, "\n"))
		}
	}

	// ---- gen.go's theHuffmanSpec equals the DHT payload ----
	x.genSpec()
}

func zigzagWalk() [64]int {
	var out [64]int
	i := 0
	for s := 0; s <= 14; s++ {
		if s%2 == 1 { // down-left
			col := minI(s, 7)
			row := s - col
			for col >= 0 && row <= 7 {
				out[i] = row*8 + col
				i++
				row++
				col--
			}
		} else { // up-right
			row := minI(s, 7)
			col := s - row
			for row >= 0 && col <= 7 {
				out[i] = row*8 + col
				i++
				row--
				col++
			}
		}
	}
	return out
}

// entryEncoding reads, from emitHuffman, how a table entry is split into the
// code bits and the code length: emitBits(_, entry & MASK, entry >> SHIFT).
func (x *c18) entryEncoding() (mask, shift int64, ok bool) {
	c, k := x.c, x.k
	fl := k.flow("T.huff.encoding", relJPEG, "Encoder", "emitHuffman")
	emitBits := k.fn("T.huff.encoding", relJPEG, "Encoder", "emitBits")
	tabObj := k.obj("T.huff.encoding", relJPEG, "huffmanBitWriters")
	if fl == nil || emitBits == nil || tabObj == nil {
		return 0, 0, false
	}
	info := fl.F.Info()
	anchor := fl.F.Name()
	isEntry := fl.Denotes(func(e ast.Expr) bool {
		ix, ok := ast.Unparen(e).(*ast.IndexExpr)
		if !ok {
			return false
		}
		ix2, ok := ast.Unparen(ix.X).(*ast.IndexExpr)
		return ok && fl.Is(tabObj)(ix2.X)
	})
	var call *ast.CallExpr
	n := 0
	ast.Inspect(fl.F.Decl.Body, func(m ast.Node) bool {
		if ce, ok := m.(*ast.CallExpr); ok && core.IsCallTo(info, ce, emitBits) {
			call = ce
			n++
		}
		return true
	})
	claim := "emitHuffman looks the symbol up as huffmanBitWriters[whichHuffman][value] and passes (entry & MASK, entry >> SHIFT) with MASK = 1<<SHIFT - 1 to emitBits as (code bits, code length)"
	if n != 1 || len(call.Args) != 3 {
		c.Undecided("T.huff.encoding", anchor, claim, fmt.Sprintf("%d calls of emitBits in emitHuffman", n))
		return 0, 0, false
	}
	// An argument may be a local defined once by the expression of interest.
	resolve := func(e ast.Expr) ast.Expr {
		for d := 0; d < 3; d++ {
			id, ok := ast.Unparen(e).(*ast.Ident)
			if !ok {
				break
			}
			defs := fl.Defs()[fl.Obj(id)]
			if len(defs) != 1 {
				break
			}
			e = defs[0]
		}
		return ast.Unparen(e)
	}
	a1, ok1 := resolve(call.Args[1]).(*ast.BinaryExpr)
	a2, ok2 := resolve(call.Args[2]).(*ast.BinaryExpr)
	if !ok1 || !ok2 || a1.Op != token.AND || a2.Op != token.SHR {
		c.Undecided("T.huff.encoding", anchor, claim, k.g.Pos(call.Pos())+": arguments are not `entry & MASK` and `entry >> SHIFT`")
		return 0, 0, false
	}
	var okm bool
	switch {
	case isEntry(a1.X):
		mask, okm = core.ConstInt64(info, a1.Y)
	case isEntry(a1.Y):
		mask, okm = core.ConstInt64(info, a1.X)
	}
	var oks bool
	if isEntry(a2.X) {
		shift, oks = core.ConstInt64(info, a2.Y)
	}
	if !okm || !oks {
		c.Undecided("T.huff.encoding", anchor, claim, k.g.Pos(call.Pos())+": mask/shift are not constants applied to the table entry")
		return 0, 0, false
	}
	good := shift > 0 && shift < 28 && mask == (int64(1)<<uint(shift))-1 && (int64(16)<<uint(shift)) < (int64(1)<<32) && shift >= 16
	// The indices must be the two parameters, unmodified.
	idxOK := false
	ast.Inspect(fl.F.Decl.Body, func(m ast.Node) bool {
		ix, ok := m.(*ast.IndexExpr)
		if !ok {
			return true
		}
		if ix2, ok := ast.Unparen(ix.X).(*ast.IndexExpr); ok && fl.Is(tabObj)(ix2.X) {
			idxOK = fl.Is(fl.Param(1))(ix2.Index) && fl.Is(fl.Param(2))(ix.Index)
		}
		return true
	})
	c.Check(good && idxOK, "T.huff.encoding", anchor, claim+"; the code field is wide enough for 16-bit codes and the length field for length 16", 1,
		fmt.Sprintf("%s: MASK=0x%X SHIFT=%d, table indexed by (param whichHuffman, param value)=%v", k.g.Pos(call.Pos()), mask, shift, idxOK))
	return mask, shift, good && idxOK
}

// genSpec parses the build-ignored generator and compares its theHuffmanSpec
// literal with the tables found in the DHT constant.
func (x *c18) genSpec() {
	c := x.c
	anchor := relJPEG + "/gen.go.theHuffmanSpec"
	claim := "the generator's theHuffmanSpec (counts[16], values) equals, table for table, the payload of hardCodedDHTSegments: data.go is what gen.go generates"
	if !x.dhtOK {
		return
	}
	path := filepath.Join(c.Repo, relJPEG, "gen.go")
	fset := token.NewFileSet()
	f, err := parser.ParseFile(fset, path, nil, parser.SkipObjectResolution)
	if err != nil {
		c.Undecided("T.gen", anchor, claim, "cannot parse gen.go: "+err.Error())
		return
	}
	var lit *ast.CompositeLit
	for _, d := range f.Decls {
		gd, ok := d.(*ast.GenDecl)
		if !ok || gd.Tok != token.VAR {
			continue
		}
		for _, s := range gd.Specs {
			vs := s.(*ast.ValueSpec)
			for i, id := range vs.Names {
				if id.Name == "theHuffmanSpec" && i < len(vs.Values) {
					lit, _ = vs.Values[i].(*ast.CompositeLit)
				}
			}
		}
	}
	if lit == nil {
		c.Undecided("T.gen", anchor, claim, "theHuffmanSpec literal not found in gen.go")
		return
	}
	ints := func(e ast.Expr) ([]int64, bool) {
		cl, ok := e.(*ast.CompositeLit)
		if !ok {
			return nil, false
		}
		var out []int64
		for _, el := range cl.Elts {
			bl, ok := ast.Unparen(el).(*ast.BasicLit)
			if !ok || bl.Kind != token.INT {
				return nil, false
			}
			v, err := strconv.ParseInt(bl.Value, 0, 64)
			if err != nil {
				return nil, false
			}
			out = append(out, v)
		}
		return out, true
	}
	var diffs []string
	sites := 0
	if len(lit.Elts) != len(x.dht) {
		diffs = append(diffs, fmt.Sprintf("gen.go has %d specs, the DHT constant %d tables", len(lit.Elts), len(x.dht)))
	}
	for i, el := range lit.Elts {
		cl, ok := el.(*ast.CompositeLit)
		if !ok || len(cl.Elts) != 2 || i >= len(x.dht) {
			diffs = append(diffs, fmt.Sprintf("spec %d: shape not recognised", i))
			continue
		}
		e0, e1 := cl.Elts[0], cl.Elts[1]
		if kv, ok := e0.(*ast.KeyValueExpr); ok {
			e0 = kv.Value
		}
		if kv, ok := e1.(*ast.KeyValueExpr); ok {
			e1 = kv.Value
		}
		counts, ok1 := ints(e0)
		vals, ok2 := ints(e1)
		if !ok1 || !ok2 || len(counts) != 16 {
			diffs = append(diffs, fmt.Sprintf("spec %d: counts/values are not integer literals", i))
			continue
		}
		// gen.go order: spec[2*i+0] is DC of id i, spec[2*i+1] is AC of id i.
		var t *dhtTable
		for j := range x.dht {
			if x.dht[j].th == i/2 && x.dht[j].tc == i%2 {
				t = &x.dht[j]
			}
		}
		if t == nil {
			diffs = append(diffs, fmt.Sprintf("spec %d: no DHT table (Tc=%d,Th=%d)", i, i%2, i/2))
			continue
		}
		for q := 0; q < 16; q++ {
			sites++
			if int(counts[q]) != t.counts[q] {
				diffs = append(diffs, fmt.Sprintf("spec %d (Tc=%d,Th=%d): counts[%d] = %d in gen.go, %d in data.go", i, t.tc, t.th, q, counts[q], t.counts[q]))
			}
		}
		if len(vals) != len(t.syms) {
			diffs = append(diffs, fmt.Sprintf("spec %d: %d values in gen.go, %d symbols in data.go", i, len(vals), len(t.syms)))
			continue
		}
		for q := range vals {
			sites++
			if byte(vals[q]) != t.syms[q] {
				diffs = append(diffs, fmt.Sprintf("spec %d (Tc=%d,Th=%d): values[%d] = 0x%02X in gen.go, 0x%02X in data.go", i, t.tc, t.th, q, vals[q], t.syms[q]))
			}
		}
	}
	if len(diffs) > 6 {
		diffs = diffs[:6]
	}
	c.Check(len(diffs) == 0, "T.gen", anchor, claim, sites, "lib/lowleveljpeg/gen.go (parsed separately, //go:build ignore): "+strings.Join(diffs, "; "))
}
