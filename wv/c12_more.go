package main

// C12, further structural necessary conditions of the same kind:
//
//   D4.*  lib/dumbindent: input bytes may only be dropped silently (i.e. without
//         having been appended to dst) by a blank trimmer, by the newline split,
//         or by moving on to `remaining`.
//   R12.* lang/render.appendComment: the comment's text is appended whenever
//         there is one; only trailing spaces are taken off it.
//   R13   lang/render.Render: a line's tokens and the rest of the tokens are
//         split at one index.

import (
	"fmt"
	"go/ast"
	"go/token"
	"go/types"
	"sort"
	"strings"

	"wv/core"
)

// c12Removed describes a trimming helper: the set of byte values whose
// presence at the removed position guards every removal, or ok=false.
func c12Removed(k *gctx, hf *core.Flow) (set map[int64]bool, ok bool, why string) {
	s := hf.Param(0)
	if s == nil {
		return nil, false, "no parameter"
	}
	// removals: s = s[1:] (position 0) / s = s[:len(s)-1] (position len(s)-1)
	type removal struct {
		n   ast.Node
		pos *c12Lin
	}
	var rems []removal
	bad := ""
	ast.Inspect(hf.F.Decl.Body, func(m ast.Node) bool {
		as, isA := m.(*ast.AssignStmt)
		if !isA {
			return true
		}
		for i, l := range as.Lhs {
			if hf.Obj(l) != s || !isIdent(l) {
				continue
			}
			if len(as.Lhs) != len(as.Rhs) || as.Tok != token.ASSIGN {
				bad = "the parameter is assigned by something other than a plain re-slice"
				continue
			}
			se, isS := ast.Unparen(as.Rhs[i]).(*ast.SliceExpr)
			if !isS || hf.Obj(se.X) != s || se.Max != nil {
				bad = "the parameter is assigned by something other than a re-slice of itself"
				continue
			}
			lenS := &c12Lin{coef: map[c12Term]int64{{s, true}: 1}}
			switch {
			case se.High == nil && se.Low != nil:
				if lo, ok := c12LinOf(hf, se.Low); ok && len(lo.coef) == 0 && lo.k == 1 {
					rems = append(rems, removal{as, &c12Lin{coef: map[c12Term]int64{}}})
				} else {
					bad = "more than one byte is taken off the front at a time"
				}
			case se.Low == nil && se.High != nil:
				hi, ok := c12LinOf(hf, se.High)
				want := lenS.clone()
				want.k = -1
				if ok && hi.equal(want) {
					rems = append(rems, removal{as, want})
				} else {
					bad = "more than one byte is taken off the end at a time"
				}
			default:
				bad = "a re-slice with both bounds"
			}
		}
		return true
	})
	if bad != "" {
		return nil, false, bad
	}
	if len(rems) == 0 {
		return nil, false, "no byte removal found"
	}
	set = map[int64]bool{}
	for _, r := range rems {
		r := r
		guard := func(cond ast.Expr, ci *core.CondInfo, taken bool) bool {
			got, ok := c12ImpliesByte(hf, cond, taken, s, r.pos)
			for v := range got {
				set[v] = true
			}
			return ok
		}
		isRem := func(n ast.Node) bool { return n == r.n }
		for _, start := range []func(ast.Node) bool{nil, isRem} {
			esc, _ := hf.Escapes(core.Query{Start: start, Exit: isRem, Events: []core.Event{{Edge: guard}}})
			if len(esc) > 0 {
				return nil, false, "a byte is removed on a path that did not test it: " + esc[0].String()
			}
		}
	}
	return set, true, ""
}

// c12ImpliesByte: leaving cond along the given edge implies v[pos] ∈ set,
// where cond is a conjunction one of whose conjuncts is a disjunction of tests
// `v[pos] == c` (true edge), or a disjunction one of whose disjuncts is
// `v[pos] != c` (false edge). Conditions are single CFG nodes (go/cfg does not
// split && and ||).
func c12ImpliesByte(fl *core.Flow, cond ast.Expr, taken bool, v types.Object, pos *c12Lin) (map[int64]bool, bool) {
	info := fl.F.Info()
	test := func(e ast.Expr, op token.Token) (int64, bool) {
		be, isB := ast.Unparen(e).(*ast.BinaryExpr)
		if !isB || be.Op != op {
			return 0, false
		}
		x, y := be.X, be.Y
		if _, isIx := ast.Unparen(x).(*ast.IndexExpr); !isIx {
			x, y = y, x
		}
		ix, isIx := ast.Unparen(x).(*ast.IndexExpr)
		if !isIx || fl.Obj(ix.X) != v || !isIdent(ix.X) {
			return 0, false
		}
		p, okP := c12LinOf(fl, ix.Index)
		c, okC := core.ConstInt64(info, y)
		if !okP || !okC || !p.equal(pos) {
			return 0, false
		}
		return c, true
	}
	if taken {
		for _, cj := range flattenAnd(cond) {
			set := map[int64]bool{}
			all := true
			for _, dj := range flattenOr(cj) {
				c, ok := test(dj, token.EQL)
				if !ok {
					all = false
					break
				}
				set[c] = true
			}
			if all && len(set) > 0 {
				return set, true
			}
		}
		return nil, false
	}
	for _, dj := range flattenOr(cond) {
		if c, ok := test(dj, token.NEQ); ok {
			return map[int64]bool{c: true}, true
		}
	}
	return nil, false
}

func c12ByteNames(set map[int64]bool) string {
	var out []string
	for v := range set {
		out = append(out, fmt.Sprintf("%q", rune(v)))
	}
	sort.Strings(out)
	return strings.Join(out, ",")
}

// c12Split recognises `if K := bytes.IndexByte(L, '\n'); K >= 0 { L, R = L[:K], L[K+1:] }`.
// as is the assignment; line/rem are the variables L and R.
func c12IsSplit(fl *core.Flow, as *ast.AssignStmt, line, rem types.Object) (bool, string) {
	info := fl.F.Info()
	if len(as.Lhs) != 2 || len(as.Rhs) != 2 || as.Tok != token.ASSIGN {
		return false, "not a two-value parallel assignment"
	}
	li, ri := 0, 1
	if fl.Obj(as.Lhs[0]) == rem {
		li, ri = 1, 0
	}
	if fl.Obj(as.Lhs[li]) != line || fl.Obj(as.Lhs[ri]) != rem {
		return false, "does not assign the line and the remaining input together"
	}
	ls, ok1 := ast.Unparen(as.Rhs[li]).(*ast.SliceExpr)
	rs, ok2 := ast.Unparen(as.Rhs[ri]).(*ast.SliceExpr)
	if !ok1 || !ok2 || fl.Obj(ls.X) != line || fl.Obj(rs.X) != line || !isIdent(ls.X) || !isIdent(rs.X) ||
		ls.Low != nil || ls.High == nil || rs.Low == nil || rs.High != nil || ls.Max != nil || rs.Max != nil {
		return false, "is not (line[:K], line[K+1:])"
	}
	kId, isId := ast.Unparen(ls.High).(*ast.Ident)
	if !isId {
		return false, "the split index is not a variable"
	}
	K := fl.Obj(kId)
	lo, okLo := c12LinOf(fl, rs.Low)
	if K == nil || !okLo || !(lo.k == 1 && len(lo.coef) == 1 && lo.coef[c12Term{K, false}] == 1) {
		return false, "the remaining input does not start exactly one byte after the end of the line"
	}
	// enclosing if: Init defines K = bytes.IndexByte(line, '\n'); Cond is K >= 0; as is the first statement of the body
	path := core.PathTo(fl.F.Decl.Body, as)
	var ifs *ast.IfStmt
	for i := len(path) - 2; i >= 0; i-- {
		if x, ok := path[i].(*ast.IfStmt); ok {
			ifs = x
			break
		}
	}
	if ifs == nil || ifs.Init == nil {
		return false, "is not inside `if K := bytes.IndexByte(line, '\\n'); K >= 0`"
	}
	first := ast.Stmt(nil)
	for _, st := range ifs.Body.List {
		if es, ok := st.(*ast.ExprStmt); ok {
			if _, isLit := es.X.(*ast.BasicLit); isLit {
				continue // branch marker
			}
		}
		first = st
		break
	}
	if first != ast.Stmt(as) {
		return false, "is not the first statement under the index test"
	}
	init, ok := ifs.Init.(*ast.AssignStmt)
	if !ok || len(init.Lhs) != 1 || len(init.Rhs) != 1 || fl.Obj(init.Lhs[0]) != K {
		return false, "the if statement does not define the split index"
	}
	call, ok := ast.Unparen(init.Rhs[0]).(*ast.CallExpr)
	if !ok || len(call.Args) != 2 {
		return false, "the split index is not bytes.IndexByte(line, '\\n')"
	}
	fn := core.Callee(info, call)
	nl, isNL := core.ConstInt64(info, call.Args[1])
	if fn == nil || fn.FullName() != "bytes.IndexByte" || fl.Obj(call.Args[0]) != line || !isIdent(call.Args[0]) || !isNL || nl != '\n' {
		return false, "the split index is not bytes.IndexByte(line, '\\n')"
	}
	// cond: K >= 0  (0 < K+1)
	d, okD := c12Positive(fl, ifs.Cond)
	if !okD || !(len(d.coef) == 1 && d.coef[c12Term{K, false}] == 1 && d.k == 1) {
		if be, isB := ast.Unparen(ifs.Cond).(*ast.BinaryExpr); isB && be.Op == token.NEQ {
			if v, isK := core.ConstInt64(info, be.Y); isK && v == -1 && fl.Obj(be.X) == K {
				return true, ""
			}
		}
		return false, "the test is not K >= 0"
	}
	return true, ""
}

func runC12More(k *gctx) {
	runC12Drops(k)
	runC12AppendComment(k)
	runC12TokenSplit(k)
}

// ---- D4 ----

func runC12Drops(k *gctx) {
	c := k.c
	fl := k.flow("D4", "lib/dumbindent", "", "FormatBytes")
	hf := k.flow("D4", "lib/dumbindent", "", "handleRaw")
	p := k.g.Pkg("lib/dumbindent")
	if fl == nil || hf == nil || p == nil {
		return
	}
	info := fl.F.Info()
	name := fl.F.Name()
	summaries := map[*types.Func]string{}
	flows := map[*types.Func]*core.Flow{}
	for _, f := range k.g.AllFuncs(p) {
		if f.Obj != nil {
			if s := c12Summary(f); s != "" {
				summaries[f.Obj] = s
				flows[f.Obj] = k.flow("D4", "lib/dumbindent", "", f.Decl.Name.Name)
			}
		}
	}
	src := fl.Param(1)
	var line, rem types.Object
	var lineLoop *ast.ForStmt
	ast.Inspect(fl.F.Decl.Body, func(m ast.Node) bool {
		if fs, ok := m.(*ast.ForStmt); ok && line == nil {
			if as, ok := fs.Init.(*ast.AssignStmt); ok && len(as.Lhs) >= 1 {
				line = fl.Obj(as.Lhs[0])
				lineLoop = fs
			}
		}
		return true
	})
	if lineLoop != nil {
		if post, ok := lineLoop.Post.(*ast.AssignStmt); ok && len(post.Lhs) == 1 && len(post.Rhs) == 1 && fl.Obj(post.Lhs[0]) == src && isIdent(post.Rhs[0]) {
			rem = fl.Obj(post.Rhs[0])
		}
	}
	claimNext := "the line loop moves on with `src = remaining` (post statement): any other step skips or repeats input lines"
	if line == nil || rem == nil || src == nil {
		c.Undecided("D4.src", name, claimNext, "the line loop `for line, remaining := src, nil; …; src = remaining` was not found")
		return
	}
	// trimmers and what they remove, lazily
	type trimInfo struct {
		set map[int64]bool
		ok  bool
		why string
	}
	trims := map[*types.Func]*trimInfo{}
	trimOf := func(fn *types.Func) *trimInfo {
		if t := trims[fn]; t != nil {
			return t
		}
		t := &trimInfo{}
		if hfl := flows[fn]; hfl != nil {
			t.set, t.ok, t.why = c12Removed(k, hfl)
		} else {
			t.why = "not a prefix/suffix helper"
		}
		trims[fn] = t
		return t
	}
	blanks := map[int64]bool{' ': true, '\t': true}
	blanksNL := map[int64]bool{' ': true, '\t': true, '\n': true}
	subset := func(a, b map[int64]bool) bool {
		for v := range a {
			if !b[v] {
				return false
			}
		}
		return true
	}
	claimBlank := "bytes are only dropped from the input without being copied to the output by helpers that remove a byte after testing that it is a space or a tab (or, for the whole input's front, a newline): a trimmer that removes anything else loses non-blank input"
	nBlank := 0
	checkTrim := func(call *ast.CallExpr, v types.Object, want string, allowed map[int64]bool, where string) bool {
		fn := core.Callee(info, call)
		if fn == nil || summaries[fn] != want || len(call.Args) < 1 || fl.Obj(call.Args[0]) != v || !isIdent(call.Args[0]) {
			return false
		}
		t := trimOf(fn)
		nBlank++
		anchor := name + "[" + where + " " + core.Src(k.g.Fset, call) + "]"
		switch {
		case !t.ok:
			c.Undecided("D4.blank", anchor, claimBlank, k.g.Pos(call.Pos())+": "+fn.Name()+": "+t.why)
		default:
			c.Check(subset(t.set, allowed), "D4.blank", anchor, claimBlank, len(t.set),
				fmt.Sprintf("%s: %s removes bytes {%s}; allowed here: {%s}", k.g.Pos(call.Pos()), fn.Name(), c12ByteNames(t.set), c12ByteNames(allowed)))
		}
		return true
	}
	inLoop := func(n ast.Node) bool { return n.Pos() >= lineLoop.Pos() && n.End() <= lineLoop.End() }

	// D4.src / D4.rem / D4.endtrim over FormatBytes
	an := &c12An{k: k, fl: fl, src: src, line: line, dst: fl.Param(0), rawFn: hf.F.Obj, rawOK: true, summaries: summaries}
	var badSrc, badRem, badTrim []string
	nSrc, nRem, nTrim, nSplit := 0, 0, 0, 0
	ast.Inspect(fl.F.Decl.Body, func(m ast.Node) bool {
		as, ok := m.(*ast.AssignStmt)
		if !ok {
			return true
		}
		tuple := len(as.Rhs) == 1 && len(as.Lhs) > 1
		var tcall *ast.CallExpr
		if tuple {
			tcall, _ = ast.Unparen(as.Rhs[0]).(*ast.CallExpr)
		}
		for i, l := range as.Lhs {
			o := fl.Obj(l)
			if o == nil || !isIdent(l) {
				continue
			}
			pos := k.g.Pos(as.Pos())
			var rhs ast.Expr
			if !tuple && len(as.Rhs) == len(as.Lhs) {
				rhs = as.Rhs[i]
			}
			fromRaw := func(idx int) bool { return tuple && an.isRaw(tcall) && i == idx }
			switch o {
			case src:
				nSrc++
				switch {
				case fromRaw(1):
				case rhs != nil && isIdent(rhs) && fl.Obj(rhs) == rem && ast.Stmt(as) == lineLoop.Post:
				case rhs != nil:
					call, isC := ast.Unparen(rhs).(*ast.CallExpr)
					allowed := blanksNL
					if inLoop(as) {
						allowed = blanks
					}
					if !isC || !checkTrim(call, src, "suffix", allowed, "src =") {
						badSrc = append(badSrc, pos+": src is assigned from "+core.Src(k.g.Fset, rhs))
					}
				default:
					badSrc = append(badSrc, pos+": src is assigned from an unrecognised multi-value expression")
				}
			case rem:
				nRem++
				switch {
				case fromRaw(3):
				case rhs != nil && (core.IsNilIdent(info, rhs) || c12NilConv(info, rhs)):
				case rhs != nil:
					if ok, why := c12IsSplit(fl, as, line, rem); ok {
						nSplit++
					} else {
						badRem = append(badRem, pos+": `"+core.Src(k.g.Fset, as)+"` "+why)
					}
				default:
					badRem = append(badRem, pos+": remaining is assigned from an unrecognised multi-value expression")
				}
			case line:
				if rhs == nil || !an.prefixOfLine(rhs) || (isIdent(rhs) && fl.Obj(rhs) == line) {
					continue
				}
				nTrim++
				if call, isC := ast.Unparen(rhs).(*ast.CallExpr); isC && checkTrim(call, line, "prefix", blanks, "line =") {
					continue
				}
				if ok, why := c12IsSplit(fl, as, line, rem); !ok {
					badTrim = append(badTrim, pos+": `"+core.Src(k.g.Fset, as)+"` takes bytes off the end of the line and "+why)
				}
			}
		}
		return true
	})
	c.Check(len(badSrc) == 0 && nSrc >= 5, "D4.src", name, "src is only advanced by a blank trimmer, by `src = remaining` in the line loop's post statement, or by handleRaw (which copies what it skips): any other assignment drops or repeats input", nSrc, strings.Join(badSrc, "\n"))
	c.Check(len(badRem) == 0 && nRem >= 4, "D4.rem", name, "remaining is only nil, handleRaw's result, or line[K+1:] set together with line = line[:K] for K = bytes.IndexByte(line, '\\n') >= 0: exactly the newline (re-added after the line) lies between a line and the remaining input", nRem, strings.Join(badRem, "\n"))
	c.Check(len(badTrim) == 0 && nTrim >= 3, "D4.endtrim", name, "bytes are only taken off the end of the line by trimTrailingWhiteSpace or by the newline split: anything else drops the end of an input line", nTrim, strings.Join(badTrim, "\n"))
	c.Floor("D4.split", "newline splits in FormatBytes", nSplit, 1)
	c.Floor("D4.blank", "uses of blank trimmers on src/line in FormatBytes", nBlank, 4)

	// the same split in handleRaw
	hname := hf.F.Name()
	var hLine, hRem types.Object
	ast.Inspect(hf.F.Decl.Body, func(m ast.Node) bool {
		if r, ok := m.(*ast.ReturnStmt); ok && len(r.Results) == 4 && isIdent(r.Results[2]) && isIdent(r.Results[3]) {
			hLine, hRem = hf.Obj(r.Results[2]), hf.Obj(r.Results[3])
		}
		return true
	})
	if hLine == nil || hRem == nil {
		c.Undecided("D4.rem", hname, "handleRaw returns its line and remaining variables", "not found (see D3.aligned)")
		return
	}
	var bad []string
	n := 0
	ast.Inspect(hf.F.Decl.Body, func(m ast.Node) bool {
		as, ok := m.(*ast.AssignStmt)
		if !ok {
			return true
		}
		for i, l := range as.Lhs {
			if hf.Obj(l) != hRem || !isIdent(l) {
				continue
			}
			n++
			if len(as.Rhs) == len(as.Lhs) && core.IsNilIdent(hf.F.Info(), as.Rhs[i]) {
				continue
			}
			if ok, why := c12IsSplit(hf, as, hLine, hRem); !ok {
				bad = append(bad, k.g.Pos(as.Pos())+": `"+core.Src(k.g.Fset, as)+"` "+why)
			}
		}
		return true
	})
	c.Check(len(bad) == 0 && n >= 2, "D4.rem", hname, "handleRaw's remaining is only nil or line[K+1:] set together with line = line[:K] for K = bytes.IndexByte(line, '\\n') >= 0", n, strings.Join(bad, "\n"))
}

// c12NilConv: []byte(nil)
func c12NilConv(info *types.Info, e ast.Expr) bool {
	call, ok := ast.Unparen(e).(*ast.CallExpr)
	if !ok || len(call.Args) != 1 {
		return false
	}
	tv, isT := info.Types[call.Fun]
	return isT && tv.IsType() && core.IsNilIdent(info, call.Args[0])
}

// ---- R12: appendComment ----

func runC12AppendComment(k *gctx) {
	c := k.c
	fl := k.flow("R12", "lang/render", "", "appendComment")
	if fl == nil {
		return
	}
	info := fl.F.Info()
	name := fl.F.Name()
	buf, comments, line := fl.Param(0), fl.Param(1), fl.Param(2)
	if buf == nil || comments == nil || line == nil {
		c.Undecided("R12.text", name, "appendComment(buf, comments, line, …)", "parameters not found")
		return
	}
	isAt := func(e ast.Expr) bool {
		ix, ok := ast.Unparen(e).(*ast.IndexExpr)
		return ok && isIdent(ix.X) && fl.Obj(ix.X) == comments && isIdent(ix.Index) && fl.Obj(ix.Index) == line
	}
	// com: the local defined as comments[line]
	var com types.Object
	for o, defs := range fl.Defs() {
		for _, d := range defs {
			if isAt(d) && c12LocalVar(o) {
				com = o
			}
		}
	}
	if com == nil {
		c.Undecided("R12.text", name, "the comment text is a local defined as comments[line]", "not found")
		return
	}
	isEmptyStr := func(e ast.Expr) bool {
		cv := core.ConstVal(info, e)
		return cv != nil && cv.ExactString() == `""`
	}
	appendsCom := func(n ast.Node) bool {
		call, _, ok := assignOf(fl, n, buf)
		return ok && isBuiltinCall(call, "append") && len(call.Args) == 2 && call.Ellipsis.IsValid() && fl.Obj(call.Args[0]) == buf && isIdent(call.Args[1]) && fl.Obj(call.Args[1]) == com
	}
	exempt := func(cond ast.Expr, ci *core.CondInfo, taken bool) bool {
		// line out of range: 0 < len(comments) - line is false
		if d, ok := c12Positive(fl, cond); ok && d.k == 0 && len(d.coef) == 2 && d.coef[c12Term{comments, true}] == 1 && d.coef[c12Term{line, false}] == -1 {
			return !taken
		}
		// no comment on this line: com == "" / comments[line] == ""
		be, ok := ast.Unparen(cond).(*ast.BinaryExpr)
		if !ok || (be.Op != token.EQL && be.Op != token.NEQ) {
			return false
		}
		isCom := func(e ast.Expr) bool { return isAt(e) || (isIdent(e) && fl.Obj(e) == com) }
		if (isCom(be.X) && isEmptyStr(be.Y)) || (isCom(be.Y) && isEmptyStr(be.X)) {
			return taken == (be.Op == token.EQL)
		}
		return false
	}
	k.mustPass("R12.text", name, "whenever the line has a comment (index in range, text not empty) its text is appended to the buffer before appendComment returns: any other way out drops the comment", fl, core.Query{
		Exit: func(n ast.Node) bool { _, isR := n.(*ast.ReturnStmt); return isR }, FuncEnd: true, Exempt: exempt,
		Events: []core.Event{{Node: appendsCom}}})
	// trims: com = com[:len(com)-1] only after testing that byte to be a space
	var trims []ast.Node
	bad := ""
	lenCom := &c12Lin{coef: map[c12Term]int64{{com, true}: 1}, k: -1}
	ast.Inspect(fl.F.Decl.Body, func(m ast.Node) bool {
		as, ok := m.(*ast.AssignStmt)
		if !ok {
			return true
		}
		for i, l := range as.Lhs {
			if fl.Obj(l) != com || !isIdent(l) {
				continue
			}
			if len(as.Rhs) != len(as.Lhs) {
				bad = k.g.Pos(as.Pos()) + ": the comment text is assigned from a multi-value expression"
				continue
			}
			if isAt(as.Rhs[i]) {
				continue
			}
			se, isS := ast.Unparen(as.Rhs[i]).(*ast.SliceExpr)
			hi := (*c12Lin)(nil)
			if isS && se.High != nil {
				hi, _ = c12LinOf(fl, se.High)
			}
			if !isS || fl.Obj(se.X) != com || se.Low != nil || se.Max != nil || !hi.equal(lenCom) {
				bad = k.g.Pos(as.Pos()) + ": the comment text is changed by `" + core.Src(k.g.Fset, as) + "`, which is not the removal of its last byte"
				continue
			}
			trims = append(trims, as)
		}
		return true
	})
	claimT := "the only change made to a comment's text is the removal of trailing spaces: each removal of the last byte follows a test that this byte is ' '"
	if bad != "" {
		c.Fail("R12.trim", name, claimT, 1, bad)
		return
	}
	guard := func(cond ast.Expr, ci *core.CondInfo, taken bool) bool {
		got, ok := c12ImpliesByte(fl, cond, taken, com, lenCom)
		return ok && len(got) == 1 && got[' ']
	}
	okAll := true
	var det []string
	sites := 0
	for _, t := range trims {
		t := t
		isT := func(n ast.Node) bool { return n == t }
		for _, start := range []func(ast.Node) bool{nil, isT} {
			esc, s := fl.Escapes(core.Query{Start: start, Exit: isT, Events: []core.Event{{Edge: guard}}})
			sites += s
			for _, e := range esc {
				okAll = false
				det = append(det, e.String())
			}
		}
	}
	c.Check(okAll && len(trims) >= 1, "R12.trim", name, claimT, sites, strings.Join(det, "\n"))
}

// ---- R13: the token split of Render's main loop ----

func runC12TokenSplit(k *gctx) {
	c := k.c
	fl := k.flow("R13", "lang/render", "", "Render")
	if fl == nil {
		return
	}
	name := fl.F.Name()
	toks := fl.Param(2)
	claim := "the tokens of the current line are src[:i] and the loop continues with src[i:], the same i: a different index drops or repeats tokens at every line boundary"
	var bad []string
	nAssign, nPair := 0, 0
	var walk func(list []ast.Stmt)
	walk = func(list []ast.Stmt) {
		for idx, st := range list {
			as, ok := st.(*ast.AssignStmt)
			if !ok {
				continue
			}
			for i, l := range as.Lhs {
				if fl.Obj(l) != toks || !isIdent(l) {
					continue
				}
				nAssign++
				pos := k.g.Pos(as.Pos())
				if len(as.Rhs) != len(as.Lhs) {
					bad = append(bad, pos+": the token list is assigned from a multi-value expression")
					continue
				}
				se, isS := ast.Unparen(as.Rhs[i]).(*ast.SliceExpr)
				if !isS || fl.Obj(se.X) != toks || se.Low == nil || se.High != nil || se.Max != nil {
					bad = append(bad, pos+": the token list is assigned something other than src[K:]")
					continue
				}
				lo, okLo := c12LinOf(fl, se.Low)
				if !okLo {
					bad = append(bad, pos+": the index of src[K:] is not a sum of int locals and constants")
					continue
				}
				// nearest preceding statement in the same list that takes src[:K']
				found := false
				for j := idx - 1; j >= 0 && !found; j-- {
					prev, ok := list[j].(*ast.AssignStmt)
					if !ok {
						if _, isExpr := list[j].(*ast.ExprStmt); isExpr {
							continue
						}
						break // a compound statement in between may change the index
					}
					assignsIdx := false
					for t := range lo.coef {
						if c12AssignsObj(fl, prev, t.obj) {
							assignsIdx = true
						}
					}
					for pi, r := range prev.Rhs {
						ps, isS := ast.Unparen(r).(*ast.SliceExpr)
						if !isS || fl.Obj(ps.X) != toks || ps.Low != nil || ps.High == nil || ps.Max != nil || len(prev.Lhs) != len(prev.Rhs) {
							continue
						}
						_ = pi
						hi, okHi := c12LinOf(fl, ps.High)
						found = true
						if !okHi || !hi.equal(lo) {
							bad = append(bad, fmt.Sprintf("%s: the line's tokens are src[:%s] but the loop continues with src[%s:]", pos, hi, lo))
						} else {
							nPair++
						}
					}
					if !found && assignsIdx {
						break
					}
				}
				if !found {
					bad = append(bad, pos+": no `lineTokens := src[:K]` directly before `src = src[K:]`")
				}
			}
		}
	}
	ast.Inspect(fl.F.Decl.Body, func(m ast.Node) bool {
		switch x := m.(type) {
		case *ast.BlockStmt:
			walk(x.List)
		case *ast.CaseClause:
			walk(x.Body)
		}
		return true
	})
	c.Check(len(bad) == 0 && nAssign == 1 && nPair == 1, "R13.split", name, claim, nAssign, strings.Join(bad, "\n"))
}
