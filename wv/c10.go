package main

import (
	"fmt"
	"os"
	"path/filepath"
	"regexp"
	"sort"
	"strings"
	"sync"

	"wv/core"

	a "github.com/google/wuffs/lang/ast"
)

func init() {
	register("C10", core.Spec{
		Decides:    "for the object file compiled (never executed) from the C that the working tree's compiler generates for all of std/, in each build configuration: (1) no writable or thread-local data section of non-zero size other than read-only-after-relocation constant tables, no COMMON symbols; (2) undefined symbols ⊆ {memcpy, memmove, memset, memcmp, calloc, free} with calloc/free referenced only from *__alloc functions; (3) every exported function symbol of a generated package is a `pub` method of a `pub` struct (oracle: std/*.wuffs read through the Wuffs front end), or its initialize/alloc/sizeof helper, and every private method has a local symbol; (4) every pure method's C function takes a const receiver, contains no store through self and no const-stripping cast of self, and the object compiles with discarded-qualifier errors enabled; plus the front-end effect rules (parseAssignNode / parseExpr / tcheckExprCall / tcheckDot) on go/cfg; (5) hand-written templates define no non-const file-scope or static-local object",
		NotDecided: "pure-ness for programs outside std beyond the front-end rules; writes through slices derived with wuffs_base__strip_const_from_u8_ptr are excluded at the Wuffs level by the effect rules, not at the C level; linker-level properties of a final executable",
		Assumptions: []string{"gcc/clang, readelf, nm (binutils) report sections, symbols and relocations faithfully",
			"-O0 -ffunction-sections -fdata-sections keeps every function and datum in its own section, so each relocation/section is attributed to one symbol",
			"the Wuffs front end (lang/token, parse, check) as the reader of std/*.wuffs `pub` declarations"},
		Exhaustive: true,
	}, runC10)
}

type elfSection struct {
	name, typ, flags string
	size             int64
}

var reSecHead = regexp.MustCompile(`^\s*\[\s*\d+\]\s+(.*)$`)

func parseSections(out string) []elfSection {
	var secs []elfSection
	for _, ln := range strings.Split(out, "\n") {
		m := reSecHead.FindStringSubmatch(ln)
		if m == nil {
			continue
		}
		f := strings.Fields(m[1])
		// name type addr off size es [flags] lk inf al
		if len(f) < 9 {
			continue
		}
		var sz int64
		fmt.Sscanf(f[4], "%x", &sz)
		flags := ""
		if len(f) >= 10 {
			flags = f[6]
		}
		secs = append(secs, elfSection{name: f[0], typ: f[1], flags: flags, size: sz})
	}
	return secs
}

var allowedUndefined = map[string]bool{"memcpy": true, "memmove": true, "memset": true, "memcmp": true, "calloc": true, "free": true}

// Hand-written base functions with a private name but external linkage, frozen with reason.
var privateImplExported = map[string]string{
	"wuffs_private_impl__high_prec_dec__to_f64": "floatconv helper declared WUFFS_BASE__MAYBE_STATIC in the hand-written base; part of base, not of a generated package",
}

func runC10(c *core.Ctx) {
	cb := c.BuildC()
	if cb == nil {
		return
	}
	std := loadStd(c, cb)

	// Oracle from tier W.
	type structInfo struct {
		pub  bool
		pubM map[string]bool
		priM map[string]bool
	}
	oracle := map[string]map[string]*structInfo{} // pkg -> struct -> info
	nPub, nPri, nPure := 0, 0, 0
	for _, p := range std {
		oracle[p.Name] = map[string]*structInfo{}
		for _, s := range p.Structs {
			oracle[p.Name][p.str(s.QID()[1])] = &structInfo{pub: s.Public(), pubM: map[string]bool{}, priM: map[string]bool{}}
		}
		for _, f := range p.Funcs {
			si := oracle[p.Name][p.str(f.Receiver()[1])]
			if si == nil {
				continue
			}
			if f.Public() {
				si.pubM[p.str(f.FuncName())] = true
				nPub++
			} else {
				si.priM[p.str(f.FuncName())] = true
				nPri++
			}
		}
	}
	c.Analysed("pub_methods", nPub)
	c.Analysed("pri_methods", nPri)

	cfgs := []core.CompileConfig{core.CfgGccDefault, core.CfgGccAvoidArch}
	if c.Thorough() {
		cfgs = append(cfgs, core.CfgClangDefault, core.CfgClangAvoid)
	}
	type objres struct {
		cfg                   core.CompileConfig
		obj, err              string
		secs, nmOut, relocOut string
	}
	res := make([]objres, len(cfgs))
	var wg sync.WaitGroup
	for i, cfg := range cfgs {
		wg.Add(1)
		go func(i int, cfg core.CompileConfig) {
			defer wg.Done()
			r := objres{cfg: cfg}
			r.obj, r.err = cb.Object(cfg)
			if r.obj != "" {
				r.secs, _ = core.Tool("readelf", "-SW", r.obj)
				r.nmOut, _ = core.Tool("nm", r.obj)
				r.relocOut, _ = core.Tool("readelf", "-rW", r.obj)
			}
			res[i] = r
		}(i, cfg)
	}
	wg.Wait()
	c.Analysed("compile_flags", strings.Join(core.BaseCFlags, " "))
	var cfgNames []string
	for _, r := range res {
		cfgNames = append(cfgNames, r.cfg.Name)
		anchor := "object[" + r.cfg.Name + "]"
		if r.obj == "" {
			c.Fail("E12.compile", anchor, "the generated C for std compiles with -Werror=discarded-qualifiers -Werror=incompatible-pointer-types -Werror=implicit-function-declaration", 1, r.err)
			continue
		}
		c.Pass("E12.compile", anchor, "the generated C for std compiles with -Werror=discarded-qualifiers -Werror=incompatible-pointer-types -Werror=implicit-function-declaration (a pure method writing through its const receiver would not)", 1, "")
		// (1) sections
		secs := parseSections(r.secs)
		nW, bad := 0, []string{}
		for _, s := range secs {
			if s.size == 0 {
				continue
			}
			if strings.Contains(s.flags, "T") {
				bad = append(bad, fmt.Sprintf("thread-local section %s size %d", s.name, s.size))
			}
			if strings.Contains(s.flags, "W") {
				nW++
				if !strings.HasPrefix(s.name, ".data.rel.ro") {
					bad = append(bad, fmt.Sprintf("writable section %s size %d flags %s (with -fdata-sections the suffix names the object)", s.name, s.size, s.flags))
				}
			}
		}
		if len(secs) < 100 {
			c.Undecided("E12.sections", anchor, "section table parsed", fmt.Sprintf("only %d sections parsed from readelf -SW", len(secs)))
		} else {
			for _, b := range bad {
				// one obligation per offending section so that a known finding suppresses exactly one
				name := strings.Fields(b)[2]
				c.Fail("E12.writable", anchor+"["+name+"]", "no writable global or thread-local data in the object", 1, b)
			}
			if len(bad) == 0 {
				c.Pass("E12.sections", anchor, "every non-empty writable section is a .data.rel.ro* constant table; no .data/.bss/.tdata/.tbss content", len(secs), fmt.Sprintf("%d sections, %d non-empty with W flag, all .data.rel.ro*", len(secs), nW))
			}
		}
		// symbols
		type sym struct{ typ, name string }
		var syms []sym
		for _, ln := range strings.Split(r.nmOut, "\n") {
			f := strings.Fields(ln)
			switch len(f) {
			case 2:
				syms = append(syms, sym{f[0], f[1]})
			case 3:
				syms = append(syms, sym{f[1], f[2]})
			}
		}
		var undef, common []string
		exportsT := map[string]bool{}
		localT := map[string]bool{}
		for _, s := range syms {
			switch s.typ {
			case "U":
				undef = append(undef, s.name)
			case "C":
				common = append(common, s.name)
			case "T":
				exportsT[s.name] = true
			case "t":
				localT[s.name] = true
			case "B", "b", "S", "s":
				c.Fail("E12.writable", anchor+"["+s.name+"]", "no writable global data", 1, "nm type "+s.typ+" symbol "+s.name)
			}
		}
		c.Check(len(common) == 0, "E12.common", anchor, "no COMMON (tentative, writable) symbols", len(syms), strings.Join(common, " "))
		// (2) undefined
		var badU []string
		for _, u := range undef {
			if !allowedUndefined[u] {
				badU = append(badU, u)
			}
		}
		sort.Strings(undef)
		c.Check(len(badU) == 0 && len(undef) > 0, "E12.undefined", anchor, "external references ⊆ {memcpy, memmove, memset, memcmp, calloc, free}", len(undef),
			fmt.Sprintf("undefined: %v; not allowed: %v", undef, badU))
		// calloc/free relocations
		cur := ""
		nAllocRel := 0
		var badRel []string
		reRel := regexp.MustCompile(`^Relocation section '([^']+)'`)
		reAllocFn := regexp.MustCompile(`^\.rela\.text\.wuffs_[a-z0-9]+__[a-z0-9_]+__alloc$`)
		for _, ln := range strings.Split(r.relocOut, "\n") {
			if m := reRel.FindStringSubmatch(ln); m != nil {
				cur = m[1]
				continue
			}
			f := strings.Fields(ln)
			if len(f) < 5 {
				continue
			}
			symn := f[4]
			if symn == "calloc" || symn == "free" {
				nAllocRel++
				if !reAllocFn.MatchString(cur) {
					badRel = append(badRel, symn+" referenced from "+cur)
				}
			}
		}
		c.Check(len(badRel) == 0 && nAllocRel > 0, "E12.alloc", anchor, "calloc/free are referenced solely from the wuffs_<pkg>__<struct>__alloc convenience functions", nAllocRel, strings.Join(badRel, "; "))
		// (3) exports
		nExp, nBase := 0, 0
		for name := range exportsT {
			switch {
			case strings.HasPrefix(name, "wuffs_base__"):
				nBase++
				continue
			case strings.HasPrefix(name, "wuffs_private_impl__"):
				if _, ok := privateImplExported[name]; !ok {
					c.Fail("E12.exports", anchor+"["+name+"]", "private implementation functions have internal linkage", 1, "exported (nm T) symbol "+name)
				}
				continue
			}
			nExp++
			ok, why := false, ""
			if strings.HasPrefix(name, "sizeof__wuffs_") {
				parts := strings.Split(strings.TrimPrefix(name, "sizeof__wuffs_"), "__")
				if len(parts) == 2 && oracle[parts[0]] != nil && oracle[parts[0]][parts[1]] != nil && oracle[parts[0]][parts[1]].pub {
					ok = true
				} else {
					why = "no such pub struct"
				}
			} else if strings.HasPrefix(name, "wuffs_") {
				parts := strings.SplitN(strings.TrimPrefix(name, "wuffs_"), "__", 3)
				if len(parts) == 3 && oracle[parts[0]] != nil && oracle[parts[0]][parts[1]] != nil {
					si := oracle[parts[0]][parts[1]]
					switch {
					case !si.pub:
						why = "struct is not pub"
					case parts[2] == "initialize" || parts[2] == "alloc" || si.pubM[parts[2]]:
						ok = true
					case si.priM[parts[2]]:
						why = "method is declared pri in std/" + parts[0]
					default:
						why = "no such method declared in std/" + parts[0]
					}
				} else {
					why = "not of the form wuffs_<pkg>__<struct>__<method>"
				}
			} else {
				why = "foreign name"
			}
			if !ok {
				c.Fail("E12.exports", anchor+"["+name+"]", "exported functions are exactly the pub methods and their initialize/alloc/sizeof helpers", 1, "exported (nm T) symbol "+name+": "+why)
			}
		}
		// every pub method exported, every pri method local (or absent), per oracle
		missing, leaked := []string{}, []string{}
		cpuArchAbsent := 0
		for _, p := range std {
			for _, f := range p.Funcs {
				cn := p.funcCName(f)
				si := oracle[p.Name][p.str(f.Receiver()[1])]
				if si == nil {
					continue
				}
				if f.Public() && si.pub {
					if !exportsT[cn] {
						missing = append(missing, cn)
					}
				} else {
					if exportsT[cn] {
						leaked = append(leaked, cn)
					}
					if !localT[cn] {
						cpuArchAbsent++
					}
				}
			}
		}
		c.Check(len(leaked) == 0, "E12.private", anchor, "every pri method has internal linkage (no T symbol)", nPri, strings.Join(leaked, " "))
		c.Check(len(missing) == 0, "E12.public", anchor, "every pub method of a pub struct is present as an exported symbol (the export rule is not vacuous)", nPub, strings.Join(missing, " "))
		c.Floor("E12.exports."+r.cfg.Name, "exported generated-package functions examined", nExp, 300)
		c.Analysed("exports_"+r.cfg.Name, map[string]int{"generated": nExp, "base": nBase, "private_not_emitted(cpu_arch or unused)": cpuArchAbsent})
	}
	c.Analysed("configurations", cfgNames)

	// (4a) pure methods in generated C.
	pureCheck(c, cb, std, &nPure)

	// (4b) front-end effect rules.
	runC10Effects(c)

	// (5) templates.
	runC10Templates(c)
}

func isAssignOp(t core.CTok) bool {
	if t.Kind != 'p' {
		return false
	}
	switch t.Text {
	case "=", "+=", "-=", "*=", "/=", "%=", "&=", "|=", "^=", "<<=", ">>=":
		return true
	}
	return false
}

func pureCheck(c *core.Ctx, cb *core.CBuild, std []*WPkg, nPure *int) {
	n := 0
	for _, p := range std {
		src, err := os.ReadFile(cb.PkgC[p.Name])
		if err != nil {
			c.Infra("read generated C: %v", err)
		}
		cf := core.CParseFile(cb.PkgC[p.Name], string(src))
		for _, f := range p.Funcs {
			if f.Effect().Impure() || f.Effect().Coroutine() {
				continue
			}
			if len(f.Body()) == 0 && !f.Public() {
				// interface stubs etc.
			}
			cn := p.funcCName(f)
			cfn := cf.ByNam[cn]
			anchor := "generated C " + cn
			if cfn == nil {
				c.Undecided("P4a.const", anchor, "C definition of this pure method found", "no definition in "+filepath.Base(cb.PkgC[p.Name]))
				continue
			}
			n++
			// receiver is `const T* self`
			params := core.CText(cfn.Params)
			first := strings.TrimSpace(strings.SplitN(params, ",", 2)[0])
			constRecv := strings.HasPrefix(first, "const ") && strings.HasSuffix(first, "* self")
			var bad []string
			if !constRecv {
				bad = append(bad, fmt.Sprintf("line %d: receiver parameter is `%s`, not const", cfn.Line, first))
			}
			stmts, perr := core.CParseBody(cfn.Body)
			if perr != nil {
				c.Undecided("P4a.parse", anchor, "body parses", perr.Error())
				continue
			}
			core.CWalk(stmts, func(s *core.CStmt) bool {
				toks := s.Toks
				depth := 0
				for i, t := range toks {
					if t.Is("(") || t.Is("[") {
						depth++
					} else if t.Is(")") || t.Is("]") {
						depth--
					}
					if isAssignOp(t) || t.Is("++") || t.Is("--") {
						// lvalue = tokens before the operator back to the start of the sub-expression
						j := i - 1
						d := 0
						for j >= 0 {
							if toks[j].Is(")") || toks[j].Is("]") {
								d++
							} else if toks[j].Is("(") || toks[j].Is("[") {
								if d == 0 {
									break
								}
								d--
							} else if d == 0 && (toks[j].Is(",") || toks[j].Is(";") || toks[j].Is("?") || toks[j].Is(":") || isAssignOp(toks[j])) {
								break
							}
							j--
						}
						lhs := toks[j+1 : i]
						if t.Is("++") || t.Is("--") {
							// postfix handled by lhs; prefix: operand follows
							if len(lhs) == 0 && i+1 < len(toks) {
								lhs = toks[i+1:]
							}
						}
						if len(lhs) >= 2 && lhs[0].Is("self") && lhs[1].Is("->") {
							bad = append(bad, fmt.Sprintf("line %d: store through the receiver: %s", t.Line, core.CText(toks)))
						}
					}
					// cast applied to self: `) self`
					if t.Is(")") && i+1 < len(toks) && toks[i+1].Is("self") {
						k := i - 1
						hasConst, isCast := false, false
						for k >= 0 && !toks[k].Is("(") {
							if toks[k].Is("const") {
								hasConst = true
							}
							if toks[k].Is("*") {
								isCast = true
							}
							k--
						}
						if isCast && !hasConst {
							bad = append(bad, fmt.Sprintf("line %d: cast strips const from self: %s", t.Line, core.CText(toks)))
						}
					}
					_ = depth
				}
				return true
			})
			c.Check(len(bad) == 0, "P4a.const", anchor, "a pure method's C function has a const receiver, no assignment/increment whose lvalue starts at self->, and no const-stripping cast of self", len(cfn.Body), strings.Join(bad, "\n"))
		}
	}
	*nPure = n
	c.Floor("P4a", "pure methods of std with a C definition", n, 125)
}

var _ = a.KFunc
