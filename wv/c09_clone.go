package main

// C09, rule V.clone: a CPU-specific function that the repository documents as
// "exactly the same as" its portable alternative "except for the choose
// cpu_arch" clause is compiled from the same Wuffs statements — the only thing
// that differs is the instruction set the C compiler may use for it. The two
// are selected between at run time (`choose f = [g]`), so any divergence of
// their bodies makes the result depend on the CPU the decoder runs on.
//
// The clone pairs are a frozen table, confirmed by reading (the header comment
// of the variant file states the relation; today's bodies are token-identical).
// The rule compares the token streams of the two bodies as the Wuffs tokenizer
// produces them (comments and white space are not tokens), so reformatting and
// re-commenting either file is not a difference, and editing both in lockstep
// is not one either.

import (
	"fmt"
	"os"
	"sort"
	"strings"

	"wv/core"

	a "github.com/google/wuffs/lang/ast"
	t "github.com/google/wuffs/lang/token"
)

// package -> portable function -> its documented clone
var c09Clones = map[string]map[string]string{
	"deflate": {"decode_huffman_fast64": "decode_huffman_bmi2"}, // std/deflate/decode_huffman_bmi2.wuffs: "exactly the same as decode_huffman_fast64 except for the choose cpu_arch >= x86_bmi2"
}

// bodyTokens returns the tokens between the braces of f's body.
func c09BodyTokens(p *WPkg, f *a.Func, cache map[string][]t.Token) ([]t.Token, error) {
	toks, ok := cache[f.Filename()]
	if !ok {
		src, err := os.ReadFile(f.Filename())
		if err != nil {
			return nil, err
		}
		toks, _, err = t.Tokenize(p.TM, f.Filename(), src)
		if err != nil {
			return nil, err
		}
		cache[f.Filename()] = toks
	}
	i := 0
	for ; i < len(toks); i++ {
		if toks[i].Line >= f.Line() && toks[i].ID == t.IDFunc {
			break
		}
	}
	for ; i < len(toks) && toks[i].ID != t.IDOpenCurly; i++ {
	}
	if i >= len(toks) {
		return nil, fmt.Errorf("no body found for %s", f.QQID().Str(p.TM))
	}
	depth, j := 0, i
	for ; j < len(toks); j++ {
		if toks[j].ID == t.IDOpenCurly {
			depth++
		} else if toks[j].ID == t.IDCloseCurly {
			depth--
			if depth == 0 {
				break
			}
		}
	}
	if j >= len(toks) {
		return nil, fmt.Errorf("unbalanced braces in %s", f.Filename())
	}
	return toks[i+1 : j], nil
}

func runC09Clone(c *core.Ctx, std []*WPkg) {
	nPairs, nAlt := 0, 0
	var others []string
	for _, p := range std {
		byName := map[string]*a.Func{}
		for _, f := range p.Funcs {
			byName[p.str(f.FuncName())] = f
		}
		// every `choose F = [G…]` with a cpu_arch alternative
		type pair struct{ f, g string }
		seen := map[pair]bool{}
		for _, fn := range p.Funcs {
			whStmtWalk(fn.Body(), func(o *a.Node) {
				if o.Kind() != a.KChoose {
					return
				}
				ch := o.AsChoose()
				for _, arg := range ch.Args() {
					g := p.str(arg.AsExpr().Ident())
					if gf := byName[g]; gf != nil && gf.HasChooseCPUArch() {
						seen[pair{p.str(ch.Name()), g}] = true
					}
				}
			})
		}
		var pairs []pair
		for pr := range seen {
			pairs = append(pairs, pr)
		}
		sort.Slice(pairs, func(i, j int) bool { return pairs[i].f+pairs[i].g < pairs[j].f+pairs[j].g })
		cache := map[string][]t.Token{}
		frozen := c09Clones[p.Name]
		found := map[string]bool{}
		for _, pr := range pairs {
			nAlt++
			ff, gf := byName[pr.f], byName[pr.g]
			if ff == nil || gf == nil {
				continue
			}
			ft, err1 := c09BodyTokens(p, ff, cache)
			gt, err2 := c09BodyTokens(p, gf, cache)
			if err1 != nil || err2 != nil {
				c.Undecided("V.clone", "std/"+p.Name+" "+pr.f+" ~ "+pr.g, "both bodies tokenize", fmt.Sprint(err1, err2))
				continue
			}
			diff := ""
			n := len(ft)
			if len(gt) < n {
				n = len(gt)
			}
			for i := 0; i < n && diff == ""; i++ {
				if ft[i].ID != gt[i].ID {
					diff = fmt.Sprintf("%s:%d has `%s` where %s:%d has `%s`", rel(c, ff.Filename()), ft[i].Line, ctxToks(p, ft, i), rel(c, gf.Filename()), gt[i].Line, ctxToks(p, gt, i))
				}
			}
			if diff == "" && len(ft) != len(gt) {
				diff = fmt.Sprintf("the bodies agree for %d tokens, then one continues (%d vs %d tokens)", n, len(ft), len(gt))
			}
			if frozen[pr.f] == pr.g {
				found[pr.f] = true
				nPairs++
				anchor := "std/" + p.Name + " " + pr.f + " ~ " + pr.g
				claim := "the CPU-specific alternative documented as a copy of the portable function has the same body, token for token: which one runs is decided by the CPU at run time"
				if diff != "" {
					c.Fail("V.clone", anchor, claim, len(ft), diff)
				} else {
					c.Pass("V.clone", anchor, claim, len(ft), fmt.Sprintf("%d tokens each", len(ft)))
				}
			} else if diff == "" {
				others = append(others, "std/"+p.Name+" "+pr.f+" ~ "+pr.g+" (identical today, not in the table)")
			}
		}
		for f, g := range frozen {
			if !found[f] {
				c.Undecided("V.clone", "std/"+p.Name+" "+f+" ~ "+g, "the documented clone pair is still selected between by a `choose` statement", "no `choose "+f+" = ["+g+"]` with a cpu_arch alternative found")
			}
		}
	}
	if len(others) > 0 {
		c.Info("V.clone.candidates", "std", strings.Join(others, "\n"))
	}
	c.Analysed("cpu_arch_choose_alternatives", nAlt)
	c.Floor("V.clone", "documented clone pairs compared (deflate decode_huffman_fast64 ~ decode_huffman_bmi2)", nPairs, 1)
}

func ctxToks(p *WPkg, toks []t.Token, i int) string {
	lo, hi := i-3, i+4
	if lo < 0 {
		lo = 0
	}
	if hi > len(toks) {
		hi = len(toks)
	}
	var s []string
	for _, x := range toks[lo:hi] {
		s = append(s, x.ID.Str(p.TM))
	}
	return strings.Join(s, " ")
}

func rel(c *core.Ctx, path string) string {
	if i := strings.Index(path, "/std/"); i >= 0 {
		return path[i+1:]
	}
	return path
}
