package main

// C18, rule family R — the AC run-length coding of Encoder.encodeBlock.
//
// emitHuffmanRun packs (run << 4) | category into ONE byte, so the run it is
// given must be < 16; longer zero runs are written as ZRL symbols (0xF0 = "16
// zeroes") and a run still pending at the end of the block as EOB (0x00).
// The rules below are decided by a forward dataflow over go/cfg edges on
//
//	interval of the run counter  ×  EOB emitted?  ×  ZRL symbols emitted minus
//	16s subtracted  ×  is the current coefficient known zero / non-zero  ×
//	has the run been emitted and not yet reset
//
// so they hold for any spelling of the guards (if/for/switch form, mirrored
// or negated comparisons, >= 16 / > 15) and fire only when some path really
// reaches the site with a value outside what the symbol can express.
//
//	R.pack   emitHuffmanRun hands uint8((run << 4) | category) to emitHuffman: 4 bits of run
//	R.bound  every emitHuffmanRun call in encodeBlock gets a run <= 15 on every path
//	R.zrl    a ZRL symbol is emitted only with >= 16 zeroes pending and is paired with
//	         exactly one `run -= 16` (which never underflows)
//	R.count  the run counter moves only by ++ (on a zero coefficient), -= 16, = 0
//	R.zero   ++ only where the coefficient is known zero; emitHuffmanRun only where non-zero
//	R.reset  after emitHuffmanRun the counter is set to 0 before it is used again
//	R.eob    EOB is emitted only with a run pending, at most once, and every return
//	         without EOB has run == 0
//	R.scan   the AC loop visits coefficient indices 1..63 once each, in zig-zag order

import (
	"fmt"
	"go/ast"
	"go/token"
	"go/types"
	"sort"
	"strings"

	"golang.org/x/tools/go/cfg"

	"wv/core"
)

const rInf = int64(1) << 40

type rkey struct {
	eob, stale bool
	credit     int8 // ZRL symbols emitted minus unit subtractions, in [-1,1]
	acz        int8 // 0 unknown, 1 zero, 2 non-zero
}
type rint struct{ lo, hi int64 }
type rstate map[rkey]rint

func (s rstate) clone() rstate {
	o := rstate{}
	for k, v := range s {
		o[k] = v
	}
	return o
}

func (s rstate) add(k rkey, v rint) {
	if old, ok := s[k]; ok {
		if old.lo < v.lo {
			v.lo = old.lo
		}
		if old.hi > v.hi {
			v.hi = old.hi
		}
	}
	s[k] = v
}

type runAn struct {
	x        *c18
	fl       *core.Flow
	info     *types.Info
	runVar   types.Object
	acVar    types.Object
	fRun     *types.Func // emitHuffmanRun
	fHuff    *types.Func // emitHuffman
	runIdx   int         // parameter index of the run in emitHuffmanRun
	symIdx   int         // parameter index of the symbol in emitHuffman
	cap      int64       // runs must be < cap (16)
	shift    int64
	zrl, eob int64 // symbol values
	report   bool
	viol     map[string][]string // rule -> messages
	seen     map[string]bool
	sites    map[string]map[token.Pos]bool
}

func (a *runAn) pos(p token.Pos) string { return a.x.k.g.Pos(p) }

func (a *runAn) violate(rule string, p token.Pos, format string, args ...interface{}) {
	if !a.report {
		return
	}
	m := a.pos(p) + ": " + fmt.Sprintf(format, args...)
	if !a.seen[rule+m] {
		a.seen[rule+m] = true
		a.viol[rule] = append(a.viol[rule], m)
	}
}

func (a *runAn) site(rule string, p token.Pos) {
	if a.sites[rule] == nil {
		a.sites[rule] = map[token.Pos]bool{}
	}
	a.sites[rule][p] = true
}

func (a *runAn) isVar(e ast.Expr, o types.Object) bool {
	id, ok := ast.Unparen(e).(*ast.Ident)
	return ok && o != nil && (a.info.Uses[id] == o || a.info.Defs[id] == o)
}

func stripConv(info *types.Info, e ast.Expr) ast.Expr {
	for {
		e = ast.Unparen(e)
		call, ok := e.(*ast.CallExpr)
		if !ok || len(call.Args) != 1 {
			return e
		}
		if tv, ok := info.Types[call.Fun]; !ok || !tv.IsType() {
			return e
		}
		e = call.Args[0]
	}
}

func negRel(op token.Token) token.Token {
	switch op {
	case token.LSS:
		return token.GEQ
	case token.LEQ:
		return token.GTR
	case token.GTR:
		return token.LEQ
	case token.GEQ:
		return token.LSS
	case token.EQL:
		return token.NEQ
	case token.NEQ:
		return token.EQL
	}
	return op
}

// assume refines one (key, interval) by cond having the given truth value;
// ok=false when that outcome is impossible.
func (a *runAn) assume(cond ast.Expr, truth bool, k rkey, v rint) (rkey, rint, bool) {
	cond = ast.Unparen(cond)
	switch c := cond.(type) {
	case *ast.UnaryExpr:
		if c.Op == token.NOT {
			return a.assume(c.X, !truth, k, v)
		}
	case *ast.BinaryExpr:
		switch c.Op {
		case token.LAND:
			if truth {
				k1, v1, ok := a.assume(c.X, true, k, v)
				if !ok {
					return k, v, false
				}
				return a.assume(c.Y, true, k1, v1)
			}
			return k, v, true
		case token.LOR:
			if !truth {
				k1, v1, ok := a.assume(c.X, false, k, v)
				if !ok {
					return k, v, false
				}
				return a.assume(c.Y, false, k1, v1)
			}
			return k, v, true
		case token.LSS, token.LEQ, token.GTR, token.GEQ, token.EQL, token.NEQ:
			op := c.Op
			ve, ke := c.X, c.Y
			if _, isC := core.ConstInt64(a.info, ve); isC {
				ve, ke, op = c.Y, c.X, mirror(op)
			}
			kc, okc := core.ConstInt64(a.info, ke)
			if !okc {
				return k, v, true
			}
			if !truth {
				op = negRel(op)
			}
			switch {
			case a.isVar(stripConv(a.info, ve), a.runVar) || a.isVar(ve, a.runVar):
				switch op {
				case token.LSS:
					if kc-1 < v.hi {
						v.hi = kc - 1
					}
				case token.LEQ:
					if kc < v.hi {
						v.hi = kc
					}
				case token.GTR:
					if kc+1 > v.lo {
						v.lo = kc + 1
					}
				case token.GEQ:
					if kc > v.lo {
						v.lo = kc
					}
				case token.EQL:
					if kc > v.lo {
						v.lo = kc
					}
					if kc < v.hi {
						v.hi = kc
					}
				case token.NEQ:
					if v.lo == kc {
						v.lo++
					}
					if v.hi == kc {
						v.hi--
					}
				}
				return k, v, v.lo <= v.hi
			case a.acVar != nil && a.isVar(ve, a.acVar) && kc == 0 && (op == token.EQL || op == token.NEQ):
				want := int8(1)
				if op == token.NEQ {
					want = 2
				}
				if k.acz != 0 && k.acz != want {
					return k, v, false
				}
				k.acz = want
				return k, v, true
			}
		}
	}
	return k, v, true
}

// calls inside a node that are certainly evaluated, in source order.
func (a *runAn) callsIn(n ast.Node) []*ast.CallExpr {
	var out []*ast.CallExpr
	ast.Inspect(n, func(m ast.Node) bool {
		switch v := m.(type) {
		case *ast.FuncLit:
			return false
		case *ast.CallExpr:
			out = append(out, v)
		}
		return true
	})
	sort.Slice(out, func(i, j int) bool { return out[i].End() < out[j].End() }) // arguments before the call that uses them
	return out
}

// step pushes one (key, interval) through node n.
func (a *runAn) step(n ast.Node, k rkey, v rint) (rkey, rint, bool) {
	// 1. calls evaluated by this node
	{
		for _, call := range a.callsIn(n) {
			switch {
			case core.IsCallTo(a.info, call, a.fRun) && len(call.Args) > a.runIdx:
				arg := call.Args[a.runIdx]
				if c, ok := core.ConstInt64(a.info, arg); ok {
					a.site("R.bound", call.Pos())
					if c < 0 || c >= a.cap {
						a.violate("R.bound", call.Pos(), "constant run %d does not fit the %d-bit run field", c, 8-a.shift)
					}
					continue
				}
				if !a.isVar(stripConv(a.info, arg), a.runVar) {
					a.violate("R.bound", call.Pos(), "run argument `%s` is neither a constant nor the run counter", core.Src(a.x.k.g.Fset, arg))
					continue
				}
				a.site("R.bound", call.Pos())
				a.site("R.zero", call.Pos())
				a.site("R.reset", call.Pos())
				if v.hi >= a.cap {
					a.violate("R.bound", call.Pos(), "a path reaches emitHuffmanRun with %s in [%s]: (run << %d) | category needs run <= %d, a larger run is truncated by uint8() and decodes %d positions too early", a.runVar.Name(), ivStr(v), a.shift, a.cap-1, a.cap)
				}
				if k.credit != 0 {
					a.violate("R.zrl", call.Pos(), "emitHuffmanRun reached with a ZRL symbol and its `-= %d` not yet paired (balance %+d)", a.cap, k.credit)
				}
				if k.stale {
					a.violate("R.reset", call.Pos(), "emitHuffmanRun reached again without the run counter having been reset to 0 after the previous one")
				}
				if k.acz != 2 {
					a.violate("R.zero", call.Pos(), "emitHuffmanRun reached on a path where %s is not known to be non-zero (category 0 with a run is not a JPEG symbol)", a.acVar.Name())
				}
				k.stale = true
			case core.IsCallTo(a.info, call, a.fHuff) && len(call.Args) > a.symIdx:
				sym, ok := core.ConstInt64(a.info, call.Args[a.symIdx])
				switch {
				case !ok:
					a.violate("R.zrl", call.Pos(), "emitHuffman called with a non-constant symbol in encodeBlock")
				case sym == a.zrl:
					a.site("R.zrl", call.Pos())
					if k.credit >= 0 && v.lo < a.cap { // (with credit -1 the paired subtraction already proved >= 16)
						a.violate("R.zrl", call.Pos(), "ZRL (%#x = %d zeroes) emitted where only %s in [%s] is known", a.zrl, a.cap, a.runVar.Name(), ivStr(v))
					}
					if k.stale {
						a.violate("R.reset", call.Pos(), "ZRL emitted from a run counter that was already emitted and not reset")
					}
					k.credit++
					if k.credit > 1 {
						a.violate("R.zrl", call.Pos(), "two ZRL symbols without a `-= %d` in between", a.cap)
						k.credit = 1
					}
				case sym == a.eob:
					a.site("R.eob", call.Pos())
					if v.lo < 1 {
						a.violate("R.eob", call.Pos(), "EOB (0x00) emitted where %s may be 0 (in [%s]): after a non-zero last coefficient the decoder would take it as the next block's first symbol", a.runVar.Name(), ivStr(v))
					}
					if k.eob {
						a.violate("R.eob", call.Pos(), "EOB emitted twice on one path")
					}
					if k.stale {
						a.violate("R.reset", call.Pos(), "EOB decided on a run counter that was already emitted and not reset")
					}
					k.eob = true
				default:
					a.violate("R.zrl", call.Pos(), "emitHuffman called with constant symbol %#x, neither ZRL %#x nor EOB %#x", sym, a.zrl, a.eob)
				}
			}
		}
	}
	// 2. assignments
	unit := a.cap
	bump := func(at ast.Node, delta int64) {
		switch {
		case delta == 1:
			a.site("R.count", at.Pos())
			a.site("R.zero", at.Pos())
			if k.acz != 1 {
				a.violate("R.zero", at.Pos(), "the run counter is incremented on a path where %s is not known to be zero", a.acVar.Name())
			}
			if k.stale {
				a.violate("R.reset", at.Pos(), "the run counter is incremented after emitHuffmanRun without having been reset to 0")
			}
			if k.credit != 0 {
				a.violate("R.zrl", at.Pos(), "the run counter is incremented with a ZRL symbol and its `-= %d` not yet paired", unit)
			}
			v.lo, v.hi = v.lo+1, v.hi+1
		case delta == -unit:
			a.site("R.zrl", at.Pos())
			if v.lo < unit {
				a.violate("R.zrl", at.Pos(), "`-= %d` where only %s in [%s] is known: the unsigned counter may wrap", unit, a.runVar.Name(), ivStr(v))
				v.lo = unit
				if v.hi < unit {
					v.hi = unit
				}
			}
			v.lo, v.hi = v.lo-unit, v.hi-unit
			k.credit--
			if k.credit < -1 {
				a.violate("R.zrl", at.Pos(), "two `-= %d` without a ZRL symbol in between", unit)
				k.credit = -1
			}
		default:
			a.site("R.count", at.Pos())
			a.violate("R.count", at.Pos(), "the run counter changes by %+d: it may only move by +1 (one zero coefficient) or -%d (one ZRL symbol)", delta, unit)
			v = rint{0, rInf}
		}
		if v.hi > rInf {
			v.hi = rInf
		}
	}
	switch s := n.(type) {
	case *ast.IncDecStmt:
		if a.isVar(s.X, a.runVar) {
			if s.Tok == token.INC {
				bump(s, 1)
			} else {
				bump(s, -1)
			}
		}
	case *ast.AssignStmt:
		for i, l := range s.Lhs {
			if a.acVar != nil && a.isVar(l, a.acVar) {
				k.acz = 0
			}
			if !a.isVar(l, a.runVar) {
				continue
			}
			if len(s.Lhs) != len(s.Rhs) {
				a.violate("R.count", s.Pos(), "the run counter is assigned from a multi-value expression")
				v = rint{0, rInf}
				continue
			}
			r := s.Rhs[i]
			c, isC := core.ConstInt64(a.info, r)
			switch s.Tok {
			case token.ADD_ASSIGN:
				if isC {
					bump(s, c)
				} else {
					bump(s, 0)
				}
			case token.SUB_ASSIGN:
				if isC {
					bump(s, -c)
				} else {
					bump(s, 0)
				}
			case token.ASSIGN, token.DEFINE:
				if isC {
					a.site("R.count", s.Pos())
					if c != 0 {
						a.violate("R.count", s.Pos(), "the run counter is set to %d, not 0", c)
					}
					if k.credit != 0 {
						a.violate("R.zrl", s.Pos(), "the run counter is reset with a ZRL symbol and its `-= %d` not yet paired", unit)
						k.credit = 0
					}
					v = rint{c, c}
					k.stale = false
					continue
				}
				if b, ok := ast.Unparen(r).(*ast.BinaryExpr); ok && (b.Op == token.ADD || b.Op == token.SUB) {
					if d, okd := core.ConstInt64(a.info, b.Y); okd && a.isVar(b.X, a.runVar) {
						if b.Op == token.SUB {
							d = -d
						}
						bump(s, d)
						continue
					}
					if d, okd := core.ConstInt64(a.info, b.X); okd && a.isVar(b.Y, a.runVar) && b.Op == token.ADD {
						bump(s, d)
						continue
					}
				}
				bump(s, 0)
			default:
				bump(s, 0)
			}
		}
	case *ast.ReturnStmt:
		a.site("R.eob", s.Pos())
		if !k.eob && v.hi > 0 {
			a.violate("R.eob", s.Pos(), "encodeBlock returns without EOB on a path where %s in [%s] zero coefficients may be pending: the decoder would read the next block's bits as this block's remaining coefficients", a.runVar.Name(), ivStr(v))
		}
		if k.credit != 0 {
			a.violate("R.zrl", s.Pos(), "encodeBlock returns with a ZRL symbol and its `-= %d` not paired", unit)
		}
	case *ast.UnaryExpr:
	}
	// address taken: give up on the variable
	ast.Inspect(n, func(m ast.Node) bool {
		if u, ok := m.(*ast.UnaryExpr); ok && u.Op == token.AND && a.isVar(u.X, a.runVar) {
			a.violate("R.count", u.Pos(), "address of the run counter taken")
		}
		return true
	})
	return k, v, true
}

func ivStr(v rint) string {
	if v.hi >= rInf {
		return fmt.Sprintf("%d,∞", v.lo)
	}
	return fmt.Sprintf("%d,%d", v.lo, v.hi)
}

// flow runs the dataflow to a fixed point (report off), then once more with
// reporting on.
func (a *runAn) flow() {
	g := a.fl.G
	in := map[*cfg.Block]rstate{}
	changes := map[*cfg.Block]map[rkey]int{}
	if len(g.Blocks) == 0 {
		return
	}
	in[g.Blocks[0]] = rstate{rkey{}: rint{0, rInf}} // before `run := 0` the variable does not exist; [0,∞) is the neutral start
	transfer := func(b *cfg.Block, st rstate) [2]rstate {
		out := [2]rstate{{}, {}}
		for k, v := range st {
			ok := true
			for i, n := range b.Nodes {
				isCond := i == len(b.Nodes)-1 && len(b.Succs) == 2
				if k, v, ok = a.step(n, k, v); !ok {
					break
				}
				if isCond {
					if ce, isE := n.(ast.Expr); isE {
						for si := 0; si < 2; si++ {
							if k2, v2, ok2 := a.assume(ce, si == 0, k, v); ok2 {
								out[si].add(k2, v2)
							}
						}
						ok = false
					}
				}
			}
			if ok {
				out[0].add(k, v)
				if len(b.Succs) == 2 {
					out[1].add(k, v)
				}
			}
		}
		return out
	}
	// widening only at loop heads (targets of DFS back edges): elsewhere the
	// in-state is the plain join of what the predecessors deliver, so a bound
	// obtained on a guard's edge is never widened away.
	head := map[*cfg.Block]bool{}
	color := map[*cfg.Block]int{}
	var dfs func(b *cfg.Block)
	dfs = func(b *cfg.Block) {
		color[b] = 1
		for _, s := range b.Succs {
			switch color[s] {
			case 0:
				dfs(s)
			case 1:
				head[s] = true
			}
		}
		color[b] = 2
	}
	dfs(g.Blocks[0])
	work := []*cfg.Block{g.Blocks[0]}
	for len(work) > 0 {
		b := work[0]
		work = work[1:]
		outs := transfer(b, in[b])
		for si, succ := range b.Succs {
			o := outs[0]
			if len(b.Succs) == 2 {
				o = outs[si]
			}
			cur := in[succ]
			if cur == nil {
				cur = rstate{}
				in[succ] = cur
			}
			changed := false
			for k, v := range o {
				old, had := cur[k]
				nv := v
				if had {
					if old.lo < nv.lo {
						nv.lo = old.lo
					}
					if old.hi > nv.hi {
						nv.hi = old.hi
					}
				}
				if !had || nv != old {
					if changes[succ] == nil {
						changes[succ] = map[rkey]int{}
					}
					changes[succ][k]++
					if head[succ] && changes[succ][k] > 3 { // widen
						if had && nv.hi > old.hi {
							nv.hi = rInf
						}
						if had && nv.lo < old.lo {
							nv.lo = 0
						}
					}
					cur[k] = nv
					changed = true
				}
			}
			if changed {
				work = append(work, succ)
			}
		}
	}
	a.report = true
	for _, b := range g.Blocks {
		if st := in[b]; st != nil {
			transfer(b, st)
		}
	}
}

// inlineLocal follows single-definition locals.
func inlineLocal(fl *core.Flow, e ast.Expr) ast.Expr {
	for depth := 0; depth < 6; depth++ {
		e = ast.Unparen(e)
		id, ok := e.(*ast.Ident)
		if !ok {
			return e
		}
		o := fl.Obj(id)
		v, isVar := o.(*types.Var)
		if !isVar || v.IsField() || v.Parent() == v.Pkg().Scope() {
			return e
		}
		defs := fl.Defs()[o]
		if len(defs) != 1 || assignsBesidesDef(fl, o) {
			return e
		}
		e = defs[0]
	}
	return e
}

// assignsBesidesDef: o is modified by ++/--/op= or has its address taken.
func assignsBesidesDef(fl *core.Flow, o types.Object) bool {
	info := fl.F.Info()
	is := func(e ast.Expr) bool {
		id, ok := ast.Unparen(e).(*ast.Ident)
		return ok && info.Uses[id] == o
	}
	found := false
	ast.Inspect(fl.F.Decl.Body, func(m ast.Node) bool {
		switch v := m.(type) {
		case *ast.IncDecStmt:
			found = found || is(v.X)
		case *ast.AssignStmt:
			if v.Tok != token.ASSIGN && v.Tok != token.DEFINE {
				for _, l := range v.Lhs {
					found = found || is(l)
				}
			}
		case *ast.UnaryExpr:
			found = found || (v.Op == token.AND && is(v.X))
		}
		return !found
	})
	return found
}

func paramIndex(fl *core.Flow, o types.Object) int {
	for i := 0; ; i++ {
		p := fl.Param(i)
		if p == nil {
			return -1
		}
		if p == o {
			return i
		}
	}
}

func (x *c18) runLength() {
	c, g := x.c, x.k.g
	fl := x.k.flow("R", relJPEG, "Encoder", "encodeBlock")
	flRun := x.k.flow("R", relJPEG, "Encoder", "emitHuffmanRun")
	flHuff := x.k.flow("R", relJPEG, "Encoder", "emitHuffman")
	if fl == nil || flRun == nil || flHuff == nil {
		return
	}
	info := x.info
	a := &runAn{x: x, fl: fl, info: info, fRun: flRun.F.Obj, fHuff: flHuff.F.Obj, viol: map[string][]string{}, seen: map[string]bool{}, sites: map[string]map[token.Pos]bool{}}

	// ---- R.pack: emitHuffmanRun passes uint8((run << S) | category) to emitHuffman
	packAnchor := flRun.F.Name()
	packClaim := "emitHuffmanRun hands emitHuffman the one-byte symbol uint8((run << 4) | category) — JPEG's RRRRSSSS (T.81 F.1.2.2): the run has 4 bits, so callers must pass run <= 15"
	var packCalls []*ast.CallExpr
	ast.Inspect(flRun.F.Decl.Body, func(m ast.Node) bool {
		if call, ok := m.(*ast.CallExpr); ok && core.IsCallTo(info, call, a.fHuff) {
			packCalls = append(packCalls, call)
		}
		return true
	})
	// the symbol parameter of emitHuffman: the one that indexes the table (its last parameter, of a one-byte type)
	a.symIdx = -1
	for i := 0; flHuff.Param(i) != nil; i++ {
		if bits, signed, ok := typeBits(flHuff.Param(i).Type()); ok && bits == 8 && !signed {
			a.symIdx = i
		}
	}
	if len(packCalls) != 1 || a.symIdx < 0 || len(packCalls[0].Args) <= a.symIdx {
		c.Undecided("R.pack", packAnchor, packClaim, fmt.Sprintf("%s: %d calls of emitHuffman; emitHuffman's uint8 symbol parameter index %d", g.Pos(flRun.F.Decl.Pos()), len(packCalls), a.symIdx))
		return
	}
	symArg := ast.Unparen(packCalls[0].Args[a.symIdx])
	conv, isConv := symArg.(*ast.CallExpr)
	packOK := false
	var packDetail string
	if isConv && len(conv.Args) == 1 {
		if tv, ok := info.Types[conv.Fun]; ok && tv.IsType() {
			if bits, signed, okb := typeBits(tv.Type); okb && bits == 8 && !signed {
				if or, ok := inlineLocal(flRun, conv.Args[0]).(*ast.BinaryExpr); ok && or.Op == token.OR {
					for _, side := range [][2]ast.Expr{{or.X, or.Y}, {or.Y, or.X}} {
						sh, ok := inlineLocal(flRun, side[0]).(*ast.BinaryExpr)
						if !ok || sh.Op != token.SHL {
							continue
						}
						s, oks := core.ConstInt64(info, sh.Y)
						pi := paramIndex(flRun, flRun.Obj(stripConv(info, sh.X)))
						if oks && pi >= 0 {
							a.runIdx, a.shift, packOK = pi, s, true
						}
					}
				}
			}
		}
	}
	packDetail = g.Pos(symArg.Pos()) + ": symbol argument is `" + core.Src(g.Fset, symArg) + "`"
	if !packOK {
		c.Undecided("R.pack", packAnchor, packClaim, packDetail+": not uint8((<parameter> << <const>) | <category>)")
		return
	}
	c.Check(a.shift == 4, "R.pack", packAnchor, packClaim, 1, fmt.Sprintf("%s: run is parameter #%d shifted by %d", packDetail, a.runIdx, a.shift))
	if a.shift < 1 || a.shift > 7 {
		return
	}
	a.cap = int64(1) << uint(8-a.shift)
	a.zrl, a.eob = (a.cap-1)<<uint(a.shift), 0

	// ---- the run counter and the coefficient variable in encodeBlock
	anchor := fl.F.Name()
	valIdx := -1
	for i := 0; flRun.Param(i) != nil; i++ {
		valIdx = i
	}
	for _, call := range callsTo(info, fl.F.Decl.Body, a.fRun) {
		if len(call.Args) <= a.runIdx || len(call.Args) <= valIdx {
			continue
		}
		if _, isC := core.ConstInt64(info, call.Args[a.runIdx]); isC {
			continue
		}
		rv := fl.Obj(stripConv(info, call.Args[a.runIdx]))
		av := fl.Obj(stripConv(info, call.Args[valIdx]))
		if rv == nil || av == nil || (a.runVar != nil && (rv != a.runVar || av != a.acVar)) {
			c.Undecided("R.bound", anchor, "every emitHuffmanRun call in encodeBlock passes either a constant run or one local run counter, and one local coefficient", g.Pos(call.Pos())+": `"+core.Src(g.Fset, call)+"`")
			return
		}
		a.runVar, a.acVar = rv, av
	}
	if a.runVar == nil {
		c.Undecided("R.bound", anchor, "encodeBlock calls emitHuffmanRun with a run counter", "no emitHuffmanRun call with a non-constant run found")
		return
	}
	if v, ok := a.runVar.(*types.Var); !ok || v.IsField() || v.Parent() == v.Pkg().Scope() {
		c.Undecided("R.bound", anchor, "the run counter is a local variable", a.runVar.Name()+" is not a local")
		return
	}
	if _, signed, ok := typeBits(a.runVar.Type()); !ok || signed {
		c.Undecided("R.bound", anchor, "the run counter is an unsigned integer", a.runVar.Name()+" has type "+a.runVar.Type().String())
		return
	}
	a.flow()

	claims := map[string]string{
		"R.bound": fmt.Sprintf("on every CFG path to an emitHuffmanRun call in encodeBlock the run is <= %d (interval of the run counter after the guards on that path): (run << %d) | category is cut to one byte, so a run of %d or more is written as a smaller run and every later coefficient of the block decodes at the wrong position", a.cap-1, a.shift, a.cap),
		"R.zrl":   fmt.Sprintf("the ZRL symbol %#x stands for exactly %d zero coefficients: it is emitted only where at least %d are pending, and each one is paired with exactly one subtraction of %d from the run counter (never below zero)", a.zrl, a.cap, a.cap, a.cap),
		"R.count": fmt.Sprintf("the run counter counts zero coefficients: its only updates are ++, -= %d and = 0", a.cap),
		"R.zero":  "the counter is incremented only where the coefficient just computed is zero and emitHuffmanRun is called only where it is non-zero (on the edges of the `== 0` test)",
		"R.reset": "after emitHuffmanRun has written the run, the counter is set to 0 before it is incremented, compared for EOB or emitted again",
		"R.eob":   "EOB (0x00) is emitted iff zero coefficients are pending at the end of the block: never with run == 0, never twice, and no return leaves a pending run without it",
	}
	floors := map[string]int{"R.bound": 2, "R.zrl": 2, "R.count": 3, "R.zero": 2, "R.reset": 1, "R.eob": 2}
	var rules []string
	for r := range claims {
		rules = append(rules, r)
	}
	sort.Strings(rules)
	for _, r := range rules {
		n := len(a.sites[r])
		c.Check(len(a.viol[r]) == 0, r, anchor, claims[r], n, strings.Join(a.viol[r], "\n"))
		c.Floor(r, "sites in encodeBlock ("+r+")", n, floors[r])
	}
	x.scanOrder(a)
}

// R.scan: the loop around the AC emitHuffmanRun call is a counted loop over
// 1..63 and the coefficient is b[zigzag[counter]].
func (x *c18) scanOrder(a *runAn) {
	c, g := x.c, x.k.g
	fl := a.fl
	info := a.info
	anchor := fl.F.Name() + "[AC loop]"
	claim := "the AC loop visits every coefficient index 1..63 exactly once in increasing zig-zag position and reads b[zigzag[position]]: a skipped or repeated position shifts or drops coefficients of every block"
	var acCall *ast.CallExpr
	for _, call := range callsTo(info, fl.F.Decl.Body, a.fRun) {
		if _, isC := core.ConstInt64(info, call.Args[a.runIdx]); !isC {
			acCall = call
		}
	}
	loops := enclosingFor(fl.F.Decl.Body, acCall)
	if acCall == nil || len(loops) == 0 {
		c.Undecided("R.scan", anchor, claim, "the AC emitHuffmanRun call is not inside a for loop")
		return
	}
	loop := loops[0]
	ctr, vals, ok := tripCount(info, loop)
	// block length from the type of the block parameter
	var blockParam types.Object
	blockLen := int64(0)
	for i := 0; fl.Param(i) != nil; i++ {
		if pt, ok := fl.Param(i).Type().Underlying().(*types.Pointer); ok {
			if n, ok := arrayLen(pt.Elem()); ok {
				blockParam, blockLen = fl.Param(i), n
			}
		}
	}
	if !ok || blockParam == nil {
		c.Undecided("R.scan", anchor, claim, g.Pos(loop.Pos())+": not a counted loop with constant bounds, or no *[N]int16 block parameter")
		return
	}
	seqOK := int64(len(vals)) == blockLen-1
	for i, v := range vals {
		if v != int64(i+1) {
			seqOK = false
		}
	}
	// acVar's definition reads blockParam[zigzag[ctr]]
	zig := g.LookupObj(relJPEG, "zigzag")
	readOK := false
	readDetail := "no read of the block found in the coefficient's definition"
	for _, d := range fl.Defs()[a.acVar] {
		ast.Inspect(d, func(m ast.Node) bool {
			ix, ok := m.(*ast.IndexExpr)
			if !ok || fl.Obj(ix.X) != blockParam {
				return true
			}
			idx := inlineLocal(fl, ix.Index)
			readDetail = g.Pos(ix.Pos()) + ": block read at index `" + core.Src(g.Fset, idx) + "`"
			if zi, ok := ast.Unparen(idx).(*ast.IndexExpr); ok && zig != nil && fl.Obj(zi.X) == zig && fl.Obj(zi.Index) == ctr {
				readOK = true
			}
			return true
		})
	}
	first, last := int64(-1), int64(-1)
	if len(vals) > 0 {
		first, last = vals[0], vals[len(vals)-1]
	}
	c.Check(seqOK && readOK, "R.scan", anchor, claim, len(vals),
		fmt.Sprintf("%s: loop counter takes %d values %d..%d (block has %d entries, index 0 is the DC term); %s", g.Pos(loop.Pos()), len(vals), first, last, blockLen, readDetail))
}

// N.width — the MCU counter can hold the largest count Reset can compute.
// Reset accepts width, height up to 0xFFFF (S.reset.args) and stores
// ceil(width/B)·ceil(height/B') (H.sampling decides that form); the unsigned
// types of the two factors, of the product and of the numAddsRemaining field
// must be wide enough for B = B' = smallest MCU, or the count wraps and addN
// reports ErrTooManyAddNCalls (or ends the file early) on large images.
func (x *c18) countWidth() {
	c, g := x.c, x.k.g
	fl := x.k.flow("N.width", relJPEG, "Encoder", "Reset")
	if fl == nil {
		return
	}
	info := fl.F.Info()
	recv := fl.Recv()
	const maxDim = 0xFFFF
	holds := func(t types.Type, v int64) bool {
		bits, signed, ok := typeBits(t)
		if !ok {
			return false
		}
		if signed {
			bits--
		}
		return bits >= 63 || v < int64(1)<<uint(bits)
	}
	var bad []string
	n := 0
	ast.Inspect(fl.F.Decl.Body, func(m ast.Node) bool {
		as, ok := m.(*ast.AssignStmt)
		if !ok || len(as.Lhs) != len(as.Rhs) {
			return true
		}
		for i, l := range as.Lhs {
			sel, ok := ast.Unparen(l).(*ast.SelectorExpr)
			if !ok || info.Uses[sel.Sel] != x.fCount || fl.Obj(sel.X) != recv {
				continue
			}
			n++
			be, ok := ast.Unparen(as.Rhs[i]).(*ast.BinaryExpr)
			if !ok || be.Op != token.MUL || as.Tok != token.ASSIGN {
				bad = append(bad, g.Pos(as.Pos())+": `"+core.Src(g.Fset, as)+"` is not a product of two ceil-divisions (see H.sampling)")
				continue
			}
			_, _, b1, ok1 := ceilDivForm(info, be.X)
			_, _, b2, ok2 := ceilDivForm(info, be.Y)
			if !ok1 || !ok2 || b1 <= 0 || b2 <= 0 {
				bad = append(bad, g.Pos(as.Pos())+": factors are not ((dim + B-1) / B)")
				continue
			}
			f1, f2 := (maxDim+b1-1)/b1, (maxDim+b2-1)/b2
			// every conversion layer of a factor, the product, the field
			check := func(e ast.Expr, v int64, what string) {
				for {
					e = ast.Unparen(e)
					if !holds(info.TypeOf(e), v) {
						bad = append(bad, fmt.Sprintf("%s: %s `%s` has type %s, which cannot hold %d", g.Pos(e.Pos()), what, core.Src(g.Fset, e), info.TypeOf(e), v))
					}
					call, ok := e.(*ast.CallExpr)
					if !ok || len(call.Args) != 1 {
						return
					}
					if tv, ok := info.Types[call.Fun]; !ok || !tv.IsType() {
						return
					}
					e = call.Args[0]
				}
			}
			check(be.X, f1, "factor")
			check(be.Y, f2, "factor")
			if !holds(info.TypeOf(be), f1*f2) {
				bad = append(bad, fmt.Sprintf("%s: the product has type %s, which cannot hold %d·%d = %d", g.Pos(be.Pos()), info.TypeOf(be), f1, f2, f1*f2))
			}
			if !holds(x.fCount.Type(), f1*f2) {
				bad = append(bad, fmt.Sprintf("%s: numAddsRemaining has type %s, which cannot hold %d", g.Pos(as.Pos()), x.fCount.Type(), f1*f2))
			}
		}
		return true
	})
	c.Check(len(bad) == 0, "N.width", fl.F.Name()+"[numAddsRemaining]",
		"the types of both ceil-division factors, of their product and of the numAddsRemaining field hold the largest MCU count Reset accepts (width, height <= 0xFFFF: 8192·8192 = 2^26 for 8×8 MCUs): a narrower type wraps the count, so a large image is refused after a few MCUs or ended early", n, strings.Join(uniq(bad), "\n"))
	c.Floor("N.width", "assignments to numAddsRemaining in Reset", n, 2)
}
