package main

// Rule family CC (property C11, last clause: "for every accepted program the
// emitted C is accepted by the C compiler").
//
// std/ exercises a small part of what the code generator distinguishes, so
// building std says little about this clause. CC compiles a systematic
// construct corpus (corpus/ccompile/*.wuffs plus the programs emitted by
// c11_cc_gen.go) with the working tree's compiler in a scratch directory and
// then asks the C compilers for their *static semantics only*
// (-fsyntax-only): nothing is linked, nothing is executed.
//
// Obligations
//
//	CC.accept   one per corpus program: wuffs-c gen exits 0. A crash is a
//	            violation of C11 proper; an ordinary rejection is undecided
//	            (the corpus only contains programs the unchanged tree accepts).
//	CC.compile  one per (program, C compiler configuration).
//	CC.cover.*  the corpus, as measured on the type-checked syntax trees of the
//	            programs that were compiled, reaches every case of the cgen
//	            tables / switches it targets (operators x numeric type,
//	            statement kinds, built-in methods of lang/builtin).
//	CC.*.floor  instance floors.
//	CC.known    (INFO only) programs under corpus/ccompile-known/: accepted
//	            programs whose C is rejected on the unchanged tree.

import (
	"bytes"
	"fmt"
	"os"
	"os/exec"
	"path/filepath"
	"regexp"
	"runtime"
	"sort"
	"strings"
	"sync"
	"time"

	"wv/core"
)

// ccCompiler is one C / C++ compiler configuration.
type ccCompiler struct {
	Name     string
	Bin      string
	Args     []string
	Thorough bool
}

var ccWarnC = []string{"-Wall", "-Werror=implicit-function-declaration", "-Werror=incompatible-pointer-types", "-Werror=int-conversion"}

var ccCompilers = []ccCompiler{
	{"gcc-c99", "gcc", append([]string{"-fsyntax-only", "-std=c99", "-x", "c", "-Werror=discarded-qualifiers", "-Werror=discarded-array-qualifiers"}, ccWarnC...), false},
	{"clang-c99", "clang", append([]string{"-fsyntax-only", "-std=c99", "-x", "c", "-Werror=incompatible-pointer-types-discards-qualifiers"}, ccWarnC...), false},
	{"g++", "g++", []string{"-fsyntax-only", "-x", "c++", "-Wall"}, false},
	{"clang++", "clang++", []string{"-fsyntax-only", "-x", "c++", "-Wall"}, true},
	{"gcc-c11-avoid-cpu-arch", "gcc", append([]string{"-fsyntax-only", "-std=c11", "-x", "c", "-DWUFFS_CONFIG__AVOID_CPU_ARCH"}, ccWarnC...), true},
	{"g++-c++11", "g++", []string{"-fsyntax-only", "-x", "c++", "-std=c++11", "-Wall"}, true},
}

var ccPkgName = regexp.MustCompile(`^[a-z][a-z0-9_]*$`)

// ccLoadDir reads corpus/<group>/*.wuffs (one package per file).
func ccLoadDir(c *core.Ctx, group string, known bool) []ccProg {
	dir := filepath.Join(c.Home, "corpus", group)
	ents, err := os.ReadDir(dir)
	if err != nil {
		if known && os.IsNotExist(err) {
			return nil
		}
		c.Undecided("CC.corpus", "corpus/"+group, "the corpus directory is readable", err.Error())
		return nil
	}
	var out []ccProg
	for _, e := range ents {
		n := e.Name()
		if e.IsDir() || !strings.HasSuffix(n, ".wuffs") {
			continue
		}
		pkg := strings.TrimSuffix(n, ".wuffs")
		if !ccPkgName.MatchString(pkg) {
			c.Undecided("CC.corpus", "corpus/"+group+"/"+n, "the file name is usable as a Wuffs package name ([a-z][a-z0-9_]*)", "rename the file")
			continue
		}
		b, err := os.ReadFile(filepath.Join(dir, n))
		if err != nil {
			c.Undecided("CC.corpus", "corpus/"+group+"/"+n, "the corpus file is readable", err.Error())
			continue
		}
		out = append(out, ccProg{Name: pkg, Src: string(b), Origin: "corpus/" + group + "/" + n, Known: known})
	}
	sort.Slice(out, func(i, j int) bool { return out[i].Name < out[j].Name })
	return out
}

type ccResult struct {
	prog    ccProg
	dir     string // scratch directory holding the .wuffs copy
	cpath   string // generated C ("" when not accepted)
	genErr  string
	crashed bool
	cc      map[string]string // compiler name -> "" (accepted) | diagnostics
	pkg     *WPkg
	loadErr string
}

// ccFirstErrors shortens compiler output to its error lines, each annotated
// with the Wuffs function whose C it sits in (cgen writes a
// "// -------- func pkg.recv.name" comment before each implementation).
func ccFirstErrors(cpath, out string, max int) string {
	src, _ := os.ReadFile(cpath)
	lines := strings.Split(string(src), "\n")
	re := regexp.MustCompile(`^(.*?):(\d+):\d+: (?:fatal )?error: (.*)$`)
	var got []string
	seen := map[string]bool{}
	total := 0
	for _, ln := range strings.Split(out, "\n") {
		m := re.FindStringSubmatch(ln)
		if m == nil {
			continue
		}
		total++
		where := ""
		if filepath.Base(m[1]) == filepath.Base(cpath) {
			var l int
			fmt.Sscanf(m[2], "%d", &l)
			for k := l - 1; k >= 0 && k < len(lines); k-- {
				if strings.HasPrefix(lines[k], "// -------- func ") {
					where = " [in " + strings.TrimPrefix(lines[k], "// -------- func ") + "]"
					break
				}
				if strings.HasPrefix(lines[k], "// ---------------- ") {
					where = " [in section " + strings.TrimPrefix(lines[k], "// ---------------- ") + "]"
					break
				}
			}
			if l >= 1 && l <= len(lines) {
				where += " `" + strings.TrimSpace(lines[l-1]) + "`"
			}
		}
		msg := m[3] + where
		if seen[msg] {
			continue
		}
		seen[msg] = true
		if len(got) < max {
			got = append(got, msg)
		}
	}
	if total == 0 {
		if len(out) > 1200 {
			out = out[:1200]
		}
		return strings.TrimSpace(out)
	}
	return fmt.Sprintf("%d error(s); distinct: %s", total, strings.Join(got, " || "))
}

// c11CC is the entry point, called from runC11.
func c11CC(c *core.Ctx, k *gctx) {
	t0 := time.Now()
	cb := c.BuildC()
	if cb == nil {
		return
	}
	c11T("cc.build", t0)
	for _, cc := range ccCompilers {
		if cc.Thorough && !c.Thorough() {
			continue
		}
		if _, err := exec.LookPath(cc.Bin); err != nil {
			c.Infra("C compiler %s not found: %v", cc.Bin, err)
		}
	}
	base := filepath.Join(cb.GenC, "wuffs-base.c")
	if _, err := os.Stat(base); err != nil {
		c.Infra("wuffs gen produced no gen/c/wuffs-base.c: %v", err)
	}

	// The corpus: hand-written, generated, known-failing.
	gen, genInfo := ccGenerated()
	var progs []ccProg
	progs = append(progs, ccLoadDir(c, "ccompile", false)...)
	progs = append(progs, gen...)
	progs = append(progs, ccLoadDir(c, "ccompile-known", true)...)
	seen := map[string]string{}
	var uniq []ccProg
	for _, p := range progs {
		if p.Thorough && !c.Thorough() {
			continue
		}
		if o, dup := seen[p.Name]; dup {
			c.Undecided("CC.corpus", p.Origin, "corpus package names are unique", "also used by "+o)
			continue
		}
		seen[p.Name] = p.Origin
		uniq = append(uniq, p)
	}
	progs = uniq

	srcDir := filepath.Join(cb.Scratch, "cc-src")
	os.MkdirAll(srcDir, 0o755)
	results := make([]*ccResult, len(progs))
	workers := runtime.NumCPU()
	if workers > 16 {
		workers = 16
	}
	if workers < 2 {
		workers = 2
	}

	// Stage 1: wuffs-c gen + front-end load, one job per program.
	t0 = time.Now()
	var wg sync.WaitGroup
	sem := make(chan struct{}, workers)
	for i := range progs {
		wg.Add(1)
		sem <- struct{}{}
		go func(i int) {
			defer wg.Done()
			defer func() { <-sem }()
			p := progs[i]
			r := &ccResult{prog: p, cc: map[string]string{}}
			results[i] = r
			fn := filepath.Join(srcDir, p.Name+".wuffs")
			if err := os.WriteFile(fn, []byte(p.Src), 0o644); err != nil {
				r.genErr = err.Error()
				return
			}
			dir, cpath, err := cb.GenPackage(p.Name, []string{fn})
			if err != nil && !strings.Contains(err.Error(), ": exit status ") {
				dir, cpath, err = cb.GenPackage(p.Name, []string{fn}) // could not even start the compiler: once more
			}
			r.dir = dir
			if err != nil {
				r.genErr = err.Error()
				r.crashed = !strings.Contains(r.genErr, ": exit status 1: ") || strings.Contains(r.genErr, "panic:") || strings.Contains(r.genErr, "fatal error:") || strings.Contains(r.genErr, "goroutine ")
				return
			}
			r.cpath = cpath
		}(i)
	}
	wg.Wait()
	c11T("cc.gen", t0)

	// Stage 2: the C compilers, one job per (program, compiler).
	t0 = time.Now()
	var mu sync.Mutex
	for _, r := range results {
		if r.cpath == "" {
			continue // known findings are handed to the C compilers in the thorough tier only (each costs three compiler runs)
		}
		for _, cc := range ccCompilers {
			if cc.Thorough && !c.Thorough() {
				continue
			}
			wg.Add(1)
			sem <- struct{}{}
			go func(r *ccResult, cc ccCompiler) {
				defer wg.Done()
				defer func() { <-sem }()
				args := append([]string{}, cc.Args...)
				args = append(args, "-DWUFFS_IMPLEMENTATION", "-I", cb.GenC, r.cpath)
				var buf bytes.Buffer
				var err error
				for attempt := 0; attempt < 2; attempt++ {
					// A second attempt only when the first produced no source diagnostic at all
					// (resource exhaustion on a loaded machine); a rejected program fails twice.
					buf.Reset()
					cmd := exec.Command(cc.Bin, args...)
					cmd.Dir = filepath.Dir(r.cpath)
					cmd.Stdout, cmd.Stderr = &buf, &buf
					if err = cmd.Run(); err == nil || strings.Contains(buf.String(), filepath.Base(r.cpath)+":") {
						break
					}
				}
				res := ""
				if err != nil {
					res = ccFirstErrors(r.cpath, buf.String(), 6)
					if res == "" {
						res = err.Error()
					}
				}
				mu.Lock()
				r.cc[cc.Name] = res
				mu.Unlock()
			}(r, cc)
		}
	}
	wg.Wait()
	c11T("cc.compile", t0)

	// Verdicts.
	const claimAccept = "the working tree's compiler translates this corpus program (wuffs-c gen exits 0): the corpus holds accepted programs only, so that what the C compiler then says is about cgen"
	const claimCompile = "the C emitted for this accepted program is accepted by the C compiler (static semantics only, -fsyntax-only; implicit declarations, incompatible pointer types, int/pointer conversions and dropped qualifiers are errors): C11, last clause"
	nArmed, nKnown := 0, 0
	var compilers []string
	for _, cc := range ccCompilers {
		if !cc.Thorough || c.Thorough() {
			compilers = append(compilers, cc.Name+": "+cc.Bin+" "+strings.Join(cc.Args, " ")+" -DWUFFS_IMPLEMENTATION")
		}
	}
	var names []string
	for _, r := range results {
		p := r.prog
		anchor := p.Origin
		if p.Origin == "generated" {
			anchor = "generated:" + p.Name
		}
		if p.Known {
			// A program of corpus/ccompile-known/ is an accepted program whose C was
			// rejected on the tree the corpus was derived from: a genuine defect that is
			// recorded (known-findings.txt) rather than repaired. It is checked like
			// every other corpus program; the `known:` line for (CC.compile, anchor)
			// turns the failure into a KNOWN-FINDING line. One obligation per program.
			nKnown++
			switch {
			case r.cpath == "" && r.crashed:
				c.Fail("CC.crash", anchor, "the compiler does not crash on a corpus program (C11: the toolchain never crashes)", 1, ccShort(r.genErr, 1500))
			case r.cpath == "":
				c.Pass("CC.compile", anchor, claimCompile, 1, "no longer accepted by wuffs-c (the recorded finding is moot: the front end now refuses the program): "+ccShort(r.genErr, 200))
			default:
				var bad []string
				first := ""
				n := 0
				for _, cc := range ccCompilers {
					if d, ok := r.cc[cc.Name]; ok {
						n++
						if d != "" {
							bad = append(bad, cc.Name)
							if first == "" {
								first = d
							}
						}
					}
				}
				if len(bad) == 0 {
					c.Pass("CC.compile", anchor, claimCompile, n, "accepted by every C compiler (the recorded finding is repaired; the program can move to corpus/ccompile/)")
				} else {
					c.Fail("CC.compile", anchor, claimCompile, n, "accepted by wuffs-c, C rejected by "+strings.Join(bad, ", ")+": "+ccShort(first, 600))
				}
			}
			continue
		}
		nArmed++
		names = append(names, p.Name)
		switch {
		case r.cpath == "" && r.crashed:
			c.Fail("CC.crash", anchor, "the compiler does not crash on a corpus program (C11: the toolchain never crashes)", 1, ccShort(r.genErr, 1500))
			continue
		case r.cpath == "":
			c.Undecided("CC.accept", anchor, claimAccept, "wuffs-c rejects a program that the unchanged tree accepts; if the language changed deliberately, re-derive the corpus: "+ccShort(r.genErr, 600))
			continue
		}
		c.Pass("CC.accept", anchor, claimAccept, 1, "")
		for _, cc := range ccCompilers {
			d, ok := r.cc[cc.Name]
			if !ok {
				continue
			}
			c.Check(d == "", "CC.compile", anchor+"["+cc.Name+"]", claimCompile, 1, d)
		}
	}
	c.Analysed("cc_compilers", compilers)
	c.Analysed("cc_programs", names)
	c.Analysed("cc_generator", genInfo)
	c.Floor("CC.programs", "corpus programs compiled by the working tree's compiler and handed to the C compilers", nArmed, ccFloorPrograms)

	// Coverage, measured on the typed syntax trees of the armed programs.
	t0 = time.Now()
	ccCoverage(c, k, cb, results)
	c11T("cc.cover", t0)
	_ = nKnown
}

func ccShort(s string, n int) string {
	s = strings.TrimSpace(s)
	if len(s) > n {
		s = s[:n] + " …"
	}
	return s
}
