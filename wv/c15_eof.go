package main

// C15 S.eof.launder — a foreign io.EOF never becomes the sticky error of a
// Reader or ChunkReader.
//
// io.EOF is how a byte source says "nothing more". When it comes out of
// io.ReadFull / Read / ReadAt on the compressed file, or out of a codec that
// was handed that file, it means the file is shorter than its index (or its
// claimed CompressedSize) says — a hostile or truncated file. Stored in the
// sticky err field it is later returned from Read / NextChunk, where io.EOF
// means "the stream ended normally": the caller sees a clean, shorter (or
// empty) stream instead of an error. The rule: every value stored in
// ChunkReader.err or Reader.err that may come from an EOF-yielding call has
// passed a comparison with io.EOF that excludes it (the idiom
// `if err == io.EOF { err = io.ErrUnexpectedEOF }`, or a `!= io.EOF` guard).
//
// EOF-yielding calls: io.ReadFull, io.ReadAtLeast, any method shaped like
// io.Reader.Read or io.ReaderAt.ReadAt, any dynamically dispatched call that
// is handed an io.Reader and returns an error (CodecReader.MakeDecompressor),
// and — by a package-local fixpoint — any function of lib/rac that can return
// such a value (or the literal io.EOF) unlaundered.

import (
	"fmt"
	"go/ast"
	"go/token"
	"go/types"
	"sort"
	"strings"

	"wv/core"
)

type c15eof struct {
	x        *c15x
	yielding map[*types.Func]string // package function -> why
	foreign  map[*types.Func]bool   // … and the io.EOF it can return was obtained from a foreign read (not only the literal)
}

func c15HasReadMethod(t types.Type) bool {
	it, ok := t.Underlying().(*types.Interface)
	if !ok {
		return false
	}
	for i := 0; i < it.NumMethods(); i++ {
		if it.Method(i).Name() == "Read" {
			return true
		}
	}
	return false
}

// foreignYield: call is, by its callee's documented contract, able to return
// io.EOF as its last result.
func (e *c15eof) foreignYield(info *types.Info, call *ast.CallExpr) (string, bool) {
	fn := core.Callee(info, call)
	if fn == nil {
		return "", false
	}
	sig, _ := fn.Type().(*types.Signature)
	if sig == nil || sig.Results().Len() == 0 || !c15IsError(sig.Results().At(sig.Results().Len()-1).Type()) {
		return "", false
	}
	if fn.Pkg() != nil && fn.Pkg().Path() == "io" && sig.Recv() == nil && (fn.Name() == "ReadFull" || fn.Name() == "ReadAtLeast") {
		return "io." + fn.Name(), true
	}
	if sig.Recv() != nil && (fn.Name() == "Read" || fn.Name() == "ReadAt") && sig.Params().Len() >= 1 {
		if sl, ok := sig.Params().At(0).Type().Underlying().(*types.Slice); ok && types.Identical(sl.Elem(), types.Typ[types.Byte]) {
			if fn.Pkg() == nil || !strings.HasSuffix(fn.Pkg().Path(), c15Rac) {
				return fn.Name() + " of a byte source", true
			}
		}
	}
	if sig.Recv() != nil {
		if _, isIface := sig.Recv().Type().Underlying().(*types.Interface); isIface {
			for i := 0; i < sig.Params().Len(); i++ {
				if c15HasReadMethod(sig.Params().At(i).Type()) {
					return "interface method " + fn.Name() + " handed an io.Reader", true
				}
			}
		}
	}
	return "", false
}

func (e *c15eof) yields(info *types.Info, ex ast.Expr) (string, bool) {
	call, ok := ast.Unparen(ex).(*ast.CallExpr)
	if !ok {
		return "", false
	}
	if why, ok := e.foreignYield(info, call); ok {
		return "foreign: " + why, true
	}
	if fn := core.Callee(info, call); fn != nil {
		if why, ok := e.yielding[fn.Origin()]; ok {
			pre := ""
			if e.foreign[fn.Origin()] {
				pre = "foreign: "
			}
			return pre + fn.Name() + " (" + why + ")", true
		}
	}
	return "", false
}

// notEOFEdge: on this branch edge v is known to differ from io.EOF.
func (e *c15eof) notEOFEdge(fl *core.Flow, isV core.ExprPred) core.Event {
	isEOF := func(a ast.Expr) bool { return fl.Obj(a) == e.x.ioEOF }
	return core.Event{Edge: func(cond ast.Expr, ci *core.CondInfo, taken bool) bool {
		if ci != nil && ci.Kind == "tagswitch" {
			return !taken && isV(ci.Tag) && isEOF(cond)
		}
		if taken {
			for _, a := range flattenAnd(cond) {
				if eqTest(fl, a, isV, isEOF, false) {
					return true
				}
			}
			return false
		}
		for _, a := range flattenOr(cond) {
			if eqTest(fl, a, isV, isEOF, true) {
				return true
			}
		}
		return false
	}}
}

// reaches: the value of expression ex, evaluated at statement `at`, may be a
// foreign io.EOF. Returns one description per offending definition.
func (e *c15eof) reaches(fl *core.Flow, ex ast.Expr, at ast.Node) (bad []string, visited int) {
	k := e.x.k
	info := fl.F.Info()
	ex = ast.Unparen(ex)
	if fl.Obj(ex) == e.x.ioEOF {
		return []string{k.g.Pos(ex.Pos()) + ": the literal io.EOF"}, 1
	}
	if why, ok := e.yields(info, ex); ok {
		return []string{fmt.Sprintf("%s: the result of `%s` is used directly [%s]", k.g.Pos(ex.Pos()), core.Src(k.g.Fset, ex), why)}, 1
	}
	v := c15LocalVar(fl, ex)
	if v == nil {
		return nil, 0
	}
	defs := c15Defs(fl, v)
	isV := func(a ast.Expr) bool { return c15LocalVar(fl, a) == v }
	for _, d := range defs {
		if d.Rhs == nil {
			continue
		}
		why := ""
		if fl.Obj(ast.Unparen(d.Rhs)) == e.x.ioEOF {
			why = "the literal io.EOF"
		} else if w, ok := e.yields(info, d.Rhs); ok {
			why = w
		} else {
			continue
		}
		dn := d.Node
		esc, n := fl.Escapes(core.Query{
			Start: func(n ast.Node) bool { return c15Within(n, dn) && !c15IsCompound(n) },
			Exit:  func(n ast.Node) bool { return n == at },
			Events: []core.Event{
				{Node: func(n ast.Node) bool {
					for _, d2 := range defs {
						if d2.Node != dn && c15Within(n, d2.Node) && !c15IsCompound(n) {
							return true
						}
					}
					return false
				}},
				e.notEOFEdge(fl, isV),
			},
		})
		visited += n
		if len(esc) > 0 {
			bad = append(bad, fmt.Sprintf("`%s` (%s) [%s] reaches it with no comparison against io.EOF: %s", core.Src(k.g.Fset, d.Rhs), k.g.Pos(dn.Pos()), why, esc[0].String()))
		}
	}
	return bad, visited
}

// errResult: the expression in error position of a return statement (the
// named result for a bare return).
func c15ErrResult(fl *core.Flow, r *ast.ReturnStmt) ast.Expr {
	ft := fl.F.Decl.Type
	if ft.Results == nil || len(ft.Results.List) == 0 {
		return nil
	}
	if len(r.Results) == 0 {
		last := ft.Results.List[len(ft.Results.List)-1]
		if len(last.Names) == 0 {
			return nil
		}
		return last.Names[len(last.Names)-1]
	}
	return r.Results[len(r.Results)-1]
}

func (x *c15x) eofLaunder() {
	c, k := x.c, x.k
	e := &c15eof{x: x, yielding: map[*types.Func]string{}, foreign: map[*types.Func]bool{}}
	// functions of the package that return error
	var cands []*core.Func
	for _, f := range x.funcs {
		if f.Obj == nil || f.Decl.Body == nil {
			continue
		}
		sig := f.Obj.Type().(*types.Signature)
		if sig.Results().Len() == 0 || !c15IsError(sig.Results().At(sig.Results().Len()-1).Type()) {
			continue
		}
		cands = append(cands, f)
	}
	// Fixpoint: which package functions can return a foreign (or literal) io.EOF.
	for changed := true; changed; {
		changed = false
		for _, f := range cands {
			key := f.Obj.Origin()
			fl := x.flow(f)
			var whys []string
			ast.Inspect(f.Decl.Body, func(n ast.Node) bool {
				switch r := n.(type) {
				case *ast.FuncLit:
					return false
				case *ast.ReturnStmt:
					ex := c15ErrResult(fl, r)
					if ex == nil {
						return true
					}
					if len(r.Results) == 1 && fl.F.Obj.Type().(*types.Signature).Results().Len() > 1 {
						// return g() with a multi-value g
						if w, ok := e.yields(f.Info(), r.Results[0]); ok {
							whys = append(whys, "returns "+w)
						}
						return true
					}
					if bad, _ := e.reaches(fl, ex, r); len(bad) > 0 {
						for _, b := range bad {
							whys = append(whys, "returns "+strings.SplitN(b, " reaches", 2)[0])
						}
					}
				}
				return true
			})
			if len(whys) == 0 {
				continue
			}
			isForeign := false
			for _, w := range whys {
				if strings.Contains(w, "foreign: ") {
					isForeign = true
				}
			}
			if _, done := e.yielding[key]; !done {
				e.yielding[key] = whys[0]
				changed = true
			}
			if isForeign && !e.foreign[key] {
				e.foreign[key] = true
				for _, w := range whys {
					if strings.Contains(w, "foreign: ") {
						e.yielding[key] = w
						break
					}
				}
				changed = true
			}
		}
	}
	var ynames []string
	for fn, why := range e.yielding {
		ynames = append(ynames, core.FuncFullName(fn)+": "+why)
	}
	sort.Strings(ynames)
	c.Info("S.eof.summary", c15Rac, fmt.Sprintf("%d functions of lib/rac can return io.EOF (a literal end-of-stream answer, or a foreign one passed through):\n%s", len(ynames), strings.Join(ynames, "\n")))

	// No function of the package hands a foreign io.EOF to its caller. (The
	// literal io.EOF is an answer — "no more chunks", "end of stream" — and the
	// functions that give it are listed in the summary above; S.cr / S.rd hold
	// them to their own rules.)
	var leaks []string
	nLiteral := 0
	for fn, why := range e.yielding {
		if e.foreign[fn] {
			leaks = append(leaks, k.g.Pos(fn.Pos())+": "+core.FuncFullName(fn)+" "+why)
		} else {
			nLiteral++
		}
	}
	sort.Strings(leaks)
	onlyClaim := "no function of lib/rac returns an io.EOF that it obtained from reading the compressed file (io.ReadFull, Read, ReadAt, a codec handed the file) without a comparison excluding it: to every caller, io.EOF from this package means the deliberate end-of-stream answer"
	if len(leaks) > 0 {
		c.Fail("S.eof.only", c15Rac, onlyClaim, len(cands), strings.Join(leaks, "\n"))
	} else {
		c.Pass("S.eof.only", c15Rac, onlyClaim, len(cands), fmt.Sprintf("%d error-returning functions summarised, %d give the literal answer", len(cands), nLiteral))
	}
	c.Floor("S.eof.only", "error-returning functions of lib/rac summarised", len(cands), 40)

	// Stores into the two sticky fields.
	nstores, nyield := 0, 0
	for _, f := range x.funcs {
		if f.Decl.Body == nil {
			continue
		}
		fl := x.flow(f)
		info := f.Info()
		var bad []string
		sites, visited := 0, 0
		ast.Inspect(f.Decl.Body, func(n ast.Node) bool {
			as, ok := n.(*ast.AssignStmt)
			if !ok || as.Tok != token.ASSIGN || len(as.Lhs) != len(as.Rhs) {
				return true
			}
			for i, l := range as.Lhs {
				if !c15FieldOfAny(info, l, x.fCRErr) && !c15FieldOfAny(info, l, x.fRDErr) {
					continue
				}
				sites++
				b, n := e.reaches(fl, as.Rhs[i], as)
				visited += n
				if n > 0 {
					nyield++
				}
				for _, s := range b {
					bad = append(bad, fmt.Sprintf("%s: `%s` can store a foreign io.EOF: %s", k.g.Pos(as.Pos()), core.Src(k.g.Fset, as), s))
				}
			}
			return true
		})
		nstores += sites
		if sites == 0 {
			continue
		}
		claim := "no value that may be an io.EOF obtained from reading the compressed file (io.ReadFull, Read, ReadAt, a codec handed the file, or a package function passing one on) is stored in the sticky err field without a comparison against io.EOF excluding it: a truncated or over-claimed file must surface as an error, not as a normal end of stream"
		if len(bad) > 0 {
			c.Fail("S.eof.launder", f.Name(), claim, visited+sites, strings.Join(bad, "\n"))
		} else {
			c.Pass("S.eof.launder", f.Name(), claim, visited+sites, k.g.Pos(f.Decl.Pos()))
		}
	}
	c.Floor("S.eof.launder", "stores into ChunkReader.err / Reader.err examined", nstores, 40)
	c.Floor("S.eof.launder.sources", "of those, stores whose value is defined by an EOF-yielding call", nyield, 8)
}
