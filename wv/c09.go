package main

import (
	"fmt"
	"go/ast"
	"os"
	"strings"

	"wv/core"

	a "github.com/google/wuffs/lang/ast"
	t "github.com/google/wuffs/lang/token"
)

func init() {
	register("C09", core.Spec{
		Decides:     "two structural necessary conditions of C09. (1) A CPU-specific variant is selected only when the CPU has the feature: for every std function declared with a `choose cpu_arch >= X` pre-condition (oracle: std/*.wuffs through the front end), the generated C defines it only inside `#if defined(WUFFS_PRIVATE_IMPL__CPU_ARCH__<M>)`, takes its address only as the true arm of `wuffs_base__cpu_arch__have_<X>() ? &f :` inside the same #if with the same X, never calls it directly; the object built with WUFFS_CONFIG__AVOID_CPU_ARCH contains none of these functions; and the front end rejects direct calls and type-checks every `choose` alternative for signature compatibility. (2) Partial zero-initialisation (WUFFS_INITIALIZE__LEAVE_INTERNAL_BUFFERS_UNINITIALIZED) cannot leave a refined, pointer-bearing or non-numeric base-typed field uninitialised: the parser admits only unrefined numeric base types (through arrays) or sub-objects as 'second part' fields, every private_data field of std satisfies this, and (C08 rule G6) private_impl is always zeroed (V.clone) the CPU-specific alternatives the repository documents as copies of a portable function (frozen table: deflate decode_huffman_bmi2 ~ decode_huffman_fast64) have the same body token for token, so which one the CPU selects cannot change the result",
		NotDecided:  "that the SIMD and portable bodies compute the same function (value-level; the JPEG IDCT exception in the property text is exactly such a case), reads of never-written private_data buffers, equivalence of re-initialisation, and the cpuid logic of the hand-written have_* predicates",
		Assumptions: []string{"the C lexer keeps preprocessor directives as tokens in order; cgen is the only producer of `choose` lowering", "gcc/nm for the AVOID_CPU_ARCH object", "the Wuffs front end as reader of declarations"},
		Exhaustive:  true,
	}, runC09)
}

// archOf returns the cpu_arch name of a `choose cpu_arch >= X` function ("x86_sse42"), or "".
func archOf(p *WPkg, f *a.Func) string {
	for _, o := range f.Asserts() {
		if as := o.AsAssert(); as.IsChooseCPUArch() {
			return p.str(as.Condition().RHS().AsExpr().Ident())
		}
	}
	return ""
}

func runC09(c *core.Ctx) {
	runC09Twin(c)
	cb := c.BuildC()
	if cb == nil {
		return
	}
	std := loadStd(c, cb)
	runC09Clone(c, std)
	nArch, nRefs := 0, 0
	var archFuncs []string
	for _, p := range std {
		src, err := os.ReadFile(p.CPath)
		if err != nil {
			c.Infra("%v", err)
		}
		cf := core.CParseFile(p.CPath, string(src))
		arch := map[string]string{} // C name -> arch
		for _, f := range p.Funcs {
			if f.HasChooseCPUArch() {
				if x := archOf(p, f); x != "" {
					arch[p.funcCName(f)] = x
				} else {
					c.Undecided("V1.arch", "std/"+p.Name+" "+p.funcCName(f), "the cpu_arch pre-condition names an architecture", "HasChooseCPUArch without a recognisable assert")
				}
			}
		}
		if len(arch) == 0 {
			continue
		}
		// definitions: each inside an #if defined(WUFFS_PRIVATE_IMPL__CPU_ARCH__M); remember M per function
		macroOf := map[string]string{}
		for name, x := range arch {
			nArch++
			archFuncs = append(archFuncs, name)
			anchor := "generated C " + name
			var defs []*core.CFunc
			for _, fn := range cf.Funcs {
				if fn.Name == name {
					defs = append(defs, fn)
				}
			}
			if len(defs) == 0 {
				c.Undecided("V1.guarded", anchor, "a definition exists", "not found")
				continue
			}
			var bad []string
			for _, d := range defs {
				m := ""
				for _, pp := range d.PPStack {
					if i := strings.Index(pp, "WUFFS_PRIVATE_IMPL__CPU_ARCH__"); i >= 0 && strings.HasPrefix(pp, "#if defined(") {
						m = strings.TrimSuffix(pp[i:], ")")
					}
				}
				if m == "" {
					bad = append(bad, fmt.Sprintf("line %d: defined outside any #if defined(WUFFS_PRIVATE_IMPL__CPU_ARCH__…) (pp stack %v)", d.Line, d.PPStack))
				} else if macroOf[name] != "" && macroOf[name] != m {
					bad = append(bad, fmt.Sprintf("line %d: guarded by %s, elsewhere by %s", d.Line, m, macroOf[name]))
				} else {
					macroOf[name] = m
				}
			}
			c.Check(len(bad) == 0, "V1.guarded", anchor, "a `choose cpu_arch >= "+x+"` function is compiled only under its architecture macro", len(defs), strings.Join(bad, "\n"))
		}
		// references and calls, over the whole token stream (with preprocessor tokens)
		toks := cf.Toks
		for i := 0; i < len(toks); i++ {
			x, ok := arch[toks[i].Text]
			if !ok || toks[i].Kind != 'i' {
				continue
			}
			name := toks[i].Text
			anchor := "generated C " + name
			next := ""
			if i+1 < len(toks) {
				next = toks[i+1].Text
			}
			prev := ""
			if i > 0 {
				prev = toks[i-1].Text
			}
			if prev == "&" {
				nRefs++
				// expected: #if defined(M) \n have_X ( ) ? & f : \n #endif
				ok := i >= 6 && toks[i-2].Is("?") && toks[i-3].Is(")") && toks[i-4].Is("(") && toks[i-5].Is("wuffs_base__cpu_arch__have_"+x) &&
					toks[i-6].Kind == '#' && toks[i-6].Text == "#if defined("+macroOf[name]+")" &&
					i+2 < len(toks) && toks[i+1].Is(":") && toks[i+2].Kind == '#' && strings.HasPrefix(toks[i+2].Text, "#endif")
				var got []string
				for j := i - 6; j <= i+2 && j < len(toks); j++ {
					if j >= 0 {
						got = append(got, toks[j].Text)
					}
				}
				c.Check(ok, "V1.selected", anchor+fmt.Sprintf("[reference %d]", nRefs), "the address of a cpu_arch function is taken only as `wuffs_base__cpu_arch__have_"+x+"() ? &f :` inside `#if defined("+macroOf[name]+")`", 1,
					fmt.Sprintf("line %d: found `%s`", toks[i].Line, strings.Join(got, " ")))
				continue
			}
			if next == "(" {
				// a declaration/definition: preceded by a type token or newline context; a call: preceded by an operator or `(`/`=`/`;`/`{`
				isDecl := i > 0 && (toks[i-1].Kind == 'i' || toks[i-1].Is("*"))
				if !isDecl {
					c.Fail("V1.nodirect", anchor, "a cpu_arch function is never called directly (only through the choosy pointer)", 1, fmt.Sprintf("line %d: direct call", toks[i].Line))
				}
			}
		}
	}
	c.Analysed("cpu_arch_functions", nArch)
	c.Analysed("cpu_arch_address_references", nRefs)
	c.Floor("V1", "std functions with a choose cpu_arch pre-condition", nArch, 15)
	c.Floor("V1.selected", "address-of references to cpu_arch functions in generated C", nRefs, 15)

	// AVOID_CPU_ARCH object contains none of them.
	if obj, cerr := cb.Object(core.CfgGccAvoidArch); obj == "" {
		c.Fail("V1.avoid", "object[gcc-avoid-cpu-arch]", "the generated C compiles with WUFFS_CONFIG__AVOID_CPU_ARCH", 1, cerr)
	} else {
		nm, _ := core.Tool("nm", obj)
		have := map[string]bool{}
		for _, ln := range strings.Split(nm, "\n") {
			f := strings.Fields(ln)
			if len(f) >= 2 {
				have[f[len(f)-1]] = true
			}
		}
		var bad []string
		for _, n := range archFuncs {
			if have[n] {
				bad = append(bad, n)
			}
		}
		c.Check(len(bad) == 0 && len(have) > 500, "V1.avoid", "object[gcc-avoid-cpu-arch]", "with WUFFS_CONFIG__AVOID_CPU_ARCH no CPU-specific variant is compiled in, so only the portable code can run", len(archFuncs), strings.Join(bad, " "))
	}

	// (2) private_data fields of std.
	nFields := 0
	for _, p := range std {
		for _, s := range p.Structs {
			var bad []string
			n := 0
			for _, fo := range s.Fields() {
				f := fo.AsField()
				if !f.PrivateData() {
					continue
				}
				n++
				typ := f.XType()
				for typ.Decorator() == t.IDArray {
					typ = typ.Inner()
				}
				switch {
				case typ.Decorator() != 0:
					bad = append(bad, fmt.Sprintf("field %s has decorated innermost type %s", p.str(f.Name()), typ.Str(p.TM)))
				case typ.QID()[0] == t.IDBase && (!typ.IsNumType() || typ.IsRefined()):
					bad = append(bad, fmt.Sprintf("field %s has base type %s that is refined or not numeric: leaving it uninitialised could violate its invariant", p.str(f.Name()), typ.Str(p.TM)))
				}
			}
			nFields += n
			if n > 0 {
				c.Check(len(bad) == 0, "V2.fields", "std/"+p.Name+" struct "+p.str(s.QID()[1]), "every private_data ('second part') field is an unrefined numeric base type (possibly in arrays) or a sub-object with its own initializer", n, strings.Join(bad, "\n"))
			}
		}
	}
	c.Floor("V2", "private_data fields in std", nFields, 60)

	// tier G: parser and type checker rules.
	k := newG(c, "./lang/parse", "./lang/check")
	if fl := k.flow("V2.parse", "lang/parse", "parser", "parseExtraFieldNode"); fl != nil {
		tokBase := k.obj("V2.parse", "lang/token", "IDBase")
		k.mustPass("V2.parse", fl.F.Name(), "a 'second part' struct field is accepted only if its innermost type is undecorated and, when it is a base type, an unrefined numeric type", fl, core.Query{
			Exit: fl.SuccessReturn, FuncEnd: true,
			Events: []core.Event{{Edge: func(cond ast.Expr, ci *core.CondInfo, taken bool) bool {
				if taken {
					return false
				}
				parts := flattenOr(cond)
				if len(parts) != 3 {
					// (Decorator() != 0) || (base && (!IsNumType() || IsRefined())) flattens to 2 parts; the second is an &&
					if len(parts) != 2 {
						return false
					}
				}
				okDec := false
				okBase := false
				for _, p := range parts {
					if be, ok := ast.Unparen(p).(*ast.BinaryExpr); ok && callNamedOn(fl, be.X, "Decorator", nil) {
						if v, isk := core.ConstInt64(fl.F.Info(), be.Y); isk && v == 0 && be.Op.String() == "!=" {
							okDec = true
						}
					}
					conj := flattenAnd(p)
					if len(conj) == 2 {
						isBase := func(e ast.Expr) bool {
							be, ok := ast.Unparen(e).(*ast.BinaryExpr)
							if !ok || be.Op.String() != "==" {
								return false
							}
							ix, ok := ast.Unparen(be.X).(*ast.IndexExpr)
							return ok && callNamedOn(fl, ix.X, "QID", nil) && fl.Is(tokBase)(be.Y)
						}
						inner := flattenOr(conj[1])
						if isBase(conj[0]) && len(inner) == 2 {
							x0, n0 := boolCond(inner[0])
							x1, n1 := boolCond(inner[1])
							if (callNamedOn(fl, x0, "IsNumType", nil) && n0 && callNamedOn(fl, x1, "IsRefined", nil) && !n1) ||
								(callNamedOn(fl, x1, "IsNumType", nil) && n1 && callNamedOn(fl, x0, "IsRefined", nil) && !n0) {
								okBase = true
							}
						}
					}
				}
				return okDec && okBase
			}}}})
		// arrays are looked through
		nLoop := 0
		ast.Inspect(fl.F.Decl.Body, func(m ast.Node) bool {
			if fs, ok := m.(*ast.ForStmt); ok && fs.Cond != nil && core.AnyCall(fs.Cond, func(call *ast.CallExpr) bool { return nameIs(fl, call, "Decorator") }) {
				nLoop++
			}
			return true
		})
		c.Check(nLoop == 1, "V2.parse.arrays", fl.F.Name(), "the innermost element type of arrays is what is examined", nLoop, "")
	}
	if fl := k.flow("V1.nodirect", "lang/check", "checker", "tcheckExprCall"); fl != nil {
		resolved := fl.VarsDenoting(func(e ast.Expr) bool { return callNamedOn(fl, e, "resolveFunc", nil) })
		k.mustPass("V1.nodirect.check", fl.F.Name(), "the type checker rejects a direct call of a function with a `choose cpu_arch` pre-condition, so such code runs only after the CPU test in `choose`", fl,
			core.Query{Exit: fl.SuccessReturn, FuncEnd: true,
				Events: []core.Event{{Edge: func(cond ast.Expr, ci *core.CondInfo, taken bool) bool {
					x, neg := boolCond(cond)
					return callNamedOn(fl, x, "HasChooseCPUArch", anyOf(fl, resolved)) && taken == neg
				}}}})
	}
	if fl := k.flow("V1.choose", "lang/check", "checker", "tcheckChoose"); fl != nil {
		var loop *ast.RangeStmt
		ast.Inspect(fl.F.Decl.Body, func(m ast.Node) bool {
			if rs, ok := m.(*ast.RangeStmt); ok && loop == nil && callNamedOn(fl, rs.X, "Args", nil) {
				loop = rs
			}
			return true
		})
		if loop == nil {
			c.Undecided("V1.choose.compatible", fl.F.Name(), "loop over the choose alternatives", "not found")
		} else {
			k.passChecked("V1.choose.compatible", fl.F.Name()+"[range n.Args()]", "every alternative named in a `choose` statement is checked for signature compatibility with the chosen method (CheckChooseCompatible)", fl,
				core.Query{Region: core.RegionOf(loop.Body), FallOut: true},
				func(call *ast.CallExpr) bool { return nameIs(fl, call, "CheckChooseCompatible") })
			k.mustPass("V1.choose.loop", fl.F.Name(), "the alternatives loop is on every accepting path", fl, core.Query{Exit: fl.SuccessReturn, FuncEnd: true,
				Events: []core.Event{{Node: func(x ast.Node) bool { return x.Pos() >= loop.Pos() && x.End() <= loop.End() }}}})
		}
	}
}
