package main

// C15, family D: racdict.Loader.Load hands out dictionary bytes only past the
// length, fit and CRC-32 guards, and keeps its one-entry cache consistent.

import (
	"fmt"
	"go/ast"
	"go/token"
	"go/types"

	"wv/core"
)

func c15Dictionary(x *c15x) {
	c, k := x.c, x.k
	fl := k.flow("D", c15Dict, "Loader", "Load")
	if fl == nil {
		return
	}
	info := fl.F.Info()
	anchor := fl.F.Name()
	loader := k.obj("D", c15Dict, "Loader")
	chunkObj := k.obj("D", c15Rac, "Chunk")
	maxLen := k.obj("D", c15Dict, "MaxInclLength")
	u32 := k.fn("D", c15Dict, "", "u32LE")
	if loader == nil || chunkObj == nil || maxLen == nil || u32 == nil {
		return
	}
	maxV, okMax := core.ConstValInt(constOf(maxLen))
	fCachedBytes := core.LookupField(loader, "cachedBytes")
	fCachedRange := core.LookupField(loader, "cachedRange")
	fBuf := core.LookupField(loader, "buf")
	fCSecondary := core.LookupField(chunkObj, "CSecondary")
	chunkParam := fl.Param(1)
	if !okMax || fCachedBytes == nil || fCachedRange == nil || fBuf == nil || fCSecondary == nil || chunkParam == nil {
		c.Undecided("D", anchor, "Loader{cachedBytes,cachedRange,buf}, Chunk.CSecondary, MaxInclLength and Load's chunk parameter resolve", "anchor missing")
		return
	}

	isCRange := func(e ast.Expr) bool {
		return c15DenotesAll(fl, e, func(e ast.Expr) bool {
			sel, ok := ast.Unparen(e).(*ast.SelectorExpr)
			return ok && info.Uses[sel.Sel] == types.Object(fCSecondary) && fl.Is(chunkParam)(sel.X)
		})
	}
	sizeOf := func(e ast.Expr) bool {
		call, ok := c15Strip(info, e).(*ast.CallExpr)
		if !ok {
			return false
		}
		fn := core.Callee(info, call)
		r := core.RecvOf(call)
		return fn != nil && fn.Name() == "Size" && fn.Pkg() != nil && fn.Pkg().Path() == core.Mod+"/"+c15Rac && r != nil && isCRange(r)
	}
	isReadFull := func(call *ast.CallExpr) bool {
		fn := core.Callee(info, call)
		return fn != nil && fn.FullName() == "io.ReadFull" && len(call.Args) == 2
	}
	// head read: io.ReadFull(rs, r.buf[:K])
	var headRead *ast.CallExpr
	var kPre int64
	isBufSlice := func(e ast.Expr) (int64, bool) {
		sl, ok := ast.Unparen(e).(*ast.SliceExpr)
		if !ok || !c15RecvField(fl, sl.X, fBuf) || sl.High == nil {
			return 0, false
		}
		if sl.Low != nil {
			if v, ok := core.ConstInt64(info, sl.Low); !ok || v != 0 {
				return 0, false
			}
		}
		return core.ConstInt64(info, sl.High)
	}
	// body read: io.ReadFull(rs, buffer) with buffer a local
	var bodyRead *ast.CallExpr
	var bufVar *types.Var
	ast.Inspect(fl.F.Decl.Body, func(n ast.Node) bool {
		call, ok := n.(*ast.CallExpr)
		if !ok || !isReadFull(call) {
			return true
		}
		if v, ok := isBufSlice(call.Args[1]); ok && headRead == nil {
			headRead, kPre = call, v
		} else if bv := c15LocalVar(fl, call.Args[1]); bv != nil && bodyRead == nil {
			bodyRead, bufVar = call, bv
		}
		return true
	})
	if headRead == nil || bodyRead == nil {
		c.Undecided("D", anchor, "the two reads (length prefix into r.buf[:K]; dictionary+checksum into a local buffer) are found", "io.ReadFull call sites not recognised")
		return
	}
	// dictSize: local defined once as u32LE(r.buf[:K])
	isDictSize := func(e ast.Expr) bool {
		v := c15LocalVar(fl, e)
		if v == nil {
			return false
		}
		defs := c15Defs(fl, v)
		if len(defs) != 1 || defs[0].Rhs == nil {
			return false
		}
		call, ok := c15Strip(info, defs[0].Rhs).(*ast.CallExpr)
		if !ok || !core.IsCallTo(info, call, u32) || len(call.Args) != 1 {
			return false
		}
		kk, ok := isBufSlice(call.Args[0])
		return ok && kk == kPre
	}
	// buffer's length: every definition of buffer is make([]byte, n) / r.cachedBytes[:n] / nil,
	// with n = dictSize + kBuf.
	var kBuf int64 = -1
	isLenN := func(e ast.Expr) bool {
		return c15DenotesAll(fl, e, func(e ast.Expr) bool {
			be, ok := c15Strip(info, e).(*ast.BinaryExpr)
			if !ok || be.Op != token.ADD {
				return false
			}
			for _, pr := range [][2]ast.Expr{{be.X, be.Y}, {be.Y, be.X}} {
				if isDictSize(pr[0]) {
					if v, ok := core.ConstInt64(info, pr[1]); ok {
						if kBuf >= 0 && kBuf != v {
							kBuf = -2
						} else if kBuf != -2 {
							kBuf = v
						}
						return true
					}
				}
			}
			return false
		})
	}
	var aliasDefs []ast.Node
	bufOK := true
	for _, d := range c15Defs(fl, bufVar) {
		if d.Rhs == nil {
			bufOK = false
			continue
		}
		e := c15Strip(info, d.Rhs)
		if core.IsNilIdent(info, e) {
			continue
		}
		switch v := e.(type) {
		case *ast.CallExpr:
			if id, ok := v.Fun.(*ast.Ident); ok && id.Name == "make" && len(v.Args) == 2 {
				if _, isB := info.Uses[id].(*types.Builtin); isB && isLenN(v.Args[1]) {
					continue
				}
			}
		case *ast.SliceExpr:
			if c15RecvField(fl, v.X, fCachedBytes) && v.Low == nil && v.High != nil && isLenN(v.High) {
				aliasDefs = append(aliasDefs, d.Node)
				continue
			}
		}
		bufOK = false
	}
	if !bufOK || kBuf < 0 {
		c.Undecided("D.buffer", anchor, "the read buffer is nil, make([]byte, dictSize+K) or r.cachedBytes[:dictSize+K] with one constant K", "definitions of "+bufVar.Name()+" not recognised")
		return
	}
	c.Pass("D.buffer", anchor, fmt.Sprintf("the read buffer holds dictSize+%d bytes (dictionary + checksum) in every definition; the prefix read is %d bytes", kBuf, kPre), 3, k.g.Pos(bodyRead.Pos()))

	isBufSliceOf := func(e ast.Expr, lowIsSize, highIsSize bool) bool {
		return c15DenotesAll(fl, e, func(e ast.Expr) bool {
			sl, ok := ast.Unparen(e).(*ast.SliceExpr)
			if !ok || c15LocalVar(fl, sl.X) != bufVar || sl.Max != nil {
				return false
			}
			if lowIsSize != (sl.Low != nil && isDictSize(sl.Low)) || (!lowIsSize && sl.Low != nil) {
				return false
			}
			if highIsSize != (sl.High != nil && isDictSize(sl.High)) || (!highIsSize && sl.High != nil) {
				return false
			}
			return true
		})
	}
	isDict := func(e ast.Expr) bool { return isBufSliceOf(e, false, true) }
	isSum := func(e ast.Expr) bool { return isBufSliceOf(e, true, false) }

	// Exits: returns of dictionary bytes and stores into the cache.
	var dictReturns, cacheReturns []*ast.ReturnStmt
	var otherReturns []*ast.ReturnStmt
	var stores []ast.Node
	var zeroStores []ast.Node
	ast.Inspect(fl.F.Decl.Body, func(n ast.Node) bool {
		switch s := n.(type) {
		case *ast.ReturnStmt:
			if len(s.Results) != 2 || !core.IsNilIdent(info, s.Results[1]) || core.IsNilIdent(info, s.Results[0]) {
				return true
			}
			switch {
			case c15RecvField(fl, s.Results[0], fCachedBytes):
				cacheReturns = append(cacheReturns, s)
			case isDict(s.Results[0]):
				dictReturns = append(dictReturns, s)
			default:
				otherReturns = append(otherReturns, s)
			}
		case *ast.AssignStmt:
			for i, l := range s.Lhs {
				if c15RecvField(fl, l, fCachedBytes) {
					stores = append(stores, s)
				}
				if c15RecvField(fl, l, fCachedRange) && len(s.Lhs) == len(s.Rhs) {
					if cl, ok := ast.Unparen(s.Rhs[i]).(*ast.CompositeLit); ok && len(cl.Elts) == 0 {
						zeroStores = append(zeroStores, s)
					} else {
						stores = append(stores, s)
					}
				}
			}
		}
		return true
	})
	for _, r := range otherReturns {
		c.Fail("D.return", anchor, "every successful return of bytes is the validated dictionary slice buffer[:dictSize] or the cache", 1,
			k.g.Pos(r.Pos())+": `"+core.Src(k.g.Fset, r)+"` returns bytes that are neither")
	}
	c.Floor("D.return", "returns of freshly read dictionary bytes (buffer[:dictSize])", len(dictReturns), 1)
	c.Floor("D.cache.hit", "returns of the cached dictionary", len(cacheReturns), 1)
	c.Floor("D.cache.store", "stores into Loader.cachedBytes / cachedRange (non-zero)", len(stores), 2)
	isExit := func(n ast.Node) bool {
		for _, r := range dictReturns {
			if n == ast.Node(r) {
				return true
			}
		}
		for _, s := range stores {
			if n == s {
				return true
			}
		}
		return false
	}
	q := func(ev core.Event) core.Query { return core.Query{Exit: isExit, Events: []core.Event{ev}} }

	// D.len.hi
	k.mustPass("D.len.hi", anchor,
		fmt.Sprintf("dictionary bytes are returned / cached only past a guard rejecting a length prefix above MaxInclLength (%d): (dictSize >> 30) != 0 or dictSize > MaxInclLength", maxV),
		fl, q(c15RejectGuard(func(a ast.Expr) bool {
			l, r, op, ok := c15Cmp(a)
			if !ok {
				return false
			}
			if op == token.NEQ {
				for _, pr := range [][2]ast.Expr{{l, r}, {r, l}} {
					if v, isc := core.ConstInt64(info, pr[1]); isc && v == 0 {
						if be, ok := c15Strip(info, pr[0]).(*ast.BinaryExpr); ok && be.Op == token.SHR && isDictSize(be.X) {
							if sh, ok := core.ConstInt64(info, be.Y); ok && sh >= 0 && sh < 62 && (int64(1)<<uint(sh))-1 <= maxV {
								return true
							}
						}
					}
				}
				return false
			}
			return c15Less(a, c15ConstPred(info, func(v int64) bool { return v <= maxV }), isDictSize)
		})))
	// D.len.fit
	need := kPre + kBuf
	k.mustPass("D.len.fit", anchor,
		fmt.Sprintf("dictionary bytes are returned / cached only past a guard rejecting dictSize + %d (prefix %d + checksum %d) > cRange.Size(): the wrapped dictionary lies inside the chunk's secondary range", need, kPre, kBuf),
		fl, q(c15RejectGuard(func(a ast.Expr) bool {
			return c15Less(a, sizeOf, func(e ast.Expr) bool {
				return c15Add(info, e, isDictSize, c15ConstPred(info, func(v int64) bool { return v >= need }))
			})
		})))
	// D.len.min: before the first read.
	k.mustPass("D.len.min", anchor,
		fmt.Sprintf("the %d-byte length prefix is read only past a guard rejecting cRange.Size() < K, K >= %d", kPre, kPre),
		fl, core.Query{
			Exit: func(n ast.Node) bool { return core.AnyCall(n, c15CallIs(headRead)) },
			Events: []core.Event{c15RejectGuard(func(a ast.Expr) bool {
				return c15Less(a, sizeOf, c15ConstPred(info, func(v int64) bool { return v >= kPre }))
			})}})
	// D.read: both reads happen, checked, before bytes are returned.
	k.passChecked("D.read.head", anchor, "the length prefix is read (io.ReadFull into r.buf[:K], error checked) on every path to a return of dictionary bytes",
		fl, core.Query{Exit: isExit}, c15CallIs(headRead))
	k.passChecked("D.read.body", anchor, "dictionary and checksum are read (io.ReadFull into the buffer, error checked) on every path to a return of dictionary bytes",
		fl, core.Query{Exit: isExit}, c15CallIs(bodyRead))
	// D.checksum
	crc := func(call *ast.CallExpr) bool {
		fn := core.Callee(info, call)
		return fn != nil && fn.FullName() == "hash/crc32.ChecksumIEEE" && len(call.Args) == 1
	}
	k.mustPass("D.checksum", anchor,
		"dictionary bytes are returned / cached only past a guard rejecting u32LE(buffer[dictSize:]) != crc32.ChecksumIEEE(buffer[:dictSize]) — the CRC-32 covers exactly the bytes handed out",
		fl, q(c15RejectGuard(func(a ast.Expr) bool {
			l, r, op, ok := c15Cmp(a)
			if !ok || op != token.NEQ {
				return false
			}
			for _, pr := range [][2]ast.Expr{{l, r}, {r, l}} {
				c1, ok1 := c15Strip(info, pr[0]).(*ast.CallExpr)
				c2, ok2 := c15Strip(info, pr[1]).(*ast.CallExpr)
				if ok1 && ok2 && core.IsCallTo(info, c1, u32) && len(c1.Args) == 1 && isSum(c1.Args[0]) && crc(c2) && isDict(c2.Args[0]) {
					return true
				}
			}
			return false
		})))

	// D.cache.hit: the cached bytes are returned only when the requested range
	// equals the cached range.
	for i, r := range cacheReturns {
		rr := r
		k.mustPass("D.cache.hit", fmt.Sprintf("%s[cache return #%d]", anchor, i+1),
			"the cached dictionary is returned only under `cRange == r.cachedRange` (cachedBytes/cachedRange are stored only past all guards, see D.len.*/D.checksum)",
			fl, core.Query{Exit: func(n ast.Node) bool { return n == ast.Node(rr) },
				Events: []core.Event{{Edge: func(cond ast.Expr, ci *core.CondInfo, taken bool) bool {
					if !taken || (ci != nil && ci.Kind == "tagswitch") {
						return false
					}
					for _, a := range flattenAnd(cond) {
						if eqTest(fl, a, isCRange, func(e ast.Expr) bool { return c15RecvField(fl, e, fCachedRange) }, true) {
							return true
						}
					}
					return false
				}}}})
	}
	// D.cache.invalidate: re-using the cached buffer's memory clears cachedRange
	// before the memory is overwritten.
	c.Floor("D.cache.invalidate", "definitions of the read buffer that alias r.cachedBytes", len(aliasDefs), 1)
	for i, d := range aliasDefs {
		dn := d
		k.mustPass("D.cache.invalidate", fmt.Sprintf("%s[buffer aliases cachedBytes #%d]", anchor, i+1),
			"when the read buffer re-uses r.cachedBytes' memory, r.cachedRange is reset to the zero Range before io.ReadFull overwrites it — otherwise a failed or different read leaves the cache naming corrupted bytes",
			fl, core.Query{
				Start: func(n ast.Node) bool { return c15Within(n, dn) && !c15IsCompound(n) },
				Exit:  func(n ast.Node) bool { return core.AnyCall(n, c15CallIs(bodyRead)) },
				Events: []core.Event{{Node: func(n ast.Node) bool {
					for _, z := range zeroStores {
						if n == z {
							return true
						}
					}
					return false
				}}}})
	}
}
