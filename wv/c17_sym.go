package main

// C17 helper: normalised expression trees and a tiny symbolic executor for
// straight-line assignment lists. Operands are resolved to objects through
// go/types; constants are folded to their value; commutative operands are
// sorted; `a > b` is rewritten `b < a`; `x op= y` is `x = x op y`; identity
// operations with 0 (x+0, x-0, x|0, x^0, x<<0, x>>0) are dropped. Nothing here
// looks at source text or positions.

import (
	"fmt"
	"go/ast"
	"go/constant"
	"go/token"
	"go/types"
	"sort"
	"strconv"
	"strings"

	"wv/core"
)

// symState maps location keys to symbolic values (canonical strings).
type symState map[string]string

func (s symState) clone() symState {
	o := symState{}
	for k, v := range s {
		o[k] = v
	}
	return o
}

// symx normalises expressions of one function.
type symx struct {
	info   *types.Info
	ids    map[types.Object]int      // stable numbering of objects (for location keys)
	fields map[*types.Var]string     // field object -> role name (twin renaming)
	names  map[types.Object]string   // object -> symbolic leaf name when it has no state entry
	inline map[types.Object]ast.Expr // single-definition locals, replaced by their definition
	depth  int
}

func newSymx(info *types.Info) *symx {
	return &symx{info: info, ids: map[types.Object]int{}, fields: map[*types.Var]string{}, names: map[types.Object]string{}}
}

func (x *symx) obj(id *ast.Ident) types.Object {
	if o := x.info.Uses[id]; o != nil {
		return o
	}
	return x.info.Defs[id]
}

func (x *symx) oid(o types.Object) string {
	n, ok := x.ids[o]
	if !ok {
		n = len(x.ids) + 1
		x.ids[o] = n
	}
	return "v" + strconv.Itoa(n)
}

// loc returns the location key of an assignable expression: identifier,
// *identifier, base.field (one or more levels), or "" when not a tracked shape.
func (x *symx) loc(e ast.Expr) string {
	switch v := ast.Unparen(e).(type) {
	case *ast.Ident:
		o := x.obj(v)
		if o == nil {
			return ""
		}
		if _, isVar := o.(*types.Var); !isVar {
			return ""
		}
		return x.oid(o)
	case *ast.StarExpr:
		if b := x.loc(v.X); b != "" {
			return "*" + b
		}
	case *ast.SelectorExpr:
		f, ok := x.info.Uses[v.Sel].(*types.Var)
		if !ok || !f.IsField() {
			return ""
		}
		b := x.loc(v.X)
		if b == "" {
			return ""
		}
		role, ok := x.fields[f]
		if !ok {
			role = f.Name() + "@" + x.oid(f)
		}
		return b + "." + role
	}
	return ""
}

func constStr(v constant.Value) string {
	if v.Kind() == constant.Int || v.Kind() == constant.Float {
		if i := constant.ToInt(v); i.Kind() == constant.Int {
			return "#" + i.ExactString()
		}
	}
	return "#" + v.ExactString()
}

var commutative = map[string]bool{"add": true, "mul": true, "or": true, "and": true, "xor": true, "eq": true, "ne": true}

// associative operators are flattened: add(add(a,b),c) = add(a,b,c). (Go's
// typed integer +, *, |, &, ^ are associative, wrap-around included.)
var associative = map[string]bool{"add": true, "mul": true, "or": true, "and": true, "xor": true}

// splitArgs splits "a,f(b,c),d" at top-level commas; ok=false when the
// parentheses do not balance inside s (s was not a single argument list).
func splitArgs(s string) ([]string, bool) {
	var out []string
	depth, start := 0, 0
	inStr := false
	for i := 0; i < len(s); i++ {
		ch := s[i]
		if inStr {
			if ch == '\\' {
				i++
			} else if ch == '"' {
				inStr = false
			}
			continue
		}
		switch ch {
		case '"':
			inStr = true
		case '(':
			depth++
		case ')':
			depth--
			if depth < 0 {
				return nil, false
			}
		case ',':
			if depth == 0 {
				out = append(out, s[start:i])
				start = i + 1
			}
		}
	}
	if depth != 0 || inStr {
		return nil, false
	}
	return append(out, s[start:]), true
}

// mk builds a canonical operator node.
func mk(op string, args ...string) string {
	if len(args) == 2 {
		switch op {
		case "add", "or", "xor":
			if args[0] == "#0" {
				return args[1]
			}
			if args[1] == "#0" {
				return args[0]
			}
		case "sub", "shl", "shr":
			if args[1] == "#0" {
				return args[0]
			}
		case "gt":
			return mk("lt", args[1], args[0])
		case "ge":
			return mk("le", args[1], args[0])
		}
	}
	if associative[op] {
		var flat []string
		for _, a := range args {
			if strings.HasPrefix(a, op+"(") && strings.HasSuffix(a, ")") {
				if in, ok := splitArgs(a[len(op)+1 : len(a)-1]); ok {
					flat = append(flat, in...)
					continue
				}
			}
			flat = append(flat, a)
		}
		args = flat
	}
	if commutative[op] {
		a := append([]string(nil), args...)
		sort.Strings(a)
		args = a
	}
	return op + "(" + strings.Join(args, ",") + ")"
}

var binName = map[token.Token]string{
	token.ADD: "add", token.SUB: "sub", token.MUL: "mul", token.QUO: "div", token.REM: "rem",
	token.AND: "and", token.OR: "or", token.XOR: "xor", token.SHL: "shl", token.SHR: "shr", token.AND_NOT: "andnot",
	token.LSS: "lt", token.LEQ: "le", token.GTR: "gt", token.GEQ: "ge", token.EQL: "eq", token.NEQ: "ne",
	token.LAND: "land", token.LOR: "lor",
}

var assignOp = map[token.Token]token.Token{
	token.ADD_ASSIGN: token.ADD, token.SUB_ASSIGN: token.SUB, token.MUL_ASSIGN: token.MUL, token.QUO_ASSIGN: token.QUO,
	token.REM_ASSIGN: token.REM, token.AND_ASSIGN: token.AND, token.OR_ASSIGN: token.OR, token.XOR_ASSIGN: token.XOR,
	token.SHL_ASSIGN: token.SHL, token.SHR_ASSIGN: token.SHR, token.AND_NOT_ASSIGN: token.AND_NOT,
}

func basicName(t types.Type) string {
	t = types.Unalias(t)
	if b, ok := t.Underlying().(*types.Basic); ok {
		switch b.Kind() {
		case types.Uint8:
			return "uint8" // byte
		case types.Int32:
			return "int32" // rune
		}
		return b.Name()
	}
	return t.String()
}

// eval returns the canonical form of e under state st.
func (x *symx) eval(e ast.Expr, st symState) string {
	e = ast.Unparen(e)
	if tv, ok := x.info.Types[e]; ok && tv.Value != nil {
		return constStr(tv.Value)
	}
	if k := x.loc(e); k != "" {
		if v, ok := st[k]; ok {
			return v
		}
	}
	switch v := e.(type) {
	case *ast.Ident:
		o := x.obj(v)
		if o == nil {
			return "?" + v.Name
		}
		if n, ok := x.names[o]; ok {
			return n
		}
		if d, ok := x.inline[o]; ok && x.depth < 8 {
			x.depth++
			r := x.eval(d, st)
			x.depth--
			return r
		}
		if _, isNil := o.(*types.Nil); isNil {
			return "nil"
		}
		return "u:" + x.oid(o)
	case *ast.StarExpr:
		return "deref(" + x.eval(v.X, st) + ")"
	case *ast.SelectorExpr:
		if f, ok := x.info.Uses[v.Sel].(*types.Var); ok && f.IsField() {
			role, ok := x.fields[f]
			if !ok {
				role = f.Name() + "@" + x.oid(f)
			}
			return "fld(" + x.eval(v.X, st) + "," + role + ")"
		}
		if o := x.info.Uses[v.Sel]; o != nil {
			return "g:" + x.oid(o)
		}
		return "?sel"
	case *ast.UnaryExpr:
		switch v.Op {
		case token.NOT:
			return "not(" + x.eval(v.X, st) + ")"
		case token.SUB:
			return "neg(" + x.eval(v.X, st) + ")"
		case token.XOR:
			return "compl(" + x.eval(v.X, st) + ")"
		case token.AND:
			return "addr(" + x.eval(v.X, st) + ")"
		case token.ADD:
			return x.eval(v.X, st)
		}
		return "?unary"
	case *ast.BinaryExpr:
		n, ok := binName[v.Op]
		if !ok {
			return "?bin"
		}
		return mk(n, x.eval(v.X, st), x.eval(v.Y, st))
	case *ast.IndexExpr:
		if xv, ok := x.info.Types[v.X]; ok && xv.Value != nil && xv.Value.Kind() == constant.String {
			if i, ok := core.ConstInt64(x.info, v.Index); ok {
				s := constant.StringVal(xv.Value)
				if i >= 0 && int(i) < len(s) {
					return "#" + strconv.Itoa(int(s[i]))
				}
			}
		}
		return "idx(" + x.eval(v.X, st) + "," + x.eval(v.Index, st) + ")"
	case *ast.SliceExpr:
		lo, hi := "", ""
		if v.Low != nil {
			lo = x.eval(v.Low, st)
		}
		if v.High != nil {
			hi = x.eval(v.High, st)
		}
		if lo == "#0" {
			lo = ""
		}
		if xv, ok := x.info.Types[v.X]; ok && xv.Value != nil && xv.Value.Kind() == constant.String && !v.Slice3 {
			s := constant.StringVal(xv.Value)
			l, h := int64(0), int64(len(s))
			okc := true
			if v.Low != nil {
				l, okc = core.ConstInt64(x.info, v.Low)
			}
			if okc && v.High != nil {
				h, okc = core.ConstInt64(x.info, v.High)
			}
			if okc && 0 <= l && l <= h && int(h) <= len(s) {
				return "#" + strconv.Quote(s[l:h])
			}
		}
		return "slice(" + x.eval(v.X, st) + "," + lo + "," + hi + ")"
	case *ast.CallExpr:
		if tv, ok := x.info.Types[v.Fun]; ok && tv.IsType() && len(v.Args) == 1 {
			return "conv:" + basicName(tv.Type) + "(" + x.eval(v.Args[0], st) + ")"
		}
		var args []string
		name := "?call"
		if id, ok := ast.Unparen(v.Fun).(*ast.Ident); ok {
			if b, ok := x.info.Uses[id].(*types.Builtin); ok {
				name = b.Name()
			}
		}
		if fn := core.Callee(x.info, v); fn != nil {
			name = "call:" + fn.FullName()
			if r := core.RecvOf(v); r != nil && fn.Type().(*types.Signature).Recv() != nil {
				args = append(args, x.eval(r, st))
			}
		}
		for _, a := range v.Args {
			args = append(args, x.eval(a, st))
		}
		return name + "(" + strings.Join(args, ",") + ")"
	}
	return fmt.Sprintf("?%T", e)
}

// symEffects is what exec saw besides assignments.
type symEffects struct {
	calls      []*ast.CallExpr // expression-statement calls, in order
	guards     []*ast.IfStmt   // skipped `if c { …return… }` guards (heads of chains)
	guardConds []string        // every condition of every guard chain, evaluated in the state where it is met
	guardNodes []ast.Expr      // the condition nodes, parallel to guardConds
	guardSnap  []symState      // state snapshots, parallel to guardConds
	jump       *ast.BranchStmt // trailing break/continue, if any
}

// guardChain: `if c1 {…return} else if c2 {…return} …` with no init statements
// and no final plain else; returns the conditions.
func guardChain(v *ast.IfStmt) ([]ast.Expr, bool) {
	var out []ast.Expr
	for v != nil {
		if v.Init != nil || len(v.Body.List) == 0 {
			return nil, false
		}
		if _, ok := v.Body.List[len(v.Body.List)-1].(*ast.ReturnStmt); !ok {
			return nil, false
		}
		out = append(out, v.Cond)
		switch e := v.Else.(type) {
		case nil:
			v = nil
		case *ast.IfStmt:
			v = e
		default:
			return nil, false
		}
	}
	return out, true
}

// exec symbolically executes a statement list consisting of assignments
// (=, :=, op=), ++/--, `var x = e` declarations; call statements are recorded;
// with allowGuards, an else-less `if` whose body ends in a return is recorded
// and skipped (the fall-through state is the state before it: such a guard
// must not assign, which is verified). Anything else is an error.
func (x *symx) exec(list []ast.Stmt, st symState, allowGuards bool, eff *symEffects) error {
	for _, s := range list {
		switch v := s.(type) {
		case *ast.EmptyStmt:
		case *ast.AssignStmt:
			if len(v.Lhs) != len(v.Rhs) {
				if len(v.Rhs) != 1 || (v.Tok != token.ASSIGN && v.Tok != token.DEFINE) {
					return fmt.Errorf("multi-value assignment")
				}
				rv := x.eval(v.Rhs[0], st)
				for i, l := range v.Lhs {
					if id, ok := l.(*ast.Ident); ok && id.Name == "_" {
						continue
					}
					k := x.loc(l)
					if k == "" {
						return fmt.Errorf("assignment to an untracked location")
					}
					st[k] = fmt.Sprintf("res%d(%s)", i, rv)
				}
				continue
			}
			vals := make([]string, len(v.Rhs))
			for i := range v.Rhs {
				if op, ok := assignOp[v.Tok]; ok {
					vals[i] = mk(binName[op], x.eval(v.Lhs[i], st), x.eval(v.Rhs[i], st))
				} else if v.Tok == token.ASSIGN || v.Tok == token.DEFINE {
					vals[i] = x.eval(v.Rhs[i], st)
				} else {
					return fmt.Errorf("assignment operator %s", v.Tok)
				}
			}
			for i, l := range v.Lhs {
				if id, ok := l.(*ast.Ident); ok && id.Name == "_" {
					continue
				}
				k := x.loc(l)
				if k == "" {
					return fmt.Errorf("assignment to an untracked location")
				}
				st[k] = vals[i]
			}
		case *ast.IncDecStmt:
			k := x.loc(v.X)
			if k == "" {
				return fmt.Errorf("++/-- of an untracked location")
			}
			op := "add"
			if v.Tok == token.DEC {
				op = "sub"
			}
			st[k] = mk(op, x.eval(v.X, st), "#1")
		case *ast.DeclStmt:
			gd, ok := v.Decl.(*ast.GenDecl)
			if !ok || gd.Tok != token.VAR {
				if ok && gd.Tok == token.CONST {
					continue
				}
				return fmt.Errorf("declaration statement")
			}
			for _, sp := range gd.Specs {
				vs := sp.(*ast.ValueSpec)
				for i, id := range vs.Names {
					if i < len(vs.Values) {
						st[x.loc(id)] = x.eval(vs.Values[i], st)
					} else {
						st[x.loc(id)] = "#0"
					}
				}
			}
		case *ast.ExprStmt:
			if _, isMark := v.X.(*ast.BasicLit); isMark {
				continue // branch marker inserted by core.Flow
			}
			call, ok := ast.Unparen(v.X).(*ast.CallExpr)
			if !ok {
				return fmt.Errorf("expression statement")
			}
			if eff != nil {
				eff.calls = append(eff.calls, call)
			}
		case *ast.IfStmt:
			conds, ok := guardChain(v)
			if !allowGuards || !ok {
				return fmt.Errorf("nested if that is not a chain of returning guards")
			}
			if eff != nil {
				eff.guards = append(eff.guards, v)
				for _, cd := range conds {
					eff.guardConds = append(eff.guardConds, x.eval(cd, st))
					eff.guardNodes = append(eff.guardNodes, cd)
					eff.guardSnap = append(eff.guardSnap, st.clone())
				}
			}
		case *ast.BranchStmt:
			if v != list[len(list)-1] || eff == nil {
				return fmt.Errorf("jump statement")
			}
			eff.jump = v
		default:
			return fmt.Errorf("statement %T", s)
		}
	}
	return nil
}

// tripCount evaluates a counted loop `for i := c0; i REL c1; i±=k` whose
// counter is not assigned in the body: the number of iterations and the
// sequence of counter values (bounded at 1024).
func tripCount(info *types.Info, fs *ast.ForStmt) (ctr types.Object, vals []int64, ok bool) {
	as, isAs := fs.Init.(*ast.AssignStmt)
	if !isAs || len(as.Lhs) != 1 || len(as.Rhs) != 1 || as.Tok != token.DEFINE {
		return nil, nil, false
	}
	id, isId := as.Lhs[0].(*ast.Ident)
	if !isId {
		return nil, nil, false
	}
	ctr = info.Defs[id]
	c0, ok0 := core.ConstInt64(info, as.Rhs[0])
	if ctr == nil || !ok0 {
		return nil, nil, false
	}
	// cond: i REL c (either order), possibly the first conjunct of a && chain.
	cond := flattenAnd(fs.Cond)[0]
	be, isB := ast.Unparen(cond).(*ast.BinaryExpr)
	if !isB {
		return nil, nil, false
	}
	op := be.Op
	var bound int64
	var okb bool
	isCtr := func(e ast.Expr) bool {
		i, ok := ast.Unparen(e).(*ast.Ident)
		return ok && info.Uses[i] == ctr
	}
	switch {
	case isCtr(be.X):
		bound, okb = core.ConstInt64(info, be.Y)
	case isCtr(be.Y):
		bound, okb = core.ConstInt64(info, be.X)
		op = mirror(op)
	}
	if !okb {
		return nil, nil, false
	}
	var step int64
	switch p := fs.Post.(type) {
	case *ast.IncDecStmt:
		if !isCtr(p.X) {
			return nil, nil, false
		}
		step = 1
		if p.Tok == token.DEC {
			step = -1
		}
	case *ast.AssignStmt:
		if len(p.Lhs) != 1 || !isCtr(p.Lhs[0]) {
			return nil, nil, false
		}
		k, okk := core.ConstInt64(info, p.Rhs[0])
		if !okk {
			return nil, nil, false
		}
		switch p.Tok {
		case token.ADD_ASSIGN:
			step = k
		case token.SUB_ASSIGN:
			step = -k
		default:
			return nil, nil, false
		}
	default:
		return nil, nil, false
	}
	if assignsTo(info, fs.Body, ctr) {
		return nil, nil, false
	}
	for i := c0; len(vals) <= 1024; i += step {
		t, okr := relEval(op, i, bound)
		if !okr {
			return nil, nil, false
		}
		if !t {
			return ctr, vals, true
		}
		vals = append(vals, i)
	}
	return nil, nil, false
}

// assignsTo: some statement inside n assigns (=, op=, ++, :=-reuse, &taken) obj.
func assignsTo(info *types.Info, n ast.Node, obj types.Object) bool {
	found := false
	isObj := func(e ast.Expr) bool {
		id, ok := ast.Unparen(e).(*ast.Ident)
		return ok && (info.Uses[id] == obj || info.Defs[id] == obj)
	}
	ast.Inspect(n, func(m ast.Node) bool {
		switch v := m.(type) {
		case *ast.AssignStmt:
			for _, l := range v.Lhs {
				if isObj(l) {
					found = true
				}
			}
		case *ast.IncDecStmt:
			if isObj(v.X) {
				found = true
			}
		case *ast.UnaryExpr:
			if v.Op == token.AND && isObj(v.X) {
				found = true
			}
		case *ast.RangeStmt:
			if (v.Key != nil && isObj(v.Key)) || (v.Value != nil && isObj(v.Value)) {
				found = true
			}
		}
		return !found
	})
	return found
}

// assignmentsTo lists the right-hand sides assigned to obj inside n, with the
// compound operator folded (`x >>= 7` gives shr(x,7)), evaluated statelessly.
func (x *symx) assignmentsTo(n ast.Node, obj types.Object) (rhs []string, nodes []ast.Node) {
	isObj := func(e ast.Expr) bool {
		id, ok := ast.Unparen(e).(*ast.Ident)
		return ok && (x.info.Uses[id] == obj || x.info.Defs[id] == obj)
	}
	ast.Inspect(n, func(m ast.Node) bool {
		switch v := m.(type) {
		case *ast.AssignStmt:
			for i, l := range v.Lhs {
				if !isObj(l) {
					continue
				}
				if len(v.Lhs) != len(v.Rhs) {
					rhs = append(rhs, "?multi")
					nodes = append(nodes, v)
					continue
				}
				if op, ok := assignOp[v.Tok]; ok {
					rhs = append(rhs, mk(binName[op], x.eval(l, nil), x.eval(v.Rhs[i], nil)))
				} else {
					rhs = append(rhs, x.eval(v.Rhs[i], nil))
				}
				nodes = append(nodes, v)
			}
		case *ast.IncDecStmt:
			if isObj(v.X) {
				op := "add"
				if v.Tok == token.DEC {
					op = "sub"
				}
				rhs = append(rhs, mk(op, x.eval(v.X, nil), "#1"))
				nodes = append(nodes, v)
			}
		case *ast.ValueSpec:
			for i, id := range v.Names {
				if x.info.Defs[id] == obj {
					if i < len(v.Values) {
						rhs = append(rhs, x.eval(v.Values[i], nil))
					} else {
						rhs = append(rhs, "#0")
					}
					nodes = append(nodes, v)
				}
			}
		}
		return true
	})
	return
}

// singleDefs finds the local variables of body that are written exactly once,
// by a 1:1 `:=` / `=` / `var x = e` (any other write form — op=, ++, range,
// multi-value, &x — disqualifies), and registers them for inlining.
func (x *symx) singleDefs(body ast.Node) {
	cnt := map[types.Object]int{}
	def := map[types.Object]ast.Expr{}
	o := func(e ast.Expr) types.Object {
		id, ok := ast.Unparen(e).(*ast.Ident)
		if !ok {
			return nil
		}
		return x.obj(id)
	}
	ast.Inspect(body, func(m ast.Node) bool {
		switch v := m.(type) {
		case *ast.AssignStmt:
			for i, l := range v.Lhs {
				ob := o(l)
				if ob == nil {
					continue
				}
				cnt[ob]++
				if len(v.Lhs) == len(v.Rhs) && (v.Tok == token.ASSIGN || v.Tok == token.DEFINE) {
					def[ob] = v.Rhs[i]
				} else {
					cnt[ob] += 2
				}
			}
		case *ast.IncDecStmt:
			if ob := o(v.X); ob != nil {
				cnt[ob] += 2
			}
		case *ast.UnaryExpr:
			if v.Op == token.AND {
				if ob := o(v.X); ob != nil {
					cnt[ob] += 2
				}
			}
		case *ast.RangeStmt:
			for _, e := range []ast.Expr{v.Key, v.Value} {
				if e != nil {
					if ob := o(e); ob != nil {
						cnt[ob] += 2
					}
				}
			}
		case *ast.ValueSpec:
			for i, id := range v.Names {
				ob := x.info.Defs[id]
				if ob == nil {
					continue
				}
				cnt[ob]++
				if i < len(v.Values) {
					def[ob] = v.Values[i]
				} else {
					cnt[ob] += 2
				}
			}
		}
		return true
	})
	if x.inline == nil {
		x.inline = map[types.Object]ast.Expr{}
	}
	for ob, n := range cnt {
		if n == 1 && def[ob] != nil {
			if v, ok := ob.(*types.Var); ok && !v.IsField() {
				x.inline[ob] = def[ob]
			}
		}
	}
}
