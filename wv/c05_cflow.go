package main

// C-level liveness for C05: backward may-liveness of the locals (v_*, t_*) of
// each generated coroutine over a control-flow graph built from the statement
// tree of the generated C itself, recording what is live right after every
// suspension-point label (where a resumed call continues). This is independent
// of the Wuffs-level model in c05.go: it makes no assumption about what an I/O
// built-in keeps in its scratch word, because it reads what the emitted C
// actually does after each resumption label.

import (
	"sort"
	"strconv"
	"strings"

	"wv/core"
)

type cfNode struct {
	use, def map[string]bool
	kill     bool // def is a whole-variable assignment (kills liveness)
	succ     []int
	gotoL    string
	csp      string
	line     int
	kind     string      // statement kind of the node ("expr", "if", "while", …); "" for synthetic nodes
	toks     []core.CTok // expr/return: the statement; if/while/do/switch: the condition
}

type cfGraph struct {
	nodes  []*cfNode
	labels map[string]int
}

func (g *cfGraph) add(n *cfNode) int {
	g.nodes = append(g.nodes, n)
	return len(g.nodes) - 1
}

func isLocalName(s string) bool {
	return strings.HasPrefix(s, "v_") || (strings.HasPrefix(s, "t_") && len(s) > 2 && s[2] >= '0' && s[2] <= '9')
}

// usesDefs analyses one expression/declaration statement.
func usesDefs(toks []core.CTok) (use, def map[string]bool, kill bool) {
	use, def = map[string]bool{}, map[string]bool{}
	// find the first top-level assignment operator
	depth := 0
	eq := -1
	for i, t := range toks {
		if t.Is("(") || t.Is("[") || t.Is("{") {
			depth++
		} else if t.Is(")") || t.Is("]") || t.Is("}") {
			depth--
		} else if depth == 0 && isAssignOp(t) {
			eq = i
			break
		}
	}
	rhsFrom := 0
	if eq >= 0 {
		lhs := toks[:eq]
		// whole-variable target: the last token is a local and nothing dereferences/indexes it
		if n := len(lhs); n >= 1 && lhs[n-1].Kind == 'i' && isLocalName(lhs[n-1].Text) {
			plain := true
			for _, t := range lhs[:n-1] {
				if t.Is("[") || t.Is("->") || t.Is(".") || t.Is("(") {
					plain = false
				}
			}
			if plain {
				def[lhs[n-1].Text] = true
				if toks[eq].Is("=") {
					kill = true
				} else {
					use[lhs[n-1].Text] = true
				}
				rhsFrom = eq + 1
			}
		}
	} else {
		// declaration without initialiser: `uint16_t t_0;` — neither use nor def
		if n := len(toks); n >= 2 && toks[n-1].Kind == 'i' && isLocalName(toks[n-1].Text) {
			onlyType := true
			for _, t := range toks[:n-1] {
				if t.Kind != 'i' && !t.Is("*") {
					onlyType = false
				}
			}
			if onlyType {
				return use, def, false
			}
		}
		// array declaration `uint8_t v_buf[4] = {0}` has an '=' and is handled above as non-plain
	}
	for _, t := range toks[rhsFrom:] {
		if t.Kind == 'i' && isLocalName(t.Text) {
			use[t.Text] = true
		}
	}
	// array declaration with initialiser: `T v_a[N] = {0}` — a definition, not a use
	if eq >= 0 && rhsFrom == 0 {
		lhs := toks[:eq]
		for i, t := range lhs {
			if t.Kind == 'i' && isLocalName(t.Text) && i+1 < len(lhs) && lhs[i+1].Is("[") && i > 0 && lhs[i-1].Kind == 'i' && !lhs[i-1].Is("return") {
				// preceded by a type name: declaration
				isDecl := true
				for _, p := range lhs[:i] {
					if p.Kind != 'i' && !p.Is("*") {
						isDecl = false
					}
				}
				if isDecl {
					delete(use, t.Text)
					def[t.Text] = true
					kill = true
				}
			}
		}
	}
	return use, def, kill
}

type cfCtx struct {
	brk, cont int
}

// build returns the entry node of list, flowing to next afterwards.
func (g *cfGraph) build(list []*core.CStmt, next int, ctx cfCtx, inSuspend *bool) int {
	entry := next
	for i := len(list) - 1; i >= 0; i-- {
		entry = g.buildStmt(list[i], entry, ctx)
	}
	return entry
}

func usesOf(toks []core.CTok) map[string]bool {
	u := map[string]bool{}
	for _, t := range toks {
		if t.Kind == 'i' && isLocalName(t.Text) {
			u[t.Text] = true
		}
	}
	return u
}

func (g *cfGraph) buildStmt(s *core.CStmt, next int, ctx cfCtx) int {
	switch s.Kind {
	case "expr":
		if len(s.Toks) == 0 {
			return next
		}
		head := s.Toks[0].Text
		if (head == "WUFFS_BASE__COROUTINE_SUSPENSION_POINT" || head == "WUFFS_BASE__COROUTINE_SUSPENSION_POINT_MAYBE_SUSPEND") && len(s.Toks) >= 3 {
			return g.add(&cfNode{csp: s.Toks[2].Text, succ: []int{next}, line: s.Line, kind: "csp", toks: s.Toks})
		}
		if head == "WUFFS_BASE__COROUTINE_SUSPENSION_POINT_0" {
			return next
		}
		u, d, k := usesDefs(s.Toks)
		return g.add(&cfNode{use: u, def: d, kill: k, succ: []int{next}, line: s.Line, kind: "expr", toks: s.Toks})
	case "block":
		return g.build(s.Body, next, ctx, nil)
	case "if":
		th := g.build(s.Body, next, ctx, nil)
		el := next
		if s.Else != nil {
			el = g.build(s.Else, next, ctx, nil)
		}
		return g.add(&cfNode{use: usesOf(s.Toks), succ: []int{th, el}, line: s.Line, kind: "if", toks: s.Toks})
	case "while", "for":
		head := g.add(&cfNode{use: usesOf(s.Toks), line: s.Line, kind: s.Kind, toks: s.Toks})
		body := g.build(s.Body, head, cfCtx{brk: next, cont: head}, nil)
		g.nodes[head].succ = []int{body}
		if !(len(s.Toks) == 1 && (s.Toks[0].Is("true") || s.Toks[0].Is("1"))) {
			g.nodes[head].succ = append(g.nodes[head].succ, next)
		}
		return head
	case "do":
		cond := g.add(&cfNode{use: usesOf(s.Toks), line: s.Line, kind: "do", toks: s.Toks})
		body := g.build(s.Body, cond, cfCtx{brk: next, cont: cond}, nil)
		g.nodes[cond].succ = []int{next}
		if !(len(s.Toks) == 1 && s.Toks[0].Is("0")) {
			g.nodes[cond].succ = append(g.nodes[cond].succ, body)
		}
		return body
	case "switch":
		// the coroutine switch is entered at its top on a fresh call; resumption edges are
		// what the recorded live sets are for. Other switches: any case may be entered.
		sw := g.add(&cfNode{use: usesOf(s.Toks), line: s.Line, kind: "switch", toks: s.Toks})
		body := g.build(s.Body, next, cfCtx{brk: next, cont: ctx.cont}, nil)
		g.nodes[sw].succ = []int{body}
		if core.CText(s.Toks) != "coro_susp_point" {
			g.nodes[sw].succ = append(g.nodes[sw].succ, next)
			// case labels inside were registered as nodes by the "case" branch below
			for _, b := range s.Body {
				if b.Kind == "case" {
					if id, ok := g.labels["case@"+itoa(b.Line)]; ok {
						g.nodes[sw].succ = append(g.nodes[sw].succ, id)
					}
				}
			}
		}
		return sw
	case "case":
		id := g.add(&cfNode{succ: []int{next}, line: s.Line})
		g.labels["case@"+itoa(s.Line)] = id
		return id
	case "label":
		id := g.add(&cfNode{succ: []int{next}, line: s.Line})
		g.labels[s.Label] = id
		return id
	case "goto":
		return g.add(&cfNode{gotoL: s.Label, line: s.Line, kind: "goto"})
	case "return":
		return g.add(&cfNode{use: usesOf(s.Toks), line: s.Line, kind: "return", toks: s.Toks})
	case "break":
		return g.add(&cfNode{succ: []int{ctx.brk}, line: s.Line})
	case "continue":
		return g.add(&cfNode{succ: []int{ctx.cont}, line: s.Line})
	}
	return next
}

func itoa(i int) string { return strconv.Itoa(i) }

// coroGraph builds the control-flow graph of a generated coroutine body up to
// (excluding) its `suspend:` epilogue: every label from `suspend:` on is the
// exit node, gotos are resolved, and the coroutine switch is entered at its
// top only (resumption edges are what the per-label analyses are for).
func coroGraph(stmts []*core.CStmt) (g *cfGraph, entry, exit int, body []*core.CStmt) {
	g = &cfGraph{labels: map[string]int{}}
	exit = g.add(&cfNode{})
	// Everything from `suspend:` on is epilogue: saving the locals there is not a use
	// that makes them live (it is the mechanism under test).
	cut := len(stmts)
	for i, s := range stmts {
		if s.Kind == "label" && s.Label == "suspend" {
			cut = i
			break
		}
	}
	for _, s := range stmts[cut:] {
		if s.Kind == "label" {
			g.labels[s.Label] = exit
		}
	}
	body = stmts[:cut]
	entry = g.build(body, exit, cfCtx{brk: exit, cont: exit}, nil)
	for _, n := range g.nodes {
		if n.gotoL != "" {
			if id, ok := g.labels[n.gotoL]; ok {
				n.succ = []int{id}
			} else {
				n.succ = []int{exit}
			}
		}
	}
	return g, entry, exit, body
}

// cLiveAcross returns, for a generated coroutine body, the locals live right
// after some suspension-point label, the set of locals assigned anywhere other
// than their declaration, the declared C type of each local, and the number of
// suspension points seen.
func cLiveAcross(stmts []*core.CStmt) (live map[string][]string, assigned map[string]bool, ctype map[string]string, nCSP int) {
	g, _, _, body := coroGraph(stmts)
	// declarations (before the resume block) give the types; they are definitions executed on every entry
	ctype = map[string]string{}
	assigned = map[string]bool{}
	// types and assigned-ness
	declared := map[string]bool{}
	var scan func(list []*core.CStmt, top bool)
	scan = func(list []*core.CStmt, top bool) {
		for _, s := range list {
			if s.Kind == "expr" && len(s.Toks) >= 2 {
				_, d, _ := usesDefs(s.Toks)
				for v := range d {
					// a declaration: the tokens before the name are all identifiers / '*'
					idx := -1
					for i, t := range s.Toks {
						if t.Text == v {
							idx = i
							break
						}
					}
					isDecl := idx > 0
					for _, t := range s.Toks[:max0(idx)] {
						if t.Kind != 'i' && !t.Is("*") {
							isDecl = false
						}
					}
					if isDecl && !declared[v] {
						declared[v] = true
						ctype[v] = core.CText(s.Toks[:idx])
						if idx+1 < len(s.Toks) && s.Toks[idx+1].Is("[") {
							ctype[v] += " []"
						}
						continue
					}
					assigned[v] = true
				}
				// declaration without initialiser
				if n := len(s.Toks); isLocalName(s.Toks[n-1].Text) && !declared[s.Toks[n-1].Text] {
					ok := true
					for _, t := range s.Toks[:n-1] {
						if t.Kind != 'i' && !t.Is("*") {
							ok = false
						}
					}
					if ok {
						declared[s.Toks[n-1].Text] = true
						ctype[s.Toks[n-1].Text] = core.CText(s.Toks[:n-1])
					}
				}
				// writes through an array element / memcpy into a local count as assignments
				for i, t := range s.Toks {
					if t.Kind == 'i' && isLocalName(t.Text) {
						if i+1 < len(s.Toks) && s.Toks[i+1].Is("[") {
							assigned[t.Text] = true
						}
						if i > 0 && s.Toks[i-1].Is("&") {
							assigned[t.Text] = true
						}
						if i >= 2 && s.Toks[i-1].Is("(") && s.Toks[i-2].Is("memcpy") {
							assigned[t.Text] = true
						}
					}
				}
			}
			scan(s.Body, false)
			scan(s.Else, false)
		}
	}
	scan(body, true)
	// the resume block's restores are not program assignments
	// fixpoint
	n := len(g.nodes)
	in := make([]map[string]bool, n)
	out := make([]map[string]bool, n)
	for i := range in {
		in[i], out[i] = map[string]bool{}, map[string]bool{}
	}
	for changed := true; changed; {
		changed = false
		for i := n - 1; i >= 0; i-- {
			nd := g.nodes[i]
			for _, s := range nd.succ {
				for v := range in[s] {
					if !out[i][v] {
						out[i][v] = true
						changed = true
					}
				}
			}
			for v := range out[i] {
				if nd.kill && nd.def[v] {
					continue
				}
				if !in[i][v] {
					in[i][v] = true
					changed = true
				}
			}
			for v := range nd.use {
				if !in[i][v] {
					in[i][v] = true
					changed = true
				}
			}
		}
	}
	live = map[string][]string{}
	for i, nd := range g.nodes {
		if nd.csp == "" {
			continue
		}
		nCSP++
		for v := range out[i] {
			live[v] = append(live[v], nd.csp)
		}
	}
	for v := range live {
		sort.Strings(live[v])
	}
	return live, assigned, ctype, nCSP
}

func max0(i int) int {
	if i < 0 {
		return 0
	}
	return i
}

// pointerBearingCType: C types of locals that cgen never saves (they hold pointers).
func pointerBearingCType(t string) bool {
	return strings.Contains(t, "*") || strings.Contains(t, "wuffs_base__slice_") || strings.Contains(t, "wuffs_base__table_") ||
		strings.Contains(t, "wuffs_base__io_buffer") || strings.Contains(t, "wuffs_base__token_buffer") || strings.Contains(t, "wuffs_base__pixel_")
}
