package main

import (
	"fmt"
	"go/ast"
	"go/constant"
	"go/token"
	"go/types"
	"sort"
	"strings"

	"golang.org/x/tools/go/ssa"

	"wv/core"
)

// Entry points of the toolchain as a library.
var c11Roots = []struct{ rel, recv, name string }{
	{"lang/token", "", "Tokenize"},
	{"lang/parse", "", "Parse"},
	{"lang/parse", "", "ParseExpr"},
	{"lang/check", "", "Check"},
	{"lang/render", "", "Render"},
	{"lang/generate", "", "Do"},
	{"internal/cgen", "", "Do"},
	{"lib/dumbindent", "", "FormatBytes"},
}

// Frozen table of the explicit panic sites reachable from the entry points,
// keyed by function and ordinal (source order inside the function), with the
// pre-condition that makes the site unreachable and how far it is decided.
var c11PanicTable = map[string]string{
	"lang/check.(*checker).makeSliceLengthEqEq#0": "n is the token of an integer literal that the conversion accepts — decided by P.pre.slicelen (conversion kind against what each caller passes)",
	"internal/cgen.(livenesses).reconcile#0":      "len(r) == len(s): every livenesses value of one livenessHelper is made with len(currFunk.varList) or cloned from one — value-level, not decided",
	"lib/interval.bitMask#0":                      "n >= 0: both arguments are (*big.Int).BitLen() results — decided by P.pre.bitmask",
	"lib/interval.bitMask#1":                      "n <= 1<<30: operands shorter than 2^30 bits — value-level, not decided (numeric tokens are <= 1023 bytes; constant shifts are limited to 0xFFFF per shift)",
	"lib/interval.andBothNonNeg#0":                "x, y non-empty and without negative elements — decided at the direct caller (P.pre.direct) and at the split2Ways callers (P.pre.split); the remaining callers pass complemented / masked ranges (value-level)",
	"lib/interval.andOneNegOneNonNeg#0":           "neg non-empty and all negative, non non-empty and non-negative — decided at the split2Ways callers (P.pre.split); orOneNegOneNonNeg passes complemented ranges (value-level)",
	"lib/interval.orBothNonNeg#0":                 "x, y non-empty and without negative elements — decided at the direct caller (P.pre.direct) and at the split2Ways callers (P.pre.split); And passes complemented negatives (value-level)",
	"lib/interval.orBothNonNeg#1":                 "not both upper bounds infinite here: when x[1] == y[1] == nil one interval contains the other's lower bound and the function has already returned — value-level, not decided",
	"lib/interval.orBothNonNeg#2":                 "x[1] < y[0] here: the intervals are disjoint (neither contains the other's lower bound) and y is the infinite one — value-level, not decided",
	"lib/interval.bitFillRight#0":                 "i >= 0: called on and/or results of non-negative bounds — value-level, not decided",
	"lib/interval.bitFillRight#1":                 "i.BitLen() <= 0xFFFF: operand bounds come from <= 64-bit types or from ideal constants of at most 1023 digits shifted by at most 0xFFFF per shift — value-level, not decided",
}

type c11Site struct {
	fn   *ssa.Function
	pos  token.Pos
	what string
	ord  int
}

// c11Reach: functions reachable from roots in the full (module and standard
// library) VTA call graph; function literals of a reachable function are
// reachable.
func (G *c11Graph) reachAll(roots []*ssa.Function) (map[*ssa.Function]bool, map[*ssa.Function]*ssa.Function) {
	seen := map[*ssa.Function]bool{}
	prev := map[*ssa.Function]*ssa.Function{}
	var q []*ssa.Function
	push := func(f, from *ssa.Function) {
		if f == nil || seen[f] {
			return
		}
		seen[f] = true
		prev[f] = from
		q = append(q, f)
	}
	for _, r := range roots {
		push(r, nil)
	}
	for len(q) > 0 {
		f := q[0]
		q = q[1:]
		if n := G.cg.Nodes[f]; n != nil {
			for _, e := range n.Out {
				push(e.Callee.Func, f)
			}
		}
		for _, a := range f.AnonFuncs {
			push(a, f)
		}
	}
	return seen, prev
}

func (G *c11Graph) pathAll(prev map[*ssa.Function]*ssa.Function, f *ssa.Function) string {
	var names []string
	for f != nil {
		if c11InModule(f) && c11Source(f) {
			names = append(names, G.nm(f))
		} else if len(names) == 0 || names[len(names)-1] != "(std)" {
			names = append(names, "(std)")
		}
		f = prev[f]
	}
	for i, j := 0, len(names)-1; i < j; i, j = i+1, j-1 {
		names[i], names[j] = names[j], names[i]
	}
	if len(names) > 10 {
		names = append(names[:4], append([]string{"…"}, names[len(names)-5:]...)...)
	}
	return strings.Join(names, " -> ")
}

// c11ScanSites lists, for the reachable source-level module functions, the
// explicit panics and the process-terminating calls.
func (G *c11Graph) scanSites(reach map[*ssa.Function]bool) (panics, exits []c11Site, nfun int) {
	var fs []*ssa.Function
	for f := range reach {
		if c11InModule(f) && c11Source(f) {
			fs = append(fs, f)
		}
	}
	sort.Slice(fs, func(i, j int) bool { return G.name[fs[i]] < G.name[fs[j]] })
	nfun = len(fs)
	for _, f := range fs {
		var ps []c11Site
		for _, b := range f.Blocks {
			for _, in := range b.Instrs {
				switch x := in.(type) {
				case *ssa.Panic:
					msg := ""
					v := x.X
					if mi, ok := v.(*ssa.MakeInterface); ok {
						v = mi.X
					}
					if cst, ok := v.(*ssa.Const); ok && cst.Value != nil && cst.Value.Kind() == constant.String {
						msg = constant.StringVal(cst.Value)
					}
					ps = append(ps, c11Site{fn: f, pos: x.Pos(), what: msg})
				case ssa.CallInstruction:
					if sc := x.Common().StaticCallee(); sc != nil && sc.Pkg != nil {
						full := sc.Pkg.Pkg.Path() + "." + sc.Name()
						if rv := sc.Signature.Recv(); rv != nil {
							full = sc.Pkg.Pkg.Path() + "." + strings.TrimPrefix(types.TypeString(rv.Type(), func(*types.Package) string { return "" }), "*") + "." + sc.Name()
						}
						switch full {
						case "os.Exit", "runtime.Goexit", "log.Fatal", "log.Fatalf", "log.Fatalln", "log.Panic", "log.Panicf", "log.Panicln",
							"log.Logger.Fatal", "log.Logger.Fatalf", "log.Logger.Fatalln", "log.Logger.Panic", "log.Logger.Panicf", "log.Logger.Panicln":
							exits = append(exits, c11Site{fn: f, pos: x.Pos(), what: full})
						}
					}
				}
			}
		}
		sort.Slice(ps, func(i, j int) bool { return ps[i].pos < ps[j].pos })
		for i := range ps {
			ps[i].ord = i
		}
		panics = append(panics, ps...)
	}
	return panics, exits, nfun
}

func c11Panics(k *gctx, G *c11Graph) {
	c := k.c
	g := k.g
	var roots []*ssa.Function
	for _, r := range c11Roots {
		fn := k.fn("P.roots", r.rel, r.recv, r.name)
		if fn == nil {
			continue
		}
		sf := G.prog.FuncValue(fn)
		if sf == nil {
			c.Undecided("P.roots", r.rel+"."+r.name, "entry point has an SSA function", "not found in the SSA program")
			continue
		}
		roots = append(roots, sf)
	}
	reach, prev := G.reachAll(roots)
	panics, exits, nfun := G.scanSites(reach)
	c.Analysed("reachable_module_functions", nfun)
	c.Floor("P.reach", "source-level module functions reachable from the 8 entry points", nfun, 600)

	seenKey := map[string]bool{}
	for _, s := range panics {
		key := fmt.Sprintf("%s#%d", G.nm(s.fn), s.ord)
		seenKey[key] = true
		pre, ok := c11PanicTable[key]
		claim := "an explicit panic reachable from the entry points is one of the frozen sites, each with a pre-condition that its callers establish"
		detail := fmt.Sprintf("%s: panic(%q) in %s; reached via %s", g.Pos(s.pos), s.what, G.nm(s.fn), G.pathAll(prev, s.fn))
		if !ok {
			c.Fail("P.new", key, claim, 1, detail+"\nnot in the frozen table: make it an ordinary error return, or add a row with the pre-condition that rules it out")
			continue
		}
		c.Pass("P.site", key, claim, 1, detail+"\npre-condition: "+pre)
	}
	var gone []string
	for key := range c11PanicTable {
		if !seenKey[key] {
			gone = append(gone, key)
		}
	}
	sort.Strings(gone)
	if len(gone) > 0 {
		c.Info("P.site", "frozen", "frozen panic sites no longer reachable (rows are moot): "+strings.Join(gone, ", "))
	}
	c.Analysed("reachable_explicit_panics", len(panics))

	// Process exits in library code.
	nbad := 0
	for _, s := range exits {
		rel := G.pkgRel(s.fn)
		if strings.HasPrefix(rel, "cmd/") {
			continue
		}
		nbad++
		c.Fail("P.exit", fmt.Sprintf("%s[%s]", G.nm(s.fn), s.what), "library code reachable from the entry points reports failure by returning an error, never by terminating the process",
			1, fmt.Sprintf("%s: call of %s; reached via %s", g.Pos(s.pos), s.what, G.pathAll(prev, s.fn)))
	}
	if nbad == 0 {
		c.Pass("P.exit", "entry points", "no os.Exit / log.Fatal* / log.Panic* / runtime.Goexit call is reachable from the entry points in library packages", nfun, fmt.Sprintf("%d reachable module functions scanned", nfun))
	}

	c11PreSliceLen(k)
	c11PreInterval(k)
}

// ---------------------------------------------------------------------------
// P.pre.slicelen
// ---------------------------------------------------------------------------

func c11PreSliceLen(k *gctx) {
	c := k.c
	g := k.g
	const rel = "lang/check"
	fl := k.flow("P.pre.slicelen", rel, "checker", "makeSliceLengthEqEq")
	if fl == nil {
		return
	}
	info := fl.F.Info()
	// The conversion whose failure branch holds the panic.
	kind, conv := "", ""
	ast.Inspect(fl.F.Decl.Body, func(n ast.Node) bool {
		ifs, ok := n.(*ast.IfStmt)
		if !ok {
			return true
		}
		hasPanic := false
		for _, s := range ifs.Body.List {
			if c11IsPanicStmt(info, s) {
				hasPanic = true
			}
		}
		if !hasPanic {
			return true
		}
		// variables mentioned by the condition, and their defining calls
		ast.Inspect(ifs.Cond, func(m ast.Node) bool {
			id, ok := m.(*ast.Ident)
			if !ok {
				return true
			}
			for _, d := range fl.Defs()[info.Uses[id]] {
				call, ok := ast.Unparen(d).(*ast.CallExpr)
				if !ok {
					continue
				}
				fn := core.Callee(info, call)
				if fn == nil {
					continue
				}
				switch fn.FullName() {
				case "strconv.Atoi", "strconv.ParseInt", "strconv.ParseUint":
					kind, conv = "machine-int", fn.FullName()
				case "(*math/big.Int).SetString":
					if len(call.Args) == 2 {
						if b, ok := core.ConstInt64(info, call.Args[1]); ok && (b == 10 || b == 0) {
							kind, conv = "bigint", fmt.Sprintf("%s(…, %d)", fn.FullName(), b)
						}
					}
				}
			}
			return true
		})
		return true
	})
	if kind == "" {
		c.Undecided("P.pre.slicelen", fl.F.Name(), "the panic of makeSliceLengthEqEq guards the failure of a recognised string-to-integer conversion", "no strconv.Atoi / ParseInt / (*big.Int).SetString(…, 10) result is tested in front of the panic")
		return
	}
	callee := fl.F.Obj
	iterLength := g.LookupMethod("lang/ast", "Iterate", "Length")
	insert := g.LookupMethod("lang/token", "Map", "Insert")
	nsites := 0
	for _, f := range g.AllFuncs(g.Pkg(rel)) {
		var calls []*ast.CallExpr
		ast.Inspect(f.Decl.Body, func(n ast.Node) bool {
			if call, ok := n.(*ast.CallExpr); ok && core.IsCallTo(f.Info(), call, callee) && len(call.Args) == 2 {
				calls = append(calls, call)
			}
			return true
		})
		if len(calls) == 0 {
			continue
		}
		cf := core.NewFlow(f)
		ci := f.Info()
		for i, call := range calls {
			nsites++
			anchor := fmt.Sprintf("%s[call %d of makeSliceLengthEqEq]", f.Name(), i)
			claim := "the length token handed to makeSliceLengthEqEq is one that its conversion (" + conv + ") accepts, so the panic behind the conversion failure is unreachable"
			arg := ast.Unparen(call.Args[1])
			// (a) n.Length() of an *ast.Iterate: validated by the parser (P.pre.iterlen).
			if ac, ok := arg.(*ast.CallExpr); ok && iterLength != nil && core.IsCallTo(ci, ac, iterLength) {
				c.Pass("P.pre.slicelen", anchor, claim, 1, fmt.Sprintf("%s: argument is (*ast.Iterate).Length(), a literal in [1, 256] by parseIterateBlock (P.pre.iterlen)", g.Pos(call.Pos())))
				continue
			}
			// (b) id from tm.Insert(B.String()), B a *big.Int.
			var bigObj types.Object
			if id, ok := arg.(*ast.Ident); ok {
				for _, d := range cf.Defs()[ci.Uses[id]] {
					ic, ok := ast.Unparen(d).(*ast.CallExpr)
					if !ok || insert == nil || !core.IsCallTo(ci, ic, insert) || len(ic.Args) != 1 {
						continue
					}
					sc, ok := ast.Unparen(ic.Args[0]).(*ast.CallExpr)
					if !ok {
						continue
					}
					if fn := core.Callee(ci, sc); fn != nil && fn.FullName() == "(*math/big.Int).String" {
						if r, ok := ast.Unparen(core.RecvOf(sc)).(*ast.Ident); ok {
							bigObj = ci.Uses[r]
						}
					}
				}
			}
			if bigObj == nil {
				c.Undecided("P.pre.slicelen", anchor, claim, fmt.Sprintf("%s: argument `%s` is neither (*ast.Iterate).Length() nor an ID made by tm.Insert(<*big.Int>.String())", g.Pos(call.Pos()), core.Src(g.Fset, arg)))
				continue
			}
			if kind == "bigint" {
				c.Pass("P.pre.slicelen", anchor, claim, 1, fmt.Sprintf("%s: argument is the decimal String() of the *big.Int %s; %s accepts every such string", g.Pos(call.Pos()), bigObj.Name(), conv))
				continue
			}
			// machine-int conversion: the big.Int must be range-checked on the way.
			isRange := func(cond ast.Expr, taken bool) bool {
				return c11Implied(cond, taken, func(e ast.Expr, val bool) bool {
					cl, ok := e.(*ast.CallExpr)
					if !ok || !val {
						return false
					}
					fn := core.Callee(ci, cl)
					if fn == nil || fn.FullName() != "(*math/big.Int).IsInt64" {
						return false
					}
					r, ok := ast.Unparen(core.RecvOf(cl)).(*ast.Ident)
					return ok && ci.Uses[r] == bigObj
				})
			}
			esc, n := cf.Escapes(core.Query{
				Exit:   func(x ast.Node) bool { return core.AnyCall(x, func(cl *ast.CallExpr) bool { return cl == call }) },
				Events: []core.Event{{Edge: func(cond ast.Expr, ci *core.CondInfo, taken bool) bool { return isRange(cond, taken) }}},
			})
			if len(esc) == 0 && n > 0 {
				c.Pass("P.pre.slicelen", anchor, claim, n, fmt.Sprintf("%s: %s.IsInt64() holds on every path to the call", g.Pos(call.Pos()), bigObj.Name()))
				continue
			}
			var lines []string
			for _, e := range esc {
				lines = append(lines, e.String())
			}
			c.Fail("P.pre.slicelen", anchor, claim, n, fmt.Sprintf("%s: the argument is the decimal String() of the *big.Int %s, of unbounded size, but makeSliceLengthEqEq converts it with %s and panics when that fails; no %s.IsInt64() test guards the call:\n%s",
				g.Pos(call.Pos()), bigObj.Name(), conv, bigObj.Name(), strings.Join(lines, "\n")))
		}
	}
	c.Floor("P.pre.slicelen", "call sites of makeSliceLengthEqEq (iterate length; constant slice bounds)", nsites, 2)

	c11DecimalOnly(k)
	// The parser validates iterate lengths.
	if pf := k.flow("P.pre.iterlen", "lang/parse", "parser", "parseIterateBlock"); pf != nil {
		pi := pf.F.Info()
		small := k.fn("P.pre.iterlen", "lang/parse", "", "asSmallPositiveInt256")
		newIter := g.LookupObj("lang/ast", "NewIterate")
		var call *ast.CallExpr
		ast.Inspect(pf.F.Decl.Body, func(n ast.Node) bool {
			if cl, ok := n.(*ast.CallExpr); ok {
				if fn := core.Callee(pi, cl); fn != nil && types.Object(fn) == newIter && len(cl.Args) >= 3 {
					call = cl
				}
			}
			return true
		})
		if call == nil || small == nil {
			c.Undecided("P.pre.iterlen", pf.F.Name(), "parseIterateBlock builds the Iterate node with a validated length", "a.NewIterate call not found")
		} else {
			lenObj := pf.Obj(call.Args[2])
			val := pf.VarsDenoting(func(e ast.Expr) bool {
				cl, ok := ast.Unparen(e).(*ast.CallExpr)
				return ok && pf.Call(small, nil, pf.Is(lenObj))(cl)
			})
			k.mustPass("P.pre.iterlen", pf.F.Name()+"[a.NewIterate]", "the length token stored in an Iterate node passed asSmallPositiveInt256(length) != 0, i.e. is a decimal literal in [1, 256] (the pre-condition of check.makeSliceLengthEqEq's first caller)",
				pf, core.Query{
					Exit: func(x ast.Node) bool { return core.AnyCall(x, func(cl *ast.CallExpr) bool { return cl == call }) },
					Events: []core.Event{{Edge: func(cond ast.Expr, ci *core.CondInfo, taken bool) bool {
						zero := func(e ast.Expr) bool { v, ok := core.ConstInt64(pi, e); return ok && v == 0 }
						return (!taken && eqTest(pf, cond, anyOf(pf, val), zero, true)) || (taken && eqTest(pf, cond, anyOf(pf, val), zero, false))
					}}},
				})
		}
	}
}

// c11DecimalOnly (P.pre.decimal): asSmallPositiveInt256 returns non-zero only
// for a string of ASCII decimal digits. check.makeSliceLengthEqEq converts an
// iterate length with a base-10 conversion and panics when that fails; the only
// thing that keeps `length: 0x4` or `length: 1_6` (both numeric literals for the
// tokenizer) away from it is this function (independently seeded change C11-4
// replaced the scanner by strconv.ParseInt(s, 0, 32)).
// Accepted forms: (a) a base-10 library conversion (strconv.Atoi, ParseInt /
// ParseUint with the constant base 10) whose error leads to `return 0`;
// (b) the hand-written scanner: every byte taken off the front of s is first
// tested to lie in '0'..'9' (otherwise return 0), and a non-zero return is
// reached only through the exit of the loop that runs while len(s) > 0.
func c11DecimalOnly(k *gctx) {
	c := k.c
	fl := k.flow("P.pre.decimal", "lang/parse", "", "asSmallPositiveInt256")
	if fl == nil {
		return
	}
	info := fl.F.Info()
	claim := "asSmallPositiveInt256 accepts only strings of ASCII decimal digits (the checker converts an iterate length with a base-10 conversion and panics on anything else)"
	// (a) library conversion
	convOK, convBad := 0, ""
	ast.Inspect(fl.F.Decl.Body, func(n ast.Node) bool {
		call, ok := n.(*ast.CallExpr)
		if !ok {
			return true
		}
		fn := core.Callee(info, call)
		if fn == nil || fn.Pkg() == nil {
			return true
		}
		switch fn.FullName() {
		case "strconv.Atoi":
			convOK++
		case "strconv.ParseInt", "strconv.ParseUint":
			if v, isC := core.ConstInt64(info, call.Args[1]); isC && v == 10 {
				convOK++
			} else {
				convBad = k.g.Pos(call.Pos()) + ": `" + core.Src(k.g.Fset, call) + "`: the base is not the constant 10 (base 0 also accepts 0x…, 0b…, 0o… and digit-grouping underscores)"
			}
		case "(*math/big.Int).SetString":
			if v, isC := core.ConstInt64(info, call.Args[1]); isC && v == 10 {
				convOK++
			} else {
				convBad = k.g.Pos(call.Pos()) + ": `" + core.Src(k.g.Fset, call) + "`: the base is not the constant 10"
			}
		}
		return true
	})
	if convBad != "" {
		c.Fail("P.pre.decimal", fl.F.Name(), claim, 1, convBad)
		return
	}
	if convOK > 0 {
		c.Pass("P.pre.decimal", fl.F.Name(), claim, convOK, "base-10 library conversion")
		return
	}
	// (b) hand-written scanner over a string local s
	var sObj types.Object
	for o := range fl.Defs() {
		if v, ok := o.(*types.Var); ok && types.Identical(v.Type(), types.Typ[types.String]) {
			sObj = o
		}
	}
	if sObj == nil {
		c.Undecided("P.pre.decimal", fl.F.Name(), claim, "neither a base-10 conversion nor a string local to scan was found")
		return
	}
	isS0 := func(e ast.Expr) bool {
		ie, ok := ast.Unparen(e).(*ast.IndexExpr)
		if !ok || fl.Obj(ie.X) != sObj {
			return false
		}
		v, isC := core.ConstInt64(info, ie.Index)
		return isC && v == 0
	}
	// digitEdge: on this edge s[0] is known to lie in '0'..'9'
	digitEdge := func(cond ast.Expr, ci *core.CondInfo, taken bool) bool {
		if taken {
			return false
		}
		lo, hi := false, false
		for _, at := range flattenOr(cond) {
			be, ok := ast.Unparen(at).(*ast.BinaryExpr)
			if !ok {
				continue
			}
			x, y, op := be.X, be.Y, be.Op
			if op == token.GTR || op == token.GEQ {
				x, y = y, x
				if op == token.GTR {
					op = token.LSS
				} else {
					op = token.LEQ
				}
			}
			// now x op y with op in {<, <=}
			if op != token.LSS && op != token.LEQ {
				continue
			}
			adj := int64(0)
			if op == token.LEQ {
				adj = 1
			}
			if isS0(x) { // s[0] < C  ⇒ on the false edge s[0] >= C (or > C-… for <=)
				if v, isC := core.ConstInt64(info, y); isC && v+adj >= '0' {
					lo = true
				}
			}
			if isS0(y) { // C < s[0] ⇒ on the false edge s[0] <= C
				if v, isC := core.ConstInt64(info, x); isC && v-adj <= '9' {
					hi = true
				}
			}
		}
		return lo && hi
	}
	// every front re-slice `… s[1:]` is preceded by a digit test of s[0]
	isAdvance := func(n ast.Node) bool {
		found := false
		if _, isFor := n.(*ast.ForStmt); isFor {
			return false
		}
		ast.Inspect(n, func(m ast.Node) bool {
			se, ok := m.(*ast.SliceExpr)
			if ok && fl.Obj(se.X) == sObj && se.Low != nil && se.High == nil {
				if v, isC := core.ConstInt64(info, se.Low); isC && v == 1 {
					found = true
				}
			}
			return !found
		})
		return found
	}
	// a fresh s[0] needs a fresh test: after an advance the event is forgotten, which
	// the engine models by starting a new query at each advance.
	ok1 := k.mustPass("P.pre.decimal.byte", fl.F.Name()+"[s = s[1:]]", "every byte taken off the front of the literal was tested to be an ASCII decimal digit first", fl, core.Query{
		Exit:   isAdvance,
		Events: []core.Event{{Edge: digitEdge}},
	})
	// after an advance, the next advance again needs its own test
	ok2 := k.mustPass("P.pre.decimal.next", fl.F.Name()+"[s = s[1:] … s = s[1:]]", "between two bytes taken off the front, the second one is tested as well", fl, core.Query{
		Start:  isAdvance,
		Exit:   isAdvance,
		Events: []core.Event{{Edge: digitEdge}},
	})
	// a non-zero result is returned only once the whole string was consumed
	lenEmpty := func(cond ast.Expr, ci *core.CondInfo, taken bool) bool {
		be, ok := ast.Unparen(cond).(*ast.BinaryExpr)
		if !ok {
			return false
		}
		isLen := func(e ast.Expr) bool {
			call, ok := ast.Unparen(e).(*ast.CallExpr)
			if !ok || len(call.Args) != 1 {
				return false
			}
			id, ok := call.Fun.(*ast.Ident)
			return ok && id.Name == "len" && fl.Obj(call.Args[0]) == sObj
		}
		zero := func(e ast.Expr) bool { v, isC := core.ConstInt64(info, e); return isC && v == 0 }
		switch {
		case be.Op == token.GTR && isLen(be.X) && zero(be.Y), be.Op == token.LSS && zero(be.X) && isLen(be.Y), be.Op == token.NEQ && isLen(be.X) && zero(be.Y):
			return !taken
		case be.Op == token.EQL && isLen(be.X) && zero(be.Y):
			return taken
		}
		return false
	}
	ok3 := k.mustPass("P.pre.decimal.whole", fl.F.Name()+"[return n]", "a non-zero value is returned only after the scanning loop ran until the string was empty", fl, core.Query{
		Start: isAdvance,
		Exit: func(n ast.Node) bool {
			r, ok := n.(*ast.ReturnStmt)
			if !ok || len(r.Results) != 1 {
				return false
			}
			v, isC := core.ConstInt64(info, r.Results[0])
			return !(isC && v == 0)
		},
		Events: []core.Event{{Edge: lenEmpty}},
	})
	_, _, _ = ok1, ok2, ok3
}

// ---------------------------------------------------------------------------
// P.pre.direct / P.pre.split / P.pre.bitmask (lib/interval)
// ---------------------------------------------------------------------------

// c11BoolFact: cond (possibly negated) is `V.M()` with V the given variable;
// returns (true, value of V.M() on this edge).
func c11BoolFact(info *types.Info, cond ast.Expr, taken bool, v types.Object, method string) (matched bool, val bool) {
	c11Implied(cond, taken, func(e ast.Expr, tv bool) bool {
		call, ok := e.(*ast.CallExpr)
		if !ok {
			return false
		}
		fn := core.Callee(info, call)
		if fn == nil || fn.Name() != method {
			return false
		}
		r, ok := ast.Unparen(core.RecvOf(call)).(*ast.Ident)
		if !ok || info.Uses[r] != v {
			return false
		}
		matched, val = true, tv
		return true
	})
	return matched, val
}

func c11PreInterval(k *gctx) {
	c := k.c
	g := k.g
	const rel = "lib/interval"
	p := g.Pkg(rel)
	if p == nil {
		c.Undecided("P.pre", rel, "lib/interval is loaded", "package not loaded")
		return
	}
	type pre struct {
		arg    int
		method string
	}
	// false must be established for each (argument, method).
	pres := map[string][]pre{
		"andBothNonNeg":      {{0, "Empty"}, {0, "ContainsNegative"}, {1, "Empty"}, {1, "ContainsNegative"}},
		"orBothNonNeg":       {{0, "Empty"}, {0, "ContainsNegative"}, {1, "Empty"}, {1, "ContainsNegative"}},
		"andOneNegOneNonNeg": {{0, "Empty"}, {0, "ContainsNonNegative"}, {1, "Empty"}, {1, "ContainsNegative"}},
	}
	nDirect, nSplitUses, nMask := 0, 0, 0
	split := g.LookupMethod(rel, "IntRange", "split2Ways")
	bitMask := g.LookupObj(rel, "bitMask")
	for _, f := range g.AllFuncs(p) {
		info := f.Info()
		var fl *core.Flow
		flow := func() *core.Flow {
			if fl == nil {
				fl = core.NewFlow(f)
			}
			return fl
		}
		// ---- direct calls: helper(x, y) with x, y the receiver / parameters of f
		ast.Inspect(f.Decl.Body, func(n ast.Node) bool {
			call, ok := n.(*ast.CallExpr)
			if !ok {
				return true
			}
			fn := core.Callee(info, call)
			if fn == nil || fn.Pkg() != p.Types {
				return true
			}
			if types.Object(fn) == bitMask {
				nMask++
				okAll := len(call.Args) == 2
				for _, a := range call.Args {
					ac, isCall := ast.Unparen(a).(*ast.CallExpr)
					if !isCall {
						okAll = false
						continue
					}
					if cf := core.Callee(info, ac); cf == nil || cf.FullName() != "(*math/big.Int).BitLen" {
						okAll = false
					}
				}
				c.Check(okAll, "P.pre.bitmask", fmt.Sprintf("%s[bitMask call %d]", f.Name(), nMask), "both arguments of bitMask are (*big.Int).BitLen() results, hence non-negative: its `n < 0` panic is unreachable", 2,
					fmt.Sprintf("%s: `%s`", g.Pos(call.Pos()), core.Src(g.Fset, call)))
				return true
			}
			ps := pres[fn.Name()]
			if ps == nil || len(call.Args) != 2 {
				return true
			}
			a0, ok0 := ast.Unparen(call.Args[0]).(*ast.Ident)
			a1, ok1 := ast.Unparen(call.Args[1]).(*ast.Ident)
			if !ok0 || !ok1 || !c11IsParam(flow(), info.Uses[a0]) || !c11IsParam(flow(), info.Uses[a1]) {
				return true
			}
			nDirect++
			objs := []types.Object{info.Uses[a0], info.Uses[a1]}
			var missing []string
			sites := 0
			for _, pr := range ps {
				esc, ns := flow().Escapes(core.Query{
					Exit: func(x ast.Node) bool { return core.AnyCall(x, func(cl *ast.CallExpr) bool { return cl == call }) },
					Events: []core.Event{{Edge: func(cond ast.Expr, ci *core.CondInfo, taken bool) bool {
						m, v := c11BoolFact(info, cond, taken, objs[pr.arg], pr.method)
						return m && !v
					}}},
				})
				sites += ns
				for _, e := range esc {
					missing = append(missing, fmt.Sprintf("!%s.%s() is not established: %s", objs[pr.arg].Name(), pr.method, e.String()))
				}
			}
			c.Check(len(missing) == 0 && sites > 0, "P.pre.direct", fmt.Sprintf("%s[%s(%s, %s)]", f.Name(), fn.Name(), a0.Name, a1.Name),
				"a direct call of "+fn.Name()+" on the caller's own operands is dominated by the tests that make its `pre-condition failure` panic unreachable", sites,
				fmt.Sprintf("%s\n%s", g.Pos(call.Pos()), strings.Join(missing, "\n")))
			return true
		})
		// ---- split2Ways components are used only under their has-flag
		ast.Inspect(f.Decl.Body, func(n ast.Node) bool {
			as, ok := n.(*ast.AssignStmt)
			if !ok || len(as.Lhs) != 4 || len(as.Rhs) != 1 {
				return true
			}
			call, ok := ast.Unparen(as.Rhs[0]).(*ast.CallExpr)
			if !ok || split == nil || !core.IsCallTo(info, call, split) {
				return true
			}
			var objs [4]types.Object
			for i, l := range as.Lhs {
				if id, ok := l.(*ast.Ident); ok && id.Name != "_" {
					objs[i] = info.Defs[id]
					if objs[i] == nil {
						objs[i] = info.Uses[id]
					}
				}
			}
			for ci := 0; ci < 2; ci++ {
				comp, flag := objs[ci], objs[ci+2]
				if comp == nil {
					continue
				}
				// every use of comp
				var uses []*ast.Ident
				ast.Inspect(f.Decl.Body, func(m ast.Node) bool {
					if call, ok := m.(*ast.CallExpr); ok {
						if fn := core.Callee(info, call); fn != nil && fn.Name() == "Empty" {
							if r, ok := ast.Unparen(core.RecvOf(call)).(*ast.Ident); ok && info.Uses[r] == comp {
								return false // an emptiness test needs no flag
							}
						}
					}
					if id, ok := m.(*ast.Ident); ok && info.Uses[id] == comp {
						uses = append(uses, id)
					}
					return true
				})
				if len(uses) == 0 {
					continue
				}
				nSplitUses += len(uses)
				anchor := fmt.Sprintf("%s[%s]", f.Name(), comp.Name())
				claim := "a component returned by split2Ways (empty when its has-flag is false) is used only on paths that tested the flag true: it flows into andBothNonNeg / orBothNonNeg / andOneNegOneNonNeg, which panic on an empty operand"
				if flag == nil {
					c.Fail("P.pre.split", anchor, claim, len(uses), fmt.Sprintf("%s: the has-flag of %s is discarded (`_`)", g.Pos(as.Pos()), comp.Name()))
					continue
				}
				isUse := func(x ast.Node) bool {
					found := false
					ast.Inspect(x, func(m ast.Node) bool {
						if _, isLit := m.(*ast.FuncLit); isLit {
							return false
						}
						for _, u := range uses {
							if m == ast.Node(u) {
								found = true
							}
						}
						return !found
					})
					return found
				}
				esc, ns := flow().Escapes(core.Query{Exit: isUse, Events: []core.Event{{Edge: func(cond ast.Expr, cinf *core.CondInfo, taken bool) bool {
					return c11Implied(cond, taken, func(e ast.Expr, val bool) bool {
						if id, ok := e.(*ast.Ident); ok {
							return info.Uses[id] == flag && val
						}
						// `!comp.Empty()` says the same as the flag.
						if call, ok := e.(*ast.CallExpr); ok && !val {
							if fn := core.Callee(info, call); fn != nil && fn.Name() == "Empty" {
								r, ok := ast.Unparen(core.RecvOf(call)).(*ast.Ident)
								return ok && info.Uses[r] == comp
							}
						}
						return false
					})
				}}}})
				var lines []string
				for _, e := range esc {
					lines = append(lines, e.String())
				}
				c.Check(len(esc) == 0 && ns > 0, "P.pre.split", anchor, claim, ns, fmt.Sprintf("%d uses of %s, flag %s\n%s", len(uses), comp.Name(), flag.Name(), strings.Join(lines, "\n")))
			}
			return true
		})
	}
	c.Floor("P.pre.direct", "direct calls of andBothNonNeg / orBothNonNeg on the caller's operands (IntRange.And, IntRange.Or)", nDirect, 2)
	c.Floor("P.pre.split", "uses of split2Ways components in IntRange.And / IntRange.Or", nSplitUses, 16)
	c.Floor("P.pre.bitmask", "calls of bitMask", nMask, 2)
}
