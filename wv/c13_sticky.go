package main

// C13 rule S1 — engine E5 "sticky": error taint from the underlying I/O values
// to the owner's sticky error field, on go/ssa, with bottom-up summaries
// ("returns its I/O error unstored") over the functions of the RAC writer files.

import (
	"fmt"
	"go/token"
	"go/types"
	"sort"
	"strings"

	"golang.org/x/tools/go/ssa"

	"wv/core"
)

// c13Src is one error source inside one function.
type c13Src struct {
	fn     *core.Func
	sfn    *ssa.Function
	call   ssa.CallInstruction
	callee *types.Func
	kind   string // "io" (primary I/O), "cross" (other owner's I/O-doing method), "summary" (callee returns an I/O error unstored)
	errIdx int
	ntup   int
	name   string // anchor suffix: callee#k
}

type c13Escape struct {
	ret     *ssa.Return
	carries bool // the return hands the (derived) error value to the caller
	trail   []string
}

// c13Obj resolves the types.Func a call instruction invokes (interface method
// or static callee); nil for closures and function values.
func c13Obj(ci ssa.CallInstruction) *types.Func {
	com := ci.Common()
	if com.IsInvoke() {
		return com.Method
	}
	if sc := com.StaticCallee(); sc != nil {
		if f, ok := sc.Object().(*types.Func); ok {
			return f.Origin()
		}
	}
	return nil
}

var c13ErrT = types.Universe.Lookup("error").Type()

func c13IsErr(t types.Type) bool { return t != nil && types.Identical(t, c13ErrT) }

// c13ErrIndex: index of the last result of type error (-1: none), and the result count.
func c13ErrIndex(sig *types.Signature) (int, int) {
	r := sig.Results()
	idx := -1
	for i := 0; i < r.Len(); i++ {
		if c13IsErr(r.At(i).Type()) {
			idx = i
		}
	}
	return idx, r.Len()
}

// c13PrimaryIO: the callee is a function of, or a method of an interface/type
// declared in, package io or os — i.e. an operation on the *underlying* I/O
// value (io.Writer.Write, io.Seeker.Seek, io.Reader.Read, io.Copy, io.ReadFull…).
func c13PrimaryIO(f *types.Func) bool {
	if f == nil || f.Pkg() == nil {
		return false
	}
	switch f.Pkg().Path() {
	case "io", "os":
		return true
	}
	return false
}

func c13ShortName(f *types.Func) string {
	if f == nil {
		return "?"
	}
	sig := f.Type().(*types.Signature)
	if r := sig.Recv(); r != nil {
		t := r.Type()
		star := ""
		if p, ok := t.(*types.Pointer); ok {
			t = p.Elem()
			star = "*"
		}
		tn := t.String()
		if n, ok := t.(*types.Named); ok {
			tn = n.Obj().Name()
			if n.Obj().Pkg() != nil && !strings.HasPrefix(n.Obj().Pkg().Path(), core.Mod) {
				tn = n.Obj().Pkg().Name() + "." + tn
			}
		}
		return "(" + star + tn + ")." + f.Name()
	}
	if f.Pkg() != nil && !strings.HasPrefix(f.Pkg().Path(), core.Mod) {
		return f.Pkg().Name() + "." + f.Name()
	}
	return f.Name()
}

// classify decides whether a call instruction in F is an error source.
func (s *c13) classify(F *core.Func, ci ssa.CallInstruction) (kind string, callee *types.Func) {
	obj := c13Obj(ci)
	if obj == nil {
		return "", nil
	}
	if idx, _ := c13ErrIndex(obj.Type().(*types.Signature)); idx < 0 {
		return "", obj
	}
	if c13PrimaryIO(obj) {
		return "io", obj
	}
	if _, in := s.byObj[obj]; in {
		ownF, _ := s.ownerOf(F.Obj)
		ownG, stickyG := s.ownerOf(obj)
		if ownG != nil && stickyG != nil && ownG != ownF {
			if s.doesIO[obj] {
				return "cross", obj
			}
			return "", obj
		}
		if s.leak[obj] != "" {
			return "summary", obj
		}
	}
	return "", obj
}

// sources lists the error sources of F in position order and names them.
func (s *c13) sources(F *core.Func, sfn *ssa.Function) (out []*c13Src, nonSources map[string]int) {
	nonSources = map[string]int{}
	for _, b := range sfn.Blocks {
		for _, in := range b.Instrs {
			ci, ok := in.(ssa.CallInstruction)
			if !ok {
				continue
			}
			kind, callee := s.classify(F, ci)
			if kind == "" {
				if callee != nil {
					if idx, _ := c13ErrIndex(callee.Type().(*types.Signature)); idx >= 0 {
						nonSources[c13ShortName(callee)]++
					}
				}
				continue
			}
			idx, n := c13ErrIndex(callee.Type().(*types.Signature))
			out = append(out, &c13Src{fn: F, sfn: sfn, call: ci, callee: callee, kind: kind, errIdx: idx, ntup: n})
		}
	}
	sort.SliceStable(out, func(i, j int) bool { return out[i].call.Pos() < out[j].call.Pos() })
	seen := map[string]int{}
	for _, src := range out {
		nm := c13ShortName(src.callee)
		seen[nm]++
		src.name = fmt.Sprintf("%s#%d", nm, seen[nm])
	}
	return out, nonSources
}

// errValues: the SSA values holding the error result of the call.
func c13ErrValues(src *c13Src) []ssa.Value {
	v := src.call.Value()
	if v == nil {
		return nil // go / defer
	}
	if src.ntup == 1 {
		return []ssa.Value{v}
	}
	var out []ssa.Value
	if refs := v.Referrers(); refs != nil {
		for _, r := range *refs {
			if ex, ok := r.(*ssa.Extract); ok && ex.Index == src.errIdx {
				out = append(out, ex)
			}
		}
	}
	return out
}

// isStickyAddr: addr is &recv.<sticky field>.
func (s *c13) isStickyAddr(sfn *ssa.Function, sticky *types.Var, addr ssa.Value) bool {
	fa, ok := addr.(*ssa.FieldAddr)
	if !ok || sticky == nil || len(sfn.Params) == 0 {
		return false
	}
	if fa.X != ssa.Value(sfn.Params[0]) {
		return false
	}
	pt, ok := fa.X.Type().Underlying().(*types.Pointer)
	if !ok {
		return false
	}
	st, ok := pt.Elem().Underlying().(*types.Struct)
	return ok && fa.Field < st.NumFields() && st.Field(fa.Field) == sticky
}

func c13IsNilConst(v ssa.Value) bool {
	c, ok := v.(*ssa.Const)
	return ok && c.IsNil()
}

// follow runs the path exploration for one error value e of one source.
//
// direct  : values that are e itself or 1:1 re-typings of e (nil-ness identical);
// derived : direct plus phis and wrappers (a store/return of these carries e).
// Pruning : on `e != nil` only the non-nil edge is followed; on `e == <package
// level sentinel>` the equal edge is dropped (an I/O error is not that sentinel);
// on `recv.err == nil` the edge where the sticky field is already non-nil is
// dropped (the owner is already failing).
// Discharge: a store of a derived value into recv.<sticky>.
func (s *c13) follow(src *c13Src, e ssa.Value, sticky *types.Var) (escapes []c13Escape, visited int) {
	sfn := src.sfn
	direct := map[ssa.Value]bool{e: true}
	derived := map[ssa.Value]bool{e: true}
	work := []ssa.Value{e}
	for len(work) > 0 {
		v := work[0]
		work = work[1:]
		refs := v.Referrers()
		if refs == nil {
			continue
		}
		for _, r := range *refs {
			switch x := r.(type) {
			case *ssa.Phi:
				if !derived[x] {
					derived[x] = true
					work = append(work, x)
				}
			case *ssa.MakeInterface, *ssa.ChangeInterface, *ssa.ChangeType:
				xv := x.(ssa.Value)
				if !derived[xv] {
					derived[xv] = true
					if direct[v] {
						direct[xv] = true
					}
					work = append(work, xv)
				}
			case *ssa.Call:
				// a wrapper such as fmt.Errorf("…%w", err): result of type error carrying e.
				if k, _ := s.classify(src.fn, x); k != "" {
					continue
				}
				if c13IsErr(x.Type()) && !derived[x] {
					derived[x] = true
					work = append(work, x)
				}
			}
		}
	}

	type st struct {
		b *ssa.BasicBlock
		i int
	}
	type item struct {
		s      st
		parent int
		note   string
	}
	var items []item
	seen := map[st]bool{}
	push := func(x st, parent int, note string) {
		if seen[x] {
			return
		}
		seen[x] = true
		items = append(items, item{x, parent, note})
	}
	trail := func(k int) []string {
		var t []string
		for k >= 0 {
			if items[k].note != "" {
				t = append(t, items[k].note)
			}
			k = items[k].parent
		}
		for i, j := 0, len(t)-1; i < j; i, j = i+1, j-1 {
			t[i], t[j] = t[j], t[i]
		}
		return t
	}
	// start right after the call instruction
	blk := src.call.Block()
	start := 0
	for i, in := range blk.Instrs {
		if in == ssa.Instruction(src.call) {
			start = i + 1
		}
	}
	push(st{blk, start}, -1, "")
	loadOfSticky := func(v ssa.Value) bool {
		u, ok := v.(*ssa.UnOp)
		return ok && u.Op == token.MUL && s.isStickyAddr(sfn, sticky, u.X)
	}
	loadOfGlobal := func(v ssa.Value) bool {
		u, ok := v.(*ssa.UnOp)
		if !ok || u.Op != token.MUL {
			return false
		}
		_, isg := u.X.(*ssa.Global)
		return isg
	}
	for k := 0; k < len(items); k++ {
		cur := items[k].s
		if cur.i >= len(cur.b.Instrs) {
			continue
		}
		visited++
		switch in := cur.b.Instrs[cur.i].(type) {
		case *ssa.Store:
			if s.isStickyAddr(sfn, sticky, in.Addr) && derived[in.Val] {
				continue // discharged on this path
			}
			push(st{cur.b, cur.i + 1}, k, "")
		case *ssa.Return:
			carries := false
			for _, r := range in.Results {
				if derived[r] {
					carries = true
				}
			}
			escapes = append(escapes, c13Escape{ret: in, carries: carries, trail: trail(k)})
		case *ssa.Panic:
		case *ssa.Jump:
			push(st{cur.b.Succs[0], 0}, k, "")
		case *ssa.If:
			follow := [2]bool{true, true}
			if bo, ok := in.Cond.(*ssa.BinOp); ok && (bo.Op == token.EQL || bo.Op == token.NEQ) {
				x, y := bo.X, bo.Y
				if direct[y] || loadOfSticky(y) {
					x, y = y, x
				}
				eqSucc, neSucc := 0, 1
				if bo.Op == token.NEQ {
					eqSucc, neSucc = 1, 0
				}
				switch {
				case direct[x] && c13IsNilConst(y):
					follow[eqSucc] = false // the error is nil there: nothing to report
				case direct[x] && loadOfGlobal(y):
					follow[eqSucc] = false // equals a package-level sentinel: not an I/O error
				case loadOfSticky(x) && c13IsNilConst(y):
					follow[neSucc] = false // owner already failing
				}
			}
			for si, succ := range cur.b.Succs {
				if !follow[si] {
					continue
				}
				pos := in.Cond.Pos()
				if !pos.IsValid() {
					pos = in.Pos()
				}
				push(st{succ, 0}, k, fmt.Sprintf("%s `%s`=%v", s.g.Pos(pos), c13CondText(in.Cond), si == 0))
			}
		default:
			push(st{cur.b, cur.i + 1}, k, "")
		}
	}
	return escapes, visited
}

func c13CondText(v ssa.Value) string {
	if bo, ok := v.(*ssa.BinOp); ok {
		return fmt.Sprintf("%s %s %s", c13ValName(bo.X), bo.Op, c13ValName(bo.Y))
	}
	return c13ValName(v)
}

func c13ValName(v ssa.Value) string {
	switch x := v.(type) {
	case *ssa.Const:
		if x.IsNil() {
			return "nil"
		}
		return x.String()
	case *ssa.Extract:
		return fmt.Sprintf("result#%d", x.Index)
	case *ssa.UnOp:
		if fa, ok := x.X.(*ssa.FieldAddr); ok {
			if pt, ok := fa.X.Type().Underlying().(*types.Pointer); ok {
				if st, ok := pt.Elem().Underlying().(*types.Struct); ok {
					return "." + st.Field(fa.Field).Name()
				}
			}
		}
		if g, ok := x.X.(*ssa.Global); ok {
			return g.Name()
		}
	case *ssa.Parameter:
		return x.Name()
	case *ssa.Call:
		if o := c13Obj(x); o != nil {
			return o.Name() + "(…)"
		}
	}
	return v.Name()
}

// ruleSticky computes the leak summaries to a fixed point and then records one
// obligation per source.
func (s *c13) ruleSticky() {
	c := s.c
	type fnInfo struct {
		f   *core.Func
		sfn *ssa.Function
	}
	var fns []fnInfo
	for _, f := range s.funcs {
		if f.Obj == nil {
			continue
		}
		sfn := s.prog.FuncValue(f.Obj)
		if sfn == nil || len(sfn.Blocks) == 0 {
			c.Undecided("S1", f.Name(), "SSA form of the function is available", "no SSA function")
			continue
		}
		if len(sfn.AnonFuncs) > 0 {
			c.Undecided("S1", f.Name(), "the function contains no function literal (closures are not followed by the sticky analysis)", fmt.Sprintf("%s: %d function literal(s)", s.g.Pos(f.Decl.Pos()), len(sfn.AnonFuncs)))
		}
		fns = append(fns, fnInfo{f, sfn})
	}
	// Fixed point over "F may return an I/O-origin error that it has not stored".
	for changed, round := true, 0; changed && round < 20; round++ {
		changed = false
		for _, fi := range fns {
			if s.leak[fi.f.Obj] != "" {
				continue
			}
			owner, sticky := s.ownerOf(fi.f.Obj)
			if owner != nil && sticky != nil && fi.f.Obj.Exported() {
				continue // a sink: an unstored return is a violation there, not a summary
			}
			srcs, _ := s.sources(fi.f, fi.sfn)
			for _, src := range srcs {
				for _, e := range c13ErrValues(src) {
					esc, _ := s.follow(src, e, sticky)
					for _, x := range esc {
						if x.carries && s.leak[fi.f.Obj] == "" {
							s.leak[fi.f.Obj] = s.origin(src)
							changed = true
						}
					}
				}
			}
		}
	}

	nPrimary, nCross, nSummary := 0, 0, 0
	nonSrc := map[string]int{}
	claimStore := "a non-nil error coming from the underlying writer / temp file (directly, through a helper that returns it unstored, or from the ChunkWriter) is stored into the owner's sticky field before any return of this exported method, so every later call keeps failing"
	claimFwd := "a non-nil I/O error is never swallowed: on every path it is stored into the sticky field or returned to the caller (where the summary makes the call a source)"
	for _, fi := range fns {
		f := fi.f
		owner, sticky := s.ownerOf(f.Obj)
		exportedSink := owner != nil && sticky != nil && f.Obj.Exported()
		srcs, non := s.sources(f, fi.sfn)
		for k, v := range non {
			nonSrc[k] += v
		}
		for _, src := range srcs {
			switch src.kind {
			case "io":
				nPrimary++
			case "cross":
				nCross++
			case "summary":
				nSummary++
			}
			anchor := f.Name() + "[" + src.name + "]"
			where := fmt.Sprintf("%s: %s error of %s", s.g.Pos(src.call.Pos()), src.kind, s.origin(src))
			vals := c13ErrValues(src)
			if len(vals) == 0 {
				c.Fail("S1.store", anchor, claimStore, 1, where+" — the error result is discarded at the call (never bound to a value)")
				continue
			}
			var stored, leaked, bad []string
			sites := 0
			for _, e := range vals {
				esc, visited := s.follow(src, e, sticky)
				sites += visited
				if len(esc) == 0 {
					stored = append(stored, "all paths store")
				}
				for _, x := range esc {
					line := fmt.Sprintf("escaping return %s via [%s]", s.g.Pos(x.ret.Pos()), strings.Join(x.trail, " ; "))
					switch {
					case exportedSink:
						bad = append(bad, line+c13If(x.carries, " (returned but not stored: the next call does not see it)", " (neither stored nor returned)"))
					case x.carries:
						leaked = append(leaked, line)
					default:
						bad = append(bad, line+" (neither stored nor returned: swallowed)")
					}
				}
			}
			switch {
			case len(bad) > 0 && exportedSink:
				c.Fail("S1.store", anchor, claimStore, sites, where+"\n"+strings.Join(bad, "\n"))
			case len(bad) > 0:
				c.Fail("S1.swallow", anchor, claimFwd, sites, where+"\n"+strings.Join(bad, "\n"))
			case len(leaked) > 0:
				c.Pass("S1.forward", anchor, claimFwd, sites, where+": returned to the caller unstored on "+fmt.Sprint(len(leaked))+" return(s); every call of "+c13ShortName(f.Obj)+" is therefore itself a source (summary)")
			default:
				c.Pass("S1.store", anchor, c13If(exportedSink, claimStore, "a non-nil I/O error is stored into the sticky field on every path before this helper returns"), sites, where+": stored on every non-nil path")
			}
		}
	}
	// Sinks must exist.
	for _, m := range [][2]string{{"Writer", "Write"}, {"Writer", "Close"}, {"ChunkWriter", "AddChunk"}, {"ChunkWriter", "AddResource"}, {"ChunkWriter", "Close"}} {
		if f := s.g.FindFunc(relRac, m[0], m[1]); f == nil {
			c.Undecided("S1.store", relRac+".("+m[0]+")."+m[1], "the exported sink method exists", "method not found")
		}
	}
	var leaks []string
	for o, why := range s.leak {
		if why != "" {
			leaks = append(leaks, c13ShortName(o)+" ← "+why)
		}
	}
	sort.Strings(leaks)
	c.Info("S1.summary", relRac, fmt.Sprintf("helpers that return an I/O error unstored (their calls are sources): %v", leaks))
	var ns []string
	for k, v := range nonSrc {
		ns = append(ns, fmt.Sprintf("%s×%d", k, v))
	}
	sort.Strings(ns)
	c.Info("S1.nonsources", relRac, fmt.Sprintf("error-returning calls that are NOT I/O sources (CodecWriter.* errors: Compress is deliberately not sticky — writer.go returns it without touching w.err and does not advance the buffer; same-owner helpers that store before returning): %v", ns))
	c.Analysed("S1_sources", map[string]int{"primary_io": nPrimary, "cross_owner": nCross, "summary": nSummary})
	c.Floor("S1.store", "primary I/O error sources (io.Writer.Write ×4, io.Seeker.Seek ×2, io.Copy ×1)", nPrimary, 7)
	c.Floor("S1.store", "calls from rac.Writer into I/O-doing ChunkWriter methods (AddResource ×1, AddChunk ×3, Close ×1)", nCross, 5)
	c.Floor("S1.forward", "calls of helpers whose summary is 'returns its I/O error unstored' (nodeWriter.writeIndex ×4)", nSummary, 4)
}

func (s *c13) origin(src *c13Src) string {
	switch src.kind {
	case "summary":
		return c13ShortName(src.callee) + " ← " + s.leak[src.callee]
	}
	return fmt.Sprintf("%s at %s", c13ShortName(src.callee), s.g.Pos(src.call.Pos()))
}

func c13If(b bool, x, y string) string {
	if b {
		return x
	}
	return y
}
