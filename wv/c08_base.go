package main

// G8: the bounds-checked (non-_fast) copy helpers of the hand-written
// io-private.h clamp their length by the space that is really there before
// they copy. The _fast variants have documented pre-conditions that the Wuffs
// checker must establish (C01 O7) and are not covered here.

import (
	"fmt"
	"os"
	"path/filepath"
	"strings"

	"wv/core"
)

func runC08Base(c *core.Ctx) {
	path := filepath.Join(c.Repo, "internal", "cgen", "base", "io-private.h")
	src, err := os.ReadFile(path)
	if err != nil {
		c.Undecided("G8.clamp", "internal/cgen/base/io-private.h", "template readable", err.Error())
		return
	}
	cf := core.CParseFile(path, string(src))
	nCopies := 0
	for _, fn := range cf.Funcs {
		if strings.Contains(fn.Name, "_fast") || !strings.HasPrefix(fn.Name, "wuffs_private_impl__io_") {
			continue
		}
		stmts, perr := core.CParseBody(fn.Body)
		if perr != nil {
			c.Undecided("G8.parse", "internal/cgen/base/io-private.h "+fn.Name, "body parses", perr.Error())
			continue
		}
		// length variable initialisations and unconditional clamps seen so far (in program order, along the spine)
		var bad []string
		n := 0
		var walk func(list []*core.CStmt, clamps map[string]bool, inits map[string]string)
		walk = func(list []*core.CStmt, clamps map[string]bool, inits map[string]string) {
			cl := map[string]bool{}
			for k := range clamps {
				cl[k] = true
			}
			for _, s := range list {
				tx := core.CText(s.Toks)
				if s.Kind == "expr" && strings.HasPrefix(tx, "size_t ") && strings.Contains(tx, " = ") {
					f := strings.SplitN(strings.TrimPrefix(tx, "size_t "), " = ", 2)
					inits[f[0]] = f[1]
				}
				// unconditional clamp: if (n > ((size_t)(A - B))) { n = (size_t)(A - B); }   or   if (n > X) { n = X; }
				if s.Kind == "if" && s.Else == nil && len(s.Body) == 1 && s.Body[0].Kind == "expr" {
					ct := core.CText(stripParens(s.Toks))
					bt := core.CText(s.Body[0].Toks)
					if i := strings.Index(ct, " > "); i > 0 {
						v, bound := ct[:i], normBound(ct[i+3:])
						if strings.HasPrefix(bt, v+" = ") && normBound(bt[len(v)+3:]) == bound {
							cl[v+"<="+bound] = true
						}
					}
				}
				if s.Kind == "expr" {
					for _, fnName := range []string{"memmove", "memcpy"} {
						if i := core.CFindSeq(s.Toks, fnName, "("); i >= 0 {
							args := splitTop(s.Toks[i+2:len(s.Toks)-1], ",")
							if len(args) != 3 {
								continue
							}
							n++
							dst, srcA, ln := core.CText(args[0]), core.CText(args[1]), core.CText(args[2])
							need := func(ptr, what string) {
								var bound string
								switch {
								case ptr == "iop_w":
									bound = "io2_w - iop_w"
								case ptr == "iop_r":
									bound = "io2_r - iop_r"
								case strings.HasSuffix(ptr, ". ptr"):
									bound = strings.TrimSuffix(ptr, ". ptr") + ". len"
								default:
									return // constant-size chunk copies etc. are not length-driven
								}
								if cl[ln+"<="+bound] || normBound(inits[ln]) == bound {
									return
								}
								bad = append(bad, fmt.Sprintf("line %d: %s(%s, %s, %s): %s is not clamped by `%s` on every path (an `else if` clamp is skipped when an earlier clamp fires)", s.Line, fnName, dst, srcA, ln, ln, bound))
							}
							if _, isNum := map[byte]bool{'0': true, '1': true, '2': true, '3': true, '4': true, '5': true, '6': true, '7': true, '8': true, '9': true}[ln[0]]; isNum {
								continue
							}
							need(dst, "destination")
							need(srcA, "source")
						}
					}
				}
				walk(s.Body, cl, inits)
				walk(s.Else, cl, inits)
			}
		}
		walk(stmts, map[string]bool{}, map[string]string{})
		nCopies += n
		if n > 0 {
			c.Check(len(bad) == 0, "G8.clamp", "internal/cgen/base/io-private.h "+fn.Name, "a bounds-checked I/O copy helper clamps its length by the reader's available bytes / the writer's free space / the slice length before copying, unconditionally", n, strings.Join(bad, "\n"))
		}
	}
	c.Floor("G8", "length-driven memmove/memcpy calls in the non-_fast helpers of io-private.h", nCopies, 4)
}

// normBound strips casts and parentheses: `( size_t ) ( io2_w - iop_w )` ⇒ `io2_w - iop_w`.
func normBound(s string) string {
	s = strings.ReplaceAll(s, "( size_t )", "")
	s = strings.ReplaceAll(s, "( uint64_t )", "")
	s = strings.ReplaceAll(s, "(", "")
	s = strings.ReplaceAll(s, ")", "")
	return strings.Join(strings.Fields(s), " ")
}
