package main

// Development driver for C07's rule family H: runs the Wuffs-AST rules against a
// std tree without the scratch build. Skipped unless C07DEV_GEN names a directory
// that holds `gen/wuffs` use-stubs of a previous `wuffs gen` (for example a kept
// scratch root); C07DEV_STD (default /repo/std) is the std tree to analyse.
//
//   C07DEV_GEN=/tmp/c07dev/root/gen/wuffs go test -run TestC07Dev -v .

import (
	"os"
	"path/filepath"
	"testing"

	"wv/core"
)

func TestC07Dev(t *testing.T) {
	gen := os.Getenv("C07DEV_GEN")
	if gen == "" {
		t.Skip("C07DEV_GEN not set")
	}
	std := os.Getenv("C07DEV_STD")
	if std == "" {
		std = "/repo/std"
	}
	tmp := t.TempDir()
	os.Setenv("WV_VERIF", tmp)
	c := core.NewCtx("C07", "quick")
	ents, _ := os.ReadDir(std)
	var pkgs []*WPkg
	for _, e := range ents {
		if !e.IsDir() {
			continue
		}
		p, err := loadWuffsDir(e.Name(), filepath.Join(std, e.Name()), gen)
		if err != nil {
			t.Logf("skip %s: %v", e.Name(), err)
			continue
		}
		pkgs = append(pkgs, p)
	}
	runHashRules(c, pkgs)
	code := c.Finish(core.Spec{})
	t.Logf("exit code %d", code)
}
