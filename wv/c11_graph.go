package main

import (
	"go/ast"
	"go/token"
	"go/types"
	"sort"
	"strings"

	"golang.org/x/tools/go/callgraph"
	"golang.org/x/tools/go/callgraph/cha"
	"golang.org/x/tools/go/callgraph/vta"
	"golang.org/x/tools/go/ssa"
	"golang.org/x/tools/go/ssa/ssautil"

	"wv/core"
)

// c11Graph is the module-restricted call graph used by the C11 rules: nodes
// are the source-level functions (declarations and function literals) of the
// module packages; synthetic wrappers (method-expression thunks, bound-method
// closures, promotion wrappers) are transparent; a function that calls one of
// its own function-typed parameters ("higher-order": parse.parseList) is
// resolved per call site, i.e. `p.parseList(stop, (*parser).parseArgNode)`
// contributes the edge caller -> parseArgNode and parseList's own dynamic
// edge is dropped (one level of context sensitivity, so that unrelated users
// of the same helper are not joined into one cycle).
type c11Graph struct {
	mod   string // import-path prefix of the analysed module
	g     *core.GoProg
	prog  *ssa.Program
	cg    *callgraph.Graph
	nodes []*ssa.Function                     // module functions, sorted by name
	succ  map[*ssa.Function][]c11Edge         // module -> module edges
	ext   map[*ssa.Function][]*callgraph.Edge // module -> non-module edges (for log.Fatal / os.Exit)
	decl  map[*types.Func]*core.Func          // declaration index
	hof   map[*ssa.Function]map[int]bool      // higher-order functions: parameter indices that are called
	name  map[*ssa.Function]string
	nAll  int // functions in the whole program (coverage figure)
	nEdge int
}

type c11Edge struct {
	To   *ssa.Function
	Site token.Pos // position of the call in the *caller* (Lparen of the call expression); NoPos for synthetic
	Via  string    // "" direct; name of the higher-order helper the call was routed through
}

func c11InModule(f *ssa.Function) bool {
	if f == nil {
		return false
	}
	in := func(path string) bool { return strings.HasPrefix(path, core.Mod+"/") || path == core.Mod }
	if f.Pkg != nil {
		return in(f.Pkg.Pkg.Path())
	}
	// Wrappers and thunks have no package; instantiations have an origin.
	if o := f.Origin(); o != nil && o != f {
		return c11InModule(o)
	}
	if obj := f.Object(); obj != nil && obj.Pkg() != nil {
		return in(obj.Pkg().Path())
	}
	if p := f.Parent(); p != nil {
		return c11InModule(p)
	}
	return false
}

// c11Source: f is a source-level function (has a body written in the module).
func c11Source(f *ssa.Function) bool {
	return f.Synthetic == "" && len(f.Blocks) > 0
}

func c11FuncName(f *ssa.Function) string {
	return strings.ReplaceAll(f.String(), core.Mod+"/", "")
}

// c11StaticFunc resolves an SSA value to the function it certainly denotes
// (function constants, closures, and conversions of those).
func c11StaticFunc(v ssa.Value) *ssa.Function {
	for i := 0; i < 8; i++ {
		switch x := v.(type) {
		case *ssa.Function:
			return x
		case *ssa.MakeClosure:
			v = x.Fn
		case *ssa.ChangeType:
			v = x.X
		case *ssa.Convert:
			v = x.X
		case *ssa.MakeInterface:
			v = x.X
		default:
			return nil
		}
	}
	return nil
}

func buildC11Graph(g *core.GoProg) *c11Graph {
	prog, _ := g.SSA()
	all := ssautil.AllFunctions(prog)
	cg := vta.CallGraph(all, cha.CallGraph(prog))
	G := &c11Graph{mod: core.Mod, g: g, prog: prog, cg: cg,
		succ: map[*ssa.Function][]c11Edge{}, ext: map[*ssa.Function][]*callgraph.Edge{},
		decl: map[*types.Func]*core.Func{}, hof: map[*ssa.Function]map[int]bool{}, name: map[*ssa.Function]string{}}
	G.nAll = len(all)
	for _, p := range g.ModulePkgs() {
		for _, f := range g.AllFuncs(p) {
			if f.Obj != nil {
				G.decl[f.Obj] = f
			}
		}
	}
	for f := range all {
		if c11InModule(f) && c11Source(f) {
			G.nodes = append(G.nodes, f)
			G.name[f] = c11FuncName(f)
		}
	}
	sort.Slice(G.nodes, func(i, j int) bool { return G.name[G.nodes[i]] < G.name[G.nodes[j]] })

	// Higher-order helpers: a call whose callee value is one of the
	// function's own parameters, and that parameter has no other use.
	for _, f := range G.nodes {
		for pi, p := range f.Params {
			if _, ok := p.Type().Underlying().(*types.Signature); !ok {
				continue
			}
			refs := p.Referrers()
			if refs == nil || len(*refs) == 0 {
				continue
			}
			onlyCalled := true
			for _, r := range *refs {
				ci, ok := r.(ssa.CallInstruction)
				if !ok || ci.Common().Value != ssa.Value(p) {
					// DebugRef instructions are harmless.
					if _, isDbg := r.(*ssa.DebugRef); isDbg {
						continue
					}
					onlyCalled = false
					break
				}
				for _, a := range ci.Common().Args {
					if a == ssa.Value(p) {
						onlyCalled = false
					}
				}
			}
			if onlyCalled {
				if G.hof[f] == nil {
					G.hof[f] = map[int]bool{}
				}
				G.hof[f][pi] = true
			}
		}
	}
	// A higher-order helper is resolved per call site only if every use of
	// the helper itself is a static call whose actual is a known function.
	hofOK := map[*ssa.Function]bool{}
	for f := range G.hof {
		ok := true
		n := cg.Nodes[f]
		if n == nil {
			ok = false
		} else {
			for _, in := range n.In {
				if in.Site == nil || in.Site.Common().StaticCallee() != f {
					ok = false
					break
				}
				for pi := range G.hof[f] {
					// Params include the receiver; Args of a static call do too.
					if pi >= len(in.Site.Common().Args) || c11StaticFunc(in.Site.Common().Args[pi]) == nil {
						ok = false
					}
				}
			}
		}
		// The helper must not be used as a value anywhere (address taken).
		if ok {
			if refs := f.Referrers(); refs != nil {
				for _, r := range *refs {
					if ci, isCall := r.(ssa.CallInstruction); !isCall || ci.Common().Value != ssa.Value(f) {
						ok = false
					}
				}
			}
		}
		hofOK[f] = ok
	}
	for f, ok := range hofOK {
		if !ok {
			delete(G.hof, f)
		}
	}

	// resolve follows synthetic pass-through functions to source-level ones.
	var resolve func(f *ssa.Function, seen map[*ssa.Function]bool, out map[*ssa.Function]bool)
	resolve = func(f *ssa.Function, seen map[*ssa.Function]bool, out map[*ssa.Function]bool) {
		if f == nil || seen[f] {
			return
		}
		seen[f] = true
		if !c11InModule(f) {
			return
		}
		if c11Source(f) {
			out[f] = true
			return
		}
		if n := cg.Nodes[f]; n != nil {
			for _, e := range n.Out {
				resolve(e.Callee.Func, seen, out)
			}
		}
	}
	for _, f := range G.nodes {
		n := cg.Nodes[f]
		if n == nil {
			continue
		}
		type key struct {
			to   *ssa.Function
			site token.Pos
		}
		seenE := map[key]bool{}
		add := func(to *ssa.Function, site token.Pos, via string) {
			kk := key{to, site}
			if seenE[kk] {
				return
			}
			seenE[kk] = true
			G.succ[f] = append(G.succ[f], c11Edge{To: to, Site: site, Via: via})
			G.nEdge++
		}
		for _, e := range n.Out {
			var site token.Pos
			var common *ssa.CallCommon
			if e.Site != nil {
				site = e.Site.Pos()
				common = e.Site.Common()
			}
			// Dynamic call through a parameter of a resolved higher-order helper: dropped here.
			if common != nil && G.hof[f] != nil {
				if p, ok := common.Value.(*ssa.Parameter); ok && !common.IsInvoke() {
					drop := false
					for pi := range G.hof[f] {
						if f.Params[pi] == p {
							drop = true
						}
					}
					if drop {
						continue
					}
				}
			}
			callee := e.Callee.Func
			if !c11InModule(callee) {
				G.ext[f] = append(G.ext[f], e)
				continue
			}
			out := map[*ssa.Function]bool{}
			resolve(callee, map[*ssa.Function]bool{}, out)
			for to := range out {
				add(to, site, "")
			}
			// Static call of a higher-order helper: route the actual function argument.
			if common != nil {
				if sc := common.StaticCallee(); sc != nil && G.hof[sc] != nil {
					for pi := range G.hof[sc] {
						if pi < len(common.Args) {
							if tf := c11StaticFunc(common.Args[pi]); tf != nil {
								out := map[*ssa.Function]bool{}
								resolve(tf, map[*ssa.Function]bool{}, out)
								for to := range out {
									add(to, site, c11FuncName(sc))
								}
							}
						}
					}
				}
			}
		}
		sort.Slice(G.succ[f], func(i, j int) bool {
			a, b := G.succ[f][i], G.succ[f][j]
			if G.name[a.To] != G.name[b.To] {
				return G.name[a.To] < G.name[b.To]
			}
			return a.Site < b.Site
		})
	}
	return G
}

// pkgRel is the module-relative package path of a source-level function.
func (G *c11Graph) pkgRel(f *ssa.Function) string {
	for f.Parent() != nil {
		f = f.Parent()
	}
	if f.Pkg != nil {
		return strings.TrimPrefix(f.Pkg.Pkg.Path(), core.Mod+"/")
	}
	if o := f.Object(); o != nil && o.Pkg() != nil {
		return strings.TrimPrefix(o.Pkg().Path(), core.Mod+"/")
	}
	return ""
}

// sccs returns the recursive strongly connected components (size > 1, or a
// self-loop) of the graph restricted to keep(f), each sorted by name, the
// list sorted by first member.
func (G *c11Graph) sccs(keep func(*ssa.Function) bool, dropped map[*ssa.Function]bool) [][]*ssa.Function {
	index := map[*ssa.Function]int{}
	low := map[*ssa.Function]int{}
	on := map[*ssa.Function]bool{}
	var stack []*ssa.Function
	var out [][]*ssa.Function
	next := 0
	ok := func(f *ssa.Function) bool { return keep(f) && !dropped[f] }
	// Iterative Tarjan (the graph is small, but recursion depth equals path length).
	type frame struct {
		f *ssa.Function
		i int
	}
	for _, root := range G.nodes {
		if !ok(root) {
			continue
		}
		if _, seen := index[root]; seen {
			continue
		}
		fr := []frame{{root, 0}}
		index[root], low[root] = next, next
		next++
		stack = append(stack, root)
		on[root] = true
		for len(fr) > 0 {
			top := &fr[len(fr)-1]
			es := G.succ[top.f]
			if top.i < len(es) {
				w := es[top.i].To
				top.i++
				if !ok(w) {
					continue
				}
				if _, seen := index[w]; !seen {
					index[w], low[w] = next, next
					next++
					stack = append(stack, w)
					on[w] = true
					fr = append(fr, frame{w, 0})
				} else if on[w] && index[w] < low[top.f] {
					low[top.f] = index[w]
				}
				continue
			}
			v := top.f
			fr = fr[:len(fr)-1]
			if len(fr) > 0 {
				p := fr[len(fr)-1].f
				if low[v] < low[p] {
					low[p] = low[v]
				}
			}
			if low[v] == index[v] {
				var comp []*ssa.Function
				for {
					w := stack[len(stack)-1]
					stack = stack[:len(stack)-1]
					on[w] = false
					comp = append(comp, w)
					if w == v {
						break
					}
				}
				rec := len(comp) > 1
				if !rec {
					for _, e := range G.succ[v] {
						if e.To == v {
							rec = true
						}
					}
				}
				if rec {
					sort.Slice(comp, func(i, j int) bool { return G.name[comp[i]] < G.name[comp[j]] })
					out = append(out, comp)
				}
			}
		}
	}
	sort.Slice(out, func(i, j int) bool { return G.name[out[i][0]] < G.name[out[j][0]] })
	return out
}

// cycleIn returns one cycle (as function names) inside comp avoiding dropped.
func (G *c11Graph) cycleIn(comp []*ssa.Function, dropped map[*ssa.Function]bool) []*ssa.Function {
	in := map[*ssa.Function]bool{}
	for _, f := range comp {
		if !dropped[f] {
			in[f] = true
		}
	}
	// BFS for the shortest cycle through each member; return the overall shortest.
	var best []*ssa.Function
	for _, s := range comp {
		if !in[s] {
			continue
		}
		prev := map[*ssa.Function]*ssa.Function{}
		q := []*ssa.Function{s}
		found := false
		for len(q) > 0 && !found {
			v := q[0]
			q = q[1:]
			for _, e := range G.succ[v] {
				if !in[e.To] {
					continue
				}
				if e.To == s {
					path := []*ssa.Function{v}
					for v != s {
						v = prev[v]
						path = append(path, v)
					}
					for i, j := 0, len(path)-1; i < j; i, j = i+1, j-1 {
						path[i], path[j] = path[j], path[i]
					}
					if best == nil || len(path) < len(best) {
						best = path
					}
					found = true
					break
				}
				if _, seen := prev[e.To]; !seen && e.To != s {
					prev[e.To] = v
					q = append(q, e.To)
				}
			}
		}
	}
	return best
}

// cycleThrough returns the shortest cycle inside comp (avoiding dropped) that
// starts and ends at start; falls back to cycleIn.
func (G *c11Graph) cycleThrough(comp []*ssa.Function, dropped map[*ssa.Function]bool, start *ssa.Function) []*ssa.Function {
	in := map[*ssa.Function]bool{}
	for _, f := range comp {
		if !dropped[f] {
			in[f] = true
		}
	}
	if start == nil || !in[start] {
		return G.cycleIn(comp, dropped)
	}
	prev := map[*ssa.Function]*ssa.Function{}
	q := []*ssa.Function{start}
	for len(q) > 0 {
		v := q[0]
		q = q[1:]
		for _, e := range G.succ[v] {
			if !in[e.To] {
				continue
			}
			if e.To == start {
				path := []*ssa.Function{v}
				for v != start {
					v = prev[v]
					path = append(path, v)
				}
				for i, j := 0, len(path)-1; i < j; i, j = i+1, j-1 {
					path[i], path[j] = path[j], path[i]
				}
				return path
			}
			if _, seen := prev[e.To]; !seen {
				prev[e.To] = v
				q = append(q, e.To)
			}
		}
	}
	return G.cycleIn(comp, dropped)
}

// declOf maps an SSA function to its declaration (nil for function literals).
func (G *c11Graph) declOf(f *ssa.Function) *core.Func {
	if obj, ok := f.Object().(*types.Func); ok {
		if d := G.decl[obj]; d != nil {
			return d
		}
		if d := G.decl[obj.Origin()]; d != nil {
			return d
		}
	}
	return nil
}

// reachable returns the module functions reachable from the roots and, for
// each, one predecessor (for path printing).
func (G *c11Graph) reachable(roots []*ssa.Function) (map[*ssa.Function]bool, map[*ssa.Function]*ssa.Function) {
	seen := map[*ssa.Function]bool{}
	prev := map[*ssa.Function]*ssa.Function{}
	q := append([]*ssa.Function{}, roots...)
	for _, r := range roots {
		seen[r] = true
	}
	for len(q) > 0 {
		v := q[0]
		q = q[1:]
		for _, e := range G.succ[v] {
			if !seen[e.To] {
				seen[e.To] = true
				prev[e.To] = v
				q = append(q, e.To)
			}
		}
		// Function literals defined in v run, at the latest, when called; the
		// call graph has the edges. Nothing to add here.
	}
	return seen, prev
}

func (G *c11Graph) pathTo(prev map[*ssa.Function]*ssa.Function, f *ssa.Function) string {
	var names []string
	for f != nil {
		names = append(names, G.name[f])
		f = prev[f]
		if len(names) > 12 {
			names = append(names, "…")
			break
		}
	}
	for i, j := 0, len(names)-1; i < j; i, j = i+1, j-1 {
		names[i], names[j] = names[j], names[i]
	}
	return strings.Join(names, " -> ")
}

// callsAt: the call expressions of decl (function literals excluded) whose
// Lparen is in sites.
func c11CallsAt(body ast.Node, sites map[token.Pos]bool) []*ast.CallExpr {
	var out []*ast.CallExpr
	ast.Inspect(body, func(n ast.Node) bool {
		switch x := n.(type) {
		case *ast.FuncLit:
			return false
		case *ast.CallExpr:
			if sites[x.Lparen] {
				out = append(out, x)
			}
		}
		return true
	})
	return out
}
