package main

// E3(d): operator tables of lang/check decided exactly by exhaustive
// evaluation over small integers. The tables touch values only through
// comparisons, min/max and ±1, so every ordering of the (at most four)
// symbols involved is realised by values in a small range; the evaluation is
// of the table's own syntax tree by the interpreter below (no code of /repo
// is compiled or run).

import (
	"fmt"
	"go/ast"
	"go/token"
	"go/types"
	"sort"
	"strings"

	"wv/core"
)

type miniVal struct {
	i      int64
	b      bool
	isBool bool
	undef  bool
}

type miniEnv struct {
	k    *gctx
	fl   *core.Flow
	vars map[string]miniVal
	ret  []miniVal
	done bool
	err  string
}

func (e *miniEnv) fail(n ast.Node, msg string) miniVal {
	if e.err == "" {
		e.err = fmt.Sprintf("%s: %s: `%s`", e.k.g.Pos(n.Pos()), msg, core.Src(e.k.g.Fset, n))
	}
	return miniVal{undef: true}
}

func place(x ast.Expr, info *types.Info) string {
	switch v := ast.Unparen(x).(type) {
	case *ast.Ident:
		return v.Name
	case *ast.IndexExpr:
		if i, ok := core.ConstInt64(info, v.Index); ok {
			return place(v.X, info) + fmt.Sprintf("[%d]", i)
		}
	}
	return ""
}

func (e *miniEnv) eval(x ast.Expr) miniVal {
	info := e.fl.F.Info()
	x = ast.Unparen(x)
	if cv := core.ConstVal(info, x); cv != nil {
		if i, ok := core.ConstValInt(cv); ok {
			return miniVal{i: i}
		}
		if cv.Kind().String() == "Bool" {
			return miniVal{b: cv.ExactString() == "true", isBool: true}
		}
	}
	switch v := x.(type) {
	case *ast.Ident:
		if val, ok := e.vars[v.Name]; ok {
			return val
		}
		if bv, ok := e.k.bigVarVal(info.Uses[v]); ok {
			return miniVal{i: bv}
		}
		return e.fail(x, "unknown identifier")
	case *ast.SelectorExpr:
		if c, ok := info.Uses[v.Sel].(*types.Const); ok {
			if i, ok := core.ConstValInt(c.Val()); ok {
				return miniVal{i: i}
			}
		}
		return e.fail(x, "unknown selector")
	case *ast.IndexExpr:
		if p := place(v, info); p != "" {
			if val, ok := e.vars[p]; ok {
				return val
			}
		}
		return e.fail(x, "unknown place")
	case *ast.UnaryExpr:
		if v.Op == token.NOT {
			a := e.eval(v.X)
			return miniVal{b: !a.b, isBool: true}
		}
		if v.Op == token.SUB {
			a := e.eval(v.X)
			return miniVal{i: -a.i}
		}
	case *ast.BinaryExpr:
		switch v.Op {
		case token.LAND:
			a := e.eval(v.X)
			if !a.b {
				return miniVal{b: false, isBool: true}
			}
			return e.eval(v.Y)
		case token.LOR:
			a := e.eval(v.X)
			if a.b {
				return miniVal{b: true, isBool: true}
			}
			return e.eval(v.Y)
		}
		a, b := e.eval(v.X), e.eval(v.Y)
		if a.isBool != b.isBool {
			return e.fail(x, "mixed operands")
		}
		if a.isBool {
			switch v.Op {
			case token.EQL:
				return miniVal{b: a.b == b.b, isBool: true}
			case token.NEQ:
				return miniVal{b: a.b != b.b, isBool: true}
			}
			return e.fail(x, "bool operator")
		}
		if r, ok := relEval(v.Op, a.i, b.i); ok {
			return miniVal{b: r, isBool: true}
		}
		switch v.Op {
		case token.ADD:
			return miniVal{i: a.i + b.i}
		case token.SUB:
			return miniVal{i: a.i - b.i}
		}
	case *ast.CallExpr:
		fn := core.Callee(info, v)
		if fn == nil {
			return e.fail(x, "unresolved call")
		}
		switch fn.FullName() {
		case "(*math/big.Int).Cmp":
			a, b := e.eval(core.RecvOf(v)), e.eval(v.Args[0])
			switch {
			case a.i < b.i:
				return miniVal{i: -1}
			case a.i > b.i:
				return miniVal{i: 1}
			}
			return miniVal{i: 0}
		case "(*math/big.Int).Sign":
			a := e.eval(core.RecvOf(v))
			switch {
			case a.i < 0:
				return miniVal{i: -1}
			case a.i > 0:
				return miniVal{i: 1}
			}
			return miniVal{i: 0}
		}
		if fn.Pkg() != nil && fn.Pkg().Path() == core.Mod+"/"+relCheck {
			switch fn.Name() {
			case "add1":
				return miniVal{i: e.eval(v.Args[0]).i + 1}
			case "sub1":
				return miniVal{i: e.eval(v.Args[0]).i - 1}
			case "min":
				a, b := e.eval(v.Args[0]), e.eval(v.Args[1])
				if a.i < b.i {
					return a
				}
				return b
			case "max":
				a, b := e.eval(v.Args[0]), e.eval(v.Args[1])
				if a.i > b.i {
					return a
				}
				return b
			}
		}
	}
	return e.fail(x, "expression outside the evaluated subset")
}

func (e *miniEnv) exec(list []ast.Stmt) {
	info := e.fl.F.Info()
	for _, st := range list {
		if e.done || e.err != "" {
			return
		}
		switch s := st.(type) {
		case *ast.AssignStmt:
			if len(s.Lhs) != len(s.Rhs) {
				e.fail(s, "assignment shape")
				return
			}
			vals := make([]miniVal, len(s.Rhs))
			for i, r := range s.Rhs {
				vals[i] = e.eval(r)
			}
			for i, l := range s.Lhs {
				p := place(l, info)
				if p == "" {
					e.fail(s, "assignment target")
					return
				}
				if p != "_" {
					e.vars[p] = vals[i]
				}
			}
		case *ast.IfStmt:
			if s.Init != nil {
				e.exec([]ast.Stmt{s.Init})
			}
			c := e.eval(s.Cond)
			if e.err != "" {
				return
			}
			if c.b {
				e.exec(s.Body.List)
			} else if s.Else != nil {
				switch el := s.Else.(type) {
				case *ast.BlockStmt:
					e.exec(el.List)
				case *ast.IfStmt:
					e.exec([]ast.Stmt{el})
				}
			}
		case *ast.SwitchStmt:
			if s.Init != nil {
				e.exec([]ast.Stmt{s.Init})
			}
			var tag miniVal
			if s.Tag != nil {
				tag = e.eval(s.Tag)
			}
			var def *ast.CaseClause
			matched := false
			for _, cl := range s.Body.List {
				cc := cl.(*ast.CaseClause)
				if cc.List == nil {
					def = cc
					continue
				}
				for _, ce := range cc.List {
					v := e.eval(ce)
					if (s.Tag != nil && !v.isBool && v.i == tag.i) || (s.Tag == nil && v.b) {
						matched = true
						break
					}
				}
				if matched {
					e.exec(cc.Body)
					break
				}
			}
			if !matched && def != nil {
				e.exec(def.Body)
			}
		case *ast.ReturnStmt:
			e.ret = nil
			for _, r := range s.Results {
				e.ret = append(e.ret, e.eval(r))
			}
			e.done = true
		case *ast.BlockStmt:
			e.exec(s.List)
		case *ast.ExprStmt, *ast.EmptyStmt:
			// marker statements for branch visibility etc.
		default:
			e.fail(st, "statement outside the evaluated subset")
		}
	}
}

var cmpOps = []string{"IDXBinaryNotEq", "IDXBinaryLessThan", "IDXBinaryLessEq", "IDXBinaryEqEq", "IDXBinaryGreaterEq", "IDXBinaryGreaterThan"}

func cmpSem(op string, a, b int64) bool {
	switch op {
	case "IDXBinaryNotEq":
		return a != b
	case "IDXBinaryLessThan":
		return a < b
	case "IDXBinaryLessEq":
		return a <= b
	case "IDXBinaryEqEq":
		return a == b
	case "IDXBinaryGreaterEq":
		return a >= b
	case "IDXBinaryGreaterThan":
		return a > b
	}
	return false
}

func runC02Tables(k *gctx) {
	c := k.c
	tokVal := func(name string) (int64, bool) {
		o := k.g.LookupObj("lang/token", name)
		if cv := constOf(o); cv != nil {
			return core.ConstValInt(cv)
		}
		return 0, false
	}
	opName := map[int64]string{}
	for _, n := range append(append([]string{}, cmpOps...), "IDXBinaryAnd", "IDXBinaryOr", "IDXUnaryNot", "IDXAssociativeAnd", "IDXAssociativeOr") {
		if v, ok := tokVal(n); ok {
			opName[v] = n
		}
	}
	// ---- a switch that maps op constants to op constants by assignment to a variable
	assignMap := func(fl *core.Flow, target func(ast.Expr) bool) map[string]string {
		out := map[string]string{}
		ast.Inspect(fl.F.Decl.Body, func(m ast.Node) bool {
			cc, ok := m.(*ast.CaseClause)
			if !ok || len(cc.List) != 1 || len(cc.Body) != 1 {
				return true
			}
			as, ok := cc.Body[0].(*ast.AssignStmt)
			if !ok || len(as.Lhs) != 1 || len(as.Rhs) != 1 || !target(as.Lhs[0]) {
				return true
			}
			kv, ok1 := core.ConstInt64(fl.F.Info(), cc.List[0])
			vv, ok2 := core.ConstInt64(fl.F.Info(), as.Rhs[0])
			if ok1 && ok2 && opName[kv] != "" && opName[vv] != "" {
				out[opName[kv]] = opName[vv]
			}
			return true
		})
		return out
	}
	// invert
	if fl := k.flow("T.invert", relCheck, "", "invert"); fl != nil {
		opVars := fl.VarsDenoting(func(e ast.Expr) bool { return callNamedOn(fl, e, "Operator", nil) })
		m := assignMap(fl, anyOf(fl, opVars))
		n := 0
		for _, in := range cmpOps {
			out, ok := m[in]
			anchor := fl.F.Name() + "[" + in + "]"
			if !ok {
				c.Fail("T.invert", anchor, "the inverse of this comparison is its logical negation", 1, "no case maps this operator")
				continue
			}
			good := true
			for a := int64(0); a < 3; a++ {
				for b := int64(0); b < 3; b++ {
					if cmpSem(out, a, b) == cmpSem(in, a, b) {
						good = false
					}
				}
			}
			n++
			c.Check(good, "T.invert", anchor, "the inverse of this comparison is its logical negation for every ordering of the operands", 9, fmt.Sprintf("%s ↦ %s", in, out))
		}
		// De Morgan: and/or swapped with both operands inverted
		var cc *ast.CaseClause
		ast.Inspect(fl.F.Decl.Body, func(mm ast.Node) bool {
			if x, ok := mm.(*ast.CaseClause); ok && len(x.List) == 2 && fl.Is(k.g.LookupObj("lang/token", "IDXBinaryAnd"))(x.List[0]) {
				cc = x
			}
			return true
		})
		if cc == nil {
			c.Undecided("T.invert.demorgan", fl.F.Name()+"[and/or]", "case for and/or exists", "not found")
		} else {
			nInv := core.CountCalls(cc, func(call *ast.CallExpr) bool { return nameIs(fl, call, "invert") })
			swap := false
			ast.Inspect(cc, func(mm ast.Node) bool {
				if is, ok := mm.(*ast.IfStmt); ok && eqTest(fl, is.Cond, anyOf(fl, opVars), fl.Is(k.g.LookupObj("lang/token", "IDXBinaryAnd")), true) {
					th, el := false, false
					for _, s := range is.Body.List {
						if as, ok := s.(*ast.AssignStmt); ok && len(as.Rhs) == 1 && fl.Is(k.g.LookupObj("lang/token", "IDXBinaryOr"))(as.Rhs[0]) {
							th = true
						}
					}
					if eb, ok := is.Else.(*ast.BlockStmt); ok {
						for _, s := range eb.List {
							if as, ok := s.(*ast.AssignStmt); ok && len(as.Rhs) == 1 && fl.Is(k.g.LookupObj("lang/token", "IDXBinaryAnd"))(as.Rhs[0]) {
								el = true
							}
						}
					}
					swap = th && el
				}
				return true
			})
			c.Check(nInv == 2 && swap, "T.invert.demorgan", fl.F.Name()+"[and/or]", "not (p and q) = (not p) or (not q), and dually: both operands are inverted and the connective is swapped", 3, fmt.Sprintf("%d recursive inversions, connective swapped: %v", nInv, swap))
		}
		c.Floor("T.invert", "comparison operators with an inverse", n, 6)
	}
	// otherHandSide
	if fl := k.flow("T.mirror", relCheck, "", "otherHandSide"); fl != nil {
		rev := fl.VarsDenoting(func(e ast.Expr) bool {
			call, ok := ast.Unparen(e).(*ast.CallExpr)
			return ok && len(call.Args) == 1 && core.Src(k.g.Fset, call.Fun) == "t.ID"
		})
		m := assignMap(fl, anyOf(fl, rev))
		n := 0
		for _, in := range cmpOps {
			out, ok := m[in]
			anchor := fl.F.Name() + "[" + in + "]"
			if !ok {
				c.Fail("T.mirror", anchor, "x op y ⇔ y rev(op) x", 1, "no case maps this operator")
				continue
			}
			good := true
			for a := int64(0); a < 3; a++ {
				for b := int64(0); b < 3; b++ {
					if cmpSem(in, a, b) != cmpSem(out, b, a) {
						good = false
					}
				}
			}
			n++
			c.Check(good, "T.mirror", anchor, "x op y ⇔ y rev(op) x for every ordering", 9, fmt.Sprintf("%s ↦ %s", in, out))
		}
		c.Floor("T.mirror", "comparison operators with a mirror", n, 6)
	}
	// opImpliesOp
	if fl := k.flow("T.implies", relCheck, "", "opImpliesOp"); fl != nil {
		p0, p1 := fl.F.Decl.Type.Params.List[0].Names[0].Name, ""
		if len(fl.F.Decl.Type.Params.List[0].Names) > 1 {
			p1 = fl.F.Decl.Type.Params.List[0].Names[1].Name
		} else if len(fl.F.Decl.Type.Params.List) > 1 {
			p1 = fl.F.Decl.Type.Params.List[1].Names[0].Name
		}
		nTrue, bad := 0, []string{}
		for _, o0 := range cmpOps {
			for _, o1 := range cmpOps {
				v0, _ := tokVal(o0)
				v1, _ := tokVal(o1)
				env := &miniEnv{k: k, fl: fl, vars: map[string]miniVal{p0: {i: v0}, p1: {i: v1}}}
				env.exec(fl.F.Decl.Body.List)
				if env.err != "" || len(env.ret) != 1 {
					c.Undecided("T.implies", fl.F.Name(), "the implication table evaluates", env.err)
					return
				}
				if env.ret[0].b {
					nTrue++
					for a := int64(0); a < 3; a++ {
						for b := int64(0); b < 3; b++ {
							if cmpSem(o0, a, b) && !cmpSem(o1, a, b) {
								bad = append(bad, fmt.Sprintf("claims %s ⇒ %s, false at (%d,%d)", o0, o1, a, b))
							}
						}
					}
				}
			}
		}
		sort.Strings(bad)
		c.Check(len(bad) == 0 && nTrue >= 6, "T.implies", fl.F.Name(), "every implication between comparison operators that the table asserts is valid for all operand orderings", 36*9, strings.Join(c02Uniq(bad), "; "))
	}
	// proveBinaryOpConstValues
	if fl := k.flow("T.constvalues", relCheck, "", "proveBinaryOpConstValues"); fl != nil {
		ps := fl.F.Decl.Type.Params.List
		var names []string
		for _, f := range ps {
			for _, n := range f.Names {
				names = append(names, n.Name)
			}
		}
		if len(names) != 3 {
			c.Undecided("T.constvalues", fl.F.Name(), "signature (op, lb, rb)", "unexpected parameters")
		} else {
			nTrue := 0
			var bad []string
			for _, o := range cmpOps {
				ov, _ := tokVal(o)
				for l0 := int64(0); l0 < 4; l0++ {
					for l1 := l0; l1 < 4; l1++ {
						for r0 := int64(0); r0 < 4; r0++ {
							for r1 := r0; r1 < 4; r1++ {
								env := &miniEnv{k: k, fl: fl, vars: map[string]miniVal{names[0]: {i: ov},
									names[1] + "[0]": {i: l0}, names[1] + "[1]": {i: l1}, names[2] + "[0]": {i: r0}, names[2] + "[1]": {i: r1}}}
								env.exec(fl.F.Decl.Body.List)
								if env.err != "" || len(env.ret) != 1 {
									c.Undecided("T.constvalues", fl.F.Name(), "the table evaluates", env.err)
									return
								}
								if !env.ret[0].b {
									continue
								}
								nTrue++
								for x := l0; x <= l1; x++ {
									for y := r0; y <= r1; y++ {
										if !cmpSem(o, x, y) {
											bad = append(bad, fmt.Sprintf("%s proved for [%d,%d] vs [%d,%d] but false at (%d,%d)", o, l0, l1, r0, r1, x, y))
										}
									}
								}
							}
						}
					}
				}
			}
			c.Check(len(bad) == 0 && nTrue > 100, "T.constvalues", fl.F.Name(), "whenever the endpoint test succeeds, the relation holds for every member of both intervals (all orderings of the four endpoints)", 600, strings.Join(first(c02Uniq(bad), 3), "; "))
		}
	}
	// facts.refine
	if fl := k.flow("T.refine", relCheck, "facts", "refine"); fl != nil {
		// find the switch on the operator inside the loop
		var sw *ast.SwitchStmt
		ast.Inspect(fl.F.Decl.Body, func(m ast.Node) bool {
			if s, ok := m.(*ast.SwitchStmt); ok && sw == nil && s.Tag != nil {
				for _, cl := range s.Body.List {
					for _, e := range cl.(*ast.CaseClause).List {
						if v, ok := core.ConstInt64(fl.F.Info(), e); ok && opName[v] == "IDXBinaryLessThan" {
							sw = s
						}
					}
				}
			}
			return true
		})
		nbName := ""
		if len(fl.F.Decl.Type.Params.List) >= 2 {
			nbName = fl.F.Decl.Type.Params.List[1].Names[0].Name
		}
		if sw == nil || nbName == "" {
			c.Undecided("T.refine", fl.F.Name(), "switch over the fact's operator", "not found")
		} else {
			tagName := place(sw.Tag, fl.F.Info())
			// the constant the fact compares with: the variable compared by Cmp against nb[…]
			cvName := ""
			ast.Inspect(sw, func(m ast.Node) bool {
				if call, ok := m.(*ast.CallExpr); ok && cvName == "" {
					if fn := core.Callee(fl.F.Info(), call); fn != nil && fn.FullName() == "(*math/big.Int).Cmp" {
						if id, ok := call.Args[0].(*ast.Ident); ok {
							cvName = id.Name
						}
					}
				}
				return true
			})
			var bad []string
			nCases := 0
			for _, o := range cmpOps {
				ov, _ := tokVal(o)
				changedAny := false
				for n0 := int64(0); n0 <= 4; n0++ {
					for n1 := n0; n1 <= 4; n1++ {
						for cv := int64(-1); cv <= 5; cv++ {
							env := &miniEnv{k: k, fl: fl, vars: map[string]miniVal{tagName: {i: ov}, nbName + "[0]": {i: n0}, nbName + "[1]": {i: n1}, cvName: {i: cv},
								"changed": {isBool: true}}}
							env.exec([]ast.Stmt{sw})
							if env.err != "" {
								c.Undecided("T.refine", fl.F.Name(), "the refinement switch evaluates", env.err)
								return
							}
							a0, a1 := env.vars[nbName+"[0]"].i, env.vars[nbName+"[1]"].i
							if a0 != n0 || a1 != n1 {
								changedAny = true
							}
							for v := n0; v <= n1; v++ {
								if cmpSem(o, v, cv) && (v < a0 || v > a1) {
									bad = append(bad, fmt.Sprintf("fact `x %s %d` refines [%d,%d] to [%d,%d], excluding the feasible value %d", strings.TrimPrefix(o, "IDXBinary"), cv, n0, n1, a0, a1, v))
								}
							}
						}
					}
				}
				if changedAny {
					nCases++
				}
			}
			c.Check(len(bad) == 0, "T.refine", fl.F.Name(), "narrowing a range by a known fact `x op c` never removes a value that satisfies the fact (all orderings of lo, hi, c; strict forms shift by exactly one)", 6*15*7, strings.Join(first(c02Uniq(bad), 3), "; "))
			c.Floor("T.refine", "comparison operators that refine a range", nCases, 6)
		}
	}
	// x - y sign table
	if fl := k.flow("T.minus", relCheck, "checker", "bcheckExprXBinaryMinus"); fl != nil {
		var sw *ast.SwitchStmt
		ast.Inspect(fl.F.Decl.Body, func(m ast.Node) bool {
			if s, ok := m.(*ast.SwitchStmt); ok && sw == nil && s.Tag != nil {
				sw = s
			}
			return true
		})
		nbVars := varsOfType(fl.VarsDenoting(func(e ast.Expr) bool {
			call, ok := ast.Unparen(e).(*ast.CallExpr)
			return ok && nameIs(fl, call, "Sub")
		}), "IntRange")
		if sw == nil || len(nbVars) != 1 {
			c.Undecided("T.minus", fl.F.Name(), "switch over the fact's operator refining lb.Sub(rb)", "not found")
		} else {
			nb := nbVars[0].Name()
			tagName := place(sw.Tag, fl.F.Info())
			var bad []string
			nEff := 0
			for _, o := range cmpOps {
				ov, _ := tokVal(o)
				env := &miniEnv{k: k, fl: fl, vars: map[string]miniVal{tagName: {i: ov}, nb + "[0]": {i: -10}, nb + "[1]": {i: 10}}}
				env.exec([]ast.Stmt{sw})
				if env.err != "" {
					c.Undecided("T.minus", fl.F.Name(), "the sign table evaluates", env.err)
					return
				}
				a0, a1 := env.vars[nb+"[0]"].i, env.vars[nb+"[1]"].i
				if a0 != -10 || a1 != 10 {
					nEff++
				}
				for a := int64(-3); a <= 3; a++ {
					for b := int64(-3); b <= 3; b++ {
						if cmpSem(o, a, b) && (a-b < a0 || a-b > a1) {
							bad = append(bad, fmt.Sprintf("fact `x %s y` bounds x-y to [%d,%d] but %d-%d=%d", strings.TrimPrefix(o, "IDXBinary"), a0, a1, a, b, a-b))
						}
					}
				}
			}
			c.Check(len(bad) == 0 && nEff >= 4, "T.minus", fl.F.Name(), "a fact `x op y` bounds x - y correctly (x<y ⇒ ≤ -1, x≤y ⇒ ≤ 0, x≥y ⇒ ≥ 0, x>y ⇒ ≥ 1) for all values", 6*49, strings.Join(first(c02Uniq(bad), 3), "; "))
			// the fact must be about the same two operands, in order
			lhs, rhs := fl.Param(0), fl.Param(2)
			k.mustPass("T.minus.match", fl.F.Name(), "the sign table is applied only to facts whose two sides equal the two operands, in order", fl, core.Query{
				Exit: func(n ast.Node) bool { return n == ast.Node(sw.Tag) },
				Events: []core.Event{{Edge: func(cond ast.Expr, ci *core.CondInfo, taken bool) bool {
					parts := flattenOr(cond)
					if taken || len(parts) != 2 {
						return false
					}
					m := func(e ast.Expr, p types.Object) bool {
						x, neg := boolCond(e)
						call, ok := x.(*ast.CallExpr)
						return ok && neg && nameIs(fl, call, "Eq") && len(call.Args) == 1 && fl.Is(p)(core.RecvOf(call))
					}
					return (m(parts[0], lhs) && m(parts[1], rhs)) || (m(parts[1], lhs) && m(parts[0], rhs))
				}}}})
		}
	}
}

func c02Uniq(s []string) []string {
	sort.Strings(s)
	var out []string
	for i, x := range s {
		if i == 0 || x != s[i-1] {
			out = append(out, x)
		}
	}
	return out
}

func first(s []string, n int) []string {
	if len(s) > n {
		return s[:n]
	}
	return s
}
