package main

// C18 typestate rules (S.*) and sibling agreement (W.*): a path-sensitive
// forward dataflow over go/cfg. The abstract state is a small tuple of
// finite facts (receiver nil-ness, the sticky flag, the MCU counter's phase,
// local error variables, pointer arguments, the validated ranges of Reset's
// integer arguments, …); a set of tuples is propagated, branch conditions
// refine tuples along their true/false edges (through !, && and || with
// short-circuit order), and every rule is a predicate on the tuples that
// reach a particular kind of node (a return, a store, a call).

import (
	"fmt"
	"go/ast"
	"go/constant"
	"go/token"
	"go/types"
	"math"
	"sort"
	"strings"

	"golang.org/x/tools/go/cfg"

	"wv/core"
)

const (
	cU   = iota // counter: nothing known
	cZ          // tested zero
	cP          // tested positive
	cD          // decremented from positive, not yet tested
	cDZ         // decremented, then tested zero
	cDP         // decremented, then tested non-zero
	cBad        // written in an unrecognised way
)

var cntNames = []string{"untested", "zero", "positive", "decremented", "decremented==0", "decremented!=0", "clobbered"}

type tst struct {
	recv, flag, ftest int8 // recv: 0 ?, 1 nil, 2 non-nil; flag/ftest: 0 ?, 1 true, 2 false
	cnt               int8
	ff                int8
	ffBase            token.Pos
	ffK               int64
	eoi, flush        int8
	eoiBase           token.Pos // index variable of the FF D9 stores
	eoiK              int64     // offset of the D9 store
	adv               int8      // 1: the index variable was advanced past the marker exactly once
	wrote             int8
	wslot             int8
	errs              [4]int8
	ptr               [4]int8
	lo, hi            [2]int64
	ctValid           int8
	ctCmp             int8
	ctVal             int64
	quants            int8
	qv                [2]int8
	assigned          uint32
}

type sret struct {
	pos  token.Pos
	kind string // "nil", "err:<Name>", "deleg:<callee>", "local"
	t    tst
	call *ast.CallExpr
}

type sfn struct {
	x     *c18
	fl    *core.Flow
	info  *types.Info
	name  string
	recv  types.Object
	role  string // "reset", "add", "addN"
	funcs map[*types.Func]bool

	errVars     []types.Object
	ptrKeys     []string
	intParams   []types.Object
	ctParam     types.Object
	quantSrcKey string
	bitOf       map[string]uint32
	bitNames    map[uint32]string
	allBits     uint32
	caseExpr    map[ast.Expr]bool

	// path reconstruction: one parent per (block, tuple) first reached
	items []sitem
	cur   int

	rets  []sret
	viol  map[string][]string
	seenV map[string]bool
	sites map[string]int
	undec []string
}

type sitem struct {
	b      *cfg.Block
	t      tst
	parent int
	note   string
}

// trail lists the branch decisions from the function entry to the block
// being processed.
func (f *sfn) trail() string {
	var t []string
	for k := f.cur; k >= 0 && k < len(f.items); k = f.items[k].parent {
		if f.items[k].note != "" {
			t = append(t, f.items[k].note)
		}
	}
	for i, j := 0, len(t)-1; i < j; i, j = i+1, j-1 {
		t[i], t[j] = t[j], t[i]
	}
	if len(t) > 10 {
		t = append(append(t[:4:4], "…"), t[len(t)-5:]...)
	}
	return strings.Join(t, " ; ")
}

func (f *sfn) violate(rule string, pos token.Pos, format string, a ...interface{}) {
	msg := f.x.k.g.Pos(pos) + ": " + fmt.Sprintf(format, a...)
	if f.seenV[rule+"\x00"+msg] {
		return
	}
	f.seenV[rule+"\x00"+msg] = true
	f.viol[rule] = append(f.viol[rule], msg+"\n    path: ["+f.trail()+"]")
}

func (f *sfn) site(rule string, p token.Pos) {
	k := fmt.Sprintf("%s\x00%d", rule, p)
	if !f.seenV[k] {
		f.seenV[k] = true
		f.sites[rule]++
	}
}

func (f *sfn) isRecv(e ast.Expr) bool {
	id, ok := ast.Unparen(e).(*ast.Ident)
	return ok && f.recv != nil && f.info.Uses[id] == f.recv
}

// recvField: e is recv.<field>.
func (f *sfn) recvField(e ast.Expr) *types.Var {
	sel, ok := ast.Unparen(e).(*ast.SelectorExpr)
	if !ok || !f.isRecv(sel.X) {
		return nil
	}
	v, _ := f.info.Uses[sel.Sel].(*types.Var)
	if v != nil && v.IsField() {
		return v
	}
	return nil
}

func (f *sfn) paramIndex(obj types.Object) int {
	for i := 0; ; i++ {
		p := f.fl.Param(i)
		if p == nil {
			return -1
		}
		if p == obj {
			return i
		}
	}
}

// ckey canonicalises a pointer-valued expression: parameters by position,
// field selections by field name, single-definition locals by their definition.
func (f *sfn) ckey(e ast.Expr, depth int) string {
	switch n := ast.Unparen(e).(type) {
	case *ast.Ident:
		obj := f.fl.Obj(n)
		if obj == nil {
			return ""
		}
		if obj == f.recv {
			return "recv"
		}
		if i := f.paramIndex(obj); i >= 0 {
			return fmt.Sprintf("p%d", i)
		}
		if defs := f.fl.Defs()[obj]; len(defs) == 1 && depth < 4 {
			return f.ckey(defs[0], depth+1)
		}
	case *ast.SelectorExpr:
		b := f.ckey(n.X, depth)
		if b == "" {
			return ""
		}
		if v, ok := f.info.Uses[n.Sel].(*types.Var); ok && v.IsField() {
			return b + "." + v.Name()
		}
	}
	return ""
}

func (f *sfn) ptrSlot(e ast.Expr) int {
	k := f.ckey(e, 0)
	if k == "" || k == "recv" {
		return -1
	}
	for i, pk := range f.ptrKeys {
		if pk == k {
			return i
		}
	}
	return -1
}

func (f *sfn) errSlot(e ast.Expr) int {
	id, ok := ast.Unparen(e).(*ast.Ident)
	if !ok {
		return -1
	}
	obj := f.fl.Obj(id)
	for i, v := range f.errVars {
		if v == obj {
			return i
		}
	}
	return -1
}

func isPtr(t types.Type) bool {
	if t == nil {
		return false
	}
	_, ok := types.Unalias(t).Underlying().(*types.Pointer)
	return ok
}

// scan checks every dereference inside n against tuple t.
func (f *sfn) scan(n ast.Node, t tst) {
	if n == nil {
		return
	}
	ast.Inspect(n, func(m ast.Node) bool {
		switch e := m.(type) {
		case *ast.FuncLit:
			return false
		case *ast.SelectorExpr:
			if f.isRecv(e.X) {
				f.site("S.nilrecv", e.Pos())
				if t.recv != 2 {
					f.violate("S.nilrecv", e.Pos(), "`%s` is evaluated where the receiver is not known to be non-nil", core.Src(f.x.k.g.Fset, e))
				}
				if f.role == "add" {
					if v, _ := f.info.Uses[e.Sel].(*types.Var); v != f.x.fFlag {
						f.site("S.entry", e.Pos())
						if t.ftest != 2 || t.flag != 2 {
							f.violate("S.entry", e.Pos(), "`%s` is touched before the path has tested hasReturnedError to be false", core.Src(f.x.k.g.Fset, e))
						}
					}
				}
			} else if isPtr(f.info.TypeOf(e.X)) {
				f.deref(e.X, e, t)
			}
		case *ast.StarExpr:
			f.deref(e.X, e, t)
		case *ast.IndexExpr:
			if isPtr(f.info.TypeOf(e.X)) {
				f.deref(e.X, e, t)
			}
		case *ast.SliceExpr:
			if isPtr(f.info.TypeOf(e.X)) {
				f.deref(e.X, e, t)
			}
		}
		return true
	})
}

func (f *sfn) deref(p ast.Expr, whole ast.Expr, t tst) {
	if tv, ok := f.info.Types[whole]; ok && tv.IsType() {
		return // *T in a type position
	}
	s := f.ptrSlot(p)
	if s < 0 {
		return
	}
	f.site("S.nilarg", whole.Pos())
	if t.ptr[s] != 2 {
		f.violate("S.nilarg", whole.Pos(), "`%s` dereferences %s where it is not known to be non-nil", core.Src(f.x.k.g.Fset, whole), f.ptrKeys[s])
	}
}

func constBool(info *types.Info, e ast.Expr) (bool, bool) {
	v := core.ConstVal(info, e)
	if v == nil || v.Kind() != constant.Bool {
		return false, false
	}
	return constant.BoolVal(v), true
}

// assume refines the tuples by `e == truth`, honouring short-circuit order.
func (f *sfn) assume(e ast.Expr, truth bool, ts []tst) []tst {
	if len(ts) == 0 {
		return nil
	}
	e = ast.Unparen(e)
	switch n := e.(type) {
	case *ast.UnaryExpr:
		if n.Op == token.NOT {
			return f.assume(n.X, !truth, ts)
		}
	case *ast.BinaryExpr:
		if n.Op == token.LOR || n.Op == token.LAND {
			// a || b is true via a, or via !a then b; false via !a then !b. && is dual.
			short := n.Op == token.LOR
			if truth == short {
				out := f.assume(n.X, short, ts)
				return append(out, f.assume(n.Y, short, f.assume(n.X, !short, ts))...)
			}
			return f.assume(n.Y, !short, f.assume(n.X, !short, ts))
		}
	}
	var out []tst
	for _, t := range ts {
		f.scan(e, t)
		if r, ok := f.atom(e, truth, t); ok {
			out = append(out, r)
		}
	}
	return out
}

func refine3(cur *int8, want int8) bool {
	if *cur != 0 && *cur != want {
		return false
	}
	*cur = want
	return true
}

// atom refines one tuple by an atomic condition; ok=false: infeasible.
func (f *sfn) atom(e ast.Expr, truth bool, t tst) (tst, bool) {
	info := f.info
	// Bare boolean field: e.hasReturnedError.
	if f.recvField(e) == f.x.fFlag {
		return f.flagIs(t, truth)
	}
	if call, ok := e.(*ast.CallExpr); ok {
		fn := core.Callee(info, call)
		if fn != nil && fn.Name() == "isValid" && f.ctParam != nil && f.fl.Is(f.ctParam)(core.RecvOf(call)) && recvTypeName(fn) == "ColorType" {
			w := int8(2)
			if truth {
				w = 1
			}
			if !refine3(&t.ctValid, w) {
				return t, false
			}
			return t, true
		}
		if fn != nil && fn.Name() == "IsValid" && recvTypeName(fn) == "QuantizationFactors" && f.quantSrcKey != "" {
			if ix, ok := ast.Unparen(core.RecvOf(call)).(*ast.IndexExpr); ok && f.ckey(ix.X, 0) == f.quantSrcKey {
				if i, ok := core.ConstInt64(info, ix.Index); ok && i >= 0 && i < 2 {
					w := int8(2)
					if truth {
						w = 1
					}
					if !refine3(&t.qv[i], w) {
						return t, false
					}
				}
			}
		}
		return t, true
	}
	be, ok := e.(*ast.BinaryExpr)
	if !ok {
		return t, true
	}
	op := be.Op
	if !truth {
		switch op {
		case token.EQL:
			op = token.NEQ
		case token.NEQ:
			op = token.EQL
		case token.LSS:
			op = token.GEQ
		case token.LEQ:
			op = token.GTR
		case token.GTR:
			op = token.LEQ
		case token.GEQ:
			op = token.LSS
		default:
			return t, true
		}
	}
	x, y := ast.Unparen(be.X), ast.Unparen(be.Y)
	// nil comparisons
	if core.IsNilIdent(info, y) || core.IsNilIdent(info, x) {
		o := x
		if core.IsNilIdent(info, x) {
			o = y
		}
		if op != token.EQL && op != token.NEQ {
			return t, true
		}
		w := int8(2)
		if op == token.EQL {
			w = 1
		}
		switch {
		case f.isRecv(o):
			return t, refine3(&t.recv, w)
		case f.errSlot(o) >= 0:
			return t, refine3(&t.errs[f.errSlot(o)], w)
		case f.ptrSlot(o) >= 0:
			return t, refine3(&t.ptr[f.ptrSlot(o)], w)
		}
		return t, true
	}
	// flag == true / false
	if f.recvField(x) == f.x.fFlag || f.recvField(y) == f.x.fFlag {
		o := y
		if f.recvField(y) == f.x.fFlag {
			o = x
		}
		if b, ok := constBool(info, o); ok && (op == token.EQL || op == token.NEQ) {
			return f.flagIs(t, b == (op == token.EQL))
		}
		return t, true
	}
	// something REL constant
	var subj ast.Expr
	var kv int64
	if v, ok := core.ConstInt64(info, y); ok {
		subj, kv = x, v
	} else if v, ok := core.ConstInt64(info, x); ok {
		subj, kv, op = y, v, mirror(op)
	} else {
		return t, true
	}
	switch {
	case f.recvField(subj) == f.x.fCount:
		// Classify by the values (of an unsigned counter) that satisfy it.
		sat := func(v int64) bool { r, _ := relEval(op, v, kv); return r }
		z := sat(0)
		pos := []bool{sat(1), sat(2), sat(3), sat(math.MaxUint32)}
		allPos, nonePos := true, true
		for _, p := range pos {
			allPos = allPos && p
			nonePos = nonePos && !p
		}
		switch {
		case z && nonePos: // exactly "== 0"
			return f.cntIs(t, true)
		case !z && allPos: // exactly "!= 0"
			return f.cntIs(t, false)
		}
		return t, true
	case f.recvField(subj) == f.x.fColor:
		switch op {
		case token.EQL:
			if t.ctCmp == 1 && t.ctVal != kv || t.ctCmp == 2 && t.ctVal == kv {
				return t, false
			}
			t.ctCmp, t.ctVal = 1, kv
		case token.NEQ:
			if t.ctCmp == 1 {
				return t, t.ctVal != kv
			}
			t.ctCmp, t.ctVal = 2, kv
		}
		return t, true
	}
	if id, ok := subj.(*ast.Ident); ok {
		obj := f.fl.Obj(id)
		for i, p := range f.intParams {
			if p != obj {
				continue
			}
			switch op {
			case token.LSS:
				t.hi[i] = min64(t.hi[i], kv-1)
			case token.LEQ:
				t.hi[i] = min64(t.hi[i], kv)
			case token.GTR:
				t.lo[i] = max64(t.lo[i], kv+1)
			case token.GEQ:
				t.lo[i] = max64(t.lo[i], kv)
			case token.EQL:
				t.lo[i], t.hi[i] = max64(t.lo[i], kv), min64(t.hi[i], kv)
			case token.NEQ:
				if t.lo[i] == kv {
					t.lo[i]++
				}
				if t.hi[i] == kv {
					t.hi[i]--
				}
			}
			return t, t.lo[i] <= t.hi[i]
		}
	}
	return t, true
}

func min64(a, b int64) int64 {
	if a < b {
		return a
	}
	return b
}

func max64(a, b int64) int64 {
	if a > b {
		return a
	}
	return b
}

func recvTypeName(fn *types.Func) string {
	sig, ok := fn.Type().(*types.Signature)
	if !ok || sig.Recv() == nil {
		return ""
	}
	t := types.Unalias(sig.Recv().Type())
	if p, ok := t.(*types.Pointer); ok {
		t = types.Unalias(p.Elem())
	}
	if n, ok := t.(*types.Named); ok {
		return n.Obj().Name()
	}
	return ""
}

func (f *sfn) flagIs(t tst, v bool) (tst, bool) {
	w := int8(2)
	if v {
		w = 1
	}
	if t.flag != 0 && t.flag != w {
		return t, false
	}
	t.flag, t.ftest = w, w
	return t, true
}

func (f *sfn) cntIs(t tst, zero bool) (tst, bool) {
	switch t.cnt {
	case cU:
		if zero {
			t.cnt = cZ
		} else {
			t.cnt = cP
		}
	case cZ:
		return t, zero
	case cP:
		return t, !zero
	case cD:
		if zero {
			t.cnt = cDZ
		} else {
			t.cnt = cDP
		}
	case cDZ:
		return t, zero
	case cDP:
		return t, !zero
	}
	return t, true
}

// baseK splits `v + k` / `k + v` / `v` into (object of v, k).
func (f *sfn) baseK(e ast.Expr) (token.Pos, int64, bool) {
	e = ast.Unparen(e)
	if id, ok := e.(*ast.Ident); ok {
		if o := f.fl.Obj(id); o != nil {
			return o.Pos(), 0, true
		}
		return 0, 0, false
	}
	be, ok := e.(*ast.BinaryExpr)
	if !ok || be.Op != token.ADD {
		return 0, 0, false
	}
	if k, ok := core.ConstInt64(f.info, be.Y); ok {
		if p, k0, ok := f.baseK(be.X); ok {
			return p, k0 + k, true
		}
	}
	if k, ok := core.ConstInt64(f.info, be.X); ok {
		if p, k0, ok := f.baseK(be.Y); ok {
			return p, k0 + k, true
		}
	}
	return 0, 0, false
}

func (f *sfn) isBufWrite(call *ast.CallExpr) bool {
	fn := core.Callee(f.info, call)
	if fn == nil || fn.FullName() != "(io.Writer).Write" || len(call.Args) != 1 {
		return false
	}
	sl, ok := ast.Unparen(call.Args[0]).(*ast.SliceExpr)
	return ok && f.recvField(sl.X) == f.x.fBuf
}

// callEffects applies the effects of the calls inside n (evaluation order is
// approximated by source order).
func (f *sfn) callEffects(n ast.Node, t tst) tst {
	ast.Inspect(n, func(m ast.Node) bool {
		if _, ok := m.(*ast.FuncLit); ok {
			return false
		}
		call, ok := m.(*ast.CallExpr)
		if !ok {
			return true
		}
		fn := core.Callee(f.info, call)
		if fn == nil {
			return true
		}
		switch {
		case f.isBufWrite(call):
			f.site("S.eoi", call.Pos())
			if f.role == "addN" {
				okState := (t.cnt == cDZ && t.eoi == 1) || (t.cnt == cDP && t.eoi == 0)
				if !okState {
					f.violate("S.eoi", call.Pos(), "the MCU bytes are written with the counter %s and EOI %s: EOI must have been appended exactly when the decremented numAddsRemaining is zero", cntNames[t.cnt], map[int8]string{0: "absent", 1: "present"}[t.eoi])
				}
				if t.eoi == 1 {
					hiOK := false
					if sl, ok := ast.Unparen(call.Args[0]).(*ast.SliceExpr); ok && sl.High != nil {
						if p, k, ok := f.baseK(sl.High); ok && p == t.eoiBase && k == 0 {
							hiOK = true
						}
					}
					if t.adv != 1 || !hiOK {
						f.violate("S.eoi", call.Pos(), "the slice handed to Write does not end just past the EOI marker: the index variable must be advanced by %d after the FF D9 stores (once) and be the slice's upper bound", t.eoiK+1)
					}
				}
			}
			t.wrote, t.wslot = 1, -1
		case recvTypeName(fn) == "Encoder" && f.isRecv(core.RecvOf(call)):
			switch fn.Name() {
			case "emitBits":
				t.flush = 0
				if len(call.Args) == 3 {
					v, ok1 := core.ConstInt64(f.info, call.Args[1])
					nn, ok2 := core.ConstInt64(f.info, call.Args[2])
					if ok1 && ok2 && nn == 7 && v&0x7F == 0x7F {
						t.flush = 1
					}
				}
			case "encodeBlock", "emitHuffman", "emitHuffmanRun":
				t.flush = 0
			}
		case fn.Name() == "SetToStandardValues" && f.recvField(core.RecvOf(call)) == f.x.fQuants:
			t.quants = 1
			t.assigned |= f.bitOf["quants"]
		}
		return true
	})
	return t
}

func (f *sfn) isDefiniteErr(e ast.Expr) (string, bool) {
	e = ast.Unparen(e)
	switch n := e.(type) {
	case *ast.Ident, *ast.SelectorExpr:
		var obj types.Object
		if id, ok := n.(*ast.Ident); ok {
			obj = f.info.Uses[id]
		} else {
			obj = f.info.Uses[n.(*ast.SelectorExpr).Sel]
		}
		if v, ok := obj.(*types.Var); ok && !v.IsField() && v.Pkg() != nil && v.Parent() == v.Pkg().Scope() {
			return v.Name(), true
		}
	case *ast.CallExpr:
		if fn := core.Callee(f.info, n); fn != nil && fn.Pkg() != nil {
			switch fn.Pkg().Path() + "." + fn.Name() {
			case "fmt.Errorf", "errors.New":
				return fn.Name(), true
			}
		}
	case *ast.UnaryExpr:
		if _, ok := n.X.(*ast.CompositeLit); ok && n.Op == token.AND {
			return "composite", true
		}
	}
	return "", false
}

// step is the transfer function of one CFG node.
func (f *sfn) step(n ast.Node, t tst) []tst {
	switch s := n.(type) {
	case *ast.ReturnStmt:
		f.doReturn(s, t)
		return nil
	case *ast.AssignStmt:
		for _, r := range s.Rhs {
			f.scan(r, t)
		}
		for _, l := range s.Lhs {
			f.scan(l, t)
		}
		for _, r := range s.Rhs {
			t = f.callEffects(r, t)
		}
		return f.assignEffects(s, t)
	case *ast.IncDecStmt:
		f.scan(s.X, t)
		if f.recvField(s.X) == f.x.fCount {
			f.site("S.count", s.Pos())
			if f.role == "addN" {
				if s.Tok == token.DEC && t.cnt == cP {
					t.cnt = cD
				} else {
					f.violate("S.count", s.Pos(), "`%s` with the counter %s: the only change AddN may make is one decrement on a path that has tested numAddsRemaining to be non-zero", core.Src(f.x.k.g.Fset, s), cntNames[t.cnt])
					t.cnt = cBad
				}
			} else {
				f.violate("S.count", s.Pos(), "numAddsRemaining is changed outside Reset's initialisation and addN's decrement")
			}
		}
		return []tst{t}
	case *ast.ExprStmt:
		if _, isLit := s.X.(*ast.BasicLit); isLit {
			return []tst{t}
		}
		f.scan(s.X, t)
		return []tst{f.callEffects(s.X, t)}
	case *ast.DeclStmt:
		f.scan(s, t)
		t = f.callEffects(s, t)
		if gd, ok := s.Decl.(*ast.GenDecl); ok {
			for _, sp := range gd.Specs {
				if vs, ok := sp.(*ast.ValueSpec); ok && len(vs.Values) == 0 {
					for _, id := range vs.Names {
						if i := f.errSlot(id); i >= 0 {
							t.errs[i] = 1
						}
					}
				}
			}
		}
		return []tst{t}
	default:
		f.scan(n, t)
		return []tst{f.callEffects(n, t)}
	}
}

func (f *sfn) assignEffects(s *ast.AssignStmt, t tst) []tst {
	info := f.info
	cur := []tst{t}
	rhsFor := func(i int) ast.Expr {
		if len(s.Lhs) == len(s.Rhs) {
			return s.Rhs[i]
		}
		return nil
	}
	var onlyCall *ast.CallExpr
	if len(s.Rhs) == 1 {
		onlyCall, _ = ast.Unparen(s.Rhs[0]).(*ast.CallExpr)
	}
	if f.role == "addN" && len(s.Lhs) == 1 && len(s.Rhs) == 1 {
		if id, ok := ast.Unparen(s.Lhs[0]).(*ast.Ident); ok {
			if o := f.fl.Obj(id); o != nil {
				for j := range cur {
					c := cur[j]
					if c.eoi != 1 || o.Pos() != c.eoiBase {
						continue
					}
					okAdv := false
					if s.Tok == token.ADD_ASSIGN {
						if v, ok := core.ConstInt64(info, s.Rhs[0]); ok && v == c.eoiK+1 && c.adv == 0 {
							okAdv = true
						}
					} else if s.Tok == token.ASSIGN {
						if p, k, ok := f.baseK(s.Rhs[0]); ok && p == c.eoiBase && k == c.eoiK+1 && c.adv == 0 {
							okAdv = true
						}
					}
					if okAdv {
						c.adv = 1
					} else {
						c.adv = 2
					}
					cur[j] = c
				}
			}
		}
	}
	for i, l := range s.Lhs {
		rhs := rhsFor(i)
		plain := s.Tok == token.ASSIGN || s.Tok == token.DEFINE
		// local error variable
		if slot := f.errSlot(l); slot >= 0 {
			var next []tst
			for _, c := range cur {
				fork := true
				if rhs != nil && plain {
					if core.IsNilIdent(info, rhs) {
						c.errs[slot] = 1
						fork = false
					} else if _, ok := f.isDefiniteErr(rhs); ok {
						c.errs[slot] = 2
						fork = false
					}
				}
				if onlyCall != nil && f.isBufWrite(onlyCall) {
					c.wslot = int8(slot)
				} else if c.wslot == int8(slot) {
					c.wslot = -1 // the Write error was overwritten
				}
				if fork {
					a, b := c, c
					a.errs[slot], b.errs[slot] = 1, 2
					next = append(next, a, b)
				} else {
					next = append(next, c)
				}
			}
			cur = next
			continue
		}
		fld := f.recvField(l)
		var elemIdx int64 = -1
		if ix, ok := ast.Unparen(l).(*ast.IndexExpr); ok && fld == nil {
			if fv := f.recvField(ix.X); fv != nil {
				fld = fv
				if k, ok := core.ConstInt64(info, ix.Index); ok {
					elemIdx = k
				} else {
					elemIdx = -2
				}
				if fv == f.x.fBuf {
					for j := range cur {
						cur[j] = f.bufStore(s, ix, rhs, cur[j])
					}
					continue
				}
			}
		}
		if fld == nil {
			continue
		}
		for j := range cur {
			c := cur[j]
			switch fld {
			case f.x.fFlag:
				f.site("S.errflag", s.Pos())
				c.flag = 0
				if rhs != nil && plain {
					if b, ok := constBool(info, rhs); ok {
						c.flag = 2
						if b {
							c.flag = 1
						}
					}
				}
			case f.x.fCount:
				f.site("S.count", s.Pos())
				if f.role == "reset" && plain {
					c.assigned |= f.bitOf["numAddsRemaining"]
				} else {
					f.violate("S.count", s.Pos(), "numAddsRemaining is assigned outside Reset's initialisation")
					c.cnt = cBad
				}
			case f.x.fColor:
				if rhs != nil && plain && f.ctParam != nil && f.fl.Denotes(f.fl.Is(f.ctParam))(rhs) {
					c.assigned |= f.bitOf["colorType"]
				}
			case f.x.fQuants:
				c.quants = 3
				if rhs != nil && plain && elemIdx == -1 {
					if st, ok := ast.Unparen(rhs).(*ast.StarExpr); ok && f.quantSrcKey != "" && f.ckey(st.X, 0) == f.quantSrcKey && c.qv[0] == 1 && c.qv[1] == 1 {
						c.quants = 2
					}
					c.assigned |= f.bitOf["quants"]
				}
			default:
				// Other scalar / small-array state: restart values are zero.
				zero := false
				if rhs != nil && plain {
					if v, ok := core.ConstInt64(info, rhs); ok && v == 0 {
						zero = true
					}
				}
				if cl, ok := ast.Unparen(rhsOrNil(rhs)).(*ast.CompositeLit); ok && plain && len(cl.Elts) == 0 && elemIdx == -1 {
					// e.prevDC = [3]int16{}: every element restarts at zero
					for nm, b := range f.bitOf {
						if strings.HasPrefix(nm, fld.Name()+"[") {
							c.assigned |= b
						}
					}
				}
				if zero {
					if elemIdx >= 0 {
						c.assigned |= f.bitOf[fmt.Sprintf("%s[%d]", fld.Name(), elemIdx)]
					} else if elemIdx == -1 {
						c.assigned |= f.bitOf[fld.Name()]
					}
				}
			}
			cur[j] = c
		}
	}
	return cur
}

// bufStore handles e.buf[idx] = v in addN: the EOI marker protocol.
func (f *sfn) bufStore(s *ast.AssignStmt, ix *ast.IndexExpr, rhs ast.Expr, t tst) tst {
	if f.role != "addN" {
		return t
	}
	v, isConst := int64(-1), false
	if rhs != nil {
		v, isConst = core.ConstInt64(f.info, rhs)
	}
	base, k, okb := f.baseK(ix.Index)
	switch {
	case isConst && v == 0xFF && okb:
		t.ff, t.ffBase, t.ffK = 1, base, k
	case isConst && v == 0xD9:
		f.site("S.eoi", s.Pos())
		switch {
		case t.cnt != cDZ:
			f.violate("S.eoi", s.Pos(), "the EOI marker byte 0xD9 is stored with the counter %s; it must be stored only after the decrement, when numAddsRemaining == 0", cntNames[t.cnt])
		case t.flush != 1:
			f.violate("S.eoi", s.Pos(), "the EOI marker is stored without a preceding emitBits(_, 0x7F, 7) that flushes the pending bits with ones")
		case t.ff != 1 || !okb || base != t.ffBase || k != t.ffK+1:
			f.violate("S.eoi", s.Pos(), "0xD9 is not stored immediately after a 0xFF at the previous index: the marker is not FF D9")
		default:
			t.eoi, t.eoiBase, t.eoiK, t.adv = 1, base, k, 0
		}
		t.ff = 0
	default:
		if t.eoi == 1 {
			f.violate("S.eoi", s.Pos(), "a byte is stored into the buffer after the EOI marker")
		}
		t.ff = 0
	}
	return t
}

func (f *sfn) doReturn(r *ast.ReturnStmt, t tst) {
	if len(r.Results) == 0 {
		f.undec = append(f.undec, f.x.k.g.Pos(r.Pos())+": bare return")
		return
	}
	last := ast.Unparen(r.Results[len(r.Results)-1])
	// delegation: return e.addN(...)
	if call, ok := last.(*ast.CallExpr); ok {
		if fn := core.Callee(f.info, call); fn != nil && f.funcs[fn] && f.isRecv(core.RecvOf(call)) {
			f.scan(call, t)
			f.rets = append(f.rets, sret{r.Pos(), "deleg:" + fn.Name(), t, call})
			return
		}
	}
	f.scan(r, t)
	if core.IsNilIdent(f.info, last) {
		f.success(r, t)
		return
	}
	if name, ok := f.isDefiniteErr(last); ok {
		f.failure(r, name, last, t)
		return
	}
	if slot := f.errSlot(last); slot >= 0 {
		switch t.errs[slot] {
		case 1:
			f.success(r, t)
		case 2:
			f.failure(r, "local", last, t)
		default:
			f.success(r, t)
			f.failure(r, "local", last, t)
		}
		return
	}
	f.undec = append(f.undec, fmt.Sprintf("%s: `%s` is not a recognised error-return form", f.x.k.g.Pos(r.Pos()), core.Src(f.x.k.g.Fset, r)))
}

func (f *sfn) failure(r *ast.ReturnStmt, name string, e ast.Expr, t tst) {
	f.rets = append(f.rets, sret{r.Pos(), "err:" + name, t, nil})
	switch name {
	case "ErrNilReceiver":
		f.site("S.sentinel", r.Pos())
		if t.recv != 1 {
			f.violate("S.sentinel", r.Pos(), "ErrNilReceiver is returned on a path where the receiver is not known to be nil (and hasReturnedError is %s): it is one of the two errors allowed to leave the flag untouched", flagName(t.flag))
		}
	case "ErrPreviouslyReturnedError":
		f.site("S.sentinel", r.Pos())
		if t.flag != 1 {
			f.violate("S.sentinel", r.Pos(), "ErrPreviouslyReturnedError is returned on a path where hasReturnedError is %s, not true", flagName(t.flag))
		}
	default:
		f.site("S.errflag", r.Pos())
		if t.flag != 1 {
			f.violate("S.errflag", r.Pos(), "`%s` returns a non-nil error while hasReturnedError is %s on this path: the next AddN would continue a stream that has already failed", core.Src(f.x.k.g.Fset, r), flagName(t.flag))
		}
	}
}

func flagName(v int8) string {
	return map[int8]string{0: "unknown (never set on this path)", 1: "true", 2: "false"}[v]
}

func (f *sfn) success(r *ast.ReturnStmt, t tst) {
	f.rets = append(f.rets, sret{r.Pos(), "nil", t, nil})
	here := f.x.k.g.Pos(r.Pos())
	_ = here
	f.site("S.success", r.Pos())
	if t.flag != 2 {
		f.violate("S.success", r.Pos(), "a nil error is returned while hasReturnedError is %s, not false", flagName(t.flag))
	}
	if f.role == "reset" || f.role == "addN" {
		f.site("S.write", r.Pos())
		switch {
		case t.wrote != 1:
			f.violate("S.write", r.Pos(), "success is returned on a path that never handed the buffer to w.Write")
		case t.wslot < 0:
			f.violate("S.write", r.Pos(), "success is returned although the error result of w.Write was dropped or overwritten")
		case t.errs[t.wslot] != 1:
			f.violate("S.write", r.Pos(), "success is returned on a path where the error of w.Write is not known to be nil")
		}
	}
	if f.role == "reset" {
		for i := range f.intParams {
			f.site("S.reset.args", r.Pos())
			if t.lo[i] < 1 || t.hi[i] > 0xFFFF {
				f.violate("S.reset.args", r.Pos(), "Reset succeeds with %s only known to lie in [%s, %s]; SOF0 stores it in 16 bits and zero is not a JPEG dimension, so it must have been checked to lie in [1, 65535]", f.intParams[i].Name(), bound(t.lo[i]), bound(t.hi[i]))
			}
		}
		f.site("S.reset.args", r.Pos())
		if t.ctValid != 1 {
			f.violate("S.reset.args", r.Pos(), "Reset succeeds on a path where colorType.isValid() is not known to be true")
		}
		f.site("S.reset.quants", r.Pos())
		if t.quants != 1 && t.quants != 2 {
			f.violate("S.reset.quants", r.Pos(), "Reset succeeds with e.quants %s; it must be the standard values or a copy made after both source tables passed IsValid (a zero factor divides by zero in encodeBlock)", map[int8]string{0: "never set", 3: "copied from a source whose two tables were not both validated"}[t.quants])
		}
		f.site("S.reset.init", r.Pos())
		if miss := f.allBits &^ t.assigned; miss != 0 {
			var names []string
			for b, nm := range f.bitNames {
				if miss&b != 0 {
					names = append(names, nm)
				}
			}
			sort.Strings(names)
			f.violate("S.reset.init", r.Pos(), "Reset succeeds without re-initialising %s (expected: colorType from the argument, numAddsRemaining, and zero for the DC predictors and the bit accumulator): a re-used Encoder would carry state of the previous image", strings.Join(names, ", "))
		}
	}
}

func bound(v int64) string {
	switch v {
	case math.MinInt64:
		return "-inf"
	case math.MaxInt64:
		return "+inf"
	}
	return fmt.Sprint(v)
}

// run propagates tuples to a fixed point.
func (f *sfn) run(entry tst) {
	g := f.fl.G
	if len(g.Blocks) == 0 {
		return
	}
	fset := f.x.k.g.Fset
	seen := map[int32]map[tst]bool{}
	push := func(b *cfg.Block, t tst, parent int, note string) {
		m := seen[b.Index]
		if m == nil {
			m = map[tst]bool{}
			seen[b.Index] = m
		}
		if m[t] {
			return
		}
		m[t] = true
		f.items = append(f.items, sitem{b, t, parent, note})
	}
	f.items = nil
	push(g.Blocks[0], entry, -1, "")
	for k := 0; k < len(f.items); k++ {
		it := f.items[k]
		f.cur = k
		if len(f.items) > 20000 {
			f.undec = append(f.undec, "state explosion")
			return
		}
		nodes := it.b.Nodes
		var cond ast.Expr
		if len(it.b.Succs) == 2 && len(nodes) > 0 {
			if e, ok := nodes[len(nodes)-1].(ast.Expr); ok {
				cond = e
				nodes = nodes[:len(nodes)-1]
			}
		}
		cur := []tst{it.t}
		for _, n := range nodes {
			var next []tst
			for _, t := range cur {
				next = append(next, f.step(n, t)...)
			}
			cur = next
		}
		if len(cur) == 0 {
			continue
		}
		switch {
		case cond != nil && !f.caseExpr[cond]:
			where := fmt.Sprintf("%s `%s`", f.x.k.g.Pos(cond.Pos()), core.Src(fset, cond))
			for _, t := range f.assume(cond, true, cur) {
				push(it.b.Succs[0], t, k, where+"=true")
			}
			for _, t := range f.assume(cond, false, cur) {
				push(it.b.Succs[1], t, k, where+"=false")
			}
		default:
			if cond != nil {
				for _, t := range cur {
					f.scan(cond, t)
				}
			}
			for si, s := range it.b.Succs {
				note := ""
				if cond != nil {
					note = fmt.Sprintf("%s case `%s`=%v", f.x.k.g.Pos(cond.Pos()), core.Src(fset, cond), si == 0)
				}
				for _, t := range cur {
					push(s, t, k, note)
				}
			}
		}
	}
}

// newSfn prepares the per-function tables.
func (x *c18) newSfn(rule, recvT, name, role string, funcs map[*types.Func]bool) *sfn {
	fl := x.k.flow(rule, relJPEG, recvT, name)
	if fl == nil {
		return nil
	}
	f := &sfn{x: x, fl: fl, info: fl.F.Info(), name: fl.F.Name(), recv: fl.Recv(), role: role, funcs: funcs,
		bitOf: map[string]uint32{}, bitNames: map[uint32]string{}, caseExpr: map[ast.Expr]bool{},
		viol: map[string][]string{}, seenV: map[string]bool{}, sites: map[string]int{}}
	errT := types.Universe.Lookup("error").Type()
	seenKey := map[string]bool{}
	addKey := func(k string) {
		if k != "" && k != "recv" && !seenKey[k] && len(f.ptrKeys) < 4 {
			seenKey[k] = true
			f.ptrKeys = append(f.ptrKeys, k)
		}
	}
	for i := 0; ; i++ {
		p := fl.Param(i)
		if p == nil {
			break
		}
		if isPtr(p.Type()) {
			addKey(fmt.Sprintf("p%d", i))
		}
		if b, ok := types.Unalias(p.Type()).Underlying().(*types.Basic); ok && role == "reset" && b.Kind() == types.Int && len(f.intParams) < 2 {
			f.intParams = append(f.intParams, p)
		}
		if role == "reset" {
			if n, ok := types.Unalias(p.Type()).(*types.Named); ok && n.Obj().Name() == "ColorType" {
				f.ctParam = p
			}
		}
	}
	ast.Inspect(fl.F.Decl.Body, func(m ast.Node) bool {
		switch n := m.(type) {
		case *ast.FuncLit:
			return false
		case *ast.Ident:
			if v, ok := f.info.Defs[n].(*types.Var); ok && types.Identical(v.Type(), errT) && len(f.errVars) < 4 {
				f.errVars = append(f.errVars, v)
			}
		case *ast.BinaryExpr:
			if n.Op == token.EQL || n.Op == token.NEQ {
				if core.IsNilIdent(f.info, n.Y) && isPtr(f.info.TypeOf(n.X)) {
					addKey(f.ckey(n.X, 0))
				} else if core.IsNilIdent(f.info, n.X) && isPtr(f.info.TypeOf(n.Y)) {
					addKey(f.ckey(n.Y, 0))
				}
			}
		case *ast.SwitchStmt:
			if n.Tag != nil {
				for _, cl := range n.Body.List {
					for _, e := range cl.(*ast.CaseClause).List {
						f.caseExpr[e] = true
					}
				}
			}
		case *ast.AssignStmt:
			// e.quants = *X  → X is the validated source
			if role == "reset" && len(n.Lhs) == 1 && len(n.Rhs) == 1 && f.recvField(n.Lhs[0]) == x.fQuants {
				if st, ok := ast.Unparen(n.Rhs[0]).(*ast.StarExpr); ok {
					f.quantSrcKey = f.ckey(st.X, 0)
				}
			}
		}
		return true
	})
	if role == "reset" {
		// One bit per non-scratch field (per element for small arrays of scalars).
		st, _ := x.encoder.Type().Underlying().(*types.Struct)
		bit := uint32(1)
		add := func(name string) {
			if bit == 0 {
				return
			}
			f.bitOf[name] = bit
			f.bitNames[bit] = name
			f.allBits |= bit
			bit <<= 1
		}
		for i := 0; st != nil && i < st.NumFields(); i++ {
			fv := st.Field(i)
			if fv == x.fBuf || fv == x.fFlag {
				continue
			}
			if a, ok := fv.Type().Underlying().(*types.Array); ok && fv != x.fQuants {
				if _, scalar := a.Elem().Underlying().(*types.Basic); scalar && a.Len() <= 8 {
					for q := int64(0); q < a.Len(); q++ {
						add(fmt.Sprintf("%s[%d]", fv.Name(), q))
					}
					continue
				}
			}
			add(fv.Name())
		}
	}
	return f
}

func (f *sfn) entry() tst {
	t := tst{wslot: -1}
	for i := range t.lo {
		t.lo[i], t.hi[i] = math.MinInt64, math.MaxInt64
	}
	return t
}

// emit records the verdicts of the given rules for this function.
func (f *sfn) emit(rules map[string]string, floors map[string]int) {
	c := f.x.c
	var names []string
	for r := range rules {
		names = append(names, r)
	}
	sort.Strings(names)
	for _, r := range names {
		if len(f.undec) > 0 && (r == "S.errflag" || r == "S.success") {
			c.Undecided(r, f.name, rules[r], strings.Join(f.undec, "\n"))
			continue
		}
		n := f.sites[r]
		if len(f.viol[r]) > 0 {
			c.Fail(r, f.name, rules[r], n, "in "+f.name+":\n"+strings.Join(f.viol[r], "\n"))
			continue
		}
		if n == 0 {
			c.Undecided(r, f.name, rules[r], "no site of this rule was found in the function (vacuous): the idiom it is anchored on is gone")
			continue
		}
		c.Pass(r, f.name, rules[r], n, fmt.Sprintf("%s: %d distinct source sites examined", f.x.k.g.Pos(f.fl.F.Decl.Pos()), n))
		if fl, ok := floors[r]; ok {
			c.Floor(r, f.name+" sites", n, fl)
		}
	}
	// Violations under rules that were not expected for this role still count.
	for r, v := range f.viol {
		if _, ok := rules[r]; !ok {
			c.Fail(r, f.name, "no violation of "+r+" in a function where the rule has no expected site", len(v), strings.Join(v, "\n"))
		}
	}
}

var sClaims = map[string]string{
	"S.errflag":      "every return of a non-nil error other than ErrNilReceiver / ErrPreviouslyReturnedError happens with hasReturnedError == true on that path (set, and not cleared again)",
	"S.sentinel":     "ErrNilReceiver is returned only where the receiver is nil, ErrPreviouslyReturnedError only where hasReturnedError tested true",
	"S.success":      "a nil error is returned only with hasReturnedError == false",
	"S.nilrecv":      "the receiver is dereferenced only on paths that have tested it non-nil",
	"S.entry":        "AddN touches no field other than hasReturnedError (and calls nothing on the encoder) before it has tested the receiver non-nil and hasReturnedError false",
	"S.nilarg":       "a pointer argument (or a pointer field of one) is dereferenced only where it was tested non-nil",
	"S.count":        "numAddsRemaining changes only by one decrement, on a path that tested it non-zero (`<= 0` on a uint32) first",
	"S.eoi":          "the buffer handed to Write ends in the EOI marker FF D9 (after emitBits(_,0x7F,7)) exactly on the paths where the decremented numAddsRemaining tested == 0",
	"S.write":        "success is returned only after w.Write(e.buf[:n]) whose error result was tested nil",
	"S.reset.args":   "Reset succeeds only with width, height proven in [1,65535] and colorType.isValid()",
	"S.reset.quants": "Reset succeeds only with standard quantisation factors or a copy of caller tables that both passed IsValid",
	"S.reset.init":   "Reset re-initialises every field except the scratch buffer on its success path",
}

func pick(names ...string) map[string]string {
	m := map[string]string{}
	for _, n := range names {
		m[n] = sClaims[n]
	}
	return m
}

// typestate runs S.* and W.*.
func (x *c18) typestate() {
	c, k := x.c, x.k
	addNFn := k.fn("S.anchors", relJPEG, "Encoder", "addN")
	if addNFn == nil {
		return
	}
	funcs := map[*types.Func]bool{addNFn: true}

	// ---- Reset ----
	if f := x.newSfn("S.errflag", "Encoder", "Reset", "reset", funcs); f != nil {
		if len(f.intParams) != 2 || f.ctParam == nil {
			c.Undecided("S.reset.args", f.name, sClaims["S.reset.args"], "Reset's (colorType ColorType, width int, height int) parameters not recognised")
		}
		f.run(f.entry())
		f.emit(pick("S.errflag", "S.sentinel", "S.success", "S.nilrecv", "S.nilarg", "S.write", "S.reset.args", "S.reset.quants", "S.reset.init"),
			map[string]int{"S.errflag": 7, "S.nilrecv": 12, "S.nilarg": 4, "S.reset.args": 1, "S.write": 1})
	}

	// ---- Add1 / Add3 / Add6 ----
	type twin struct {
		f   *sfn
		n   int64
		sum []string
	}
	var twins []twin
	var addNEntry []tst
	nDeleg := 0
	for _, nm := range []string{"Add1", "Add3", "Add6"} {
		f := x.newSfn("S.entry", "Encoder", nm, "add", funcs)
		if f == nil {
			continue
		}
		f.run(f.entry())
		f.emit(pick("S.errflag", "S.sentinel", "S.nilrecv", "S.entry", "S.nilarg"), map[string]int{"S.entry": 2, "S.errflag": 4, "S.sentinel": 2, "S.nilarg": 1})
		// delegations feed addN's entry state
		for _, r := range f.rets {
			if r.kind == "deleg:addN" {
				nDeleg++
				addNEntry = append(addNEntry, r.t)
				if r.t.recv != 2 || r.t.flag != 2 || r.t.ftest != 2 {
					c.Fail("S.addN.entry", f.name, "addN is entered only with a non-nil receiver and hasReturnedError tested false (addN itself tests neither)", 1,
						fmt.Sprintf("%s: addN is called with receiver %v / flag %s", k.g.Pos(r.pos), map[int8]string{0: "unknown", 1: "nil", 2: "non-nil"}[r.t.recv], flagName(r.t.flag)))
				} else {
					c.Pass("S.addN.entry", f.name, "addN is entered only with a non-nil receiver and hasReturnedError tested false (addN itself tests neither)", 1, k.g.Pos(r.pos))
				}
			}
		}
		// W: summary for sibling agreement
		var blockN int64 = -1
		bslot := -1
		if p := f.fl.Param(1); p != nil {
			blockN, _ = arrayLen(p.Type())
			for i, pk := range f.ptrKeys {
				if pk == "p1" {
					bslot = i
				}
			}
		}
		x.addLens[nm] = blockN
		var sum []string
		for _, r := range f.rets {
			ct := "?"
			if r.t.ctCmp != 0 {
				ct = fmt.Sprintf("%s N%+d", map[int8]string{1: "==", 2: "!="}[r.t.ctCmp], r.t.ctVal-blockN)
			}
			bp := int8(-1)
			if bslot >= 0 {
				bp = r.t.ptr[bslot]
			}
			extra := ""
			if r.call != nil {
				// addN(w, b[:]) — the writer parameter and the full slice of the block array.
				okArgs := len(r.call.Args) == 2 && f.fl.Is(f.fl.Param(0))(r.call.Args[0])
				if okArgs {
					sl, ok := ast.Unparen(r.call.Args[1]).(*ast.SliceExpr)
					okArgs = ok && sl.Low == nil && sl.High == nil && sl.Max == nil && f.fl.Is(f.fl.Param(1))(sl.X)
				}
				extra = fmt.Sprintf(" args(w,b[:])=%v", okArgs)
			}
			sum = append(sum, fmt.Sprintf("%s | recv=%d flagTested=%d flagNow=%d colorType %s | blocks=%d%s", r.kind, r.t.recv, r.t.ftest, r.t.flag, ct, bp, extra))
		}
		sort.Strings(sum)
		sum = uniq(sum)
		twins = append(twins, twin{f, blockN, sum})
	}
	c.Floor("S.addN.entry", "call sites of addN reached with a known state", nDeleg, 3)
	// addN has no other caller.
	other := 0
	for _, fn := range k.g.AllFuncs(k.g.Pkg(relJPEG)) {
		ast.Inspect(fn.Decl.Body, func(m ast.Node) bool {
			if call, ok := m.(*ast.CallExpr); ok && core.IsCallTo(fn.Info(), call, addNFn) {
				other++
			}
			return true
		})
	}
	c.Check(other == nDeleg, "S.addN.callers", relJPEG+".(*Encoder).addN", "every call of addN in the package is one of the analysed `return e.addN(w, b[:])` delegations", other,
		fmt.Sprintf("%d calls in the package, %d analysed delegations", other, nDeleg))

	// ---- W.twins ----
	if len(twins) == 3 {
		claim := "Add1, Add3 and Add6 make the same decisions in the same states — nil receiver, sticky flag, e.colorType compared with the ColorType whose numeric value is the length N of the block array, nil block pointer, then addN(w, b[:]) — and return the same errors"
		ref := strings.Join(twins[0].sum, "\n")
		bad := ""
		for _, tw := range twins[1:] {
			if s := strings.Join(tw.sum, "\n"); s != ref {
				bad += fmt.Sprintf("%s (%s) differs from %s:\n--- %s\n%s\n--- %s\n%s\n", tw.f.name, k.g.Pos(tw.f.fl.F.Decl.Pos()), twins[0].f.name, twins[0].f.name, ref, tw.f.name, s)
			}
		}
		if !strings.Contains(ref, "colorType == N+0") || !strings.Contains(ref, "args(w,b[:])=true") || strings.Contains(ref, "args(w,b[:])=false") {
			bad += fmt.Sprintf("%s: the reference summary lacks `colorType == N` on the delegating path or does not pass (w, b[:]):\n%s\n", twins[0].f.name, ref)
		}
		if bad == "" {
			c.Pass("W.twins", relJPEG+".(*Encoder).Add1~Add3~Add6", claim, len(twins[0].sum)*3, "common summary (N = array length):\n"+ref)
		} else {
			c.Fail("W.twins", relJPEG+".(*Encoder).Add1~Add3~Add6", claim, len(twins[0].sum)*3, bad)
		}
		// N values = valid ColorTypes
		ns := map[int64]string{}
		for _, tw := range twins {
			ns[tw.n] = tw.f.name
		}
		c.Check(keysStr(ns) == keysStr(x.ctValues) && len(ns) == 3, "W.cover", relJPEG+".(*Encoder).AddN", "the block-array lengths accepted by Add1/Add3/Add6 are exactly the numeric values of the valid ColorTypes", 3,
			fmt.Sprintf("array lengths %s, valid ColorType values %s", keysStr(ns), keysStr(x.ctValues)))
	} else {
		c.Undecided("W.twins", relJPEG+".(*Encoder).AddN", "Add1, Add3, Add6 exist", "fewer than three AddN methods found")
	}

	// ---- addN ----
	if f := x.newSfn("S.count", "Encoder", "addN", "addN", funcs); f != nil {
		e := f.entry()
		e.recv, e.flag, e.ftest = 2, 2, 2
		f.run(e)
		f.emit(pick("S.errflag", "S.success", "S.count", "S.eoi", "S.write"), map[string]int{"S.errflag": 6, "S.eoi": 2, "S.count": 1, "S.success": 1, "S.write": 1})
		x.whichComponents(f)
	}

	// ---- S.writers: who may store to the two typestate fields ----
	allowed := map[*types.Var]map[string]bool{
		x.fFlag:  {"Reset": true, "Add1": true, "Add3": true, "Add6": true, "addN": true},
		x.fCount: {"Reset": true, "addN": true},
	}
	var bad []string
	n := 0
	for _, fn := range k.g.AllFuncs(k.g.Pkg(relJPEG)) {
		info := fn.Info()
		check := func(e ast.Expr, what string) {
			ast.Inspect(e, func(m ast.Node) bool {
				sel, ok := m.(*ast.SelectorExpr)
				if !ok {
					return true
				}
				v, _ := info.Uses[sel.Sel].(*types.Var)
				if al, ok := allowed[v]; ok {
					n++
					if !al[fn.Decl.Name.Name] || fn.Decl.Recv == nil {
						bad = append(bad, fmt.Sprintf("%s: %s %s in %s", k.g.Pos(sel.Pos()), what, v.Name(), fn.Name()))
					}
				}
				return true
			})
		}
		ast.Inspect(fn.Decl.Body, func(m ast.Node) bool {
			switch s := m.(type) {
			case *ast.AssignStmt:
				for _, l := range s.Lhs {
					check(l, "store to")
				}
			case *ast.IncDecStmt:
				check(s.X, "update of")
			case *ast.UnaryExpr:
				if s.Op == token.AND {
					check(s.X, "address taken of")
				}
			}
			return true
		})
	}
	c.Check(len(bad) == 0, "S.writers", relJPEG+".Encoder.{hasReturnedError,numAddsRemaining}", "the typestate fields are written only by the analysed methods (hasReturnedError: Reset, AddN, addN; numAddsRemaining: Reset, addN) and never have their address taken", n, strings.Join(bad, "\n"))
	c.Floor("S.writers", "stores to the typestate fields", n, 16)
}

func uniq(s []string) []string {
	var out []string
	for i, v := range s {
		if i == 0 || v != s[i-1] {
			out = append(out, v)
		}
	}
	return out
}

// whichComponents reads the switch in addN that selects the component
// pattern and checks it (W.components).
func (x *c18) whichComponents(f *sfn) {
	c, k := x.c, x.k
	info := f.info
	anchor := f.name + "[switch ColorType(len(blocks))]"
	blocks := f.fl.Param(1)
	var sw *ast.SwitchStmt
	ast.Inspect(f.fl.F.Decl.Body, func(m ast.Node) bool {
		s, ok := m.(*ast.SwitchStmt)
		if !ok || s.Tag == nil || sw != nil {
			return true
		}
		// tag: ColorType(len(blocks))
		if call, ok := ast.Unparen(s.Tag).(*ast.CallExpr); ok && len(call.Args) == 1 {
			if tv, ok := info.Types[call.Fun]; ok && tv.IsType() {
				if lc, ok := ast.Unparen(call.Args[0]).(*ast.CallExpr); ok && len(lc.Args) == 1 {
					if id, ok := ast.Unparen(lc.Fun).(*ast.Ident); ok {
						if b, ok := info.Uses[id].(*types.Builtin); ok && b.Name() == "len" && f.fl.Is(blocks)(lc.Args[0]) {
							sw = s
						}
					}
				}
			}
		}
		return true
	})
	if sw == nil {
		c.Undecided("W.components", anchor, "addN selects the component pattern by switch ColorType(len(blocks))", "switch not found")
		return
	}
	var target types.Object
	var bad []string
	sites := 0
	dcLen, _ := arrayLen(x.fDC.Type())
	for _, cl := range sw.Body.List {
		cc := cl.(*ast.CaseClause)
		var str *string
		for _, s := range cc.Body {
			as, ok := s.(*ast.AssignStmt)
			if !ok || len(as.Lhs) != 1 || len(as.Rhs) != 1 {
				continue
			}
			if v := core.ConstVal(info, as.Rhs[0]); v != nil && v.Kind() == constant.String {
				sv := constant.StringVal(v)
				str = &sv
				o := f.fl.Obj(as.Lhs[0])
				if target != nil && o != target {
					bad = append(bad, k.g.Pos(as.Pos())+": cases assign different variables")
				}
				target = o
			}
		}
		for _, e := range cc.List {
			v, ok := core.ConstInt64(info, e)
			if !ok || str == nil {
				bad = append(bad, k.g.Pos(cc.Pos())+": case without a constant ColorType or a constant pattern string")
				continue
			}
			sites++
			s := *str
			x.wc[v] = s
			want := ""
			switch {
			case v == 1:
				want = "\x00"
			case v >= 3:
				want = strings.Repeat("\x00", int(v-2)) + "\x01\x02"
			}
			if int64(len(s)) != v {
				bad = append(bad, fmt.Sprintf("%s: ColorType %d (%s): pattern %q has length %d, want %d (one entry per block of the MCU)", k.g.Pos(cc.Pos()), v, core.Src(k.g.Fset, e), s, len(s), v))
			} else if s != want {
				bad = append(bad, fmt.Sprintf("%s: ColorType %d (%s): pattern %q is not Y…Y Cb Cr = %q", k.g.Pos(cc.Pos()), v, core.Src(k.g.Fset, e), s, want))
			}
			for _, ch := range []byte(s) {
				if int64(ch) >= dcLen {
					bad = append(bad, fmt.Sprintf("%s: component %d indexes e.prevDC, which has %d entries", k.g.Pos(cc.Pos()), ch, dcLen))
				}
			}
		}
	}
	if keysStr(x.wc) != keysStr(x.ctValues) {
		bad = append(bad, fmt.Sprintf("%s: cases cover ColorType values %s, the valid ones are %s (an uncovered length leaves the pattern empty and whichComponents[i] panics)", k.g.Pos(sw.Pos()), keysStr(x.wc), keysStr(x.ctValues)))
	}
	// The pattern indexed by the block index is what encodeBlock receives.
	encodeBlock := k.fn("W.components", relJPEG, "Encoder", "encodeBlock")
	used := false
	ast.Inspect(f.fl.F.Decl.Body, func(m ast.Node) bool {
		call, ok := m.(*ast.CallExpr)
		if !ok || encodeBlock == nil || !core.IsCallTo(info, call, encodeBlock) || len(call.Args) != 3 {
			return true
		}
		if ix, ok := ast.Unparen(call.Args[1]).(*ast.IndexExpr); ok && target != nil && f.fl.Obj(ix.X) == target {
			// &blocks[i] with the same i
			if ue, ok := ast.Unparen(call.Args[2]).(*ast.UnaryExpr); ok && ue.Op == token.AND {
				if bx, ok := ast.Unparen(ue.X).(*ast.IndexExpr); ok && f.fl.Is(blocks)(bx.X) && f.fl.Obj(bx.Index) != nil && f.fl.Obj(bx.Index) == f.fl.Obj(ix.Index) {
					used = true
				}
			}
		}
		return true
	})
	if !used {
		bad = append(bad, k.g.Pos(sw.Pos())+": encodeBlock is not called as encodeBlock(_, pattern[i], &blocks[i])")
	}
	c.Check(len(bad) == 0, "W.components", anchor, "for each valid ColorType the component pattern has one entry per block (length = the ColorType's numeric value), is Y…Y Cb Cr, indexes within e.prevDC, and pattern[i] is passed to encodeBlock together with &blocks[i]", sites, strings.Join(bad, "\n"))
	c.Floor("W.components", "ColorType cases with a pattern", sites, 3)
}
