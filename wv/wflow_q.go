package main

// Tier W path engine "Q": a small abstract interpreter over the type-checked
// Wuffs statement trees of one struct's methods. It answers typestate
// questions about ONE small integer field of `this` (for C08: the image
// decoders' `call_sequence : base.u8`):
//
//   for a method m and a concrete entry value v of the field, which
//   (returned status, exit value of the field) pairs can a call of m end with?
//
// The field is tracked concretely (its type is base.u8, so all 256 entry
// values are enumerated); status-typed local variables are tracked as one
// abstract "atom" each (an exact status literal, or an unknown error /
// suspension / note); every other condition is unknown and forks. Calls of
// methods of the same receiver are resolved through summaries computed the
// same way (Wuffs has no recursion); calls on any other receiver cannot touch
// the field and only contribute their possible non-ok statuses. Loops run to
// a fixpoint over the (finite) set of abstract states. Nothing is executed.
//
// Model of Wuffs control flow used here (confirmed against the C that cgen
// emits, see WUFFS_BASE__COROUTINE_SUSPENSION_POINT_MAYBE_SUSPEND):
//   * `f?(…)` as a statement or with `=`: a non-ok status of the callee
//     (error, note or suspension) leaves the caller with that status; after a
//     suspension the caller is re-entered AT the call and the callee resumes
//     inside, so the callee's later outcomes are those of its summary.
//   * `x =? f?(…)`: the status is captured, nothing propagates.
//   * `yield? x`: ok returns ok, an error/note returns it, a suspension
//     suspends and execution continues after the yield when resumed.
//   * `return x`, falling off the end (= ok).
// Assumption (stated in the C08 spec): between a suspension and its
// resumption nobody else writes the field.

import (
	"fmt"
	"math/big"
	"sort"
	"strings"

	a "github.com/google/wuffs/lang/ast"
	t "github.com/google/wuffs/lang/token"
)

// wqAtom is the abstract value of a status.
type wqAtom struct {
	text   string  // "ok", `base.#bad call sequence`, `#bad header`, or the unknowns "#?", "$?", "@?"
	origin *a.Node // the `=?` statement that captured it from a method of this (for the resume check)
}

var wqOK = wqAtom{text: "ok"}

func wqUnknownAtoms() []wqAtom {
	return []wqAtom{wqOK, {text: "#?"}, {text: "$?"}, {text: "@?"}}
}

func (x wqAtom) unknown() bool { return len(x.text) == 2 && x.text[1] == '?' }

// sigil is '#', '$', '@' or 0 for ok.
func (x wqAtom) sigil() byte {
	if x.text == "ok" {
		return 0
	}
	if i := strings.IndexAny(x.text, "#$@"); i >= 0 {
		return x.text[i]
	}
	return '#'
}

const (
	wqTextBCS = "base.#bad call sequence"
	wqTextEOD = "base.@end of data"
)

// class maps an atom to the outcome class used by rule tables.
func (x wqAtom) class() string {
	switch {
	case x.text == "ok":
		return "ok"
	case x.text == wqTextBCS:
		return "bcs"
	case x.text == wqTextEOD:
		return "eod"
	}
	switch x.sigil() {
	case '$':
		return "susp"
	case '@':
		if x.unknown() {
			return "note:?"
		}
		return "note:" + x.text
	}
	return "err"
}

// wqOut is one way a call can end.
type wqOut struct {
	class string // ok | bcs | eod | susp | err | note:<text> | val:<n> | val:?
	exit  int    // value of the field when the call ends this way
	io    bool   // some I/O or sub-object call happened before
}

type wqState struct {
	cs      int
	io      bool
	mustErr bool          // a captured suspension was replaced by an error: the method has to end with an error
	resume  *a.Node       // non-nil: between yielding a captured suspension and re-entering the suspended callee
	facts   map[t.ID]bool // known values of bool fields of this (only refined inside public methods)
	env     map[t.ID]wqAtom
}

func (s wqState) key() string {
	var b strings.Builder
	fmt.Fprintf(&b, "%d|%v|%v|%p", s.cs, s.io, s.mustErr, s.resume)
	ids := make([]int, 0, len(s.env))
	for id := range s.env {
		ids = append(ids, int(id))
	}
	sort.Ints(ids)
	for _, id := range ids {
		x := s.env[t.ID(id)]
		fmt.Fprintf(&b, "|%d=%s@%p", id, x.text, x.origin)
	}
	ids = ids[:0]
	for id := range s.facts {
		ids = append(ids, int(id))
	}
	sort.Ints(ids)
	for _, id := range ids {
		fmt.Fprintf(&b, "|f%d=%v", id, s.facts[t.ID(id)])
	}
	return b.String()
}

func (s wqState) with(id t.ID, x wqAtom) wqState {
	env := make(map[t.ID]wqAtom, len(s.env)+1)
	for k, v := range s.env {
		env[k] = v
	}
	env[id] = x
	s.env = env
	return s
}

// withFact sets (known=true) or forgets (known=false) the value of a bool field of this.
func (s wqState) withFact(id t.ID, known, val bool) wqState {
	if _, has := s.facts[id]; !has && !known {
		return s
	}
	facts := make(map[t.ID]bool, len(s.facts)+1)
	for k, v := range s.facts {
		facts[k] = v
	}
	if known {
		facts[id] = val
	} else {
		delete(facts, id)
	}
	s.facts = facts
	return s
}

func (s wqState) forget(w map[t.ID]bool) wqState {
	for id := range w {
		s = s.withFact(id, false, false)
	}
	return s
}

type wqSet map[string]wqState

func (S wqSet) add(s wqState) bool {
	k := s.key()
	if _, ok := S[k]; ok {
		return false
	}
	S[k] = s
	return true
}
func (S wqSet) addAll(o wqSet) {
	for k, s := range o {
		S[k] = s
	}
}
func (S wqSet) sorted() []wqState {
	keys := make([]string, 0, len(S))
	for k := range S {
		keys = append(keys, k)
	}
	sort.Strings(keys)
	out := make([]wqState, 0, len(S))
	for _, k := range keys {
		out = append(out, S[k])
	}
	return out
}

// wqAn analyses the methods of one struct with respect to one field.
type wqAn struct {
	p        *WPkg
	recv     t.ID
	field    t.ID
	funcs    map[t.ID]*a.Func
	alts     map[t.ID][]t.ID // choosy function -> alternatives named in `choose` statements
	relevant map[t.ID]bool
	memo     map[t.ID]map[int]map[wqOut]bool
	generic  map[t.ID]map[wqOut]bool
	inprog   map[t.ID]bool
	undec    map[string]bool
	undecBy  map[t.ID][]string              // per method of this: engine messages (deduplicated)
	guards   map[*a.Node]bool               // conditions that read the field
	updates  map[*a.Node]bool               // assignments to the field
	trans    map[[2]int]map[t.ID]bool       // (old value, new value) of every assignment met on an analysed path -> methods
	wr       map[t.ID]map[int]map[t.ID]bool // method, entry value -> fields of this assigned on some analysed path (callees included)
	wrGen    map[t.ID]map[t.ID]bool         // the same for methods that never touch the tracked field
	steps    int
}

const wqMaxSteps = 40_000_000

func newWqAn(p *WPkg, recv t.ID, fieldName string) *wqAn {
	an := &wqAn{p: p, recv: recv, funcs: map[t.ID]*a.Func{}, alts: map[t.ID][]t.ID{}, relevant: map[t.ID]bool{},
		memo: map[t.ID]map[int]map[wqOut]bool{}, generic: map[t.ID]map[wqOut]bool{}, inprog: map[t.ID]bool{},
		undec: map[string]bool{}, undecBy: map[t.ID][]string{}, guards: map[*a.Node]bool{}, updates: map[*a.Node]bool{}, trans: map[[2]int]map[t.ID]bool{},
		wr: map[t.ID]map[int]map[t.ID]bool{}, wrGen: map[t.ID]map[t.ID]bool{}}
	an.field = p.TM.ByName(fieldName)
	for _, f := range p.Funcs {
		if f.Receiver()[0] == 0 && f.Receiver()[1] == recv {
			an.funcs[f.FuncName()] = f
		}
	}
	// `choose x = [alt1, alt2]`
	for _, f := range an.funcs {
		wqWalkStmts(f.Body(), func(n *a.Node) {
			if n.Kind() == a.KChoose {
				ch := n.AsChoose()
				for _, o := range ch.Args() {
					if o.Kind() == a.KExpr {
						an.alts[ch.Name()] = append(an.alts[ch.Name()], o.AsExpr().Ident())
					}
				}
			}
		})
	}
	// relevance: reads/writes the field, or calls (or may dispatch to) a relevant method of this. Fixpoint.
	direct := map[t.ID]bool{}
	calls := map[t.ID]map[t.ID]bool{}
	for id, f := range an.funcs {
		calls[id] = map[t.ID]bool{}
		for _, alt := range an.alts[id] {
			calls[id][alt] = true
		}
		wqWalkExprs(f.Body(), func(e *a.Expr) {
			if e.IsThisDotFoo() == an.field && an.field != 0 {
				direct[id] = true
			}
			if m := an.thisCallee(e); m != 0 {
				calls[id][m] = true
			}
		})
	}
	for id := range direct {
		an.relevant[id] = true
	}
	for ch := true; ch; {
		ch = false
		for id := range an.funcs {
			if an.relevant[id] {
				continue
			}
			for m := range calls[id] {
				if an.relevant[m] {
					an.relevant[id] = true
					ch = true
					break
				}
			}
		}
	}
	return an
}

func (an *wqAn) undecided(f *a.Func, format string, args ...interface{}) {
	where := ""
	if f != nil {
		where = fmt.Sprintf("%s.%s.%s: ", an.p.Name, an.p.str(an.recv), an.p.str(f.FuncName()))
	}
	msg := fmt.Sprintf(format, args...)
	if !an.undec[where+msg] {
		an.undec[where+msg] = true
		if f != nil {
			an.undecBy[f.FuncName()] = append(an.undecBy[f.FuncName()], msg)
		}
	}
}

func (an *wqAn) undecidedList() []string {
	var out []string
	for s := range an.undec {
		out = append(out, s)
	}
	sort.Strings(out)
	return out
}

// thisCallee: e is `this.m(…)` (any effect) → m.
func (an *wqAn) thisCallee(e *a.Expr) t.ID {
	if e == nil || e.Operator() != a.ExprOperatorCall {
		return 0
	}
	recv, meth, _, ok := e.IsMethodCall()
	if !ok || recv == nil || recv.Operator() != 0 || recv.Ident() != t.IDThis {
		return 0
	}
	return meth
}

func wqWalkStmts(list []*a.Node, fn func(*a.Node)) {
	for _, n := range list {
		fn(n)
		switch n.Kind() {
		case a.KIf:
			for i := n.AsIf(); i != nil; i = i.ElseIf() {
				wqWalkStmts(i.BodyIfTrue(), fn)
				wqWalkStmts(i.BodyIfFalse(), fn)
			}
		case a.KWhile:
			wqWalkStmts(n.AsWhile().Body(), fn)
		case a.KIOManip:
			wqWalkStmts(n.AsIOManip().Body(), fn)
		case a.KIterate:
			for i := n.AsIterate(); i != nil; i = i.ElseIterate() {
				wqWalkStmts(i.Body(), fn)
			}
		}
	}
}

func wqWalkExpr(e *a.Expr, fn func(*a.Expr)) {
	if e == nil {
		return
	}
	fn(e)
	for _, o := range e.AsNode().AsRaw().SubNodes() {
		if o != nil && o.Kind() == a.KExpr {
			wqWalkExpr(o.AsExpr(), fn)
		}
	}
	for _, o := range e.Args() {
		switch o.Kind() {
		case a.KArg:
			wqWalkExpr(o.AsArg().Value(), fn)
		case a.KExpr:
			wqWalkExpr(o.AsExpr(), fn)
		}
	}
}

// wqWalkExprs visits every expression of every statement (conditions, both sides of assignments, values).
func wqWalkExprs(list []*a.Node, fn func(*a.Expr)) {
	wqWalkStmts(list, func(n *a.Node) {
		switch n.Kind() {
		case a.KAssign:
			wqWalkExpr(n.AsAssign().LHS(), fn)
			wqWalkExpr(n.AsAssign().RHS(), fn)
		case a.KExpr:
			wqWalkExpr(n.AsExpr(), fn)
		case a.KIf:
			for i := n.AsIf(); i != nil; i = i.ElseIf() {
				wqWalkExpr(i.Condition(), fn)
			}
		case a.KWhile:
			wqWalkExpr(n.AsWhile().Condition(), fn)
		case a.KRet:
			wqWalkExpr(n.AsRet().Value(), fn)
		case a.KIOManip:
			wqWalkExpr(n.AsIOManip().IO(), fn)
			wqWalkExpr(n.AsIOManip().Arg1(), fn)
			wqWalkExpr(n.AsIOManip().HistoryPosition(), fn)
		}
	})
}

// mentionsField: the expression reads the field, directly or through a relevant method of this.
func (an *wqAn) mentionsField(e *a.Expr) bool {
	found := false
	wqWalkExpr(e, func(x *a.Expr) {
		if x.IsThisDotFoo() == an.field {
			found = true
		}
		if m := an.thisCallee(x); m != 0 && an.relevant[m] {
			found = true
		}
	})
	return found
}

// outcomes of calling method id with the field == v.
func (an *wqAn) outcomes(id t.ID, v int) map[wqOut]bool {
	ids := append([]t.ID{id}, an.alts[id]...)
	if len(ids) == 1 {
		return an.outcomes1(id, v)
	}
	out := map[wqOut]bool{}
	for _, x := range ids {
		for o := range an.outcomes1(x, v) {
			out[o] = true
		}
	}
	return out
}

// writesOf: fields of this that a call of method id with the field == v may assign. Call outcomes(id, v) first.
func (an *wqAn) writesOf(id t.ID, v int) map[t.ID]bool {
	out := map[t.ID]bool{}
	for _, x := range append([]t.ID{id}, an.alts[id]...) {
		for k := range an.wrGen[x] {
			out[k] = true
		}
		for k := range an.wr[x][v] {
			out[k] = true
		}
	}
	return out
}

func (an *wqAn) outcomes1(id t.ID, v int) map[wqOut]bool {
	f := an.funcs[id]
	if f == nil {
		an.undecided(nil, "method %s of this is not declared in the package", an.p.str(id))
		return map[wqOut]bool{}
	}
	if an.inprog[id] {
		an.undecided(f, "recursive call")
		return map[wqOut]bool{}
	}
	if !an.relevant[id] {
		g, ok := an.generic[id]
		if !ok {
			an.inprog[id] = true
			g, an.wrGen[id] = an.run(f, 0)
			an.inprog[id] = false
			an.generic[id] = g
		}
		out := make(map[wqOut]bool, len(g))
		for o := range g {
			o.exit = v
			out[o] = true
		}
		return out
	}
	if an.memo[id] == nil {
		an.memo[id] = map[int]map[wqOut]bool{}
	}
	if m, ok := an.memo[id][v]; ok {
		return m
	}
	an.inprog[id] = true
	m, w := an.run(f, v)
	an.inprog[id] = false
	an.memo[id][v] = m
	if an.wr[id] == nil {
		an.wr[id] = map[int]map[t.ID]bool{}
	}
	an.wr[id][v] = w
	return m
}

type wqRun struct {
	an     *wqAn
	f      *a.Func
	track  bool // refine facts about bool fields of this (public methods only: keeps the state space of the big private bodies small)
	writes map[t.ID]bool
	outs   map[wqOut]bool
	brk    map[a.Loop]wqSet
	cnt    map[a.Loop]wqSet
}

func (an *wqAn) run(f *a.Func, v int) (map[wqOut]bool, map[t.ID]bool) {
	r := &wqRun{an: an, f: f, track: f.Public(), writes: map[t.ID]bool{}, outs: map[wqOut]bool{}, brk: map[a.Loop]wqSet{}, cnt: map[a.Loop]wqSet{}}
	S := wqSet{}
	S.add(wqState{cs: v})
	end := r.exec(f.Body(), S)
	for _, s := range end.sorted() {
		if f.Out() != nil && !f.Out().IsStatus() {
			// the compiler requires a return; reaching here means the model lost a terminating loop
			r.emit(s, "val:?")
			continue
		}
		r.ret(s, wqOK, false)
	}
	return r.outs, r.writes
}

func (r *wqRun) emit(s wqState, class string) {
	if s.resume != nil {
		r.an.undecided(r.f, "after yielding a suspension captured with `=?` the method can end before it re-enters the suspended callee")
		return
	}
	r.outs[wqOut{class: class, exit: s.cs, io: s.io}] = true
}

// ret ends (or, for a yielded suspension, continues) a path. It returns true when the path continues.
func (r *wqRun) ret(s wqState, x wqAtom, yield bool) (cont bool, next wqState) {
	if s.resume != nil {
		r.an.undecided(r.f, "after yielding a suspension captured with `=?` the method returns/yields before it re-enters the suspended callee")
		return false, s
	}
	cl := x.class()
	// a captured suspension of a callee must be yielded, or the call must end in an error (which disables the object)
	if cl != "err" && cl != "bcs" {
		if s.mustErr {
			r.an.undecided(r.f, "a captured suspension of a method of this was replaced by an error, but the method can end without returning an error: the callee would later resume in the middle")
		}
		for id, y := range s.env {
			if y.origin != nil && y.class() == "susp" && !(yield && y == x) {
				r.an.undecided(r.f, "the suspension captured in %q from a method of this is dropped: the callee would later resume in the middle", r.an.p.str(id))
			}
		}
	}
	r.outs[wqOut{class: cl, exit: s.cs, io: s.io}] = true
	if yield && cl == "susp" {
		if x.origin != nil {
			s.resume = x.origin
		}
		return true, s
	}
	return false, s
}

func (r *wqRun) exec(list []*a.Node, S wqSet) wqSet {
	for _, n := range list {
		if len(S) == 0 {
			return S
		}
		r.an.steps += len(S)
		if r.an.steps > wqMaxSteps {
			r.an.undecided(r.f, "analysis budget exceeded")
			return wqSet{}
		}
		S = r.stmt(n, S)
	}
	return S
}

func (r *wqRun) stmt(n *a.Node, S wqSet) wqSet {
	an := r.an
	switch n.Kind() {
	case a.KVar:
		v := n.AsVar()
		if v.XType().IsStatus() {
			out := wqSet{}
			for _, s := range S.sorted() {
				out.add(s.with(v.Name(), wqOK))
			}
			return out
		}
		return S
	case a.KAssign:
		return r.assign(n, S)
	case a.KExpr:
		e := n.AsExpr()
		if e.Operator() == a.ExprOperatorCall {
			return r.call(n, e, 0, t.IDEq, S)
		}
		return S
	case a.KIf:
		return r.ifStmt(n.AsIf(), S)
	case a.KWhile:
		w := n.AsWhile()
		if an.mentionsField(w.Condition()) {
			an.guards[n] = true
		}
		return r.loop(w, w.Condition(), w.Body(), S)
	case a.KIterate:
		out := S
		for it := n.AsIterate(); it != nil; it = it.ElseIterate() {
			out = r.loop(it, nil, it.Body(), out)
		}
		return out
	case a.KIOManip:
		return r.exec(n.AsIOManip().Body(), S)
	case a.KJump:
		j := n.AsJump()
		m := r.cnt
		if j.Keyword() == t.IDBreak {
			m = r.brk
		}
		if m[j.JumpTarget()] == nil {
			m[j.JumpTarget()] = wqSet{}
		}
		m[j.JumpTarget()].addAll(S)
		return wqSet{}
	case a.KRet:
		ret := n.AsRet()
		yield := ret.Keyword() == t.IDYield
		out := wqSet{}
		for _, s := range S.sorted() {
			if r.f.Out() != nil && !r.f.Out().IsStatus() {
				cl := "val:?"
				if v, ok := r.evalInt(ret.Value(), s); ok {
					cl = "val:" + v.String()
				} else if an.mentionsField(ret.Value()) {
					an.undecided(r.f, "returned value depends on the field in a way that is not evaluated")
				}
				r.emit(s, cl)
				continue
			}
			for _, x := range r.atomsOf(ret.Value(), s) {
				if cont, next := r.ret(s, x, yield); cont {
					out.add(next)
				}
			}
		}
		return out
	case a.KAssert, a.KChoose:
		return S
	}
	an.undecided(r.f, "statement kind %v is not modelled", n.Kind())
	return S
}

func (r *wqRun) ifStmt(n *a.If, S wqSet) wqSet {
	if r.an.mentionsField(n.Condition()) {
		r.an.guards[n.AsNode()] = true
	}
	T, F := r.split(n.Condition(), S)
	out := r.exec(n.BodyIfTrue(), T)
	if ei := n.ElseIf(); ei != nil {
		out.addAll(r.ifStmt(ei, F))
	} else {
		out.addAll(r.exec(n.BodyIfFalse(), F))
	}
	return out
}

// loop: cond == nil means "unknown number of iterations" (iterate).
func (r *wqRun) loop(l a.Loop, cond *a.Expr, body []*a.Node, S wqSet) wqSet {
	seen := wqSet{}
	exit := wqSet{}
	r.brk[l] = wqSet{}
	r.cnt[l] = wqSet{}
	work := S
	for len(work) > 0 {
		fresh := wqSet{}
		for k, s := range work {
			if _, ok := seen[k]; !ok {
				seen[k] = s
				fresh[k] = s
			}
		}
		if len(fresh) == 0 {
			break
		}
		var T, F wqSet
		if cond != nil {
			T, F = r.split(cond, fresh)
		} else {
			T, F = fresh, fresh
		}
		exit.addAll(F)
		out := r.exec(body, T)
		out.addAll(r.cnt[l])
		r.cnt[l] = wqSet{}
		work = out
	}
	exit.addAll(r.brk[l])
	return exit
}

func (r *wqRun) split(cond *a.Expr, S wqSet) (T, F wqSet) {
	T, F = wqSet{}, wqSet{}
	// a bare `this.f` / `not this.f` on a bool field: remember which way the path went
	if fld, neg := wqBoolField(cond); fld != 0 && r.track {
		for k, s := range S {
			if v, ok := s.facts[fld]; ok {
				if v != neg {
					T[k] = s
				} else {
					F[k] = s
				}
				continue
			}
			T.add(s.withFact(fld, true, !neg))
			F.add(s.withFact(fld, true, neg))
		}
		return
	}
	for k, s := range S {
		switch r.evalTri(cond, s) {
		case 1:
			T[k] = s
		case 0:
			F[k] = s
		default:
			T[k] = s
			F[k] = s
		}
	}
	return
}

// wqBoolField: e is `this.f` or `not this.f` with f a bool field.
func wqBoolField(e *a.Expr) (fld t.ID, neg bool) {
	if e == nil {
		return 0, false
	}
	if e.Operator() == t.IDXUnaryNot {
		e, neg = e.RHS().AsExpr(), true
	}
	if f := e.IsThisDotFoo(); f != 0 && e.MType() != nil && e.MType().IsBool() {
		return f, neg
	}
	return 0, false
}

// evalTri: 1 true, 0 false, -1 unknown.
func (r *wqRun) evalTri(e *a.Expr, s wqState) int {
	if e == nil {
		return -1
	}
	if f := e.IsThisDotFoo(); f != 0 {
		if v, ok := s.facts[f]; ok {
			if v {
				return 1
			}
			return 0
		}
	}
	if cv := e.ConstValue(); cv != nil && e.MType() != nil && e.MType().IsBool() {
		if cv.Sign() != 0 {
			return 1
		}
		return 0
	}
	switch op := e.Operator(); op {
	case t.IDXUnaryNot:
		switch r.evalTri(e.RHS().AsExpr(), s) {
		case 1:
			return 0
		case 0:
			return 1
		}
		return -1
	case t.IDXBinaryAnd, t.IDXBinaryOr, t.IDXAssociativeAnd, t.IDXAssociativeOr:
		var ops []*a.Expr
		if op == t.IDXBinaryAnd || op == t.IDXBinaryOr {
			ops = []*a.Expr{e.LHS().AsExpr(), e.RHS().AsExpr()}
		} else {
			for _, o := range e.Args() {
				ops = append(ops, o.AsExpr())
			}
		}
		isAnd := op == t.IDXBinaryAnd || op == t.IDXAssociativeAnd
		res := 1
		if !isAnd {
			res = 0
		}
		for _, o := range ops {
			v := r.evalTri(o, s)
			if isAnd {
				if v == 0 {
					return 0
				}
				if v < 0 {
					res = -1
				}
			} else {
				if v == 1 {
					return 1
				}
				if v < 0 {
					res = -1
				}
			}
		}
		return res
	case t.IDXBinaryEqEq, t.IDXBinaryNotEq, t.IDXBinaryLessThan, t.IDXBinaryLessEq, t.IDXBinaryGreaterEq, t.IDXBinaryGreaterThan:
		l, r0 := e.LHS().AsExpr(), e.RHS().AsExpr()
		if lv, ok := r.evalInt(l, s); ok {
			if rv, ok := r.evalInt(r0, s); ok {
				c := lv.Cmp(rv)
				var b bool
				switch op {
				case t.IDXBinaryEqEq:
					b = c == 0
				case t.IDXBinaryNotEq:
					b = c != 0
				case t.IDXBinaryLessThan:
					b = c < 0
				case t.IDXBinaryLessEq:
					b = c <= 0
				case t.IDXBinaryGreaterEq:
					b = c >= 0
				case t.IDXBinaryGreaterThan:
					b = c > 0
				}
				if b {
					return 1
				}
				return 0
			}
		}
		if (op == t.IDXBinaryEqEq || op == t.IDXBinaryNotEq) && l.MType() != nil && l.MType().IsStatus() {
			la, lok := r.atomOfSimple(l, s)
			ra, rok := r.atomOfSimple(r0, s)
			if lok && rok {
				eq := -1
				if !la.unknown() && !ra.unknown() {
					eq = 0
					if la.text == ra.text {
						eq = 1
					}
				} else if la.sigil() != ra.sigil() {
					eq = 0
				}
				if eq >= 0 && op == t.IDXBinaryNotEq {
					eq = 1 - eq
				}
				return eq
			}
			return -1
		}
	case a.ExprOperatorCall:
		// status.is_ok() and friends on a tracked status local
		if recv, meth, _, ok := e.IsMethodCall(); ok && recv != nil && recv.MType() != nil && recv.MType().IsStatus() {
			if x, ok := r.atomOfSimple(recv, s); ok {
				b := false
				switch r.an.p.str(meth) {
				case "is_ok":
					b = x.sigil() == 0
				case "is_error":
					b = x.sigil() == '#'
				case "is_suspension":
					b = x.sigil() == '$'
				case "is_note":
					b = x.sigil() == '@'
				case "is_complete":
					b = x.sigil() == 0 || x.sigil() == '@'
				default:
					return -1
				}
				if b {
					return 1
				}
				return 0
			}
			return -1
		}
	}
	if r.an.mentionsField(e) {
		r.an.undecided(r.f, "a condition reads the field in a shape that is not evaluated")
	}
	return -1
}

// evalInt evaluates constant expressions over the field.
func (r *wqRun) evalInt(e *a.Expr, s wqState) (*big.Int, bool) {
	if e == nil {
		return nil, false
	}
	if cv := e.ConstValue(); cv != nil {
		return cv, true
	}
	if e.IsThisDotFoo() == r.an.field && r.an.field != 0 {
		return big.NewInt(int64(s.cs)), true
	}
	op := e.Operator()
	bin := func(op t.ID, x, y *big.Int) (*big.Int, bool) {
		z := new(big.Int)
		switch op {
		case t.IDXBinaryAmp, t.IDXAssociativeAmp:
			return z.And(x, y), true
		case t.IDXBinaryPipe, t.IDXAssociativePipe:
			return z.Or(x, y), true
		case t.IDXBinaryHat, t.IDXAssociativeHat:
			return z.Xor(x, y), true
		case t.IDXBinaryPlus, t.IDXAssociativePlus:
			return z.Add(x, y), true
		case t.IDXBinaryMinus:
			return z.Sub(x, y), true
		case t.IDXBinaryStar, t.IDXAssociativeStar:
			return z.Mul(x, y), true
		case t.IDXBinaryShiftL:
			if y.Sign() >= 0 && y.BitLen() <= 6 {
				return z.Lsh(x, uint(y.Int64())), true
			}
		case t.IDXBinaryShiftR:
			if y.Sign() >= 0 && y.BitLen() <= 6 {
				return z.Rsh(x, uint(y.Int64())), true
			}
		}
		return nil, false
	}
	switch op {
	case t.IDXBinaryAs:
		return r.evalInt(e.LHS().AsExpr(), s)
	case t.IDXBinaryAmp, t.IDXBinaryPipe, t.IDXBinaryHat, t.IDXBinaryPlus, t.IDXBinaryMinus, t.IDXBinaryStar, t.IDXBinaryShiftL, t.IDXBinaryShiftR:
		x, ok1 := r.evalInt(e.LHS().AsExpr(), s)
		y, ok2 := r.evalInt(e.RHS().AsExpr(), s)
		if ok1 && ok2 {
			return bin(op, x, y)
		}
	case t.IDXAssociativeAmp, t.IDXAssociativePipe, t.IDXAssociativeHat, t.IDXAssociativePlus, t.IDXAssociativeStar:
		var acc *big.Int
		for _, o := range e.Args() {
			v, ok := r.evalInt(o.AsExpr(), s)
			if !ok {
				return nil, false
			}
			if acc == nil {
				acc = v
				continue
			}
			if acc, ok = bin(op, acc, v); !ok {
				return nil, false
			}
		}
		return acc, acc != nil
	}
	return nil, false
}

// statusLiteral: `"#x"` or `pkg."#x"` or `ok`.
func (r *wqRun) statusLiteral(e *a.Expr) (wqAtom, bool) {
	tm := r.an.p.TM
	if e.Operator() == 0 {
		if e.Ident() == t.IDOk {
			return wqOK, true
		}
		if e.Ident().IsDQStrLiteral(tm) {
			return wqAtom{text: strings.Trim(e.Ident().Str(tm), `"`)}, true
		}
	}
	if lhs, sel, ok := e.IsSelector(); ok && lhs != nil && lhs.Operator() == 0 && sel.IsDQStrLiteral(tm) {
		return wqAtom{text: lhs.Ident().Str(tm) + "." + strings.Trim(sel.Str(tm), `"`)}, true
	}
	return wqAtom{}, false
}

// atomOfSimple: a literal or a tracked status local.
func (r *wqRun) atomOfSimple(e *a.Expr, s wqState) (wqAtom, bool) {
	if x, ok := r.statusLiteral(e); ok {
		return x, true
	}
	if e.Operator() == 0 {
		if x, ok := s.env[e.Ident()]; ok {
			return x, true
		}
	}
	return wqAtom{}, false
}

func (r *wqRun) atomsOf(e *a.Expr, s wqState) []wqAtom {
	if e == nil {
		return []wqAtom{wqOK}
	}
	if x, ok := r.atomOfSimple(e, s); ok {
		return []wqAtom{x}
	}
	return wqUnknownAtoms()
}

// wqThisRoot: the field f when e is `this.f`, `this.f[i]`, `this.f.g`, `this.f[i .. j]`, …; else 0.
func wqThisRoot(e *a.Expr) t.ID {
	for e != nil {
		if f := e.IsThisDotFoo(); f != 0 {
			return f
		}
		switch e.Operator() {
		case a.ExprOperatorIndex, a.ExprOperatorSlice, a.ExprOperatorSelector:
			e = e.LHS().AsExpr()
		default:
			return 0
		}
	}
	return 0
}

func isStatusLocal(e *a.Expr) bool {
	return e != nil && e.Operator() == 0 && e.MType() != nil && e.MType().IsStatus()
}

func (r *wqRun) assign(n *a.Node, S wqSet) wqSet {
	an := r.an
	as := n.AsAssign()
	lhs, rhs, op := as.LHS(), as.RHS(), as.Operator()
	if lhs != nil && lhs.IsThisDotFoo() == an.field && an.field != 0 {
		an.updates[n] = true
		out := wqSet{}
		for _, s := range S.sorted() {
			if s.resume != nil {
				an.undecided(r.f, "the field is written between yielding a captured suspension and re-entering the callee")
				continue
			}
			v, ok := r.evalInt(rhs, s)
			if ok && op != t.IDEq {
				bf := op.BinaryForm()
				switch bf {
				case t.IDXBinaryAmp:
					v = new(big.Int).And(big.NewInt(int64(s.cs)), v)
				case t.IDXBinaryPipe:
					v = new(big.Int).Or(big.NewInt(int64(s.cs)), v)
				case t.IDXBinaryHat:
					v = new(big.Int).Xor(big.NewInt(int64(s.cs)), v)
				case t.IDXBinaryPlus:
					v = new(big.Int).Add(big.NewInt(int64(s.cs)), v)
				case t.IDXBinaryMinus:
					v = new(big.Int).Sub(big.NewInt(int64(s.cs)), v)
				default:
					ok = false
				}
			}
			if !ok || v.Sign() < 0 || v.Cmp(big.NewInt(255)) > 0 {
				an.undecided(r.f, "an assignment to the field has a right-hand side that is not a constant expression over the field")
				continue
			}
			tr := [2]int{s.cs, int(v.Int64())}
			if an.trans[tr] == nil {
				an.trans[tr] = map[t.ID]bool{}
			}
			an.trans[tr][r.f.FuncName()] = true
			s.cs = int(v.Int64())
			out.add(s)
		}
		return out
	}
	if root := wqThisRoot(lhs); root != 0 {
		r.writes[root] = true
		out := wqSet{}
		direct := lhs.IsThisDotFoo() == root
		for _, s := range S.sorted() {
			if cv := rhs.ConstValue(); direct && r.track && op == t.IDEq && cv != nil && rhs.MType() != nil && rhs.MType().IsBool() {
				out.add(s.withFact(root, true, cv.Sign() != 0))
			} else {
				out.add(s.withFact(root, false, false))
			}
		}
		S = out
	}
	if rhs != nil && rhs.Operator() == a.ExprOperatorCall {
		dest := t.ID(0)
		if isStatusLocal(lhs) {
			dest = lhs.Ident()
		}
		return r.call(n, rhs, dest, op, S)
	}
	if isStatusLocal(lhs) && (op == t.IDEq || op == t.IDEqQuestion) {
		out := wqSet{}
		for _, s := range S.sorted() {
			for _, x := range r.atomsOf(rhs, s) {
				x.origin = nil
				out.add(r.overwrite(s, lhs.Ident(), x))
			}
		}
		return out
	}
	return S
}

// overwrite assigns x to the status local id. Replacing a captured suspension of a
// method of this is only understood when the new value is an error (the method then
// has to end with an error, which disables the object).
func (r *wqRun) overwrite(s wqState, id t.ID, x wqAtom) wqState {
	if y, ok := s.env[id]; ok && y.origin != nil && y.class() == "susp" && s.resume == nil {
		if c := x.class(); c == "err" || c == "bcs" {
			s.mustErr = true
		} else {
			r.an.undecided(r.f, "the suspension captured in %q from a method of this is overwritten before being yielded", r.an.p.str(id))
		}
	}
	return s.with(id, x)
}

// call models one call statement. dest != 0: the status local that receives the result.
func (r *wqRun) call(stmt *a.Node, e *a.Expr, dest t.ID, op t.ID, S wqSet) wqSet {
	an := r.an
	out := wqSet{}
	callee := an.thisCallee(e)
	eff := e.Effect()
	if callee != 0 {
		cf := an.funcs[callee]
		for _, s := range S.sorted() {
			if s.resume != nil {
				if stmt == s.resume {
					continue // re-entered the suspended callee: its later outcomes are in its summary
				}
				an.undecided(r.f, "after yielding a captured suspension another method of this is called before the suspended callee is re-entered")
				continue
			}
			outs := an.outcomes(callee, s.cs)
			w := an.writesOf(callee, s.cs)
			for k := range w {
				r.writes[k] = true
			}
			for o := range outs {
				ns := s.forget(w)
				ns.cs = o.exit
				ns.io = s.io || o.io
				x := wqAtomOfClass(o.class)
				isVal := strings.HasPrefix(o.class, "val:")
				switch {
				case isVal:
					out.add(ns)
				case op == t.IDEqQuestion || !eff.Coroutine():
					// status captured (or a non-coroutine: whatever it returns is just a value)
					if dest == 0 {
						if cf != nil && cf.Out() != nil && cf.Out().IsStatus() && stmt.Kind() == a.KExpr {
							// a status-returning call used as a statement is rejected by the compiler; keep going
						}
						out.add(ns)
						continue
					}
					if op == t.IDEqQuestion && o.class == "susp" && an.relevant[callee] {
						x.origin = stmt
					}
					out.add(r.overwrite(ns, dest, x))
				case o.class == "ok":
					if dest != 0 {
						ns = ns.with(dest, wqOK)
					}
					out.add(ns)
				default:
					// propagates out of the caller; a suspension re-enters at this call
					r.outs[wqOut{class: o.class, exit: o.exit, io: ns.io}] = true
				}
			}
		}
		return out
	}
	// a call on another receiver (I/O token, sub-object, argument): cannot touch the field of this.
	recv, _, _, _ := e.IsMethodCall()
	ioRecv := recv != nil && recv.MType() != nil && recv.MType().IsIOTokenType()
	for _, s := range S.sorted() {
		if s.resume != nil && !eff.Pure() {
			an.undecided(r.f, "after yielding a captured suspension an impure call happens before the suspended callee is re-entered")
			continue
		}
		ns := s
		if eff.Coroutine() || (ioRecv && eff.Impure()) {
			ns.io = true
		}
		switch {
		case eff.Coroutine() && op != t.IDEqQuestion:
			r.outs[wqOut{class: "susp", exit: s.cs, io: true}] = true
			if !ioRecv {
				r.outs[wqOut{class: "err", exit: s.cs, io: true}] = true
				r.outs[wqOut{class: "note:?", exit: s.cs, io: true}] = true
			}
			if dest != 0 {
				ns = ns.with(dest, wqOK)
			}
			out.add(ns)
		case dest != 0:
			for _, x := range wqUnknownAtoms() {
				out.add(r.overwrite(ns, dest, x))
			}
		default:
			out.add(ns)
		}
	}
	return out
}

// wqAtomOfClass rebuilds an atom from an outcome class (exact texts survive in note:<text>, bcs, eod).
func wqAtomOfClass(class string) wqAtom {
	switch class {
	case "ok":
		return wqOK
	case "bcs":
		return wqAtom{text: wqTextBCS}
	case "eod":
		return wqAtom{text: wqTextEOD}
	case "susp":
		return wqAtom{text: "$?"}
	case "err":
		return wqAtom{text: "#?"}
	case "note:?":
		return wqAtom{text: "@?"}
	}
	if strings.HasPrefix(class, "note:") {
		return wqAtom{text: strings.TrimPrefix(class, "note:")}
	}
	return wqAtom{text: "#?"}
}
