package main

// C13, rule P.pad.all: ChunkWriter.padToPageSize reports success only after the
// WHOLE padding was written. The zero buffer is capped (4096 bytes) while the
// page size is configurable, and ChunkWriter.Close computes the index and data
// offsets as roundUp(dataSize, CPageSize): a success return after a single
// Write of a shorter buffer leaves fewer bytes in the file than every recorded
// offset assumes, so Close returns nil for a file that cannot be read back
// (independently seeded change C13-6 replaced the loop by one Write).
// Rule: every path from an underlying Write to `return nil` crosses an edge on
// which the remaining-count — a local that every Write result is subtracted
// from — is known to be zero (the false edge of `remaining > 0`, or an
// equivalent test).

import (
	"go/ast"
	"go/token"
	"go/types"

	"wv/core"
)

func runC13Pad(k *gctx) {
	c := k.c
	fl := k.flow("P.pad.all", "lib/rac", "ChunkWriter", "padToPageSize")
	if fl == nil {
		return
	}
	info := fl.F.Info()
	ioW := fl.Param(0)
	isWrite := func(call *ast.CallExpr) bool {
		fn := core.Callee(info, call)
		return fn != nil && fn.Name() == "Write" && fl.Obj(core.RecvOf(call)) == ioW
	}
	// the byte count returned by Write
	var nVar types.Object
	ast.Inspect(fl.F.Decl.Body, func(m ast.Node) bool {
		as, ok := m.(*ast.AssignStmt)
		if ok && len(as.Lhs) == 2 && len(as.Rhs) == 1 {
			if call, ok := ast.Unparen(as.Rhs[0]).(*ast.CallExpr); ok && isWrite(call) {
				nVar = fl.Obj(as.Lhs[0])
			}
		}
		return true
	})
	// remaining: a local decremented by (a conversion of) nVar
	var rem types.Object
	ast.Inspect(fl.F.Decl.Body, func(m ast.Node) bool {
		as, ok := m.(*ast.AssignStmt)
		if ok && as.Tok == token.SUB_ASSIGN && len(as.Lhs) == 1 && len(as.Rhs) == 1 && nVar != nil && core.Mentions(info, as.Rhs[0], nVar) {
			rem = fl.Obj(as.Lhs[0])
		}
		return true
	})
	anchor := fl.F.Name()
	claim := "padToPageSize returns nil only after the remaining-padding count reached zero: the offsets ChunkWriter.Close records assume whole pages, so a short padding makes a file that Close reported as written unreadable"
	if nVar == nil || rem == nil {
		c.Fail("P.pad.all", anchor, claim, 1, k.g.Pos(fl.F.Decl.Pos())+": no remaining-count is decremented by the number of bytes each Write reports (the padding is not written in a loop that accounts for what was written)")
		return
	}
	k.mustPass("P.pad.all", anchor, claim, fl, core.Query{
		Start: func(n ast.Node) bool { return core.Guaranteed(n, isWrite) },
		Exit:  c14NilErrReturn(fl), FuncEnd: true,
		Events: []core.Event{{Edge: func(cond ast.Expr, ci *core.CondInfo, taken bool) bool {
			ce, neg := boolCond(cond)
			if neg {
				taken = !taken
			}
			be, ok := ce.(*ast.BinaryExpr)
			if !ok {
				return false
			}
			isRem := func(e ast.Expr) bool { return fl.Obj(e) == rem }
			zero := func(e ast.Expr) bool { v, isC := core.ConstInt64(info, e); return isC && v == 0 }
			switch {
			case be.Op == token.GTR && isRem(be.X) && zero(be.Y), be.Op == token.LSS && zero(be.X) && isRem(be.Y), be.Op == token.NEQ && isRem(be.X) && zero(be.Y):
				return !taken
			case be.Op == token.EQL && isRem(be.X) && zero(be.Y), be.Op == token.LEQ && isRem(be.X) && zero(be.Y):
				return taken
			}
			return false
		}}},
	})
}

// runC13GatherStale (R.res.stale): in gather, a value computed from a lookup in
// the per-branch resource set (`new2 := … !resources[o.secondary]`) is not used
// after that set was replaced by a fresh one (`resources = map…{}`) without
// being recomputed. The set says which shared dictionaries the CURRENT branch
// node already lists; a flag computed against the previous branch's set makes the
// new branch omit a dictionary its first chunk needs, so resourceToTag writes
// "no dictionary" for a chunk compressed with one: Close returns nil and the
// Reader fails with Z_NEED_DICT at that chunk (independently seeded change C13-5).
func runC13GatherStale(k *gctx) {
	c := k.c
	fl := k.flow("R.res.stale", "lib/rac", "", "gather")
	if fl == nil {
		return
	}
	info := fl.F.Info()
	// the resource set: the local of map type that is reassigned inside the loops
	var res types.Object
	for o := range fl.Defs() {
		if v, ok := o.(*types.Var); ok {
			if _, isMap := v.Type().Underlying().(*types.Map); isMap {
				res = o
			}
		}
	}
	if res == nil {
		c.Undecided("R.res.stale", fl.F.Name(), "gather keeps the per-branch resource set in a local map", "no map-typed local")
		return
	}
	// derived locals: defined by an expression that indexes the set
	derived := map[types.Object]bool{}
	for o, defs := range fl.Defs() {
		for _, d := range defs {
			uses := false
			ast.Inspect(d, func(m ast.Node) bool {
				if ie, ok := m.(*ast.IndexExpr); ok && fl.Obj(ie.X) == res {
					uses = true
				}
				return true
			})
			if uses {
				derived[o] = true
			}
		}
	}
	c.Floor("R.res.stale", "locals of gather computed from a lookup in the resource set", len(derived), 2)
	isReset := func(n ast.Node) bool {
		as, ok := n.(*ast.AssignStmt)
		if !ok || as.Tok != token.ASSIGN || len(as.Lhs) != len(as.Rhs) {
			return false
		}
		for _, l := range as.Lhs {
			if fl.Obj(l) == res {
				return true
			}
		}
		return false
	}
	nReset := 0
	ast.Inspect(fl.F.Decl.Body, func(m ast.Node) bool {
		if isReset(m) {
			nReset++
		}
		return true
	})
	c.Floor("R.res.reset", "replacements of the resource set by a fresh one in gather", nReset, 2)
	k.mustPass("R.res.stale", fl.F.Name()+"[after resources = map…{}]",
		"after the per-branch resource set is replaced, no flag computed from a lookup in the previous set is used before it is recomputed (the new branch would omit a dictionary that its first chunk needs: a file that Close reported as written fails to decode with 'need dictionary')",
		fl, core.Query{
			Start: isReset,
			Exit: func(n ast.Node) bool {
				// a use of a derived local that is not its own definition
				if as, ok := n.(*ast.AssignStmt); ok && as.Tok == token.DEFINE {
					for _, l := range as.Lhs {
						if derived[fl.Obj(l)] {
							return false
						}
					}
				}
				used := false
				ast.Inspect(n, func(m ast.Node) bool {
					if id, ok := m.(*ast.Ident); ok && derived[info.Uses[id]] {
						used = true
					}
					return !used
				})
				_, isIf := n.(*ast.IfStmt)
				_, isFor := n.(*ast.ForStmt)
				return used && !isIf && !isFor
			},
			Events: []core.Event{{Node: func(n ast.Node) bool {
				as, ok := n.(*ast.AssignStmt)
				if !ok {
					return false
				}
				for _, l := range as.Lhs {
					if derived[fl.Obj(l)] {
						return true // recomputed (all derived flags are defined together per node)
					}
				}
				return false
			}}},
		})
}
