package main

import (
	"fmt"
	"go/ast"
	"go/constant"
	"go/token"
	"go/types"
	"sort"
	"strings"

	"wv/core"
)

// C19 — lib/uncompng: the bounded-write shape of Encoder.Encode.
//
// What the rules establish, read together, is an inductive argument that is
// visible in the shape of the code:
//
//	invariant  ej <= ejMax  at every fragment boundary of Encode
//	  base:  ej := eiFirst, eiFirst <= ejMax                       (K1)
//	  step:  every write fragment is  guard; stores; ej += K  with
//	         not-flushed => ej <= T and T + K <= ejMax              (W1.guard)
//	         flushed     => ej = eiLater and eiLater + K <= ejMax   (W2.recover, K1)
//	         stores touch exactly e.buf[ej+0 .. ej+K-1]             (W1.stores, W1.inc)
//	         and nothing else assigns ej or writes e.buf            (W4.stray)
//	  use:   flush(w, ej, final) appends at most 8 bytes at ej and
//	         ejMax + 8 <= len(e.buf)                                (K1)
//
// plus the per-case byte mapping derived from PNG's definition of the sample
// layout (W1.stores / W1.slice / W1.advance / W1.loop), the IHDR colour type
// and bit depth agreeing with that mapping (H1, H2), argument validation that
// makes the six cases exhaustive (V1, W0), every flush error being returned
// (F1) and every success exit being the final flush (F2).

func init() {
	register("C19", core.Spec{
		Decides:    "the bounded-write shape of lib/uncompng.(*Encoder).Encode: for the filter byte and each of the six depth|colorType cases, the tuple (row slice multiplier S, guard threshold, stores e.buf[ej+d] = row[s], increment of ej, row advance, loop trip count) equals the tuple derived from PNG's sample layout (S = advance = (depth/8)*source channels; K = increment = (depth/8)*channels of the PNG colour type written in IHDR; stores are exactly (d, d) for d < K because source and PNG are both channel-major, big-endian; the filter byte is the constant 0); the guard (flush when ej > T, with T + K <= ejMax) or the recovery `ej = eiLater` precedes every store on every CFG path, no store follows the increment or the row advance within an iteration, the recovery is flush(w, ej, false) then ej = eiLater; the constants satisfy eiFirst <= ejMax, eiLater + max K <= ejMax, ejMax + 8 <= len(buf), ejMax - min(eiFirst, eiLater) <= 0xFFFF; nothing else in Encode assigns ej or row or touches the receiver; every flush error is returned; every success exit is `flush(w, ej, true)`; pngFileFormatEncoding is {Gray:0, RGBX:2, NRGBA:6} and its channel count matches each case's K; init writes byte(depth) and that encoding at IHDR offsets 0x18/0x19; invalid depth/colour type arguments are rejected before any write so the six cases are exhaustive; (I, reuse of one Encoder) on every CFG path init stores every byte of the fixed prefix that flush does not rewrite itself (signature, IHDR length/type/payload, IDAT type, zlib header) with the values PNG prescribes, computed from its arguments and constants only; the IHDR CRC bytes are on every path the big-endian bytes of crc32IEEE over chunk type + payload computed after the last store into that range; the in-buffer Adler-32 state is reset to a=1, b=0 at the indices updateAdler32 uses; the first-chunk sentinel byte is re-armed by init and cleared by flush after a non-final Write; eiFirst/eiLater equal the header sizes of that layout",
		NotDecided: "everything value-level inside flush/init/updateAdler32/crc32IEEE: chunk lengths, CRC-32 and Adler-32 values, the zlib header and stored-block LEN/NLEN bytes, the first-chunk versus later-chunk layout (that ei inside flush is eiFirst then eiLater), the in-buffer Adler state at buf[0xFFFC:], IEND placement, the no-allocation promise (of reuse only the clauses I.* about init/flush state are decided), and whether pix is long enough for the given stride/height (a short pix panics; that is the caller's contract). The rules are necessary structural conditions of `decodes to exactly the input pixels`, not a proof of it",
		Assumptions: []string{
			"go/types, go/cfg (x/tools v0.29.0) model Go control flow faithfully; go/cfg does not split && / ||, conditions are matched as whole expressions",
			"PNG (W3C REC-PNG-20031110) §11.2.2: colour type 0/2/6 has 1/3/4 samples per pixel in the order R,G,B,A; 16-bit samples are stored most significant byte first; bit depths 8 and 16 are legal for colour types 0, 2 and 6; filter type 0 means the row bytes are stored unfiltered; IHDR payload is width(4) height(4) bit depth(1) colour type(1) …, after an 8-byte signature and an 8-byte chunk header",
			"the package's documented source layout: ColorTypeGray = 1 channel, ColorTypeRGBX / ColorTypeNRGBA = 4 channels per pixel, channel-major, big-endian for Depth16 (the layout of Go's image.Gray/Gray16/RGBA/NRGBA/RGBA64/NRGBA64 Pix)",
			"a final flush appends 4 bytes of Adler-32 and 4 bytes of CRC-32 at ej, a non-final one 4 bytes of CRC-32 (read in flush; not re-derived)",
			"an obligation whose anchor or idiom is not recognised fails as undecided",
		},
	}, runC19)
}

const relPng = "lib/uncompng"

// pngChannels: samples per pixel of each PNG colour type (REC-PNG §11.2.2, table 11.1).
var c19pngChannels = map[int64]int64{0: 1, 2: 3, 3: 1, 4: 2, 6: 4}

// c19colour: frozen expectations per ColorType constant of the package.
type c19colour struct {
	name   string
	srcCh  int64 // channels per pixel in the caller's pix (package documentation)
	pngEnc int64 // PNG colour type that represents it
	why    string
}

var c19colours = []c19colour{
	{"ColorTypeGray", 1, 0, "1 byte per pixel (2 for Depth16) -> PNG greyscale (0)"},
	{"ColorTypeRGBX", 4, 2, "4 bytes per pixel, 4th ignored -> PNG truecolour (2): no alpha sample, decoders see opaque"},
	{"ColorTypeNRGBA", 4, 6, "4 bytes per pixel, non-premultiplied alpha -> PNG truecolour with alpha (6)"},
}

var c19depths = []string{"Depth8", "Depth16"}

type c19store struct {
	stmt    ast.Stmt
	lhs     *ast.IndexExpr
	rhs     ast.Expr
	d       int64 // destination offset from ej
	dOK     bool
	srcRow  bool  // rhs is row[s]
	s       int64 // source offset (srcRow) or constant value (!srcRow && constOK)
	constOK bool
}

type c19asg struct {
	stmt  ast.Stmt
	delta int64 // ej += delta / row = row[delta:]
	abs   bool  // ej = <const>
	val   int64
	ok    bool
}

type c19frag struct {
	name   string // "filter byte" or "case …"
	guard  *ast.IfStmt
	block  *ast.BlockStmt
	loop   *ast.ForStmt
	clause *ast.CaseClause // nil for the filter fragment
	region core.Region
	T      int64 // flush when ej > T
	stores []c19store
	incs   []c19asg // direct statements of block assigning ej
	advs   []c19asg // direct statements of block assigning row
	recov  []c19asg // assignments to ej inside guard.Body
	flush  []*ast.CallExpr
}

type c19ck struct {
	k      *gctx
	c      *core.Ctx
	fl     *core.Flow
	info   *types.Info
	fn     string
	parent map[ast.Node]ast.Node

	recv, w, pix, width, height, stride, depth, colorType types.Object
	ej, row                                               types.Object
	bufField                                              *types.Var
	flushFn, initFn                                       *types.Func
	eiFirst, eiLater, ejMax, bufLen                       int64
}

func (x *c19ck) pos(n ast.Node) string { return x.k.g.Pos(n.Pos()) }
func (x *c19ck) src(n ast.Node) string { return core.Src(x.k.g.Fset, n) }

func (x *c19ck) isObj(e ast.Expr, o types.Object) bool {
	if o == nil {
		return false
	}
	id, ok := ast.Unparen(e).(*ast.Ident)
	return ok && (x.info.Uses[id] == o || x.info.Defs[id] == o)
}

// isBuf: e is <recv>.buf.
func (x *c19ck) isBuf(e ast.Expr) bool {
	sel, ok := ast.Unparen(e).(*ast.SelectorExpr)
	return ok && x.bufField != nil && x.info.Uses[sel.Sel] == x.bufField && x.isObj(sel.X, x.recv)
}

// lin: e == coef*ej + k with constants evaluated through go/types.
func (x *c19ck) lin(e ast.Expr) (coef, k int64, ok bool) {
	e = ast.Unparen(e)
	if v, isC := core.ConstInt64(x.info, e); isC {
		return 0, v, true
	}
	switch t := e.(type) {
	case *ast.Ident:
		if x.info.Uses[t] == x.ej && x.ej != nil {
			return 1, 0, true
		}
	case *ast.BinaryExpr:
		if t.Op == token.ADD || t.Op == token.SUB {
			a1, k1, ok1 := x.lin(t.X)
			a2, k2, ok2 := x.lin(t.Y)
			if ok1 && ok2 {
				if t.Op == token.ADD {
					return a1 + a2, k1 + k2, true
				}
				return a1 - a2, k1 - k2, true
			}
		}
	}
	return 0, 0, false
}

// guardT: cond means "ej > T" (the flush-before-overflow test), in any of the
// forms (ej+K) > M, M < (ej+K), (ej+K) >= M+1, ej > M-K, M-ej < K.
func (x *c19ck) guardT(cond ast.Expr) (T int64, ok bool) {
	b, isB := ast.Unparen(cond).(*ast.BinaryExpr)
	if !isB {
		return 0, false
	}
	op := b.Op
	switch op {
	case token.GTR, token.GEQ, token.LSS, token.LEQ:
	default:
		return 0, false
	}
	a1, k1, ok1 := x.lin(b.X)
	a2, k2, ok2 := x.lin(b.Y)
	if !ok1 || !ok2 {
		return 0, false
	}
	a, cst := a1-a2, k2-k1 // a*ej OP cst
	if a == -1 {
		a, cst, op = 1, -cst, mirror(op)
	}
	if a != 1 {
		return 0, false
	}
	switch op {
	case token.GTR:
		return cst, true
	case token.GEQ:
		return cst - 1, true
	}
	return 0, false
}

// ejAssign classifies a statement that assigns ej.
func (x *c19ck) ejAssign(s ast.Stmt) (c19asg, bool) {
	switch t := s.(type) {
	case *ast.IncDecStmt:
		if x.isObj(t.X, x.ej) {
			d := int64(1)
			if t.Tok == token.DEC {
				d = -1
			}
			return c19asg{stmt: s, delta: d, ok: true}, true
		}
	case *ast.AssignStmt:
		hit := -1
		for i, l := range t.Lhs {
			if x.isObj(l, x.ej) {
				hit = i
			}
		}
		if hit < 0 {
			return c19asg{}, false
		}
		if len(t.Lhs) != 1 || len(t.Rhs) != 1 {
			return c19asg{stmt: s}, true
		}
		switch t.Tok {
		case token.ADD_ASSIGN, token.SUB_ASSIGN:
			if v, ok := core.ConstInt64(x.info, t.Rhs[0]); ok {
				if t.Tok == token.SUB_ASSIGN {
					v = -v
				}
				return c19asg{stmt: s, delta: v, ok: true}, true
			}
		case token.ASSIGN, token.DEFINE:
			if a, k, ok := x.lin(t.Rhs[0]); ok {
				if a == 1 && t.Tok == token.ASSIGN {
					return c19asg{stmt: s, delta: k, ok: true}, true
				}
				if a == 0 {
					return c19asg{stmt: s, abs: true, val: k, ok: true}, true
				}
			}
		}
		return c19asg{stmt: s}, true
	}
	return c19asg{}, false
}

// rowAssign classifies a statement that assigns row. kind: "def" (from pix),
// "cap" (row = row[:E]), "adv" (row = row[A:]), "" (unrecognised).
func (x *c19ck) rowAssign(s ast.Stmt) (kind string, e ast.Expr, isRow bool) {
	t, ok := s.(*ast.AssignStmt)
	if !ok {
		return "", nil, false
	}
	hit := false
	for _, l := range t.Lhs {
		if x.isObj(l, x.row) {
			hit = true
		}
	}
	if !hit {
		return "", nil, false
	}
	if len(t.Lhs) != 1 || len(t.Rhs) != 1 {
		return "", nil, true
	}
	sl, ok := ast.Unparen(t.Rhs[0]).(*ast.SliceExpr)
	if !ok || sl.Slice3 || sl.Max != nil {
		return "", nil, true
	}
	switch {
	case t.Tok == token.DEFINE && x.isObj(sl.X, x.pix) && sl.High == nil && sl.Low != nil:
		return "def", sl.Low, true
	case t.Tok == token.ASSIGN && x.isObj(sl.X, x.row) && sl.Low == nil && sl.High != nil:
		return "cap", sl.High, true
	case t.Tok == token.ASSIGN && x.isObj(sl.X, x.row) && sl.Low != nil && sl.High == nil:
		return "adv", sl.Low, true
	}
	return "", nil, true
}

// timesObj: e == S*obj with S a constant (or obj alone, S = 1).
func (x *c19ck) timesObj(e ast.Expr, o types.Object) (int64, bool) {
	e = ast.Unparen(e)
	if x.isObj(e, o) {
		return 1, true
	}
	b, ok := e.(*ast.BinaryExpr)
	if !ok || b.Op != token.MUL {
		return 0, false
	}
	if v, isC := core.ConstInt64(x.info, b.X); isC {
		if s, ok := x.timesObj(b.Y, o); ok {
			return v * s, true
		}
	}
	if v, isC := core.ConstInt64(x.info, b.Y); isC {
		if s, ok := x.timesObj(b.X, o); ok {
			return v * s, true
		}
	}
	return 0, false
}

// storesOf: the (lhs, rhs) pairs of statement s whose lhs is <recv>.buf[…].
func (x *c19ck) storesOf(s ast.Stmt) []c19store {
	t, ok := s.(*ast.AssignStmt)
	if !ok {
		return nil
	}
	var out []c19store
	for i, l := range t.Lhs {
		ix, ok := ast.Unparen(l).(*ast.IndexExpr)
		if !ok || !x.isBuf(ix.X) {
			continue
		}
		st := c19store{stmt: s, lhs: ix}
		if t.Tok == token.ASSIGN && len(t.Lhs) == len(t.Rhs) {
			st.rhs = t.Rhs[i]
			if a, k, ok := x.lin(ix.Index); ok && a == 1 {
				st.d, st.dOK = k, true
			}
			r := ast.Unparen(st.rhs)
			if rx, ok := r.(*ast.IndexExpr); ok && x.isObj(rx.X, x.row) {
				if v, ok := core.ConstInt64(x.info, rx.Index); ok {
					st.srcRow, st.s, st.constOK = true, v, true
				}
			} else if v, ok := core.ConstInt64(x.info, r); ok {
				st.s, st.constOK = v, true
			}
		}
		out = append(out, st)
	}
	return out
}

func (x *c19ck) isFlushCall(call *ast.CallExpr) bool {
	return core.IsCallTo(x.info, call, x.flushFn) && x.isObj(core.RecvOf(call), x.recv)
}

// countedLoop: `for v := 0; v < bound; v++` (or v += 1, bound > v, v != bound
// is NOT accepted) with v not assigned in the body: exactly max(bound,0) trips.
func (x *c19ck) countedLoop(f *ast.ForStmt, bound types.Object) (types.Object, string) {
	init, ok := f.Init.(*ast.AssignStmt)
	if !ok || init.Tok != token.DEFINE || len(init.Lhs) != 1 || len(init.Rhs) != 1 {
		return nil, "init is not `v := 0`"
	}
	id, ok := init.Lhs[0].(*ast.Ident)
	if !ok {
		return nil, "init is not `v := 0`"
	}
	v := x.info.Defs[id]
	if z, ok := core.ConstInt64(x.info, init.Rhs[0]); !ok || z != 0 || v == nil {
		return nil, fmt.Sprintf("loop variable starts at `%s`, not 0", x.src(init.Rhs[0]))
	}
	cb, ok := ast.Unparen(f.Cond).(*ast.BinaryExpr)
	if f.Cond == nil || !ok {
		return nil, "condition is not `v < bound`"
	}
	switch {
	case cb.Op == token.LSS && x.isObj(cb.X, v) && x.isObj(cb.Y, bound):
	case cb.Op == token.GTR && x.isObj(cb.Y, v) && x.isObj(cb.X, bound):
	default:
		return nil, fmt.Sprintf("condition `%s` is not `%s < %s`", x.src(f.Cond), id.Name, bound.Name())
	}
	step := false
	switch p := f.Post.(type) {
	case *ast.IncDecStmt:
		step = p.Tok == token.INC && x.isObj(p.X, v)
	case *ast.AssignStmt:
		if p.Tok == token.ADD_ASSIGN && len(p.Lhs) == 1 && x.isObj(p.Lhs[0], v) {
			if d, ok := core.ConstInt64(x.info, p.Rhs[0]); ok && d == 1 {
				step = true
			}
		}
	}
	if !step {
		return nil, "post statement is not `v++`"
	}
	bad := ""
	ast.Inspect(f.Body, func(n ast.Node) bool {
		switch t := n.(type) {
		case *ast.AssignStmt:
			for _, l := range t.Lhs {
				if x.isObj(l, v) || x.isObj(l, bound) {
					bad = fmt.Sprintf("%s: `%s` assigns the loop variable or its bound", x.pos(t), x.src(t))
				}
			}
		case *ast.IncDecStmt:
			if x.isObj(t.X, v) || x.isObj(t.X, bound) {
				bad = fmt.Sprintf("%s: `%s` modifies the loop variable or its bound", x.pos(t), x.src(t))
			}
		case *ast.UnaryExpr:
			if t.Op == token.AND && (x.isObj(t.X, v) || x.isObj(t.X, bound)) {
				bad = fmt.Sprintf("%s: address of the loop variable or its bound taken", x.pos(t))
			}
		case *ast.BranchStmt:
			if t.Tok == token.BREAK || t.Tok == token.GOTO {
				bad = fmt.Sprintf("%s: `%s` leaves the loop early", x.pos(t), x.src(t))
			}
		}
		return true
	})
	if bad != "" {
		return nil, bad
	}
	return v, ""
}

// paths evaluates an E1 query; zeroOK: an empty tracked set is a pass (the
// start node is the last node of its region).
func (x *c19ck) paths(rule, anchor, claim string, q core.Query, zeroOK bool) bool {
	esc, sites := x.fl.Escapes(q)
	if len(esc) == 0 {
		if sites == 0 && !zeroOK {
			x.c.Undecided(rule, anchor, claim, "the region/start of this obligation matched no CFG node (vacuous)")
			return false
		}
		if sites == 0 {
			sites = 1
		}
		x.c.Pass(rule, anchor, claim, sites, fmt.Sprintf("%s: holds on all paths (%d CFG nodes/exits examined)", x.k.g.Pos(x.fl.F.Decl.Pos()), sites))
		return true
	}
	var lines []string
	for _, e := range esc {
		lines = append(lines, e.String())
	}
	x.c.Fail(rule, anchor, claim, sites, fmt.Sprintf("in %s (%s):\n%s", x.fl.F.Name(), x.k.g.Pos(x.fl.F.Decl.Pos()), strings.Join(lines, "\n")))
	return false
}

func c19constInt(o types.Object) (int64, bool) {
	c, ok := o.(*types.Const)
	if !ok {
		return 0, false
	}
	return core.ConstValInt(c.Val())
}

func runC19(c *core.Ctx) {
	k := newG(c, "./lib/uncompng")
	fl := k.flow("anchors", relPng, "Encoder", "Encode")
	flFlush := k.flow("anchors", relPng, "Encoder", "flush")
	flInit := k.flow("anchors", relPng, "Encoder", "init")
	flEnc := k.flow("anchors", relPng, "ColorType", "pngFileFormatEncoding")
	encoderT := k.obj("anchors", relPng, "Encoder")
	oFirst, oLater, oMax := k.obj("anchors", relPng, "eiFirst"), k.obj("anchors", relPng, "eiLater"), k.obj("anchors", relPng, "ejMax")
	if fl == nil || flFlush == nil || flInit == nil || flEnc == nil || encoderT == nil || oFirst == nil || oLater == nil || oMax == nil {
		return
	}
	x := &c19ck{k: k, c: c, fl: fl, info: fl.F.Info(), fn: fl.F.Name(), parent: map[ast.Node]ast.Node{}}
	x.flushFn, x.initFn = flFlush.F.Obj, flInit.F.Obj
	x.bufField = core.LookupField(encoderT, "buf")
	x.recv = fl.Recv()
	x.w, x.pix, x.width, x.height, x.stride, x.depth, x.colorType = fl.Param(0), fl.Param(1), fl.Param(2), fl.Param(3), fl.Param(4), fl.Param(5), fl.Param(6)
	okc := true
	var e1, e2, e3 bool
	x.eiFirst, e1 = c19constInt(oFirst)
	x.eiLater, e2 = c19constInt(oLater)
	x.ejMax, e3 = c19constInt(oMax)
	okc = e1 && e2 && e3
	if x.bufField != nil {
		if at, ok := x.bufField.Type().Underlying().(*types.Array); ok {
			x.bufLen = at.Len()
		}
	}
	sigOK := x.recv != nil && x.colorType != nil && fl.Param(7) == nil &&
		strings.HasSuffix(x.depth.Type().String(), "uncompng.Depth") && strings.HasSuffix(x.colorType.Type().String(), "uncompng.ColorType") &&
		x.pix.Type().String() == "[]byte" && x.width.Type().String() == "int"
	if !okc || x.bufLen == 0 || !sigOK {
		c.Undecided("anchors", x.fn, "Encode(w, pix, width, height, stride, depth, colorType) on *Encoder with a fixed-size byte array field buf and integer constants eiFirst/eiLater/ejMax", "signature, buf field or constants not as expected")
		return
	}
	// Parent map of Encode's body.
	var stack []ast.Node
	ast.Inspect(fl.F.Decl.Body, func(n ast.Node) bool {
		if n == nil {
			stack = stack[:len(stack)-1]
			return true
		}
		if len(stack) > 0 {
			x.parent[n] = stack[len(stack)-1]
		}
		stack = append(stack, n)
		return true
	})

	table := x.colourTable(flEnc) // H1
	x.run(table, flInit)
	x.initReuse(flInit, flFlush) // I.* (c19_init.go)
}

// ---------------- H1: pngFileFormatEncoding ----------------

type c19enc struct {
	byVal    map[int64]int64 // ColorType constant value -> PNG colour type
	fallback int64
	ok       bool
}

func (x *c19ck) colourTable(flEnc *core.Flow) c19enc {
	c := x.c
	info := flEnc.F.Info()
	anchor := flEnc.F.Name()
	out := c19enc{byVal: map[int64]int64{}}
	recv := flEnc.Recv()
	var sw *ast.SwitchStmt
	var tail *ast.ReturnStmt
	for _, s := range flEnc.F.Decl.Body.List {
		switch t := s.(type) {
		case *ast.SwitchStmt:
			if sw == nil {
				sw = t
			}
		case *ast.ReturnStmt:
			tail = t
		}
	}
	retConst := func(list []ast.Stmt) (int64, bool) {
		if len(list) != 1 {
			return 0, false
		}
		r, ok := list[0].(*ast.ReturnStmt)
		if !ok || len(r.Results) != 1 {
			return 0, false
		}
		return core.ConstInt64(info, r.Results[0])
	}
	shape := sw != nil && sw.Tag != nil && recv != nil && flEnc.Is(recv)(sw.Tag)
	haveFallback := false
	if shape {
		for _, cl := range sw.Body.List {
			cc := cl.(*ast.CaseClause)
			v, ok := retConst(cc.Body)
			if !ok {
				shape = false
				break
			}
			if cc.List == nil {
				out.fallback, haveFallback = v, true
				continue
			}
			for _, e := range cc.List {
				cv, ok := core.ConstInt64(info, e)
				if !ok {
					shape = false
					break
				}
				if _, dup := out.byVal[cv]; !dup {
					out.byVal[cv] = v
				}
			}
		}
	}
	if shape && !haveFallback {
		if tail == nil {
			shape = false
		} else if v, ok := retConst([]ast.Stmt{tail}); ok {
			out.fallback = v
		} else {
			shape = false
		}
	}
	if !shape {
		c.Undecided("H1.colortype", anchor, "pngFileFormatEncoding is `switch c { case K: return const … }; return const`", "switch-of-constant-returns shape not recognised")
		return out
	}
	out.ok = true
	n := 0
	for _, ct := range c19colours {
		o := x.k.obj("H1.colortype", relPng, ct.name)
		if o == nil {
			out.ok = false
			continue
		}
		cv, _ := c19constInt(o)
		got, have := out.byVal[cv]
		n++
		c.Check(have && got == ct.pngEnc, "H1.colortype", anchor+"["+ct.name+"]",
			fmt.Sprintf("%s is written to IHDR as PNG colour type %d: %s", ct.name, ct.pngEnc, ct.why), 1,
			fmt.Sprintf("%s: pngFileFormatEncoding(%s=%d) = %d (listed: %v); PNG requires %d", x.k.g.Pos(sw.Pos()), ct.name, cv, got, have, ct.pngEnc))
	}
	_, clash := c19pngChannels[out.fallback]
	c.Check(!clash, "H1.colortype", anchor+"[fallback]",
		"the value returned for an unknown ColorType is not a PNG colour type (it is the `invalid` marker tested by Encode)", 1,
		fmt.Sprintf("%s: fallback return value %d is the legal PNG colour type %d: Encode's validation cannot tell an unknown ColorType from a known one", x.k.g.Pos(flEnc.F.Decl.Pos()), out.fallback, out.fallback))
	for cv, v := range out.byVal {
		if v == out.fallback {
			c.Fail("H1.colortype", anchor+"[fallback]", "no listed ColorType maps to the invalid marker", 1,
				fmt.Sprintf("%s: ColorType(%d) returns the fallback value %d", x.k.g.Pos(sw.Pos()), cv, v))
		}
	}
	c.Floor("H1.colortype", "ColorType constants mapped to a PNG colour type", n, 3)
	return out
}

// ---------------- the main walk over Encode ----------------

func (x *c19ck) run(enc c19enc, flInit *core.Flow) {
	c, fl, info := x.c, x.fl, x.info
	body := fl.F.Decl.Body

	// ---- flush call sites; ej is the variable they all pass as argument 1 ----
	var flushCalls []*ast.CallExpr
	var initCalls []*ast.CallExpr
	ast.Inspect(body, func(n ast.Node) bool {
		if call, ok := n.(*ast.CallExpr); ok {
			if x.isFlushCall(call) {
				flushCalls = append(flushCalls, call)
			} else if core.IsCallTo(info, call, x.initFn) {
				initCalls = append(initCalls, call)
			}
		}
		return true
	})
	if len(flushCalls) == 0 {
		c.Undecided("anchors", x.fn, "Encode calls e.flush", "no call of (*Encoder).flush on the receiver found")
		return
	}
	for _, call := range flushCalls {
		if len(call.Args) != 3 {
			continue
		}
		o := fl.Obj(call.Args[1])
		if v, ok := o.(*types.Var); ok && !v.IsField() && v.Parent() != v.Pkg().Scope() && o != x.width && o != x.height && o != x.stride {
			if x.ej == nil {
				x.ej = o
			}
		}
	}
	rows := fl.VarsDenoting(func(e ast.Expr) bool {
		sl, ok := ast.Unparen(e).(*ast.SliceExpr)
		return ok && x.isObj(sl.X, x.pix)
	})
	if len(rows) == 1 {
		x.row = rows[0]
	}
	if x.ej == nil || x.row == nil {
		c.Undecided("anchors", x.fn, "the write cursor (second argument of every flush call) and the row slice (the one local defined as a slice of pix) exist", fmt.Sprintf("cursor found: %v; row candidates: %d", x.ej != nil, len(rows)))
		return
	}

	// ---- the depth|colorType switch and the row loop ----
	var tagSw *ast.SwitchStmt
	ast.Inspect(body, func(n ast.Node) bool {
		sw, ok := n.(*ast.SwitchStmt)
		if !ok || sw.Tag == nil || tagSw != nil {
			return true
		}
		b, ok := ast.Unparen(sw.Tag).(*ast.BinaryExpr)
		if !ok || b.Op != token.OR {
			return true
		}
		isDepthConv := func(e ast.Expr) bool {
			call, ok := ast.Unparen(e).(*ast.CallExpr)
			if !ok || len(call.Args) != 1 {
				return false
			}
			tv, ok := info.Types[call.Fun]
			return ok && tv.IsType() && types.Identical(tv.Type, x.colorType.Type()) && x.isObj(call.Args[0], x.depth)
		}
		if (isDepthConv(b.X) && x.isObj(b.Y, x.colorType)) || (isDepthConv(b.Y) && x.isObj(b.X, x.colorType)) {
			tagSw = sw
		}
		return true
	})
	if tagSw == nil {
		c.Undecided("W0.cases", x.fn, "the per-row dispatch is `switch ColorType(depth) | colorType` over Encode's own parameters", "no switch with that tag found")
		return
	}
	var forY *ast.ForStmt
	if blk, ok := x.parent[tagSw].(*ast.BlockStmt); ok {
		if f, ok := x.parent[blk].(*ast.ForStmt); ok && f.Body == blk {
			forY = f
		}
	}
	if forY == nil {
		c.Undecided("W3.rows", x.fn, "the dispatch switch is a direct statement of the row loop's body", "enclosing for statement not found")
		return
	}

	// ---- decode the case constants ----
	type combo struct {
		name     string
		depthVal int64
		col      c19colour
		val      int64
		clauses  []*ast.CaseClause
	}
	var combos []*combo
	depthOK := true
	for _, dn := range c19depths {
		do := x.k.obj("H1.depth", relPng, dn)
		if do == nil {
			return
		}
		dv, _ := c19constInt(do)
		want := int64(8)
		if dn == "Depth16" {
			want = 16
		}
		if !c.Check(dv == want, "H1.depth", relPng+"."+dn, fmt.Sprintf("%s is the PNG bit depth %d (legal for colour types 0, 2 and 6; a whole number of bytes per sample, which the per-case byte counts assume); init writes byte(depth) into IHDR", dn, want), 1,
			fmt.Sprintf("%s: %s = %d", x.k.g.Pos(do.Pos()), dn, dv)) {
			depthOK = false
		}
		for _, ct := range c19colours {
			co := x.k.obj("W0.cases", relPng, ct.name)
			if co == nil {
				return
			}
			cv, _ := c19constInt(co)
			combos = append(combos, &combo{name: dn + "|" + ct.name, depthVal: dv, col: ct, val: dv | cv})
		}
	}
	if !depthOK {
		return
	}
	seenVal := map[int64]bool{}
	for _, cb := range combos {
		if seenVal[cb.val] {
			c.Undecided("W0.cases", x.fn, "depth|colorType values of the six combinations are distinct", "two combinations share the value "+fmt.Sprint(cb.val))
			return
		}
		seenVal[cb.val] = true
	}
	for _, cl := range tagSw.Body.List {
		cc := cl.(*ast.CaseClause)
		for _, e := range cc.List {
			v, ok := core.ConstInt64(info, e)
			if !ok {
				c.Undecided("W0.cases", x.fn+"[switch]", "case expressions are constants", fmt.Sprintf("%s: `%s` is not constant", x.pos(e), x.src(e)))
				continue
			}
			hit := false
			for _, cb := range combos {
				if cb.val == v {
					cb.clauses = append(cb.clauses, cc)
					hit = true
				}
			}
			if !hit {
				c.Info("W0.cases", x.fn+"[switch]", fmt.Sprintf("%s: case value %d is none of the six depth|colorType combinations (unreachable after validation)", x.pos(e), v))
			}
		}
		for _, s := range cc.Body {
			ast.Inspect(s, func(n ast.Node) bool {
				if br, ok := n.(*ast.BranchStmt); ok && br.Tok == token.FALLTHROUGH {
					c.Fail("W0.cases", x.fn+"[switch]", "no case falls through into its neighbour's pixel loop", 1, fmt.Sprintf("%s: fallthrough", x.pos(br)))
				}
				return true
			})
		}
	}
	ncase := 0
	for _, cb := range combos {
		ok := len(cb.clauses) == 1
		if ok {
			ncase++
		}
		c.Check(ok, "W0.cases", x.fn+"[case "+cb.name+"]",
			"each (depth, colour type) pair that passes validation has exactly one case clause: a missing case would emit filter bytes with no pixel data", 1,
			fmt.Sprintf("%s: value %d appears in %d case lists of the dispatch switch", x.pos(tagSw), cb.val, len(cb.clauses)))
	}
	c.Floor("W0.cases", "depth|colorType combinations with a case clause", ncase, 6)

	// ---- guards and fragments ----
	var frags []*c19frag
	fragOfStmt := map[ast.Stmt]*c19frag{}
	ast.Inspect(body, func(n ast.Node) bool {
		is, ok := n.(*ast.IfStmt)
		if !ok {
			return true
		}
		T, ok := x.guardT(is.Cond)
		if !ok {
			return true
		}
		f := &c19frag{guard: is, T: T}
		blk, ok := x.parent[is].(*ast.BlockStmt)
		if !ok {
			c.Undecided("W4.stray", x.fn+"[guard]", "every overflow guard is a direct statement of a loop body", fmt.Sprintf("%s: guard `%s` in unrecognised position", x.pos(is), x.src(is.Cond)))
			return true
		}
		f.block = blk
		loop, _ := x.parent[blk].(*ast.ForStmt)
		if loop == nil || loop.Body != blk {
			c.Undecided("W4.stray", x.fn+"[guard]", "every overflow guard is a direct statement of a loop body", fmt.Sprintf("%s: guard `%s` is not in a for body", x.pos(is), x.src(is.Cond)))
			return true
		}
		f.loop = loop
		switch {
		case loop == forY && is.End() <= tagSw.Pos():
			f.name = "filter byte"
			f.region = core.Region{Lo: blk.Lbrace, Hi: tagSw.Pos()}
		case loop != forY:
			cc, ok := x.parent[loop].(*ast.CaseClause)
			if !ok || x.parent[cc] != tagSw.Body {
				c.Undecided("W4.stray", x.fn+"[guard]", "every pixel loop is a direct statement of a case clause of the dispatch switch", fmt.Sprintf("%s: loop holding guard `%s` is elsewhere", x.pos(loop), x.src(is.Cond)))
				return true
			}
			f.clause = cc
			f.region = core.RegionOf(blk)
		default:
			c.Undecided("W4.stray", x.fn+"[guard]", "the row loop has one guard, before the dispatch switch", fmt.Sprintf("%s: guard `%s` after the switch", x.pos(is), x.src(is.Cond)))
			return true
		}
		for _, s := range blk.List {
			if !f.region.Contains(s.Pos()) {
				continue
			}
			if st := x.storesOf(s); len(st) > 0 {
				f.stores = append(f.stores, st...)
				fragOfStmt[s] = f
			}
			if a, ok := x.ejAssign(s); ok {
				f.incs = append(f.incs, a)
				fragOfStmt[s] = f
			}
			if kind, e, ok := x.rowAssign(s); ok && kind != "def" {
				a := c19asg{stmt: s}
				if kind == "adv" {
					if v, ok := core.ConstInt64(info, e); ok {
						a.delta, a.ok = v, true
					}
				}
				f.advs = append(f.advs, a)
				fragOfStmt[s] = f
			}
		}
		ast.Inspect(is.Body, func(m ast.Node) bool {
			switch t := m.(type) {
			case ast.Stmt:
				if a, ok := x.ejAssign(t); ok {
					f.recov = append(f.recov, a)
					fragOfStmt[t] = f
				}
			case *ast.CallExpr:
				if x.isFlushCall(t) {
					f.flush = append(f.flush, t)
				}
			}
			return true
		})
		frags = append(frags, f)
		return true
	})
	c.Floor("W1", "write fragments (filter byte + six pixel loops) recognised by their overflow guard", len(frags), 7)

	// ---- K1: constants ----
	maxK := int64(0)
	for _, f := range frags {
		for _, a := range f.incs {
			if a.ok && !a.abs && a.delta > maxK {
				maxK = a.delta
			}
		}
	}
	kanchor := relPng + "[eiFirst,eiLater,ejMax,len(buf)]"
	vals := fmt.Sprintf("eiFirst=%#x eiLater=%#x ejMax=%#x len(buf)=%#x max increment=%d", x.eiFirst, x.eiLater, x.ejMax, x.bufLen, maxK)
	c.Check(x.eiFirst <= x.ejMax, "K1.consts", kanchor+"[eiFirst<=ejMax]", "base case of `ej <= ejMax`: the cursor starts at eiFirst", 1, vals)
	c.Check(maxK > 0 && x.eiLater+maxK <= x.ejMax, "K1.consts", kanchor+"[eiLater+K<=ejMax]", "after a flush the cursor is eiLater and the pending pixel (up to the largest per-pixel byte count) is stored without a second test", 1, vals)
	c.Check(x.ejMax+8 <= x.bufLen, "K1.consts", kanchor+"[ejMax+8<=len(buf)]", "flush appends up to 8 bytes (Adler-32 + CRC-32) at ej <= ejMax inside the fixed buffer; a non-final flush's 4 CRC bytes stay below the Adler state kept in the last 4 bytes", 1,
		vals+fmt.Sprintf("; ejMax+8 = %#x (the code has equality: %v)", x.ejMax+8, x.ejMax+8 == x.bufLen))
	minEi := x.eiFirst
	if x.eiLater < minEi {
		minEi = x.eiLater
	}
	c.Check(x.ejMax-minEi <= 0xFFFF, "K1.consts", kanchor+"[ejMax-ei<=0xFFFF]", "one flush emits one DEFLATE stored block of ej-ei bytes, whose LEN field is 16 bits (RFC 1951 §3.2.4)", 1, vals)

	// ej's definition.
	var ejDefs []c19asg
	ast.Inspect(body, func(n ast.Node) bool {
		if s, ok := n.(ast.Stmt); ok {
			if a, ok := x.ejAssign(s); ok {
				if as, isA := s.(*ast.AssignStmt); isA && as.Tok == token.DEFINE {
					ejDefs = append(ejDefs, a)
				}
			}
		}
		return true
	})
	if len(ejDefs) == 1 && ejDefs[0].ok && ejDefs[0].abs && x.parent[ejDefs[0].stmt] == ast.Node(body) {
		c.Check(ejDefs[0].val == x.eiFirst, "K1.start", x.fn+"[cursor definition]", "the cursor is defined once, outside every loop, as eiFirst (first byte after signature + IHDR + IDAT/zlib/stored-block headers)", 1,
			fmt.Sprintf("%s: `%s` gives %#x, eiFirst = %#x", x.pos(ejDefs[0].stmt), x.src(ejDefs[0].stmt), ejDefs[0].val, x.eiFirst))
	} else {
		c.Undecided("K1.start", x.fn+"[cursor definition]", "the cursor is defined once, at function level, by a constant", fmt.Sprintf("%d definitions found", len(ejDefs)))
	}

	// ---- per fragment ----
	storeSet := map[ast.Node]bool{}
	for _, f := range frags {
		for _, st := range f.stores {
			storeSet[st.stmt] = true
		}
	}
	isStore := func(n ast.Node) bool { return storeSet[n] }
	nStores := 0
	filterSeen := 0
	fragOfClause := map[*ast.CaseClause][]*c19frag{}
	for _, f := range frags {
		if f.clause != nil {
			fragOfClause[f.clause] = append(fragOfClause[f.clause], f)
		}
	}

	checkFrag := func(f *c19frag, anchor string, K int64, wantSrcRow bool, expect map[int64]int64, what string) {
		// W1.guard: threshold.
		var inc *c19asg
		incOK := len(f.incs) == 1 && f.incs[0].ok && !f.incs[0].abs
		if incOK {
			inc = &f.incs[0]
		}
		if !incOK {
			var d []string
			for _, a := range f.incs {
				d = append(d, fmt.Sprintf("%s `%s`", x.pos(a.stmt), x.src(a.stmt)))
			}
			c.Fail("W1.inc", anchor, fmt.Sprintf("the cursor advances exactly once per %s, by the constant %d", what, K), len(f.incs),
				fmt.Sprintf("%s: %d direct assignments to the cursor in this fragment: %s", x.pos(f.guard), len(f.incs), strings.Join(d, "; ")))
		} else {
			c.Check(inc.delta == K, "W1.inc", anchor, fmt.Sprintf("the cursor advances by %d = the number of bytes PNG stores per %s", K, what), 1,
				fmt.Sprintf("%s: `%s` advances by %d, expected %d", x.pos(inc.stmt), x.src(inc.stmt), inc.delta, K))
		}
		room := x.ejMax - f.T
		c.Check(f.T+K <= x.ejMax, "W1.guard", anchor,
			fmt.Sprintf("the guard flushes whenever fewer than %d bytes remain below ejMax: not flushed means ej <= T with T + %d <= ejMax, so the %d stores and the increment keep ej <= ejMax", K, K, K), 1,
			fmt.Sprintf("%s: guard `%s` flushes when ej > %#x, i.e. guarantees room for %d byte(s), but %d are written (ejMax = %#x)", x.pos(f.guard), x.src(f.guard.Cond), f.T, room, K, x.ejMax))
		if room > K {
			c.Info("W1.guard", anchor, fmt.Sprintf("%s: guard reserves %d bytes for a %d-byte write: flushes early, still within bounds", x.pos(f.guard), room, K))
		}
		// W1.stores.
		got := map[int64]int64{}
		var bad []string
		for _, st := range f.stores {
			nStores++
			switch {
			case !st.dOK:
				bad = append(bad, fmt.Sprintf("%s: destination index of `%s` is not ej + constant", x.pos(st.stmt), x.src(st.lhs)))
			case !st.constOK || st.srcRow != wantSrcRow:
				bad = append(bad, fmt.Sprintf("%s: source `%s` is not %s", x.pos(st.stmt), x.src(st.rhs), map[bool]string{true: "row[constant]", false: "a constant"}[wantSrcRow]))
			default:
				if _, dup := got[st.d]; dup {
					bad = append(bad, fmt.Sprintf("%s: e.buf[ej+%d] is stored twice", x.pos(st.stmt), st.d))
				}
				got[st.d] = st.s
				if w, ok := expect[st.d]; !ok {
					bad = append(bad, fmt.Sprintf("%s: `%s` writes offset %d, outside [0,%d)", x.pos(st.stmt), x.src(st.stmt), st.d, K))
				} else if w != st.s {
					bad = append(bad, fmt.Sprintf("%s: `%s` stores source %d at offset %d, PNG layout requires source %d", x.pos(st.stmt), x.src(st.stmt), st.s, st.d, w))
				}
			}
		}
		var ds []int64
		for d := range expect {
			ds = append(ds, d)
		}
		sort.Slice(ds, func(i, j int) bool { return ds[i] < ds[j] })
		for _, d := range ds {
			if _, ok := got[d]; !ok {
				bad = append(bad, fmt.Sprintf("%s: offset %d of the %d-byte group is never stored (stale buffer content would be emitted)", x.pos(f.guard), d, K))
			}
		}
		c.Check(len(bad) == 0, "W1.stores", anchor,
			fmt.Sprintf("the stores are exactly e.buf[ej+d] = %s for d in [0,%d)", map[bool]string{true: "row[d] (PNG sample order R,G,B[,A], most significant byte first = the documented source order, so the first K bytes of the source pixel in order)", false: "0 (PNG filter type 0: row stored unfiltered)"}[wantSrcRow], K),
			len(f.stores), strings.Join(bad, "\n"))

		// W2.order: guard or recovery before every store.
		recovNode := func(n ast.Node) bool {
			for _, a := range f.recov {
				if a.stmt == n {
					return true
				}
			}
			return false
		}
		x.paths("W2.order", anchor, "on every path from the start of an iteration to a store into e.buf, the overflow guard was passed on its false edge or the cursor was reset after a flush",
			core.Query{Region: f.region, Exit: func(n ast.Node) bool { return isStore(n) },
				Events: []core.Event{{Node: recovNode, Edge: func(cond ast.Expr, ci *core.CondInfo, taken bool) bool {
					return !taken && cond == f.guard.Cond
				}}}}, false)
		// W2.after: no store after the increment / row advance in the same iteration.
		movers := map[ast.Node]bool{}
		for _, a := range f.incs {
			movers[a.stmt] = true
		}
		for _, a := range f.advs {
			movers[a.stmt] = true
		}
		x.paths("W2.after", anchor, "within one iteration no store into e.buf follows the cursor increment or the row advance (offsets d and s are relative to the values the guard tested)",
			core.Query{Region: f.region, Start: func(n ast.Node) bool { return movers[n] },
				Exit: func(n ast.Node) bool { return isStore(n) || n == ast.Node(f.guard.Cond) }}, true)

		// W2.recover: taken branch = checked flush(w, ej, false) then ej = eiLater.
		ranchor := anchor + "[guard taken]"
		bodyRegion := core.RegionOf(f.guard.Body)
		nonFinal := func(call *ast.CallExpr) bool {
			if !x.isFlushCall(call) || len(call.Args) != 3 {
				return false
			}
			v := core.ConstVal(info, call.Args[2])
			return x.isObj(call.Args[0], x.w) && x.isObj(call.Args[1], x.ej) && v != nil && v.Kind() == constant.Bool && !constant.BoolVal(v)
		}
		x.paths("W2.recover.flush", ranchor, "when the guard fires, the buffered bytes are written out by flush(w, ej, false) on every path that continues",
			core.Query{Region: bodyRegion, FallOut: true, Exit: fl.SuccessReturn, Events: []core.Event{core.CallEvent(nonFinal)}}, false)
		resetOK := len(f.recov) == 1 && f.recov[0].ok && f.recov[0].abs && f.recov[0].val == x.eiLater
		if !resetOK {
			var d []string
			for _, a := range f.recov {
				d = append(d, fmt.Sprintf("%s `%s`", x.pos(a.stmt), x.src(a.stmt)))
			}
			c.Fail("W2.recover.reset", ranchor, fmt.Sprintf("the only cursor assignment in the recovery is `ej = eiLater` (%#x: where a later chunk's payload starts)", x.eiLater), len(f.recov),
				fmt.Sprintf("%s: cursor assignments in the guard body: [%s]", x.pos(f.guard), strings.Join(d, "; ")))
		} else {
			x.paths("W2.recover.reset", ranchor, "after the flush the cursor is reset to eiLater on every path that continues to the stores",
				core.Query{Region: bodyRegion, FallOut: true, Exit: fl.SuccessReturn, Events: []core.Event{{Node: recovNode}}}, false)
			x.paths("W2.recover.order", ranchor, "the cursor is reset only after the flush has seen the old cursor value",
				core.Query{Region: bodyRegion, Start: recovNode, Exit: func(n ast.Node) bool { return core.Guaranteed(n, x.isFlushCall) }}, true)
		}
	}

	for _, f := range frags {
		if f.clause != nil {
			continue
		}
		filterSeen++
		anchor := x.fn + "[filter byte]"
		f.name = "filter byte"
		checkFrag(f, anchor, 1, false, map[int64]int64{0: 0}, "row (the filter-type byte)")
		c.Check(len(f.advs) == 0, "W1.advance", anchor, "the filter-byte fragment does not consume source bytes", 1, fmt.Sprintf("%s: row is re-sliced in the filter fragment", x.pos(f.guard)))
	}
	if filterSeen != 1 {
		c.Undecided("W1.guard", x.fn+"[filter byte]", "the row loop holds exactly one guarded filter-byte fragment before the dispatch switch", fmt.Sprintf("%d found", filterSeen))
	}

	nCaseFrag := 0
	for _, cb := range combos {
		if len(cb.clauses) != 1 {
			continue
		}
		cc := cb.clauses[0]
		anchor := x.fn + "[case " + cb.name + "]"
		fs := fragOfClause[cc]
		if len(fs) != 1 {
			c.Undecided("W1.guard", anchor, "the case holds exactly one guarded pixel loop", fmt.Sprintf("%s: %d guarded loops in this case clause", x.pos(cc), len(fs)))
			continue
		}
		f := fs[0]
		nCaseFrag++
		bps := cb.depthVal / 8
		pngEnc, have := enc.byVal[cb.val&^cb.depthVal]
		if !enc.ok || !have {
			c.Undecided("H1.match", anchor, "the PNG colour type written for this case is known", "pngFileFormatEncoding table not extracted")
			continue
		}
		dstCh, legal := c19pngChannels[pngEnc]
		if !legal {
			c.Fail("H1.match", anchor, "the IHDR colour type of this case is a PNG colour type", 1, fmt.Sprintf("pngFileFormatEncoding gives %d", pngEnc))
			continue
		}
		K := bps * dstCh
		S := bps * cb.col.srcCh
		expect := map[int64]int64{}
		for ch := int64(0); ch < dstCh; ch++ {
			for b := int64(0); b < bps; b++ {
				// PNG byte (ch, b) <- source byte of channel ch, byte b (both most significant first).
				expect[ch*bps+b] = ch*bps + b
			}
		}
		c.Check(dstCh <= cb.col.srcCh, "H1.match", anchor,
			fmt.Sprintf("a decoder reads (depth/8) x channels(IHDR colour type) = %d x %d = %d bytes per pixel, all of which exist in the %d-byte source pixel", bps, dstCh, K, S), 1,
			fmt.Sprintf("IHDR colour type %d has %d channels but %s supplies %d", pngEnc, dstCh, cb.col.name, cb.col.srcCh))
		checkFrag(f, anchor, K, true, expect, "pixel")

		// W1.advance
		if len(f.advs) == 1 && f.advs[0].ok {
			c.Check(f.advs[0].delta == S, "W1.advance", anchor, fmt.Sprintf("each iteration consumes one source pixel: row advances by %d = (depth/8) x %d source channels", S, cb.col.srcCh), 1,
				fmt.Sprintf("%s: `%s` advances by %d, expected %d", x.pos(f.advs[0].stmt), x.src(f.advs[0].stmt), f.advs[0].delta, S))
		} else {
			c.Fail("W1.advance", anchor, fmt.Sprintf("row advances exactly once per pixel, by the constant %d", S), len(f.advs), fmt.Sprintf("%s: %d recognised row advances in the loop body", x.pos(f.loop), len(f.advs)))
		}
		// W1.loop
		if _, why := x.countedLoop(f.loop, x.width); why != "" {
			c.Fail("W1.loop", anchor, "the pixel loop runs exactly width times (for x := 0; x < width; x++, x and width untouched, no break)", 1, fmt.Sprintf("%s: %s", x.pos(f.loop), why))
		} else {
			c.Pass("W1.loop", anchor, "the pixel loop runs exactly width times (for x := 0; x < width; x++, x and width untouched, no break)", 1, x.pos(f.loop))
		}
		// W1.slice: row = row[:S*width] as a direct statement of the clause, before the loop on every path.
		var caps []ast.Stmt
		var capS []int64
		for _, s := range cc.Body {
			if kind, e, ok := x.rowAssign(s); ok {
				if kind == "cap" {
					if v, ok := x.timesObj(e, x.width); ok {
						caps = append(caps, s)
						capS = append(capS, v)
						fragOfStmt[s] = f
					}
				}
			}
		}
		if len(caps) != 1 {
			c.Fail("W1.slice", anchor, fmt.Sprintf("the case re-slices row to exactly %d*width bytes before its loop", S), len(caps), fmt.Sprintf("%s: %d statements of the form row = row[:S*width] in this case", x.pos(cc), len(caps)))
		} else {
			c.Check(capS[0] == S, "W1.slice", anchor,
				fmt.Sprintf("row is cut to %d*width bytes = width source pixels of (depth/8) x %d channels: a longer cut rejects valid last rows, a shorter one panics mid-row after bytes were emitted", S, cb.col.srcCh), 1,
				fmt.Sprintf("%s: `%s` cuts to %d*width, expected %d*width", x.pos(caps[0]), x.src(caps[0]), capS[0], S))
			capNode := caps[0]
			x.paths("W1.slice.order", anchor, "the cut happens before the first iteration of the pixel loop",
				core.Query{Region: core.Region{Lo: cc.Colon, Hi: cc.End()}, Events: []core.Event{{Node: func(n ast.Node) bool { return n == ast.Node(capNode) }}},
					Exit: func(n ast.Node) bool { return n == ast.Node(f.loop.Cond) || isStore(n) }}, false)
		}
	}
	c.Floor("W1.case", "case clauses with a recognised pixel loop", nCaseFrag, 6)
	c.Floor("W1.stores", "byte stores into e.buf inside recognised fragments (1 + 1+3+4 + 2+6+8)", nStores, 25)

	// ---- W3: the row loop ----
	ranchor := x.fn + "[row loop]"
	yv, why := x.countedLoop(forY, x.height)
	if why == "" && x.parent[forY] != ast.Node(body) {
		why = "the row loop is nested inside another statement, so it may run more or fewer than once"
	}
	if why != "" {
		c.Fail("W3.rows", ranchor, "the row loop runs exactly height times (for y := 0; y < height; y++)", 1, fmt.Sprintf("%s: %s", x.pos(forY), why))
	} else {
		c.Pass("W3.rows", ranchor, "the row loop runs exactly height times (for y := 0; y < height; y++)", 1, x.pos(forY))
	}
	var rowDef ast.Stmt
	nRowDef := 0
	for _, s := range forY.Body.List {
		if kind, e, ok := x.rowAssign(s); ok && kind == "def" {
			nRowDef++
			if yv != nil {
				if b, ok := ast.Unparen(e).(*ast.BinaryExpr); ok && b.Op == token.MUL &&
					((x.isObj(b.X, yv) && x.isObj(b.Y, x.stride)) || (x.isObj(b.Y, yv) && x.isObj(b.X, x.stride))) {
					rowDef = s
				}
			}
		}
	}
	if rowDef == nil || nRowDef != 1 {
		c.Fail("W3.rowdef", ranchor, "each row starts at pix[y*stride:] (y the row counter, stride the caller's byte stride)", nRowDef, fmt.Sprintf("%s: no direct statement `row := pix[y*stride:]` in the row loop", x.pos(forY)))
	} else {
		c.Pass("W3.rowdef", ranchor, "each row starts at pix[y*stride:] (y the row counter, stride the caller's byte stride)", 1, x.pos(rowDef))
		fragOfStmt[rowDef] = &c19frag{}
		var filterStore ast.Node
		for _, f := range frags {
			if f.clause == nil && len(f.stores) == 1 {
				filterStore = f.stores[0].stmt
			}
		}
		for _, need := range []struct {
			what string
			node ast.Node
		}{{"filter-byte store", filterStore}, {"row definition", rowDef}} {
			if need.node == nil {
				c.Undecided("W3.filter", ranchor+"["+need.what+"]", "the "+need.what+" exists", "not found")
				continue
			}
			nd := need.node
			x.paths("W3.filter", ranchor+"["+need.what+"]", "on every path from the top of the row loop's body to the pixel dispatch, the "+need.what+" was executed",
				core.Query{Region: core.RegionOf(forY.Body), Exit: func(n ast.Node) bool { return n == ast.Node(tagSw.Tag) },
					Events: []core.Event{{Node: func(n ast.Node) bool { return n == nd }}}}, false)
		}
	}

	// ---- W4: nothing else touches ej, row or the receiver ----
	var stray []string
	nClassified := 0
	ast.Inspect(body, func(n ast.Node) bool {
		switch t := n.(type) {
		case ast.Stmt:
			_, isEj := x.ejAssign(t)
			_, _, isRow := x.rowAssign(t)
			isSt := len(x.storesOf(t)) > 0
			if isEj || isRow || isSt {
				_, known := fragOfStmt[t]
				if isEj {
					if as, ok := t.(*ast.AssignStmt); ok && as.Tok == token.DEFINE {
						known = true // checked under K1.start
					}
				}
				if known {
					nClassified++
				} else {
					stray = append(stray, fmt.Sprintf("%s: `%s` assigns the cursor, the row slice or e.buf outside the recognised fragment shape", x.pos(t), x.src(t)))
				}
			}
		case *ast.UnaryExpr:
			if t.Op == token.AND && (x.isObj(t.X, x.ej) || x.isObj(t.X, x.row)) {
				stray = append(stray, fmt.Sprintf("%s: address of the cursor / row slice taken", x.pos(t)))
			}
		case *ast.Ident:
			if x.info.Uses[t] != x.recv {
				return true
			}
			// Allowed: e.buf as the indexed operand of an index expression, e.init(…), e.flush(…).
			p := x.parent[t]
			if sel, ok := p.(*ast.SelectorExpr); ok && sel.X == ast.Expr(t) {
				pp := x.parent[sel]
				if x.info.Uses[sel.Sel] == x.bufField {
					if ix, ok := pp.(*ast.IndexExpr); ok && ix.X == ast.Expr(sel) {
						nClassified++
						return true
					}
				}
				if call, ok := pp.(*ast.CallExpr); ok && call.Fun == ast.Expr(sel) {
					if fn := core.Callee(info, call); fn == x.flushFn || fn == x.initFn {
						nClassified++
						return true
					}
				}
			}
			stray = append(stray, fmt.Sprintf("%s: the receiver is used in `%s`, which is neither an element of e.buf, e.init(…) nor e.flush(…)", x.pos(t), x.src(p)))
		}
		return true
	})
	c.Check(len(stray) == 0, "W4.stray", x.fn, "every assignment to the cursor, to the row slice and every use of the receiver in Encode belongs to a recognised fragment (guard; stores; increment; advance), to the cursor/row definitions, or is a call of init/flush: the invariant ej <= ejMax has no other writer", nClassified, strings.Join(stray, "\n"))
	c.Floor("W4.stray", "classified cursor/row/receiver uses (1 def + 14 cursor + 13 row assignments, 25 store statements, 34 receiver uses = 87)", nClassified, 80)

	// ---- F1: every flush site ----
	nSites := 0
	for i, call := range flushCalls {
		nSites++
		site := fmt.Sprintf("%s[flush #%d", x.fn, i+1)
		owner := ""
		for _, f := range frags {
			for _, fc := range f.flush {
				if fc == call {
					owner = f.name
					if f.clause != nil {
						for _, cb := range combos {
							if len(cb.clauses) == 1 && cb.clauses[0] == f.clause {
								owner = "case " + cb.name
							}
						}
					}
				}
			}
		}
		path := core.PathTo(body, call)
		var ret *ast.ReturnStmt
		var asg *ast.AssignStmt
		if len(path) >= 2 {
			switch p := path[len(path)-2].(type) {
			case *ast.ReturnStmt:
				if len(p.Results) == 1 {
					ret = p
				}
			case *ast.AssignStmt:
				if len(p.Lhs) == 1 && len(p.Rhs) == 1 {
					asg = p
				}
			}
		}
		if owner == "" {
			if ret != nil {
				owner = "final"
			} else {
				owner = "unattached"
			}
		}
		site += " " + owner + "]"
		// arguments
		final := false
		argsOK := len(call.Args) == 3 && x.isObj(call.Args[0], x.w) && x.isObj(call.Args[1], x.ej)
		if argsOK {
			v := core.ConstVal(info, call.Args[2])
			if v == nil || v.Kind() != constant.Bool {
				argsOK = false
			} else {
				final = constant.BoolVal(v)
			}
		}
		switch {
		case !argsOK:
			c.Fail("F1.args", site, "flush is called as flush(w, ej, <constant bool>) with Encode's writer and cursor", 1, fmt.Sprintf("%s: `%s`", x.pos(call), x.src(call)))
		case ret != nil && call.Pos() >= forY.Pos() && call.End() <= forY.End():
			c.Fail("F1.args", site, "the image is finished (flush in return position) only after the row loop: all height rows have been stored", 1, fmt.Sprintf("%s: `%s` ends the image from inside the row loop", x.pos(call), x.src(ret)))
		case ret != nil:
			c.Check(final, "F1.args", site, "a flush in return position is the final one (final = true: Adler-32 and IEND are appended) and comes after the row loop", 1, fmt.Sprintf("%s: `%s` ends the image with final = false: no Adler-32, no IEND", x.pos(call), x.src(call)))
		default:
			c.Check(!final, "F1.args", site, "a flush inside the loops is not final (final = false): a final block / IEND in mid-stream truncates the image", 1, fmt.Sprintf("%s: `%s` passes final = true before the last row is done", x.pos(call), x.src(call)))
		}
		claim := "the error returned by this flush (the io.Writer's error) is returned by Encode: tested non-nil on every continuation, and the non-nil branch does not reach a success exit"
		switch {
		case ret != nil:
			c.Pass("F1.flusherr", site, claim, 1, fmt.Sprintf("%s: returned directly", x.pos(ret)))
		case asg != nil && fl.Obj(asg.Lhs[0]) != nil:
			ev := fl.Obj(asg.Lhs[0])
			isEv := func(e ast.Expr) bool { return x.isObj(e, ev) }
			x.paths("F1.flusherr", site, claim, core.Query{
				Start: func(n ast.Node) bool { return n == ast.Node(asg) },
				Events: []core.Event{{Edge: func(cond ast.Expr, ci *core.CondInfo, taken bool) bool {
					return (!taken && nilTest(fl, cond, isEv, false)) || (taken && nilTest(fl, cond, isEv, true))
				}}},
				Exit: func(n ast.Node) bool {
					if fl.SuccessReturn(n) {
						return true
					}
					if as, ok := n.(*ast.AssignStmt); ok {
						for _, l := range as.Lhs {
							if x.isObj(l, ev) {
								return true // overwritten before it was tested
							}
						}
					}
					return false
				},
				FuncEnd: true,
			}, false)
			// The non-nil branch must end in an error return: from the true edge no success exit is reachable
			// before leaving through `return err` — covered by the same query (the true edge is followed).
		default:
			c.Fail("F1.flusherr", site, claim, 1, fmt.Sprintf("%s: the result of `%s` is discarded", x.pos(call), x.src(call)))
		}
	}
	c.Floor("F1", "flush call sites in Encode (7 guards + the final one)", nSites, 8)

	// ---- F2: every success exit is the final flush ----
	finalFlush := func(call *ast.CallExpr) bool {
		if !x.isFlushCall(call) || len(call.Args) != 3 {
			return false
		}
		v := core.ConstVal(info, call.Args[2])
		return x.isObj(call.Args[0], x.w) && x.isObj(call.Args[1], x.ej) && v != nil && v.Kind() == constant.Bool && constant.BoolVal(v)
	}
	x.paths("F2.final", x.fn, "every exit of Encode that may report success passes flush(w, ej, true), which emits the last stored block, the Adler-32 and IEND",
		core.Query{Events: []core.Event{core.CallEvent(finalFlush)}, Exit: fl.SuccessReturn, FuncEnd: true}, false)

	// ---- V1: argument validation precedes every write ----
	firstEffect := func(n ast.Node) bool {
		return isStore(n) || core.Guaranteed(n, func(call *ast.CallExpr) bool {
			return x.isFlushCall(call) || core.IsCallTo(info, call, x.initFn)
		})
	}
	handledDepth := map[int64]bool{}
	for _, cb := range combos {
		handledDepth[cb.depthVal] = true
	}
	depthAtom := func(e ast.Expr) bool {
		parts := flattenAnd(e)
		if len(parts) == 0 {
			return false
		}
		for _, p := range parts {
			b, ok := ast.Unparen(p).(*ast.BinaryExpr)
			if !ok || b.Op != token.NEQ {
				return false
			}
			var other ast.Expr
			switch {
			case x.isObj(b.X, x.depth):
				other = b.Y
			case x.isObj(b.Y, x.depth):
				other = b.X
			default:
				return false
			}
			v, ok := core.ConstInt64(info, other)
			if !ok || !handledDepth[v] {
				return false
			}
		}
		return true
	}
	x.paths("V1.depth", x.fn+"[validation]", "before init/flush/any store, a test `depth != D1 && depth != D2 …` (every Di a depth that has cases) was passed on its false edge: only depths with case clauses reach the row loop",
		core.Query{Exit: firstEffect, Events: []core.Event{{Edge: func(cond ast.Expr, ci *core.CondInfo, taken bool) bool {
			if taken {
				return false
			}
			for _, at := range flattenOr(cond) {
				if depthAtom(at) {
					return true
				}
			}
			return false
		}}}}, false)
	encCall := func(e ast.Expr) bool {
		call, ok := ast.Unparen(e).(*ast.CallExpr)
		if !ok {
			return false
		}
		fn := core.Callee(info, call)
		return fn != nil && fn.Name() == "pngFileFormatEncoding" && fn.Pkg() != nil && strings.HasSuffix(fn.Pkg().Path(), relPng) && x.isObj(core.RecvOf(call), x.colorType)
	}
	x.paths("V1.colortype", x.fn+"[validation]", fmt.Sprintf("before init/flush/any store, `colorType.pngFileFormatEncoding() == %#x` (the function's fallback value) was passed on its false edge: only the three listed colour types reach the row loop", enc.fallback),
		core.Query{Exit: firstEffect, Events: []core.Event{{Edge: func(cond ast.Expr, ci *core.CondInfo, taken bool) bool {
			if taken || !enc.ok {
				return false
			}
			for _, at := range flattenOr(cond) {
				if eqTest(fl, at, encCall, func(e ast.Expr) bool {
					v, ok := core.ConstInt64(info, e)
					return ok && v == enc.fallback
				}, true) {
					return true
				}
			}
			return false
		}}}}, false)

	// ---- H2: init is called with Encode's own arguments before any flush/store, and writes IHDR ----
	initOK := func(call *ast.CallExpr) bool {
		return core.IsCallTo(info, call, x.initFn) && x.isObj(core.RecvOf(call), x.recv) && len(call.Args) == 4 &&
			x.isObj(call.Args[0], x.width) && x.isObj(call.Args[1], x.height) && x.isObj(call.Args[2], x.depth) && x.isObj(call.Args[3], x.colorType)
	}
	x.paths("H2.init", x.fn, "e.init(width, height, depth, colorType) — Encode's own arguments, in that order — runs before the first flush or store (it writes signature, IHDR and the chunk headers that eiFirst skips)",
		core.Query{Exit: func(n ast.Node) bool {
			return isStore(n) || core.Guaranteed(n, x.isFlushCall)
		}, Events: []core.Event{core.CallEvent(initOK)}}, false)
	c.Check(len(initCalls) == 1, "H2.init", x.fn+"[once]", "init is called once per Encode (a second call would reset the Adler-32 state and the first-chunk marker)", len(initCalls), fmt.Sprintf("%d calls of init in Encode", len(initCalls)))
	x.ihdr(flInit)
}

// ihdr: in init, the stores of byte(depth) and colorType.pngFileFormatEncoding().
func (x *c19ck) ihdr(fi *core.Flow) {
	c := x.c
	info := fi.F.Info()
	anchor := fi.F.Name()
	recv := fi.Recv()
	pDepth, pCol := fi.Param(2), fi.Param(3)
	if recv == nil || pDepth == nil || pCol == nil {
		c.Undecided("H2.ihdr", anchor, "init(width, height, depth, colorType)", "parameters not found")
		return
	}
	is := func(e ast.Expr, o types.Object) bool {
		id, ok := ast.Unparen(e).(*ast.Ident)
		return ok && info.Uses[id] == o
	}
	depthAt, colAt := []int64{}, []int64{}
	at := map[int64][]string{}
	ast.Inspect(fi.F.Decl.Body, func(n ast.Node) bool {
		as, ok := n.(*ast.AssignStmt)
		if !ok || len(as.Lhs) != len(as.Rhs) {
			return true
		}
		for i, l := range as.Lhs {
			ix, ok := ast.Unparen(l).(*ast.IndexExpr)
			if !ok {
				continue
			}
			sel, ok := ast.Unparen(ix.X).(*ast.SelectorExpr)
			if !ok || info.Uses[sel.Sel] != x.bufField || !is(sel.X, recv) {
				continue
			}
			idx, ok := core.ConstInt64(info, ix.Index)
			if !ok {
				continue
			}
			at[idx] = append(at[idx], x.src(as.Rhs[i]))
			r := ast.Unparen(as.Rhs[i])
			if call, ok := r.(*ast.CallExpr); ok {
				if tv, isT := info.Types[call.Fun]; isT && tv.IsType() && len(call.Args) == 1 && is(call.Args[0], pDepth) {
					if b, ok := tv.Type.Underlying().(*types.Basic); ok && (b.Kind() == types.Uint8) {
						depthAt = append(depthAt, idx)
					}
				}
				if fn := core.Callee(info, call); fn != nil && fn.Name() == "pngFileFormatEncoding" && is(core.RecvOf(call), pCol) {
					colAt = append(colAt, idx)
				}
			}
		}
		return true
	})
	const sig, chunkHdr = 8, 8
	wantDepth, wantCol := int64(sig+chunkHdr+8), int64(sig+chunkHdr+9)
	c.Check(len(depthAt) == 1 && depthAt[0] == wantDepth && len(at[wantDepth]) == 1, "H2.ihdr", anchor+"[bit depth]",
		fmt.Sprintf("init stores byte(depth) — the very parameter the cases dispatch on — at e.buf[%#x] (8-byte signature + 8-byte chunk header + IHDR offset 8) and nothing else there", wantDepth), 1,
		fmt.Sprintf("%s: byte(depth) stored at %v; stores at %#x: %v", x.k.g.Pos(fi.F.Decl.Pos()), depthAt, wantDepth, at[wantDepth]))
	c.Check(len(colAt) == 1 && colAt[0] == wantCol && len(at[wantCol]) == 1, "H2.ihdr", anchor+"[colour type]",
		fmt.Sprintf("init stores colorType.pngFileFormatEncoding() at e.buf[%#x] (IHDR offset 9) and nothing else there", wantCol), 1,
		fmt.Sprintf("%s: encoding stored at %v; stores at %#x: %v", x.k.g.Pos(fi.F.Decl.Pos()), colAt, wantCol, at[wantCol]))
}
