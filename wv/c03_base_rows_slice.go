package main

// Contract rows: slice and table helpers (fundamental-public.h, fundamental-private.h).

import "fmt"

func bAllRows() []bRow {
	var rows []bRow
	rows = append(rows, bSliceRows()...)
	rows = append(rows, bTableRows()...)
	rows = append(rows, bIORows()...)
	rows = append(rows, bCopyRows()...)
	rows = append(rows, bHistoryRows()...)
	rows = append(rows, bMatchRows()...)
	rows = append(rows, bPeekPokeRows()...)
	rows = append(rows, bNumRows()...)
	return rows
}

func bSliceRows() []bRow {
	return []bRow{
		{fn: "wuffs_base__make_slice_u8", rule: "B.exact.slice", reason: "make_slice_u8(ptr, len) = (ptr, len)", run: func(x *bx) {
			for _, sc := range x.sliceCases() {
				for _, n := range x.idxSize(sc.n) {
					if x.done() {
						return
					}
					sc, n := sc, n
					x.begin(func() string { return fmt.Sprintf("ptr=%s len=%d", bPtrStr(x.p8(sc.b, sc.off)), n) })
					if ret, ok := x.call(x.p8(sc.b, sc.off), x.sz(n)); ok {
						x.expectSlice(ret, sc.b, sc.off, n)
					}
				}
			}
		}},
		{fn: "wuffs_base__make_slice_u8_ij", rule: "B.exact.slice", reason: "make_slice_u8_ij(ptr, i, j) = (ptr ? ptr+i : NULL, j >= i ? j-i : 0); cgen slices arrays with it after the checker proved i <= j <= N", run: func(x *bx) {
			for _, sc := range x.sliceCases() {
				for _, i := range x.idxSize(sc.n) {
					for _, j := range x.idxSize(sc.n, i) {
						if x.done() {
							return
						}
						sc, i, j := sc, i, j
						x.begin(func() string {
							return fmt.Sprintf("ptr=%s (object of %d bytes) i=%d j=%d", bPtrStr(x.p8(sc.b, sc.off)), sc.n, i, j)
						})
						ret, ok := x.call(x.p8(sc.b, sc.off), x.sz(i), x.sz(j))
						if !ok {
							continue
						}
						wn := uint64(0)
						if j >= i {
							wn = j - i
						}
						if sc.b == nil {
							x.expectSlice(ret, nil, 0, wn)
						} else {
							x.expectSlice(ret, sc.b, sc.off+int64(i), wn)
						}
					}
				}
			}
		}},
		{fn: "wuffs_base__empty_slice_u8", rule: "B.exact.slice", reason: "empty_slice_u8() = (NULL, 0); every out-of-range answer of the other helpers is built from it", run: func(x *bx) {
			x.begin(func() string { return "()" })
			if ret, ok := x.call(); ok {
				x.expectSlice(ret, nil, 0, 0)
			}
		}},
		{fn: "wuffs_base__slice_u8__subslice_i", rule: "B.exact.slice", reason: "s[i ..] = i <= len ? (ptr+i, len-i) : empty", run: func(x *bx) {
			for _, sc := range x.sliceCases() {
				for _, i := range x.idx64(sc.n) {
					if x.done() {
						return
					}
					sc, i := sc, i
					x.begin(func() string { return fmt.Sprintf("s=%s i=%d", bSliceStr(x.slice(sc.b, sc.off, sc.n)), i) })
					ret, ok := x.call(x.slice(sc.b, sc.off, sc.n), x.u64(i))
					if !ok {
						continue
					}
					if i <= sc.n {
						x.expectSlice(ret, sc.b, sc.off+int64(i), sc.n-i)
					} else {
						x.expectSlice(ret, nil, 0, 0)
					}
				}
			}
		}},
		{fn: "wuffs_base__slice_u8__subslice_j", rule: "B.exact.slice", reason: "s[.. j] = j <= len ? (ptr, j) : empty", run: func(x *bx) {
			for _, sc := range x.sliceCases() {
				for _, j := range x.idx64(sc.n) {
					if x.done() {
						return
					}
					sc, j := sc, j
					x.begin(func() string { return fmt.Sprintf("s=%s j=%d", bSliceStr(x.slice(sc.b, sc.off, sc.n)), j) })
					ret, ok := x.call(x.slice(sc.b, sc.off, sc.n), x.u64(j))
					if !ok {
						continue
					}
					if j <= sc.n {
						x.expectSlice(ret, sc.b, sc.off, j)
					} else {
						x.expectSlice(ret, nil, 0, 0)
					}
				}
			}
		}},
		{fn: "wuffs_base__slice_u8__subslice_ij", rule: "B.exact.slice", reason: "s[i .. j] = i <= j <= len ? (ptr+i, j-i) : empty", run: func(x *bx) {
			for _, sc := range x.sliceCases() {
				for _, i := range x.idx64(sc.n) {
					for _, j := range x.idx64(sc.n, i) {
						if x.done() {
							return
						}
						sc, i, j := sc, i, j
						x.begin(func() string { return fmt.Sprintf("s=%s i=%d j=%d", bSliceStr(x.slice(sc.b, sc.off, sc.n)), i, j) })
						ret, ok := x.call(x.slice(sc.b, sc.off, sc.n), x.u64(i), x.u64(j))
						if !ok {
							continue
						}
						if i <= j && j <= sc.n {
							x.expectSlice(ret, sc.b, sc.off+int64(i), j-i)
						} else {
							x.expectSlice(ret, nil, 0, 0)
						}
					}
				}
			}
		}},
		{fn: "wuffs_base__slice_u8__overlaps", rule: "B.exact.slice", reason: "two non-empty slices: overlaps(s, t) iff the byte ranges intersect (a false answer for intersecting ranges lets a caller treat them as independent)", run: func(x *bx) {
			b := x.e.newBuf(12, false)
			for so := int64(0); so <= 8; so++ {
				for sn := uint64(1); sn <= 4; sn++ {
					for to := int64(0); to <= 8; to++ {
						for tn := uint64(1); tn <= 4; tn++ {
							if x.done() {
								return
							}
							so, sn, to, tn := so, sn, to, tn
							x.begin(func() string {
								return fmt.Sprintf("s=[%d,%d) t=[%d,%d) of one object", so, so+int64(sn), to, to+int64(tn))
							})
							ret, ok := x.call(x.slice(b, so, sn), x.slice(b, to, tn))
							if !ok {
								continue
							}
							want := so < to+int64(tn) && to < so+int64(sn)
							x.expect((ret.u != 0) == want, "got %v, want %v", ret.u != 0, want)
						}
					}
				}
			}
			// distinct objects never overlap
			b2 := x.e.newBuf(4, false)
			x.begin(func() string { return "s, t in different objects" })
			if ret, ok := x.call(x.slice(b, 0, 4), x.slice(b2, 0, 4)); ok {
				x.expect(ret.u == 0, "got true, want false")
			}
		}},
		{fn: "wuffs_private_impl__ptr_u8_plus_len", rule: "B.exact.slice", reason: "ptr_u8_plus_len(ptr, len) = ptr ? ptr+len : NULL (the end pointer of every iterate round)", run: func(x *bx) {
			for _, sc := range x.sliceCases() {
				for _, n := range x.idxSize(sc.n) {
					if sc.b == nil && n != 0 {
						continue // pre-condition: ptr != NULL || len == 0 — NULL is answered with NULL for any len, checked below
					}
					if x.done() {
						return
					}
					sc, n := sc, n
					x.begin(func() string { return fmt.Sprintf("ptr=%s len=%d", bPtrStr(x.p8(sc.b, sc.off)), n) })
					ret, ok := x.call(x.p8(sc.b, sc.off), x.sz(n))
					if !ok {
						continue
					}
					if sc.b == nil {
						x.expect(ret.isNull(), "got %s, want NULL", bPtrStr(ret))
					} else {
						x.expect(bSamePtr(ret, sc.b, sc.off+int64(n)), "got %s, want buf%d+%d", bPtrStr(ret), sc.b.id, sc.off+int64(n))
					}
				}
			}
			x.begin(func() string { return "ptr=NULL len=5" })
			if ret, ok := x.call(x.p8(nil, 0), x.sz(5)); ok {
				x.expect(ret.isNull(), "got %s, want NULL", bPtrStr(ret))
			}
		}},
		{fn: "wuffs_private_impl__slice_u8__prefix", rule: "B.exact.slice", reason: "prefix(s, up_to) = (ptr, min(len, up_to))", run: func(x *bx) {
			for _, sc := range x.sliceCases() {
				for _, u := range x.idx64(sc.n) {
					if x.done() {
						return
					}
					sc, u := sc, u
					x.begin(func() string { return fmt.Sprintf("s=%s up_to=%d", bSliceStr(x.slice(sc.b, sc.off, sc.n)), u) })
					ret, ok := x.call(x.slice(sc.b, sc.off, sc.n), x.u64(u))
					if !ok {
						continue
					}
					n := sc.n
					if u < n {
						n = u
					}
					x.expectSlice(ret, sc.b, sc.off, n)
				}
			}
		}},
		{fn: "wuffs_private_impl__slice_u8__suffix", rule: "B.exact.slice", reason: "suffix(s, up_to) = (ptr + len - k, k) with k = min(len, up_to)", run: func(x *bx) {
			for _, sc := range x.sliceCases() {
				for _, u := range x.idx64(sc.n) {
					if x.done() {
						return
					}
					sc, u := sc, u
					x.begin(func() string { return fmt.Sprintf("s=%s up_to=%d", bSliceStr(x.slice(sc.b, sc.off, sc.n)), u) })
					ret, ok := x.call(x.slice(sc.b, sc.off, sc.n), x.u64(u))
					if !ok {
						continue
					}
					n := sc.n
					if u < n {
						n = u
					}
					x.expectSlice(ret, sc.b, sc.off+int64(sc.n-n), n)
				}
			}
		}},
	}
}

// bTableCase is a table that exists in memory: width <= stride (or height <= 1) and the
// backing object has exactly the flattened length (height-1)*stride + width.
type bTableCase struct {
	b       *cbuf
	w, h, s uint64
}

func (x *bx) tableCases() []bTableCase {
	out := []bTableCase{{nil, 0, 0, 0}}
	for w := uint64(0); w <= 3; w++ {
		for h := uint64(0); h <= 4; h++ {
			for _, s := range []uint64{w, w + 1, w + 3} {
				fl := uint64(0)
				if h > 0 {
					fl = (h-1)*s + w
				}
				out = append(out, bTableCase{x.e.newBuf(int64(fl), false), w, h, s})
			}
		}
	}
	// one large table per model: strides whose product with a row number needs the full width of size_t
	switch x.m.sizeBits {
	case 8:
		out = append(out, bTableCase{x.e.newBuf(4*50+40, false), 40, 5, 50})
	case 32:
		out = append(out, bTableCase{x.e.newBuf(3*(1<<30)+1000, false), 1000, 4, 1 << 30})
	default:
		out = append(out, bTableCase{x.e.newBuf(3*(1<<40)+1000, false), 1000, 4, 1 << 40})
	}
	return out
}

func bTableRows() []bRow {
	return []bRow{
		{fn: "wuffs_private_impl__table_u8__row_u32", rule: "B.bounded.table", reason: "row_u32(t, y) = (t.ptr && y < height) ? (ptr + stride·y, width) : empty — domain: width 0..3, height 0..4, stride width..width+3, one large table, y 0..6 and around height and 2^32", run: func(x *bx) {
			for _, tc := range x.tableCases() {
				for _, y := range x.u32s(6, tc.h-1, tc.h, tc.h+1) {
					if x.done() {
						return
					}
					tc, y := tc, y
					x.begin(func() string {
						return fmt.Sprintf("t=(%s, width %d, height %d, stride %d) y=%d", bPtrStr(x.p8(tc.b, 0)), tc.w, tc.h, tc.s, y)
					})
					ret, ok := x.call(x.table(tc.b, 0, tc.w, tc.h, tc.s), x.u32(y))
					if !ok {
						continue
					}
					if tc.b != nil && y < tc.h {
						if x.expectSlice(ret, tc.b, int64(tc.s*y), tc.w) {
							x.expect(int64(tc.s*y+tc.w) <= tc.b.size, "row [%d, %d) leaves the %d-byte table", tc.s*y, tc.s*y+tc.w, tc.b.size)
						}
					} else {
						x.expectSlice(ret, nil, 0, 0)
					}
				}
			}
		}},
		{fn: "wuffs_base__table_u8__subtable_ij", rule: "B.bounded.table", reason: "t[ix .. jx, iy .. jy] = (ix <= jx <= width && iy <= jy <= height) ? (ptr + ix + iy·stride, jx-ix, jy-iy, stride) : empty table; a non-empty result lies inside t — same table domain, coordinates 0..4, width/height and one more, and beyond SIZE_MAX", run: func(x *bx) {
			for _, tc := range x.tableCases() {
				cx := bDedup([]uint64{0, 1, 2, 3, tc.w, tc.w + 1, x.S() + 1, ^uint64(0)})
				cy := bDedup([]uint64{0, 1, 2, 4, tc.h, tc.h + 1, x.S() + 1, ^uint64(0)})
				for _, ix := range cx {
					for _, jx := range cx {
						for _, iy := range cy {
							for _, jy := range cy {
								if x.done() {
									return
								}
								tc, ix, jx, iy, jy := tc, ix, jx, iy, jy
								x.begin(func() string {
									return fmt.Sprintf("t=(%s, width %d, height %d, stride %d) ix=%d iy=%d jx=%d jy=%d", bPtrStr(x.p8(tc.b, 0)), tc.w, tc.h, tc.s, ix, iy, jx, jy)
								})
								ret, ok := x.call(x.table(tc.b, 0, tc.w, tc.h, tc.s), x.u64(ix), x.u64(iy), x.u64(jx), x.u64(jy))
								if !ok {
									continue
								}
								if ret.ty == nil || ret.ty.kind != ctStruct || ret.ty.field("stride") < 0 {
									x.expect(false, "result is not a table")
									continue
								}
								gp, gw, gh, gs := bFld(ret, "ptr"), bFld(ret, "width").u, bFld(ret, "height").u, bFld(ret, "stride").u
								got := fmt.Sprintf("(%s, width %d, height %d, stride %d)", bPtrStr(gp), gw, gh, gs)
								if ix <= jx && jx <= tc.w && iy <= jy && jy <= tc.h {
									ww, wh := jx-ix, jy-iy
									if !x.expect(gw == ww && gh == wh && gs == tc.s, "got %s, want width %d, height %d, stride %d", got, ww, wh, tc.s) {
										continue
									}
									if ww > 0 && wh > 0 {
										// non-empty: the pointer matters, and every row must lie inside t
										wo := int64(ix + iy*tc.s)
										x.expect(bSamePtr(gp, tc.b, wo), "got %s, want ptr buf+%d", got, wo)
										x.expect(wo+int64((wh-1)*tc.s+ww) <= tc.b.size, "sub-table leaves the %d-byte table", tc.b.size)
									}
								} else {
									x.expect(gp.isNull() && gw == 0 && gh == 0 && gs == 0, "got %s, want the empty table", got)
								}
							}
						}
					}
				}
			}
		}},
		{fn: "wuffs_base__table__flattened_length", rule: "B.bounded.table", reason: "flattened_length(w, h, stride) = h == 0 ? 0 : (h-1)·stride + w (the byte span that backs a table; pixel-buffer validation compares it with the slice length)", run: func(x *bx) {
			for _, tc := range x.tableCases() {
				if x.done() {
					return
				}
				tc := tc
				x.begin(func() string { return fmt.Sprintf("width=%d height=%d stride=%d", tc.w, tc.h, tc.s) })
				ret, ok := x.call(x.sz(tc.w), x.sz(tc.h), x.sz(tc.s))
				if !ok {
					continue
				}
				want := uint64(0)
				if tc.h > 0 {
					want = (tc.h-1)*tc.s + tc.w
				}
				x.expect(ret.u == want, "got %d, want %d", ret.u, want)
			}
		}},
		{fn: "wuffs_base__make_table_u8", rule: "B.bounded.table", reason: "make_table_u8(ptr, w, h, s) = (ptr, w, h, s)", run: func(x *bx) {
			for _, tc := range x.tableCases() {
				if x.done() {
					return
				}
				tc := tc
				x.begin(func() string {
					return fmt.Sprintf("ptr=%s width=%d height=%d stride=%d", bPtrStr(x.p8(tc.b, 0)), tc.w, tc.h, tc.s)
				})
				ret, ok := x.call(x.p8(tc.b, 0), x.sz(tc.w), x.sz(tc.h), x.sz(tc.s))
				if !ok {
					continue
				}
				if ret.ty == nil || ret.ty.kind != ctStruct || ret.ty.field("stride") < 0 {
					x.expect(false, "result is not a table")
					continue
				}
				x.expect(bSamePtr(bFld(ret, "ptr"), tc.b, 0) && bFld(ret, "width").u == tc.w && bFld(ret, "height").u == tc.h && bFld(ret, "stride").u == tc.s,
					"got (%s, %d, %d, %d)", bPtrStr(bFld(ret, "ptr")), bFld(ret, "width").u, bFld(ret, "height").u, bFld(ret, "stride").u)
			}
		}},
		{fn: "wuffs_private_impl__iterate_total_advance", rule: "B.bounded.iterate", reason: "for 1 <= A <= L: r = k·A with k = #{j >= 0 : j·A + L <= total}; r <= total — domain: L 1..6, A 1..L, total 0..40 and the top of size_t", run: func(x *bx) {
			S := x.S()
			totals := []uint64{}
			for t := uint64(0); t <= 40; t++ {
				totals = append(totals, t)
			}
			totals = append(totals, S-7, S-6, S-5, S-4, S-3, S-2, S-1, S)
			for L := uint64(1); L <= 6; L++ {
				for A := uint64(1); A <= L; A++ {
					for _, total := range totals {
						if x.done() {
							return
						}
						L, A, total := L, A, total
						x.begin(func() string { return fmt.Sprintf("total_len=%d iter_len=%d iter_advance=%d", total, L, A) })
						ret, ok := x.call(x.sz(total), x.sz(L), x.sz(A))
						if !ok {
							continue
						}
						// k by definition (counted; closed form only at the top of size_t to avoid a 2^64-step count)
						want := uint64(0)
						if total <= 1000 {
							for j := uint64(0); j*A+L <= total; j++ {
								want = (j + 1) * A
							}
						} else if total >= L {
							want = ((total-L)/A + 1) * A
						}
						if !x.expect(ret.u == want, "got %d, want %d (the last admitted chunk would end at %d of %d bytes)", ret.u, want, ret.u-A+L, total) {
							continue
						}
						x.expect(want <= total, "result %d exceeds total_len %d", want, total)
					}
				}
			}
		}},
	}
}
