package main

// C19, rule family I — "one Encoder can be reused": Encoder.init and the state
// that survives in e.buf between Encode calls.
//
// After an Encode call the 64 KiB buffer holds whatever the last chunk left
// there: for a multi-chunk image, bytes 0..12 are a later IDAT chunk's header
// and everything up to the old cursor is pixel data; the last four bytes hold
// the previous image's Adler-32. A second Encode call therefore produces a
// valid PNG only if init rebuilds, on EVERY path and from its arguments alone,
// every byte of the fixed prefix that flush does not rewrite itself:
//
//	I.cover    every index of signature, IHDR chunk (length, type, 13 payload
//	           bytes), IDAT type and zlib header is stored on all paths of init
//	           (must-analysis on go/cfg: intersection at joins)
//	I.bytes    those bytes have the values PNG prescribes: signature, length 13,
//	           "IHDR", big-endian width and height of init's first two parameters,
//	           compression/filter/interlace 0, "IDAT", a valid zlib CMF/FLG pair
//	I.crc      bytes 0x1D..0x20 are, on every path, the big-endian bytes of
//	           crc32IEEE(e.buf[0x0C:0x1D]) (chunk type + payload) computed AFTER
//	           the last store into that range; crc32IEEE does not write its argument
//	I.adler    the running Adler-32 that updateAdler32 keeps in four buffer bytes is
//	           reset by init to a = 1, b = 0 at exactly the indices updateAdler32
//	           reads and writes back
//	I.sentinel the byte flush tests to tell the first chunk from later ones is set by
//	           init to the tested value on all paths and changed by flush after a
//	           non-final Write
//	I.layout   eiFirst / eiLater are the sizes of the headers that precede the
//	           stored-block payload in the first / a later Write
//
// The placeholders that flush rewrites on every call (IDAT length, stored-block
// header) are deliberately NOT required of init: dropping init's zeroes there
// is behaviour-preserving.

import (
	"fmt"
	"go/ast"
	"go/constant"
	"go/token"
	"go/types"
	"sort"
	"strings"

	"golang.org/x/tools/go/cfg"

	"wv/core"
)

type c19bkind int

const (
	bkOther c19bkind = iota
	bkConst
	bkParam  // linear image of a parameter
	bkCRC    // linear image of a fresh crc32IEEE result
	bkStale  // was bkCRC, but the range was stored into afterwards
	bkVaries // different values on different paths
)

type c19bval struct {
	kind   c19bkind
	c      uint64
	param  types.Object
	img    string // canonical image string (bkParam, bkCRC)
	lo, hi int64  // bkCRC: the range the checksum was computed over
	desc   string
	pos    token.Pos
}

func (v c19bval) same(w c19bval) bool {
	return v.kind == w.kind && v.c == w.c && v.param == w.param && v.img == w.img && v.lo == w.lo && v.hi == w.hi
}

type c19ist struct {
	stored map[int64]c19bval
	crcVar map[types.Object][2]int64 // local holding crc32IEEE(e.buf[lo:hi]) that is still current
}

func (s *c19ist) clone() *c19ist {
	o := &c19ist{stored: map[int64]c19bval{}, crcVar: map[types.Object][2]int64{}}
	for k, v := range s.stored {
		o.stored[k] = v
	}
	for k, v := range s.crcVar {
		o.crcVar[k] = v
	}
	return o
}

func c19meet(a, b *c19ist) *c19ist {
	o := &c19ist{stored: map[int64]c19bval{}, crcVar: map[types.Object][2]int64{}}
	for k, v := range a.stored {
		if w, ok := b.stored[k]; ok {
			if v.same(w) {
				o.stored[k] = v
			} else {
				o.stored[k] = c19bval{kind: bkVaries, desc: v.desc + " | " + w.desc, pos: v.pos}
			}
		}
	}
	for k, v := range a.crcVar {
		if w, ok := b.crcVar[k]; ok && v == w {
			o.crcVar[k] = v
		}
	}
	return o
}

func c19sameState(a, b *c19ist) bool {
	if len(a.stored) != len(b.stored) || len(a.crcVar) != len(b.crcVar) {
		return false
	}
	for k, v := range a.stored {
		if w, ok := b.stored[k]; !ok || !v.same(w) {
			return false
		}
	}
	for k, v := range a.crcVar {
		if w, ok := b.crcVar[k]; !ok || v != w {
			return false
		}
	}
	return true
}

// c19bufAn follows the constant-index stores into <recv>.buf through one function.
type c19bufAn struct {
	x      *c19ck
	fl     *core.Flow
	info   *types.Info
	recv   types.Object
	crcFn  types.Object
	rule   string
	undec  []string
	nstore int
}

func (a *c19bufAn) isRecv(e ast.Expr) bool {
	id, ok := ast.Unparen(e).(*ast.Ident)
	return ok && a.recv != nil && a.info.Uses[id] == a.recv
}

func (a *c19bufAn) isBuf(e ast.Expr) bool {
	sel, ok := ast.Unparen(e).(*ast.SelectorExpr)
	return ok && a.info.Uses[sel.Sel] == a.x.bufField && a.isRecv(sel.X)
}

// bufSlice: e is <recv>.buf[lo:hi] with constant (or absent) bounds.
func (a *c19bufAn) bufSlice(e ast.Expr) (lo, hi int64, ok bool) {
	sl, isS := ast.Unparen(e).(*ast.SliceExpr)
	if !isS || sl.Slice3 || !a.isBuf(sl.X) {
		return 0, 0, false
	}
	lo, hi = 0, a.x.bufLen
	if sl.Low != nil {
		if lo, ok = core.ConstInt64(a.info, sl.Low); !ok {
			return 0, 0, false
		}
	}
	if sl.High != nil {
		if hi, ok = core.ConstInt64(a.info, sl.High); !ok {
			return 0, 0, false
		}
	}
	return lo, hi, true
}

// crcCall: e is crc32IEEE(<recv>.buf[lo:hi]).
func (a *c19bufAn) crcCall(e ast.Expr) (lo, hi int64, ok bool) {
	call, isC := ast.Unparen(e).(*ast.CallExpr)
	if !isC || len(call.Args) != 1 || a.crcFn == nil {
		return 0, 0, false
	}
	if fn := core.Callee(a.info, call); fn == nil || types.Object(fn) != a.crcFn {
		return 0, 0, false
	}
	return a.bufSlice(call.Args[0])
}

// image: e as a GF(2)-linear byte image of exactly one root (a parameter, a
// current crc variable, or an inline crc call).
func (a *c19bufAn) image(e ast.Expr, st *c19ist) (c19bval, bool) {
	var root ast.Expr
	var rootObj types.Object
	multiple := false
	ast.Inspect(e, func(m ast.Node) bool {
		x, isE := m.(ast.Expr)
		if !isE {
			return true
		}
		if _, _, ok := a.crcCall(x); ok {
			if root != nil {
				multiple = true
			}
			root = x
			return false
		}
		if id, ok := x.(*ast.Ident); ok {
			if v, ok := a.info.Uses[id].(*types.Var); ok && !v.IsField() && v.Parent() != v.Pkg().Scope() && types.Object(v) != a.recv {
				if root != nil && rootObj != types.Object(v) {
					multiple = true
				}
				root, rootObj = x, v
			}
		}
		return true
	})
	if root == nil || multiple {
		return c19bval{}, false
	}
	const nb = 32
	img := make([]uint64, nb)
	for i := 0; i <= nb; i++ {
		val := uint64(0)
		if i < nb {
			val = 1 << uint(i)
		}
		le := &linEval{info: a.info, leaf: func(x ast.Expr) (uint64, bool) {
			x = ast.Unparen(x)
			if rootObj != nil {
				if id, ok := x.(*ast.Ident); ok && a.info.Uses[id] == rootObj {
					return val, true
				}
				return 0, false
			}
			if x == ast.Unparen(root) {
				return val, true
			}
			return 0, false
		}}
		out, ok := le.at(e)
		if !ok || (i == nb && out != 0) {
			return c19bval{}, false
		}
		if i < nb {
			img[i] = out & 0xFF
		}
	}
	bv := c19bval{img: imgString(img)}
	if rootObj == nil {
		lo, hi, _ := a.crcCall(root)
		bv.kind, bv.lo, bv.hi = bkCRC, lo, hi
		return bv, true
	}
	if r, ok := st.crcVar[rootObj]; ok {
		bv.kind, bv.lo, bv.hi = bkCRC, r[0], r[1]
		return bv, true
	}
	if a.paramIndex(rootObj) >= 0 {
		bv.kind, bv.param = bkParam, rootObj
		return bv, true
	}
	return c19bval{}, false
}

func (a *c19bufAn) paramIndex(o types.Object) int {
	for i := 0; ; i++ {
		p := a.fl.Param(i)
		if p == nil {
			return -1
		}
		if p == o {
			return i
		}
	}
}

func (a *c19bufAn) valueOf(e ast.Expr, st *c19ist) c19bval {
	desc := core.Src(a.x.k.g.Fset, e)
	if tv, ok := a.info.Types[e]; ok && tv.Value != nil {
		if c, ok := constant.Uint64Val(constant.ToInt(tv.Value)); ok {
			return c19bval{kind: bkConst, c: c & 0xFF, desc: desc, pos: e.Pos()}
		}
	}
	if bv, ok := a.image(e, st); ok {
		bv.desc, bv.pos = desc, e.Pos()
		return bv
	}
	return c19bval{kind: bkOther, desc: desc, pos: e.Pos()}
}

func (a *c19bufAn) store(st *c19ist, idx int64, v c19bval) {
	a.nstore++
	// a store into a range a checksum was computed over makes that checksum stale
	for o, r := range st.crcVar {
		if idx >= r[0] && idx < r[1] {
			delete(st.crcVar, o)
		}
	}
	for k, w := range st.stored {
		if w.kind == bkCRC && idx >= w.lo && idx < w.hi {
			w.kind = bkStale
			st.stored[k] = w
		}
	}
	st.stored[idx] = v
}

func (a *c19bufAn) clobber(st *c19ist, why string, p token.Pos) {
	a.undec = append(a.undec, a.x.k.g.Pos(p)+": "+why)
	st.stored = map[int64]c19bval{}
	st.crcVar = map[types.Object][2]int64{}
}

// step applies one CFG node.
func (a *c19bufAn) step(n ast.Node, st *c19ist) {
	// calls that could write the buffer behind our back
	ast.Inspect(n, func(m ast.Node) bool {
		call, ok := m.(*ast.CallExpr)
		if !ok {
			return true
		}
		if _, _, isCRC := a.crcCall(call); isCRC {
			return false
		}
		if id, ok := ast.Unparen(call.Fun).(*ast.Ident); ok {
			if b, ok := a.info.Uses[id].(*types.Builtin); ok && (b.Name() == "copy" || b.Name() == "len") {
				return true
			}
		}
		if tv, ok := a.info.Types[call.Fun]; ok && tv.IsType() {
			return true
		}
		mentions := false
		if r := core.RecvOf(call); r != nil && core.Mentions(a.info, r, a.recv) {
			mentions = true
		}
		for _, arg := range call.Args {
			if core.Mentions(a.info, arg, a.recv) {
				mentions = true
			}
		}
		if mentions {
			a.clobber(st, "call `"+core.Src(a.x.k.g.Fset, call)+"` receives the encoder or its buffer: its stores are not followed", call.Pos())
		}
		return true
	})
	switch s := n.(type) {
	case *ast.AssignStmt:
		// a crc variable that is reassigned is no longer the checksum
		for i, l := range s.Lhs {
			if id, ok := ast.Unparen(l).(*ast.Ident); ok {
				o := a.info.Defs[id]
				if o == nil {
					o = a.info.Uses[id]
				}
				if o != nil {
					delete(st.crcVar, o)
					if len(s.Lhs) == len(s.Rhs) && (s.Tok == token.DEFINE || s.Tok == token.ASSIGN) {
						if lo, hi, ok := a.crcCall(s.Rhs[i]); ok {
							st.crcVar[o] = [2]int64{lo, hi}
						}
					}
				}
			}
		}
		var idxs []int64
		var vals []c19bval
		for i, l := range s.Lhs {
			ix, ok := ast.Unparen(l).(*ast.IndexExpr)
			if !ok || !a.isBuf(ix.X) {
				if core.Mentions(a.info, l, a.recv) && !ok {
					if sel, isSel := ast.Unparen(l).(*ast.SelectorExpr); isSel && a.info.Uses[sel.Sel] == a.x.bufField {
						a.clobber(st, "the whole buffer is assigned", s.Pos())
					}
				}
				continue
			}
			idx, okc := core.ConstInt64(a.info, ix.Index)
			if !okc {
				a.clobber(st, "store `"+core.Src(a.x.k.g.Fset, l)+"` has a non-constant index", s.Pos())
				continue
			}
			v := c19bval{kind: bkOther, desc: core.Src(a.x.k.g.Fset, s), pos: s.Pos()}
			if len(s.Lhs) == len(s.Rhs) && s.Tok == token.ASSIGN {
				v = a.valueOf(s.Rhs[i], st)
			}
			idxs, vals = append(idxs, idx), append(vals, v)
		}
		for i := range idxs {
			a.store(st, idxs[i], vals[i])
		}
	case *ast.IncDecStmt:
		if ix, ok := ast.Unparen(s.X).(*ast.IndexExpr); ok && a.isBuf(ix.X) {
			if idx, okc := core.ConstInt64(a.info, ix.Index); okc {
				a.store(st, idx, c19bval{kind: bkOther, desc: core.Src(a.x.k.g.Fset, s), pos: s.Pos()})
			} else {
				a.clobber(st, "++/-- of a buffer byte with a non-constant index", s.Pos())
			}
		}
	case *ast.ExprStmt:
		call, ok := ast.Unparen(s.X).(*ast.CallExpr)
		if !ok {
			return
		}
		if id, ok := ast.Unparen(call.Fun).(*ast.Ident); ok {
			if b, ok := a.info.Uses[id].(*types.Builtin); ok && b.Name() == "copy" && len(call.Args) == 2 {
				lo, hi, okd := a.bufSlice(call.Args[0])
				if !okd {
					if core.Mentions(a.info, call.Args[0], a.recv) {
						a.clobber(st, "copy into the buffer with non-constant bounds", s.Pos())
					}
					return
				}
				tv, okt := a.info.Types[call.Args[1]]
				if !okt || tv.Value == nil || tv.Value.Kind() != constant.String {
					a.clobber(st, "copy into the buffer from a non-constant source", s.Pos())
					return
				}
				src := constant.StringVal(tv.Value)
				for i := int64(0); i < hi-lo && i < int64(len(src)); i++ {
					a.store(st, lo+i, c19bval{kind: bkConst, c: uint64(src[i]), desc: fmt.Sprintf("copy(…)[%d]", i), pos: s.Pos()})
				}
			}
		}
	}
}

// run: forward must-analysis; returns the meet of the states at all exits.
func (a *c19bufAn) run() (*c19ist, int) {
	g := a.fl.G
	if len(g.Blocks) == 0 {
		return nil, 0
	}
	in := map[*cfg.Block]*c19ist{g.Blocks[0]: {stored: map[int64]c19bval{}, crcVar: map[types.Object][2]int64{}}}
	out := map[*cfg.Block]*c19ist{}
	work := []*cfg.Block{g.Blocks[0]}
	for len(work) > 0 {
		b := work[0]
		work = work[1:]
		st := in[b].clone()
		for _, n := range b.Nodes {
			a.step(n, st)
		}
		out[b] = st
		for _, s := range b.Succs {
			var nv *c19ist
			if cur := in[s]; cur == nil {
				nv = st.clone()
			} else {
				nv = c19meet(cur, st)
				if c19sameState(nv, cur) {
					continue
				}
			}
			in[s] = nv
			work = append(work, s)
		}
	}
	var exit *c19ist
	nexit := 0
	for _, b := range g.Blocks {
		if len(b.Succs) != 0 || out[b] == nil {
			continue
		}
		nexit++
		if exit == nil {
			exit = out[b].clone()
		} else {
			exit = c19meet(exit, out[b])
		}
	}
	return exit, nexit
}

type c19seg struct {
	name    string
	lo, hi  int64
	consts  []uint64 // expected constant bytes, or nil
	beParam int      // >= 0: big-endian 32-bit value of that parameter of init
	why     string
}

func hexIdx(xs []int64) string {
	sort.Slice(xs, func(i, j int) bool { return xs[i] < xs[j] })
	var p []string
	for _, v := range xs {
		p = append(p, fmt.Sprintf("%#x", v))
	}
	return strings.Join(p, ",")
}

func (x *c19ck) initReuse(fi, ff *core.Flow) {
	c, g := x.c, x.k.g
	anchor := fi.F.Name()
	crcFn := g.LookupObj(relPng, "crc32IEEE")
	if fi.Recv() == nil || crcFn == nil || fi.Param(1) == nil {
		c.Undecided("I.cover", anchor, "init is a method with (width, height, …) parameters and the package has crc32IEEE", "anchor not found")
		return
	}
	an := &c19bufAn{x: x, fl: fi, info: fi.F.Info(), recv: fi.Recv(), crcFn: crcFn}
	// the analysis is run twice so that diagnostics of the fixed point only are kept
	exit, nexit := an.run()
	if exit == nil {
		c.Undecided("I.cover", anchor, "init has an exit", "no reachable exit in the CFG")
		return
	}
	if len(an.undec) > 0 {
		c.Undecided("I.cover", anchor, "every store of init into e.buf has a constant index (or is a copy of a constant string into constant bounds) and init hands the buffer to no one but crc32IEEE", strings.Join(uniq(an.undec), "\n"))
		return
	}
	const sig = "\x89PNG\r\n\x1a\n"
	bytesOf := func(s string) []uint64 {
		var o []uint64
		for i := 0; i < len(s); i++ {
			o = append(o, uint64(s[i]))
		}
		return o
	}
	const ihdrLen = 13
	o := int64(len(sig))
	segs := []c19seg{
		{"PNG signature", 0, o, bytesOf(sig), -1, "REC-PNG §5.2"},
		{"IHDR chunk length", o, o + 4, []uint64{0, 0, 0, ihdrLen}, -1, "IHDR payload is 13 bytes (§11.2.2)"},
		{"IHDR chunk type", o + 4, o + 8, bytesOf("IHDR"), -1, ""},
		{"IHDR width", o + 8, o + 12, nil, 0, "4-byte big-endian width"},
		{"IHDR height", o + 12, o + 16, nil, 1, "4-byte big-endian height"},
		{"IHDR bit depth and colour type", o + 16, o + 18, nil, -1, "values decided by H2.ihdr"},
		{"IHDR compression, filter, interlace", o + 18, o + 21, []uint64{0, 0, 0}, -1, "the only defined methods; no interlace"},
	}
	crcLo, crcHi := o+4, o+8+ihdrLen // chunk type + payload
	idat := crcHi + 4                // after the IHDR CRC
	segs = append(segs,
		c19seg{"IDAT chunk type", idat + 4, idat + 8, bytesOf("IDAT"), -1, ""},
		c19seg{"zlib header", idat + 8, idat + 10, nil, -1, "RFC 1950 CMF/FLG"},
	)
	hdrFirst := idat + 8 + 2 + 5 // + stored-block header
	hdrLater := int64(8 + 5)

	nIdx := 0
	for _, s := range segs {
		var missing []int64
		var wrong []string
		for i := s.lo; i < s.hi; i++ {
			nIdx++
			v, ok := exit.stored[i]
			if !ok {
				missing = append(missing, i)
				continue
			}
			switch {
			case s.consts != nil:
				if v.kind != bkConst || v.c != s.consts[i-s.lo] {
					wrong = append(wrong, fmt.Sprintf("%s: e.buf[%#x] = %s, want %#02x", g.Pos(v.pos), i, v.desc, s.consts[i-s.lo]))
				}
			case s.beParam >= 0:
				sh := 8 * (3 - (i - s.lo))
				want := make([]uint64, 32)
				for b := sh; b < sh+8; b++ {
					want[b] = 1 << uint(b-sh)
				}
				if v.kind != bkParam || v.param != fi.Param(s.beParam) || v.img != imgString(want) {
					wrong = append(wrong, fmt.Sprintf("%s: e.buf[%#x] = %s, want bits [%d,%d) of %s", g.Pos(v.pos), i, v.desc, sh, sh+8, fi.Param(s.beParam).Name()))
				}
			}
		}
		sa := fmt.Sprintf("%s[%s, buf[%#x:%#x]]", anchor, s.name, s.lo, s.hi)
		c.Check(len(missing) == 0, "I.cover", sa,
			"every path through init stores these bytes: an Encoder that has already written an image holds that image's later-chunk header and pixel data here, so a byte left alone on some path makes the next PNG start with stale bytes (one Encoder can be reused for further images)", int(s.hi-s.lo),
			fmt.Sprintf("%s: not stored on every path (%d exits): e.buf[%s]", g.Pos(fi.F.Decl.Pos()), nexit, hexIdx(missing)))
		if s.name == "zlib header" && len(missing) == 0 {
			v0, v1 := exit.stored[s.lo], exit.stored[s.lo+1]
			ok := v0.kind == bkConst && v1.kind == bkConst && v0.c&0x0F == 8 && v0.c>>4 <= 7 && v1.c&0x20 == 0 && (v0.c*256+v1.c)%31 == 0
			c.Check(ok, "I.bytes", sa, "CMF/FLG is a valid zlib header for a raw deflate stream: CM = 8, window <= 32 KiB, no preset dictionary, (CMF*256+FLG) mod 31 = 0 (RFC 1950 §2.2)", 2, fmt.Sprintf("%s: CMF = %s, FLG = %s", g.Pos(v0.pos), v0.desc, v1.desc))
		} else if (s.consts != nil || s.beParam >= 0) && len(missing) == 0 {
			c.Check(len(wrong) == 0, "I.bytes", sa, "the bytes are what PNG prescribes here ("+s.why+"), from init's own arguments or constants only", int(s.hi-s.lo), strings.Join(wrong, "\n"))
		}
	}
	c.Floor("I.cover", "fixed header bytes required of init", nIdx, 35)

	// ---- I.crc
	ca := fmt.Sprintf("%s[IHDR CRC, buf[%#x:%#x]]", anchor, crcHi, crcHi+4)
	var crcBad []string
	for i := int64(0); i < 4; i++ {
		v, ok := exit.stored[crcHi+i]
		sh := 8 * (3 - i)
		want := make([]uint64, 32)
		for b := sh; b < sh+8; b++ {
			want[b] = 1 << uint(b-sh)
		}
		switch {
		case !ok:
			crcBad = append(crcBad, fmt.Sprintf("e.buf[%#x] is not stored on every path through init: a previous image's checksum byte survives there", crcHi+i))
		case v.kind == bkStale:
			crcBad = append(crcBad, fmt.Sprintf("%s: e.buf[%#x] = %s is a checksum computed before a later store into buf[%#x:%#x]", g.Pos(v.pos), crcHi+i, v.desc, v.lo, v.hi))
		case v.kind != bkCRC:
			crcBad = append(crcBad, fmt.Sprintf("%s: e.buf[%#x] = %s is not a byte of a crc32IEEE(e.buf[lo:hi]) result on every path", g.Pos(v.pos), crcHi+i, v.desc))
		case v.lo != crcLo || v.hi != crcHi:
			crcBad = append(crcBad, fmt.Sprintf("%s: the checksum covers buf[%#x:%#x], not chunk type + payload buf[%#x:%#x]", g.Pos(v.pos), v.lo, v.hi, crcLo, crcHi))
		case v.img != imgString(want):
			crcBad = append(crcBad, fmt.Sprintf("%s: e.buf[%#x] = %s, want bits [%d,%d) of the checksum (big-endian)", g.Pos(v.pos), crcHi+i, v.desc, sh, sh+8))
		}
	}
	c.Check(len(crcBad) == 0, "I.crc", ca,
		fmt.Sprintf("on every path through init the four bytes after the IHDR payload are the big-endian bytes of crc32IEEE(e.buf[%#x:%#x]) — chunk type plus the 13 payload bytes — computed after the last store into that range: a checksum kept from a previous Encode call, or taken before width/height/depth/colour type are in place, belongs to another header and every decoder rejects the file (one Encoder can be reused)", crcLo, crcHi), 4, strings.Join(crcBad, "\n"))
	// crc32IEEE must not write through its argument
	if fc := x.k.flow("I.crc", relPng, "", "crc32IEEE"); fc != nil {
		p0 := fc.Param(0)
		writes := 0
		ast.Inspect(fc.F.Decl.Body, func(m ast.Node) bool {
			switch v := m.(type) {
			case *ast.AssignStmt:
				for _, l := range v.Lhs {
					if ix, ok := ast.Unparen(l).(*ast.IndexExpr); ok && fc.Obj(ix.X) == p0 {
						writes++
					}
				}
			case *ast.CallExpr:
				for _, arg := range v.Args {
					if core.Mentions(fc.F.Info(), arg, p0) {
						if id, ok := ast.Unparen(v.Fun).(*ast.Ident); !ok || fc.F.Info().Uses[id] == nil || fc.F.Info().Uses[id].Name() != "len" {
							writes++
						}
					}
				}
			}
			return true
		})
		c.Check(writes == 0 && p0 != nil, "I.crc", fc.F.Name(), "crc32IEEE only reads the slice it is given (so calling it cannot disturb the header it checksums)", 1, fmt.Sprintf("%d stores through / calls with the argument", writes))
	}

	// ---- I.layout
	c.Check(x.eiFirst == hdrFirst && x.eiLater == hdrLater, "I.layout", relPng+".eiFirst/eiLater",
		"the payload cursor starts right after the headers init lays out: eiFirst = signature 8 + IHDR chunk 25 + IDAT length/type 8 + zlib header 2 + stored-block header 5, eiLater = IDAT length/type 8 + stored-block header 5: a gap or overlap puts pixel bytes over a header or leaves an unwritten byte inside the stream", 2,
		fmt.Sprintf("eiFirst = %#x (layout gives %#x), eiLater = %#x (layout gives %#x)", x.eiFirst, hdrFirst, x.eiLater, hdrLater))

	x.adlerState(exit, fi)
	x.sentinel(exit, fi, ff)
}

// adlerState: the four buffer bytes updateAdler32 keeps its state in.
func (x *c19ck) adlerState(exit *c19ist, fi *core.Flow) {
	c, g := x.c, x.k.g
	fu := x.k.flow("I.adler", relPng, "Encoder", "updateAdler32")
	if fu == nil {
		return
	}
	info := fu.F.Info()
	anchor := fu.F.Name()
	recv := fu.Recv()
	bufIdx := func(e ast.Expr) (int64, bool) {
		ix, ok := ast.Unparen(stripConv(info, e)).(*ast.IndexExpr)
		if !ok {
			return 0, false
		}
		sel, ok := ast.Unparen(ix.X).(*ast.SelectorExpr)
		if !ok || info.Uses[sel.Sel] != x.bufField {
			return 0, false
		}
		if id, ok := ast.Unparen(sel.X).(*ast.Ident); !ok || info.Uses[id] != recv {
			return 0, false
		}
		return core.ConstInt64(info, ix.Index)
	}
	// locals defined as (buf[hi] << 8) | buf[lo]
	type half struct{ hi, lo int64 }
	loaded := map[types.Object]half{}
	for o, defs := range fu.Defs() {
		if len(defs) == 0 {
			continue
		}
		or, ok := ast.Unparen(defs[0]).(*ast.BinaryExpr)
		if !ok || or.Op != token.OR {
			continue
		}
		for _, side := range [][2]ast.Expr{{or.X, or.Y}, {or.Y, or.X}} {
			sh, ok := ast.Unparen(side[0]).(*ast.BinaryExpr)
			if !ok || sh.Op != token.SHL {
				continue
			}
			if s, oks := core.ConstInt64(info, sh.Y); !oks || s != 8 {
				continue
			}
			hi, ok1 := bufIdx(sh.X)
			lo, ok2 := bufIdx(side[1])
			if ok1 && ok2 {
				loaded[o] = half{hi, lo}
			}
		}
	}
	// a: the one that accumulates data bytes; b: the one that accumulates a
	var va, vb types.Object
	ast.Inspect(fu.F.Decl.Body, func(m ast.Node) bool {
		as, ok := m.(*ast.AssignStmt)
		if !ok || as.Tok != token.ADD_ASSIGN || len(as.Lhs) != 1 {
			return true
		}
		l := fu.Obj(as.Lhs[0])
		if _, isLoaded := loaded[l]; !isLoaded {
			return true
		}
		r := stripConv(info, as.Rhs[0])
		if ix, ok := ast.Unparen(r).(*ast.IndexExpr); ok {
			if sel, ok := ast.Unparen(ix.X).(*ast.SelectorExpr); ok && info.Uses[sel.Sel] == x.bufField {
				va = l
			}
		} else if ro := fu.Obj(r); ro != nil {
			if _, isLoaded := loaded[ro]; isLoaded {
				vb = l
			}
		}
		return true
	})
	claim := "Adler-32 starts every zlib stream at a = 1, b = 0 (RFC 1950 §8.2): init stores exactly that, on every path, into the four buffer bytes from which updateAdler32 loads its running sums (and to which it writes them back), so the checksum of a second image does not continue the first one's"
	if va == nil || vb == nil || va == vb {
		c.Undecided("I.adler", anchor, claim, g.Pos(fu.F.Decl.Pos())+": updateAdler32 does not have the recognised shape (two sums loaded as (buf[i]<<8)|buf[j]; a += data byte; b += a)")
		return
	}
	// write-back agrees with the load
	var rwBad []string
	nback := 0
	ast.Inspect(fu.F.Decl.Body, func(m ast.Node) bool {
		as, ok := m.(*ast.AssignStmt)
		if !ok || as.Tok != token.ASSIGN || len(as.Lhs) != len(as.Rhs) {
			return true
		}
		for i, l := range as.Lhs {
			idx, ok := bufIdx(l)
			if !ok {
				continue
			}
			nback++
			r := ast.Unparen(stripConv(info, as.Rhs[i]))
			sh := int64(0)
			if b, ok := r.(*ast.BinaryExpr); ok && b.Op == token.SHR {
				sh, _ = core.ConstInt64(info, b.Y)
				r = ast.Unparen(b.X)
			}
			o := fu.Obj(r)
			h, isLoaded := loaded[o]
			if !isLoaded || !((sh == 8 && idx == h.hi) || (sh == 0 && idx == h.lo)) {
				rwBad = append(rwBad, fmt.Sprintf("%s: `%s` does not write a sum back to the byte it was loaded from", g.Pos(as.Pos()), core.Src(g.Fset, as)))
			}
		}
		return true
	})
	c.Check(len(rwBad) == 0 && nback == 4, "I.adler", anchor+"[write-back]", "updateAdler32 writes each half of a and b back to the buffer byte it loaded it from (the state survives from one flush to the next in place)", nback, strings.Join(rwBad, "\n"))
	want := map[int64]uint64{loaded[va].hi: 0, loaded[va].lo: 1, loaded[vb].hi: 0, loaded[vb].lo: 0}
	var bad []string
	var idxs []int64
	for i := range want {
		idxs = append(idxs, i)
	}
	sort.Slice(idxs, func(i, j int) bool { return idxs[i] < idxs[j] })
	for _, i := range idxs {
		v, ok := exit.stored[i]
		if !ok {
			bad = append(bad, fmt.Sprintf("%s: e.buf[%#x] is not stored on every path through init: the previous image's checksum state survives", g.Pos(fi.F.Decl.Pos()), i))
		} else if v.kind != bkConst || v.c != want[i] {
			bad = append(bad, fmt.Sprintf("%s: e.buf[%#x] = %s, want %d", g.Pos(v.pos), i, v.desc, want[i]))
		}
	}
	c.Check(len(bad) == 0, "I.adler", fi.F.Name()+fmt.Sprintf("[Adler-32 state, buf[%s]]", hexIdx(idxs)), claim, 4, strings.Join(bad, "\n"))
}

// sentinel: the byte flush tests to tell the first chunk from later ones.
func (x *c19ck) sentinel(exit *c19ist, fi, ff *core.Flow) {
	c, g := x.c, x.k.g
	info := ff.F.Info()
	anchor := ff.F.Name()
	recv := ff.Recv()
	claim := "flush tells the first IDAT chunk (after signature and IHDR) from later ones by one buffer byte: init sets it to the tested value on every path, and after a non-final Write flush overwrites it with another value, so the next flush uses the later-chunk layout — and a reused Encoder starts again with the first-chunk layout"
	isBufAt := func(e ast.Expr) (int64, bool) {
		ix, ok := ast.Unparen(e).(*ast.IndexExpr)
		if !ok {
			return 0, false
		}
		sel, ok := ast.Unparen(ix.X).(*ast.SelectorExpr)
		if !ok || info.Uses[sel.Sel] != x.bufField {
			return 0, false
		}
		if id, ok := ast.Unparen(sel.X).(*ast.Ident); !ok || info.Uses[id] != recv {
			return 0, false
		}
		return core.ConstInt64(info, ix.Index)
	}
	type sent struct {
		k, v int64
		pos  token.Pos
	}
	var sents []sent
	for _, is := range ifConds(ff.F.Decl.Body) {
		b, ok := ast.Unparen(is.Cond).(*ast.BinaryExpr)
		if !ok || (b.Op != token.EQL && b.Op != token.NEQ) {
			continue
		}
		for _, side := range [][2]ast.Expr{{b.X, b.Y}, {b.Y, b.X}} {
			if k, ok := isBufAt(side[0]); ok {
				if v, okv := core.ConstInt64(info, side[1]); okv {
					sents = append(sents, sent{k, v, is.Cond.Pos()})
				}
			}
		}
	}
	if len(sents) != 1 {
		c.Undecided("I.sentinel", anchor, claim, fmt.Sprintf("%s: %d conditions of the form e.buf[K] == V in flush (want exactly one)", g.Pos(ff.F.Decl.Pos()), len(sents)))
		return
	}
	s := sents[0]
	v, ok := exit.stored[s.k]
	c.Check(ok && v.kind == bkConst && int64(v.c) == s.v, "I.sentinel", fmt.Sprintf("%s[buf[%#x] = %#x]", fi.F.Name(), s.k, s.v), claim, 1,
		fmt.Sprintf("%s: flush tests e.buf[%#x] against %#x; init stores %s there on every path: %v", g.Pos(s.pos), s.k, s.v, v.desc, ok))
	// the non-final region of flush
	final := ff.Param(2)
	var region *ast.BlockStmt
	for _, is := range ifConds(ff.F.Decl.Body) {
		cond := ast.Unparen(is.Cond)
		if u, ok := cond.(*ast.UnaryExpr); ok && u.Op == token.NOT && ff.Obj(u.X) == final && final != nil {
			region = is.Body
		} else if ff.Obj(cond) == final && final != nil {
			if eb, ok := is.Else.(*ast.BlockStmt); ok {
				region = eb
			}
		}
	}
	isWrite := func(call *ast.CallExpr) bool {
		sel, ok := ast.Unparen(call.Fun).(*ast.SelectorExpr)
		return ok && sel.Sel.Name == "Write" && ff.Obj(sel.X) == ff.Param(0) && ff.Param(0) != nil
	}
	if region == nil || !core.AnyCall(region, isWrite) {
		c.Undecided("I.sentinel", anchor+"[non-final]", claim, g.Pos(ff.F.Decl.Pos())+": no `if !final { … w.Write(…) … }` region found in flush")
		return
	}
	x.k.mustPass("I.sentinel", anchor+"[non-final]", claim, ff, core.Query{
		Region:  core.RegionOf(region),
		Start:   func(n ast.Node) bool { return core.AnyCall(n, isWrite) },
		Exit:    ff.SuccessReturn,
		FallOut: true,
		Events: []core.Event{{Node: func(n ast.Node) bool {
			as, ok := n.(*ast.AssignStmt)
			if !ok || len(as.Lhs) != len(as.Rhs) {
				return false
			}
			for i, l := range as.Lhs {
				if k, ok := isBufAt(l); ok && k == s.k {
					if v, okv := core.ConstInt64(info, as.Rhs[i]); okv && v&0xFF != s.v {
						return true
					}
				}
			}
			return false
		}}},
	})
}
