package main

// C15, rule family X: index and re-slice guards of lib/internal/racdict and of
// the reader side of lib/rac (engine: idxguard.go).

import (
	"go/types"

	"wv/core"
)

func c15Index(c *core.Ctx, g *core.GoProg) {
	xControl(c)
	// floors: 13 index / 6 slice expressions are decided safe in racdict today, 46 / 15 in the reader side of lib/rac
	xIndexRule(c, g, xScope{rel: c15Dict, floorIndex: 12, floorSlice: 5})
	xIndexRule(c, g, xScope{rel: c15Rac, floorIndex: 42, floorSlice: 12, inScope: func(P *igPkg) map[*igFn]bool {
		var roots []*igFn
		for _, F := range P.fns {
			sig, ok := F.obj.Type().(*types.Signature)
			if !ok || sig.Recv() == nil || !F.obj.Exported() {
				continue
			}
			t := sig.Recv().Type()
			if pt, ok := t.(*types.Pointer); ok {
				t = pt.Elem()
			}
			if nt, ok := t.(*types.Named); ok && (nt.Obj().Name() == "ChunkReader" || nt.Obj().Name() == "Reader") {
				roots = append(roots, F)
			}
		}
		return igReach(P, roots)
	}})
}
