package main

// C15 — RAC readers survive hostile files (lib/rac/chunk_reader.go,
// lib/rac/reader.go, lib/internal/racdict/racdict.go; doc/spec/rac-spec.md).
//
// Rule families (see NOTES.md for instance counts):
//   V.*  validate-before-use typestate of ChunkReader.currNode          (c15.go)
//   N.*  the per-node validation clauses of rNode.valid vs the spec layout (c15_node.go)
//   R.*  loop inventory and the descent loop's ranking guard            (c15_rank.go)
//   S.*  sticky error of ChunkReader / Reader                           (c15_sticky.go)
//   D.*  racdict.Loader.Load length / checksum / cache guards           (c15_dict.go)

import (
	"fmt"
	"go/ast"
	"go/token"
	"go/types"
	"sort"
	"strings"

	"wv/core"
)

func init() {
	register("C15", core.Spec{
		Decides:    "structural necessary conditions of 'RAC readers survive hostile files': (V) every index node that rac.ChunkReader loads from the file passes rNode.valid()==true before any rNode accessor reads it or any success exit is taken (sites tryRootNode, loadAndValidate; the root reload in resolveSeekPosition is the one exemption, justified by checking that rootNodeCOffset/rootNodeArity are stored only after validation), the parent/child guard (codec, version, COffMax, DOffMax) and the in-file guards dominate loadAndValidate's success return / its Seek+ReadFull, and every accessor use elsewhere is dominated by a checked initialize/findRootNode/loadAndValidate; (R) every loop reachable from ChunkReader.NextChunk / SeekToChunkContaining / DecompressedSize is a counted loop with a loop-invariant bound, a bisection, or the index-descent loop, and the descent loop carries the RAC specification's anti-loop ranking guard (child Branch COffset < parent's OR child DPtrMax < parent's, parent values flowing from the call site), decided exactly over the weak orderings of the compared values; no recursion in that call tree; (S) every error that leaves a ChunkReader method is in ChunkReader.err first (io.EOF from NextChunk excepted) — this is what makes the `initialized` early return safe — and every error obtained from a call (Seek, io.ReadFull, NextChunk, MakeDecompressor, decompressor Read/Close, concReader) that leaves a rac.Reader method is in Reader.err first; inside `if err != nil` on such an error no return is reached without the store; no error result of a call is discarded; exported methods consult the sticky state first; (D) racdict.Loader.Load returns dictionary bytes only past the length, fit and CRC-32 guards, and never leaves cachedRange naming a buffer it is about to overwrite (S.eof) no io.EOF obtained from reading the compressed file (io.ReadFull, Read, ReadAt, a codec handed the file, or a package function passing one on; package-local fixpoint) is stored in ChunkReader.err / Reader.err without a comparison excluding it, and no function of the package returns such a foreign io.EOF to its caller: a truncated or over-claimed file surfaces as an error, never as a normal end of stream. (V.root.coffmax) a root node's location is recorded only past `COffMax == CompressedSize`, for a root found at either end of the file",
		NotDecided: "absence of implicit panics on index/slice expressions; the arithmetic of 'chunks are inside the file, ascending, contiguous and end at the decompressed size' (rNode.valid's own checks and cOffRange/dOffRange are not re-derived); determinism of decode; that the file does not change between initialize and a later root reload; termination of ChunkReader.NextChunk's OUTER `for {}` loop, which is only *assumed* (its progress — seekPosition advances past at least one non-empty DRange per resolve — is value-level) and is printed as INFO; termination of rac.Reader.Read's loops (progress depends on the decompressor); the concurrent reader (C14); behaviour of the caller-supplied ReadSeeker/CodecReader; a ranking guard placed anywhere other than inside the node-loading callee of the descent loop is not recognised (reported as undecided)",
		Assumptions: []string{
			"go/types, go/cfg (x/tools v0.29.0) model Go control flow faithfully; a branch condition is one CFG node (short-circuit operands are handled by the rules themselves)",
			"error-return idioms enumerated in core.IsErrorReturn",
			"the caller-supplied io.ReadSeeker / io.ReaderAt, io.ReadFull and the CodecReader return (they are outside the loop inventory)",
			"RAC specification doc/spec/rac-spec.md, section 'Search Within a Branch Node' (anti-loop rule) read by hand; (DPtrMax, Branch COffset) is a lexicographic ranking because a child's DPtrMax never exceeds its parent's (DPtrs are sorted, checked by rNode.valid) and COffsets are non-negative (guarded in loadAndValidate)",
			"an obligation whose anchor or idiom is not recognised fails as undecided",
		},
	}, runC15)
}

const (
	c15Rac  = "lib/rac"
	c15Dict = "lib/internal/racdict"
)

// c15x is the resolved vocabulary of lib/rac the rules are written in.
type c15x struct {
	k    *gctx
	c    *core.Ctx
	info *types.Info

	crObj, rdObj, rnObj types.Object // ChunkReader, Reader, rNode type names

	fCurrNode, fRootOff, fRootArity, fInitialized, fCSize, fCRErr, fRDErr *types.Var

	mLoad, mValid, mInitialize, mFindRoot, mLoadAndValidate, mResolve, mCheckParams *types.Func
	fnNodeSize                                                                      *types.Func
	ioEOF                                                                           types.Object

	funcs  []*core.Func
	byObj  map[*types.Func]*core.Func
	flowOf map[*core.Func]*core.Flow
}

func (x *c15x) flow(f *core.Func) *core.Flow {
	if fl, ok := x.flowOf[f]; ok {
		return fl
	}
	fl := core.NewFlow(f)
	x.flowOf[f] = fl
	return fl
}

func c15Load(c *core.Ctx) *c15x {
	k := newG(c, "./lib/rac", "./lib/internal/racdict")
	x := &c15x{k: k, c: c, byObj: map[*types.Func]*core.Func{}, flowOf: map[*core.Func]*core.Flow{}}
	p := k.g.Pkg(c15Rac)
	if p == nil {
		c.Undecided("anchors", c15Rac, "package lib/rac is loaded", "package not found")
		return nil
	}
	x.info = p.TypesInfo
	x.crObj = k.obj("anchors", c15Rac, "ChunkReader")
	x.rdObj = k.obj("anchors", c15Rac, "Reader")
	x.rnObj = k.obj("anchors", c15Rac, "rNode")
	if x.crObj == nil || x.rdObj == nil || x.rnObj == nil {
		return nil
	}
	ok := true
	field := func(owner types.Object, name string) *types.Var {
		v := core.LookupField(owner, name)
		if v == nil {
			c.Undecided("anchors", c15Rac+"."+owner.Name()+"."+name, "anchor field exists", "field not found")
			ok = false
		}
		return v
	}
	x.fCurrNode = field(x.crObj, "currNode")
	x.fRootOff = field(x.crObj, "rootNodeCOffset")
	x.fRootArity = field(x.crObj, "rootNodeArity")
	x.fInitialized = field(x.crObj, "initialized")
	x.fCSize = field(x.crObj, "CompressedSize")
	x.fCRErr = field(x.crObj, "err")
	x.fRDErr = field(x.rdObj, "err")
	meth := func(recv, name string) *types.Func {
		f := k.fn("anchors", c15Rac, recv, name)
		if f == nil {
			ok = false
		}
		return f
	}
	x.mLoad = meth("ChunkReader", "load")
	x.mValid = meth("rNode", "valid")
	x.mInitialize = meth("ChunkReader", "initialize")
	x.mFindRoot = meth("ChunkReader", "findRootNode")
	x.mLoadAndValidate = meth("ChunkReader", "loadAndValidate")
	x.mResolve = meth("ChunkReader", "resolveSeekPosition")
	x.mCheckParams = meth("ChunkReader", "checkParameters")
	x.fnNodeSize = meth("", "nodeSize")
	if iop := k.g.ByPth["io"]; iop != nil && iop.Types != nil {
		x.ioEOF = iop.Types.Scope().Lookup("EOF")
	}
	if x.ioEOF == nil {
		c.Undecided("anchors", "io.EOF", "io.EOF resolves", "package io not loaded")
		ok = false
	}
	if !ok {
		return nil
	}
	x.funcs = k.g.AllFuncs(p)
	for _, f := range x.funcs {
		if f.Obj != nil {
			x.byObj[f.Obj] = f
		}
	}
	return x
}

func runC15(c *core.Ctx) {
	x := c15Load(c)
	if x == nil {
		return
	}
	if xOnly(c) {
		c15Index(c, x.k.g)
		return
	}
	c15Validate(x)
	c15Node(x)
	c15Rank(x)
	c15Sticky(x)
	x.eofLaunder()
	c15Dictionary(x)
	lx := &c14x{c, newG(c, "./lib/rac")}
	lx.leafAssign()
	lx.leafUse()
	c15Index(c, x.k.g)
}

// ---------------------------------------------------------------------------
// shared expression helpers
// ---------------------------------------------------------------------------

// c15Strip removes parentheses and type conversions.
func c15Strip(info *types.Info, e ast.Expr) ast.Expr {
	for {
		e = ast.Unparen(e)
		call, ok := e.(*ast.CallExpr)
		if !ok || len(call.Args) != 1 {
			return e
		}
		if tv, ok := info.Types[call.Fun]; ok && tv.IsType() {
			e = call.Args[0]
			continue
		}
		return e
	}
}

// c15RecvOfFlow: e is the bare receiver identifier of fl's function.
func c15IsRecv(fl *core.Flow, e ast.Expr) bool {
	r := fl.Recv()
	if r == nil {
		return false
	}
	id, ok := ast.Unparen(e).(*ast.Ident)
	return ok && fl.F.Info().Uses[id] == r
}

// c15RecvField: e is <receiver>.<field>.
func c15RecvField(fl *core.Flow, e ast.Expr, field *types.Var) bool {
	sel, ok := ast.Unparen(e).(*ast.SelectorExpr)
	if !ok || field == nil || fl.F.Info().Uses[sel.Sel] != field {
		return false
	}
	return c15IsRecv(fl, sel.X)
}

// c15FieldOfAny: e is <anything>.<field>.
func c15FieldOfAny(info *types.Info, e ast.Expr, field *types.Var) bool {
	sel, ok := ast.Unparen(e).(*ast.SelectorExpr)
	return ok && field != nil && info.Uses[sel.Sel] == field
}

// isCurrNode: e denotes the receiver's currNode (possibly through & or *).
func (x *c15x) isCurrNode(fl *core.Flow, e ast.Expr) bool {
	e = ast.Unparen(e)
	if u, ok := e.(*ast.UnaryExpr); ok && u.Op == token.AND {
		e = ast.Unparen(u.X)
	}
	if s, ok := e.(*ast.StarExpr); ok {
		e = ast.Unparen(s.X)
	}
	return c15FieldOfAny(fl.F.Info(), e, x.fCurrNode)
}

// rnodeCall: call is a method of rNode invoked on currNode; returns its name.
func (x *c15x) rnodeCall(fl *core.Flow, call *ast.CallExpr) (string, bool) {
	fn := core.Callee(fl.F.Info(), call)
	if fn == nil {
		return "", false
	}
	sig, _ := fn.Type().(*types.Signature)
	if sig == nil || sig.Recv() == nil {
		return "", false
	}
	rt := sig.Recv().Type()
	if p, ok := rt.(*types.Pointer); ok {
		rt = p.Elem()
	}
	n, ok := rt.(*types.Named)
	if !ok || n.Obj() != x.rnObj {
		return "", false
	}
	r := core.RecvOf(call)
	if r == nil || !x.isCurrNode(fl, r) {
		return "", false
	}
	return fn.Name(), true
}

// accessor(name): predicate for `currNode.<name>()`.
func (x *c15x) accessor(fl *core.Flow, name string) core.ExprPred {
	return func(e ast.Expr) bool {
		call, ok := c15Strip(fl.F.Info(), e).(*ast.CallExpr)
		if !ok {
			return false
		}
		n, ok := x.rnodeCall(fl, call)
		return ok && n == name
	}
}

func (x *c15x) isValidAtom(fl *core.Flow, e ast.Expr, negated bool) bool {
	e = ast.Unparen(e)
	if negated {
		u, ok := e.(*ast.UnaryExpr)
		if !ok || u.Op != token.NOT {
			return false
		}
		e = ast.Unparen(u.X)
	}
	call, ok := e.(*ast.CallExpr)
	if !ok {
		return false
	}
	n, ok := x.rnodeCall(fl, call)
	return ok && n == "valid" && core.IsCallTo(fl.F.Info(), call, x.mValid)
}

// validTrue: leaving cond along this edge guarantees currNode.valid() == true.
func (x *c15x) validTrue(fl *core.Flow) core.Event {
	return core.Event{Edge: func(cond ast.Expr, ci *core.CondInfo, taken bool) bool {
		if ci != nil && ci.Kind == "tagswitch" {
			return false
		}
		if taken {
			for _, a := range flattenAnd(cond) {
				if x.isValidAtom(fl, a, false) {
					return true
				}
			}
			return false
		}
		for _, a := range flattenOr(cond) {
			if x.isValidAtom(fl, a, true) {
				return true
			}
		}
		return false
	}}
}

// unvalidatedUse reports the first read of currNode's contents inside node n
// that is not protected, within n itself, by a short-circuiting valid() test:
// a call of an rNode method other than valid, or an index expression on
// currNode. (Slicing currNode to hand it to io.ReadFull is a write.)
func (x *c15x) unvalidatedUse(fl *core.Flow, n ast.Node) ast.Node {
	var found ast.Node
	var walk func(n ast.Node)
	walk = func(n ast.Node) {
		if n == nil || found != nil {
			return
		}
		ast.Inspect(n, func(m ast.Node) bool {
			if found != nil {
				return false
			}
			switch e := m.(type) {
			case *ast.FuncLit:
				return false
			case *ast.BinaryExpr:
				if e.Op == token.LOR {
					walk(e.X)
					for _, a := range flattenOr(e.X) {
						if x.isValidAtom(fl, a, true) {
							return false // right operand runs only when valid() is true
						}
					}
					walk(e.Y)
					return false
				}
				if e.Op == token.LAND {
					walk(e.X)
					for _, a := range flattenAnd(e.X) {
						if x.isValidAtom(fl, a, false) {
							return false
						}
					}
					walk(e.Y)
					return false
				}
			case *ast.CallExpr:
				if name, ok := x.rnodeCall(fl, e); ok && name != "valid" {
					found = e
					return false
				}
			case *ast.IndexExpr:
				if x.isCurrNode(fl, e.X) {
					found = e
					return false
				}
			}
			return true
		})
	}
	walk(n)
	return found
}

// c15Def is one definition site of a local variable.
type c15Def struct {
	Node ast.Node // the statement (AssignStmt / ValueSpec / IncDecStmt)
	Rhs  ast.Expr // nil for ++/--, op-assignments and range variables
}

// c15Defs lists every statement in fl's body that writes the local obj.
func c15Defs(fl *core.Flow, obj types.Object) []c15Def {
	info := fl.F.Info()
	is := func(e ast.Expr) bool {
		id, ok := ast.Unparen(e).(*ast.Ident)
		return ok && (info.Defs[id] == obj || info.Uses[id] == obj)
	}
	var out []c15Def
	ast.Inspect(fl.F.Decl.Body, func(n ast.Node) bool {
		switch s := n.(type) {
		case *ast.AssignStmt:
			for i, l := range s.Lhs {
				if !is(l) {
					continue
				}
				var rhs ast.Expr
				if s.Tok == token.ASSIGN || s.Tok == token.DEFINE {
					if len(s.Lhs) == len(s.Rhs) {
						rhs = s.Rhs[i]
					} else if len(s.Rhs) == 1 {
						rhs = s.Rhs[0]
					}
				}
				out = append(out, c15Def{s, rhs})
			}
		case *ast.ValueSpec:
			for i, id := range s.Names {
				if info.Defs[id] == obj {
					var rhs ast.Expr
					if i < len(s.Values) {
						rhs = s.Values[i]
					}
					out = append(out, c15Def{s, rhs})
				}
			}
		case *ast.IncDecStmt:
			if is(s.X) {
				out = append(out, c15Def{s, nil})
			}
		case *ast.RangeStmt:
			if (s.Key != nil && is(s.Key)) || (s.Value != nil && is(s.Value)) {
				out = append(out, c15Def{s, nil})
			}
		case *ast.UnaryExpr:
			if s.Op == token.AND && is(s.X) {
				out = append(out, c15Def{s, nil}) // address taken: anything may write it
			}
		}
		return true
	})
	return out
}

// c15Within: CFG node n is (or contains / is contained in) statement s.
func c15Within(n, s ast.Node) bool {
	return n.Pos() <= s.Pos() && s.End() <= n.End() || s.Pos() <= n.Pos() && n.End() <= s.End()
}

// c15LocalVar resolves e (through parens/conversions) to a local variable.
func c15LocalVar(fl *core.Flow, e ast.Expr) *types.Var {
	id, ok := c15Strip(fl.F.Info(), e).(*ast.Ident)
	if !ok {
		return nil
	}
	v, _ := fl.Obj(id).(*types.Var)
	if v == nil || v.IsField() || v.Pkg() == nil || v.Parent() == v.Pkg().Scope() {
		return nil
	}
	return v
}

// c15DenotesAll: e satisfies p, or e is a local variable every definition of
// which (at least one) satisfies c15DenotesAll.
func c15DenotesAll(fl *core.Flow, e ast.Expr, p core.ExprPred) bool {
	var rec func(e ast.Expr, depth int) bool
	rec = func(e ast.Expr, depth int) bool {
		if p(e) {
			return true
		}
		if depth > 4 {
			return false
		}
		v := c15LocalVar(fl, e)
		if v == nil {
			return false
		}
		defs := c15Defs(fl, v)
		if len(defs) == 0 {
			return false
		}
		for _, d := range defs {
			if d.Rhs == nil || !rec(d.Rhs, depth+1) {
				return false
			}
		}
		return true
	}
	return rec(e, 0)
}

// c15Cmp normalises a comparison `a OP b`.
func c15Cmp(e ast.Expr) (a, b ast.Expr, op token.Token, ok bool) {
	be, isb := ast.Unparen(e).(*ast.BinaryExpr)
	if !isb {
		return nil, nil, 0, false
	}
	switch be.Op {
	case token.LSS, token.LEQ, token.GTR, token.GEQ, token.EQL, token.NEQ:
		return be.X, be.Y, be.Op, true
	}
	return nil, nil, 0, false
}

// c15Less: atom means `lo < hi` strictly (either operand order), lo/hi by predicate.
func c15Less(atom ast.Expr, lo, hi core.ExprPred) bool {
	a, b, op, ok := c15Cmp(atom)
	if !ok {
		return false
	}
	return (op == token.LSS && lo(a) && hi(b)) || (op == token.GTR && hi(a) && lo(b))
}

// c15Sub: e is `a - b`.
func c15Sub(info *types.Info, e ast.Expr, a, b core.ExprPred) bool {
	be, ok := c15Strip(info, e).(*ast.BinaryExpr)
	return ok && be.Op == token.SUB && a(be.X) && b(be.Y)
}

// c15Add: e is `a + b` in either order.
func c15Add(info *types.Info, e ast.Expr, a, b core.ExprPred) bool {
	be, ok := c15Strip(info, e).(*ast.BinaryExpr)
	return ok && be.Op == token.ADD && ((a(be.X) && b(be.Y)) || (a(be.Y) && b(be.X)))
}

func c15ConstPred(info *types.Info, ok func(v int64) bool) core.ExprPred {
	return func(e ast.Expr) bool {
		v, isc := core.ConstInt64(info, e)
		return isc && ok(v)
	}
}

// falseEdgeOfAtom: the event "continued past the false branch of a guard one
// of whose ||-operands satisfies atom" (so the atom is false afterwards).
func c15RejectGuard(atom func(ast.Expr) bool) core.Event {
	return core.Event{Edge: func(cond ast.Expr, ci *core.CondInfo, taken bool) bool {
		if taken || (ci != nil && ci.Kind == "tagswitch") {
			return false
		}
		for _, a := range flattenOr(cond) {
			if atom(a) {
				return true
			}
		}
		return false
	}}
}

func c15CallIs(target *ast.CallExpr) func(*ast.CallExpr) bool {
	return func(c *ast.CallExpr) bool { return c == target }
}

func c15Anchor(f *core.Func, sub string) string {
	if sub == "" {
		return f.Name()
	}
	return f.Name() + "[" + sub + "]"
}

// returnsConstFalse: a `return false, …` (a "not found" answer, not an acceptance).
func c15ReturnsConstFalse(info *types.Info, n ast.Node) bool {
	r, ok := n.(*ast.ReturnStmt)
	if !ok {
		return false
	}
	for _, e := range r.Results {
		if tv, ok := info.Types[e]; ok && tv.Value != nil && tv.Value.String() == "false" {
			return true
		}
	}
	return false
}

// ---------------------------------------------------------------------------
// V — validate-before-use
// ---------------------------------------------------------------------------

type c15LoadSite struct {
	f      *core.Func
	fl     *core.Flow
	call   *ast.CallExpr
	exempt bool
}

func (x *c15x) loadSites() []c15LoadSite {
	var out []c15LoadSite
	for _, f := range x.funcs {
		var calls []*ast.CallExpr
		ast.Inspect(f.Decl.Body, func(n ast.Node) bool {
			if call, ok := n.(*ast.CallExpr); ok && core.IsCallTo(f.Info(), call, x.mLoad) {
				calls = append(calls, call)
			}
			return true
		})
		if len(calls) == 0 {
			continue
		}
		fl := x.flow(f)
		for _, call := range calls {
			s := c15LoadSite{f: f, fl: fl, call: call}
			// The one documented exemption, one symbol wide: a reload of exactly
			// (r.rootNodeCOffset, r.rootNodeArity) — the node validated in initialize.
			if len(call.Args) == 2 && c15RecvField(fl, call.Args[0], x.fRootOff) && c15RecvField(fl, call.Args[1], x.fRootArity) {
				s.exempt = true
			}
			out = append(out, s)
		}
	}
	return out
}

func c15Validate(x *c15x) {
	c, k := x.c, x.k
	sites := x.loadSites()
	nExempt, nChecked := 0, 0
	for _, s := range sites {
		fl, info := s.fl, s.fl.F.Info()
		if s.exempt {
			nExempt++
			c.Pass("V.exempt", c15Anchor(s.f, "load(rootNodeCOffset, rootNodeArity)"),
				"the reload of the root node is exempt from re-validation: it re-reads the node that initialize validated (rule V.root checks that these two fields are only stored after validation)", 1,
				k.g.Pos(s.call.Pos()))
			continue
		}
		nChecked++
		isLoad := c15CallIs(s.call)
		// V.use: after load, valid()==true before any read of the node / any acceptance.
		k.mustPass("V.use", c15Anchor(s.f, "after load"),
			"after ChunkReader.load fills currNode from the file, every path to a read of the node (an rNode accessor other than valid, or an index expression on currNode) or to an accepting return passes through currNode.valid() == true",
			fl, core.Query{
				Start:  func(n ast.Node) bool { return core.Guaranteed(n, isLoad) },
				Events: []core.Event{x.validTrue(fl)},
				Exit: func(n ast.Node) bool {
					if x.unvalidatedUse(fl, n) != nil {
						return true
					}
					return x.successReturn(fl)(n) && !c15ReturnsConstFalse(info, n)
				},
				FuncEnd: true,
			})
		// V.infile: guards that precede the load.
		x.inFile(s)
	}
	c.Floor("V.use", "call sites of ChunkReader.load that are followed by validation (tryRootNode, loadAndValidate)", nChecked, 2)
	c.Floor("V.exempt", "exempt root reload (resolveSeekPosition)", nExempt, 1)
	if nExempt > 1 {
		c.Fail("V.exempt", c15Rac, "exactly one exempt reload of the root node exists", nExempt, "more than one load(rootNodeCOffset, rootNodeArity) site: the exemption is meant to be one site wide")
	}

	x.rootFields(sites)
	x.parentChild()
	x.entryUses(sites)
	x.checkParameters()
}

// inFile: the size/offset guards that precede a (non-exempt) load.
func (x *c15x) inFile(s c15LoadSite) {
	k, fl, info := x.k, s.fl, s.fl.F.Info()
	if len(s.call.Args) != 2 {
		x.c.Undecided("V.infile", c15Anchor(s.f, "load"), "load(cOffset, arity) has two arguments", k.g.Pos(s.call.Pos()))
		return
	}
	offArg, arArg := s.call.Args[0], s.call.Args[1]
	arVar := c15LocalVar(fl, arArg)
	offVar := c15LocalVar(fl, offArg)
	if arVar == nil || offVar == nil {
		x.c.Undecided("V.infile", c15Anchor(s.f, "load"), "load's arguments are local variables", k.g.Pos(s.call.Pos())+": "+core.Src(k.g.Fset, s.call))
		return
	}
	isAr := func(e ast.Expr) bool { return c15LocalVar(fl, e) == arVar }
	isOff := func(e ast.Expr) bool { return c15LocalVar(fl, e) == offVar }
	isCS := func(e ast.Expr) bool { return c15RecvField(fl, c15Strip(info, e), x.fCSize) }
	nodeSz := func(e ast.Expr) bool {
		return c15DenotesAll(fl, e, func(e ast.Expr) bool {
			call, ok := c15Strip(info, e).(*ast.CallExpr)
			return ok && core.IsCallTo(info, call, x.fnNodeSize) && len(call.Args) == 1 && isAr(call.Args[0])
		})
	}
	isLoad := c15CallIs(s.call)
	exitLoad := func(n ast.Node) bool { return core.AnyCall(n, isLoad) }

	k.mustPass("V.infile.size", c15Anchor(s.f, "before load"),
		"a node of nodeSize(arity) bytes is loaded only past a guard that rejects CompressedSize < nodeSize(arity)",
		fl, core.Query{Exit: exitLoad, Events: []core.Event{c15RejectGuard(func(a ast.Expr) bool { return c15Less(a, isCS, nodeSz) })}})

	// Offset: guarded, or constructed as 0 / CompressedSize - size.
	constructed := true
	defs := c15Defs(fl, offVar)
	if len(defs) == 0 {
		constructed = false // a parameter: must be guarded
	}
	for _, d := range defs {
		if d.Rhs == nil {
			constructed = false
			break
		}
		if v, ok := core.ConstInt64(info, c15Strip(info, d.Rhs)); ok && v == 0 {
			continue
		}
		if c15Sub(info, d.Rhs, isCS, nodeSz) {
			continue
		}
		constructed = false
	}
	anchor := c15Anchor(s.f, "before load")
	if constructed {
		x.c.Pass("V.infile.off", anchor, "the offset handed to load is 0 or CompressedSize - nodeSize(arity) by construction (and the size guard makes the latter non-negative)", len(defs),
			fmt.Sprintf("%s: %d definitions of %s, each 0 or CompressedSize-size", k.g.Pos(s.call.Pos()), len(defs), offVar.Name()))
		return
	}
	hiAtom := func(a ast.Expr) bool {
		// (CS - size) < off   |   off > CS - size   |   off + size > CS
		if c15Less(a, func(e ast.Expr) bool { return c15Sub(info, e, isCS, nodeSz) }, isOff) {
			return true
		}
		return c15Less(a, isCS, func(e ast.Expr) bool { return c15Add(info, e, isOff, nodeSz) })
	}
	k.mustPass("V.infile.off", anchor,
		"load(cOffset, arity) is reached only past a guard that rejects CompressedSize - nodeSize(arity) < cOffset (the node would extend beyond the file)",
		fl, core.Query{Exit: exitLoad, Events: []core.Event{c15RejectGuard(hiAtom)}})
	zero := c15ConstPred(info, func(v int64) bool { return v == 0 })
	k.mustPass("V.infile.neg", anchor,
		"load(cOffset, arity) is reached only past a guard that rejects cOffset < 0",
		fl, core.Query{Exit: exitLoad, Events: []core.Event{c15RejectGuard(func(a ast.Expr) bool { return c15Less(a, isOff, zero) })}})

	// The head read (magic+arity) that precedes the load in the same function:
	// io.ReadFull(_, currNode[:K]) needs cOffset <= CompressedSize - K' with K' >= K.
	var head *ast.CallExpr
	var headK int64
	ast.Inspect(fl.F.Decl.Body, func(n ast.Node) bool {
		call, ok := n.(*ast.CallExpr)
		if !ok || head != nil || len(call.Args) != 2 {
			return true
		}
		fn := core.Callee(info, call)
		if fn == nil || fn.FullName() != "io.ReadFull" {
			return true
		}
		sl, ok := ast.Unparen(call.Args[1]).(*ast.SliceExpr)
		if !ok || !x.isCurrNode(fl, sl.X) || sl.Low != nil || sl.High == nil {
			return true
		}
		if v, ok := core.ConstInt64(info, sl.High); ok {
			head, headK = call, v
		}
		return true
	})
	if head == nil {
		x.c.Undecided("V.infile.head", c15Anchor(s.f, "head read"), "the 4-byte head read io.ReadFull(_, currNode[:K]) that yields the arity is found", "no io.ReadFull into currNode[:const] in "+s.f.Name())
		return
	}
	exitHead := func(n ast.Node) bool {
		// the Seek that positions the read, or the read itself
		return core.AnyCall(n, c15CallIs(head)) || core.AnyCall(n, func(c *ast.CallExpr) bool {
			fn := core.Callee(info, c)
			return fn != nil && fn.Name() == "Seek" && len(c.Args) >= 1 && isOff(c.Args[0])
		})
	}
	atLeast := c15ConstPred(info, func(v int64) bool { return v >= headK })
	k.mustPass("V.infile.head", c15Anchor(s.f, "head read"),
		fmt.Sprintf("the Seek(cOffset)/ReadFull(currNode[:%d]) that reads a child's arity is reached only past guards rejecting cOffset < 0 and CompressedSize - K < cOffset with K >= %d", headK, headK),
		fl, core.Query{Exit: exitHead, Events: []core.Event{core.Event{Edge: func(cond ast.Expr, ci *core.CondInfo, taken bool) bool {
			if taken || (ci != nil && ci.Kind == "tagswitch") {
				return false
			}
			neg, hi := false, false
			for _, a := range flattenOr(cond) {
				if c15Less(a, isOff, zero) {
					neg = true
				}
				if c15Less(a, func(e ast.Expr) bool { return c15Sub(info, e, isCS, atLeast) }, isOff) ||
					c15Less(a, isCS, func(e ast.Expr) bool { return c15Add(info, e, isOff, atLeast) }) {
					hi = true
				}
			}
			return neg && hi
		}}}})
}

// rootFields: V.root — the justification of the exemption.
func (x *c15x) rootFields(sites []c15LoadSite) {
	k, c := x.k, x.c
	n := 0
	for _, f := range x.funcs {
		info := f.Info()
		var stores []*ast.AssignStmt
		ast.Inspect(f.Decl.Body, func(m ast.Node) bool {
			as, ok := m.(*ast.AssignStmt)
			if !ok {
				return true
			}
			for _, l := range as.Lhs {
				if c15FieldOfAny(info, l, x.fRootOff) || c15FieldOfAny(info, l, x.fRootArity) {
					stores = append(stores, as)
					break
				}
			}
			return true
		})
		if len(stores) == 0 {
			continue
		}
		fl := x.flow(f)
		var site *c15LoadSite
		for i := range sites {
			if sites[i].f == f && !sites[i].exempt {
				site = &sites[i]
			}
		}
		for _, as := range stores {
			n++
			which := "rootNodeCOffset"
			argIx := 0
			if c15FieldOfAny(info, as.Lhs[0], x.fRootArity) {
				which, argIx = "rootNodeArity", 1
			}
			anchor := c15Anchor(f, "store "+which)
			if site == nil || len(as.Lhs) != 1 || len(as.Rhs) != 1 || as.Tok != token.ASSIGN {
				c.Fail("V.root", anchor, "rootNodeCOffset / rootNodeArity are stored only in a function that loads and validates that node", 1,
					k.g.Pos(as.Pos())+": `"+core.Src(k.g.Fset, as)+"` is not a plain store next to a validated load")
				continue
			}
			isStore := func(n ast.Node) bool { return n == ast.Node(as) }
			k.mustPass("V.root.valid", anchor,
				"the root node's location is recorded only after that node was loaded and currNode.valid() returned true (this is what the root reload in resolveSeekPosition relies on)",
				fl, core.Query{Exit: isStore, Events: []core.Event{x.validTrue(fl)}})
			k.mustPass("V.root.load", anchor,
				"the root node's location is recorded only after ChunkReader.load of that location",
				fl, core.Query{Exit: isStore, Events: []core.Event{core.CallEvent(c15CallIs(site.call))}})
			// The specification's "Root Node COffMax must equal CFileSize": it is
			// what bounds every descendant's compressed range by the file size
			// (V.parentchild.coffmax carries it down), whichever end of the file
			// the root was found at.
			cmax := func(e ast.Expr) bool { return c15DenotesAll(fl, e, x.accessor(fl, "cPtrMax")) }
			csize := func(e ast.Expr) bool { return c15RecvField(fl, c15Strip(info, e), x.fCSize) }
			eqAtom := func(a ast.Expr, want token.Token) bool {
				l, r, op, ok := c15Cmp(a)
				return ok && op == want && ((cmax(l) && csize(r)) || (cmax(r) && csize(l)))
			}
			k.mustPass("V.root.coffmax", anchor,
				"the root node's location is recorded only past a test that its COffMax equals CompressedSize (currNode.cPtrMax() != r.CompressedSize rejects), for a root found at either end of the file",
				fl, core.Query{Exit: isStore, Events: []core.Event{{Edge: func(cond ast.Expr, ci *core.CondInfo, taken bool) bool {
					if ci != nil && ci.Kind == "tagswitch" {
						return false
					}
					if taken {
						for _, a := range flattenAnd(cond) {
							if eqAtom(a, token.EQL) {
								return true
							}
						}
						return false
					}
					for _, a := range flattenOr(cond) {
						if eqAtom(a, token.NEQ) {
							return true
						}
					}
					return false
				}}}})
			// Same variable as handed to load, not reassigned in between.
			av := c15LocalVar(fl, site.call.Args[argIx])
			rv := c15LocalVar(fl, as.Rhs[0])
			if av == nil || av != rv {
				c.Fail("V.root.same", anchor, "the recorded value is the very variable that was passed to load", 1,
					fmt.Sprintf("%s: stores `%s` but load was given `%s`", k.g.Pos(as.Pos()), core.Src(k.g.Fset, as.Rhs[0]), core.Src(k.g.Fset, site.call.Args[argIx])))
				continue
			}
			defs := c15Defs(fl, av)
			esc, visited := fl.Escapes(core.Query{
				Start: func(n ast.Node) bool { return core.Guaranteed(n, c15CallIs(site.call)) },
				Exit: func(n ast.Node) bool {
					for _, d := range defs {
						if c15Within(n, d.Node) {
							return true
						}
					}
					return false
				}})
			if len(esc) > 0 {
				c.Fail("V.root.same", anchor, "the recorded value is the very variable that was passed to load, unchanged since", visited,
					fmt.Sprintf("%s is reassigned after load: %s", av.Name(), esc[0].String()))
			} else {
				c.Pass("V.root.same", anchor, "the recorded value is the very variable that was passed to load, unchanged since", visited+1,
					k.g.Pos(as.Pos()))
			}
		}
	}
	c.Floor("V.root", "stores to ChunkReader.rootNodeCOffset / rootNodeArity (both in tryRootNode)", n, 2)
}

// parentChild: loadAndValidate's parent/child guard dominates its success return,
// with the parent values flowing from the call site in the descent loop.
func (x *c15x) parentChild() {
	k, c := x.k, x.c
	ds := x.descent()
	if ds == nil {
		return
	}
	L, D := ds.L, ds.D
	info := L.F.Info()
	anchor := L.F.Name()
	// parameters by the meaning of their call-site argument
	type prm struct {
		name string
		arg  core.ExprPred // what the caller passes
		obj  types.Object
	}
	dinfo := D.F.Info()
	cBiasLike := func(e ast.Expr) bool { return c15LocalVar(D, e) != nil }
	prms := []*prm{
		{name: "codec", arg: func(e ast.Expr) bool { return c15DenotesAll(D, e, x.accessor(D, "codec")) }},
		{name: "mixbit", arg: func(e ast.Expr) bool { return c15DenotesAll(D, e, x.accessor(D, "codecHasMixBit")) }},
		{name: "version", arg: func(e ast.Expr) bool { return c15DenotesAll(D, e, x.accessor(D, "version")) }},
		{name: "coffmax", arg: func(e ast.Expr) bool {
			return c15DenotesAll(D, e, func(e ast.Expr) bool { return c15Add(dinfo, e, cBiasLike, x.accessor(D, "cPtrMax")) })
		}},
		{name: "dsize", arg: func(e ast.Expr) bool { return c15DenotesAll(D, e, x.accessor(D, "dSize")) }},
	}
	for _, p := range prms {
		for i, a := range ds.call.Args {
			if p.arg(a) {
				if p.obj != nil {
					p.obj = nil // ambiguous
					break
				}
				p.obj = L.Param(i)
			}
		}
		if p.obj == nil {
			c.Undecided("V.parentchild", anchor, "the parent's "+p.name+" flows from the descent loop's call site into exactly one parameter of "+L.F.Name(),
				k.g.Pos(ds.call.Pos())+": no (or more than one) argument of `"+core.Src(k.g.Fset, ds.call)+"` denotes the parent's "+p.name)
			return
		}
	}
	P := func(i int) core.ExprPred { return L.Is(prms[i].obj) }
	den := func(name string) core.ExprPred {
		return func(e ast.Expr) bool { return c15DenotesAll(L, e, x.accessor(L, name)) }
	}
	parentChildCodecsValid := k.fn("V.parentchild", c15Rac, "", "parentChildCodecsValid")
	atoms := []struct {
		rule, claim string
		atom        func(ast.Expr) bool
	}{
		{"V.parentchild.codec", "a child whose codec is not allowed under its parent's codec is rejected: !parentChildCodecsValid(parentCodec, currNode.codec(), parentMixBit)",
			func(a ast.Expr) bool {
				u, ok := ast.Unparen(a).(*ast.UnaryExpr)
				if !ok || u.Op != token.NOT {
					return false
				}
				call, ok := ast.Unparen(u.X).(*ast.CallExpr)
				return ok && len(call.Args) == 3 && core.IsCallTo(info, call, parentChildCodecsValid) &&
					P(0)(call.Args[0]) && den("codec")(call.Args[1]) && P(1)(call.Args[2])
			}},
		{"V.parentchild.version", "a child with a higher version than its parent is rejected: parentVersion < currNode.version()",
			func(a ast.Expr) bool { return c15Less(a, P(2), den("version")) }},
		{"V.parentchild.coffmax", "a child whose COffMax exceeds its parent's is rejected: parentCOffMax < childCBias + currNode.cPtrMax()",
			func(a ast.Expr) bool {
				return c15Less(a, P(3), func(e ast.Expr) bool {
					return c15Add(info, e, func(b ast.Expr) bool { return isParamOf(L, b) }, den("cPtrMax"))
				})
			}},
		{"V.parentchild.doffmax", "a child whose DPtrMax differs from the size its parent allots is rejected: childDSize != currNode.dPtrMax()",
			func(a ast.Expr) bool {
				l, r, op, ok := c15Cmp(a)
				return ok && op == token.NEQ && ((P(4)(l) && den("dPtrMax")(r)) || (P(4)(r) && den("dPtrMax")(l)))
			}},
	}
	for _, a := range atoms {
		k.mustPass(a.rule, anchor, a.claim+" — on every path to the success return", L,
			core.Query{Exit: x.successReturn(L), FuncEnd: true, Events: []core.Event{c15RejectGuard(a.atom)}})
	}
}

func isParamOf(fl *core.Flow, e ast.Expr) bool {
	v := c15LocalVar(fl, e)
	if v == nil {
		return false
	}
	for i := 0; ; i++ {
		p := fl.Param(i)
		if p == nil {
			return false
		}
		if p == types.Object(v) {
			return true
		}
	}
}

// entryUses: every read of currNode outside the post-load sites is dominated
// by a checked call that establishes a validated node.
func (x *c15x) entryUses(sites []c15LoadSite) {
	k, c := x.k, x.c
	hasCheckedLoad := map[*core.Func]bool{}
	var exemptCall = map[*core.Func]*ast.CallExpr{}
	for _, s := range sites {
		if !s.exempt {
			hasCheckedLoad[s.f] = true
		} else {
			exemptCall[s.f] = s.call
		}
	}
	nfun := 0
	for _, f := range x.funcs {
		if hasCheckedLoad[f] || f.Decl.Recv == nil {
			continue
		}
		fl := x.flow(f)
		if fl.Recv() == nil || !c15IsNamed(fl.Recv().Type(), x.crObj) {
			continue
		}
		uses := 0
		ast.Inspect(f.Decl.Body, func(n ast.Node) bool {
			switch e := n.(type) {
			case *ast.CallExpr:
				if name, ok := x.rnodeCall(fl, e); ok && name != "valid" {
					uses++
				}
			case *ast.IndexExpr:
				if x.isCurrNode(fl, e.X) {
					uses++
				}
			}
			return true
		})
		if uses == 0 {
			continue
		}
		info := f.Info()
		// Which own calls establish "currNode is a validated node" on success?
		establishes := func(call *ast.CallExpr) bool {
			if !c15IsRecv(fl, core.RecvOf(call)) {
				return false
			}
			if core.IsCallTo(info, call, x.mInitialize) || core.IsCallTo(info, call, x.mFindRoot) || core.IsCallTo(info, call, x.mLoadAndValidate) {
				return true
			}
			return exemptCall[f] != nil && call == exemptCall[f]
		}
		// findRootNode itself reads the 4 head bytes it has just fetched (magic and
		// arity) before any node is loaded: those raw index reads are the discovery
		// protocol, not accessor reads of a node. They are allowed in findRootNode only.
		exit := func(n ast.Node) bool {
			u := x.unvalidatedUse(fl, n)
			if u == nil {
				return false
			}
			if f.Obj == x.mFindRoot {
				if _, isIndex := u.(*ast.IndexExpr); isIndex {
					return false
				}
			}
			return true
		}
		if f.Obj == x.mFindRoot {
			// only raw head-byte reads are expected here; count accessor calls
			acc := 0
			ast.Inspect(f.Decl.Body, func(n ast.Node) bool {
				if e, ok := n.(*ast.CallExpr); ok {
					if name, ok := x.rnodeCall(fl, e); ok && name != "valid" {
						acc++
					}
				}
				return true
			})
			if acc == 0 {
				c.Pass("V.entry", c15Anchor(f, "head bytes"), "findRootNode reads only the raw magic/arity bytes it has just fetched, no rNode accessor", uses, k.g.Pos(f.Decl.Pos()))
				continue
			}
		}
		nfun++
		x.passCheckedEach("V.entry", c15Anchor(f, "reads of currNode"),
			"every read of currNode in this function is preceded by a call of initialize / findRootNode / loadAndValidate / the exempt root reload on the same ChunkReader",
			fl, core.Query{Exit: exit}, establishes)
		// Unexported functions that rely on their callers: every call site is itself
		// dominated by a checked initialize.
		if !f.Decl.Name.IsExported() && f.Obj != x.mInitialize {
			ncall := 0
			for _, g := range x.funcs {
				var calls []*ast.CallExpr
				ast.Inspect(g.Decl.Body, func(n ast.Node) bool {
					if call, ok := n.(*ast.CallExpr); ok && core.IsCallTo(g.Info(), call, f.Obj) {
						calls = append(calls, call)
					}
					return true
				})
				for _, call := range calls {
					ncall++
					gfl := x.flow(g)
					k.passChecked("V.entry.caller", c15Anchor(g, "call of "+f.Decl.Name.Name),
						"the caller of "+f.Decl.Name.Name+" has passed a checked initialize() first (so the root node it reloads was validated)",
						gfl, core.Query{Exit: func(n ast.Node) bool { return core.AnyCall(n, c15CallIs(call)) }},
						func(cc *ast.CallExpr) bool {
							return core.IsCallTo(g.Info(), cc, x.mInitialize) && c15IsRecv(gfl, core.RecvOf(cc))
						})
				}
			}
			if ncall == 0 {
				c.Undecided("V.entry.caller", f.Name(), "the function that reads currNode has a caller in the package", "no call site found")
			}
		}
	}
	c.Floor("V.entry", "ChunkReader methods that read currNode outside the load sites (initialize, NextChunk, resolveSeekPosition)", nfun, 3)
}

func c15IsNamed(t types.Type, obj types.Object) bool {
	if p, ok := t.(*types.Pointer); ok {
		t = p.Elem()
	}
	n, ok := t.(*types.Named)
	return ok && n.Obj() == obj
}

// checkParameters: the smallest-file and nil-source guards.
func (x *c15x) checkParameters() {
	k := x.k
	f := x.byObj[x.mCheckParams]
	if f == nil {
		return
	}
	fl := x.flow(f)
	info := f.Info()
	isCS := func(e ast.Expr) bool { return c15RecvField(fl, c15Strip(info, e), x.fCSize) }
	min := c15ConstPred(info, func(v int64) bool { return v >= 32 })
	k.mustPass("V.params.size", f.Name(),
		"checkParameters rejects CompressedSize < 32 (the smallest node, nodeSize(1)); findRootNode's reads at offsets 0 and CompressedSize-1 rely on it",
		fl, core.Query{Exit: x.successReturn(fl), FuncEnd: true, Events: []core.Event{c15RejectGuard(func(a ast.Expr) bool { return c15Less(a, isCS, min) })}})
	fRS := core.LookupField(x.crObj, "ReadSeeker")
	k.mustPass("V.params.nil", f.Name(),
		"checkParameters rejects a nil ReadSeeker",
		fl, core.Query{Exit: x.successReturn(fl), FuncEnd: true, Events: []core.Event{c15RejectGuard(func(a ast.Expr) bool {
			return nilTest(fl, a, func(e ast.Expr) bool { return c15RecvField(fl, e, fRS) }, true)
		})}})
	// … and initialize passes through it before findRootNode.
	if fi := x.byObj[x.mInitialize]; fi != nil {
		ifl := x.flow(fi)
		k.passChecked("V.params.wired", fi.Name(),
			"initialize calls checkParameters (checked) before findRootNode",
			ifl, core.Query{Exit: func(n ast.Node) bool {
				return core.AnyCall(n, func(cc *ast.CallExpr) bool { return core.IsCallTo(fi.Info(), cc, x.mFindRoot) })
			}}, func(cc *ast.CallExpr) bool { return core.IsCallTo(fi.Info(), cc, x.mCheckParams) })
	}
}

// ---------------------------------------------------------------------------

func c15SortedKeys(m map[string]int) []string {
	var out []string
	for s := range m {
		out = append(out, s)
	}
	sort.Strings(out)
	return out
}

func c15Join(ss []string) string { return strings.Join(ss, "; ") }

// ---------------------------------------------------------------------------
// error / success returns, including the package's `r.err = E; return r.err` idiom
// ---------------------------------------------------------------------------

// c15InsideNonNil: node lies in the then-branch of `if X != nil` with X satisfying p.
func c15InsideNonNil(fl *core.Flow, node ast.Node, p core.ExprPred) bool {
	path := core.PathTo(fl.F.Decl.Body, node)
	for i := len(path) - 1; i >= 1; i-- {
		ifs, ok := path[i-1].(*ast.IfStmt)
		if !ok || path[i] != ast.Node(ifs.Body) {
			continue
		}
		if nilTest(fl, ifs.Cond, p, false) {
			return true
		}
	}
	return false
}

// c15PrevStmt returns the statement that precedes s in its enclosing block
// (skipping the engine's break/continue markers).
func c15PrevStmt(fl *core.Flow, s ast.Stmt) ast.Stmt {
	path := core.PathTo(fl.F.Decl.Body, s)
	if len(path) < 2 {
		return nil
	}
	var list []ast.Stmt
	switch b := path[len(path)-2].(type) {
	case *ast.BlockStmt:
		list = b.List
	case *ast.CaseClause:
		list = b.Body
	default:
		return nil
	}
	for i, t := range list {
		if t == s && i > 0 {
			return list[i-1]
		}
	}
	return nil
}

// certainlyNonNilErr: e is a package-level error value, fmt.Errorf / errors.New,
// or a local error variable tested non-nil around `at`.
func c15CertainlyNonNilErr(fl *core.Flow, e ast.Expr, at ast.Node) bool {
	info := fl.F.Info()
	switch v := ast.Unparen(e).(type) {
	case *ast.CallExpr:
		if fn := core.Callee(info, v); fn != nil && fn.Pkg() != nil {
			switch fn.Pkg().Path() + "." + fn.Name() {
			case "fmt.Errorf", "errors.New":
				return true
			}
		}
	case *ast.Ident:
		if obj, ok := info.Uses[v].(*types.Var); ok {
			if obj.Pkg() != nil && obj.Parent() == obj.Pkg().Scope() {
				return true
			}
			return c15InsideNonNil(fl, at, func(x ast.Expr) bool { return fl.Obj(x) == types.Object(obj) })
		}
	case *ast.SelectorExpr:
		if obj, ok := info.Uses[v.Sel].(*types.Var); ok && !obj.IsField() && obj.Pkg() != nil && obj.Parent() == obj.Pkg().Scope() {
			return true
		}
	}
	return false
}

// errField returns the sticky field of the receiver's type (nil if none).
func (x *c15x) errField(fl *core.Flow) *types.Var {
	r := fl.Recv()
	if r == nil {
		return nil
	}
	switch {
	case c15IsNamed(r.Type(), x.crObj):
		return x.fCRErr
	case c15IsNamed(r.Type(), x.rdObj):
		return x.fRDErr
	}
	return nil
}

// isErrReturn: the return certainly carries a non-nil error: the engine's
// idioms, plus `r.err = <non-nil>; return …, r.err` and `return r.err` under
// `if r.err != nil`.
func (x *c15x) isErrReturn(fl *core.Flow, r *ast.ReturnStmt) bool {
	if fl.IsErrorReturn(r) {
		return true
	}
	if len(r.Results) == 0 {
		return false
	}
	ef := x.errField(fl)
	last := r.Results[len(r.Results)-1]
	if ef == nil || !c15RecvField(fl, last, ef) {
		return false
	}
	if c15InsideNonNil(fl, r, func(e ast.Expr) bool { return c15RecvField(fl, e, ef) }) {
		return true
	}
	if as, ok := c15PrevStmt(fl, r).(*ast.AssignStmt); ok && as.Tok == token.ASSIGN && len(as.Lhs) == 1 && len(as.Rhs) == 1 &&
		c15RecvField(fl, as.Lhs[0], ef) && c15CertainlyNonNilErr(fl, as.Rhs[0], r) {
		return true
	}
	return false
}

func (x *c15x) successReturn(fl *core.Flow) func(n ast.Node) bool {
	return func(n ast.Node) bool {
		r, ok := n.(*ast.ReturnStmt)
		return ok && !x.isErrReturn(fl, r)
	}
}

// passCheckedEach is gutil's passChecked with one error-test query per call
// site: the engine stops following a path once an obligation is discharged, so
// with several establishing calls in sequence (root reload, then
// loadAndValidate inside the loop) a single query never reaches the later ones.
func (x *c15x) passCheckedEach(rule, anchor, claim string, fl *core.Flow, q core.Query, pred func(*ast.CallExpr) bool) {
	k := x.k
	q1 := q
	q1.Events = append(append([]core.Event{}, q.Events...), core.CallEvent(pred))
	k.mustPass(rule+".call", anchor, claim, fl, q1)
	var calls []*ast.CallExpr
	ast.Inspect(fl.F.Decl.Body, func(n ast.Node) bool {
		if call, ok := n.(*ast.CallExpr); ok && pred(call) {
			calls = append(calls, call)
		}
		return true
	})
	claim2 := claim + " — and a non-nil error from it stops the path"
	sites := 0
	var lines []string
	for _, call := range calls {
		is := c15CallIs(call)
		errv := errVarFrom(fl, is)
		q2 := q
		q2.Start = func(n ast.Node) bool {
			if _, isRet := n.(*ast.ReturnStmt); isRet {
				return false
			}
			return core.Guaranteed(n, is)
		}
		q2.Events = []core.Event{{Edge: func(cond ast.Expr, ci *core.CondInfo, taken bool) bool {
			return !taken && nilTest(fl, cond, errv, false)
		}}}
		esc, n := fl.Escapes(q2)
		sites += n
		for _, e := range esc {
			lines = append(lines, fmt.Sprintf("after `%s` (%s): %s", core.Src(k.g.Fset, call.Fun), k.g.Pos(call.Pos()), e.String()))
		}
	}
	if len(calls) == 0 {
		x.c.Undecided(rule+".err", anchor, claim2, "no establishing call site found")
		return
	}
	if len(lines) == 0 {
		x.c.Pass(rule+".err", anchor, claim2, sites+len(calls), fmt.Sprintf("error result tested on every continuation of %d call sites", len(calls)))
		return
	}
	x.c.Fail(rule+".err", anchor, claim2, sites, "in "+fl.F.Name()+":\n"+strings.Join(lines, "\n"))
}
