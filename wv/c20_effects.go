package main

// C20 helper: interprocedural *write-effect* summaries on go/ssa.
//
// Question answered: "does evaluating this call write to memory that outlives
// the call (or perform output / concurrency)?"  A call that does not is
// order-irrelevant inside a loop over an unordered collection.  The answer is
// computed from instruction kinds (Store, MapUpdate, Send, Go, Select, calls)
// and the provenance of the written address (fresh allocation in the same
// function = local).  Functions outside the analysed module are decided by a
// small frozen table (stdPure / stdRecvOnly / stdReadIO); anything not in the
// table is an effect.  Nothing is executed.

import (
	"fmt"
	"go/token"
	"go/types"
	"sort"
	"strings"

	"golang.org/x/tools/go/callgraph"
	"golang.org/x/tools/go/ssa"
)

// fxAn is one effect analysis over one SSA program.
type fxAn struct {
	prog   *ssa.Program
	cg     *callgraph.Graph // may be nil (control programs: static + closure calls only)
	inMod  func(pkgPath string) bool
	pos    func(token.Pos) string
	readIO bool // additionally treat read-only file system calls as effect-free (rule S1)

	own   map[*ssa.Function]*fxOwn
	sites map[token.Pos]ssa.CallInstruction // Lparen -> call instruction
}

type fxOwn struct {
	effects []string        // effects of the function's own instructions (excluding analysable callees)
	callees []*ssa.Function // analysable callees (and function-valued arguments) to visit
}

func newFx(prog *ssa.Program, cg *callgraph.Graph, inMod func(string) bool, pos func(token.Pos) string) *fxAn {
	return &fxAn{prog: prog, cg: cg, inMod: inMod, pos: pos, own: map[*ssa.Function]*fxOwn{}}
}

// ---- frozen tables for functions outside the module ----

// Whole packages whose exported functions (not methods) neither write through
// their arguments nor perform I/O.
var stdPurePkgs = map[string]bool{
	"strings": true, "strconv": true, "unicode": true, "unicode/utf8": true, "unicode/utf16": true,
	"math": true, "math/bits": true, "errors": true, "path": true,
}

// Individual functions/methods that only read their operands.
var stdPure = map[string]bool{
	"fmt.Errorf": true, "fmt.Sprintf": true, "fmt.Sprint": true, "fmt.Sprintln": true,
	"path/filepath.Join": true, "path/filepath.Base": true, "path/filepath.Dir": true, "path/filepath.Ext": true,
	"path/filepath.FromSlash": true, "path/filepath.ToSlash": true, "path/filepath.Clean": true,
	"bytes.Equal": true, "bytes.Compare": true, "bytes.HasPrefix": true, "bytes.HasSuffix": true, "bytes.Index": true,
	"bytes.IndexByte": true, "bytes.LastIndex": true, "bytes.Contains": true, "bytes.TrimSpace": true,
	"sort.SearchStrings": true, "sort.SearchInts": true, "sort.Search": true,
	"sort.StringsAreSorted": true, "sort.IntsAreSorted": true, "sort.SliceIsSorted": true,
	"math/big.NewInt":     true,
	"(*math/big.Int).Cmp": true, "(*math/big.Int).CmpAbs": true, "(*math/big.Int).Sign": true, "(*math/big.Int).BitLen": true,
	"(*math/big.Int).IsInt64": true, "(*math/big.Int).IsUint64": true, "(*math/big.Int).Int64": true, "(*math/big.Int).Uint64": true,
	"(*math/big.Int).String": true, "(*math/big.Int).Text": true, "(*math/big.Int).Bit": true,
	"(*strings.Builder).String": true, "(*strings.Builder).Len": true,
	"(*bytes.Buffer).String": true, "(*bytes.Buffer).Bytes": true, "(*bytes.Buffer).Len": true,
	"(*sync.Mutex).Lock": true, "(*sync.Mutex).Unlock": true, // lock state is not program output
}

// Methods that write only to their receiver: effect-free iff the receiver is a fresh local.
var stdRecvOnly = map[string]bool{
	"(*strings.Builder).WriteString": true, "(*strings.Builder).WriteByte": true, "(*strings.Builder).WriteRune": true,
	"(*strings.Builder).Write": true, "(*strings.Builder).Grow": true, "(*strings.Builder).Reset": true,
	"(*bytes.Buffer).WriteString": true, "(*bytes.Buffer).WriteByte": true, "(*bytes.Buffer).WriteRune": true,
	"(*bytes.Buffer).Write": true, "(*bytes.Buffer).Grow": true, "(*bytes.Buffer).Reset": true,
	"(*math/big.Int).Add": true, "(*math/big.Int).Sub": true, "(*math/big.Int).Mul": true, "(*math/big.Int).Set": true,
	"(*math/big.Int).SetInt64": true, "(*math/big.Int).SetUint64": true, "(*math/big.Int).Lsh": true, "(*math/big.Int).Rsh": true,
	"(*math/big.Int).Neg": true, "(*math/big.Int).Not": true, "(*math/big.Int).And": true, "(*math/big.Int).Or": true,
	"(*math/big.Int).Xor": true, "(*math/big.Int).Quo": true, "(*math/big.Int).Rem": true, "(*math/big.Int).Div": true,
	"(*math/big.Int).Mod": true, "(*math/big.Int).Abs": true, "(*math/big.Int).SetString": true, "(*math/big.Int).SetBit": true,
}

// In-place sorts: write only to the elements of their first argument.
var stdSortInPlace = map[string]bool{
	"sort.Strings": true, "sort.Ints": true, "sort.Float64s": true, "sort.Slice": true, "sort.SliceStable": true,
	"sort.Sort": true, "sort.Stable": true, "slices.Sort": true, "slices.SortFunc": true, "slices.SortStableFunc": true,
}

// Read-only file system access: effect-free only for rule S1 ("the collecting
// helper does nothing but return the names").
var stdReadIO = map[string]bool{
	"os.Open": true, "os.Stat": true, "os.Lstat": true, "os.ReadFile": true,
	"(*os.File).Close": true, "(*os.File).Readdir": true, "(*os.File).Readdirnames": true, "(*os.File).ReadDir": true,
	"(*os.File).Stat": true, "(*os.File).Name": true,
}

// Interface methods assumed to be observers (stated in the Spec's assumptions).
var observerIfaceMethods = map[string]bool{
	"(error).Error": true, "(fmt.Stringer).String": true,
	"(io/fs.FileInfo).Name": true, "(io/fs.FileInfo).IsDir": true, "(io/fs.FileInfo).Mode": true, "(io/fs.FileInfo).Size": true,
	"(io/fs.FileInfo).ModTime": true, "(io/fs.FileInfo).Sys": true,
	"(io/fs.DirEntry).Name": true, "(io/fs.DirEntry).IsDir": true, "(io/fs.DirEntry).Type": true, "(io/fs.DirEntry).Info": true,
}

func fnPkgPath(fn *ssa.Function) string {
	if fn == nil {
		return ""
	}
	if fn.Pkg != nil {
		return fn.Pkg.Pkg.Path()
	}
	if o := fn.Object(); o != nil && o.Pkg() != nil {
		return o.Pkg().Path()
	}
	if fn.Parent() != nil {
		return fnPkgPath(fn.Parent())
	}
	return ""
}

func fnFullName(fn *ssa.Function) string {
	if o, ok := fn.Object().(*types.Func); ok && o != nil {
		return o.FullName()
	}
	return fn.String()
}

func (a *fxAn) analysable(fn *ssa.Function) bool {
	return fn != nil && len(fn.Blocks) > 0 && a.inMod(fnPkgPath(fn))
}

func isFuncType(t types.Type) bool {
	if t == nil {
		return false
	}
	_, ok := t.Underlying().(*types.Signature)
	return ok
}

// localVal: the value denotes (or points into) memory allocated by this
// activation of its function: writes through it are invisible to the caller
// unless the value itself is published by another (reported) write.
func (a *fxAn) localVal(v ssa.Value, seen map[ssa.Value]bool) bool {
	if v == nil {
		return false
	}
	if seen[v] {
		return true // optimistic on cycles (phi of itself); other edges decide
	}
	seen[v] = true
	switch x := v.(type) {
	case *ssa.Alloc, *ssa.MakeSlice, *ssa.MakeMap, *ssa.MakeChan, *ssa.MakeClosure, *ssa.MakeInterface:
		return true
	case *ssa.Const:
		return true // nil
	case *ssa.FieldAddr:
		return a.localVal(x.X, seen)
	case *ssa.IndexAddr:
		return a.localVal(x.X, seen)
	case *ssa.Slice:
		return a.localVal(x.X, seen)
	case *ssa.ChangeType:
		return a.localVal(x.X, seen)
	case *ssa.Convert:
		return a.localVal(x.X, seen)
	case *ssa.Phi:
		for _, e := range x.Edges {
			if !a.localVal(e, seen) {
				return false
			}
		}
		return true
	case *ssa.Call:
		if b, ok := x.Call.Value.(*ssa.Builtin); ok && b.Name() == "append" && len(x.Call.Args) > 0 {
			return a.localVal(x.Call.Args[0], seen)
		}
		if fn := x.Call.StaticCallee(); fn != nil {
			switch fnFullName(fn) {
			case "math/big.NewInt", "bytes.NewBuffer", "bytes.NewBufferString":
				return true
			}
		}
		return false
	case *ssa.UnOp:
		if x.Op != token.MUL {
			return false
		}
		// Load of a pointer/slice from a local variable cell: local iff every
		// value ever stored into the cell is local and the cell does not escape.
		cell, ok := x.X.(*ssa.Alloc)
		if !ok {
			return false
		}
		if cell.Referrers() == nil {
			return false
		}
		for _, r := range *cell.Referrers() {
			switch ri := r.(type) {
			case *ssa.Store:
				if ri.Addr != ssa.Value(cell) {
					return false // the cell's address is stored somewhere
				}
				if !a.localVal(ri.Val, seen) {
					return false
				}
			case *ssa.UnOp:
				// load
			case *ssa.DebugRef:
			default:
				return false
			}
		}
		return true
	}
	return false
}

func (a *fxAn) isLocal(v ssa.Value) bool { return a.localVal(v, map[ssa.Value]bool{}) }

func (a *fxAn) describe(v ssa.Value) string {
	switch x := v.(type) {
	case *ssa.FieldAddr:
		st := x.X.Type().Underlying().(*types.Pointer).Elem().Underlying().(*types.Struct)
		return a.describe(x.X) + "." + st.Field(x.Field).Name()
	case *ssa.IndexAddr:
		return a.describe(x.X) + "[…]"
	case *ssa.Parameter:
		return "parameter " + x.Name()
	case *ssa.FreeVar:
		return "captured variable " + x.Name()
	case *ssa.Global:
		return "package variable " + x.Name()
	case *ssa.UnOp:
		return "*" + a.describe(x.X)
	case *ssa.Alloc:
		return "local " + x.Comment
	}
	return v.Name()
}

// calleesAt resolves the possible callees of a call instruction.
// unknown is non-empty when the call cannot be resolved.
func (a *fxAn) calleesAt(fn *ssa.Function, instr ssa.CallInstruction) (out []*ssa.Function, paramCall bool, unknown string) {
	common := instr.Common()
	if !common.IsInvoke() {
		if sc := common.StaticCallee(); sc != nil {
			return []*ssa.Function{sc}, false, ""
		}
		switch v := common.Value.(type) {
		case *ssa.MakeClosure:
			return []*ssa.Function{v.Fn.(*ssa.Function)}, false, ""
		case *ssa.Parameter:
			if isFuncType(v.Type()) {
				return nil, true, "" // supplied (and analysed) at the call sites of fn
			}
		case *ssa.Builtin:
			return nil, false, ""
		}
	}
	if a.cg != nil {
		if n := a.cg.Nodes[fn]; n != nil {
			for _, e := range n.Out {
				if e.Site == instr {
					out = append(out, e.Callee.Func)
				}
			}
		}
	}
	if len(out) == 0 {
		return nil, false, "dynamic call with no resolved callee"
	}
	return out, false, ""
}

func (a *fxAn) ownOf(fn *ssa.Function) *fxOwn {
	if o, ok := a.own[fn]; ok {
		return o
	}
	o := &fxOwn{}
	a.own[fn] = o
	for _, b := range fn.Blocks {
		for _, ins := range b.Instrs {
			a.scanInstr(fn, ins, o)
		}
	}
	return o
}

// scanInstr records the effects of one instruction of fn into o.
func (a *fxAn) scanInstr(fn *ssa.Function, ins ssa.Instruction, o *fxOwn) {
	eff := func(pos token.Pos, format string, args ...interface{}) {
		p := pos
		if !p.IsValid() {
			p = fn.Pos()
		}
		o.effects = append(o.effects, fmt.Sprintf("%s: %s: ", a.pos(p), strings.ReplaceAll(fn.String(), "github.com/google/wuffs/", ""))+fmt.Sprintf(format, args...))
	}
	addCallee := func(c *ssa.Function) { o.callees = append(o.callees, c) }
	switch x := ins.(type) {
	case *ssa.Store:
		if !a.isLocal(x.Addr) {
			eff(x.Pos(), "store to %s", a.describe(x.Addr))
		}
	case *ssa.MapUpdate:
		if !a.isLocal(x.Map) {
			eff(x.Pos(), "map update of %s", a.describe(x.Map))
		}
	case *ssa.Send:
		eff(x.Pos(), "channel send")
	case *ssa.Select:
		eff(x.Pos(), "select")
	case *ssa.Go:
		eff(x.Pos(), "go statement")
	case *ssa.UnOp:
		if x.Op == token.ARROW {
			eff(x.Pos(), "channel receive")
		}
	}
	ci, ok := ins.(ssa.CallInstruction)
	if !ok {
		return
	}
	if _, isGo := ins.(*ssa.Go); isGo {
		return
	}
	common := ci.Common()
	if bi, ok := common.Value.(*ssa.Builtin); ok {
		switch bi.Name() {
		case "copy", "delete", "clear":
			if len(common.Args) > 0 && !a.isLocal(common.Args[0]) {
				eff(ci.Pos(), "%s into %s", bi.Name(), a.describe(common.Args[0]))
			}
		case "print", "println":
			eff(ci.Pos(), "%s writes to standard error", bi.Name())
		case "close":
			eff(ci.Pos(), "close of a channel")
		}
		return
	}
	observer := false
	if common.IsInvoke() {
		recvT := types.Unalias(common.Value.Type())
		key := "(" + types.TypeString(recvT, nil) + ")." + common.Method.Name()
		if observerIfaceMethods[key] || (common.Method.Name() == "Error" && isErrorIface(recvT)) {
			observer = true
		}
	}
	if !observer {
		callees, _, unknown := a.calleesAt(fn, ci)
		if unknown != "" {
			eff(ci.Pos(), "%s (%s)", unknown, common.String())
		}
		for _, c := range callees {
			if a.analysable(c) {
				addCallee(c)
				continue
			}
			name := fnFullName(c)
			pk := fnPkgPath(c)
			isMethod := c.Signature.Recv() != nil
			switch {
			case stdPure[name], stdPurePkgs[pk] && !isMethod:
			case stdRecvOnly[name]:
				if len(common.Args) == 0 || !a.isLocal(common.Args[0]) {
					eff(ci.Pos(), "call of %s on a receiver that is not a fresh local", name)
				}
			case a.readIO && (stdReadIO[name] || stdSortInPlace[name]):
				// rule S1: sorting a listing does not leak its order
			case stdSortInPlace[name]:
				if len(common.Args) == 0 || !a.isLocal(common.Args[0]) {
					eff(ci.Pos(), "%s reorders a slice that is not a fresh local", name)
				}
			default:
				eff(ci.Pos(), "call of %s (not known to be write-free)", name)
			}
		}
	}
	// Function-valued arguments are invoked by the callee: analyse them too.
	for _, arg := range common.Args {
		if !isFuncType(arg.Type()) {
			continue
		}
		switch v := arg.(type) {
		case *ssa.MakeClosure:
			addCallee(v.Fn.(*ssa.Function))
		case *ssa.Function:
			if a.analysable(v) {
				addCallee(v)
			} else if !stdPure[fnFullName(v)] {
				eff(ci.Pos(), "function value %s passed to a call", fnFullName(v))
			}
		case *ssa.Parameter, *ssa.Const:
			// supplied by fn's own callers / nil
		default:
			eff(ci.Pos(), "function value of unknown origin passed to %s", common.String())
		}
	}
}

func isErrorIface(t types.Type) bool {
	return types.Identical(t, types.Universe.Lookup("error").Type())
}

// effectsFrom returns the write effects of everything reachable from roots
// (empty = write-free), at most max entries.
func (a *fxAn) effectsFrom(roots []*ssa.Function, max int) (effects []string, nfuncs int) {
	seen := map[*ssa.Function]bool{}
	work := append([]*ssa.Function(nil), roots...)
	for len(work) > 0 {
		fn := work[0]
		work = work[1:]
		if fn == nil || seen[fn] {
			continue
		}
		seen[fn] = true
		if !a.analysable(fn) {
			continue
		}
		nfuncs++
		o := a.ownOf(fn)
		effects = append(effects, o.effects...)
		work = append(work, o.callees...)
	}
	sort.Strings(effects)
	if len(effects) > max {
		effects = append(effects[:max], fmt.Sprintf("… and %d more", len(effects)-max))
	}
	return effects, nfuncs
}

// indexSites maps call-expression positions (Lparen) to SSA call instructions
// for every function of the given packages, including anonymous functions.
func (a *fxAn) indexSites(fns map[*ssa.Function]bool) {
	a.sites = map[token.Pos]ssa.CallInstruction{}
	for fn := range fns {
		if !a.analysable(fn) {
			continue
		}
		for _, b := range fn.Blocks {
			for _, ins := range b.Instrs {
				if ci, ok := ins.(ssa.CallInstruction); ok && ci.Pos().IsValid() {
					a.sites[ci.Pos()] = ci
				}
			}
		}
	}
}

// callSiteEffects: effects of one call instruction (its callees and
// function-valued arguments), evaluated in the context of its function.
func (a *fxAn) callSiteEffects(ci ssa.CallInstruction) (effects []string, nfuncs int) {
	o := &fxOwn{}
	a.scanInstr(ci.Parent(), ci, o)
	effects = append(effects, o.effects...)
	e2, n := a.effectsFrom(o.callees, 6)
	effects = append(effects, e2...)
	return effects, n
}
