package main

// C06 — interval arithmetic (lib/interval/interval.go). Two clauses of the
// property are decided here; containment / tightness of the arithmetic is not.
//
//	fresh.*  "results never share storage with the operands"       (engine E4, go/ssa; c06_fresh.go)
//	try.*    "reports failure exactly when some pair makes it undefined" (engine E1 on go/cfg + an exact
//	          finite enumeration of the three guard predicates; c06_try.go)

import (
	"fmt"
	"go/token"
	"go/types"
	"os"
	"sort"
	"strings"
	"time"

	"golang.org/x/tools/go/packages"
	"golang.org/x/tools/go/ssa"

	"wv/core"
)

const relInterval = "lib/interval"

func init() {
	register("C06", core.Spec{
		Decides:    "two clauses of C06 for lib/interval. (1) `results never share storage with the operands`: for every exported IntRange method that returns an IntRange (17: Unite, Intersect, Add, Sub, Mul, And, Or, their Try forms, TryLsh, TryQuo, TryRsh) and every return site, each *big.Int that can reach the returned array is nil or was allocated during the call — never a pointer taken from the receiver or the argument, never one held by a package-level variable (one, minusOne, sharedEmptyRange, the smallBitMasks table that bitMask hands out un-copied) and never one of unattributable provenance (map/pool look-ups, unresolved calls); and no function reachable from these methods stores a *big.Int-carrying value (also when wrapped in an interface) into a package-level variable, a map, a channel, through an unattributable address, or passes one to an unresolved callee — so a fresh result is not also retained by the library. Decided by an interprocedural, field-insensitive, flow-insensitive origin analysis on go/ssa whose summaries (origins of results; origins stored through pointer parameters) are computed, not assumed, for every helper (40 functions of the package) and for the math/big functions they call. (2) `reports failure exactly when some pair makes it undefined`: the set of exported (IntRange, bool) operations is exactly the 10 of the table; the 7 total ones report ok=true at every return; for TryLsh and TryRsh (TryQuo) every `ok=false` return is reached only along branches that establish x.Empty()==false and y.ContainsNegative()==true (y.ContainsZero()==true), every other return only along a branch that establishes x.Empty()==true, y.Empty()==true or the predicate false, with x and y never modified; and the three predicates Empty, ContainsNegative, ContainsZero coincide with their set-theoretic definitions on all 36 (infinity, sign, order) configurations of the two bounds — exact, because they observe the bounds only through nil tests, Sign and Cmp, and any other observation is refused as undecided (1b, fresh.words) no function of the package copies a math/big.Int by value, hands a foreign word slice to SetBits or lets the slice returned by Bits escape, so the pointer-level provenance of (1) is also word-level: a distinct result pointer owns its digits",
		NotDecided: "containment and tightness of the arithmetic: that the interval returned by Add/Sub/Mul/TryQuo/TryLsh/TryRsh/And/Or/Unite/Intersect contains x op y for all members, and is the tightest one — in particular the andMax/orMax bit-filling algorithms, the sign-split case analysis of mulLsh/TryQuo/TryRsh, and the >2^32 shift fallback are not examined at all. Also not decided: interior aliasing (result[0] and result[1] being the same pointer — the property speaks of operands), sharing of digits that math/big's own methods might introduce (their contract is trusted; fresh.words covers what lib/interval itself can do), mutation of an operand's *big.Int in place by the library, panics (`interval: input is too large`, pre-condition failures), and the value of z when ok is false",
		Assumptions: []string{
			"go/ssa, go/cfg, go/types (x/tools v0.29.0) model Go faithfully",
			"origins are tracked at the granularity of *big.Int pointers; math/big functions are analysed from their SSA bodies when the toolchain's source is loadable (it is here), otherwise big.NewInt is taken as fresh and a (*big.Int) method with one *big.Int result as returning its receiver",
			"math/big does not retain its *big.Int arguments in package-level state, and never shares the word slice of one Int with another",
			"an anchor or idiom that is not recognised fails as undecided",
		},
	}, runC06)
}

func runC06(c *core.Ctx) {
	k := newG(c, "./lib/interval")
	if k.g.Pkg(relInterval) == nil {
		c.Undecided("anchors", relInterval, "package lib/interval is loaded", "package not found")
		return
	}
	t0 := time.Now()
	prog := c06SSA(k.g)
	c.Analysed("c06_ssa_build_s", fmt.Sprintf("%.2f", time.Since(t0).Seconds()))
	runC06Fresh(k, prog)
	runC06Words(k, prog)
	runC06Try(k, prog)
	runC06Pred(k)
}

// exportedIntRangeMethods lists the exported methods of IntRange (value or
// pointer receiver) declared in the package.
func exportedIntRangeMethods(k *gctx) (named *types.Named, out []*core.Func) {
	o := k.g.LookupObj(relInterval, "IntRange")
	tn, ok := o.(*types.TypeName)
	if !ok {
		return nil, nil
	}
	named, _ = types.Unalias(tn.Type()).(*types.Named)
	if named == nil {
		return nil, nil
	}
	for _, f := range k.g.AllFuncs(k.g.Pkg(relInterval)) {
		if f.Obj == nil || !f.Obj.Exported() {
			continue
		}
		sig := f.Obj.Type().(*types.Signature)
		if sig.Recv() == nil {
			continue
		}
		rt := sig.Recv().Type()
		if p, ok := rt.Underlying().(*types.Pointer); ok {
			rt = p.Elem()
		}
		if !types.Identical(types.Unalias(rt), named) {
			continue
		}
		out = append(out, f)
	}
	sort.Slice(out, func(i, j int) bool { return out[i].Decl.Name.Name < out[j].Decl.Name.Name })
	return named, out
}

func runC06Fresh(k *gctx, prog *ssa.Program) {
	c := k.c
	g := k.g
	named, methods := exportedIntRangeMethods(k)
	bo, _ := g.LookupObj("math/big", "Int").(*types.TypeName)
	if named == nil || bo == nil {
		c.Undecided("fresh", relInterval+".IntRange", "type IntRange and math/big.Int resolve", "type not found")
		return
	}
	bigInt, _ := bo.Type().(*types.Named)
	a := newE4(prog, g.Pkg(relInterval).Types, bigInt)

	type target struct {
		f   *core.Func
		sf  *ssa.Function
		res []int
	}
	var targets []target
	var rootFns []*ssa.Function
	for _, f := range methods {
		sig := f.Obj.Type().(*types.Signature)
		var res []int
		for i := 0; i < sig.Results().Len(); i++ {
			if a.carries(sig.Results().At(i).Type()) {
				res = append(res, i)
			}
		}
		if len(res) == 0 {
			continue
		}
		sf := prog.FuncValue(f.Obj)
		if sf == nil || len(sf.Blocks) == 0 {
			c.Undecided("fresh.result", f.Name(), "the method has an SSA body", "no SSA function for this declaration")
			continue
		}
		targets = append(targets, target{f, sf, res})
		rootFns = append(rootFns, sf)
	}
	c.Floor("fresh.methods", "exported IntRange methods whose result carries *big.Int (Unite, Intersect, Add, Sub, Mul, And, Or, 10 Try forms)", len(targets), 17)
	if len(targets) == 0 {
		return
	}
	rounds := a.solve(rootFns)
	c.Analysed("c06_e4_functions_analysed", len(a.order))
	c.Analysed("c06_e4_fixpoint_rounds", rounds)
	if rounds > 200 {
		c.Undecided("fresh", relInterval, "the origin analysis reaches a fixpoint", "no fixpoint after 200 rounds")
		return
	}

	// ---- fresh.result: one obligation per exported method ----
	nReturns := 0
	for _, t := range targets {
		claim := "every *big.Int reachable from the IntRange this method returns is nil or allocated during the call: not an element of the receiver or of the argument, not a package-level value, not of unknown provenance"
		var bad []string
		sites := 0
		seenKinds := map[string]bool{}
		for _, b := range t.sf.Blocks {
			for _, ins := range b.Instrs {
				ret, ok := ins.(*ssa.Return)
				if !ok {
					continue
				}
				for _, i := range t.res {
					if i >= len(ret.Results) {
						continue
					}
					sites++
					n := a.val(t.sf, ret.Results[i])
					for _, o := range a.originsOf(n) {
						seenKinds[o.String()] = true
						if !o.bad() {
							continue
						}
						what := describeBad(o, t.sf)
						trail := a.explain(n, o, g.Pos)
						bad = append(bad, fmt.Sprintf("%s: return of %s yields %s\n      provenance (result back to source):\n        %s",
							g.Pos(a.posOf(t.sf, ret)), t.f.Decl.Name.Name, what, strings.Join(trail, "\n        ")))
					}
				}
			}
		}
		nReturns += sites
		if sites == 0 {
			c.Undecided("fresh.result", t.f.Name(), claim, "no return instruction found in the SSA body")
			continue
		}
		if len(bad) > 0 {
			c.Fail("fresh.result", t.f.Name(), claim, sites, strings.Join(bad, "\n"))
		} else {
			c.Pass("fresh.result", t.f.Name(), claim, sites, fmt.Sprintf("%s: %d return sites; origins of the result: %s", g.Pos(t.f.Decl.Pos()), sites, strings.Join(sortedKeys(seenKinds), ", ")))
		}
	}
	c.Floor("fresh.result", "return sites of those methods whose IntRange operand was traced to its sources (33 on the tree read)", nReturns, 17)

	// ---- fresh.noescape: nothing reachable retains a *big.Int ----
	reach := map[*ssa.Function]bool{}
	var stack []*ssa.Function
	for _, t := range targets {
		stack = append(stack, t.sf)
	}
	for len(stack) > 0 {
		f := stack[len(stack)-1]
		stack = stack[:len(stack)-1]
		if reach[f] {
			continue
		}
		reach[f] = true
		for cal := range a.edges[f] {
			if cal.Pkg != nil && cal.Pkg.Pkg == a.pkg {
				stack = append(stack, cal)
			}
		}
	}
	var reachList []*ssa.Function
	for f := range reach {
		if f.Pkg != nil && f.Pkg.Pkg == a.pkg {
			reachList = append(reachList, f)
		}
	}
	sort.Slice(reachList, func(i, j int) bool { return reachList[i].String() < reachList[j].String() })
	summaries := map[string]string{}
	nEsc, nHelpers := 0, 0
	for _, f := range reachList {
		anchor := relInterval + "." + ssaShortName(f)
		claim := "no *big.Int-carrying value is stored into a package-level variable, through an unattributable address, into a map/channel, or passed to an unresolved callee (a fresh result is not also retained by the library)"
		if len(a.leaks[f]) > 0 {
			var lines []string
			for _, l := range a.leaks[f] {
				lines = append(lines, fmt.Sprintf("%s: %s", g.Pos(l.pos), l.text))
			}
			sort.Strings(lines)
			c.Fail("fresh.noescape", anchor, claim, a.exam[f], strings.Join(lines, "\n"))
		} else if a.exam[f] > 0 {
			c.Pass("fresh.noescape", anchor, claim, a.exam[f], fmt.Sprintf("%d stores/calls of *big.Int-carrying values examined", a.exam[f]))
		}
		nEsc += a.exam[f]
		// computed summary, for the evidence file
		var parts []string
		for i := 0; i < f.Signature.Results().Len(); i++ {
			if a.carries(f.Signature.Results().At(i).Type()) {
				parts = append(parts, fmt.Sprintf("result#%d=%s", i, originSetString(a.originsOf(e4node{fn: f, cat: 3, idx: i}))))
			}
		}
		for p := range f.Params {
			if e := a.originsOf(e4node{fn: f, cat: 2, idx: p}); len(e) > 0 {
				parts = append(parts, fmt.Sprintf("stores-through-%s=%s", f.Params[p].Name(), originSetString(e)))
			}
		}
		if len(parts) > 0 {
			summaries[ssaShortName(f)] = strings.Join(parts, " ")
			nHelpers++
		}
	}
	c.Analysed("c06_e4_summaries", summaries)
	c.Floor("fresh.noescape", "stores and calls moving *big.Int-carrying values examined in the functions reachable from the exported methods (635 on the tree read)", nEsc, 300)
	c.Floor("fresh.summaries", "lib/interval functions reachable from the exported methods for which a result/effect summary was computed, not assumed (40 on the tree read: 17 methods, 19 value-returning helpers, 4 in-place helpers)", nHelpers, 30)
	if len(a.modeled) > 0 {
		c.Note("math/big bodies were not available for: " + strings.Join(sortedKeys(a.modeled), ", ") + " — answered from the stated model")
	}

	if os.Getenv("WV_C06_DEBUG") != "" {
		for _, f := range a.order {
			var parts []string
			for i := 0; i < f.Signature.Results().Len(); i++ {
				parts = append(parts, fmt.Sprintf("r%d=%s", i, originSetString(a.originsOf(e4node{fn: f, cat: 3, idx: i}))))
			}
			for p := range f.Params {
				if e := a.originsOf(e4node{fn: f, cat: 2, idx: p}); len(e) > 0 {
					parts = append(parts, fmt.Sprintf("eff%d=%s", p, originSetString(e)))
				}
			}
			fmt.Fprintf(os.Stderr, "E4 %-60s %s leaks=%d exam=%d\n", f.String(), strings.Join(parts, " "), len(a.leaks[f]), a.exam[f])
		}
	}
}

// c06SSA builds go/ssa bodies for lib/interval and math/big only (every other
// dependency is created from its types, without bodies). core.GoProg.SSA()
// builds bodies for the whole standard-library closure, which costs several
// CPU-seconds that this property does not need.
func c06SSA(g *core.GoProg) *ssa.Program {
	prog := ssa.NewProgram(g.Fset, ssa.InstantiateGenerics)
	created := map[*packages.Package]*ssa.Package{}
	var withBody []*ssa.Package
	var create func(p *packages.Package)
	create = func(p *packages.Package) {
		if _, ok := created[p]; ok || p.Types == nil {
			return
		}
		created[p] = nil
		for _, imp := range p.Imports {
			create(imp)
		}
		if p.PkgPath == core.Mod+"/"+relInterval || p.PkgPath == "math/big" {
			sp := prog.CreatePackage(p.Types, p.Syntax, p.TypesInfo, true)
			created[p] = sp
			withBody = append(withBody, sp)
			return
		}
		created[p] = prog.CreatePackage(p.Types, nil, nil, true)
	}
	for _, p := range g.Pkgs {
		create(p)
	}
	for _, sp := range withBody {
		sp.Build()
	}
	return prog
}

func describeBad(o origin, f *ssa.Function) string {
	switch o.k {
	case oParam:
		role := "the argument"
		if o.idx == 0 && f.Signature.Recv() != nil {
			role = "the receiver"
		}
		return fmt.Sprintf("a *big.Int taken from %s `%s` (shared with the operand)", role, o.s)
	case oGlobal:
		return fmt.Sprintf("a *big.Int held by package-level variable %s (shared with every later call)", o.s)
	}
	return "a *big.Int of unattributable provenance: " + o.s
}

func ssaShortName(f *ssa.Function) string {
	if recv := f.Signature.Recv(); recv != nil {
		t := recv.Type()
		star := ""
		if p, ok := t.Underlying().(*types.Pointer); ok {
			if _, isNamed := types.Unalias(t).(*types.Named); !isNamed {
				t = p.Elem()
				star = "*"
			}
		}
		if n, ok := types.Unalias(t).(*types.Named); ok {
			return "(" + star + n.Obj().Name() + ")." + f.Name()
		}
	}
	return f.Name()
}

func sortedKeys(m map[string]bool) []string {
	var out []string
	for k := range m {
		out = append(out, k)
	}
	sort.Strings(out)
	return out
}

var _ = token.NoPos
