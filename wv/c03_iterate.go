package main

// C03 / C04: iterate loops (rules I1–I4).
//
// `iterate (v = slice)(length: L, advance: A, unroll: U) { body }` visits the
// chunks slice[k*A .. k*A+L] for every k with k*A+L <= len(slice). Inside the
// body the bounds checker knows `v.length() == L`, so cgen emits the body's
// accesses (v[i], peek_u32le, SIMD loads) with NO run-time test: the only thing
// that keeps them inside the slice is the round header cgen emits,
//
//     v.len = L;
//     const uint8_t* i_end<r>_v = ptr_u8_plus_len(v.ptr, T(R));     R = bytes left from v.ptr
//     while (v.ptr < i_end<r>_v) { body; v.ptr += A;  … (U times) }
//
// with T in one of three closed forms: T = R (L=A=U=1), T = (R / D) * M
// (L == A), T = iterate_total_advance(R, X, Y) = R >= X ? ((R-X)/Y)*Y + Y : 0.
//
//   I1.round   (C03) per iterate of std and the corpus: every round is in one
//              of the three forms, the loop test uses the round's own end
//              pointer, every iterated variable advances by the same amounts,
//              the chunk length set before the round is the source's L — and
//              for EVERY remaining length R, every body the header admits has
//              its L-byte window inside the slice. Decided by evaluating the
//              header arithmetic with the C's own constants over one full
//              period of R (the functions are eventually periodic in R).
//   I1.min     (C03) a second, third … iterated slice clamps the first one's
//              length (`min`), otherwise the shorter slice is over-read.
//   I2.chunks  (C04, evaluated from runC04) the rounds of an iterate (the
//              unrolled one, the remainder one, the else-chain) together visit
//              exactly the chunk offsets the source defines, in order.
//   I3.*       (C03) cgen's own writeIterateRound: the integers it prints into
//              the three header forms are the polynomials L+A(U-1), A*U (resp.
//              L*U twice, under L == A), the pointer advance is A, the body is
//              emitted U times, and the two special forms are reached only past
//              the guards that make them valid.
//   I4.nojump  (C03) no break/continue in std targets an iterate loop: cgen
//              lowers it to the C break/continue of the current round's while
//              loop, where `continue` skips the pointer advance (the same chunk
//              forever: unbounded work) — the compiler accepts such programs.

import (
	"fmt"
	"go/ast"
	"go/token"
	"go/types"
	"os"
	"path/filepath"
	"regexp"
	"sort"
	"strconv"
	"strings"

	"wv/core"

	a "github.com/google/wuffs/lang/ast"
)

type iterBlock struct{ L, A, U int }

type wIter struct {
	node   *a.Iterate
	names  []string
	blocks []iterBlock
	nested bool
}

func atoiID(pk *WPkg, s string) int {
	n, err := strconv.Atoi(s)
	if err != nil {
		return -1
	}
	return n
}

// wuffsIterates lists the iterate statements of a body in source order
// (without descending into iterate bodies; a nested iterate is flagged).
func wuffsIterates(pk *WPkg, list []*a.Node, out *[]*wIter) {
	for _, o := range list {
		switch o.Kind() {
		case a.KIterate:
			w := &wIter{node: o.AsIterate()}
			for _, as := range w.node.Assigns() {
				w.names = append(w.names, pk.str(as.AsAssign().LHS().Ident()))
			}
			for x := w.node; x != nil; x = x.ElseIterate() {
				w.blocks = append(w.blocks, iterBlock{atoiID(pk, pk.str(x.Length())), atoiID(pk, pk.str(x.Advance())), atoiID(pk, pk.str(x.Unroll()))})
				var inner []*wIter
				wuffsIterates(pk, x.Body(), &inner)
				if len(inner) > 0 {
					w.nested = true
				}
			}
			*out = append(*out, w)
		case a.KWhile:
			wuffsIterates(pk, o.AsWhile().Body(), out)
		case a.KIf:
			for x := o.AsIf(); x != nil; x = x.ElseIf() {
				wuffsIterates(pk, x.BodyIfTrue(), out)
				wuffsIterates(pk, x.BodyIfFalse(), out)
			}
		case a.KIOManip:
			wuffsIterates(pk, o.AsIOManip().Body(), out)
		}
	}
}

// jumpsTo reports a break/continue inside list (any depth) that targets loop.
func jumpsTo(pk *WPkg, loop a.Loop, list []*a.Node) string {
	for _, o := range list {
		switch o.Kind() {
		case a.KJump:
			if j := o.AsJump(); j.JumpTarget() == loop {
				fn, ln := o.AsRaw().FilenameLine()
				return fmt.Sprintf("%s:%d: `%s` targets the iterate loop", shortFile(fn), ln, pk.str(j.Keyword()))
			}
		case a.KWhile:
			if s := jumpsTo(pk, loop, o.AsWhile().Body()); s != "" {
				return s
			}
		case a.KIf:
			for x := o.AsIf(); x != nil; x = x.ElseIf() {
				if s := jumpsTo(pk, loop, x.BodyIfTrue()); s != "" {
					return s
				}
				if s := jumpsTo(pk, loop, x.BodyIfFalse()); s != "" {
					return s
				}
			}
		case a.KIOManip:
			if s := jumpsTo(pk, loop, o.AsIOManip().Body()); s != "" {
				return s
			}
		case a.KIterate:
			for x := o.AsIterate(); x != nil; x = x.ElseIterate() {
				if s := jumpsTo(pk, loop, x.Body()); s != "" {
					return s
				}
			}
		}
	}
	return ""
}

// ---- the generated C of one iterate statement ----

type cRound struct {
	idx    string           // the <r> of i_end<r>_
	lens   map[string]int   // v_N.len = … before the header
	form   int              // 1, 2, 3
	c1, c2 int              // form 2: D, M; form 3: X, Y
	advs   map[string][]int // per variable: the top-level `v_N.ptr += k` of the loop body
	line   int
}

type cIter struct {
	names   []string // in order of the i_slice_ declarations
	ptrInit map[string]bool
	clamped map[string]bool // i_slice_<name0>.len = min(…, i_slice_<name>.len)
	rounds  []*cRound
	tail    map[string]int // trailing v_N.len = 0
	line    int
	err     string // unrecognised shape
}

var (
	reIterDecl = regexp.MustCompile(`^wuffs_base__slice_u8 i_slice_([A-Za-z0-9_]+) = `)
	reIterPtr  = regexp.MustCompile(`^v_([A-Za-z0-9_]+) \. ptr = i_slice_([A-Za-z0-9_]+) \. ptr$`)
	reIterMin  = regexp.MustCompile(`^i_slice_([A-Za-z0-9_]+) \. len = \( \( size_t \) \( wuffs_base__u64__min \( i_slice_([A-Za-z0-9_]+) \. len , i_slice_([A-Za-z0-9_]+) \. len \) \) \)$`)
	reIterLen  = regexp.MustCompile(`^v_([A-Za-z0-9_]+) \. len = ([0-9]+)u?$`)
	reIterAdv  = regexp.MustCompile(`^v_([A-Za-z0-9_]+) \. ptr \+= ([0-9]+)u?$`)
	reIterEnd  = regexp.MustCompile(`^const uint8_t \* i_end([0-9]+)_([A-Za-z0-9_]+) = wuffs_private_impl__ptr_u8_plus_len \( (.*) \)$`)
)

func isIterBlock(s *core.CStmt) bool {
	return s.Kind == "block" && len(s.Body) > 0 && s.Body[0].Kind == "expr" && reIterDecl.MatchString(core.CText(s.Body[0].Toks))
}

func parseCIter(blk *core.CStmt) *cIter {
	ci := &cIter{ptrInit: map[string]bool{}, clamped: map[string]bool{}, line: blk.Line}
	st := blk.Body
	i := 0
	// prelude
	for ; i < len(st); i++ {
		if st[i].Kind != "expr" {
			break
		}
		tx := core.CText(st[i].Toks)
		if m := reIterDecl.FindStringSubmatch(tx); m != nil {
			ci.names = append(ci.names, m[1])
			continue
		}
		if m := reIterPtr.FindStringSubmatch(tx); m != nil && m[1] == m[2] {
			ci.ptrInit[m[1]] = true
			continue
		}
		if m := reIterMin.FindStringSubmatch(tx); m != nil && len(ci.names) > 0 && m[1] == ci.names[0] && m[2] == ci.names[0] {
			ci.clamped[m[3]] = true
			continue
		}
		break
	}
	if len(ci.names) == 0 {
		ci.err = "no i_slice_ declaration"
		return ci
	}
	n0 := regexp.QuoteMeta(ci.names[0])
	rem := `\( i_slice_` + n0 + ` \. len - \( size_t \) \( v_` + n0 + ` \. ptr - i_slice_` + n0 + ` \. ptr \) \)`
	reF1 := regexp.MustCompile(`^i_slice_` + n0 + ` \. ptr , i_slice_` + n0 + ` \. len$`)
	reF2 := regexp.MustCompile(`^v_` + n0 + ` \. ptr , \( \( ` + rem + ` / ([0-9]+) \) \* ([0-9]+) \)$`)
	reF3 := regexp.MustCompile(`^v_` + n0 + ` \. ptr , wuffs_private_impl__iterate_total_advance \( ` + rem + ` , ([0-9]+) , ([0-9]+) \)$`)
	for i < len(st) {
		lens := map[string]int{}
		for i < len(st) && st[i].Kind == "expr" {
			m := reIterLen.FindStringSubmatch(core.CText(st[i].Toks))
			if m == nil {
				break
			}
			if _, dup := lens[m[1]]; dup {
				ci.err = fmt.Sprintf("line %d: v_%s.len assigned twice before a round", st[i].Line, m[1])
				return ci
			}
			lens[m[1]], _ = strconv.Atoi(m[2])
			i++
		}
		if i == len(st) {
			ci.tail = lens
			break
		}
		if st[i].Kind != "expr" {
			ci.err = fmt.Sprintf("line %d: expected a round header, found a %s statement", st[i].Line, st[i].Kind)
			return ci
		}
		m := reIterEnd.FindStringSubmatch(core.CText(st[i].Toks))
		if m == nil || m[2] != ci.names[0] {
			ci.err = fmt.Sprintf("line %d: unrecognised statement in an iterate block: `%s`", st[i].Line, core.CText(st[i].Toks))
			return ci
		}
		r := &cRound{idx: m[1], lens: lens, advs: map[string][]int{}, line: st[i].Line}
		switch {
		case reF1.MatchString(m[3]):
			r.form = 1
		case reF2.MatchString(m[3]):
			x := reF2.FindStringSubmatch(m[3])
			r.form = 2
			r.c1, _ = strconv.Atoi(x[1])
			r.c2, _ = strconv.Atoi(x[2])
		case reF3.MatchString(m[3]):
			x := reF3.FindStringSubmatch(m[3])
			r.form = 3
			r.c1, _ = strconv.Atoi(x[1])
			r.c2, _ = strconv.Atoi(x[2])
		default:
			ci.err = fmt.Sprintf("line %d: round header is in none of the three recognised forms: `%s`", st[i].Line, m[3])
			return ci
		}
		i++
		if i >= len(st) || st[i].Kind != "while" || core.CText(st[i].Toks) != "v_"+ci.names[0]+" . ptr < i_end"+r.idx+"_"+ci.names[0] {
			ci.err = fmt.Sprintf("line %d: the round header is not followed by `while (v_%s.ptr < i_end%s_%s)`", r.line, ci.names[0], r.idx, ci.names[0])
			return ci
		}
		for _, b := range st[i].Body {
			if b.Kind == "expr" {
				if am := reIterAdv.FindStringSubmatch(core.CText(b.Toks)); am != nil {
					k, _ := strconv.Atoi(am[2])
					r.advs[am[1]] = append(r.advs[am[1]], k)
				}
			}
		}
		ci.rounds = append(ci.rounds, r)
		i++
	}
	return ci
}

// ---- the arithmetic model ----

func gcd(x, y int) int {
	for y != 0 {
		x, y = y, x%y
	}
	return x
}
func lcm(x, y int) int {
	if x <= 0 || y <= 0 {
		return 0
	}
	return x / gcd(x, y) * y
}

// headerT: the byte count T the round header adds to v.ptr, for rem bytes left.
func (r *cRound) headerT(rem int) int {
	switch r.form {
	case 1:
		return rem
	case 2:
		return (rem / r.c1) * r.c2
	default:
		if rem >= r.c1 {
			return ((rem-r.c1)/r.c2)*r.c2 + r.c2
		}
		return 0
	}
}

type iterVerdict struct {
	undecided string
	unsafe    string // witness of an out-of-slice window
	chunks    string // witness of a chunk sequence differing from the source's
	evals     int
}

// evalIterate simulates nothing of the program: it evaluates the closed-form
// header arithmetic and the constant strides of the C rounds, for every total
// slice length in one full period, against the chunk sequence the source defines.
func evalIterate(w *wIter, ci *cIter) iterVerdict {
	var v iterVerdict
	// expected rounds
	type exp struct{ L, A, U, block int }
	var want []exp
	for bi, b := range w.blocks {
		if b.L < 1 || b.A < 1 || b.U < 1 || b.A > b.L {
			v.undecided = fmt.Sprintf("source block %d has length %d advance %d unroll %d", bi, b.L, b.A, b.U)
			return v
		}
		if b.U > 1 {
			want = append(want, exp{b.L, b.A, b.U, bi})
		}
		want = append(want, exp{b.L, b.A, 1, bi})
	}
	if len(want) != len(ci.rounds) {
		v.undecided = fmt.Sprintf("the source defines %d rounds (one per block, plus one per unrolled block) but the generated C has %d: rounds cannot be joined", len(want), len(ci.rounds))
		return v
	}
	period, maxc := 1, 1
	strides := make([][]int, len(ci.rounds))
	for i, r := range ci.rounds {
		adv := r.advs[ci.names[0]]
		sum := 0
		for _, k := range adv {
			sum += k
		}
		if len(adv) == 0 || sum == 0 {
			v.unsafe = fmt.Sprintf("round %d (line %d): the loop body never advances v_%s.ptr: the loop cannot terminate", i, r.line, ci.names[0])
			return v
		}
		strides[i] = adv
		period = lcm(period, sum)
		period = lcm(period, want[i].A)
		if r.form != 1 {
			if r.c1 < 1 || r.c2 < 1 {
				v.unsafe = fmt.Sprintf("round %d (line %d): header constants %d, %d (division by zero or no progress)", i, r.line, r.c1, r.c2)
				return v
			}
			period = lcm(period, r.c2)
			if r.form == 2 {
				period = lcm(period, r.c1)
			}
			if r.c1 > maxc {
				maxc = r.c1
			}
		}
		if want[i].L > maxc {
			maxc = want[i].L
		}
		if period > 1<<14 {
			v.undecided = "the period of the header arithmetic exceeds 16384"
			return v
		}
	}
	nonPeriodic := false
	for _, r := range ci.rounds {
		if r.form == 2 && r.c1 != r.c2 {
			nonPeriodic = true
		}
	}
	rmax := 2*maxc + 2*period + 2
	for total := 0; total <= rmax; total++ {
		// the source's chunk offsets
		var wantOff []int
		p := 0
		for _, b := range w.blocks {
			for total-p >= b.L {
				wantOff = append(wantOff, p)
				p += b.A
			}
		}
		// the C's
		var gotOff []int
		p = 0
		for i, r := range ci.rounds {
			end := p + r.headerT(total-p)
			if r.form == 1 {
				end = total
			}
			guard := 0
			for p < end {
				for j, k := range strides[i] {
					v.evals++
					if p+want[i].L > total && v.unsafe == "" {
						v.unsafe = fmt.Sprintf("for a slice of %d bytes, round %d (line %d; source length %d advance %d unroll %d) runs body copy %d at offset %d: its %d-byte window ends at %d, %d byte(s) past the slice",
							total, i, r.line, want[i].L, want[i].A, want[i].U, j, p, want[i].L, p+want[i].L, p+want[i].L-total)
					}
					gotOff = append(gotOff, p)
					p += k
				}
				if guard++; guard > 4*rmax+8 {
					v.undecided = "round does not terminate in the model"
					return v
				}
			}
		}
		if v.chunks == "" && !sameInts(wantOff, gotOff) {
			v.chunks = fmt.Sprintf("for a slice of %d bytes the source visits chunk offsets %v but the generated rounds visit %v", total, clip(wantOff), clip(gotOff))
		}
		if v.unsafe != "" && v.chunks != "" {
			break
		}
	}
	if nonPeriodic && v.unsafe == "" {
		v.undecided = "a `(R / D) * M` header with D != M is not a round-down; no over-read found up to the examined length, but the arithmetic is not periodic"
	}
	return v
}

func sameInts(x, y []int) bool {
	if len(x) != len(y) {
		return false
	}
	for i := range x {
		if x[i] != y[i] {
			return false
		}
	}
	return true
}

func clip(x []int) string {
	if len(x) > 14 {
		return fmt.Sprintf("%v…(%d)", x[:14], len(x))
	}
	return fmt.Sprint(x)
}

// checkIterates evaluates I1/I4 (prop "C03") or I2 (prop "C04") on the packages.
func checkIterates(c *core.Ctx, pkgs []*WPkg, prop string) {
	nIter, nRounds, nUnequal, nCorpus := 0, 0, 0, 0
	for _, pk := range pkgs {
		var cf *core.CFile
		where := "std/"
		if pk.Corpus {
			where = "corpus/"
		}
		for _, f := range pk.Funcs {
			var its []*wIter
			wuffsIterates(pk, f.Body(), &its)
			if len(its) == 0 {
				continue
			}
			if cf == nil {
				src, err := os.ReadFile(pk.CPath)
				if err != nil {
					c.Infra("%v", err)
				}
				cf = core.CParseFile(pk.CPath, string(src))
			}
			fanchor := where + pk.Name + " " + pk.str(f.Receiver()[1]) + "." + pk.str(f.FuncName())
			cname := cBodyName(pk, f)
			rule := "I1.round"
			if prop == "C04" {
				rule = "I2.chunks"
			}
			cfn := cf.ByNam[cname]
			if cfn == nil {
				c.Undecided(rule, fanchor, "the generated C function of a method with iterate loops is found", cname+" not found in "+pk.CPath)
				continue
			}
			stmts, perr := core.CParseBody(cfn.Body)
			if perr != nil {
				c.Undecided(rule, fanchor, "function body parses into a statement tree", perr.Error())
				continue
			}
			var blocks []*core.CStmt
			core.CWalk(stmts, func(s *core.CStmt) bool {
				if isIterBlock(s) {
					blocks = append(blocks, s)
					return false
				}
				return true
			})
			if len(blocks) != len(its) {
				c.Undecided(rule, fanchor, "every iterate statement of the method is joined with its block in the generated C", fmt.Sprintf("%d iterate statements in the source, %d iterate blocks in %s", len(its), len(blocks), cname))
				continue
			}
			for i, w := range its {
				anchor := fmt.Sprintf("%s[iterate#%d]", fanchor, i)
				_, ln := w.node.AsNode().AsRaw().FilenameLine()
				nIter++
				if pk.Corpus {
					nCorpus++
				}
				if prop == "C03" {
					bad := ""
					for x := w.node; x != nil && bad == ""; x = x.ElseIterate() {
						bad = jumpsTo(pk, a.Loop(x), x.Body())
					}
					c.Check(bad == "", "I4.nojump", anchor, "no break/continue targets an iterate loop: cgen lowers it to the C break/continue of the current round's while loop, where `continue` skips the `ptr += advance` statements (the same chunk is processed forever: unbounded work on some input) and `break` leaves only the current round", len(w.blocks), bad)
				}
				if w.nested {
					c.Undecided(rule, anchor, "iterate loops are not nested (the join with the generated C is by order)", fmt.Sprintf("line %d: an iterate body contains another iterate", ln))
					continue
				}
				ci := parseCIter(blocks[i])
				if ci.err == "" && !sameStrings(ci.names, w.names) {
					ci.err = fmt.Sprintf("the block iterates %v, the source %v", ci.names, w.names)
				}
				if ci.err != "" {
					c.Undecided(rule, anchor, "the generated block of an iterate statement is in the recognised shape (slice declarations, per-round length, header, while loop)", fmt.Sprintf("%s line %d: %s", cname, blocks[i].Line, ci.err))
					continue
				}
				nRounds += len(ci.rounds)
				for _, b := range w.blocks {
					if b.L != b.A {
						nUnequal++
					}
				}
				v := evalIterate(w, ci)
				if v.undecided != "" {
					c.Undecided(rule, anchor, "the rounds of the generated block can be evaluated against the source", fmt.Sprintf("%s line %d (source line %d): %s", cname, blocks[i].Line, ln, v.undecided))
					continue
				}
				if prop == "C04" {
					c.Check(v.chunks == "", "I2.chunks", anchor, "the rounds generated for an iterate statement (unrolled, remainder, else-chain) together run the body on exactly the chunk offsets k*advance with k*advance+length <= slice length, in order — a header that stops early skips trailing chunks, one that restarts visits a chunk twice (different checksum / pixels)", v.evals,
						fmt.Sprintf("%s line %d (source line %d, blocks %v): %s", cname, blocks[i].Line, ln, w.blocks, v.chunks))
					continue
				}
				// C03: structure + safety
				var bad []string
				for _, n := range w.names {
					if !ci.ptrInit[n] {
						bad = append(bad, "v_"+n+".ptr is not initialised from i_slice_"+n+".ptr")
					}
				}
				k := 0
				for _, b := range w.blocks {
					reps := 1
					if b.U > 1 {
						reps = 2
					}
					for ; reps > 0; reps-- {
						r := ci.rounds[k]
						for _, n := range w.names {
							if got, ok := r.lens[n]; !ok || got != b.L {
								bad = append(bad, fmt.Sprintf("round %d (line %d): v_%s.len is set to %v before the round, the source's chunk length (against which the body's accesses were proved) is %d", k, r.line, n, r.lens[n], b.L))
							}
							if !sameInts(r.advs[n], r.advs[w.names[0]]) {
								bad = append(bad, fmt.Sprintf("round %d (line %d): v_%s advances by %v but v_%s by %v: the slices do not move in lock step", k, r.line, n, r.advs[n], w.names[0], r.advs[w.names[0]]))
							}
						}
						k++
					}
				}
				if v.unsafe != "" {
					bad = append(bad, v.unsafe)
				}
				c.Check(len(bad) == 0, "I1.round", anchor, "for every slice length, every copy of the body that a generated round header admits has its whole `length`-byte chunk inside the iterated slice (the body's accesses carry no run-time bounds test: they were proved against chunk.length() == length), and all iterated slices advance in lock step", v.evals,
					fmt.Sprintf("%s line %d (source line %d, blocks %v):\n%s", cname, blocks[i].Line, ln, w.blocks, strings.Join(bad, "\n")))
				if len(w.names) > 1 {
					var miss []string
					for _, n := range w.names[1:] {
						if !ci.clamped[n] {
							miss = append(miss, n)
						}
					}
					c.Check(len(miss) == 0, "I1.min", anchor, "when several slices are iterated in lock step the first slice's length is clamped to the minimum of all of them before the rounds: the round headers only measure the first slice, so an unclamped shorter slice is read past its end", len(w.names)-1,
						fmt.Sprintf("%s line %d: no `i_slice_%s.len = min(i_slice_%s.len, i_slice_<x>.len)` for %v", cname, blocks[i].Line, w.names[0], w.names[0], miss))
				}
			}
		}
	}
	c.Analysed("iterate_statements", nIter)
	c.Analysed("iterate_rounds_in_generated_C", nRounds)
	c.Analysed("iterate_blocks_with_length_ne_advance", nUnequal)
	fam := "I1"
	if prop == "C04" {
		fam = "I2"
	}
	c.Floor(fam, "iterate statements joined with their generated rounds (std + corpus)", nIter, 30)
	c.Floor(fam+".rounds", "generated rounds evaluated", nRounds, 50)
	c.Floor(fam+".overlap", "iterate blocks with length != advance (the overlapping-chunk header form)", nUnequal, 7)
	c.Floor(fam+".corpus", "iterate statements of the lowering corpus", nCorpus, 5)
}

// iterateControls: positive controls for the rules whose expected number of
// findings on the tree is zero (DESIGN §8). (a) I4: a program with a `continue`
// and a `break` inside iterate bodies, parsed (never compiled or run) on every
// run; the detector must report both. (b) I1/I2: the arithmetic model must
// report the over-read for the constants of a known-bad header and nothing for
// the right ones.
func iterateControls(c *core.Ctx, cb *core.CBuild) {
	dir := filepath.Join(c.Home, "corpus", "controls", "iterjump")
	pk, err := loadWuffsDir("iterjump", dir, cb.GenWuffs)
	if err != nil {
		// Since the repair 23538cb the parser itself rejects a break/continue that
		// targets an iterate statement (decided for every program by C01 O15.iterjump).
		// The control then shows exactly that: the front end refuses the program, so
		// no such jump can reach cgen. Any other front-end error is undecided.
		if strings.Contains(err.Error(), "iterate") && (strings.Contains(err.Error(), "continue") || strings.Contains(err.Error(), "break")) {
			c.Pass("I4.control", "corpus/controls/iterjump", "positive control: a program with a `continue`/`break` that targets an iterate loop is refused by the working tree's front end (or, if accepted, I4's detector reports both jumps)", 1, err.Error())
		} else {
			c.Undecided("I4.control", "corpus/controls/iterjump", "the positive control for I4 is either refused by the front end because of its jump to an iterate loop, or accepted and reported by I4's detector", err.Error())
		}
	} else {
		var found []string
		for _, f := range pk.Funcs {
			var its []*wIter
			wuffsIterates(pk, f.Body(), &its)
			for _, w := range its {
				for x := w.node; x != nil; x = x.ElseIterate() {
					if s := jumpsTo(pk, a.Loop(x), x.Body()); s != "" {
						found = append(found, s)
					}
				}
			}
		}
		c.Check(len(found) == 2, "I4.control", "corpus/controls/iterjump", "positive control: I4's detector reports the `continue` and the `break` that target iterate loops in the control program", len(found), fmt.Sprintf("expected 2 findings, got %v", found))
	}
	w := &wIter{names: []string{"p"}, blocks: []iterBlock{{4, 3, 2}}}
	mk := func(x0, y0, x1, y1 int) *cIter {
		return &cIter{names: []string{"p"}, rounds: []*cRound{
			{form: 3, c1: x0, c2: y0, advs: map[string][]int{"p": {3, 3}}, lens: map[string]int{"p": 4}},
			{form: 3, c1: x1, c2: y1, advs: map[string][]int{"p": {3}}, lens: map[string]int{"p": 4}}}}
	}
	good, bad, late := evalIterate(w, mk(7, 6, 4, 3)), evalIterate(w, mk(6, 6, 3, 3)), evalIterate(w, mk(10, 6, 7, 3))
	ok := good.undecided == "" && good.unsafe == "" && good.chunks == "" && bad.unsafe != "" && late.unsafe == "" && late.chunks != ""
	c.Check(ok, "I1.control", "model[length 4 advance 3 unroll 2]", "positive control: for length 4, advance 3, unroll 2 the model accepts the headers (7,6),(4,3), reports an over-read for (6,6),(3,3) and a skipped chunk (no over-read) for (10,6),(7,3)", good.evals+bad.evals+late.evals,
		fmt.Sprintf("good: %+v\nbad: %+v\nlate: %+v", good, bad, late))
}

func sameStrings(x, y []string) bool {
	if len(x) != len(y) {
		return false
	}
	for i := range x {
		if x[i] != y[i] {
			return false
		}
	}
	return true
}

// ---- tier G: writeIterateRound ----

type poly map[[3]int]int64 // exponents of (length, advance, unroll) → coefficient

func (p poly) norm() poly {
	for k, v := range p {
		if v == 0 {
			delete(p, k)
		}
	}
	return p
}
func polyConst(k int64) poly { return poly{[3]int{}: k}.norm() }
func polyVar(i int) poly {
	e := [3]int{}
	e[i] = 1
	return poly{e: 1}
}
func (p poly) add(q poly, sign int64) poly {
	r := poly{}
	for k, v := range p {
		r[k] += v
	}
	for k, v := range q {
		r[k] += sign * v
	}
	return r.norm()
}
func (p poly) mul(q poly) poly {
	r := poly{}
	for k1, v1 := range p {
		for k2, v2 := range q {
			r[[3]int{k1[0] + k2[0], k1[1] + k2[1], k1[2] + k2[2]}] += v1 * v2
		}
	}
	return r.norm()
}
func (p poly) eq(q poly) bool { return len(p.add(q, -1)) == 0 }
func (p poly) eval(l, a, u int64) int64 {
	var s int64
	pow := func(b int64, e int) int64 {
		r := int64(1)
		for ; e > 0; e-- {
			r *= b
		}
		return r
	}
	for k, v := range p {
		s += v * pow(l, k[0]) * pow(a, k[1]) * pow(u, k[2])
	}
	return s
}

// substA2L replaces advance by length (valid under the guard length == advance).
func (p poly) substA2L() poly {
	r := poly{}
	for k, v := range p {
		r[[3]int{k[0] + k[1], 0, k[2]}] += v
	}
	return r.norm()
}
func (p poly) String() string {
	var ks [][3]int
	for k := range p {
		ks = append(ks, k)
	}
	sort.Slice(ks, func(i, j int) bool { return fmt.Sprint(ks[i]) < fmt.Sprint(ks[j]) })
	var parts []string
	names := []string{"length", "advance", "unroll"}
	for _, k := range ks {
		t := fmt.Sprint(p[k])
		for i, e := range k {
			for ; e > 0; e-- {
				t += "*" + names[i]
			}
		}
		parts = append(parts, t)
	}
	if len(parts) == 0 {
		return "0"
	}
	return strings.Join(parts, " + ")
}

// polyOf evaluates an integer Go expression over the three role parameters.
func polyOf(fl *core.Flow, e ast.Expr, roles map[types.Object]int, depth int) (poly, bool) {
	info := fl.F.Info()
	e = ast.Unparen(e)
	if k, ok := core.ConstInt64(info, e); ok {
		return polyConst(k), true
	}
	switch x := e.(type) {
	case *ast.Ident:
		obj := fl.Obj(x)
		if r, ok := roles[obj]; ok {
			if len(fl.Defs()[obj]) > 0 {
				return nil, false // a role parameter that is reassigned inside the function
			}
			return polyVar(r), true
		}
		if v, ok := obj.(*types.Var); ok && !v.IsField() && depth < 4 {
			if defs := fl.Defs()[obj]; len(defs) == 1 {
				return polyOf(fl, defs[0], roles, depth+1)
			}
		}
	case *ast.UnaryExpr:
		if x.Op == token.SUB {
			if p, ok := polyOf(fl, x.X, roles, depth); ok {
				return polyConst(0).add(p, -1), true
			}
		}
		if x.Op == token.ADD {
			return polyOf(fl, x.X, roles, depth)
		}
	case *ast.BinaryExpr:
		l, ok1 := polyOf(fl, x.X, roles, depth)
		r, ok2 := polyOf(fl, x.Y, roles, depth)
		if ok1 && ok2 {
			switch x.Op {
			case token.ADD:
				return l.add(r, 1), true
			case token.SUB:
				return l.add(r, -1), true
			case token.MUL:
				return l.mul(r), true
			}
		}
	case *ast.CallExpr:
		if tv, ok := info.Types[x.Fun]; ok && tv.IsType() && len(x.Args) == 1 {
			if b, ok := tv.Type.Underlying().(*types.Basic); ok && b.Info()&types.IsInteger != 0 {
				return polyOf(fl, x.Args[0], roles, depth)
			}
		}
	}
	return nil, false
}

// fmtVerbs returns, for each verb of a printf format, its letter and byte offset.
func fmtVerbs(f string) (verbs []byte, at []int) {
	for i := 0; i < len(f); i++ {
		if f[i] != '%' {
			continue
		}
		j := i + 1
		if j < len(f) && f[j] == '%' {
			i = j
			continue
		}
		for j < len(f) && strings.IndexByte("+-# 0123456789.", f[j]) >= 0 {
			j++
		}
		if j < len(f) {
			verbs = append(verbs, f[j])
			at = append(at, i)
		}
		i = j
	}
	return
}

func checkIterateCgen(k *gctx) {
	const fam = "I3"
	flS := k.flow(fam+".roles", "internal/cgen", "gen", "writeStatementIterate")
	fl := k.flow(fam+".roles", "internal/cgen", "gen", "writeIterateRound")
	if flS == nil || fl == nil {
		return
	}
	info := fl.F.Info()
	anchor := "internal/cgen.(gen).writeIterateRound"
	// roles of the integer parameters, from the call site: which argument comes
	// from strconv.Atoi(n.Length().Str(…)) etc.
	roles := map[types.Object]int{}
	roleNames := []string{"Length", "Advance", "Unroll"}
	nCalls := 0
	ast.Inspect(flS.F.Decl.Body, func(m ast.Node) bool {
		call, ok := m.(*ast.CallExpr)
		if !ok || !core.IsCallTo(flS.F.Info(), call, fl.F.Obj) {
			return true
		}
		nCalls++
		for i, arg := range call.Args {
			for r, rn := range roleNames {
				isAtoi := func(e ast.Expr) bool {
					c2, ok := ast.Unparen(e).(*ast.CallExpr)
					if !ok || len(c2.Args) != 1 {
						return false
					}
					fn := core.Callee(flS.F.Info(), c2)
					return fn != nil && fn.FullName() == "strconv.Atoi" && flS.MethodChain(core.Any, rn, "Str")(c2.Args[0])
				}
				if flS.Denotes(isAtoi)(arg) {
					if p := fl.Param(i); p != nil {
						roles[p] = r
					}
				}
			}
		}
		return true
	})
	have := map[int]bool{}
	for _, r := range roles {
		have[r] = true
	}
	if nCalls == 0 || len(roles) != 3 || len(have) != 3 {
		k.c.Undecided(fam+".roles", anchor, "the length / advance / unroll parameters of writeIterateRound are identified from its call site (arguments that come from strconv.Atoi(n.Length()/Advance()/Unroll().Str(tm)))", fmt.Sprintf("%d call sites, %d parameters identified", nCalls, len(roles)))
		return
	}
	L, A, U := polyVar(0), polyVar(1), polyVar(2)
	isPrintf := func(call *ast.CallExpr) (string, bool) {
		fn := core.Callee(info, call)
		if fn == nil || fn.Name() != "printf" || fn.Pkg() == nil || !strings.HasSuffix(fn.Pkg().Path(), "internal/cgen") || len(call.Args) == 0 {
			return "", false
		}
		v := core.ConstVal(info, call.Args[0])
		if v == nil {
			return "", false
		}
		s, err := strconv.Unquote(v.ExactString())
		return s, err == nil
	}
	// integer arguments of a printf: the polynomials bound to its %d verbs at or after a marker
	intArgs := func(call *ast.CallExpr, f string, from int) ([]poly, []ast.Expr, bool) {
		verbs, at := fmtVerbs(f)
		var ps []poly
		var es []ast.Expr
		for i, vb := range verbs {
			if vb != 'd' || at[i] < from {
				continue
			}
			if 1+i >= len(call.Args) {
				return nil, nil, false
			}
			p, ok := polyOf(fl, call.Args[1+i], roles, 0)
			if !ok {
				return nil, nil, false
			}
			ps = append(ps, p)
			es = append(es, call.Args[1+i])
		}
		return ps, es, true
	}
	type site struct {
		kind string
		call *ast.CallExpr
		stmt ast.Node
	}
	var sites []site
	ast.Inspect(fl.F.Decl.Body, func(m ast.Node) bool {
		es, ok := m.(*ast.ExprStmt)
		if !ok {
			return true
		}
		call, ok := es.X.(*ast.CallExpr)
		if !ok {
			return true
		}
		f, ok := isPrintf(call)
		if !ok {
			return true
		}
		switch {
		case strings.Contains(f, "wuffs_private_impl__iterate_total_advance("):
			sites = append(sites, site{"form3", call, es})
		case strings.Contains(f, "/ %d) * %d"):
			sites = append(sites, site{"form2", call, es})
		case strings.Contains(f, ".ptr += %d"):
			sites = append(sites, site{"advance", call, es})
		case strings.Contains(f, "slice_%s.ptr, %sslice_%s.len)"):
			sites = append(sites, site{"form1", call, es})
		}
		return true
	})
	count := map[string]int{}
	for _, s := range sites {
		count[s.kind]++
	}
	// The general form and the advance are required; the two special forms are
	// optimisations that may be absent (the general form is valid for every
	// length/advance/unroll), but if present there is one of each.
	for _, kind := range []string{"form1", "form2", "form3", "advance"} {
		if count[kind] > 1 || (count[kind] == 0 && (kind == "form3" || kind == "advance")) {
			k.c.Undecided(fam+".shape", anchor, "writeIterateRound prints the general header form and the pointer advance (and, if present, each special header form) with one printf whose format is a constant", fmt.Sprintf("%s: %d printf calls recognised", kind, count[kind]))
			return
		}
	}
	// edge facts: cond established `p == 0` for a polynomial p
	edgeEq := func(target poly) core.Event {
		return core.Event{Edge: func(cond ast.Expr, ci *core.CondInfo, taken bool) bool {
			if ci == nil || (ci.Kind != "if" && ci.Kind != "switch") {
				return false
			}
			for _, at := range condAtoms(fl, cond, taken, 0) {
				b, ok := ast.Unparen(at.e).(*ast.BinaryExpr)
				if !ok || !((b.Op == token.EQL && at.pos) || (b.Op == token.NEQ && !at.pos)) {
					continue
				}
				x, ok1 := polyOf(fl, b.X, roles, 0)
				y, ok2 := polyOf(fl, b.Y, roles, 0)
				if !ok1 || !ok2 {
					continue
				}
				d := x.add(y, -1)
				if d.eq(target) || d.eq(polyConst(0).add(target, -1)) {
					return true
				}
			}
			return false
		}}
	}
	// grid search for a definite over-read when a printed polynomial differs
	witness := func(form int, c1, c2, adv poly, guard func(l, a, u int64) bool) string {
		for l := int64(1); l <= 6; l++ {
			for av := int64(1); av <= l; av++ {
				for u := int64(1); u <= 4; u++ {
					if !guard(l, av, u) {
						continue
					}
					r := &cRound{form: form, c1: int(c1.eval(l, av, u)), c2: int(c2.eval(l, av, u)), advs: map[string][]int{}, lens: map[string]int{}}
					step := int(adv.eval(l, av, u))
					for i := int64(0); i < u; i++ {
						r.advs["p"] = append(r.advs["p"], step)
					}
					if form != 1 && (r.c1 < 1 || r.c2 < 1) || step < 1 {
						return fmt.Sprintf("length %d advance %d unroll %d: printed constants %d, %d, step %d", l, av, u, r.c1, r.c2, step)
					}
					for total := 0; total <= int(6*l*u+8); total++ {
						p, end := 0, r.headerT(total)
						for g := 0; p < end && g < 1000; g++ {
							for range r.advs["p"] {
								if p+int(l) > total {
									return fmt.Sprintf("length %d advance %d unroll %d prints (%d, %d): for a slice of %d bytes a body runs at offset %d and its window ends at %d", l, av, u, r.c1, r.c2, total, p, p+int(l))
								}
								p += step
							}
						}
					}
				}
			}
		}
		return ""
	}
	var advPoly poly
	for _, s := range sites {
		if s.kind == "advance" {
			f, _ := isPrintf(s.call)
			ps, _, ok := intArgs(s.call, f, 0)
			if !ok || len(ps) != 1 {
				k.c.Undecided(fam+".advance", anchor+"[ptr += %d]", "the pointer advance printed after each body copy is an integer expression over length/advance/unroll", "argument not evaluable: "+core.Src(k.g.Fset, s.call))
				return
			}
			advPoly = ps[0]
			k.c.Check(advPoly.eq(A), fam+".advance", anchor+"[ptr += %d]", "after each copy of the body every iterated slice pointer advances by exactly `advance` (more: chunks are skipped and the last window leaves the slice; less: chunks are processed twice)", 1,
				fmt.Sprintf("%s: prints %s", k.g.Pos(s.call.Pos()), advPoly))
			// emitted `unroll` times
			okLoop := false
			for _, n := range core.PathTo(fl.F.Decl.Body, s.stmt) {
				fs, ok := n.(*ast.ForStmt)
				if !ok || fs.Cond == nil {
					continue
				}
				b, ok := ast.Unparen(fs.Cond).(*ast.BinaryExpr)
				if !ok {
					continue
				}
				var iv, bound ast.Expr
				switch b.Op {
				case token.LSS:
					iv, bound = b.X, b.Y
				case token.GTR:
					iv, bound = b.Y, b.X
				default:
					continue
				}
				bp, ok := polyOf(fl, bound, roles, 0)
				id, isID := ast.Unparen(iv).(*ast.Ident)
				if !ok || !isID || !bp.eq(U) {
					continue
				}
				init, ok1 := fs.Init.(*ast.AssignStmt)
				post, ok2 := fs.Post.(*ast.IncDecStmt)
				if ok1 && ok2 && len(init.Lhs) == 1 && len(init.Rhs) == 1 && fl.Obj(init.Lhs[0]) == fl.Obj(id) && post.Tok == token.INC && fl.Obj(post.X) == fl.Obj(id) {
					if z, ok := core.ConstInt64(info, init.Rhs[0]); ok && z == 0 {
						okLoop = true
					}
				}
			}
			k.c.Check(okLoop, fam+".unroll", anchor+"[for i < unroll]", "the body and its pointer advances are emitted exactly `unroll` times per loop iteration — the header admits an iteration when length + advance*(unroll-1) bytes remain, so one more copy reads past the slice", 1,
				fmt.Sprintf("%s: the advance printf is not inside `for i := 0; i < unroll; i++`", k.g.Pos(s.call.Pos())))
		}
	}
	if advPoly == nil {
		return
	}
	for _, s := range sites {
		f, _ := isPrintf(s.call)
		pos := k.g.Pos(s.call.Pos())
		switch s.kind {
		case "form3":
			ps, _, ok := intArgs(s.call, f, strings.Index(f, "wuffs_private_impl__iterate_total_advance("))
			if !ok || len(ps) != 2 {
				k.c.Undecided(fam+".overlap", anchor+"[iterate_total_advance]", "the two integers printed into iterate_total_advance(…, %d, %d) are integer expressions over length/advance/unroll", pos+": "+core.Src(k.g.Fset, s.call))
				continue
			}
			wantX, wantY := L.add(A.mul(U), 1).add(A, -1), A.mul(U)
			if ps[0].eq(wantX) && ps[1].eq(wantY) {
				k.c.Pass(fam+".overlap", anchor+"[iterate_total_advance]", "the general round header is iterate_total_advance(remaining, length + advance*(unroll-1), advance*unroll): the first constant is the reach of one loop iteration (its last body copy starts advance*(unroll-1) in and reads `length` bytes), the second its stride — a smaller first constant admits an iteration whose last copy reads past the slice", 2, pos+": prints ("+ps[0].String()+", "+ps[1].String()+")")
			} else if w := witness(3, ps[0], ps[1], advPoly, func(l, a, u int64) bool { return true }); w != "" {
				k.c.Fail(fam+".overlap", anchor+"[iterate_total_advance]", "the general round header is iterate_total_advance(remaining, length + advance*(unroll-1), advance*unroll): a smaller first constant (or a stride that is not the loop's) admits an iteration whose last body copy reads past the slice", 2, pos+": prints ("+ps[0].String()+", "+ps[1].String()+"); "+w)
			} else {
				k.c.Undecided(fam+".overlap", anchor+"[iterate_total_advance]", "the constants printed into iterate_total_advance are length + advance*(unroll-1) and advance*unroll", pos+": prints ("+ps[0].String()+", "+ps[1].String()+"), which differs; no over-read found for length <= 6, unroll <= 4")
			}
		case "form2":
			ps, _, ok := intArgs(s.call, f, strings.Index(f, "/ %d) * %d"))
			if !ok || len(ps) != 2 {
				k.c.Undecided(fam+".rounddown", anchor+"[(R / %d) * %d]", "the two integers of the round-down header are integer expressions over length/advance/unroll", pos+": "+core.Src(k.g.Fset, s.call))
				continue
			}
			d, m := ps[0].substA2L(), ps[1].substA2L()
			want := L.mul(U)
			if d.eq(want) && m.eq(want) {
				k.c.Pass(fam+".rounddown", anchor+"[(R / %d) * %d]", "when length == advance the round header rounds the remaining length down to a multiple of length*unroll (the bytes one loop iteration consumes); a larger multiplier or smaller divisor lets the last iteration read past the slice", 2, pos+": prints ("+ps[0].String()+", "+ps[1].String()+")")
			} else if w := witness(2, ps[0], ps[1], advPoly, func(l, a, u int64) bool { return l == a }); w != "" {
				k.c.Fail(fam+".rounddown", anchor+"[(R / %d) * %d]", "when length == advance the round header rounds the remaining length down to a multiple of length*unroll; a larger multiplier or smaller divisor lets the last iteration read past the slice", 2, pos+": prints ("+ps[0].String()+", "+ps[1].String()+"); "+w)
			} else {
				k.c.Undecided(fam+".rounddown", anchor+"[(R / %d) * %d]", "divisor and multiplier of the round-down header are both length*unroll", pos+": prints ("+ps[0].String()+", "+ps[1].String()+")")
			}
			k.mustPass(fam+".guard.equal", anchor+"[(R / %d) * %d]", "the round-down header is emitted only for length == advance: with overlapping chunks (advance < length) a remaining length that is a multiple of length*unroll still lets the last body copy start `advance` before the end and read `length` bytes", fl, core.Query{
				Exit:   func(n ast.Node) bool { return n == s.stmt },
				Events: []core.Event{edgeEq(L.add(A, -1))},
			})
		case "form1":
			for i, v := range []poly{L, A, U} {
				k.mustPass(fam+".guard.unit."+strings.ToLower(roleNames[i]), anchor+"[slice.ptr, slice.len]", "the whole-slice header (end = slice end) is emitted only for length == advance == unroll == 1: for any larger chunk or unroll count the loop test `ptr < end` admits a body whose window extends past the end", fl, core.Query{
					Exit:   func(n ast.Node) bool { return n == s.stmt },
					Events: []core.Event{edgeEq(v.add(polyConst(1), -1))},
				})
			}
		}
	}
}
