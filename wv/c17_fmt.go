package main

import (
	"fmt"
	"go/ast"
	"go/constant"
	"go/token"
	"go/types"
	"hash/crc32"
	"strconv"
	"strings"

	"wv/core"
)

// ---------------------------------------------------------------------------
// K2…K4: LZMA / XZ framing constants, by value, encoder against decoder.

func constString(o types.Object) (string, bool) {
	v := constOf(o)
	if v == nil || v.Kind() != constant.String {
		return "", false
	}
	return constant.StringVal(v), true
}

func le32(b string) uint32 {
	return uint32(b[0]) | uint32(b[1])<<8 | uint32(b[2])<<16 | uint32(b[3])<<24
}

func q(s string) string { return "#" + strconv.Quote(s) }

// ifConds lists every if-condition of the function (through else-if chains).
func ifConds(body ast.Node) (out []*ast.IfStmt) {
	ast.Inspect(body, func(n ast.Node) bool {
		if is, ok := n.(*ast.IfStmt); ok {
			out = append(out, is)
		}
		return true
	})
	return
}

// endsInErrorReturn: the block's last statement is a return the engine
// classifies as an error return.
func endsInErrorReturn(fl *core.Flow, b *ast.BlockStmt) bool {
	if len(b.List) == 0 {
		return false
	}
	rs, ok := b.List[len(b.List)-1].(*ast.ReturnStmt)
	return ok && fl.IsErrorReturn(rs)
}

func (r *c17) formatConsts() {
	r.lzmaHeader()
	r.xzHeader()
	r.xzChunks()
	r.xzTail()
}

// K2: the 13-byte LZMA header.
func (r *c17) lzmaHeader() {
	c, g := r.c, r.k.g
	hdrObj := r.k.obj("K2", relLzma, "lzmaHeader5")
	hdr, ok := constString(hdrObj)
	lc, ok1 := constOfObj(g, "lc")
	lp, ok2 := constOfObj(g, "lp")
	pb, ok3 := constOfObj(g, "pb")
	lpMask, ok4 := constOfObj(g, "lpMask")
	pbMask, ok5 := constOfObj(g, "pbMask")
	if !ok || !ok1 || !ok2 || !ok3 || !ok4 || !ok5 {
		c.Undecided("K2", relLzma+".lzmaHeader5", "lzmaHeader5 is a string constant and lc, lp, pb, lpMask, pbMask are integer constants", "not found / not constant")
		return
	}
	pos := g.Pos(hdrObj.Pos())
	c.Check(lc == 3 && lp == 0 && pb == 2 && lpMask == (1<<lp)-1 && pbMask == (1<<pb)-1, "K2.params", relLzma+".lc/lp/pb",
		"the hard-coded LZMA parameters are the defaults lc=3, lp=0, pb=2 and the masks are (1<<lp)-1, (1<<pb)-1", 5,
		fmt.Sprintf("%s: lc=%d lp=%d pb=%d lpMask=%d pbMask=%d", pos, lc, lp, pb, lpMask, pbMask))
	okH := len(hdr) == 5 && int64(hdr[0]) == (pb*5+lp)*9+lc && hdr[0] == 0x5D && le32(hdr[1:]) == 0x1000
	c.Check(okH, "K2.header5", relLzma+".lzmaHeader5",
		"the 5-byte LZMA properties header is 0x5D = (pb*5+lp)*9+lc followed by the little-endian dictionary size 0x00001000", 5,
		fmt.Sprintf("%s: bytes % X", pos, hdr))

	// encoder
	ef := r.k.flow("K2.enc", relLzma, "", "encodeLZMA")
	df := r.k.flow("K2.dec", relLzma, "", "decodeLZMA")
	if ef == nil || df == nil {
		return
	}
	encRaw, decRaw := g.LookupObj(relLzma, "encodeRaw"), g.LookupObj(relLzma, "decodeRaw")
	encBytes, decOff := -1, int64(-1)
	{
		x := newSymx(ef.F.Info())
		dst, src := ef.Param(0), ef.Param(1)
		st := symState{x.oid(dst): "DST", x.oid(src): "SRC"}
		okShape, detail := true, ""
		stage := 0
		var sizeKey string
		for _, s := range ef.F.Decl.Body.List {
			switch v := s.(type) {
			case *ast.ForStmt:
				_, vals, okc := tripCount(ef.F.Info(), v)
				pre := st[x.oid(dst)]
				// the size variable: the one the body shifts
				loopSt := symState{}
				for k2 := range st {
					loopSt[k2] = "@" + k2
				}
				loopSt[x.oid(dst)] = "D"
				if err := x.exec(v.Body.List, loopSt, false, nil); err != nil || !okc || stage != 1 {
					okShape, detail = false, "size loop not recognised"
					break
				}
				for k2, val := range loopSt {
					if val == mk("shr", "@"+k2, "#8") {
						sizeKey = k2
					}
				}
				if sizeKey == "" || loopSt[x.oid(dst)] != "append(D,conv:uint8(@"+sizeKey+"))" || st[sizeKey] != "len(SRC)" {
					okShape, detail = false, fmt.Sprintf("size loop body: dst=%s, size variable initial value %q", loopSt[x.oid(dst)], st[sizeKey])
					break
				}
				_ = pre
				encBytes = len(vals)
				stage = 2
			case *ast.ReturnStmt:
				if stage != 2 || len(v.Results) != 2 {
					okShape, detail = false, "return not after the size loop"
					break
				}
				call, okc := ast.Unparen(v.Results[0]).(*ast.CallExpr)
				if !okc || core.Callee(ef.F.Info(), call) != encRaw || len(call.Args) != 2 || ef.Obj(call.Args[0]) != dst || ef.Obj(call.Args[1]) != src {
					okShape, detail = false, "the function does not end with return encodeRaw(dst, src), nil"
				}
				stage = 3
			default:
				if err := x.exec([]ast.Stmt{s}, st, false, nil); err != nil {
					okShape, detail = false, err.Error()
				}
				if stage == 0 && st[x.oid(dst)] == "append(DST,"+q(hdr)+")" {
					stage = 1
				}
			}
		}
		if !okShape || stage != 3 {
			if detail == "" {
				detail = "statement order not recognised"
			}
			c.Undecided("K2.enc", ef.F.Name(), "shape: dst = append(dst, lzmaHeader5...); size := len(src); 8 × {append(byte(size)); size >>= 8}; return encodeRaw(dst, src), nil", g.Pos(ef.F.Decl.Pos())+": "+detail)
			encBytes = -1
		} else {
			c.Pass("K2.enc", ef.F.Name(), "the encoder emits lzmaHeader5, then len(src) as little-endian bytes (byte(size); size >>= 8), then the raw stream of the same src", 3, fmt.Sprintf("%d size bytes", encBytes))
		}
	}
	// decoder
	{
		x := newSymx(df.F.Info())
		dst, src := df.Param(0), df.Param(1)
		x.names[dst], x.names[src] = "DST", "SRC"
		wantCmp := mk("ne", "conv:string(slice(SRC,,#"+strconv.Itoa(len(hdr))+"))", q(hdr))
		nCmp := 0
		for _, is := range ifConds(df.F.Decl.Body) {
			if x.eval(is.Cond, nil) == wantCmp && endsInErrorReturn(df, is.Body) {
				nCmp++
				cond := is.Cond
				r.k.mustPass("K2.dec.header5", df.F.Name(), "every success return is reached only past the test string(src[:5]) != lzmaHeader5 (any other properties/dictionary header is refused)", df,
					core.Query{Exit: df.SuccessReturn, FuncEnd: true, Events: []core.Event{{Edge: func(cd ast.Expr, ci *core.CondInfo, taken bool) bool {
						if taken {
							return false
						}
						for _, dj := range flattenOr(cd) {
							if dj == ast.Unparen(cond) {
								return true
							}
						}
						return false
					}}}})
			}
		}
		if nCmp != 1 {
			c.Undecided("K2.dec.header5", df.F.Name(), "the decoder compares string(src[:5]) with lzmaHeader5 and refuses on mismatch", fmt.Sprintf("%s: %d such comparisons (want 1); looked for %s", g.Pos(df.F.Decl.Pos()), nCmp, wantCmp))
		}
		decBytes := -1
		var sizeObj types.Object
		detail := ""
		for _, s := range df.F.Decl.Body.List {
			fs, ok := s.(*ast.ForStmt)
			if !ok {
				continue
			}
			ctr, vals, okc := tripCount(df.F.Info(), fs)
			if !okc || len(fs.Body.List) != 1 {
				continue
			}
			as, ok := fs.Body.List[0].(*ast.AssignStmt)
			if !ok || len(as.Lhs) != 1 {
				continue
			}
			sizeObj = df.Obj(as.Lhs[0])
			if sizeObj == nil {
				continue
			}
			x.names[ctr], x.names[sizeObj] = "I", "SIZE"
			rhs, _ := x.assignmentsTo(fs.Body, sizeObj)
			b := "conv:uint64(idx(SRC," + mk("add", "#"+strconv.Itoa(len(hdr)), "I") + "))"
			sh := mk("mul", "#8", "I")
			detail = strings.Join(rhs, ";")
			if len(rhs) == 1 && (rhs[0] == mk("or", "SIZE", mk("shl", b, "conv:uint("+sh+")")) || rhs[0] == mk("or", "SIZE", mk("shl", b, sh))) {
				asc := true
				for i, v := range vals {
					if v != int64(i) {
						asc = false
					}
				}
				if asc {
					decBytes = len(vals)
				}
			}
		}
		// initial value of SIZE must be 0
		if sizeObj != nil {
			all, _ := x.assignmentsTo(df.F.Decl.Body, sizeObj)
			if len(all) != 2 || all[0] != "#0" {
				decBytes = -1
				detail += " (size not initialised to 0 exactly once)"
			}
		}
		// payload offset
		nRaw := 0
		ast.Inspect(df.F.Decl.Body, func(n ast.Node) bool {
			call, ok := n.(*ast.CallExpr)
			if ok && core.Callee(df.F.Info(), call) == decRaw && len(call.Args) >= 3 {
				nRaw++
				a1 := x.eval(call.Args[1], nil)
				var off int64
				if _, err := fmt.Sscanf(a1, "slice(SRC,#%d,)", &off); err == nil && x.eval(call.Args[0], nil) == "DST" && x.eval(call.Args[2], nil) == "SIZE" {
					decOff = off
				}
			}
			return true
		})
		okD := encBytes == 8 && decBytes == 8 && nRaw == 1 && decOff == int64(len(hdr))+8
		c.Check(okD, "K2.size", ef.F.Name()+" ~ "+df.F.Name(),
			"both sides use an 8-byte little-endian uncompressed size after the 5-byte header: the decoder ors src[5+i] << 8*i for i = 0..7 into size and hands src[13:] and that size to decodeRaw", 3,
			fmt.Sprintf("%s: encoder size bytes %d; %s: decoder size bytes %d (%s), %d decodeRaw calls, payload offset %d", g.Pos(ef.F.Decl.Pos()), encBytes, g.Pos(df.F.Decl.Pos()), decBytes, detail, nRaw, decOff))
	}
}

// K3.header: the 24-byte XZ stream + block header.
func (r *c17) xzHeader() {
	c, g := r.c, r.k.g
	hobj := r.k.obj("K3.header", relLzma, "xzHeader24")
	h, ok := constString(hobj)
	if !ok {
		if hobj != nil {
			c.Undecided("K3.header", relLzma+".xzHeader24", "xzHeader24 is a string constant", "not a string constant")
		}
		return
	}
	pos := g.Pos(hobj.Pos())
	if len(h) != 24 {
		c.Fail("K3.header.len", relLzma+".xzHeader24", "stream header (12) + block header (12) = 24 bytes", 1, fmt.Sprintf("%s: length %d", pos, len(h)))
		return
	}
	c.Pass("K3.header.len", relLzma+".xzHeader24", "stream header (12) + block header (12) = 24 bytes", 1, "")
	c.Check(h[:6] == "\xFD7zXZ\x00", "K3.header.magic", relLzma+".xzHeader24[0:6]", "XZ stream header magic FD 37 7A 58 5A 00", 6, fmt.Sprintf("%s: % X", pos, h[:6]))
	c.Check(h[6] == 0x00 && h[7] == 0x01, "K3.header.flags", relLzma+".xzHeader24[6:8]", "stream flags 00 01 (check type CRC-32, the 4-byte check this package writes after the block)", 2, fmt.Sprintf("%s: % X", pos, h[6:8]))
	c.Check(le32(h[8:12]) == crc32.ChecksumIEEE([]byte(h[6:8])), "K3.header.crc1", relLzma+".xzHeader24[8:12]", "little-endian CRC-32/IEEE of the two stream-flag bytes", 4,
		fmt.Sprintf("%s: stored %08X, CRC-32 of % X is %08X", pos, le32(h[8:12]), h[6:8], crc32.ChecksumIEEE([]byte(h[6:8]))))
	okB := (int(h[12])+1)*4 == 12 && h[13] == 0x00 && h[14] == 0x21 && h[15] == 0x01 && h[16] == 0x00 && h[17:20] == "\x00\x00\x00"
	c.Check(okB, "K3.header.block", relLzma+".xzHeader24[12:20]", "block header: size byte 0x02 ((2+1)*4 = 12 bytes), flags 0x00 (one filter, no sizes), filter 0x21 (LZMA2), 1 property byte 0x00 (4 KiB dictionary), zero padding", 8,
		fmt.Sprintf("%s: % X", pos, h[12:20]))
	c.Check(le32(h[20:24]) == crc32.ChecksumIEEE([]byte(h[12:20])), "K3.header.crc2", relLzma+".xzHeader24[20:24]", "little-endian CRC-32/IEEE of the 8 block header bytes", 4,
		fmt.Sprintf("%s: stored %08X, CRC-32 of % X is %08X", pos, le32(h[20:24]), h[12:20], crc32.ChecksumIEEE([]byte(h[12:20]))))

	// encoder emits it first; decoder compares all 24 bytes and skips exactly 24.
	if ef := r.k.flow("K3.header.enc", relLzma, "", "encodeXz"); ef != nil {
		x := newSymx(ef.F.Info())
		dst := ef.Param(0)
		x.names[dst] = "DST"
		first := ""
		var fpos token.Pos
		for _, s := range ef.F.Decl.Body.List {
			if as, ok := s.(*ast.AssignStmt); ok && len(as.Lhs) == 1 && ef.Obj(as.Lhs[0]) == dst && len(as.Rhs) == 1 {
				first, fpos = x.eval(as.Rhs[0], nil), as.Pos()
				break
			}
			if _, ok := s.(*ast.AssignStmt); !ok {
				break
			}
		}
		c.Check(first == "append(DST,"+q(h)+")", "K3.header.enc", ef.F.Name(), "the first thing the XZ encoder appends is the whole of xzHeader24", 1,
			fmt.Sprintf("%s: first write to dst is %s", g.Pos(fpos), first))
	}
	df := r.k.flow("K3.header.dec", relLzma, "", "decodeXz")
	if df == nil {
		return
	}
	x := newSymx(df.F.Info())
	src := df.Param(1)
	x.names[src] = "SRC"
	// the skip: first top-level assignment to src
	var skip ast.Stmt
	skipN := int64(-1)
	for _, s := range df.F.Decl.Body.List {
		if as, ok := s.(*ast.AssignStmt); ok && len(as.Lhs) == 1 && df.Obj(as.Lhs[0]) == src && len(as.Rhs) == 1 {
			if _, err := fmt.Sscanf(x.eval(as.Rhs[0], nil), "slice(SRC,#%d,)", &skipN); err == nil {
				skip = as
			}
			break
		}
	}
	if skip == nil {
		c.Undecided("K3.header.dec", df.F.Name(), "the decoder skips the header with src = src[N:]", g.Pos(df.F.Decl.Pos())+": first assignment to src is not a constant re-slice")
		return
	}
	covered := make([]bool, 24)
	pieces := 0
	for _, is := range ifConds(df.F.Decl.Body) {
		if is.End() > skip.Pos() && is.Pos() > skip.Pos() {
			continue
		}
		for _, d := range flattenOr(is.Cond) {
			s := x.eval(d, nil)
			if !strings.HasPrefix(s, "ne(") {
				continue
			}
			for a := 0; a < 24; a++ {
				for b := a + 1; b <= 24; b++ {
					lo := ""
					if a > 0 {
						lo = "#" + strconv.Itoa(a)
					}
					if s != mk("ne", "conv:string(slice(SRC,"+lo+",#"+strconv.Itoa(b)+"))", q(h[a:b])) {
						continue
					}
					if !endsInErrorReturn(df, is.Body) {
						continue
					}
					pieces++
					for i := a; i < b; i++ {
						covered[i] = true
					}
					cond := ast.Unparen(d)
					r.k.mustPass("K3.header.dec.cmp", fmt.Sprintf("%s[src[%d:%d]]", df.F.Name(), a, b),
						fmt.Sprintf("the header skip src = src[%d:] is reached only past the comparison of src[%d:%d] with xzHeader24[%d:%d]", skipN, a, b, a, b), df,
						core.Query{Exit: func(n ast.Node) bool { return n == ast.Node(skip) }, Events: []core.Event{{Edge: func(cd ast.Expr, ci *core.CondInfo, taken bool) bool {
							if taken {
								return false
							}
							for _, dj := range flattenOr(cd) { // go/cfg keeps a || b as one node: false edge = every disjunct false
								if dj == cond {
									return true
								}
							}
							return false
						}}}})
				}
			}
		}
	}
	miss := []string{}
	for i, v := range covered {
		if !v {
			miss = append(miss, strconv.Itoa(i))
		}
	}
	c.Check(len(miss) == 0 && skipN == 24, "K3.header.dec", df.F.Name(), "the decoder compares every one of the 24 header bytes with xzHeader24 and then skips exactly 24 bytes", 24,
		fmt.Sprintf("%s: %d comparisons; uncompared header bytes [%s]; skip %d", g.Pos(skip.Pos()), pieces, strings.Join(miss, ","), skipN))
}
