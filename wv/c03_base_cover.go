package main

// Family B, continued: positive controls of the evaluator, freshness of the
// analysed headers against the generated C, and coverage of the base callees of
// generated std C.

import (
	"fmt"
	"os"
	"regexp"
	"sort"
	"strings"

	"wv/core"
)

// ---- positive controls: synthetic broken helpers must be refuted, the intact forms accepted.

const bCtlCommon = `
static inline wuffs_base__slice_u8 wuffs_base__make_slice_u8(uint8_t* ptr, size_t len) {
  wuffs_base__slice_u8 ret;
  ret.ptr = ptr;
  ret.len = len;
  return ret;
}
static inline wuffs_base__slice_u8 wuffs_base__empty_slice_u8(void) {
  wuffs_base__slice_u8 ret;
  ret.ptr = NULL;
  ret.len = 0;
  return ret;
}
static inline uint64_t wuffs_base__peek_u64le__no_bounds_check(const uint8_t* p) {
  return ((uint64_t)(p[0]) << 0) | ((uint64_t)(p[1]) << 8) | ((uint64_t)(p[2]) << 16) | ((uint64_t)(p[3]) << 24) |
         ((uint64_t)(p[4]) << 32) | ((uint64_t)(p[5]) << 40) | ((uint64_t)(p[6]) << 48) | ((uint64_t)(p[7]) << 56);
}
`

var bCtlCases = []struct {
	name, fn, src string
	wantFail      bool
	wantText      string
}{
	{"row one past the table", "wuffs_private_impl__table_u8__row_u32", `
static inline wuffs_base__slice_u8 wuffs_private_impl__table_u8__row_u32(wuffs_base__table_u8 t, uint32_t y) {
  if (!t.ptr || (y > t.height)) { return wuffs_base__empty_slice_u8(); }
  return wuffs_base__make_slice_u8(t.ptr + (t.stride * y), t.width);
}`, true, "y="},
	{"row, early-return form", "wuffs_private_impl__table_u8__row_u32", `
static inline wuffs_base__slice_u8 wuffs_private_impl__table_u8__row_u32(wuffs_base__table_u8 t, uint32_t y) {
  if (!t.ptr || !(t.height > y)) { return wuffs_base__empty_slice_u8(); }
  size_t off = y * t.stride;
  return wuffs_base__make_slice_u8(off + t.ptr, t.width);
}`, false, ""},
	{"match7 inconclusive on a closed reader", "wuffs_private_impl__io_reader__match7", `
static inline uint32_t wuffs_private_impl__io_reader__match7(const uint8_t* iop_r, const uint8_t* io2_r, wuffs_base__io_buffer* r, uint64_t a) {
  uint32_t n = a & 7;
  a >>= 8;
  if ((io2_r - iop_r) >= 8) {
    uint64_t x = wuffs_base__peek_u64le__no_bounds_check(iop_r);
    uint32_t shift = 8 * (8 - n);
    return ((a << shift) == (x << shift)) ? 0 : 2;
  }
  if (iop_r >= io2_r) { return (r && r->meta.closed) ? 2 : 1; }
  for (; n > 0; n--) {
    if (iop_r >= io2_r) { return 1; } else if (*iop_r != ((uint8_t)(a))) { return 2; }
    iop_r++;
    a >>= 8;
  }
  return 0;
}`, true, "returned 1, want 2"},
	{"subslice wraps in a narrow size_t", "wuffs_base__slice_u8__subslice_i", `
static inline wuffs_base__slice_u8 wuffs_base__slice_u8__subslice_i(wuffs_base__slice_u8 s, uint64_t i) {
  if (((size_t)i) <= s.len) { return wuffs_base__make_slice_u8(s.ptr + i, ((size_t)(s.len - i))); }
  return wuffs_base__empty_slice_u8();
}`, true, "i="},
}

func bControls(c *core.Ctx) {
	rows := bAllRows()
	byFn := map[string]*bRow{}
	for i := range rows {
		byFn[rows[i].fn] = &rows[i]
	}
	for _, cc := range bCtlCases {
		src := bCtlCommon + cc.src
		lib, err := cLoadBaseLib("control", []string{"control.h"}, func(string) ([]byte, error) { return []byte(src), nil })
		anchor := "control[" + cc.name + "]"
		claim := "positive control: the evaluator and the contract row refute a synthetic broken helper and accept an equivalent rewrite of the intact one (a family whose expected finding count is zero must show that it can find)"
		if err != nil {
			c.Undecided("B.control", anchor, claim, err.Error())
			continue
		}
		out := bRunRow(lib, byFn[cc.fn])
		switch {
		case out.undec != "":
			c.Undecided("B.control", anchor, claim, out.undec)
		case cc.wantFail:
			c.Check(out.fail != "" && strings.Contains(out.fail, cc.wantText), "B.control", anchor, claim, out.tuples, "expected a counter-example mentioning `"+cc.wantText+"`, got: "+out.fail)
		default:
			c.Check(out.fail == "", "B.control", anchor, claim, out.tuples, "unexpected counter-example: "+out.fail)
		}
	}
}

// ---- freshness: the headers analysed are the ones that reach the generated C.

func bFreshness(c *core.Ctx, cb *core.CBuild, lib *cbaseLib) {
	claim := "internal/cgen/base/*.h reach the generated C through go:embed (internal/cgen/embed.go) and cgen's INSERT expansion; the token sequence of every contracted helper in the scratch-built release snapshot equals the one analysed, so a helper cannot be altered on the way (or the analysed copy go stale)"
	anchor := "release/c/wuffs-unsupported-snapshot.c ⋈ internal/cgen/base"
	src, err := os.ReadFile(cb.Snapshot)
	if err != nil {
		c.Undecided("B.fresh", anchor, claim, err.Error())
		return
	}
	snap := core.CParseFile(cb.Snapshot, string(src))
	snapFns := map[string][]*core.CFunc{}
	for _, f := range snap.Funcs {
		snapFns[f.Name] = append(snapFns[f.Name], f)
	}
	var bad []string
	n := 0
	seen := map[string]bool{}
	for _, row := range bAllRows() {
		if seen[row.fn] {
			continue
		}
		seen[row.fn] = true
		d := lib.funcs[row.fn]
		if d == nil {
			continue // reported by the row itself
		}
		fs := snapFns[row.fn]
		if len(fs) != 1 {
			bad = append(bad, fmt.Sprintf("%s: %d definitions in the generated snapshot", row.fn, len(fs)))
			continue
		}
		n++
		if core.CText(fs[0].Params) != core.CText(d.cf.Params) || core.CText(fs[0].Body) != core.CText(d.cf.Body) || core.CText(fs[0].Head) != core.CText(d.cf.Head) {
			bad = append(bad, fmt.Sprintf("%s: generated snapshot line %d differs from internal/cgen/base/%s line %d", row.fn, fs[0].Line, d.file, d.cf.Line))
		}
	}
	c.Check(len(bad) == 0, "B.fresh", anchor, claim, n, strings.Join(bad, "\n"))
	c.Floor("B.fresh", "contracted helpers compared between the base headers and the generated snapshot", n, 90)
}

// ---- coverage of base callees of generated std C

var bStrictFamily = regexp.MustCompile(`slice_u8|table_u8|table__|ptr_u8_plus|__io__|io_reader__|io_writer__|iterate_|__bulk_|__peek_u|__poke_u|__u(8|16|32|64)__(min|max|sat_)`)

// Base callees of generated C that family B does not model, by name prefix, with the reason.
var bNotModelled = []struct{ prefix, reason string }{
	{"wuffs_base__make_status", "status values: no memory access"},
	{"wuffs_base__status__", "status values: no memory access"},
	{"wuffs_private_impl__status__", "status values: no memory access"},
	{"wuffs_private_impl__ignore_status", "status values: no memory access"},
	{"wuffs_base__make_empty_struct", "constant constructor (evaluated as a callee of the bulk_* rows)"},
	{"wuffs_base__utility__sign_extend_", "arithmetic macro: no memory access"},
	{"wuffs_base__utility__i64_divide", "arithmetic macro: no memory access"},
	{"wuffs_base__utility__make_", "value constructor (range, rect, pixel format, bitvec, optional): no pointers"},
	{"wuffs_base__utility__empty_r", "value constructor (range, rect): no pointers"},
	{"wuffs_base__utility__empty_io_", "alias of the empty io_buffer constructor: no access"},
	{"wuffs_base__make_pixel_format", "value constructor: no pointers"},
	{"wuffs_base__make_token", "value constructor: no pointers"},
	{"wuffs_base__make_slice_token", "token-slice constructor (not a u8 slice): declined"},
	{"wuffs_base__slice_token__", "token writer constructor: declined"},
	{"wuffs_base__ptr_u8__", "io_buffer constructor from (ptr, len): declined (io-public.h is outside the three analysed headers)"},
	{"wuffs_base__empty_io_buffer", "constant constructor"},
	{"wuffs_base__empty_more_information", "constant constructor"},
	{"wuffs_base__null_", "constant constructor"},
	{"wuffs_base__io_buffer__", "io_buffer methods of io-public.h: declined"},
	{"wuffs_base__pixel_swizzler__", "pixel swizzler (pixconv-submodule-*.c): long hand-written loops, needs its own engine; declined"},
	{"wuffs_base__pixel_buffer__", "image API of image-public.h: declined"},
	{"wuffs_base__pixel_format__", "image API of image-public.h: pure functions of a u32"},
	{"wuffs_base__pixel_config__", "image API of image-public.h: declined"},
	{"wuffs_base__image_config__", "image API of image-public.h: declined"},
	{"wuffs_base__frame_config__", "image API of image-public.h: declined"},
	{"wuffs_base__image_decoder__", "virtual dispatch through the vtable: declined"},
	{"wuffs_base__more_information__", "value setter: no pointers"},
	{"wuffs_base__color_u32_argb_premul__", "pure function of a u32"},
	{"wuffs_base__utf_8__", "utf8-submodule.c: own loops; declined"},
	{"wuffs_base__parse_number_", "intconv/floatconv submodules: own loops; declined"},
	{"wuffs_base__ieee_754_bit_representation__", "pure numeric conversion"},
	{"wuffs_base__magic_number_guess_fourcc", "magic-submodule.c: own loops; declined"},
	{"wuffs_base__cpu_arch__have_", "CPU feature test"},
	{"wuffs_base__strip_const_from_u8_ptr", "pointer cast"},
	{"wuffs_base__bitvec256__", "bit-vector access with a masked index: declined"},
	{"wuffs_base__optional_u63__", "value accessor: no pointers"},
	{"wuffs_base__multiply_u64", "pure arithmetic: no bounds role"},
	{"wuffs_base__count_leading_zeroes_u64", "pure arithmetic: no bounds role"},
}

var bRotate = regexp.MustCompile(`^wuffs_base__u(8|16|32|64)__rotate_(left|right)$`)
var bSignedMinMax = regexp.MustCompile(`^wuffs_base__i(8|16|32|64)__(min|max)$`)

func bCoverage(c *core.Ctx, cb *core.CBuild, lib *cbaseLib) {
	modelled := map[string]bool{}
	for _, r := range bAllRows() {
		modelled[r.fn] = true
	}
	uses := map[string]int{}
	where := map[string]string{}
	for _, pkg := range cb.StdPackages() {
		src, err := os.ReadFile(cb.PkgC[pkg])
		if err != nil {
			c.Infra("%v", err)
		}
		cf := core.CParseFile(cb.PkgC[pkg], string(src))
		for _, fn := range cf.Funcs {
			for i, t := range fn.Body {
				if t.Kind != 'i' || i+1 >= len(fn.Body) || !fn.Body[i+1].Is("(") {
					continue
				}
				if !strings.HasPrefix(t.Text, "wuffs_base__") && !strings.HasPrefix(t.Text, "wuffs_private_impl__") {
					continue
				}
				if i+2 < len(fn.Body) && fn.Body[i+2].Is("*") {
					continue // a type in a function-pointer cast: T (*)(…)
				}
				name := lib.resolve(t.Text)
				uses[name]++
				if where[name] == "" {
					where[name] = "std/" + pkg + " " + fn.Name
				}
			}
		}
	}
	claim := "every wuffs_base__/wuffs_private_impl__ function that generated std C calls is classified: a helper of the slice / table / io / iterate / bulk / peek-poke / min-max-sat families has a contract row (families B.exact.*, B.bounded.*), anything else is listed with the reason it is not modelled — a new unchecked helper cannot appear unnoticed"
	var names []string
	for n := range uses {
		names = append(names, n)
	}
	sort.Strings(names)
	groups := map[string][]string{}
	var bad []string
	nModelled, nCalls := 0, 0
	for _, n := range names {
		if modelled[n] {
			nModelled++
			nCalls += uses[n]
			continue
		}
		if bStrictFamily.MatchString(n) {
			bad = append(bad, fmt.Sprintf("%s (first use: %s, %d calls): belongs to a bounds-helper family but has no contract row", n, where[n], uses[n]))
			continue
		}
		reason := ""
		for _, nm := range bNotModelled {
			if strings.HasPrefix(n, nm.prefix) {
				reason = nm.reason
				break
			}
		}
		if reason == "" && bRotate.MatchString(n) {
			reason = "pure arithmetic: no bounds role"
		}
		if reason == "" && bSignedMinMax.MatchString(n) {
			reason = "signed min/max: not contracted"
		}
		if reason == "" {
			bad = append(bad, fmt.Sprintf("%s (first use: %s, %d calls): not classified", n, where[n], uses[n]))
			continue
		}
		groups[reason] = append(groups[reason], n)
	}
	c.Check(len(bad) == 0, "B.coverage", "generated C for std ⋈ contract table", claim, len(names), strings.Join(bad, "\n"))
	var reasons []string
	for r := range groups {
		reasons = append(reasons, r)
	}
	sort.Strings(reasons)
	for _, r := range reasons {
		c.Info("B.coverage", "not modelled", fmt.Sprintf("%s: %s", r, strings.Join(groups[r], ", ")))
	}
	c.Analysed("base_callees_of_std", len(names))
	c.Analysed("base_callees_with_contract", nModelled)
	c.Floor("B.coverage", "distinct base helpers called by generated std C that have a contract row", nModelled, 55)
	c.Floor("B.coverage.calls", "call sites in generated std C of helpers with a contract row", nCalls, 1000)
}
