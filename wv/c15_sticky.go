package main

// C15, family S: sticky errors of rac.ChunkReader and rac.Reader.
//
// For ChunkReader the rule is strict (every possibly non-nil error that leaves a
// method is in r.err first, io.EOF from NextChunk excepted): initialize() sets
// `initialized` before it looks for the root node and returns nil on every later
// call, so a failure that is NOT sticky lets the next NextChunk read an
// unvalidated currNode. For Reader the rule covers errors obtained from calls
// (I/O sources), as in DESIGN's E5.

import (
	"fmt"
	"go/ast"
	"go/token"
	"go/types"
	"strings"

	"wv/core"
)

type c15StickyCfg struct {
	rule     string
	owner    types.Object
	errField *types.Var
	strict   bool            // direct returns of error values must be sticky too
	eofOK    map[string]bool // methods that may return io.EOF unstored
}

func c15Sticky(x *c15x) {
	c := x.c
	cfgs := []c15StickyCfg{
		{rule: "S.cr", owner: x.crObj, errField: x.fCRErr, strict: true, eofOK: map[string]bool{"NextChunk": true}},
		{rule: "S.rd", owner: x.rdObj, errField: x.fRDErr, strict: false, eofOK: map[string]bool{"Read": true, "nextChunk": true}},
	}
	for _, cf := range cfgs {
		nfun, nret, nGuarded, nCalls := 0, 0, 0, 0
		for _, f := range x.funcs {
			fl := x.flow(f)
			if fl.Recv() == nil || !c15IsNamed(fl.Recv().Type(), cf.owner) {
				continue
			}
			sig := f.Obj.Type().(*types.Signature)
			if sig.Results().Len() == 0 || !c15IsError(sig.Results().At(sig.Results().Len()-1).Type()) {
				continue
			}
			nfun++
			nret += x.stickyFunc(cf, f, fl)
			a, b := x.stickyDropped(cf, f, fl)
			nGuarded += a
			nCalls += b
		}
		c.Floor(cf.rule+".drop", "`if err != nil` tests of a foreign call's error in "+cf.owner.Name()+" methods", nGuarded, map[string]int{"S.cr": 8, "S.rd": 7}[cf.rule])
		c.Floor(cf.rule+".errcheck", "error-returning calls in "+cf.owner.Name()+" methods", nCalls, map[string]int{"S.cr": 20, "S.rd": 26}[cf.rule])
		switch cf.rule {
		case "S.cr":
			c.Floor(cf.rule, "ChunkReader methods returning error", nfun, 10)
			c.Floor(cf.rule+".returns", "return statements examined in ChunkReader methods", nret, 50)
		case "S.rd":
			c.Floor(cf.rule, "Reader methods returning error", nfun, 12)
			c.Floor(cf.rule+".returns", "return statements examined in Reader methods", nret, 40)
		}
	}
	x.stickyEOF()
	x.stickyEntry()
}

// stickyEOF (S.rd.eof): the error of an io.Reader-shaped call
// `Read([]byte) (int, error)` is stored in Reader.err only where it is known
// not to be io.EOF. io.Reader's contract makes io.EOF the ordinary end of
// stream; making it sticky turns every later Seek/Read into a failure, unlike
// a bytes.Reader over the decoded bytes (repaired defect 6fda84f).
func (x *c15x) stickyEOF() {
	c, k := x.c, x.k
	nsites := 0
	isReaderShaped := func(info *types.Info, e ast.Expr) bool {
		call, ok := ast.Unparen(e).(*ast.CallExpr)
		if !ok {
			return false
		}
		fn := core.Callee(info, call)
		if fn == nil || fn.Name() != "Read" {
			return false
		}
		sig, _ := fn.Type().(*types.Signature)
		if sig == nil || sig.Recv() == nil || sig.Params().Len() != 1 || sig.Results().Len() != 2 {
			return false
		}
		sl, ok := sig.Params().At(0).Type().Underlying().(*types.Slice)
		if !ok || !types.Identical(sl.Elem(), types.Typ[types.Byte]) {
			return false
		}
		return types.Identical(sig.Results().At(0).Type(), types.Typ[types.Int]) && c15IsError(sig.Results().At(1).Type())
	}
	for _, f := range x.funcs {
		fl := x.flow(f)
		if fl.Recv() == nil || !c15IsNamed(fl.Recv().Type(), x.rdObj) {
			continue
		}
		info := f.Info()
		var stores []*ast.AssignStmt
		ast.Inspect(f.Decl.Body, func(n ast.Node) bool {
			if as, ok := n.(*ast.AssignStmt); ok && as.Tok == token.ASSIGN && len(as.Lhs) == len(as.Rhs) {
				for _, l := range as.Lhs {
					if c15RecvField(fl, l, x.fRDErr) {
						stores = append(stores, as)
					}
				}
			}
			return true
		})
		var bad []string
		sites := 0
		for _, st := range stores {
			for i, l := range st.Lhs {
				if !c15RecvField(fl, l, x.fRDErr) {
					continue
				}
				v := c15LocalVar(fl, st.Rhs[i])
				if v == nil {
					if isReaderShaped(info, st.Rhs[i]) {
						bad = append(bad, k.g.Pos(st.Pos())+": the result of a Read call is stored directly")
					}
					continue
				}
				defs := c15Defs(fl, v)
				for _, d := range defs {
					if d.Rhs == nil || !isReaderShaped(info, d.Rhs) {
						continue
					}
					nsites++
					dn := d.Node
					isV := func(e ast.Expr) bool { return c15LocalVar(fl, e) == v }
					isEOF := func(e ast.Expr) bool { return fl.Obj(e) == x.ioEOF }
					esc, n := fl.Escapes(core.Query{
						Start: func(n ast.Node) bool { return c15Within(n, dn) && !c15IsCompound(n) },
						Exit:  func(n ast.Node) bool { return n == ast.Node(st) },
						Events: []core.Event{
							{Node: func(n ast.Node) bool {
								for _, d2 := range defs {
									if d2.Node != dn && c15Within(n, d2.Node) && !c15IsCompound(n) {
										return true
									}
								}
								return false
							}},
							{Edge: func(cond ast.Expr, ci *core.CondInfo, taken bool) bool {
								if ci != nil && ci.Kind == "tagswitch" {
									return false
								}
								// v != io.EOF on this edge
								return eqTest(fl, cond, isV, isEOF, !taken)
							}},
						},
					})
					sites += n
					for _, e := range esc {
						bad = append(bad, fmt.Sprintf("%s: `%s` can store io.EOF obtained from `%s` (%s): %s", k.g.Pos(st.Pos()), core.Src(k.g.Fset, st), core.Src(k.g.Fset, d.Rhs), k.g.Pos(dn.Pos()), e.String()))
					}
				}
			}
		}
		claim := "the error of an io.Reader-shaped Read call becomes sticky only where it is known not to be io.EOF (end of stream is a result, not an error state: after it, Seek and Read must still work as on a bytes.Reader)"
		if len(bad) != 0 {
			c.Fail("S.rd.eof", f.Name(), claim, sites, strings.Join(bad, "\n"))
		} else if sites > 0 {
			c.Pass("S.rd.eof", f.Name(), claim, sites, k.g.Pos(f.Decl.Pos()))
		}
	}
	c.Floor("S.rd.eof", "stores of a Read call's error into Reader.err", nsites, 3)
}

func c15IsError(t types.Type) bool {
	return types.Identical(t, types.Universe.Lookup("error").Type())
}

// ownCall: call of a method of the same owner on the same receiver (directly,
// or through a local function value all of whose definitions are method
// expressions of the owner type / nil).
func (x *c15x) ownCall(cf c15StickyCfg, fl *core.Flow, call *ast.CallExpr) bool {
	info := fl.F.Info()
	isOwnMethod := func(fn *types.Func) bool {
		if fn == nil {
			return false
		}
		sig, _ := fn.Type().(*types.Signature)
		return sig != nil && sig.Recv() != nil && c15IsNamed(sig.Recv().Type(), cf.owner)
	}
	if fn := core.Callee(info, call); fn != nil {
		return isOwnMethod(fn) && c15IsRecv(fl, core.RecvOf(call))
	}
	// function value
	v := c15LocalVar(fl, call.Fun)
	if v == nil || len(call.Args) == 0 || !c15IsRecv(fl, call.Args[0]) {
		return false
	}
	defs := c15Defs(fl, v)
	if len(defs) == 0 {
		return false
	}
	for _, d := range defs {
		if d.Rhs == nil {
			return false
		}
		e := c15Strip(info, d.Rhs)
		if core.IsNilIdent(info, e) {
			continue
		}
		sel, ok := e.(*ast.SelectorExpr)
		if !ok {
			return false
		}
		fn, _ := info.Uses[sel.Sel].(*types.Func)
		if !isOwnMethod(fn) {
			return false
		}
	}
	return true
}

// stickyFunc checks every return of f; returns the number of returns examined.
func (x *c15x) stickyFunc(cf c15StickyCfg, f *core.Func, fl *core.Flow) int {
	c, k := x.c, x.k
	info := f.Info()
	anchor := f.Name()
	claim := "every error that leaves this method has been stored in " + cf.owner.Name() + ".err first (the field is documented as sticky: 'once a non-nil error occurs, all public methods will return that error')"
	var rets []*ast.ReturnStmt
	ast.Inspect(f.Decl.Body, func(n ast.Node) bool {
		switch r := n.(type) {
		case *ast.FuncLit:
			return false
		case *ast.ReturnStmt:
			rets = append(rets, r)
		}
		return true
	})
	isErrStore := func(v *types.Var) func(n ast.Node) bool {
		return func(n ast.Node) bool {
			as, ok := n.(*ast.AssignStmt)
			if !ok || as.Tok != token.ASSIGN || len(as.Lhs) != len(as.Rhs) {
				return false
			}
			for i, l := range as.Lhs {
				if c15RecvField(fl, l, cf.errField) && c15LocalVar(fl, as.Rhs[i]) == v {
					return true
				}
			}
			return false
		}
	}
	var bad []string
	sites := 0
	for _, r := range rets {
		if len(r.Results) == 0 {
			bad = append(bad, k.g.Pos(r.Pos())+": bare return (named results are not tracked)")
			continue
		}
		sites++
		last := ast.Unparen(r.Results[len(r.Results)-1])
		where := k.g.Pos(r.Pos()) + ": `" + core.Src(k.g.Fset, r) + "`"
		switch {
		case core.IsNilIdent(info, last):
			continue
		case c15RecvField(fl, last, cf.errField):
			continue // returns the sticky field itself
		}
		if call, ok := c15Strip(info, last).(*ast.CallExpr); ok {
			if x.ownCall(cf, fl, call) {
				continue // tail call of an own method: by induction over this rule
			}
			bad = append(bad, where+": returns the result of a foreign call directly; its error is not stored in "+cf.owner.Name()+".err")
			continue
		}
		if obj := fl.Obj(last); obj != nil && obj == x.ioEOF {
			if cf.eofOK[f.Decl.Name.Name] {
				continue
			}
			if cf.strict {
				bad = append(bad, where+": io.EOF returned unstored from a method that is not an end-of-stream reporter")
			}
			continue
		}
		v := c15LocalVar(fl, last)
		if v == nil {
			// A non-local error value returned directly (package-level error,
			// fmt.Errorf(…), composite).
			if cf.strict {
				bad = append(bad, where+": a non-nil error is returned without being stored in "+cf.owner.Name()+".err — the next call finds err == nil")
			}
			continue
		}
		// A local error variable: every definition that is not an own-method call
		// must be stored (or be known nil, or be overwritten) on every path to this return.
		defs := c15Defs(fl, v)
		if len(defs) == 0 {
			bad = append(bad, where+": returns "+v.Name()+" (a parameter or undefined local)")
			continue
		}
		for _, d := range defs {
			if d.Rhs == nil {
				bad = append(bad, where+": "+v.Name()+" is written in an unrecognised way at "+k.g.Pos(d.Node.Pos()))
				continue
			}
			if call, ok := c15Strip(info, d.Rhs).(*ast.CallExpr); ok && x.ownCall(cf, fl, call) {
				continue // own method: already sticky by induction
			}
			if core.IsNilIdent(info, d.Rhs) {
				continue
			}
			dn := d.Node
			isV := func(e ast.Expr) bool { return c15LocalVar(fl, e) == v }
			esc, n := fl.Escapes(core.Query{
				Start: func(n ast.Node) bool { return c15Within(n, dn) && !c15IsCompound(n) },
				Exit:  func(n ast.Node) bool { return n == ast.Node(r) },
				Events: []core.Event{
					{Node: isErrStore(v)},
					{Node: func(n ast.Node) bool { // redefinition kills this definition
						for _, d2 := range defs {
							if d2.Node != dn && c15Within(n, d2.Node) && !c15IsCompound(n) {
								return true
							}
						}
						return false
					}},
					{Edge: func(cond ast.Expr, ci *core.CondInfo, taken bool) bool {
						if ci != nil && ci.Kind == "tagswitch" {
							return false
						}
						// v is nil on this edge
						if !taken {
							for _, a := range flattenOr(cond) {
								if nilTest(fl, a, isV, false) {
									return true
								}
							}
						} else {
							for _, a := range flattenAnd(cond) {
								if nilTest(fl, a, isV, true) {
									return true
								}
							}
						}
						return false
					}},
					{Edge: func(cond ast.Expr, ci *core.CondInfo, taken bool) bool {
						// v is io.EOF on this edge, in a method that reports end of
						// stream: io.EOF is a result, not an error state (S.*.eof below
						// checks the converse: io.EOF is never made sticky).
						if !cf.eofOK[f.Decl.Name.Name] || (ci != nil && ci.Kind == "tagswitch") {
							return false
						}
						isEOF := func(e ast.Expr) bool { return fl.Obj(e) == x.ioEOF }
						return eqTest(fl, cond, isV, isEOF, taken)
					}},
				},
			})
			sites += n
			for _, e := range esc {
				bad = append(bad, fmt.Sprintf("%s: the error defined at %s (`%s`) reaches this return without `%s.err = %s`: %s",
					where, k.g.Pos(dn.Pos()), core.Src(k.g.Fset, d.Rhs), fl.Recv().Name(), v.Name(), e.String()))
			}
		}
	}
	if len(bad) == 0 {
		c.Pass(cf.rule, anchor, claim, sites, fmt.Sprintf("%s: %d return statements", k.g.Pos(f.Decl.Pos()), len(rets)))
	} else {
		c.Fail(cf.rule, anchor, claim, sites, strings.Join(bad, "\n"))
	}
	return len(rets)
}

func c15IsCompound(n ast.Node) bool {
	switch n.(type) {
	case *ast.IfStmt, *ast.ForStmt, *ast.RangeStmt, *ast.SwitchStmt, *ast.BlockStmt, *ast.TypeSwitchStmt, *ast.SelectStmt:
		return true
	}
	return false
}

// stickyEntry: exported methods consult the sticky state first, and
// initialize's own first branch returns it.
func (x *c15x) stickyEntry() {
	k, c := x.k, x.c
	type row struct{ recv, name string }
	rows := []row{
		{"ChunkReader", "DecompressedSize"}, {"ChunkReader", "SeekToChunkContaining"}, {"ChunkReader", "NextChunk"},
		{"Reader", "Read"}, {"Reader", "Seek"}, {"Reader", "SeekRange"},
	}
	n := 0
	for _, r := range rows {
		fl := k.flow("S.entry", c15Rac, r.recv, r.name)
		if fl == nil {
			continue
		}
		info := fl.F.Info()
		init := k.g.LookupMethod(c15Rac, r.recv, "initialize")
		if init == nil {
			c.Undecided("S.entry", fl.F.Name(), "initialize exists", "method not found")
			continue
		}
		isInit := func(call *ast.CallExpr) bool {
			return core.IsCallTo(info, call, init) && c15IsRecv(fl, core.RecvOf(call))
		}
		// Everything that is not the checked initialize call itself counts as "work".
		n++
		k.passChecked("S.entry", fl.F.Name(),
			"the exported method calls initialize() — whose first branch returns the sticky error — and stops on failure, before any other call, store or successful return",
			fl, core.Query{FuncEnd: true, Exit: func(m ast.Node) bool {
				if x.successReturn(fl)(m) {
					return true
				}
				switch s := m.(type) {
				case *ast.AssignStmt:
					if core.AnyCall(s, isInit) {
						return false
					}
					return s.Tok != token.DEFINE || core.AnyCall(s, func(*ast.CallExpr) bool { return true })
				case *ast.ExprStmt, *ast.IncDecStmt:
					return true
				}
				return false
			}}, isInit)
	}
	c.Floor("S.entry", "exported methods with an initialize() gate", n, 6)
	for _, recv := range []string{"ChunkReader", "Reader"} {
		fl := k.flow("S.gate", c15Rac, recv, "initialize")
		if fl == nil {
			continue
		}
		ef := x.errField(fl)
		k.mustPass("S.gate", fl.F.Name(),
			"initialize returns the sticky error before doing anything else: every path to another statement passes the false branch of `r.err != nil`",
			fl, core.Query{FuncEnd: true,
				Events: []core.Event{c15RejectGuard(func(a ast.Expr) bool {
					return nilTest(fl, a, func(e ast.Expr) bool { return c15RecvField(fl, e, ef) }, false)
				})},
				Exit: func(m ast.Node) bool {
					switch m.(type) {
					case *ast.AssignStmt, *ast.ExprStmt, *ast.IncDecStmt:
						return true
					case *ast.ReturnStmt:
						return x.successReturn(fl)(m)
					}
					return false
				}})
	}
}

// stickyDropped: (a) S.*.drop — inside `if v != nil`, where v holds the error
// of a foreign call, no return is reached without `r.err = v` (returning v
// itself is S.*'s business; `v == io.EOF` is not an error state);
// (b) S.*.errcheck — no error-returning call has its error result discarded.
func (x *c15x) stickyDropped(cf c15StickyCfg, f *core.Func, fl *core.Flow) (nGuarded, nCalls int) {
	c, k := x.c, x.k
	info := f.Info()
	// (b)
	var dropped []string
	ast.Inspect(f.Decl.Body, func(n ast.Node) bool {
		errIx := func(call *ast.CallExpr) int {
			tv, ok := info.Types[call]
			if !ok {
				return -1
			}
			switch t := tv.Type.(type) {
			case *types.Tuple:
				for i := 0; i < t.Len(); i++ {
					if c15IsError(t.At(i).Type()) {
						return i
					}
				}
			default:
				if t != nil && c15IsError(t) {
					return 0
				}
			}
			return -1
		}
		switch st := n.(type) {
		case *ast.ExprStmt:
			if call, ok := st.X.(*ast.CallExpr); ok && errIx(call) >= 0 {
				nCalls++
				dropped = append(dropped, k.g.Pos(st.Pos())+": `"+core.Src(k.g.Fset, st)+"` discards its error result")
			}
		case *ast.GoStmt, *ast.DeferStmt:
			var call *ast.CallExpr
			if g, ok := st.(*ast.GoStmt); ok {
				call = g.Call
			} else {
				call = st.(*ast.DeferStmt).Call
			}
			if errIx(call) >= 0 {
				nCalls++
				dropped = append(dropped, k.g.Pos(st.Pos())+": `"+core.Src(k.g.Fset, st)+"` discards its error result")
			}
		case *ast.AssignStmt:
			if len(st.Rhs) == 1 {
				if call, ok := ast.Unparen(st.Rhs[0]).(*ast.CallExpr); ok {
					if ix := errIx(call); ix >= 0 {
						nCalls++
						if ix < len(st.Lhs) && len(st.Lhs) > 1 || len(st.Lhs) == 1 {
							l := st.Lhs[0]
							if len(st.Lhs) > 1 {
								l = st.Lhs[ix]
							}
							if id, ok := l.(*ast.Ident); ok && id.Name == "_" {
								dropped = append(dropped, k.g.Pos(st.Pos())+": `"+core.Src(k.g.Fset, st)+"` assigns the error result to _")
							}
						}
					}
				}
			}
		case *ast.ReturnStmt:
			for _, r := range st.Results {
				if call, ok := ast.Unparen(r).(*ast.CallExpr); ok && errIx(call) >= 0 {
					nCalls++
				}
			}
		}
		return true
	})
	claimB := "no call that returns an error has that result discarded (expression statement, go/defer, or assignment to _)"
	if len(dropped) == 0 {
		if nCalls > 0 {
			c.Pass(cf.rule+".errcheck", f.Name(), claimB, nCalls, k.g.Pos(f.Decl.Pos()))
		}
	} else {
		c.Fail(cf.rule+".errcheck", f.Name(), claimB, nCalls, strings.Join(dropped, "\n"))
	}
	// (a)
	var conds []ast.Expr
	var vars []*types.Var
	ast.Inspect(f.Decl.Body, func(n ast.Node) bool {
		ifs, ok := n.(*ast.IfStmt)
		if !ok {
			return true
		}
		for _, a := range flattenAnd(ifs.Cond) {
			be, ok := ast.Unparen(a).(*ast.BinaryExpr)
			if !ok || be.Op != token.NEQ {
				continue
			}
			var v *types.Var
			if core.IsNilIdent(info, be.Y) {
				v = c15LocalVar(fl, be.X)
			} else if core.IsNilIdent(info, be.X) {
				v = c15LocalVar(fl, be.Y)
			}
			if v == nil || !c15IsError(v.Type()) {
				continue
			}
			foreign := false
			for _, d := range c15Defs(fl, v) {
				if d.Rhs == nil {
					continue
				}
				if call, ok := c15Strip(info, d.Rhs).(*ast.CallExpr); ok && !x.ownCall(cf, fl, call) {
					foreign = true
				}
			}
			if foreign {
				conds = append(conds, ifs.Cond)
				vars = append(vars, v)
			}
		}
		return true
	})
	var bad []string
	sites := 0
	for i, cond := range conds {
		v, cnd := vars[i], cond
		nGuarded++
		isV := func(e ast.Expr) bool { return c15LocalVar(fl, e) == v }
		esc, n := fl.Escapes(core.Query{
			Start: func(n ast.Node) bool { return n == ast.Node(cnd) },
			Exempt: func(c2 ast.Expr, ci *core.CondInfo, taken bool) bool {
				return c2 == cnd && !taken
			},
			Exit: func(n ast.Node) bool {
				r, ok := n.(*ast.ReturnStmt)
				if !ok {
					return false
				}
				if len(r.Results) > 0 && isV(r.Results[len(r.Results)-1]) {
					return false // returning v itself: checked by the return rule
				}
				return true
			},
			Events: []core.Event{
				{Node: func(n ast.Node) bool {
					as, ok := n.(*ast.AssignStmt)
					if !ok || as.Tok != token.ASSIGN || len(as.Lhs) != len(as.Rhs) {
						return false
					}
					for j, l := range as.Lhs {
						if c15RecvField(fl, l, cf.errField) && isV(as.Rhs[j]) {
							return true
						}
					}
					return false
				}},
				{Edge: func(c2 ast.Expr, ci *core.CondInfo, taken bool) bool {
					// v == io.EOF: end of stream, not an error state
					isEOF := func(e ast.Expr) bool { return fl.Obj(e) == x.ioEOF }
					return (taken && eqTest(fl, c2, isV, isEOF, true)) || (!taken && eqTest(fl, c2, isV, isEOF, false))
				}},
			},
		})
		sites += n
		for _, e := range esc {
			bad = append(bad, fmt.Sprintf("the non-nil error %s tested at %s is neither stored in %s.err nor returned: %s", v.Name(), k.g.Pos(cnd.Pos()), fl.Recv().Name(), e.String()))
		}
	}
	claimA := "once a foreign call's error is known to be non-nil, every return is preceded by `" + cf.owner.Name() + ".err = err` (or returns err itself; err == io.EOF excepted)"
	if len(conds) > 0 {
		if len(bad) == 0 {
			c.Pass(cf.rule+".drop", f.Name(), claimA, sites, fmt.Sprintf("%d non-nil tests", len(conds)))
		} else {
			c.Fail(cf.rule+".drop", f.Name(), claimA, sites, strings.Join(bad, "\n"))
		}
	}
	return
}
