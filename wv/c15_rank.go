package main

// C15, family R: every loop reachable from the ChunkReader entry points has a
// structural termination argument, and the index-descent loop carries the RAC
// specification's anti-loop ranking guard.

import (
	"fmt"
	"go/ast"
	"go/token"
	"go/types"
	"sort"
	"strings"

	"golang.org/x/tools/go/cfg"

	"wv/core"
)

// c15Descent is the descent loop of resolveSeekPosition and its node-loading callee.
type c15Descent struct {
	D    *core.Flow    // resolveSeekPosition
	loop *ast.ForStmt  // the `for {}` descent loop
	call *ast.CallExpr // the call in the loop that loads a child node
	L    *core.Flow    // its callee (loadAndValidate)
	load *ast.CallExpr // the ChunkReader.load call inside L
	root *ast.CallExpr // the exempt root reload that precedes the loop
}

var c15DescentCache = map[*c15x]*c15Descent{}
var c15DescentDone = map[*c15x]bool{}

// loadsNode: function f (transitively, within lib/rac) calls ChunkReader.load.
func (x *c15x) loadsNode(f *types.Func, seen map[*types.Func]bool) bool {
	if f == x.mLoad {
		return true
	}
	cf := x.byObj[f]
	if cf == nil || seen[f] {
		return false
	}
	seen[f] = true
	found := false
	ast.Inspect(cf.Decl.Body, func(n ast.Node) bool {
		if call, ok := n.(*ast.CallExpr); ok && !found {
			if g := core.Callee(cf.Info(), call); g != nil && x.loadsNode(g, seen) {
				found = true
			}
		}
		return !found
	})
	return found
}

func (x *c15x) descent() *c15Descent {
	if c15DescentDone[x] {
		return c15DescentCache[x]
	}
	c15DescentDone[x] = true
	c, k := x.c, x.k
	// The descent loop is the condition-less `for` whose body loads a node, in the
	// function that performs the exempt root reload.
	var ds *c15Descent
	n := 0
	rootReload := map[*core.Func]bool{}
	for _, s := range x.loadSites() {
		if s.exempt {
			rootReload[s.f] = true
		}
	}
	for _, f := range x.funcs {
		if !rootReload[f] {
			continue
		}
		info := f.Info()
		ast.Inspect(f.Decl.Body, func(m ast.Node) bool {
			fs, ok := m.(*ast.ForStmt)
			if !ok || fs.Cond != nil {
				return true
			}
			var calls []*ast.CallExpr
			ast.Inspect(fs.Body, func(b ast.Node) bool {
				if call, ok := b.(*ast.CallExpr); ok {
					if g := core.Callee(info, call); g != nil && x.loadsNode(g, map[*types.Func]bool{}) {
						calls = append(calls, call)
					}
				}
				return true
			})
			if len(calls) == 0 {
				return true
			}
			n++
			if len(calls) != 1 {
				c.Undecided("R.rank", c15Anchor(f, "for{} descent"), "the descent loop loads a child node at exactly one call site", fmt.Sprintf("%s: %d node-loading calls in the loop", k.g.Pos(fs.Pos()), len(calls)))
				return true
			}
			fl := x.flow(f)
			g := core.Callee(info, calls[0])
			if x.byObj[g] == nil || g == x.mLoad {
				c.Undecided("R.rank", c15Anchor(f, "for{} descent"), "the node-loading callee of the descent loop is a validating wrapper of load in lib/rac", k.g.Pos(calls[0].Pos())+": "+core.Src(k.g.Fset, calls[0]))
				return true
			}
			ds = &c15Descent{D: fl, loop: fs, call: calls[0], L: x.flow(x.byObj[g])}
			return true
		})
	}
	if n != 1 || ds == nil {
		c.Undecided("R.rank", c15Rac, "exactly one condition-less loop that loads index nodes (the descent in resolveSeekPosition) is found", fmt.Sprintf("found %d", n))
		return nil
	}
	// load inside L
	for _, s := range x.loadSites() {
		if s.f == ds.L.F && !s.exempt {
			ds.load = s.call
		}
		if s.f == ds.D.F && s.exempt {
			ds.root = s.call
		}
	}
	if ds.load == nil || ds.root == nil {
		c.Undecided("R.rank", c15Anchor(ds.D.F, "for{} descent"), "the descent starts from the (exempt) root reload and its callee calls load directly", "load call in callee or root reload not found")
		return nil
	}
	c15DescentCache[x] = ds
	return ds
}

// ---------------------------------------------------------------------------
// R.loops — inventory
// ---------------------------------------------------------------------------

func c15Rank(x *c15x) {
	c, k := x.c, x.k
	// Reachable set from the three exported ChunkReader entry points.
	roots := []string{"NextChunk", "SeekToChunkContaining", "DecompressedSize"}
	reach := map[*types.Func]bool{}
	var order []*core.Func
	edges := map[*types.Func][]*types.Func{}
	var visit func(f *types.Func)
	visit = func(f *types.Func) {
		cf := x.byObj[f]
		if cf == nil || reach[f] {
			return
		}
		reach[f] = true
		order = append(order, cf)
		ast.Inspect(cf.Decl.Body, func(n ast.Node) bool {
			switch e := n.(type) {
			case *ast.CallExpr:
				if g := core.Callee(cf.Info(), e); g != nil && x.byObj[g] != nil {
					edges[f] = append(edges[f], g)
					visit(g)
				}
			case *ast.SelectorExpr:
				// method values / expressions (e.g. (*T).m) also reach their target
				if g, ok := cf.Info().Uses[e.Sel].(*types.Func); ok && x.byObj[g] != nil {
					edges[f] = append(edges[f], g)
					visit(g)
				}
			}
			return true
		})
	}
	for _, r := range roots {
		f := k.fn("R.loops", c15Rac, "ChunkReader", r)
		if f == nil {
			return
		}
		visit(f)
	}
	c.Analysed("c15_reachable_functions", len(order))

	// No recursion among the reachable functions (DFS colouring).
	colour := map[*types.Func]int{}
	var cyc []string
	var dfs func(f *types.Func, stack []string)
	dfs = func(f *types.Func, stack []string) {
		colour[f] = 1
		for _, g := range edges[f] {
			if colour[g] == 1 && cyc == nil {
				cyc = append(append([]string{}, stack...), core.FuncFullName(f), core.FuncFullName(g))
			} else if colour[g] == 0 {
				dfs(g, append(stack, core.FuncFullName(f)))
			}
		}
		colour[f] = 2
	}
	for _, cf := range order {
		if colour[cf.Obj] == 0 {
			dfs(cf.Obj, nil)
		}
	}
	c.Check(cyc == nil, "R.norecursion", c15Rac+"[reachable from NextChunk/SeekToChunkContaining/DecompressedSize]",
		"the call tree below the ChunkReader entry points is recursion-free, so termination reduces to its loops", len(order),
		"call cycle: "+strings.Join(cyc, " -> "))
	c.Floor("R.norecursion", "lib/rac functions reachable from the ChunkReader entry points", len(order), 30)

	ds := x.descent()
	counts := map[string]int{}
	for _, cf := range order {
		fl := x.flow(cf)
		var loops []ast.Stmt
		ast.Inspect(cf.Decl.Body, func(n ast.Node) bool {
			switch s := n.(type) {
			case *ast.ForStmt:
				loops = append(loops, s)
			case *ast.RangeStmt:
				loops = append(loops, s)
			}
			return true
		})
		for i, lp := range loops {
			anchor := c15Anchor(cf, fmt.Sprintf("loop #%d", i+1))
			pos := k.g.Pos(lp.Pos())
			switch s := lp.(type) {
			case *ast.RangeStmt:
				if why := c15RangeBounded(fl, s); why == "" {
					counts["range"]++
					c.Pass("R.loops.range", anchor, "a range loop over a slice/array/string/integer that the body does not grow is bounded by its operand", 1, pos)
				} else {
					c.Fail("R.loops.unclassified", anchor, "every loop reachable from the ChunkReader entry points has a recognised termination argument", 1, pos+": range loop not recognised: "+why)
				}
			case *ast.ForStmt:
				if ds != nil && s == ds.loop {
					counts["descent"]++
					continue // R.rank below
				}
				if s.Cond == nil {
					if cf.Obj.Name() == "NextChunk" && c15IsNamedRecv(fl, x.crObj) && c15Outermost(cf.Decl.Body, s) {
						counts["assumed"]++
						c.Info("R.loops.assumed", anchor, pos+": ChunkReader.NextChunk's outer `for {}` is ASSUMED to terminate: each iteration either returns, or resolves seekPosition to a leaf and walks its chunks; progress (seekPosition strictly advances past a non-empty DRange, or reaches decompressedSize) is a value-level argument over validated index contents and is not decided here")
						continue
					}
					c.Fail("R.loops.unclassified", anchor, "every loop reachable from the ChunkReader entry points has a recognised termination argument", 1, pos+": condition-less `for` loop that is neither the index descent nor NextChunk's outer loop")
					continue
				}
				if kind, why := x.classifyFor(fl, s); kind != "" {
					counts[kind]++
					c.Pass("R.loops."+kind, anchor, c15LoopClaim[kind], 1, pos+": "+why)
				} else {
					c.Fail("R.loops.unclassified", anchor, "every loop reachable from the ChunkReader entry points has a recognised termination argument (counted with invariant bound, or bisection)", 1, pos+": "+why)
				}
			}
		}
	}
	c.Analysed("c15_loops", counts)
	c.Floor("R.loops.counted", "counted loops with a loop-invariant bound (codec×1, valid×3, NextChunk inner×1)", counts["counted"], 5)
	c.Floor("R.loops.bisect", "bisection loops (findChunkContaining)", counts["bisect"], 1)
	c.Floor("R.loops.descent", "index-descent loops (resolveSeekPosition)", counts["descent"], 1)
	c.Floor("R.loops.assumed", "loops listed as assumed (NextChunk outer)", counts["assumed"], 1)
	if counts["assumed"] > 1 {
		c.Fail("R.loops.unclassified", c15Rac, "only NextChunk's outer loop may be assumed", counts["assumed"], "more than one assumed loop")
	}

	// The concrete ReadSeeker that initialize wraps an io.ReaderAt in is loop-free.
	if rp := k.g.Pkg("lib/readerat"); rp == nil {
		c.Undecided("R.loops.readerat", "lib/readerat", "lib/readerat (readerat.ReadSeeker, constructed in ChunkReader.initialize) is loaded", "package not among the dependencies")
	} else {
		nf, nl := 0, 0
		for _, f := range k.g.AllFuncs(rp) {
			nf++
			ast.Inspect(f.Decl.Body, func(n ast.Node) bool {
				switch n.(type) {
				case *ast.ForStmt, *ast.RangeStmt:
					nl++
				}
				return true
			})
		}
		c.Check(nl == 0 && nf > 0, "R.loops.readerat", "lib/readerat", "readerat.ReadSeeker's Read/Seek (the wrapper ChunkReader.initialize puts around an io.ReaderAt) contain no loops", nf, fmt.Sprintf("%d loops in %d functions", nl, nf))
	}

	if ds != nil {
		x.rankGuard(ds)
	}
}

var c15LoopClaim = map[string]string{
	"counted": "counted loop: the counter strictly increases (or, counting down, decreases) on every iteration, nothing else writes it, and the bound is loop-invariant — at most bound-many iterations (arity <= 255)",
	"bisect":  "bisection: `lo < hi` with every iteration executing lo = mid+1 or hi = mid where lo <= mid < hi — hi-lo strictly decreases",
}

func c15IsNamedRecv(fl *core.Flow, obj types.Object) bool {
	r := fl.Recv()
	return r != nil && c15IsNamed(r.Type(), obj)
}

// c15Outermost: loop s is not nested in another loop of body.
func c15Outermost(body *ast.BlockStmt, s ast.Stmt) bool {
	path := core.PathTo(body, s)
	for _, p := range path[:len(path)-1] {
		switch p.(type) {
		case *ast.ForStmt, *ast.RangeStmt:
			return false
		}
	}
	return true
}

func c15RangeBounded(fl *core.Flow, s *ast.RangeStmt) string {
	info := fl.F.Info()
	tv, ok := info.Types[s.X]
	if !ok {
		return "operand type unknown"
	}
	switch t := tv.Type.Underlying().(type) {
	case *types.Slice, *types.Array, *types.Basic, *types.Map:
		_ = t
	case *types.Pointer:
		if _, ok := t.Elem().Underlying().(*types.Array); !ok {
			return "pointer operand"
		}
	default:
		return "operand is a " + tv.Type.String() + " (channel/function ranges are unbounded)"
	}
	return ""
}

// exprKey: a canonical key for a counter expression: a local variable, or a
// chain of field selections rooted at a local (r.nextChunk).
func c15ExprKey(fl *core.Flow, e ast.Expr) (string, bool) {
	info := fl.F.Info()
	switch v := ast.Unparen(e).(type) {
	case *ast.Ident:
		if obj, ok := fl.Obj(v).(*types.Var); ok && !obj.IsField() {
			return fmt.Sprintf("v%p", obj), true
		}
	case *ast.SelectorExpr:
		if f, ok := info.Uses[v.Sel].(*types.Var); ok && f.IsField() {
			if base, ok := c15ExprKey(fl, v.X); ok {
				return base + fmt.Sprintf(".f%p", f), true
			}
		}
	}
	return "", false
}

// classifyFor recognises counted and bisection loops.
func (x *c15x) classifyFor(fl *core.Flow, s *ast.ForStmt) (kind, why string) {
	info := fl.F.Info()
	a, b, op, ok := c15Cmp(s.Cond)
	if !ok {
		return "", "loop condition is not a comparison"
	}
	switch op {
	case token.GTR, token.GEQ:
		a, b, op = b, a, mirror(op)
	}
	if op != token.LSS && op != token.LEQ {
		return "", "loop condition is not `<` / `<=`"
	}
	// --- counting down: `N < X` / `N <= X` with X a local decremented by the post statement.
	if cv := c15LocalVar(fl, b); cv != nil && s.Post != nil && c15WrittenIn(fl, s.Post, cv) {
		isDec := func(n ast.Node) bool {
			switch st := n.(type) {
			case *ast.IncDecStmt:
				return st.Tok == token.DEC && c15LocalVar(fl, st.X) == cv
			case *ast.AssignStmt:
				if st.Tok == token.SUB_ASSIGN && len(st.Lhs) == 1 && c15LocalVar(fl, st.Lhs[0]) == cv {
					v, ok := core.ConstInt64(info, st.Rhs[0])
					return ok && v > 0
				}
			}
			return false
		}
		if !isDec(s.Post) {
			return "", "the right side of the loop condition is written by the post statement, but not as a decrement"
		}
		if c15WrittenIn(fl, s.Body, cv) {
			return "", "the down-counter is written inside the loop body"
		}
		if _, isC := core.ConstInt64(info, a); !isC {
			bv := c15LocalVar(fl, a)
			if bv == nil || c15WrittenIn(fl, s.Body, bv) || c15WrittenIn(fl, s.Post, bv) {
				return "", "the lower bound of the down-counting loop is not loop-invariant"
			}
		}
		bt, ok := cv.Type().Underlying().(*types.Basic)
		if !ok || bt.Info()&types.IsInteger == 0 {
			return "", "down-counter is not an integer"
		}
		if bt.Info()&types.IsUnsigned != 0 && op == token.LEQ {
			return "", "an unsigned down-counter compared `>=` wraps around below zero"
		}
		return "counted", "post statement decrements the counter; lower bound invariant"
	}
	ctrKey, ok := c15ExprKey(fl, a)
	if !ok {
		return "", "the left side of the loop condition is not a variable or field"
	}
	// --- bisection: lo < hi, both plain locals, both written in the body.
	if op == token.LSS && s.Init == nil && s.Post == nil {
		lo, hi := c15LocalVar(fl, a), c15LocalVar(fl, b)
		if lo != nil && hi != nil && c15WrittenIn(fl, s.Body, hi) {
			if why := x.bisection(fl, s, lo, hi); why == "" {
				return "bisect", fmt.Sprintf("for %s < %s with %s = mid+1 | %s = mid on every path", lo.Name(), hi.Name(), lo.Name(), hi.Name())
			} else {
				return "", "looks like a bisection but: " + why
			}
		}
	}
	// --- counted.
	// bound: constant, or a local that the loop (body and post) never writes.
	boundConst, boundIsConst := core.ConstInt64(info, b)
	if !boundIsConst {
		// the bound is an arithmetic expression over constants and locals that the loop never writes
		why := ""
		ast.Inspect(b, func(n ast.Node) bool {
			if why != "" {
				return false
			}
			switch e := n.(type) {
			case *ast.Ident:
				if tv, ok := info.Types[e]; ok && (tv.Value != nil || tv.IsType()) {
					return true
				}
				bv := c15LocalVar(fl, e)
				if bv == nil {
					why = "the loop bound mentions `" + e.Name + "`, which is neither a constant nor a local variable (it may change between iterations)"
				} else if c15WrittenIn(fl, s.Body, bv) || (s.Post != nil && c15WrittenIn(fl, s.Post, bv)) {
					why = "the loop bound mentions " + bv.Name() + ", which is written inside the loop"
				}
			case *ast.BasicLit, *ast.BinaryExpr, *ast.ParenExpr, *ast.UnaryExpr:
			case *ast.CallExpr:
				if tv, ok := info.Types[e.Fun]; !ok || !tv.IsType() {
					why = "the loop bound contains a call: `" + core.Src(fl.F.Prog.Fset, b) + "`"
				}
			default:
				if _, isExpr := n.(ast.Expr); isExpr {
					why = "the loop bound `" + core.Src(fl.F.Prog.Fset, b) + "` is not an arithmetic expression over constants and locals (it may change between iterations)"
				}
			}
			return true
		})
		if why != "" {
			return "", why
		}
	}
	// counter type: wrap-around.
	if tv, ok := info.Types[a]; ok {
		if bt, ok := tv.Type.Underlying().(*types.Basic); ok {
			max := int64(-1)
			switch bt.Kind() {
			case types.Uint8:
				max = 0xFF
			case types.Int8:
				max = 0x7F
			case types.Uint16:
				max = 0xFFFF
			case types.Int16:
				max = 0x7FFF
			}
			if max >= 0 {
				if !boundIsConst {
					if op == token.LEQ {
						return "", "a narrow counter compared `<=` with a variable bound may wrap around"
					}
				} else if (op == token.LEQ && boundConst >= max) || (op == token.LSS && boundConst > max) {
					return "", "the constant bound is not below the counter type's maximum: the counter wraps around"
				}
			}
		} else {
			return "", "counter is not of a basic integer type"
		}
	}
	isCtr := func(e ast.Expr) bool {
		kk, ok := c15ExprKey(fl, e)
		return ok && kk == ctrKey
	}
	isInc := func(n ast.Node) bool {
		switch st := n.(type) {
		case *ast.IncDecStmt:
			return st.Tok == token.INC && isCtr(st.X)
		case *ast.AssignStmt:
			if st.Tok == token.ADD_ASSIGN && len(st.Lhs) == 1 && isCtr(st.Lhs[0]) {
				v, ok := core.ConstInt64(info, st.Rhs[0])
				return ok && v > 0
			}
		}
		return false
	}
	// Other writes of the counter inside the loop.
	writes, incs := 0, 0
	var bad string
	scan := func(root ast.Node) {
		ast.Inspect(root, func(n ast.Node) bool {
			switch st := n.(type) {
			case *ast.IncDecStmt:
				if isCtr(st.X) {
					writes++
					if isInc(st) {
						incs++
					}
				}
			case *ast.AssignStmt:
				for _, l := range st.Lhs {
					if isCtr(l) {
						writes++
						if isInc(st) {
							incs++
						}
					}
				}
			case *ast.UnaryExpr:
				if st.Op == token.AND && isCtr(st.X) {
					bad = "the counter's address is taken"
				}
			case *ast.CallExpr:
				// A field counter can be written by a callee that receives its owner.
				if sel, ok := ast.Unparen(a).(*ast.SelectorExpr); ok {
					owner := ast.Unparen(sel.X)
					same := func(e ast.Expr) bool {
						k1, ok1 := c15ExprKey(fl, e)
						k2, ok2 := c15ExprKey(fl, owner)
						return ok1 && ok2 && k1 == k2
					}
					if r := core.RecvOf(st); r != nil && same(r) {
						bad = "a method is called on the counter's owner inside the loop: " + core.Src(fl.F.Prog.Fset, st)
					}
					for _, arg := range st.Args {
						if same(arg) {
							bad = "the counter's owner is passed to a call inside the loop: " + core.Src(fl.F.Prog.Fset, st)
						}
					}
				}
			case *ast.FuncLit:
				bad = "function literal inside the loop"
			}
			return true
		})
	}
	scan(s.Body)
	if s.Post != nil {
		scan(s.Post)
	}
	if bad != "" {
		return "", bad
	}
	if writes != incs {
		return "", "the counter is written by something other than an increment inside the loop"
	}
	if s.Post != nil && isInc(s.Post) {
		return "counted", "post statement increments the counter; bound invariant"
	}
	// No post: every path through the body to the back edge increments.
	esc, sites := fl.Escapes(core.Query{
		Region:  core.RegionOf(s.Body),
		FallOut: true,
		Events: []core.Event{{Node: func(n ast.Node) bool {
			if isInc(n) {
				return true
			}
			if br := fl.Branch(n); br != nil && br.Tok == token.BREAK {
				return true // leaving the loop is fine
			}
			return false
		}}},
	})
	if sites == 0 {
		return "", "empty loop body: no progress"
	}
	if len(esc) > 0 {
		return "", "a path through the loop body reaches the next iteration without incrementing the counter: " + esc[0].String()
	}
	return "counted", "every path through the body increments the counter; bound invariant"
}

func c15WrittenIn(fl *core.Flow, root ast.Node, v *types.Var) bool {
	for _, d := range c15Defs(fl, v) {
		if d.Node.Pos() >= root.Pos() && d.Node.End() <= root.End() {
			return true
		}
	}
	return false
}

// bisection: body writes lo only as mid+c (c>=1) and hi only as mid, mid is
// the midpoint, and every path through the body writes one of them.
func (x *c15x) bisection(fl *core.Flow, s *ast.ForStmt, lo, hi *types.Var) string {
	info := fl.F.Info()
	isV := func(v *types.Var) core.ExprPred {
		return func(e ast.Expr) bool { return c15LocalVar(fl, e) == v }
	}
	isMid := func(e ast.Expr) bool {
		m := c15LocalVar(fl, e)
		if m == nil {
			return false
		}
		defs := c15Defs(fl, m)
		if len(defs) != 1 || defs[0].Rhs == nil || !(defs[0].Node.Pos() >= s.Body.Pos() && defs[0].Node.End() <= s.Body.End()) {
			return false
		}
		r := c15Strip(info, defs[0].Rhs)
		be, ok := r.(*ast.BinaryExpr)
		if !ok {
			return false
		}
		one := c15ConstPred(info, func(v int64) bool { return v == 1 })
		two := c15ConstPred(info, func(v int64) bool { return v == 2 })
		// (lo+hi)>>1 | (lo+hi)/2
		if (be.Op == token.SHR && one(be.Y)) || (be.Op == token.QUO && two(be.Y)) {
			if c15Add(info, be.X, isV(lo), isV(hi)) {
				return true
			}
		}
		// lo + (hi-lo)/2 | lo + (hi-lo)>>1
		if be.Op == token.ADD {
			half := func(e ast.Expr) bool {
				h, ok := c15Strip(info, e).(*ast.BinaryExpr)
				return ok && ((h.Op == token.SHR && one(h.Y)) || (h.Op == token.QUO && two(h.Y))) && c15Sub(info, h.X, isV(hi), isV(lo))
			}
			return (isV(lo)(be.X) && half(be.Y)) || (isV(lo)(be.Y) && half(be.X))
		}
		return false
	}
	okWrite := func(n ast.Node) bool {
		as, ok := n.(*ast.AssignStmt)
		if !ok || as.Tok != token.ASSIGN || len(as.Lhs) != 1 || len(as.Rhs) != 1 {
			return false
		}
		if isV(hi)(as.Lhs[0]) {
			return isMid(as.Rhs[0])
		}
		if isV(lo)(as.Lhs[0]) {
			return c15Add(info, as.Rhs[0], isMid, c15ConstPred(info, func(v int64) bool { return v >= 1 }))
		}
		return false
	}
	for _, v := range []*types.Var{lo, hi} {
		for _, d := range c15Defs(fl, v) {
			if d.Node.Pos() >= s.Body.Pos() && d.Node.End() <= s.Body.End() && !okWrite(d.Node) {
				return fmt.Sprintf("%s is written as `%s`, which is not lo = mid+c / hi = mid", v.Name(), core.Src(fl.F.Prog.Fset, d.Node))
			}
		}
	}
	esc, sites := fl.Escapes(core.Query{
		Region:  core.RegionOf(s.Body),
		FallOut: true,
		Events: []core.Event{{Node: func(n ast.Node) bool {
			if okWrite(n) {
				return true
			}
			if br := fl.Branch(n); br != nil && br.Tok == token.BREAK {
				return true
			}
			return false
		}}},
	})
	if sites == 0 {
		return "empty body"
	}
	if len(esc) > 0 {
		return "a path through the body narrows neither bound: " + esc[0].String()
	}
	return ""
}

// ---------------------------------------------------------------------------
// R.rank — the anti-loop rule of the RAC specification
// ---------------------------------------------------------------------------

// c15Ord3 evaluates a boolean condition over comparison atoms between
// (child_i, parent_i) pairs, given sign(child_i - parent_i) in rel[i].
// Returns (value, known).
func c15Ord3(e ast.Expr, child, parent []core.ExprPred, rel []int) (bool, bool) {
	e = ast.Unparen(e)
	switch v := e.(type) {
	case *ast.UnaryExpr:
		if v.Op == token.NOT {
			b, ok := c15Ord3(v.X, child, parent, rel)
			return !b, ok
		}
	case *ast.BinaryExpr:
		switch v.Op {
		case token.LAND:
			l, lok := c15Ord3(v.X, child, parent, rel)
			r, rok := c15Ord3(v.Y, child, parent, rel)
			if (lok && !l) || (rok && !r) {
				return false, true
			}
			return true, lok && rok
		case token.LOR:
			l, lok := c15Ord3(v.X, child, parent, rel)
			r, rok := c15Ord3(v.Y, child, parent, rel)
			if (lok && l) || (rok && r) {
				return true, true
			}
			return false, lok && rok
		case token.LSS, token.LEQ, token.GTR, token.GEQ, token.EQL, token.NEQ:
			for i := range child {
				if child[i] == nil || parent[i] == nil {
					continue
				}
				sign, ok := 0, false
				if child[i](v.X) && parent[i](v.Y) {
					sign, ok = rel[i], true
				} else if parent[i](v.X) && child[i](v.Y) {
					sign, ok = -rel[i], true
				}
				if ok {
					val, _ := relEval(v.Op, int64(sign), 0)
					return val, true
				}
			}
		}
	}
	return false, false
}

func (x *c15x) rankGuard(ds *c15Descent) {
	c, k := x.c, x.k
	D, L := ds.D, ds.L
	dinfo := D.F.Info()
	anchor := c15Anchor(D.F, "for{} descent") + "->" + L.F.Decl.Name.Name
	claim := "RAC spec, 'Search Within a Branch Node': to rule out infinite loops a child branch node is accepted only if its Branch COffset is less than its parent's or its DPtrMax is less than its parent's. Required: on every path to a success return of " + L.F.Decl.Name.Name + " (the callee that loads the child) there is a guard over (child offset vs parent offset, child DPtrMax vs parent DPtrMax) — parent values flowing from the descent loop's call site — that cannot be passed when neither strictly decreases"
	loopPos := k.g.Pos(ds.loop.Pos())

	inLoopBefore := func(n ast.Node) bool {
		return n.Pos() >= ds.loop.Body.Pos() && n.End() <= ds.call.Pos()
	}
	inLoopAfter := func(n ast.Node) bool {
		return n.Pos() >= ds.call.End() && n.End() <= ds.loop.Body.End()
	}
	// chase per-iteration copies: `p := v` defined once, inside the loop, before the call.
	chase := func(e ast.Expr) (ast.Expr, *types.Var) {
		for i := 0; i < 4; i++ {
			v := c15LocalVar(D, e)
			if v == nil {
				return e, nil
			}
			defs := c15Defs(D, v)
			if len(defs) == 1 && defs[0].Rhs != nil && inLoopBefore(defs[0].Node) {
				e = defs[0].Rhs
				continue
			}
			return e, v
		}
		return e, nil
	}

	// (1) child offset parameter of L: the variable L hands to load.
	var pOff, pPOff, pPD types.Object
	if v := c15LocalVar(L, ds.load.Args[0]); v != nil && isParamOf(L, ds.load.Args[0]) {
		pOff = v
	}
	var offIx = -1
	for i := range ds.call.Args {
		if pOff != nil && L.Param(i) == pOff {
			offIx = i
		}
	}
	var problems []string
	if offIx < 0 {
		problems = append(problems, "the offset given to load in "+L.F.Name()+" is not one of its parameters")
	}
	// (2) parent offset parameter: argument is a variable tracking "the offset the
	// current node was loaded from": initialised (outside the loop) from
	// r.rootNodeCOffset — the offset of the exempt root reload — and, after each
	// successful load, set to the child offset argument.
	var childOffVar *types.Var
	if offIx >= 0 {
		_, childOffVar = chase(ds.call.Args[offIx])
		if cv := c15LocalVar(D, ds.call.Args[offIx]); cv != nil {
			childOffVar = cv
		}
	}
	var track *types.Var
	var trackUpdate ast.Node
	for i, a := range ds.call.Args {
		if i == offIx {
			continue
		}
		_, v := chase(a)
		if v == nil {
			continue
		}
		defs := c15Defs(D, v)
		var initOK, updOK bool
		var upd ast.Node
		other := false
		for _, d := range defs {
			switch {
			case d.Rhs != nil && d.Node.End() <= ds.loop.Pos() && c15RecvField(D, c15Strip(dinfo, d.Rhs), x.fRootOff):
				initOK = true
			case d.Rhs != nil && inLoopAfter(d.Node) && childOffVar != nil && c15LocalVar(D, d.Rhs) == childOffVar:
				updOK = true
				upd = d.Node
			default:
				other = true
			}
		}
		if initOK && updOK && !other {
			if track != nil {
				problems = append(problems, "more than one argument tracks the current node's offset")
			}
			track, trackUpdate, pPOff = v, upd, L.Param(i)
		}
	}
	if pPOff == nil {
		problems = append(problems, fmt.Sprintf("no argument of `%s` (%s) is the parent's Branch COffset, i.e. a variable initialised from r.rootNodeCOffset before the loop and set to the child offset after each successful load", core.Src(k.g.Fset, ds.call.Fun), k.g.Pos(ds.call.Pos())))
	}
	// (3) parent DPtrMax parameter: argument denotes currNode.dPtrMax() evaluated
	// in the loop before the call (i.e. on the parent).
	for i, a := range ds.call.Args {
		e, _ := chase(a)
		if x.accessor(D, "dPtrMax")(e) && (inLoopBefore(e) || (e.Pos() >= ds.call.Lparen && e.End() <= ds.call.Rparen)) {
			if pPD != nil {
				problems = append(problems, "more than one argument is the parent's DPtrMax")
			}
			pPD = L.Param(i)
		}
	}
	if pPD == nil {
		problems = append(problems, fmt.Sprintf("no argument of `%s` is the parent's DPtrMax (r.currNode.dPtrMax() evaluated before the child is loaded)", core.Src(k.g.Fset, ds.call.Fun)))
	}

	// (4) the update of the tracking variable happens on every path from the
	// successful call to the next iteration.
	if track != nil {
		head := c15LoopHead(D, ds.loop)
		if head == nil {
			problems = append(problems, "loop head not found in the CFG")
		} else {
			esc, sites := D.Escapes(core.Query{
				Start:  func(n ast.Node) bool { return core.AnyCall(n, c15CallIs(ds.call)) },
				Exit:   func(n ast.Node) bool { return n == head },
				Events: []core.Event{{Node: func(n ast.Node) bool { return c15Within(n, trackUpdate) }}},
			})
			if len(esc) > 0 || sites == 0 {
				d := "no path examined"
				if len(esc) > 0 {
					d = esc[0].String()
				}
				problems = append(problems, fmt.Sprintf("%s is not updated to the child offset on every path to the next iteration (the parent offset would be stale): %s", track.Name(), d))
			}
		}
	}

	// (5) the guard in L.
	linfo := L.F.Info()
	// child DPtrMax in L: currNode.dPtrMax() evaluated after load, or the
	// parameter that L's own guard forces to equal it (childDSize != dPtrMax()).
	var dsizeParam types.Object
	ast.Inspect(L.F.Decl.Body, func(n ast.Node) bool {
		if be, ok := n.(*ast.BinaryExpr); ok && be.Op == token.NEQ {
			for _, pr := range [][2]ast.Expr{{be.X, be.Y}, {be.Y, be.X}} {
				if isParamOf(L, pr[0]) && c15DenotesAll(L, pr[1], x.accessor(L, "dPtrMax")) {
					dsizeParam = c15LocalVar(L, pr[0])
				}
			}
		}
		return true
	})
	afterLoad := func(n ast.Node) bool {
		esc, sites := L.Escapes(core.Query{
			Exit:   func(m ast.Node) bool { return c15Within(m, n) },
			Events: []core.Event{core.CallEvent(c15CallIs(ds.load))},
		})
		return len(esc) == 0 && sites > 0
	}
	childD := func(e ast.Expr) bool {
		e = c15Strip(linfo, e)
		if x.accessor(L, "dPtrMax")(e) {
			return afterLoad(e)
		}
		if v := c15LocalVar(L, e); v != nil {
			if dsizeParam != nil && types.Object(v) == dsizeParam {
				return true // V.parentchild.doffmax proves it equals the child's DPtrMax on the success path
			}
			defs := c15Defs(L, v)
			if len(defs) == 1 && defs[0].Rhs != nil && x.accessor(L, "dPtrMax")(c15Strip(linfo, defs[0].Rhs)) {
				return afterLoad(defs[0].Node)
			}
		}
		return false
	}
	var child, parent []core.ExprPred
	if pOff != nil && pPOff != nil {
		child = append(child, func(e ast.Expr) bool { return L.Is(pOff)(c15Strip(linfo, e)) })
		parent = append(parent, func(e ast.Expr) bool { return L.Is(pPOff)(c15Strip(linfo, e)) })
	} else {
		child, parent = append(child, nil), append(parent, nil)
	}
	if pPD != nil {
		child = append(child, childD)
		parent = append(parent, func(e ast.Expr) bool { return L.Is(pPD)(c15Strip(linfo, e)) })
	} else {
		child, parent = append(child, nil), append(parent, nil)
	}
	// Weak orderings in which NEITHER quantity strictly decreases: sign(child-parent) ∈ {0,+1} for both.
	neither := [][]int{{0, 0}, {0, 1}, {1, 0}, {1, 1}}
	nGuards := 0
	guard := core.Event{Edge: func(cond ast.Expr, ci *core.CondInfo, taken bool) bool {
		if ci != nil && ci.Kind == "tagswitch" {
			return false
		}
		for _, rel := range neither {
			v, known := c15Ord3(cond, child, parent, rel)
			if !known || v == taken {
				return false // this edge can be followed although neither decreases
			}
		}
		nGuards++
		return true
	}}
	esc, sites := L.Escapes(core.Query{
		Events:  []core.Event{guard},
		Exit:    x.successReturn(L),
		FuncEnd: true,
	})
	if len(problems) == 0 && len(esc) == 0 && sites > 0 && nGuards > 0 {
		c.Pass("R.rank", anchor, claim, sites+4,
			fmt.Sprintf("loop at %s: parent Branch COffset tracked in %s (init r.rootNodeCOffset, updated at %s) → parameter %s; parent DPtrMax → parameter %s; guard in %s rejects all 4 weak orderings in which neither decreases",
				loopPos, track.Name(), k.g.Pos(trackUpdate.Pos()), pPOff.Name(), pPD.Name(), L.F.Name()))
		return
	}
	var lines []string
	lines = append(lines, fmt.Sprintf("the descent loop `for {` at %s (in %s) calls %s at %s for every branch child; nothing forces the descent to make progress:", loopPos, D.F.Name(), L.F.Name(), k.g.Pos(ds.call.Pos())))
	for _, p := range problems {
		lines = append(lines, " - "+p)
	}
	if sites == 0 {
		lines = append(lines, " - the load call in "+L.F.Name()+" was not reached in the CFG")
	}
	for _, e := range esc {
		lines = append(lines, " - in "+L.F.Name()+" (which loads the child at "+k.g.Pos(ds.load.Pos())+"): no ranking guard on the path to the accepting exit: "+e.String())
	}
	lines = append(lines, "a self- or mutually-referential branch node (e.g. a 32-byte file whose root lists itself as its only branch child) makes this loop spin forever")
	c.Fail("R.rank", anchor, claim, sites+1, strings.Join(lines, "\n"))
}

// c15LoopHead: the first CFG node executed by each iteration of a condition-less loop.
func c15LoopHead(fl *core.Flow, fs *ast.ForStmt) ast.Node {
	for _, b := range fl.G.Blocks {
		if b.Kind == cfg.KindForBody && b.Stmt == ast.Stmt(fs) {
			bb := b
			for len(bb.Nodes) == 0 && len(bb.Succs) == 1 {
				bb = bb.Succs[0]
			}
			if len(bb.Nodes) > 0 {
				return bb.Nodes[0]
			}
		}
	}
	return nil
}

var _ = sort.Strings
