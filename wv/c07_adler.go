package main

// C07, rule A (Adler-32 constants), decided on the Wuffs ASTs of std/adler32:
//   A.mod   — every `%=` applied to the running sums uses the modulus 65521 (the
//             largest prime below 2^16), and both sums are reduced after each chunk;
//   A.nmax  — the number of bytes summed between two reductions is at most 5552, the
//             largest n with 255·n·(n+1)/2 + (n+1)·(65521−1) ≤ 2^32−1: with more bytes
//             the 32-bit `~mod+` accumulator s2 can wrap before it is reduced and the
//             high half of the checksum is wrong (independently seeded change C07-4
//             raised the SSE4.2 chunk to 5568, "5552 rounded up to a multiple of 32");
//   A.split — the chunk length used in `x.length() > N`, `x[N ..]` and `x[.. N]` of one
//             splitting statement is the same N.
// Both bounds are recomputed from the definition, not copied. Which bytes are summed
// and in what order is NOT decided.

import (
	"fmt"
	"math/big"
	"strings"

	a "github.com/google/wuffs/lang/ast"
	t "github.com/google/wuffs/lang/token"

	"wv/core"
)

func adlerNMax() (mod, nmax int64) {
	// largest prime < 65536
	isPrime := func(n int64) bool {
		for d := int64(2); d*d <= n; d++ {
			if n%d == 0 {
				return false
			}
		}
		return n > 1
	}
	mod = 65535
	for !isPrime(mod) {
		mod--
	}
	limit := new(big.Int).SetUint64(1<<32 - 1)
	for n := int64(1); ; n++ {
		// worst case after n bytes of 0xFF starting from s1 = s2 = mod-1
		v := new(big.Int).SetInt64(255 * n * (n + 1) / 2)
		v.Add(v, new(big.Int).SetInt64((n+1)*(mod-1)))
		if v.Cmp(limit) > 0 {
			return mod, n - 1
		}
	}
}

func runC07Adler(c *core.Ctx, p *WPkg) {
	mod, nmax := adlerNMax()
	nFuncs, nSplits, nMods := 0, 0, 0
	for _, f := range p.Funcs {
		name := p.str(f.FuncName())
		if !strings.HasPrefix(name, "up") {
			continue
		}
		anchor := "std/adler32 " + p.whFname(f)
		var badMod, badMax, badSplit []string
		modVars := map[string]bool{}
		splitsHere := 0
		whStmtWalk(f.Body(), func(o *a.Node) {
			switch o.Kind() {
			case a.KAssign:
				as := o.AsAssign()
				if as.Operator() == t.IDPercentEq {
					nMods++
					cv := as.RHS().ConstValue()
					if cv == nil || !cv.IsInt64() || cv.Int64() != mod {
						badMod = append(badMod, fmt.Sprintf("line %d: `%s %%= %s`: the modulus is not %d", whLine(o), as.LHS().Str(p.TM), as.RHS().Str(p.TM), mod))
					}
					modVars[as.LHS().Str(p.TM)] = true
				}
			case a.KIf:
				n := o.AsIf()
				cond := n.Condition()
				// x.length() > N
				if cond.Operator() != t.IDXBinaryGreaterThan && cond.Operator() != t.IDXBinaryGreaterEq {
					return
				}
				lhs, rhs := cond.LHS().AsExpr(), cond.RHS().AsExpr()
				cv := rhs.ConstValue()
				if cv == nil || !cv.IsInt64() || cv.Int64() < 256 {
					return
				}
				if !strings.HasSuffix(lhs.Str(p.TM), ".length()") {
					return
				}
				N := cv.Int64()
				if cond.Operator() == t.IDXBinaryGreaterEq {
					N--
				}
				nSplits++
				splitsHere++
				if N > nmax {
					badMax = append(badMax, fmt.Sprintf("line %d: `%s`: %d bytes are summed between two reductions, but a 32-bit accumulator holds at most %d (255·n·(n+1)/2 + (n+1)·%d ≤ 2^32−1)", whLine(o), cond.Str(p.TM), N, nmax, mod-1))
				}
				// the slice bounds inside the arm use the same N
				whStmtWalk(n.BodyIfTrue(), func(s *a.Node) {
					for _, e := range whStmtExprs(s) {
						whWalkExpr(e, func(x *a.Expr) {
							if x.Operator() != t.IDDotDot {
								return
							}
							for _, b := range []*a.Node{x.MHS(), x.RHS()} {
								if b == nil {
									continue
								}
								if bv := b.AsExpr().ConstValue(); bv != nil && bv.IsInt64() && bv.Int64() != N {
									badSplit = append(badSplit, fmt.Sprintf("line %d: `%s` splits at %d but the test is against %d", whLine(s), x.Str(p.TM), bv.Int64(), N))
								}
							}
						})
					}
				})
			}
		})
		if splitsHere == 0 && len(modVars) == 0 {
			continue
		}
		nFuncs++
		c.Check(len(badMod) == 0 && len(modVars) >= 2, "A.mod", anchor, fmt.Sprintf("both running sums are reduced modulo %d (the largest prime below 2^16)", mod), len(modVars), strings.Join(append(badMod, fmt.Sprintf("reduced variables: %d", len(modVars))), "\n"))
		c.Check(len(badMax) == 0 && splitsHere > 0, "A.nmax", anchor, fmt.Sprintf("at most %d bytes are summed between two reductions, so the 32-bit accumulators cannot wrap", nmax), splitsHere, strings.Join(badMax, "\n"))
		c.Check(len(badSplit) == 0, "A.split", anchor, "the chunk is split at the length it was tested against", splitsHere, strings.Join(badSplit, "\n"))
	}
	c.Floor("A", "Adler-32 summing functions with a chunk split", nFuncs, 3)
	c.Floor("A.splits", "chunk-split tests", nSplits, 3)
	c.Floor("A.mods", "modular reductions", nMods, 6)
}
